(* The link between C07 and C06: the in-memory text archive reached by ANY history of API calls
   (Model/TextMap.v: tm_run) is exactly what a serialize -> from_bytes round trip returns.

   history_round_trip : for every history of set_message / delete_message / has_message / get_message / set_title
   calls from TextArchive::new (Unicode format, either endianness, either arithmetic mode) whose keys / titles are
   NUL-free ASCII and whose messages are NUL-free Rust strings (Unicode scalar values; the escape sequence
   backslash-n in a message is handled by set_message as in C07), serialize succeeds and from_bytes of the image
   returns the same title, exactly get_entries - same keys in the same order, same messages - and dirty = false.
   Encoding: keys / title pass through to_shift_jis (identity on ASCII), messages through to_utf_16
   (Model/TextCodec.v: utf16_encode, proved inverse to the decoder in Proofs/Utf16Proofs.v). *)
From Coq Require Import List NArith ZArith Bool Lia ZifyBool ZifyNat ZifyN.
From Mila Require Import Lib.Bytes Lib.Machine Model.BinArchive Model.BinFormat Model.TextMap Model.TextFormat Model.TextCodec
  Proofs.TextMapProofs Proofs.TextFormatRead Proofs.TextFormatWrite Proofs.TextFormatRoundTrip Proofs.TextBinBridge Proofs.Utf16Proofs.
Import ListNotations.
Local Open Scope N_scope.

Definition ascii_str (k : str) : Prop := Forall (fun c => 1 <= c /\ c < 128) k.
Definition rust_msg (m : str) : Prop := Forall scalar m /\ ~ In 0 m.

(* ---- invariants of histories, for any class of messages closed under set_message's unescaping ---- *)
Section Invariant.
  Variable Pm : str -> Prop.
  Hypothesis Pm_unescape : forall m, Pm m -> Pm (unescape m).

  Definition entries_in (es : list (str * str)) : Prop := Forall (fun kv => ascii_str (fst kv) /\ Pm (snd kv)) es.
  Definition text_in (t : tmap) : Prop := ascii_str (t_title t) /\ entries_in (t_entries t).
  Definition op_in (o : top) : Prop :=
    match o with
    | TSet k m => ascii_str k /\ Pm m
    | TTitle s => ascii_str s
    | _ => True
    end.

  Lemma e_set_in k v es : ascii_str k -> Pm v -> entries_in es -> entries_in (e_set k v es).
  Proof.
    intros Hk Hv. induction 1 as [|[k' v'] r (Hk' & Hv') Hr IH]; cbn [e_set].
    - constructor; [split; assumption | constructor].
    - destruct (str_eqb k k'); constructor; try assumption; split; assumption.
  Qed.
  Lemma e_del_in k es : entries_in es -> entries_in (e_del k es).
  Proof.
    induction 1 as [|[k' v'] r H Hr IH]; cbn [e_del]; [constructor|]. destruct (str_eqb k k'); [exact Hr | constructor; assumption].
  Qed.
  Lemma step_in t o : op_in o -> text_in t -> text_in (fst (tm_step t o)).
  Proof.
    intros Ho (Ht & He). destruct o as [k m|k|k|k|s]; cbn [tm_step fst op_in] in *.
    - destruct Ho as (Hk & Hm). split; [exact Ht|]. cbn [tm_set t_entries]. apply e_set_in; [exact Hk | apply Pm_unescape; exact Hm | exact He].
    - split; [exact Ht|]. cbn [tm_del t_entries]. apply e_del_in. exact He.
    - split; assumption.
    - split; assumption.
    - split; [exact Ho | exact He].
  Qed.
  Theorem run_in ops : Forall op_in ops -> text_in (tm_run ops).
  Proof.
    induction ops as [|o ops IH] using rev_ind; intros H.
    - split; constructor.
    - rewrite tm_run_snoc. apply Forall_app in H. destruct H as [H1 H2]. inversion H2; subst. apply step_in; [assumption | apply IH; exact H1].
  Qed.
End Invariant.

(* ---- set_message's unescaping keeps a message a NUL-free Rust string / an ASCII string ---- *)
Lemma unescape_forall (P : N -> Prop) : P NL -> forall m, Forall P m -> Forall P (unescape m).
Proof.
  intros Pn m. induction m as [| a | a b l IH1 IH2] using list_ind2; intros H.
  - constructor.
  - exact H.
  - cbn [unescape]. inversion H as [|? ? Ha Hbl]; subst. inversion Hbl as [|? ? Hb Hl]; subst.
    destruct (andb (a =? BS) (b =? LN)).
    + constructor; [exact Pn | apply IH1; exact Hl].
    + constructor; [exact Ha | apply IH2; exact Hbl].
Qed.
Lemma unescape_rust m : rust_msg m -> rust_msg (unescape m).
Proof.
  intros (Hs & Hz). split.
  - apply unescape_forall; [unfold scalar, NL; lia | exact Hs].
  - assert (H : Forall (fun c => c <> 0) (unescape m)).
    { apply unescape_forall; [unfold NL; lia|]. apply Forall_forall. intros c Hc E. subst c. contradiction. }
    rewrite Forall_forall in H. intros Hin. exact (H 0 Hin eq_refl).
Qed.
Lemma unescape_ascii m : ascii_str m -> ascii_str (unescape m).
Proof. apply unescape_forall. unfold NL. lia. Qed.

(* Unicode format: messages = NUL-free Rust strings; legacy format: messages = NUL-free ASCII *)
Definition clean_entries := entries_in rust_msg.
Definition clean_text := text_in rust_msg.
Definition clean_op := op_in rust_msg.
Definition ascii_text := text_in ascii_str.
Definition ascii_op := op_in ascii_str.
Theorem run_clean ops : Forall clean_op ops -> clean_text (tm_run ops).
Proof. apply run_in. exact unescape_rust. Qed.
Theorem run_ascii ops : Forall ascii_op ops -> ascii_text (tm_run ops).
Proof. apply run_in. exact unescape_ascii. Qed.

(* ---- the encoded archive of a clean text archive is in the domain of the C06 round trip ---- *)
Lemma ascii_wfb k : ascii_str k -> wfb k /\ ~ In 0 k.
Proof.
  intros H. split.
  - unfold wfb. eapply Forall_impl; [|exact H]. cbn beta. intros c Hc. lia.
  - intros Hin. unfold ascii_str in H. rewrite Forall_forall in H. specialize (H 0 Hin). lia.
Qed.
Lemma encode_text_keys t : map fst (t_entries (encode_text t)) = map fst (t_entries t).
Proof. cbn [encode_text t_entries]. rewrite map_map. reflexivity. Qed.

Lemma encode_text_wf t : NoDup (map fst (t_entries t)) -> clean_text t -> wf_text Unicode (encode_text t).
Proof.
  intros Hnd (Ht & He). split; [rewrite encode_text_keys; exact Hnd|]. split.
  - intros _. cbn [encode_text t_title]. apply ascii_wfb. exact Ht.
  - cbn [encode_text t_entries]. apply Forall_map. eapply Forall_impl; [|exact He]. cbn beta. intros kv (_ & Hs & Hz).
    cbn [snd]. apply utf16_encode_wf_msg; assumption.
Qed.
Lemma encode_text_wf_bytes e t : clean_text t -> file_bound (text_image Unicode e (encode_text t)) < 2 ^ 32 ->
  wf_text_bytes Unicode e (encode_text t).
Proof.
  intros (Ht & He) Hb. split; [cbn [encode_text t_title]; apply ascii_wfb; exact Ht|]. split; [|exact Hb].
  cbn [encode_text t_entries]. apply Forall_map. eapply Forall_impl; [|exact He]. cbn beta. intros kv (Hk & _). cbn [fst].
  destruct (ascii_wfb _ Hk) as [H1 H2]. repeat split; assumption.
Qed.

Lemma decode_encode_entries es : clean_entries es ->
  decode_entries (map (fun kv : str * str => (fst kv, utf16_encode (snd kv))) es) = Some es.
Proof.
  induction 1 as [|[k v] r (_ & Hs & _) Hr IH]; [reflexivity|]. cbn [map decode_entries fst snd].
  rewrite (utf16_decode_encode v Hs), IH. reflexivity.
Qed.

(* ---- the theorem ---- *)
Theorem text_round_trip_decoded kf m e t : NoDup (map fst (t_entries t)) -> clean_text t ->
  file_bound (text_image Unicode e (encode_text t)) < 2 ^ 32 ->
  exists f, TextFormat.serialize kf m Unicode e (encode_text t) = Ok f /\
    parse_text Unicode e f = Ok (Some {| t_title := t_title t; t_entries := t_entries t; t_dirty := false |}).
Proof.
  intros Hnd Hc Hb.
  destruct (text_round_trip_bytes_final kf m Unicode e (encode_text t) (encode_text_wf t Hnd Hc) (encode_text_wf_bytes e t Hc Hb))
    as (f & t' & Hs & Hp & Ht & He & Hd).
  exists f. split; [exact Hs|]. unfold parse_text. rewrite Hp. cbn [bind]. f_equal.
  cbn [decode_text_fmt]. unfold decode_text. rewrite He. cbn [encode_text t_entries]. rewrite (decode_encode_entries _ (proj2 Hc)). cbn [option_map].
  rewrite (Ht eq_refl), Hd. reflexivity.
Qed.

Theorem history_round_trip kf m e ops : Forall clean_op ops ->
  file_bound (text_image Unicode e (encode_text (tm_run ops))) < 2 ^ 32 ->
  exists f, history_file kf m Unicode e ops = Ok f /\
    parse_text Unicode e f = Ok (Some {| t_title := t_title (tm_run ops); t_entries := t_entries (tm_run ops); t_dirty := false |}).
Proof.
  intros Hc Hb. unfold history_file. cbn [encode_text_fmt]. apply text_round_trip_decoded; [exact (run_nodup ops) | apply run_clean; exact Hc | exact Hb].
Qed.

(* every key of the parsed archive answers get_message as the in-memory archive did (lookup after the round trip) *)
Corollary history_round_trip_lookup kf m e ops : Forall clean_op ops ->
  file_bound (text_image Unicode e (encode_text (tm_run ops))) < 2 ^ 32 ->
  exists f t', history_file kf m Unicode e ops = Ok f /\ parse_text Unicode e f = Ok (Some t') /\
    tm_keys t' = tm_keys (tm_run ops) /\ forall k, tm_get t' k = tm_get (tm_run ops) k.
Proof.
  intros Hc Hb. destruct (history_round_trip kf m e ops Hc Hb) as (f & Hs & Hp).
  eexists f, _. split; [exact Hs|]. split; [exact Hp|]. split; reflexivity.
Qed.

(* ---- the legacy (Shift-JIS) format: NUL-free ASCII messages; the format stores no title, so the parsed title is empty ---- *)
Lemma ascii_text_wf t : NoDup (map fst (t_entries t)) -> ascii_text t -> wf_text ShiftJIS t.
Proof.
  intros Hnd (_ & He). split; [exact Hnd|]. split; [discriminate|].
  eapply Forall_impl; [|exact He]. cbn beta. intros kv (_ & Hm). cbn [wf_msg]. apply ascii_wfb. exact Hm.
Qed.
Lemma ascii_text_wf_bytes e t : ascii_text t -> file_bound (text_image ShiftJIS e t) < 2 ^ 32 -> wf_text_bytes ShiftJIS e t.
Proof.
  intros (Ht & He) Hb. split; [apply ascii_wfb; exact Ht|]. split; [|exact Hb].
  eapply Forall_impl; [|exact He]. cbn beta. intros kv (Hk & Hm).
  destruct (ascii_wfb _ Hk) as [H1 H2]. destruct (ascii_wfb _ Hm) as [H3 _]. repeat split; assumption.
Qed.
Theorem history_round_trip_legacy kf m e ops : Forall ascii_op ops ->
  file_bound (text_image ShiftJIS e (tm_run ops)) < 2 ^ 32 ->
  exists f, history_file kf m ShiftJIS e ops = Ok f /\
    parse_text ShiftJIS e f = Ok (Some {| t_title := []; t_entries := t_entries (tm_run ops); t_dirty := false |}).
Proof.
  intros Hc Hb. pose proof (run_ascii ops Hc) as Ha. unfold history_file. cbn [encode_text_fmt].
  destruct (text_round_trip_bytes_final kf m ShiftJIS e (tm_run ops) (ascii_text_wf _ (run_nodup ops) Ha) (ascii_text_wf_bytes e _ Ha Hb))
    as (f & t' & Hs & Hp & Ht & He & Hd).
  exists f. split; [exact Hs|]. unfold parse_text. rewrite Hp. cbn [bind decode_text_fmt]. f_equal. f_equal.
  assert (Htitle : t_title t' = []).
  { revert Hp. unfold TextFormat.from_bytes. destruct (BinFormat.from_bytes e f) as [a|er|k]; cbn [bind]; try discriminate.
    unfold TextFormat.from_archive. cbn [read_title]. cbn [bind].
    destruct (walk _ _ ShiftJIS a _ []) as [es|er|k]; cbn [bind]; try discriminate. intros E. injection E as <-. reflexivity. }
  destruct t' as [tt te td]. cbn [t_title t_entries t_dirty] in *. subst. reflexivity.
Qed.

(* the size hypothesis is satisfiable by a simple count: 4 bytes per title / message cell rounded up *)
Example history_example :
  let ops := [TTitle [84]; TSet [107;49] [0x1F600; 92; 110; 97]; TSet [107;50] []; TDel [107;49]; TSet [107;49] [0xFEFF]] in
  Forall clean_op ops /\ file_bound (text_image Unicode BE (encode_text (tm_run ops))) < 2 ^ 32 /\
  exists f, history_file key_bytes Checked Unicode BE ops = Ok f /\
    parse_text Unicode BE f = Ok (Some {| t_title := [84]; t_entries := [([107;50], []); ([107;49], [0xFEFF])]; t_dirty := false |}).
Proof.
  cbn zeta. split; [|split].
  - repeat constructor; cbn; unfold scalar; try lia; intuition lia.
  - vm_compute. reflexivity.
  - eexists. split; [vm_compute; reflexivity | vm_compute; reflexivity].
Qed.
