(* What the greedy loop [tokens L x] produces: legal tokens (lengths 3..L, displacements 2..4096 reaching
   only into the input already consumed) that account for every input byte exactly once. *)
From Coq Require Import List NArith Arith Lia Bool ZifyBool ZifyNat ZifyN.
From Mila Require Import Lib.Bytes Model.LZCore Model.LZSpec Proofs.LZCoreProofs.
Import ListNotations.

Lemma wfb_nth x pos : wfb x -> pos < length x -> (nth pos x 0 < 256)%N.
Proof. intros H Hp. unfold wfb in H. rewrite Forall_forall in H. apply H. apply nth_In. exact Hp. Qed.

(* ranges as the compressor guarantees them (displacement at least 2: the candidate loop stops at old_length - 2) *)
Definition tok_range (L : nat) (t : token) : Prop :=
  match t with Lit _ => True | Ref len disp => 3 <= len <= L /\ 2 <= disp <= 4096 end.

Lemma tokens_from_props v fuel : forall L x pos,
  wfb x -> L <= max_len v -> pos <= length x ->
  valid_from v pos (tokens_from fuel L x pos) /\ Forall (tok_range L) (tokens_from fuel L x pos).
Proof.
  induction fuel as [|fuel IH]; intros L x pos Hw HL Hpos; cbn [tokens_from].
  - split; [exact I | constructor].
  - destruct (Nat.leb_spec (length x) pos) as [Hend|Hlt]; [split; [exact I | constructor]|].
    pose proof (occ_ok x pos (Nat.min (length x - pos) L) (pos - Nat.min pos WINDOW) (Nat.min pos WINDOW)) as Hocc.
    destruct (occ x pos (Nat.min (length x - pos) L) (pos - Nat.min pos WINDOW) (Nat.min pos WINDOW)) as [len disp].
    destruct Hocc as (Hl1 & Hl2 & Hm). rewrite skipn_length in Hl2. unfold WINDOW in *.
    destruct (Nat.ltb_spec len 3) as [Hsmall|Hbig].
    + destruct (IH L x (S pos) Hw HL ltac:(lia)) as [Hv Hr].
      split; [cbn [valid_from]; split; [apply wfb_nth; [exact Hw | lia] | exact Hv] | constructor; [exact I | exact Hr]].
    + destruct Hm as [Hz|((Hd1 & Hd2) & _)]; [lia|].
      destruct (IH L x (pos + len) Hw HL ltac:(lia)) as [Hv Hr].
      split.
      * cbn [valid_from]. repeat split; try lia. exact Hv.
      * constructor; [cbn [tok_range]; lia | exact Hr].
Qed.

Lemma tokens_valid v L x : wfb x -> L <= max_len v -> valid v (tokens L x).
Proof. intros Hw HL. unfold valid, tokens. apply (tokens_from_props v (length x) L x 0 Hw HL); lia. Qed.

Lemma tokens_ranges L x : Forall (tok_range L) (tokens L x).
Proof.
  (* the ranges do not depend on the bytes being < 256: re-run the induction without valid_from *)
  unfold tokens. generalize (length x) at 1 as fuel. intros fuel.
  assert (H : forall pos, pos <= length x -> Forall (tok_range L) (tokens_from fuel L x pos)); [|apply H; lia].
  induction fuel as [|fuel IH]; intros pos Hpos; cbn [tokens_from]; [constructor|].
  destruct (Nat.leb_spec (length x) pos) as [Hend|Hlt]; [constructor|].
  pose proof (occ_ok x pos (Nat.min (length x - pos) L) (pos - Nat.min pos WINDOW) (Nat.min pos WINDOW)) as Hocc.
  destruct (occ x pos (Nat.min (length x - pos) L) (pos - Nat.min pos WINDOW) (Nat.min pos WINDOW)) as [len disp].
  destruct Hocc as (Hl1 & Hl2 & Hm). rewrite skipn_length in Hl2. unfold WINDOW in *.
  destruct (Nat.ltb_spec len 3) as [Hsmall|Hbig].
  - constructor; [exact I | apply IH; lia].
  - destruct Hm as [Hz|((Hd1 & Hd2) & _)]; [lia|].
    constructor; [cbn [tok_range]; lia | apply IH; lia].
Qed.

(* every input byte is accounted for exactly once *)
Lemma tokens_from_total fuel : forall L x pos,
  pos <= length x -> length x - pos <= fuel -> pos + total_len (tokens_from fuel L x pos) = length x.
Proof.
  induction fuel as [|fuel IH]; intros L x pos Hpos Hfuel; cbn [tokens_from].
  - cbn [total_len fold_right]. lia.
  - destruct (Nat.leb_spec (length x) pos) as [Hend|Hlt]; [cbn [total_len fold_right]; lia|].
    pose proof (occ_ok x pos (Nat.min (length x - pos) L) (pos - Nat.min pos WINDOW) (Nat.min pos WINDOW)) as Hocc.
    destruct (occ x pos (Nat.min (length x - pos) L) (pos - Nat.min pos WINDOW) (Nat.min pos WINDOW)) as [len disp].
    destruct Hocc as (Hl1 & Hl2 & Hm). rewrite skipn_length in Hl2.
    destruct (Nat.ltb_spec len 3) as [Hsmall|Hbig].
    + change (total_len (Lit (nth pos x 0%N) :: tokens_from fuel L x (S pos))) with (1 + total_len (tokens_from fuel L x (S pos))).
      specialize (IH L x (S pos) ltac:(lia) ltac:(lia)). lia.
    + change (total_len (Ref len disp :: tokens_from fuel L x (pos + len))) with (len + total_len (tokens_from fuel L x (pos + len))).
      specialize (IH L x (pos + len) ltac:(lia) ltac:(lia)). lia.
Qed.

Lemma tokens_total L x : total_len (tokens L x) = length x.
Proof. unfold tokens. pose proof (tokens_from_total (length x) L x 0 ltac:(lia) ltac:(lia)). lia. Qed.

(* a token stands for at least one byte, so there are at most as many tokens as bytes *)
Lemma valid_from_len_pos v : forall ts prod, valid_from v prod ts -> Forall (fun t => 1 <= tok_len t) ts.
Proof.
  induction ts as [|t r IH]; intros prod H; [constructor|].
  destruct t as [b|len disp]; cbn [valid_from] in H.
  - destruct H as [_ H]. constructor; [cbn; lia | eapply IH; exact H].
  - destruct H as (Hl & _ & _ & H). constructor; [cbn; lia | eapply IH; exact H].
Qed.
