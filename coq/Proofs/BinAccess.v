(* Lemmas for property C04: bounds, locality, read-after-write, annotations leave bytes. *)
From Coq Require Import List NArith ZArith Bool Lia ZifyBool ZifyNat ZifyN.
From Mila Require Import Lib.Bytes Lib.Machine Model.BinArchive.
Import ListNotations.
Local Open Scope N_scope.
Ltac Zify.zify_post_hook ::= Z.div_mod_to_equations.

Definition inside (a : archive) (address w : N) : bool := andb (address <? size a) (address + w <=? size a).

Lemma validate_address_false address sz :
  validate_address address sz false = if address <? sz then Ok tt else Err EOob.
Proof. unfold validate_address. cbn [andb negb orb]. destruct (N.leb_spec sz address); destruct (N.ltb_spec address sz); try lia; reflexivity. Qed.
Lemma validate_address_true address sz :
  validate_address address sz true = if address <=? sz then Ok tt else Err EOob.
Proof. unfold validate_address. cbn [andb negb orb]. rewrite orb_false_r. destruct (N.ltb_spec sz address); destruct (N.leb_spec address sz); try lia; reflexivity. Qed.

Lemma check_cell_spec a address w : check_cell a address w = if inside a address w then Ok tt else Err EOob.
Proof.
  unfold check_cell, inside. rewrite validate_address_false, validate_address_true.
  destruct (address <? size a); cbn [bind andb]; [|reflexivity]. destruct (address + w <=? size a); reflexivity.
Qed.

Lemma sliceN_inside d address w : address + w <= lenN d -> exists s, sliceN address w d = Some s /\ lenN s = w.
Proof.
  intros H. destruct (sliceN_Some address w d H) as (s & E). exists s. split; [exact E|]. eapply sliceN_length; eauto.
Qed.

(* ---------------- reads ---------------- *)
Lemma read_uint_spec a address w :
  read_uint a address w =
    if inside a address (N.of_nat w)
    then match sliceN address (N.of_nat w) (a_data a) with Some s => Ok (dec (a_endian a) s) | None => Panic PIndex end
    else Err EOob.
Proof.
  unfold read_uint. rewrite check_cell_spec. destruct (inside a address (N.of_nat w)); cbn [bind]; [|reflexivity].
  unfold slice_or_panic. destruct (sliceN address (N.of_nat w) (a_data a)); reflexivity.
Qed.

Lemma inside_true a address w : inside a address w = true <-> address < size a /\ address + w <= size a.
Proof. unfold inside. rewrite andb_true_iff, N.ltb_lt, N.leb_le. tauto. Qed.

Theorem read_uint_ok_iff a address w :
  (exists v, read_uint a address w = Ok v) <-> (address < size a /\ address + N.of_nat w <= size a).
Proof.
  rewrite read_uint_spec, <- inside_true. destruct (inside a address (N.of_nat w)) eqn:E.
  - apply inside_true in E. destruct (sliceN_inside (a_data a) address (N.of_nat w)) as (s & -> & _); [unfold size in E; lia|].
    split; [reflexivity | eauto].
  - split; [intros [v H]; discriminate | discriminate].
Qed.
Theorem read_uint_never_panics a address w k : read_uint a address w <> Panic k.
Proof.
  rewrite read_uint_spec. destruct (inside a address (N.of_nat w)) eqn:E; [|discriminate].
  apply inside_true in E. destruct (sliceN_inside (a_data a) address (N.of_nat w)) as (s & -> & _); [unfold size in E; lia|]. discriminate.
Qed.
Theorem read_uint_outside a address w :
  ~ (address < size a /\ address + N.of_nat w <= size a) -> read_uint a address w = Err EOob.
Proof. rewrite read_uint_spec, <- inside_true. destruct (inside a address (N.of_nat w)); [tauto | reflexivity]. Qed.

Lemma read_u8_spec a address :
  read_u8 a address = if address <? size a
                      then match sliceN address 1 (a_data a) with Some s => Ok (dec LE s) | None => Panic PIndex end
                      else Err EOob.
Proof.
  unfold read_u8. rewrite validate_address_false. destruct (address <? size a); cbn [bind]; [|reflexivity].
  unfold slice_or_panic. destruct (sliceN address 1 (a_data a)); reflexivity.
Qed.
Theorem read_u8_ok_iff a address : (exists v, read_u8 a address = Ok v) <-> address < size a.
Proof.
  rewrite read_u8_spec. destruct (N.ltb_spec address (size a)) as [H|H].
  - destruct (sliceN_inside (a_data a) address 1) as (s & -> & _); [unfold size in H; lia|]. split; eauto.
  - split; [intros [v E]; discriminate | lia].
Qed.
Theorem read_u8_never_panics a address k : read_u8 a address <> Panic k.
Proof.
  rewrite read_u8_spec. destruct (N.ltb_spec address (size a)) as [H|H]; [|discriminate].
  destruct (sliceN_inside (a_data a) address 1) as (s & -> & _); [unfold size in H; lia|]. discriminate.
Qed.
Theorem read_u8_outside a address : ~ address < size a -> read_u8 a address = Err EOob.
Proof. rewrite read_u8_spec. destruct (N.ltb_spec address (size a)); [tauto | reflexivity]. Qed.

(* read_bytes for every address and amount below 2^64 (also when address + amount >= 2^64) *)
Lemma read_bytes_spec a address amount :
  read_bytes a address amount =
    if andb (inside a address amount) (address + amount <? USIZE_MAX1)
    then match sliceN address amount (a_data a) with Some s => Ok s | None => Panic PIndex end
    else Err EOob.
Proof.
  unfold read_bytes, inside, checked_add64. rewrite validate_address_false.
  destruct (address <? size a); cbn [bind andb]; [|reflexivity].
  destruct (address + amount <? USIZE_MAX1) eqn:E; cbn [of_option bind].
  - rewrite validate_address_true, andb_true_r. destruct (address + amount <=? size a); cbn [bind]; [|reflexivity].
    unfold slice_or_panic. reflexivity.
  - rewrite andb_false_r. reflexivity.
Qed.
Theorem read_bytes_ok_iff a address amount :
  size a < USIZE_MAX1 ->
  ((exists v, read_bytes a address amount = Ok v) <-> (address < size a /\ address + amount <= size a)).
Proof.
  intros Hs. rewrite read_bytes_spec, <- inside_true.
  destruct (inside a address amount) eqn:E; cbn [andb].
  - apply inside_true in E. destruct (N.ltb_spec (address + amount) USIZE_MAX1); [|lia].
    destruct (sliceN_inside (a_data a) address amount) as (s & -> & _); [unfold size in E; lia|]. split; eauto.
  - split; [intros [v H]; discriminate | discriminate].
Qed.
Theorem read_bytes_never_panics a address amount k : read_bytes a address amount <> Panic k.
Proof.
  rewrite read_bytes_spec. destruct (inside a address amount) eqn:E; cbn [andb]; [|discriminate].
  destruct (address + amount <? USIZE_MAX1); [|discriminate].
  apply inside_true in E. destruct (sliceN_inside (a_data a) address amount) as (s & -> & _); [unfold size in E; lia|]. discriminate.
Qed.
Theorem read_bytes_outside a address amount :
  ~ (address < size a /\ address + amount <= size a) -> read_bytes a address amount = Err EOob.
Proof. rewrite read_bytes_spec, <- inside_true. destruct (inside a address amount); [tauto | reflexivity]. Qed.
Theorem read_bytes_value a address amount s :
  read_bytes a address amount = Ok s -> sliceN address amount (a_data a) = Some s.
Proof.
  rewrite read_bytes_spec. destruct (andb _ _); [|discriminate]. destruct (sliceN address amount (a_data a)); congruence.
Qed.

(* ---------------- writes ---------------- *)
Definition same_annotations (a a' : archive) : Prop :=
  a_text a' = a_text a /\ a_ptrs a' = a_ptrs a /\ a_labels a' = a_labels a /\ a_cstrs a' = a_cstrs a /\ a_endian a' = a_endian a.

Definition patched (d : bytes) (address : N) (bs : bytes) : bytes :=
  firstn (N.to_nat address) d ++ bs ++ skipn (N.to_nat (address + lenN bs)) d.

Lemma splice_spec d address bs :
  splice d address bs = if address + lenN bs <=? lenN d then Ok (patched d address bs) else Panic PIndex.
Proof. reflexivity. Qed.

Lemma patched_length d address bs : address + lenN bs <= lenN d -> lenN (patched d address bs) = lenN d.
Proof.
  intros H. unfold patched, lenN in *. rewrite !app_length, firstn_length, skipn_length. lia.
Qed.

Lemma write_bytes_spec a address bs :
  write_bytes a address bs =
    if inside a address (lenN bs) then Ok (set_data a (patched (a_data a) address bs)) else Err EOob.
Proof.
  unfold write_bytes, inside. rewrite validate_address_false, validate_address_true.
  destruct (address <? size a); cbn [bind andb]; [|reflexivity].
  destruct (N.leb_spec (address + lenN bs) (size a)) as [H|H]; cbn [bind]; [|reflexivity].
  rewrite splice_spec. unfold size in H. destruct (N.leb_spec (address + lenN bs) (lenN (a_data a))); [reflexivity | lia].
Qed.

Theorem write_bytes_ok_iff a address bs :
  (exists a', write_bytes a address bs = Ok a') <-> (address < size a /\ address + lenN bs <= size a).
Proof.
  rewrite write_bytes_spec, <- inside_true. destruct (inside a address (lenN bs)); split; eauto; try discriminate.
  intros [a' H]; discriminate.
Qed.
Theorem write_bytes_never_panics a address bs k : write_bytes a address bs <> Panic k.
Proof. rewrite write_bytes_spec. destruct (inside a address (lenN bs)); discriminate. Qed.
Theorem write_bytes_outside a address bs :
  ~ (address < size a /\ address + lenN bs <= size a) -> write_bytes a address bs = Err EOob.
Proof. rewrite write_bytes_spec, <- inside_true. destruct (inside a address (lenN bs)); [tauto | reflexivity]. Qed.

(* a successful write changes only the addressed bytes *)
Theorem write_bytes_local a address bs a' :
  write_bytes a address bs = Ok a' ->
  a_data a' = patched (a_data a) address bs /\ size a' = size a /\ same_annotations a a'.
Proof.
  rewrite write_bytes_spec. destruct (inside a address (lenN bs)) eqn:E; [|discriminate].
  intros H; inversion H; subst a'. apply inside_true in E. unfold size in *. cbn [set_data a_data].
  split; [reflexivity|]. split; [apply patched_length; lia|]. repeat split.
Qed.

Lemma write_uint_spec a address w v :
  write_uint a address w v =
    if inside a address (N.of_nat w) then Ok (set_data a (patched (a_data a) address (enc (a_endian a) w v))) else Err EOob.
Proof.
  unfold write_uint. rewrite check_cell_spec. destruct (inside a address (N.of_nat w)) eqn:E; cbn [bind]; [|reflexivity].
  rewrite splice_spec. apply inside_true in E. unfold lenN at 1. rewrite length_enc. unfold size in E.
  destruct (N.leb_spec (address + N.of_nat w) (lenN (a_data a))); [|lia]. cbn [bind]. reflexivity.
Qed.

(* typed writes are write_bytes of the endian encoding *)
Theorem write_uint_is_write_bytes a address w v :
  write_uint a address w v = write_bytes a address (enc (a_endian a) w v).
Proof. rewrite write_uint_spec, write_bytes_spec. unfold lenN. rewrite length_enc. reflexivity. Qed.

Lemma write_u8_spec a address v :
  write_u8 a address v = if address <? size a then Ok (set_data a (patched (a_data a) address [v])) else Err EOob.
Proof.
  unfold write_u8. rewrite validate_address_false. destruct (N.ltb_spec address (size a)) as [H|H]; cbn [bind]; [|reflexivity].
  rewrite splice_spec. change (lenN [v]) with 1. unfold size in H. destruct (N.leb_spec (address + 1) (lenN (a_data a))); [reflexivity | lia].
Qed.
Theorem write_u8_is_write_bytes a address v : write_u8 a address v = write_bytes a address [v].
Proof.
  rewrite write_u8_spec, write_bytes_spec. unfold inside. change (lenN [v]) with 1.
  destruct (N.ltb_spec address (size a)); cbn [andb]; [|reflexivity]. destruct (N.leb_spec (address + 1) (size a)); [reflexivity | lia].
Qed.

(* reading back what was written *)
Lemma sliceN_patched d address bs : address + lenN bs <= lenN d -> sliceN address (lenN bs) (patched d address bs) = Some bs.
Proof.
  intros H. unfold patched.
  assert (L : lenN (firstn (N.to_nat address) d) = address).
  { unfold lenN in *. rewrite firstn_length. lia. }
  rewrite <- L at 1. apply sliceN_app_exact.
Qed.

Theorem read_after_write_uint a address w v a' :
  v < 256 ^ N.of_nat w -> write_uint a address w v = Ok a' -> read_uint a' address w = Ok v.
Proof.
  intros Hv. rewrite write_uint_spec. destruct (inside a address (N.of_nat w)) eqn:E; [|discriminate].
  intros H; inversion H; subst a'. clear H. rewrite read_uint_spec. apply inside_true in E. unfold size in E.
  assert (Hl : lenN (enc (a_endian a) w v) = N.of_nat w) by (unfold lenN; rewrite length_enc; reflexivity).
  assert (Hin : inside (set_data a (patched (a_data a) address (enc (a_endian a) w v))) address (N.of_nat w) = true).
  { apply inside_true. unfold size. cbn [set_data a_data]. rewrite patched_length by lia. exact E. }
  rewrite Hin. cbn [set_data a_data a_endian]. rewrite <- Hl at 1. rewrite sliceN_patched by lia.
  rewrite dec_enc by exact Hv. reflexivity.
Qed.

Theorem read_after_write_u8 a address v a' :
  v < 256 -> write_u8 a address v = Ok a' -> read_u8 a' address = Ok v.
Proof.
  intros Hv. rewrite write_u8_spec. destruct (N.ltb_spec address (size a)) as [E|E]; [|discriminate].
  intros H; inversion H; subst a'. clear H. rewrite read_u8_spec. unfold size in *. cbn [set_data a_data].
  change (lenN [v]) with 1 in *. rewrite patched_length by (change (lenN [v]) with 1; lia).
  destruct (N.ltb_spec address (lenN (a_data a))); [|lia].
  change 1 with (lenN [v]) at 1. rewrite sliceN_patched by (change (lenN [v]) with 1; lia).
  cbn [dec dec_le]. f_equal. lia.
Qed.

Theorem read_after_write_bytes a address bs a' :
  size a < USIZE_MAX1 ->
  write_bytes a address bs = Ok a' -> read_bytes a' address (lenN bs) = Ok bs.
Proof.
  intros Hs. rewrite write_bytes_spec. destruct (inside a address (lenN bs)) eqn:E; [|discriminate].
  intros H; inversion H; subst a'. clear H. rewrite read_bytes_spec. apply inside_true in E. unfold size in *.
  assert (Hin : inside (set_data a (patched (a_data a) address bs)) address (lenN bs) = true).
  { apply inside_true. unfold size. cbn [set_data a_data]. rewrite patched_length by lia. exact E. }
  rewrite Hin. cbn [set_data a_data andb].
  rewrite sliceN_patched by lia.
  destruct (N.ltb_spec (address + lenN bs) USIZE_MAX1); [reflexivity | lia].
Qed.

(* signed values: two's complement round trip *)
Lemma signed_round_trip w z : 0 < w -> (- Z.of_N (2 ^ (w - 1)) <= z < Z.of_N (2 ^ (w - 1)))%Z ->
  to_signed w (of_signed w z) = z /\ of_signed w z < 2 ^ w.
Proof.
  intros Hw Hz. unfold to_signed, of_signed.
  assert (E : 2 ^ w = 2 * 2 ^ (w - 1)).
  { replace w with (N.succ (w - 1)) at 1 by lia. rewrite N.pow_succ_r'. reflexivity. }
  assert (P : 0 < 2 ^ (w - 1)) by (apply N.neq_0_lt_0, N.pow_nonzero; lia).
  rewrite E. remember (2 ^ (w - 1)) as h eqn:Eh. clear Eh E Hw w.
  assert (M : (z mod Z.of_N (2 * h) = if (z <? 0)%Z then z + Z.of_N (2 * h) else z)%Z).
  { destruct (Z.ltb_spec z 0) as [Hn|Hp].
    - symmetry. apply (Z.mod_unique z (Z.of_N (2 * h)) (-1) (z + Z.of_N (2 * h))); lia.
    - apply Z.mod_small. lia. }
  rewrite M. destruct (Z.ltb_spec z 0) as [Hn|Hp].
  - destruct (N.ltb_spec (Z.to_N (z + Z.of_N (2 * h))) h); split; lia.
  - destruct (N.ltb_spec (Z.to_N z) h); split; lia.
Qed.
