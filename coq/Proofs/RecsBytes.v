(* From the archive level to the byte level (C17, C18).
   BinArchive::serialize followed by from_bytes does not return the same archive VALUE: map
   orders differ and a string cell holds the text pointer instead of zero bytes.  What it
   preserves is what a reader can observe: [obs_equal].  This file defines
     - [obs_equal a a']   : same size and endianness, same bytes outside the string/pointer cells
                            of [a], same string / pointer / label lookups at every address;
     - [ba_wf a]          : the archives our writers build (the premise under which the bin-archive
                            round trip C01 is used): little endian, no pointers, no pending
                            c-strings, aligned string cells inside the data, NUL-free strings and
                            label names, distinct keys, image below 2^32;
   and proves that an archive built from cells satisfies [ba_wf] and that [obs_equal] carries the
   cell layout (hence everything a reader returns) from the built archive to the re-parsed one. *)
From Coq Require Import List NArith ZArith Bool Lia ZifyBool ZifyNat ZifyN Arith.
From Mila Require Import Lib.Bytes Lib.Machine Model.BinArchive Model.BinStreams
  Proofs.AMapLemmas Proofs.BinAccess Proofs.BinAccess2 Proofs.RecsCells.
Import ListNotations.
Local Open Scope N_scope.
Ltac Zify.zify_post_hook ::= Z.div_mod_to_equations.

(* byte x lies in a string cell or a pointer cell of a *)
Definition covered (a : archive) (x : N) : Prop :=
  exists c, (In c (am_keys (a_text a)) \/ In c (am_keys (a_ptrs a))) /\ c <= x < c + 4.

Definition obs_equal (a a' : archive) : Prop :=
  size a' = size a /\ a_endian a' = a_endian a /\
  (forall x, x < size a -> ~ covered a x -> nth_error (a_data a') (N.to_nat x) = nth_error (a_data a) (N.to_nat x)) /\
  (forall x, am_get x (a_text a') = am_get x (a_text a)) /\
  (forall x, am_get x (a_ptrs a') = am_get x (a_ptrs a)) /\
  (forall x, am_get x (a_labels a') = am_get x (a_labels a)) /\
  NoDup (am_keys (a_labels a')).

(* ---- upper bound of the size of the file image (no sharing of equal strings assumed) ---- *)
Fixpoint text_weight (t : amap bytes) : N :=
  match t with [] => 0 | (_, s) :: r => 4 + lenN s + 1 + text_weight r end.
Fixpoint bucket_weight (b : list bytes) : N :=
  match b with [] => 0 | l :: r => 8 + lenN l + 1 + bucket_weight r end.
Fixpoint labels_weight (ls : amap (list bytes)) : N :=
  match ls with [] => 0 | (_, b) :: r => bucket_weight b + labels_weight r end.
Definition image_bound (a : archive) : N := size a + text_weight (a_text a) + labels_weight (a_labels a) + 32.

Definition str_ok (s : bytes) : Prop := ~ In 0 s /\ wfb s.

Record ba_wf (a : archive) : Prop := {
  bw_endian : a_endian a = LE;
  bw_cstrs : a_cstrs a = [];
  bw_ptrs : a_ptrs a = [];
  bw_data : wfb (a_data a);
  bw_size : size a mod 4 = 0;
  bw_text_keys : NoDup (am_keys (a_text a));
  bw_text : forall k s, In (k, s) (a_text a) -> k mod 4 = 0 /\ k + 4 <= size a /\ str_ok s;
  bw_label_keys : NoDup (am_keys (a_labels a));
  bw_labels : forall k b, In (k, b) (a_labels a) -> k mod 4 = 0 /\ k <= size a /\ b <> [] /\ Forall str_ok b;
  bw_fits : image_bound a < 2 ^ 32 }.

(* ================================================================== cells that make a well-formed archive *)
Definition cell_ok (c : cell) : Prop :=
  match c with
  | CRaw bs => wfb bs /\ lenN bs mod 4 = 0
  | CStr (Some s) => str_ok s
  | CStr None => True
  end.
Fixpoint cells_weight (cs : list cell) : N :=
  match cs with
  | [] => 0
  | CStr (Some s) :: r => 4 + lenN s + 1 + cells_weight r
  | _ :: r => cells_weight r
  end.

Lemma cells_weight_app a b : cells_weight (a ++ b) = cells_weight a + cells_weight b.
Proof. induction a as [|c r IH]; cbn [app cells_weight]; [reflexivity|]. destruct c as [bs|[s|]]; rewrite IH; lia. Qed.
Lemma text_weight_cells p cs : text_weight (cells_text p cs) = cells_weight cs.
Proof.
  revert p; induction cs as [|c r IH]; intros p; cbn [cells_text cells_weight]; [reflexivity|].
  destruct c as [bs|[s|]]; cbn [text_weight]; rewrite IH; reflexivity.
Qed.
Lemma cells_size_mod4 cs : Forall cell_ok cs -> cells_size cs mod 4 = 0.
Proof.
  induction 1 as [|c r Hc Hr IH]; cbn [cells_size]; [reflexivity|].
  destruct c as [bs|o]; cbn [cell_size cell_ok] in *; [destruct Hc|]; lia.
Qed.
Lemma wfb_cells_bytes cs : Forall cell_ok cs -> wfb (cells_bytes cs).
Proof.
  induction 1 as [|c r Hc Hr IH]; cbn [cells_bytes]; [constructor|]. apply wfb_app; [|exact IH].
  destruct c as [bs|o]; cbn [cell_bytes cell_ok] in *; [tauto | apply wfb_zeros].
Qed.
Lemma cells_text_ok cs : Forall cell_ok cs -> forall p k s, p mod 4 = 0 -> In (k, s) (cells_text p cs) ->
  k mod 4 = 0 /\ p <= k /\ k + 4 <= p + cells_size cs /\ str_ok s.
Proof.
  induction 1 as [|c r Hc Hr IH]; intros p k s Hp Hin; cbn [cells_text cells_size] in *; [destruct Hin|].
  destruct c as [bs|[s'|]]; cbn [cell_size cell_ok In] in *.
  - destruct Hc as [_ Hm]. apply IH in Hin; [|lia]. destruct Hin as (H1 & H2 & H3 & H4).
    split; [lia|]. split; [lia|]. split; [lia | exact H4].
  - destruct Hin as [Hin|Hin].
    + inversion Hin; subst. split; [lia|]. split; [lia|]. split; [lia | exact Hc].
    + apply IH in Hin; [|lia]. destruct Hin as (H1 & H2 & H3 & H4).
      split; [lia|]. split; [lia|]. split; [lia | exact H4].
  - apply IH in Hin; [|lia]. destruct Hin as (H1 & H2 & H3 & H4).
    split; [lia|]. split; [lia|]. split; [lia | exact H4].
Qed.

(* the archive made of cells and a label map *)
Definition arch_of (cs : list cell) (lbls : amap (list bytes)) : archive :=
  {| a_data := cells_bytes cs; a_text := cells_text 0 cs; a_ptrs := []; a_labels := lbls; a_cstrs := []; a_endian := LE |}.

Lemma arch_of_append cs : append_cells (ba_new LE) cs = arch_of cs [].
Proof. reflexivity. Qed.
Lemma size_arch_of cs lbls : size (arch_of cs lbls) = cells_size cs.
Proof. unfold size, arch_of. cbn [a_data]. apply lenN_cells_bytes. Qed.

Lemma arch_of_wf cs lbls :
  Forall cell_ok cs ->
  NoDup (am_keys lbls) ->
  (forall k b, In (k, b) lbls -> k mod 4 = 0 /\ k <= cells_size cs /\ b <> [] /\ Forall str_ok b) ->
  cells_size cs + cells_weight cs + labels_weight lbls + 32 < 2 ^ 32 ->
  ba_wf (arch_of cs lbls).
Proof.
  intros Hc Hnd Hl Hf. constructor; try reflexivity.
  - apply wfb_cells_bytes. exact Hc.
  - rewrite size_arch_of. apply cells_size_mod4. exact Hc.
  - apply cells_text_keys_nodup.
  - intros k s Hin. cbn [arch_of a_text] in Hin. rewrite size_arch_of.
    destruct (cells_text_ok cs Hc 0 k s eq_refl Hin) as (H1 & _ & H3 & H4). split; [exact H1|]. split; [lia | exact H4].
  - exact Hnd.
  - intros k b Hin. rewrite size_arch_of. apply Hl. exact Hin.
  - unfold image_bound. rewrite size_arch_of. cbn [arch_of a_text a_labels]. rewrite text_weight_cells. exact Hf.
Qed.

(* ================================================================== layout survives obs_equal *)
Lemma firstn_skipn_ext : forall n p (d d' : bytes),
  (forall i, (i < n)%nat -> nth_error d (p + i) = nth_error d' (p + i)) ->
  (p + n <= length d)%nat -> (p + n <= length d')%nat ->
  firstn n (skipn p d) = firstn n (skipn p d').
Proof.
  induction n as [|n IH]; intros p d d' H L L'; [reflexivity|].
  destruct (nth_error d p) as [x|] eqn:Ex; [|apply nth_error_None in Ex; lia].
  pose proof (H 0%nat ltac:(lia)) as H0. rewrite Nat.add_0_r in H0. rewrite Ex in H0. symmetry in H0.
  rewrite (firstn_skipn_S d p n x Ex), (firstn_skipn_S d' p n x H0). f_equal.
  apply IH; try lia. intros i Hi. specialize (H (S i) ltac:(lia)). replace (S p + i)%nat with (p + S i)%nat by lia. exact H.
Qed.
Lemma sliceN_ext p n (d d' : bytes) :
  lenN d' = lenN d ->
  (forall x, p <= x < p + n -> nth_error d' (N.to_nat x) = nth_error d (N.to_nat x)) ->
  sliceN p n d' = sliceN p n d.
Proof.
  intros L H. unfold sliceN. rewrite L. destruct (N.leb_spec (p + n) (lenN d)) as [Hle|]; [|reflexivity]. f_equal.
  apply firstn_skipn_ext; unfold lenN in *; try lia.
  intros i Hi. specialize (H (p + N.of_nat i) ltac:(lia)). replace (N.to_nat (p + N.of_nat i)) with (N.to_nat p + i)%nat in H by lia. exact H.
Qed.

Section Transfer.
Variables (whole : list cell) (lbls : amap (list bytes)) (a' : archive).
Hypothesis OE : obs_equal (arch_of whole lbls) a'.

Lemma transfer_gen : forall cs done, whole = done ++ cs -> layout a' (cells_size done) cs.
Proof.
  destruct OE as (Hsz & Hen & Hdata & Htext & _ & _ & _).
  rewrite size_arch_of in Hsz, Hdata.
  induction cs as [|c r IH]; intros done E; cbn [layout]; [exact I|]. split.
  - destruct c as [bs|o]; cbn [cell_at].
    + (* raw bytes: not covered by any string cell of the cell archive *)
      assert (S0 : sliceN (cells_size done) (lenN bs) (cells_bytes whole) = Some bs).
      { rewrite E, cells_bytes_app. cbn [cells_bytes cell_bytes]. rewrite <- lenN_cells_bytes. apply sliceN_app_exact. }
      rewrite <- S0. apply sliceN_ext.
      * change (lenN (a_data a')) with (size a'). rewrite Hsz. symmetry. apply lenN_cells_bytes.
      * intros x Hx. apply Hdata.
        -- rewrite E, cells_size_app. cbn [cells_size cell_size]. lia.
        -- intros (k & Hk & Hr). cbn [arch_of a_text a_ptrs] in Hk. destruct Hk as [Hk|Hk]; [|destruct Hk].
           rewrite E, cells_text_app, am_keys_app, in_app_iff in Hk. cbn [cells_text cell_size] in Hk.
           destruct Hk as [Hk|Hk]; apply cells_text_keys in Hk; lia.
    + split.
      * rewrite Hsz, E, cells_size_app. cbn [cells_size cell_size]. lia.
      * rewrite Htext. cbn [arch_of a_text]. rewrite E, cells_text_app.
        rewrite am_get_app_notin. 2:{ intros H. apply cells_text_keys in H. lia. }
        rewrite N.add_0_l. destruct o as [s|]; cbn [cells_text am_get cell_size].
        -- rewrite N.eqb_refl. reflexivity.
        -- apply am_get_none. intros H. apply cells_text_keys in H. lia.
  - specialize (IH (done ++ [c])). rewrite cells_size_app in IH. cbn [cells_size] in IH. rewrite N.add_0_r in IH.
    apply IH. rewrite E, <- app_assoc. reflexivity.
Qed.

Theorem layout_obs_equal : layout a' 0 whole /\ size a' = cells_size whole /\ a_endian a' = LE.
Proof.
  split; [exact (transfer_gen whole [] eq_refl)|].
  destruct OE as (Hsz & Hen & _). rewrite size_arch_of in Hsz. split; [exact Hsz | exact Hen].
Qed.
End Transfer.
