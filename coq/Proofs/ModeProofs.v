(* Mode independence stated for the MODED models (Model/PixelM.v): both modes agree because, on u16 dimensions and byte
   payloads, no machine operation overflows (Proofs/PixelMProofs.v).  Also the integer model of the binary32 size product
   of ctpk::read. *)
From Coq Require Import List NArith ZArith Arith Lia Bool ZifyBool ZifyNat ZifyN.
From Mila Require Import Lib.Bytes Lib.Machine Model.Pixel Model.PixelSpec Model.PixelM Model.Etc1
  Proofs.TexFinite Proofs.PixelMProofs Proofs.PixelAssembly.
Import ListNotations.
Local Open Scope N_scope.
Ltac Zify.zify_post_hook ::= Z.div_mod_to_equations.

Theorem raw_moded_mode_independent : forall data w h fmt, 4 * (w * h) < 2 ^ 64 -> wfb data ->
  decode_rgba_pixels_m Checked data w h fmt = decode_rgba_pixels_m Wrapping data w h fmt.
Proof. intros data w h fmt Hsz W. rewrite !decode_rgba_pixels_m_ok by assumption. apply rgba_mode_independent, Hsz. Qed.

Theorem rgb5a3_moded_mode_independent : forall v, v < 65536 -> decode_rgb5a3_pixel_m Checked v = decode_rgb5a3_pixel_m Wrapping v.
Proof. intros v Hv. rewrite !decode_rgb5a3_pixel_m_ok by exact Hv. reflexivity. Qed.

Theorem palette_moded_mode_independent : forall pal_data img w h, w < 65536 -> h < 65536 ->
  wfb pal_data -> lenN pal_data < 2 ^ 64 -> wfb img ->
  tpl_ci8_image_m Checked pal_data img w h = tpl_ci8_image_m Wrapping pal_data img w h.
Proof. intros. rewrite !tpl_ci8_image_m_ok by assumption. reflexivity. Qed.

(* ---------------- (bpp * w as f32 * h as f32) as usize ---------------- *)
Lemma round24_small p : p < 2 ^ 24 -> round24 p = p.
Proof. intros H. unfold round24. destruct (N.ltb_spec p (2 ^ 24)); [reflexivity|lia]. Qed.

Theorem payload_size_f32_exact : forall fmt w h, round24 (bpp2 fmt * w * h) = bpp2 fmt * w * h ->
  payload_size_f32 fmt w h = payload_size fmt w h.
Proof. intros fmt w h E. unfold payload_size_f32, payload_size. rewrite E. reflexivity. Qed.

Theorem payload_size_f32_listed : forall fmt w h, listed_format fmt = true -> w mod 8 = 0 -> h mod 8 = 0 ->
  round24 (bpp2 fmt * w * h) = bpp2 fmt * w * h -> payload_size_f32 fmt w h = required_size fmt w h.
Proof. intros fmt w h Hf Hw Hh E. rewrite payload_size_f32_exact by exact E. apply payload_size_listed; assumption. Qed.

Corollary payload_size_f32_small : forall fmt w h, listed_format fmt = true -> w mod 8 = 0 -> h mod 8 = 0 ->
  bpp2 fmt * w * h < 2 ^ 24 -> payload_size_f32 fmt w h = required_size fmt w h.
Proof. intros fmt w h Hf Hw Hh B. apply payload_size_f32_listed; try assumption. apply round24_small, B. Qed.

(* exact whenever the product is a 24-bit number times a power of two: for the power-of-two bytes-per-pixel values
   (all nine listed formats) that is w * h < 2^24, and far beyond for sides with many factors of two *)
Lemma round24_pow2_multiple k n : n < 2 ^ 24 -> round24 (2 ^ k * n) = 2 ^ k * n.
Proof.
  intros Hn. unfold round24. destruct (N.ltb_spec (2 ^ k * n) (2 ^ 24)) as [|Hp]; [reflexivity|].
  assert (Pn : 0 < n).
  { destruct (N.eq_dec n 0) as [->|]; [|lia]. exfalso. revert Hp. rewrite N.mul_0_r. vm_compute. intros H. apply H. reflexivity. }
  assert (L : N.log2 (2 ^ k * n) = k + N.log2 n) by (rewrite N.mul_comm, N.log2_mul_pow2 by lia; lia).
  assert (Ln : N.log2 n < 24) by (apply N.log2_lt_pow2; assumption).
  rewrite L. set (e := k + N.log2 n - 23).
  assert (Ek : e <= k) by (unfold e; lia).
  assert (D : 2 ^ k * n = (2 ^ (k - e) * n) * 2 ^ e).
  { replace k with ((k - e) + e) at 1 by lia. rewrite N.pow_add_r. lia. }
  assert (P : 2 ^ e <> 0) by (apply N.pow_nonzero; lia).
  set (c := 2 ^ (k - e) * n) in *. set (p := 2 ^ k * n) in *.
  assert (Q : p / 2 ^ e = c) by (rewrite D; apply N.div_mul; exact P).
  assert (R : p mod 2 ^ e = 0) by (rewrite D; apply N.mod_mul; exact P).
  rewrite Q, R.
  assert (H0 : 0 < 2 ^ (e - 1)) by (apply N.neq_0_lt_0, N.pow_nonzero; lia).
  destruct (N.ltb_spec (2 ^ (e - 1)) 0); [lia|]. destruct (N.eqb_spec 0 (2 ^ (e - 1))); [lia|]. cbn [orb andb].
  symmetry. exact D.
Qed.

Theorem payload_size_f32_pow2_bpp : forall fmt w h, listed_format fmt = true -> w mod 8 = 0 -> h mod 8 = 0 ->
  w * h < 2 ^ 24 -> payload_size_f32 fmt w h = required_size fmt w h.
Proof.
  intros fmt w h Hf Hw Hh B. apply payload_size_f32_listed; try assumption.
  assert (C : exists k, bpp2 fmt = 2 ^ k).
  { unfold listed_format in Hf. apply orb_prop in Hf. destruct Hf as [Hf|Hf]; [apply orb_prop in Hf; destruct Hf as [Hf|Hf]|].
    - apply listed_cases in Hf. destruct Hf as [->|[->|[->|[->|[->|[->| ->]]]]]];
        [exists 3|exists 2|exists 2|exists 2|exists 2|exists 1|exists 1]; reflexivity.
    - apply N.eqb_eq in Hf. subst. exists 0. reflexivity.
    - apply N.eqb_eq in Hf. subst. exists 1. reflexivity. }
  destruct C as (k & ->). rewrite <- N.mul_assoc. apply round24_pow2_multiple, B.
Qed.

(* the reviewer's counterexample (executed on the real crate: 1074135040): the binary32 product is NOT the exact size *)
Example payload_size_f32_inexact : payload_size_f32 7 65528 16392 = 1074135040 /\ payload_size 7 65528 16392 = 1074134976.
Proof. split; vm_compute; reflexivity. Qed.
(* all 25 sizes x all nine formats of the property are exact *)
Example payload_size_f32_domain :
  forallb (fun fmt => forallb (fun w => forallb (fun h => payload_size_f32 fmt w h =? payload_size fmt w h) [8; 16; 32; 64; 128])
                                     [8; 16; 32; 64; 128]) [0; 2; 3; 4; 5; 7; 8; 12; 13] = true.
Proof. vm_compute. reflexivity. Qed.
