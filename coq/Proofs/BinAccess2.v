(* C04, second part: annotation accessors never disturb raw bytes; stream readers/writers
   are the positional calls at the cursor and advance by the width iff they succeed. *)
From Coq Require Import List NArith ZArith Bool Lia ZifyBool ZifyNat ZifyN.
From Mila Require Import Lib.Bytes Lib.Machine Model.BinArchive Model.BinStreams Proofs.BinAccess.
Import ListNotations.
Local Open Scope N_scope.

Ltac inv_ok H :=
  repeat match type of H with
         | bind ?c _ = Ok _ => let x := fresh "x" in let Hx := fresh "Hx" in
                               apply bind_Ok_inv in H; destruct H as (x & Hx & H)
         end.

Lemma keep_data_string a address v a' : write_string a address v = Ok a' -> a_data a' = a_data a.
Proof. destruct v; unfold write_string, delete_string; intros H; inv_ok H; inversion H; reflexivity. Qed.
Lemma keep_data_pointer a address v a' : write_pointer a address v = Ok a' -> a_data a' = a_data a.
Proof. destruct v; unfold write_pointer, delete_pointer; intros H; inv_ok H; inversion H; reflexivity. Qed.
Lemma keep_data_labels a address ls a' : write_labels a address ls = Ok a' -> a_data a' = a_data a.
Proof. unfold write_labels; intros H; inv_ok H; inversion H; reflexivity. Qed.
Lemma keep_data_label a address l a' : write_label a address l = Ok a' -> a_data a' = a_data a.
Proof. unfold write_label; intros H; inv_ok H. destruct (am_get address (a_labels a)); inversion H; reflexivity. Qed.
Lemma keep_data_c_string a address s a' : write_c_string a address s = Ok a' -> a_data a' = a_data a.
Proof. unfold write_c_string; intros H; inv_ok H; inversion H; reflexivity. Qed.
Lemma keep_data_delete_string a address a' : delete_string a address = Ok a' -> a_data a' = a_data a.
Proof. unfold delete_string; intros H; inv_ok H; inversion H; reflexivity. Qed.
Lemma keep_data_delete_pointer a address a' : delete_pointer a address = Ok a' -> a_data a' = a_data a.
Proof. unfold delete_pointer; intros H; inv_ok H; inversion H; reflexivity. Qed.
Lemma keep_data_delete_labels a address a' : delete_labels a address = Ok a' -> a_data a' = a_data a.
Proof. unfold delete_labels; intros H; inv_ok H; inversion H; reflexivity. Qed.
Lemma keep_data_delete_label a address i a' : delete_label a address i = Ok a' -> a_data a' = a_data a.
Proof.
  unfold delete_label; intros H; inv_ok H. destruct (am_get address (a_labels a)); [|inversion H; reflexivity].
  destruct (i <? _); inversion H; reflexivity.
Qed.

(* the annotation accessors accept exactly the cells [address, address+4) inside the data
   (labels: any address <= size) and otherwise report out-of-bounds *)
Lemma read_string_spec a address :
  read_string a address = if inside a address 4 then Ok (am_get address (a_text a)) else Err EOob.
Proof. unfold read_string. rewrite check_cell_spec. destruct (inside a address 4); reflexivity. Qed.
Lemma read_pointer_spec a address :
  read_pointer a address = if inside a address 4 then Ok (am_get address (a_ptrs a)) else Err EOob.
Proof. unfold read_pointer. rewrite check_cell_spec. destruct (inside a address 4); reflexivity. Qed.
Lemma read_labels_spec a address :
  read_labels a address = if inside a address 4 then Ok (am_get address (a_labels a)) else Err EOob.
Proof. unfold read_labels. rewrite check_cell_spec. destruct (inside a address 4); reflexivity. Qed.

(* ---------------- streams ---------------- *)
Lemma rd_spec {A} (r : outcome A) pos w : rd r pos w = (r, if is_ok r then pos + w else pos).
Proof. destruct r; reflexivity. Qed.

Definition unit_of {A} (r : outcome A) : outcome unit :=
  match r with Ok _ => Ok tt | Err e => Err e | Panic k => Panic k end.
Definition arch_of (r : outcome archive) (a : archive) : archive := match r with Ok a' => a' | _ => a end.
Lemma wr_spec (r : outcome archive) a pos w :
  wr r a pos w = (unit_of r, arch_of r a, if is_ok r then pos + w else pos).
Proof. destruct r; reflexivity. Qed.

Lemma firstn_skipn_S {A} (l : list A) k n v :
  nth_error l k = Some v -> firstn (S n) (skipn k l) = v :: firstn n (skipn (S k) l).
Proof.
  revert l; induction k as [|k IH]; intros [|x l] H; cbn [nth_error] in H; try discriminate.
  - inversion H; subst. reflexivity.
  - change (skipn (S k) (x :: l)) with (skipn k l). change (skipn (S (S k)) (x :: l)) with (skipn (S k) l). apply IH; exact H.
Qed.

Lemma read_u8_value a pos v :
  read_u8 a pos = Ok v -> pos < size a /\ nth_error (a_data a) (N.to_nat pos) = Some v.
Proof.
  rewrite read_u8_spec. destruct (N.ltb_spec pos (size a)) as [H|H]; [|discriminate].
  unfold sliceN. unfold size in H. destruct (N.leb_spec (pos + 1) (lenN (a_data a))); [|lia].
  intros E. split; [exact H|]. change (N.to_nat 1) with 1%nat in E.
  destruct (nth_error (a_data a) (N.to_nat pos)) as [x|] eqn:Ex.
  - rewrite (firstn_skipn_S _ _ 0 x Ex) in E. cbn [firstn dec dec_le] in E. inversion E. f_equal. lia.
  - apply nth_error_None in Ex. unfold lenN in H. lia.
Qed.

Lemma r_read_bytes_loop_spec : forall n a pos acc bs p,
  r_read_bytes_loop n a pos acc = (Ok bs, p) ->
  p = pos + N.of_nat n /\ (n <> 0%nat -> pos + N.of_nat n <= size a) /\
  bs = rev acc ++ firstn n (skipn (N.to_nat pos) (a_data a)).
Proof.
  induction n as [|n IH]; intros a pos acc bs p H; cbn [r_read_bytes_loop] in H.
  - inversion H; subst. cbn [firstn]. rewrite app_nil_r. repeat split; [lia | congruence].
  - unfold r_read_u8 in H. rewrite rd_spec in H. destruct (read_u8 a pos) as [v|e|k] eqn:Ev; cbn [is_ok] in H; try discriminate.
    destruct (read_u8_value a pos v Ev) as [Hlt Hnth].
    apply IH in H. destruct H as (Hp & Hle & Hbs). split; [lia|]. split.
    + intros _. destruct n as [|n']; [lia|]. specialize (Hle ltac:(discriminate)). lia.
    + rewrite Hbs. cbn [rev]. rewrite <- app_assoc. cbn [app]. f_equal.
      rewrite (firstn_skipn_S _ _ n v Hnth). f_equal. f_equal. f_equal. lia.
Qed.

(* a successful stream read_bytes(count >= 1) is the positional block read and advances by count *)
Theorem r_read_bytes_positional a pos count bs p :
  size a < USIZE_MAX1 -> pos < USIZE_MAX1 -> count < USIZE_MAX1 -> 1 <= count ->
  r_read_bytes a pos count = (Ok bs, p) -> read_bytes a pos count = Ok bs /\ p = pos + count.
Proof.
  intros Hs Hp Hc H1 H. unfold r_read_bytes in H.
  apply r_read_bytes_loop_spec in H. destruct H as (Ep & Hle & Ebs).
  assert (Hn : N.to_nat (N.min count (size a + 1)) <> 0%nat) by lia.
  specialize (Hle Hn). rewrite N2Nat.id in *.
  assert (Hmin : N.min count (size a + 1) = count) by lia.
  rewrite Hmin in *. split; [|exact Ep].
  rewrite read_bytes_spec. unfold inside.
  destruct (N.ltb_spec pos (size a)); [|lia]. destruct (N.leb_spec (pos + count) (size a)); [|lia].
  destruct (N.ltb_spec (pos + count) USIZE_MAX1); [|lia]. cbn [andb].
  unfold sliceN. unfold size in *. destruct (N.leb_spec (pos + count) (lenN (a_data a))); [|lia].
  rewrite Ebs. reflexivity.
Qed.

(* a failing stream read_bytes means the positional range is not inside the data *)
Lemma r_read_bytes_loop_err : forall n a pos acc e p,
  r_read_bytes_loop n a pos acc = (Err e, p) -> e = EOob /\ size a < pos + N.of_nat n.
Proof.
  induction n as [|n IH]; intros a pos acc e p H; cbn [r_read_bytes_loop] in H; [discriminate|].
  unfold r_read_u8 in H. rewrite rd_spec in H. destruct (read_u8 a pos) as [v|e'|k] eqn:Ev; cbn [is_ok] in H.
  - apply IH in H. destruct H as [-> H]. split; [reflexivity | lia].
  - injection H as He Hp. subst e'. rewrite read_u8_spec in Ev. destruct (N.ltb_spec pos (size a)).
    + destruct (sliceN pos 1 (a_data a)); discriminate.
    + injection Ev as Ev. split; [congruence | lia].
  - discriminate.
Qed.

Lemma r_read_bytes_loop_no_panic : forall n a pos acc k p, r_read_bytes_loop n a pos acc <> (Panic k, p).
Proof.
  induction n as [|n IH]; intros a pos acc k p; cbn [r_read_bytes_loop]; [discriminate|].
  unfold r_read_u8. rewrite rd_spec. destruct (read_u8 a pos) as [v|e'|k'] eqn:Ev; cbn [is_ok].
  - apply IH.
  - discriminate.
  - exfalso. exact (read_u8_never_panics a pos k' Ev).
Qed.
