(* The moded ETC1 decoder of Model/Etc1M.v equals Model/Etc1.v in both arithmetic modes: none of the machine operations of
   etc1.rs (after the F15 repair) overflows, for every payload, sizes below 2^31 per side. *)
From Coq Require Import List NArith ZArith Arith Lia Bool ZifyBool ZifyNat ZifyN.
From Mila Require Import Lib.Bytes Lib.Machine Model.Pixel Model.PixelSpec Model.PixelM Model.Etc1 Model.Etc1M
  Proofs.TexFinite Proofs.PixelProofs Proofs.Scatter Proofs.Etc1Proofs Proofs.PixelMProofs Proofs.PixelAssembly.
Import ListNotations.
Local Open Scope N_scope.
Ltac Zify.zify_post_hook ::= Z.div_mod_to_equations.

Lemma shl_m_trunc w m v k : k < w -> shl_m w m v k = Ok (shl v k mod 2 ^ w).
Proof. intros H. unfold shl_m, shl, maxw. destruct (N.ltb_spec k w); [|lia]. rewrite N.shiftl_mul_pow2. reflexivity. Qed.

Lemma ext5_m_ok m r : ext5_m m r = Ok (ext5 r).
Proof. unfold ext5_m. rewrite shl_m_trunc by (unfold W8; lia). cbn [bind]. rewrite shr_m_ok by (unfold W8; lia). reflexivity. Qed.
Lemma ext4_m_ok m f : f < 16 -> ext4_m m f = Ok (ext4 f).
Proof. intros H. unfold ext4_m. rewrite mul_w_ok by (unfold maxw, W64; change (2 ^ 64) with 18446744073709551616; lia). reflexivity. Qed.
Lemma complement3_m_ok m c : complement_m m c 3 = Ok (complement c 3).
Proof.
  unfold complement_m, complement. rewrite sub_w_ok by lia. cbn [bind]. rewrite shr_m_ok by (unfold W8; lia). cbn [bind].
  destruct (shr c (3 - 1) =? 0); [reflexivity|]. rewrite shl_m_trunc by (unfold W8; lia). reflexivity.
Qed.

Lemma u8_band n x : n <= 8 -> u8 (band x (N.ones n)) = band x (N.ones n).
Proof.
  intros H. apply u8_small. pose proof (band_ones_lt x n). assert (2 ^ n <= 2 ^ 8) by (apply N.pow_le_mono_r; lia).
  change (2 ^ 8) with 256 in *. lia.
Qed.

Ltac c64 := unfold W64; lia.

Theorem block_colors_m_ok : forall m pixels, block_colors_m m pixels = Ok (block_colors pixels).
Proof.
  intros m pixels. unfold block_colors_m, block_colors, fld64.
  rewrite shr_m_ok by c64. cbn [bind]. destruct (band (shr pixels 33) 1 =? 1).
  - do 3 (rewrite shr_m_ok by c64; cbn [bind]).
    change 0x1F with (N.ones 5). rewrite !(u8_band 5) by lia.
    rewrite !ext5_m_ok. cbn [bind].
    do 3 (rewrite shr_m_ok by c64; cbn [bind]).
    change 7 with (N.ones 3). rewrite !(u8_band 3) by lia.
    rewrite !complement3_m_ok. cbn [bind]. rewrite !ext5_m_ok. cbn [bind]. reflexivity.
  - change 0xF with (N.ones 4).
    do 3 (rewrite shr_m_ok by c64; cbn [bind]).
    do 3 (rewrite ext4_m_ok by apply (band_ones_lt _ 4); cbn [bind]).
    do 3 (rewrite shr_m_ok by c64; cbn [bind]).
    do 3 (rewrite ext4_m_ok by apply (band_ones_lt _ 4); cbn [bind]).
    reflexivity.
Qed.

(* the base colours are bytes *)
Lemma sweep_ext5_byte : all_below 256 (fun r => ext5 r <? 256) = true. Proof. vm_compute. reflexivity. Qed.
Lemma ext5_byte r : r < 256 -> ext5 r < 256.
Proof. intros H. pose proof (all_below_spec _ _ sweep_ext5_byte r H) as E. cbv beta in E. lia. Qed.
Lemma ext4_byte f : ext4 f < 256.
Proof. unfold ext4, as_u8. apply N.mod_lt. lia. Qed.
Definition bytes3 (c : list N) : Prop := nth 0 c 0 < 256 /\ nth 1 c 0 < 256 /\ nth 2 c 0 < 256.
Lemma block_colors_bytes pixels : bytes3 (fst (block_colors pixels)) /\ bytes3 (snd (block_colors pixels)).
Proof.
  unfold block_colors, bytes3, diff_second. destruct (band (shr pixels 33) 1 =? 1); cbn [fst snd nth].
  - change 0x1F with (N.ones 5).
    pose proof (band_ones_lt (shr pixels 59) 5). pose proof (band_ones_lt (shr pixels 51) 5). pose proof (band_ones_lt (shr pixels 43) 5).
    change (2 ^ 5) with 32 in *.
    repeat split; apply ext5_byte; try lia; apply N.mod_lt; lia.
  - repeat split; apply ext4_byte.
Qed.

(* the modifiers are small *)
Lemma sweep_modifier_small : all_below2 8 2 (fun t i => (Z.abs (modifier t i) <=? 183)%Z) = true. Proof. vm_compute. reflexivity. Qed.
Lemma modifier_small t i : t < 8 -> i < 2 -> (Z.abs (modifier t i) <= 183)%Z.
Proof. intros Ht Hi. pose proof (all_below2_spec _ _ _ sweep_modifier_small t i Ht Hi) as E. cbv beta in E. lia. Qed.

Lemma channel_m_ok m c a : c < 256 -> (Z.abs a <= 183)%Z -> channel_m m c a = Ok (clamp_u8 (Z.of_N c + a)).
Proof.
  intros Hc Ha. unfold channel_m, add_i32.
  assert (E : ((- 2 ^ 31 <=? Z.of_N c + a) && (Z.of_N c + a <? 2 ^ 31))%Z = true).
  { apply andb_true_intro. split; [apply Z.leb_le|apply Z.ltb_lt]; change (2 ^ 31)%Z with 2147483648%Z; lia. }
  rewrite E. reflexivity.
Qed.

Theorem texel_m_ok : forall m pixels alphas c1 c2 px py, px < 4 -> py < 4 -> bytes3 c1 -> bytes3 c2 ->
  texel_m m pixels alphas c1 c2 px py = Ok (texel pixels alphas c1 c2 px py).
Proof.
  intros m pixels alphas c1 c2 px py Hx Hy B1 B2. unfold texel_m, texel, fld64.
  do 4 (rewrite shr_m_ok by c64; cbn [bind]).
  rewrite mul_w_ok by (unfold maxw, W64; change (2 ^ 64) with 18446744073709551616; lia). cbn [bind].
  rewrite add_w_ok by (unfold maxw, W64; change (2 ^ 64) with 18446744073709551616; lia). cbn [bind].
  set (offset := px * 4 + py). assert (Ho : offset < 16) by (unfold offset; lia).
  set (first := if band (shr pixels 32) 1 =? 1 then py <? 2 else px <? 2).
  set (t := if first then band (shr pixels 37) 7 else band (shr pixels 34) 7).
  set (col := if first then c1 else c2).
  assert (Ht : t < 8).
  { unfold t. change 7 with (N.ones 3). destruct first; apply (band_ones_lt _ 3). }
  assert (Bc : bytes3 col) by (unfold col; destruct first; assumption).
  rewrite (index_m_ok ETC_MODIFIERS t (0, 0)%Z) by (cbn [length ETC_MODIFIERS]; lia). cbn [bind].
  rewrite shr_m_ok by c64. cbn [bind]. rewrite shr_m_ok by c64. cbn [bind].
  set (sign := band (shr (band (shr pixels 16) 65535) offset) 1).
  set (ai := band (shr (band pixels 65535) offset) 1).
  assert (Hai : ai < 2) by (unfold ai; change 1 with (N.ones 1); apply (band_ones_lt _ 1)).
  set (tb := nth (N.to_nat t) ETC_MODIFIERS (0, 0)%Z).
  rewrite (index_m_ok [fst tb; snd tb] ai 0%Z) by (cbn [length]; lia). cbn [bind].
  assert (Em : nth (N.to_nat ai) [fst tb; snd tb] 0%Z = modifier t ai).
  { unfold modifier. fold tb. destruct tb as [a b]. cbn [fst snd].
    assert (C : ai = 0 \/ ai = 1) by lia. destruct C as [-> | ->]; reflexivity. }
  rewrite Em. pose proof (modifier_small t ai Ht Hai) as Hm.
  set (mag := modifier t ai) in *.
  assert (Ea : (if sign =? 1 then neg_i32 m mag else Ok mag) = Ok (if sign =? 1 then (- mag)%Z else mag)).
  { destruct (sign =? 1); [|reflexivity]. unfold neg_i32.
    destruct (Z.eqb_spec mag (- 2 ^ 31)) as [E0|]; [|reflexivity]. change (2 ^ 31)%Z with 2147483648%Z in E0. lia. }
  rewrite Ea. cbn [bind].
  set (amount := if sign =? 1 then (- mag)%Z else mag).
  assert (Hamt : (Z.abs amount <= 183)%Z) by (unfold amount; destruct (sign =? 1); lia).
  destruct Bc as (Bc0 & Bc1 & Bc2).
  rewrite !channel_m_ok by assumption. cbn [bind].
  rewrite mul_w_ok by (unfold maxw, W64; change (2 ^ 64) with 18446744073709551616; lia). cbn [bind].
  rewrite shr_m_ok by c64. cbn [bind].
  change 15 with (N.ones 4).
  rewrite mul_w_ok by (unfold maxw, W64; change (2 ^ 64) with 18446744073709551616; pose proof (band_ones_lt (shr alphas (offset * 4)) 4); change (2 ^ 4) with 16 in *; lia).
  cbn [bind]. reflexivity.
Qed.

(* ---------------- the loops ---------------- *)
Lemma mapM_ok {A B} (f : A -> outcome (list B)) (g : A -> list B) : forall l,
  (forall a, In a l -> f a = Ok (g a)) -> mapM f l = Ok (flat_map g l).
Proof.
  induction l as [|a r IH]; intros H; [reflexivity|]. cbn [mapM flat_map].
  rewrite (H a (or_introl eq_refl)). cbn [bind]. rewrite IH by (intros x Hx; apply H; right; exact Hx). reflexivity.
Qed.

Definition blk_ok (blk : nat * nat * nat * nat) : Prop :=
  let '(ty, tx, by_, bx) := blk in N.of_nat ty < 2 ^ 58 /\ N.of_nat tx < 2 ^ 58 /\ (by_ < 2)%nat /\ (bx < 2)%nat.

(* the write list of Model/Etc1.v with pixel positions instead of pixel indices *)
Definition pos4 (e : N * color) : N * color := (fst e * 4, snd e).

Lemma block_writes_m_ok m w h a p blk : w < 2 ^ 31 -> h < 2 ^ 31 -> blk_ok blk ->
  block_writes_m m w h a p blk = Ok (map pos4 (block_writes w h a p blk)) /\
  Forall (fun e => fst e < w * h) (block_writes w h a p blk).
Proof.
  intros Hw Hh Hb. destruct blk as [[[ty tx] by_] bx]. unfold blk_ok in Hb. destruct Hb as (Hty & Htx & Hby & Hbx).
  change (2 ^ 58) with 288230376151711744 in *. change (2 ^ 31) with 2147483648 in *.
  split.
  - unfold block_writes_m, block_writes. rewrite block_colors_m_ok. cbn [bind].
    destruct (block_colors_bytes p) as (B1 & B2). destruct (block_colors p) as [c1 c2] eqn:Ebc. cbn [fst snd] in B1, B2.
    rewrite map_flat_map. apply mapM_ok. intros py Hpy. apply in_seq in Hpy.
    rewrite map_flat_map. apply mapM_ok. intros px Hpx. apply in_seq in Hpx.
    unfold texel_write_m.
    assert (M : maxw W64 = 18446744073709551616) by reflexivity.
    rewrite mul_w_ok by (rewrite M; lia). cbn [bind]. rewrite add_w_ok by (rewrite M; lia). cbn [bind].
    rewrite mul_w_ok by (rewrite M; lia). cbn [bind]. rewrite add_w_ok by (rewrite M; lia). cbn [bind].
    rewrite mul_w_ok by (rewrite M; lia). cbn [bind]. rewrite add_w_ok by (rewrite M; lia). cbn [bind].
    rewrite mul_w_ok by (rewrite M; lia). cbn [bind]. rewrite add_w_ok by (rewrite M; lia). cbn [bind].
    set (x := N.of_nat px + N.of_nat bx * 4 + N.of_nat tx * 8). set (y := N.of_nat py + N.of_nat by_ * 4 + N.of_nat ty * 8).
    destruct (N.leb_spec w x) as [|Lx]; [reflexivity|]. destruct (N.leb_spec h y) as [|Ly]; [reflexivity|]. cbn [orb].
    rewrite texel_m_ok by (try lia; assumption). cbn [bind].
    assert (D : y * w + x < w * h) by nia. assert (D2 : w * h < 4611686018427387904) by nia.
    rewrite mul_w_ok by (rewrite M; nia). cbn [bind]. rewrite add_w_ok by (rewrite M; lia). cbn [bind].
    rewrite mul_w_ok by (rewrite M; lia). cbn [bind map]. unfold pos4. cbn [fst snd]. do 3 f_equal.
    pose proof (decode_block_nth a p (N.of_nat px) (N.of_nat py) ltac:(lia) ltac:(lia)) as E. rewrite Ebc in E. cbn [fst snd] in E.
    rewrite <- E. f_equal. lia.
  - apply Forall_forall. intros e He. unfold block_writes in He.
    apply in_flat_map in He. destruct He as (py & _ & He). apply in_flat_map in He. destruct He as (px & _ & He).
    set (x := N.of_nat px + N.of_nat bx * 4 + N.of_nat tx * 8) in *. set (y := N.of_nat py + N.of_nat by_ * 4 + N.of_nat ty * 8) in *.
    destruct (N.leb_spec w x) as [|Lx]; [destruct He|]. destruct (N.leb_spec h y) as [|Ly]; [destruct He|]. cbn [orb] in He.
    destruct He as [<-|[]]. cbn [fst]. nia.
Qed.

Lemma apply_writes_m_ok m w h : w < 2 ^ 31 -> h < 2 ^ 31 -> forall ws bmp, Forall (fun e => fst e < w * h) ws ->
  apply_writes_m m (w * h) (map pos4 ws) bmp = apply_writes (w * h) ws bmp.
Proof.
  intros Hw Hh. change (2 ^ 31) with 2147483648 in *. induction ws as [|[d c] r IH]; intros bmp HF; [reflexivity|].
  inversion HF as [|? ? Hd HF']; subst. cbn [fst] in Hd. cbn [map pos4 fst snd apply_writes_m apply_writes].
  assert (D2 : w * h < 4611686018427387904) by nia.
  rewrite add_w_ok by (unfold maxw, W64; change (2 ^ 64) with 18446744073709551616; lia). cbn [bind].
  destruct (N.ltb_spec (d * 4 + 3) (4 * (w * h))); [|lia]. destruct (N.ltb_spec d (w * h)); [|lia].
  replace (d * 4 / 4) with d by lia. apply IH, HF'.
Qed.

Lemma take_block_len alpha rest a p rest' : take_block alpha rest = Some (a, p, rest') ->
  lenN rest = (if alpha then 16 else 8) + lenN rest'.
Proof.
  unfold take_block. destruct alpha.
  - do 16 (destruct rest as [|? rest]; [discriminate|]). intros E. inversion E; subst. unfold lenN. cbn [length]. lia.
  - do 8 (destruct rest as [|? rest]; [discriminate|]). intros E. inversion E; subst. unfold lenN. cbn [length]. lia.
Qed.

Lemma etc_loop_m_ok m alpha w h : w < 2 ^ 31 -> h < 2 ^ 31 -> forall blocks pos rest bmp,
  Forall blk_ok blocks -> pos + lenN rest + 16 < 2 ^ 64 ->
  etc_loop_m m alpha w h (w * h) blocks pos rest bmp = etc_loop alpha w h (w * h) blocks rest bmp.
Proof.
  intros Hw Hh. induction blocks as [|blk bs IH]; intros pos rest bmp HF HP; [reflexivity|].
  inversion HF as [|? ? Hb HF']; subst. cbn [etc_loop_m etc_loop].
  rewrite add_w_ok by (unfold maxw, W64; destruct alpha; lia). cbn [bind].
  destruct (take_block alpha rest) as [[[a p] rest']|] eqn:ET; [|reflexivity].
  destruct (block_writes_m_ok m w h a p blk Hw Hh Hb) as (E & F). rewrite E. cbn [bind].
  rewrite apply_writes_m_ok by assumption.
  destruct (apply_writes (w * h) (block_writes w h a p blk) bmp) as [bmp'| |]; try reflexivity. cbn [bind].
  apply IH; [exact HF'|]. pose proof (take_block_len alpha rest a p rest' ET). destruct alpha; lia.
Qed.

Lemma etc_tiles_lt d : d < 2 ^ 31 -> etc_tiles d < 2 ^ 58.
Proof.
  intros H. unfold etc_tiles. set (c := (d + 7) / 8). destruct (N.eqb_spec c 0); [change (2 ^ 58) with 288230376151711744; lia|].
  assert (c < 2 ^ 29) by (unfold c; change (2 ^ 31) with 2147483648 in H; change (2 ^ 29) with 536870912; lia).
  assert (N.log2 c < 29) by (apply N.log2_lt_pow2; lia).
  apply N.pow_lt_mono_r; lia.
Qed.

Lemma etc_tiles_m_ok m d : d < 2 ^ 31 -> etc_tiles_m m d = Ok (etc_tiles d).
Proof.
  intros H. pose proof (etc_tiles_lt d H) as L. unfold etc_tiles_m, etc_tiles in *. set (c := (d + 7) / 8) in *.
  destruct (N.eqb_spec c 0).
  - rewrite shl_m_ok by (unfold W64; change (2 ^ 64) with 18446744073709551616; lia). reflexivity.
  - assert (c < 2 ^ 29) by (unfold c; change (2 ^ 31) with 2147483648 in H; change (2 ^ 29) with 536870912; lia).
    assert (N.log2 c < 29) by (apply N.log2_lt_pow2; lia).
    rewrite shl_m_ok; [unfold shl; rewrite N.shiftl_mul_pow2, N.mul_1_l; reflexivity|unfold W64; lia|].
    rewrite N.mul_1_l. apply N.pow_lt_mono_r; unfold W64; lia.
Qed.

Lemma etc_blocks_ok tw th : N.of_nat tw < 2 ^ 58 -> N.of_nat th < 2 ^ 58 -> Forall blk_ok (etc_blocks tw th).
Proof.
  intros Htw Hth. apply Forall_forall. intros [[[ty tx] by_] bx] Hin. unfold etc_blocks in Hin.
  apply in_flat_map in Hin. destruct Hin as (ty' & Hty & Hin). apply in_flat_map in Hin. destruct Hin as (tx' & Htx & Hin).
  apply in_flat_map in Hin. destruct Hin as (by' & Hby & Hin). apply in_map_iff in Hin. destruct Hin as (bx' & E & Hbx).
  inversion E; subst. apply in_seq in Hty, Htx, Hby, Hbx. unfold blk_ok. lia.
Qed.

(* the whole ETC1 / ETC1A4 decoder: every payload, sides below 2^31 *)
Theorem etc1_decode_pixels_m_ok : forall m data w h alpha, w < 2 ^ 31 -> h < 2 ^ 31 -> lenN data < 2 ^ 63 ->
  etc1_decode_pixels_m m data w h alpha = etc1_decode_pixels m data w h alpha.
Proof.
  intros m data w h alpha Hw Hh Hl. unfold etc1_decode_pixels_m, etc1_decode_pixels.
  destruct (mul_w W64 m 4 w) as [t| |]; try reflexivity. cbn [bind].
  destruct (mul_w W64 m t h) as [u| |]; try reflexivity. cbn [bind].
  destruct (ALLOC_LIMIT <=? w * h); [reflexivity|].
  rewrite !etc_tiles_m_ok by assumption. cbn [bind].
  destruct (_ <=? lenN data); [|reflexivity].
  apply etc_loop_m_ok; try assumption.
  - apply etc_blocks_ok; rewrite N2Nat.id; apply etc_tiles_lt; assumption.
  - change (2 ^ 63) with 9223372036854775808 in Hl. change (2 ^ 64) with 18446744073709551616. lia.
Qed.

Theorem decode_pixel_data_m_ok : forall m data w h fmt, w < 2 ^ 31 -> h < 2 ^ 31 -> lenN data < 2 ^ 63 -> wfb data ->
  decode_pixel_data_m m data w h fmt = decode_pixel_data m data w h fmt.
Proof.
  intros m data w h fmt Hw Hh Hl W. unfold decode_pixel_data_m, decode_pixel_data, decode_pixels_m, decode_pixels.
  rewrite decode_rgba_pixels_m_ok, !etc1_decode_pixels_m_ok; try assumption; [reflexivity|].
  change (2 ^ 31) with 2147483648 in *. change (2 ^ 64) with 18446744073709551616. nia.
Qed.
Theorem etc1_decode_m_ok : forall m data w h alpha, w < 2 ^ 31 -> h < 2 ^ 31 -> lenN data < 2 ^ 63 ->
  etc1_decode_m m data w h alpha = etc1_decode m data w h alpha.
Proof. intros. unfold etc1_decode_m, etc1_decode. rewrite etc1_decode_pixels_m_ok by assumption. reflexivity. Qed.

(* both build profiles: the moded public entry points agree *)
Theorem moded_mode_independent : forall data w h, w < 2 ^ 31 -> h < 2 ^ 31 -> lenN data < 2 ^ 63 -> wfb data ->
  (forall fmt, decode_pixel_data_m Checked data w h fmt = decode_pixel_data_m Wrapping data w h fmt) /\
  (forall alpha, etc1_decode_m Checked data w h alpha = etc1_decode_m Wrapping data w h alpha).
Proof.
  intros data w h Hw Hh Hl W.
  assert (A : 4 * w < 2 ^ 64 /\ 4 * (w * h) < 2 ^ 64).
  { change (2 ^ 31) with 2147483648 in *. change (2 ^ 64) with 18446744073709551616. split; nia. }
  destruct A as (A1 & A2). split; intros.
  - rewrite !decode_pixel_data_m_ok by assumption. apply decode_mode_independent; assumption.
  - rewrite !etc1_decode_m_ok by assumption. apply etc1_mode_independent; assumption.
Qed.
