(* C19, finite parts: the tile table is the Z-order, every channel of every listed format is within one
   quantisation step of the linear expansion (all 65 536 / 256 values by computation, RGBA8 by a general
   argument), RGB5A3. *)
From Coq Require Import List NArith ZArith Arith Lia Bool ZifyBool ZifyNat ZifyN.
From Mila Require Import Lib.Bytes Lib.Machine Model.Pixel Model.PixelSpec Proofs.TexFinite.
Import ListNotations.
Local Open Scope N_scope.
Ltac Zify.zify_post_hook ::= Z.div_mod_to_equations.

(* ---------------- tile order ---------------- *)
Lemma tile_order_morton : forall i, i < 64 -> tbl TILE_ORDER i = 8 * morton_y i + morton_x i.
Proof.
  intros i Hi. apply N.eqb_eq.
  exact (all_below_spec 64 (fun i => tbl TILE_ORDER i =? 8 * morton_y i + morton_x i) ltac:(vm_compute; reflexivity) i Hi).
Qed.
Lemma tile_order_inverse : forall x y, x < 8 -> y < 8 -> tbl TILE_ORDER (morton x y) = 8 * y + x.
Proof.
  intros x y Hx Hy. apply N.eqb_eq.
  exact (all_below2_spec 8 8 (fun x y => tbl TILE_ORDER (morton x y) =? 8 * y + x) ltac:(vm_compute; reflexivity) x y Hx Hy).
Qed.
Lemma morton_of_xy : forall i, i < 64 -> morton (morton_x i) (morton_y i) = i /\ morton_x i < 8 /\ morton_y i < 8.
Proof.
  intros i Hi.
  pose proof (all_below_spec 64 (fun i => (morton (morton_x i) (morton_y i) =? i) && (morton_x i <? 8) && (morton_y i <? 8))
                ltac:(vm_compute; reflexivity) i Hi) as H.
  cbv beta in H. lia.
Qed.
Lemma morton_lt : forall x y, x < 8 -> y < 8 -> morton x y < 64.
Proof.
  intros x y Hx Hy.
  pose proof (all_below2_spec 8 8 (fun x y => morton x y <? 64) ltac:(vm_compute; reflexivity) x y Hx Hy) as H. cbv beta in H. lia.
Qed.

(* ---------------- channels ---------------- *)
Lemma band_shr_field v k n : band (shr v k) (N.ones n) = field v k n.
Proof. unfold band, shr, field. rewrite N.land_ones, N.shiftr_div_pow2. reflexivity. Qed.

Lemma sweep_5551 : all_below 65536 (fun v => color_ok 2 v (decode_color v 2)) = true. Proof. vm_compute. reflexivity. Qed.
Lemma sweep_565 : all_below 65536 (fun v => color_ok 3 v (decode_color v 3)) = true. Proof. vm_compute. reflexivity. Qed.
Lemma sweep_4444 : all_below 65536 (fun v => color_ok 4 v (decode_color v 4)) = true. Proof. vm_compute. reflexivity. Qed.
Lemma sweep_la8 : all_below 65536 (fun v => color_ok 5 v (decode_color v 5)) = true. Proof. vm_compute. reflexivity. Qed.
Lemma sweep_l8 : all_below 256 (fun v => color_ok 7 v (decode_color v 7)) = true. Proof. vm_compute. reflexivity. Qed.
Lemma sweep_a8 : all_below 256 (fun v => color_ok 8 v (decode_color v 8)) = true. Proof. vm_compute. reflexivity. Qed.

Lemma channels_16bit : forall fmt v, (fmt = 2 \/ fmt = 3 \/ fmt = 4 \/ fmt = 5) -> v < 65536 ->
  color_ok fmt v (decode_color v fmt) = true.
Proof.
  intros fmt v Hf Hv. destruct Hf as [->|[->|[->| ->]]].
  - exact (all_below_spec _ _ sweep_5551 v Hv).
  - exact (all_below_spec _ _ sweep_565 v Hv).
  - exact (all_below_spec _ _ sweep_4444 v Hv).
  - exact (all_below_spec _ _ sweep_la8 v Hv).
Qed.

Lemma channels_8bit : forall fmt v, (fmt = 7 \/ fmt = 8) -> v < 256 -> color_ok fmt v (decode_color v fmt) = true.
Proof.
  intros fmt v Hf Hv. destruct Hf as [-> | ->].
  - exact (all_below_spec _ _ sweep_l8 v Hv).
  - exact (all_below_spec _ _ sweep_a8 v Hv).
Qed.

Lemma within_step_8 d : d < 256 -> within_step d d 8 = true.
Proof. intros H. unfold within_step. change (2 ^ 8 - 1) with 255. change (2 ^ (8 - 8)) with 1. lia. Qed.

Lemma channels_rgba8 : forall v, color_ok 0 v (decode_color v 0) = true.
Proof.
  intros v. unfold color_ok, decode_color, layout, has_alpha.
  change 0xFF with (N.ones 8). rewrite !band_shr_field.
  replace (band v (N.ones 8)) with (field v 0 8) by (rewrite <- band_shr_field; unfold shr; rewrite N.shiftr_0_r; reflexivity).
  assert (B : forall k, field v k 8 < 256) by (intros k; unfold field; change (2 ^ 8) with 256; apply N.mod_lt; lia).
  cbn [length Nat.eqb forallb existsb fst nth chan_ok andb orb N.eqb Pos.eqb].
  pose proof (B 24); pose proof (B 16); pose proof (B 8); pose proof (B 0).
  rewrite !within_step_8 by assumption. unfold exact_expansion.
  repeat match goal with |- context [?a <? 256] => replace (a <? 256) with true by lia end.
  repeat match goal with |- context [?a * ?b =? ?c * ?a] => replace (a * b =? c * a) with true by lia end.
  reflexivity.
Qed.

Lemma channels_all : forall fmt v, listed_color_format fmt = true -> v < 2 ^ (8 * bytes_per_element fmt) ->
  color_ok fmt v (decode_color v fmt) = true.
Proof.
  intros fmt v Hf Hv.
  assert (C : fmt = 0 \/ (fmt = 2 \/ fmt = 3 \/ fmt = 4 \/ fmt = 5) \/ (fmt = 7 \/ fmt = 8)).
  { destruct fmt as [|p]; [left; reflexivity|]. do 4 (destruct p as [p|p|]; try discriminate Hf; auto 10). }
  destruct C as [->|[C|C]].
  - apply channels_rgba8.
  - apply channels_16bit; [exact C|]. destruct C as [->|[->|[->| ->]]]; exact Hv.
  - apply channels_8bit; [exact C|]. destruct C as [->| ->]; exact Hv.
Qed.

(* alpha of RGBA5551 is 0 or 255, following bit 0 *)
Lemma rgba5551_alpha : forall v, nth 3 (decode_color v 2) 0 = if N.testbit v 0 then 255 else 0.
Proof.
  intros v. cbn [decode_color nth]. unfold band. change 1 with (N.ones 1) at 1. rewrite N.land_ones. change (2 ^ 1) with 2.
  rewrite N.bit0_odd. rewrite <- N.bit0_mod. rewrite N.bit0_odd. destruct (N.odd v); reflexivity.
Qed.

Lemma sweep_rgb5a3 : all_below 65536 (fun v => rgb5a3_ok v (decode_rgb5a3_pixel v)) = true. Proof. vm_compute. reflexivity. Qed.
Lemma rgb5a3_all : forall v, v < 65536 -> rgb5a3_ok v (decode_rgb5a3_pixel v) = true.
Proof.
  intros v Hv. exact (all_below_spec _ _ sweep_rgb5a3 v Hv).
Qed.
