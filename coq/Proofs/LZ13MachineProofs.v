(* C09 totality at full strength: the machine-level model of calculate_lz13_header (Model/LZ13Machine.v:
   Wrapping<i32> positions, `as usize` sign extension, checked slice indexing) never panics and never
   fails, for inputs of any length a slice can have; below 2^31 bytes it is equal to the list-position
   model of Model/LZ11.v, so every theorem about [compress13] is a theorem about [compress13_m]. *)
From Coq Require Import List NArith ZArith Arith Lia Bool ZifyBool ZifyNat ZifyN.
From Mila Require Import Lib.Bytes Lib.Machine Model.LZCore Model.LZ11 Model.LZ13Machine
  Proofs.LZCoreProofs Proofs.LZ11Proofs.
Import ListNotations.
Ltac Zify.zify_post_hook ::= Z.div_mod_to_equations.
Local Open Scope Z_scope.

Definition i32 (z : Z) : Prop := -2147483648 <= z < 2147483648.

Lemma w32_i32 z : i32 (w32 z).
Proof. unfold i32, w32. lia. Qed.
Lemma w32_id z : i32 z -> w32 z = z.
Proof. unfold i32, w32. lia. Qed.
Lemma w32_wrap z : 2147483648 <= z < 4294967296 -> w32 z = z - 4294967296.
Proof. unfold w32. lia. Qed.

Lemma as_usize_nonneg z : 0 <= z -> as_usize z = z.
Proof. intros H. unfold as_usize. destruct (Z.ltb_spec z 0); [lia | reflexivity]. Qed.
Lemma as_usize_neg z : i32 z -> z < 0 -> 18446744071562067968 <= as_usize z.
Proof. unfold i32, as_usize. intros H Hn. destruct (Z.ltb_spec z 0); lia. Qed.

Lemma idx_ok bytes i : 0 <= i < Z.of_nat (length bytes) ->
  exists v, idx bytes (Z.of_nat (length bytes)) i = Ok v /\ nth_error bytes (Z.to_nat i) = Some v.
Proof.
  intros H. unfold idx.
  destruct (Z.leb_spec 0 i); [|lia]. destruct (Z.ltb_spec i (Z.of_nat (length bytes))); [|lia]. cbn [andb].
  destruct (nth_error bytes (Z.to_nat i)) as [v|] eqn:E; [eauto|].
  apply nth_error_None in E. lia.
Qed.

(* ------------------------------------------------------------------------------------------------
   Part 1.  Never a panic, never out of fuel, never Err: any input shorter than 2^63 bytes
   (a Rust slice is at most isize::MAX bytes long). *)
Section Total.
  Variable bytes : list N.
  Let len := Z.of_nat (length bytes).
  Hypothesis Hlen : len < 9223372036854775808.

  Lemma y_loop_total : forall fuel x sp y,
    2 <= x <= sp -> i32 y -> (sp <= y \/ y < 0) ->
    (1 <= fuel)%nat -> (0 <= y -> (Z.to_nat (len - y) < fuel)%nat) ->
    exists y', y_loop fuel bytes len x y = Ok y' /\ i32 y'.
  Proof.
    induction fuel as [|f IH]; intros x sp y Hx Hy Hsp H1 Hf; [lia|]. cbn [y_loop].
    destruct (Z.ltb_spec (as_usize y) len) as [Hlt|Hge]; [|eauto].
    assert (Hy0 : 0 <= y).
    { destruct (Z.lt_ge_cases y 0) as [Hneg|]; [|assumption]. pose proof (as_usize_neg y Hy Hneg). lia. }
    rewrite (as_usize_nonneg y Hy0) in *.
    destruct (idx_ok bytes y ltac:(fold len; lia)) as (a & Ha & _). fold len in Ha. rewrite Ha. cbn [bind].
    assert (Hyx : w32 (y - x) = y - x) by (apply w32_id; unfold i32 in *; lia).
    rewrite Hyx, (as_usize_nonneg (y - x)) by lia.
    destruct (idx_ok bytes (y - x) ltac:(fold len; lia)) as (b & Hb & _). fold len in Hb. rewrite Hb. cbn [bind].
    destruct (a =? b)%N; [|eauto].
    specialize (Hf Hy0).
    destruct (Z.lt_ge_cases (y + 1) 2147483648) as [Hs|Hs].
    - rewrite (w32_id (y + 1)) by (unfold i32 in *; lia).
      apply (IH x sp (y + 1)); [assumption | unfold i32 in *; lia | lia | lia | lia].
    - rewrite (w32_wrap (y + 1)) by (unfold i32 in *; lia).
      apply (IH x sp (y + 1 - 4294967296)); [assumption | unfold i32 in *; lia | unfold i32 in *; lia | lia | unfold i32 in *; lia].
  Qed.

  Definition len_ok (l : Z) : Prop := l = 1 \/ 3 <= l < 2147483648.

  Lemma x_loop_total : forall fuel sp x l,
    0 <= sp < len -> sp < 2147483648 -> x <= sp -> (Z.to_nat x <= S fuel)%nat -> len_ok l ->
    exists l', x_loop fuel bytes len sp x l = Ok l' /\ len_ok l'.
  Proof.
    induction fuel as [|f IH]; intros sp x l Hsp Hs31 Hx Hf Hl.
    - cbn [x_loop]. destruct (Z.leb_spec 2 x); [lia | eauto].
    - cbn [x_loop]. destruct (Z.leb_spec 2 x) as [H2|]; [|eauto].
      destruct (y_loop_total (S (length bytes)) x sp sp ltac:(lia) ltac:(unfold i32; lia) ltac:(lia) ltac:(lia) ltac:(unfold len; lia))
        as (y' & Hy' & Hi). rewrite Hy'. cbn [bind].
      rewrite (w32_id (x - 1)) by (unfold i32; lia).
      apply IH; try assumption; try lia.
      pose proof (w32_i32 (y' - sp)) as Hw. unfold i32 in Hw.
      destruct (Z.leb_spec 3 (w32 (y' - sp))); cbn [andb]; [|assumption].
      destruct (Z.ltb_spec l (w32 (y' - sp))); [|assumption]. right. lia.
  Qed.

  Lemma m_loop_total : forall fuel sp ml bl fc,
    i32 sp -> (0 <= sp -> (Z.to_nat (len - sp) <= fuel)%nat) ->
    exists z, m_loop fuel bytes len sp ml bl fc = Ok z.
  Proof.
    induction fuel as [|f IH]; intros sp ml bl fc Hi Hf.
    - cbn [m_loop]. destruct (Z.ltb_spec (as_usize sp) len) as [Hlt|]; [|eauto].
      destruct (Z.lt_ge_cases sp 0) as [Hneg|H0]; [pose proof (as_usize_neg sp Hi Hneg); lia|].
      rewrite (as_usize_nonneg sp H0) in Hlt. specialize (Hf H0). lia.
    - cbn [m_loop]. destruct (Z.ltb_spec (as_usize sp) len) as [Hlt|]; [|eauto].
      assert (H0 : 0 <= sp).
      { destruct (Z.lt_ge_cases sp 0) as [Hneg|]; [|assumption]. pose proof (as_usize_neg sp Hi Hneg). lia. }
      rewrite (as_usize_nonneg sp H0) in Hlt. specialize (Hf H0).
      destruct (x_loop_total WINDOW sp (Z.min sp 4096) 1 ltac:(lia) ltac:(unfold i32 in Hi; lia) ltac:(lia) ltac:(unfold WINDOW; lia) ltac:(left; reflexivity))
        as (l & Hl & Hok). rewrite Hl. cbn [bind]. cbv zeta.
      assert (Hnext : forall ml' bl' fc', exists z, m_loop f bytes len (w32 (sp + l)) ml' bl' fc' = Ok z).
      { intros ml' bl' fc'. apply IH; [apply w32_i32|]. intros Hpos.
        destruct (Z.lt_ge_cases (sp + l) 2147483648) as [Hs|Hs].
        - rewrite (w32_id (sp + l)) in * by (unfold i32 in *; unfold len_ok in Hok; lia). unfold len_ok in Hok. lia.
        - rewrite (w32_wrap (sp + l)) in Hpos by (unfold i32 in *; unfold len_ok in Hok; lia).
          unfold i32 in *; unfold len_ok in Hok; lia. }
      destruct (Z.eqb_spec l 1) as [->|Hne].
      + destruct (w32 (fc + 1) =? 8); apply Hnext.
      + destruct (Z.leb_spec l 2); [unfold len_ok in Hok; lia|].
        destruct (l <=? 16); [destruct (w32 (fc + 1) =? 8); apply Hnext|].
        destruct (l <=? 272); destruct (w32 (fc + 1) =? 8); apply Hnext.
  Qed.
End Total.

Theorem calculate_lz13_header_m_total x : (lenN x < 2 ^ 63)%N -> exists h, calculate_lz13_header_m x = Ok h.
Proof.
  intros Hn. unfold calculate_lz13_header_m.
  assert (H : Z.of_nat (length x) < 9223372036854775808).
  { unfold lenN in Hn. change (2 ^ 63)%N with 9223372036854775808%N in Hn. lia. }
  destruct (m_loop_total x H (length x) 0 0 9 0 ltac:(unfold i32; lia) ltac:(lia)) as [z Hz].
  rewrite Hz. cbn [bind]. eauto.
Qed.

(* ------------------------------------------------------------------------------------------------
   Part 2.  Below 2^31 bytes nothing wraps and the machine-level model is the list-position model. *)
Lemma skipn_nth_error {A} (l : list A) : forall n v, nth_error l n = Some v -> skipn n l = v :: skipn (S n) l.
Proof.
  induction l as [|a l IH]; intros [|n] v H; cbn in H; try discriminate.
  - injection H as ->. reflexivity.
  - cbn [skipn]. rewrite (IH n v H). reflexivity.
Qed.

Lemma hdr_search_le : forall n win rest cap l, (hdr_search n win rest cap l <= Nat.max l cap)%nat.
Proof.
  induction n as [|n IH]; intros win rest cap l; cbn [hdr_search]; [lia|].
  pose proof (cpl_le cap win rest) as Hc.
  destruct (andb _ _).
  - etransitivity; [apply IH|]. lia.
  - apply IH.
Qed.

Lemma Zltb_nat a b : (Z.of_nat a <? Z.of_nat b) = Nat.ltb a b.
Proof. destruct (Z.ltb_spec (Z.of_nat a) (Z.of_nat b)); destruct (Nat.ltb_spec a b); lia. Qed.
Lemma Zeqb_nat_1 a : (Z.of_nat a =? 1) = Nat.eqb a 1.
Proof. destruct (Z.eqb_spec (Z.of_nat a) 1); destruct (Nat.eqb_spec a 1); lia. Qed.
Lemma Zleb_nat_2 a : (Z.of_nat a <=? 2) = Nat.leb a 2.
Proof. destruct (Z.leb_spec (Z.of_nat a) 2); destruct (Nat.leb_spec a 2); lia. Qed.
Lemma Zleb_nat_16 a : (Z.of_nat a <=? 16) = Nat.leb a 16.
Proof. destruct (Z.leb_spec (Z.of_nat a) 16); destruct (Nat.leb_spec a 16); lia. Qed.
Lemma Zleb_nat_272 a : (Z.of_nat a <=? 272) = Nat.leb a 272.
Proof. destruct (Z.leb_spec (Z.of_nat a) 272); destruct (Nat.leb_spec a 272); lia. Qed.
Lemma Zmin_nat_4096 a : Z.min (Z.of_nat a) 4096 = Z.of_nat (Nat.min a 4096).
Proof. lia. Qed.
Lemma le_4096_SW : (4096 <= S WINDOW)%nat.
Proof. unfold WINDOW. apply Nat.le_succ_diag_r. Qed.

Section Small.
  Variable bytes : list N.
  Let len := length bytes.
  Hypothesis Hlen : (Z.of_nat len < 2147483648).

  Lemma y_loop_cpl : forall fuel x y, (x <= y)%nat -> (y <= len)%nat -> (len - y < fuel)%nat ->
    y_loop fuel bytes (Z.of_nat len) (Z.of_nat x) (Z.of_nat y)
    = Ok (Z.of_nat (y + cpl (len - y) (skipn (y - x) bytes) (skipn y bytes))).
  Proof.
    induction fuel as [|f IH]; intros x y Hx Hy Hf; [lia|]. cbn [y_loop].
    rewrite (as_usize_nonneg (Z.of_nat y)) by lia.
    destruct (Z.ltb_spec (Z.of_nat y) (Z.of_nat len)) as [Hlt|Hge].
    - destruct (idx_ok bytes (Z.of_nat y) ltac:(fold len; lia)) as (a & Ha & Hna). fold len in Ha. rewrite Ha. cbn [bind].
      rewrite (w32_id (Z.of_nat y - Z.of_nat x)) by (unfold i32; lia).
      rewrite (as_usize_nonneg (Z.of_nat y - Z.of_nat x)) by lia.
      destruct (idx_ok bytes (Z.of_nat y - Z.of_nat x) ltac:(fold len; lia)) as (b & Hb & Hnb). fold len in Hb. rewrite Hb. cbn [bind].
      rewrite Nat2Z.id in Hna. replace (Z.to_nat (Z.of_nat y - Z.of_nat x)) with (y - x)%nat in Hnb by lia.
      rewrite (skipn_nth_error bytes y a Hna), (skipn_nth_error bytes (y - x)%nat b Hnb).
      replace (len - y)%nat with (S (len - S y)) by lia. cbn [cpl]. rewrite (N.eqb_sym b a).
      destruct (a =? b)%N.
      + rewrite (w32_id (Z.of_nat y + 1)) by (unfold i32; lia).
        replace (Z.of_nat y + 1) with (Z.of_nat (S y)) by lia.
        rewrite (IH x (S y)) by lia. replace (S y - x)%nat with (S (y - x)) by lia. do 2 f_equal. lia.
      + do 2 f_equal. lia.
    - assert (y = len) by lia. subst y. rewrite Nat.sub_diag. cbn [cpl]. do 2 f_equal. lia.
  Qed.

  Lemma x_loop_hdr : forall fuel sp x l, (x <= sp)%nat -> (sp < len)%nat -> (x <= S fuel)%nat ->
    x_loop fuel bytes (Z.of_nat len) (Z.of_nat sp) (Z.of_nat x) (Z.of_nat l)
    = Ok (Z.of_nat (hdr_search (x - 1) (skipn (sp - x) bytes) (skipn sp bytes) (len - sp) l)).
  Proof.
    induction fuel as [|f IH]; intros sp x l Hx Hsp Hf.
    - cbn [x_loop]. destruct (Z.leb_spec 2 (Z.of_nat x)); [lia|].
      replace (x - 1)%nat with 0%nat by lia. reflexivity.
    - cbn [x_loop]. destruct (Z.leb_spec 2 (Z.of_nat x)) as [H2|H2].
      + fold len. rewrite (y_loop_cpl (S len) x sp Hx ltac:(lia) ltac:(lia)). cbn [bind].
        set (c := cpl (len - sp) (skipn (sp - x) bytes) (skipn sp bytes)).
        pose proof (cpl_le (len - sp) (skipn (sp - x) bytes) (skipn sp bytes)) as Hc. fold c in Hc.
        replace (Z.of_nat (sp + c) - Z.of_nat sp) with (Z.of_nat c) by lia.
        rewrite (w32_id (Z.of_nat c)) by (unfold i32; lia).
        rewrite (w32_id (Z.of_nat x - 1)) by (unfold i32; lia).
        replace (Z.of_nat x - 1) with (Z.of_nat (x - 1)) by lia.
        replace (if (3 <=? Z.of_nat c) && (Z.of_nat l <? Z.of_nat c) then Z.of_nat c else Z.of_nat l)
          with (Z.of_nat (if andb (Nat.leb 3 c) (Nat.ltb l c) then c else l)).
        2:{ destruct (Nat.leb_spec 3 c); destruct (Z.leb_spec 3 (Z.of_nat c)); try lia; cbn [andb]; [|reflexivity].
            destruct (Nat.ltb_spec l c); destruct (Z.ltb_spec (Z.of_nat l) (Z.of_nat c)); try lia; reflexivity. }
        rewrite (IH sp (x - 1)%nat) by lia.
        assert (E : (x - 1 = S (x - 2))%nat) by lia.
        transitivity (Ok (Z.of_nat (hdr_search (S (x - 2)) (skipn (sp - x) bytes) (skipn sp bytes) (len - sp) l)));
          [|rewrite <- E; reflexivity].
        cbn [hdr_search]. fold c. rewrite tl_skipn.
        replace (x - 1 - 1)%nat with (x - 2)%nat by lia. replace (S (sp - x)) with (sp - (x - 1))%nat by lia. reflexivity.
      + replace (x - 1)%nat with 0%nat by lia. reflexivity.
  Qed.

  Lemma m_loop_hdr : forall fuel sp ml bl fc, (sp <= len)%nat ->
    m_loop fuel bytes (Z.of_nat len) (Z.of_nat sp) ml bl fc = hdr_loop fuel bytes len sp ml bl fc.
  Proof.
    induction fuel as [|f IH]; intros sp ml bl fc Hsp.
    - cbn [m_loop hdr_loop]. rewrite (as_usize_nonneg (Z.of_nat sp)) by lia. rewrite Zltb_nat.
      destruct (Nat.leb_spec len sp) as [Hge|Hlt].
      + rewrite (proj2 (Nat.ltb_ge sp len) Hge). reflexivity.
      + rewrite (proj2 (Nat.ltb_lt sp len) Hlt). reflexivity.
    - cbn [m_loop hdr_loop]. rewrite (as_usize_nonneg (Z.of_nat sp)) by lia. rewrite Zltb_nat.
      destruct (Nat.leb_spec len sp) as [Hge|Hlt].
      { rewrite (proj2 (Nat.ltb_ge sp len) Hge). reflexivity. }
      rewrite (proj2 (Nat.ltb_lt sp len) Hlt).
      rewrite Zmin_nat_4096. change 1 with (Z.of_nat 1) at 1.
      rewrite (x_loop_hdr WINDOW sp (Nat.min sp 4096) 1%nat (Nat.le_min_l _ _) Hlt (Nat.le_trans _ _ _ (Nat.le_min_r _ _) le_4096_SW)).
      cbn [bind]. cbv zeta.
      set (L := hdr_search (Nat.min sp 4096 - 1) (skipn (sp - Nat.min sp 4096) bytes) (skipn sp bytes) (len - sp) 1).
      pose proof (hdr_search_le (Nat.min sp 4096 - 1) (skipn (sp - Nat.min sp 4096) bytes) (skipn sp bytes) (len - sp) 1) as HL.
      fold L in HL.
      assert (HL' : (sp + L <= len)%nat) by (clear - HL Hlt; lia). clear HL.
      assert (Hs1 : w32 (Z.of_nat sp + 1) = Z.of_nat (S sp)) by (clear - Hlt Hlen; rewrite w32_id by (unfold i32; lia); lia).
      assert (HsL : w32 (Z.of_nat sp + Z.of_nat L) = Z.of_nat (sp + L)) by (clear - HL' Hlen; rewrite w32_id by (unfold i32; lia); lia).
      rewrite Zeqb_nat_1, Zleb_nat_2, Zleb_nat_16, Zleb_nat_272.
      destruct (Nat.eqb L 1).
      + rewrite Hs1. destruct (w32 (fc + 1) =? 8); apply IH; exact Hlt.
      + rewrite HsL. destruct (Nat.leb L 2); [reflexivity|].
        destruct (Nat.leb L 16); [destruct (w32 (fc + 1) =? 8); apply IH; exact HL'|].
        destruct (Nat.leb L 272); destruct (w32 (fc + 1) =? 8); apply IH; exact HL'.
  Qed.
End Small.

Theorem calculate_lz13_header_m_eq x : (lenN x < 2 ^ 31)%N -> calculate_lz13_header_m x = calculate_lz13_header x.
Proof.
  intros Hn. unfold calculate_lz13_header_m, calculate_lz13_header.
  assert (H : Z.of_nat (length x) < 2147483648).
  { unfold lenN in Hn. change (2 ^ 31)%N with 2147483648%N in Hn. lia. }
  change 0 with (Z.of_nat 0) at 1.
  rewrite (m_loop_hdr x H (length x) 0%nat) by lia. reflexivity.
Qed.

(* ------------------------------------------------------------------------------------------------
   compress13_m: the whole of LZ13CompressionFormat::compress *)
Local Open Scope N_scope.

(* the reservation: for every length below 2^62 the three additions do not overflow in either profile, the
   capacity check passes, and the request is exactly 12 + n + (n+7)/8 - linear in the input the caller already
   holds.  (The expression of the code before the repair of F12, 9 + n + (((n - 1) >> 3) + 1), does not satisfy
   this for n = 0: it underflows - panic when checked, a request of about 2^61 bytes when wrapping.) *)
Theorem compress13_reserve_ok m n : n < 2 ^ 62 -> compress13_reserve m n = Ok (12 + n + (n + 7) / 8).
Proof.
  intros Hn. change (2 ^ 62) with 4611686018427387904 in Hn. unfold compress13_reserve.
  assert (Hmax : maxw W64 = 18446744073709551616) by reflexivity.
  rewrite (add_w_ok W64 m 12 n) by (rewrite Hmax; lia). cbn [bind].
  rewrite (add_w_ok W64 m n 7) by (rewrite Hmax; lia). cbn [bind].
  rewrite add_w_ok by (rewrite Hmax, N.shiftr_div_pow2; change (2 ^ 3) with 8; lia). cbn [bind].
  rewrite N.shiftr_div_pow2. change (2 ^ 3) with 8. unfold ISIZE_MAX. change (2 ^ 63 - 1) with 9223372036854775807.
  destruct (N.ltb_spec 9223372036854775807 (12 + n + (n + 7) / 8)); [lia | reflexivity].
Qed.

Corollary compress13_reserve_linear m n : n < 2 ^ 62 -> exists c, compress13_reserve m n = Ok c /\ c <= 2 * n + 13.
Proof.
  intros Hn. rewrite (compress13_reserve_ok m n Hn). eexists. split; [reflexivity|]. lia.
Qed.

(* up to the largest slice: the only other outcome is Vec::reserve's own capacity panic *)
Theorem compress13_reserve_boundary m n : n < 2 ^ 63 ->
  (12 + n + (n + 7) / 8 <= ISIZE_MAX -> compress13_reserve m n = Ok (12 + n + (n + 7) / 8)) /\
  (ISIZE_MAX < 12 + n + (n + 7) / 8 -> compress13_reserve m n = Panic PAlloc).
Proof.
  intros Hn. change (2 ^ 63) with 9223372036854775808 in Hn. unfold compress13_reserve.
  assert (Hmax : maxw W64 = 18446744073709551616) by reflexivity.
  rewrite (add_w_ok W64 m 12 n) by (rewrite Hmax; lia). cbn [bind].
  rewrite (add_w_ok W64 m n 7) by (rewrite Hmax; lia). cbn [bind].
  rewrite add_w_ok by (rewrite Hmax, N.shiftr_div_pow2; change (2 ^ 3) with 8; lia). cbn [bind].
  rewrite N.shiftr_div_pow2. change (2 ^ 3) with 8.
  split; intros H; destruct (N.ltb_spec ISIZE_MAX (12 + n + (n + 7) / 8)); try lia; reflexivity.
Qed.

Lemma too_large13_false x : lenN x < 2 ^ 32 -> too_large13 x = false.
Proof. intros H. unfold too_large13. change (2 ^ 32) with 4294967296 in H. apply N.ltb_ge. lia. Qed.
Lemma too_large13_true x : 2 ^ 32 <= lenN x -> too_large13 x = true.
Proof. intros H. unfold too_large13. change (2 ^ 32) with 4294967296 in H. apply N.ltb_lt. lia. Qed.

(* the size guard of F21 *)
Theorem compress13_m_large m x : 2 ^ 32 <= lenN x -> compress13_m m x = Err ETooLarge.
Proof. intros H. unfold compress13_m. rewrite (too_large13_true x H). reflexivity. Qed.

(* every input the guard lets through: Ok, with the header value of the machine-level computation *)
Theorem compress13_m_small m x : lenN x < 2 ^ 32 ->
  exists h, compress13_m m x = Ok (emit_loop tok11 (header13 h (lenN x)) (tokens 4096 x)).
Proof.
  intros Hn. unfold compress13_m. rewrite (too_large13_false x Hn).
  assert (H63 : lenN x < 2 ^ 63) by (change (2 ^ 32) with 4294967296 in Hn; change (2 ^ 63) with 9223372036854775808; lia).
  destruct (calculate_lz13_header_m_total x H63) as [h Hh]. rewrite Hh. cbn [bind].
  rewrite compress13_reserve_ok by (change (2 ^ 32) with 4294967296 in Hn; change (2 ^ 62) with 4611686018427387904; lia).
  cbn [bind]. eauto.
Qed.

(* below 2 GiB the machine-level model is the list model (with its guard) *)
Theorem compress13_m_eq m x : lenN x < 2 ^ 31 -> compress13_m m x = compress13_o m x.
Proof.
  intros Hn. unfold compress13_m, compress13_o.
  assert (H32 : lenN x < 2 ^ 32) by (change (2 ^ 31) with 2147483648 in Hn; change (2 ^ 32) with 4294967296; lia).
  rewrite (too_large13_false x H32). unfold compress13, compress13_with. rewrite (calculate_lz13_header_m_eq x Hn).
  destruct (calculate_lz13_header x) as [h|e|p]; cbn [bind]; try reflexivity.
  rewrite compress13_reserve_ok by (change (2 ^ 31) with 2147483648 in Hn; change (2 ^ 62) with 4611686018427387904; lia).
  cbn [bind].
  change (2 ^ 31) with 2147483648 in Hn.
  assert (Hmax : maxw W64 = 18446744073709551616) by reflexivity.
  rewrite (add_w_ok W64 m 12 (lenN x)) by (rewrite Hmax; lia). cbn [bind].
  rewrite (add_w_ok W64 m (lenN x) 7) by (rewrite Hmax; lia). cbn [bind].
  rewrite add_w_ok by (rewrite Hmax, N.shiftr_div_pow2; change (2 ^ 3) with 8; lia). cbn [bind]. reflexivity.
Qed.
