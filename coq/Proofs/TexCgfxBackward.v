(* C20, finding F23: a CGFX file whose payload lies in FRONT of its TXOB record (payload at 161, TXOB at 225, the
   offset field at TXOB + 72 holds a "negative" value).  It conforms, the repaired reader returns its texture in
   both modes, and the expression before the repair (`position() as u32 + read_u32()?`) panics in a checked build. *)
From Coq Require Import List NArith Bool.
From Mila Require Import Lib.Bytes Lib.Machine Model.Pixel Model.Etc1 Model.TexCommon Model.TexFormat Model.Cgfx
  Proofs.TexBase Proofs.TexCgfx Proofs.TexDecode.
Import ListNotations.
Local Open Scope N_scope.

Definition back_tex : tex :=
  mkTex [116;195;169;120] 8 8 7
    [11;48;85;122;159;196;233;14;51;88;125;162;199;236;17;54;91;128;165;202;239;20;57;94;131;168;205;242;23;60;97;134;171;208;245;26;63;100;137;174;211;248;29;66;103;140;177;214;251;32;69;106;143;180;217;254;35;72;109;146;183;220;1;38]
    [].
Definition back_cgfx : bytes :=
   [67;71;70;88;255;254;20;0;0;0;0;5;89;1;0;0;1;0;0;0;68;65;84;65;0;0;0;0;0;0;0;0;0;0;0;0;1;0;0;0;5;1;0;0;0;0;
   0;0;0;0;0;0;0;0;0;0;0;0;0;0;0;0;0;0;0;0;0;0;0;0;0;0;0;0;0;0;0;0;0;0;0;0;0;0;0;0;0;0;0;0;0;0;0;0;0;0;0;0;0;
   0;0;0;0;0;0;0;0;0;0;0;0;0;0;0;0;0;0;0;0;0;0;0;0;0;0;0;0;0;0;0;0;0;0;0;0;0;0;0;0;0;0;0;0;0;0;0;0;0;0;0;0;0;
   0;0;0;0;116;195;169;120;0;11;48;85;122;159;196;233;14;51;88;125;162;199;236;17;54;91;128;165;202;239;20;57;
   94;131;168;205;242;23;60;97;134;171;208;245;26;63;100;137;174;211;248;29;66;103;140;177;214;251;32;69;106;
   143;180;217;254;35;72;109;146;183;220;1;38;17;0;0;32;84;88;79;66;0;0;0;0;175;255;255;255;0;0;0;0;0;0;0;0;8;
   0;0;0;8;0;0;0;0;0;0;0;0;0;0;0;1;0;0;0;0;0;0;0;0;0;0;0;7;0;0;0;0;0;0;0;0;0;0;0;0;0;0;0;64;0;0;0;120;255;255;
   255;68;73;67;84;44;0;0;0;1;0;0;0;255;255;255;255;1;0;0;0;0;0;0;0;0;0;0;0;0;0;0;0;0;0;0;0;75;255;255;255;
   140;255;255;255].

Lemma back_conforms : conforms_cgfx back_cgfx [back_tex].
Proof. apply conforms_cgfxb_sound. vm_compute. reflexivity. Qed.

(* the payload is stored in front of the record that points to it *)
Lemma back_is_backward : cgfx_payload_at back_cgfx 0 161 /\ selfrel back_cgfx 40 301 /\
  selfrel back_cgfx (301 + 28 + 12) 225 /\ 161 < 225.
Proof.
  assert (Hd : selfrel back_cgfx 40 301) by (exists 261; split; vm_compute; reflexivity).
  assert (Ho : selfrel back_cgfx (301 + 28 + 16 * 0 + 12) 225) by (exists 4294967180; split; vm_compute; reflexivity).
  assert (Hp : selfrel back_cgfx (225 + 72) 161) by (exists 4294967160; split; vm_compute; reflexivity).
  split; [exists 301, 225; auto|]. split; [exact Hd|]. split; [exact Ho | reflexivity].
Qed.

Lemma back_read : read_cgfx Checked back_cgfx = Ok [decoded back_tex] /\ read_cgfx Wrapping back_cgfx = Ok [decoded back_tex].
Proof. split; vm_compute; reflexivity. Qed.

(* before the repair: overflow panic in the checked build, the right answer in the wrapping build *)
Lemma cgfx_backward_unrepaired_panics :
  conforms_cgfx back_cgfx [back_tex] /\
  read_cgfx_unrepaired Checked back_cgfx = Panic POverflow /\
  read_cgfx_unrepaired Wrapping back_cgfx = Ok [decoded back_tex].
Proof. split; [exact back_conforms|]. split; vm_compute; reflexivity. Qed.
