(* C06, reader side: a terminator-free body followed by its terminator is read back exactly
   and the aligned skip lands on the next cell (both encodings). *)
From Coq Require Import List NArith ZArith Bool Lia ZifyBool ZifyNat ZifyN.
From Mila Require Import Lib.Bytes Lib.Machine Model.BinArchive Model.BinStreams Model.TextMap Model.TextFormat
  Proofs.BinAccess Proofs.BinAccess2.
Import ListNotations.
Local Open Scope N_scope.
Ltac Zify.zify_post_hook ::= Z.div_mod_to_equations.

(* ---------------------------------------------------------------- single bytes *)
Lemma read_u8_at a pre b post : a_data a = pre ++ b :: post -> read_u8 a (lenN pre) = Ok b.
Proof.
  intros E. rewrite read_u8_spec. unfold size. rewrite E.
  change (b :: post) with ([b] ++ post).
  assert (Hl : lenN pre <? lenN (pre ++ [b] ++ post) = true).
  { apply N.ltb_lt. rewrite !lenN_app. change (lenN [b]) with 1. lia. }
  rewrite Hl. change 1 with (lenN [b]) at 1. rewrite sliceN_app_exact.
  cbn [dec dec_le]. f_equal. lia.
Qed.
Lemma r_read_u8_at a pre b post : a_data a = pre ++ b :: post -> r_read_u8 a (lenN pre) = (Ok b, lenN pre + 1).
Proof. intros E. unfold r_read_u8. rewrite (read_u8_at a pre b post E). reflexivity. Qed.

Lemma r_read_u8_cases a pos :
  (exists v, r_read_u8 a pos = (Ok v, pos + 1) /\ pos < size a) \/ (r_read_u8 a pos = (Err EOob, pos) /\ size a <= pos).
Proof.
  unfold r_read_u8. destruct (N.lt_ge_cases pos (size a)) as [H|H].
  - destruct (proj2 (read_u8_ok_iff a pos) H) as [v Hv]. left. exists v. rewrite Hv. split; [reflexivity | exact H].
  - right. rewrite read_u8_outside by lia. split; [reflexivity | exact H].
Qed.

(* ---------------------------------------------------------------- alignment *)
Lemma align4_spec p : align4 p = p + pad_len 4 p.
Proof.
  unfold align4, pad_len. cbn [skip_to_4].
  destruct (N.eqb_spec (p mod 4) 0) as [E0|E0]; [lia|].
  destruct (N.eqb_spec ((p + 1) mod 4) 0) as [E1|E1]; [lia|].
  destruct (N.eqb_spec ((p + 1 + 1) mod 4) 0) as [E2|E2]; lia.
Qed.
Lemma align4_ge p : p <= align4 p.
Proof. rewrite align4_spec. lia. Qed.
Lemma align4_mod p : align4 p mod 4 = 0.
Proof. rewrite align4_spec. unfold pad_len. lia. Qed.
Lemma align4_lt p : align4 p < p + 4.
Proof. rewrite align4_spec. unfold pad_len. lia. Qed.

Lemma lenN_zeros n : lenN (zeros n) = N.of_nat n.
Proof. unfold lenN, zeros. rewrite repeat_length. reflexivity. Qed.
Lemma lenN_pad_to k bs : lenN (pad_to k bs) = lenN bs + pad_len k (lenN bs).
Proof. unfold pad_to. rewrite lenN_app, lenN_zeros. lia. Qed.
Lemma pad_to_app_aligned buf x : lenN buf mod 4 = 0 -> pad_to 4 (buf ++ x) = buf ++ pad_to 4 x.
Proof.
  intros H. unfold pad_to. rewrite <- app_assoc. do 3 f_equal. rewrite lenN_app. unfold pad_len. lia.
Qed.

(* ---------------------------------------------------------------- cells *)
Definition cell (fmt : tformat) (m : list N) : bytes :=
  match fmt with
  | ShiftJIS => pad_to 4 (m ++ [0])
  | Unicode => pad_to 4 (units_le m ++ [0; 0])
  end.

Lemma write_message_cell fmt buf m : lenN buf mod 4 = 0 -> write_message fmt buf m = buf ++ cell fmt m.
Proof. intros H. destruct fmt; cbn [write_message cell]; unfold write_shift_jis_string, write_utf_16_string; apply pad_to_app_aligned; exact H. Qed.

Lemma lenN_cell_mod fmt m : lenN (cell fmt m) mod 4 = 0.
Proof. destruct fmt; cbn [cell]; rewrite lenN_pad_to; unfold pad_len; lia. Qed.
Lemma lenN_units_le us : lenN (units_le us) = 2 * lenN us.
Proof.
  unfold units_le. induction us as [|u r IH]; cbn [flat_map]; [reflexivity|].
  rewrite lenN_app, IH, lenN_cons. unfold lenN at 1. rewrite length_enc. lia.
Qed.
Lemma lenN_cell_ge fmt m : 4 <= lenN (cell fmt m).
Proof.
  destruct fmt; cbn [cell]; rewrite lenN_pad_to, lenN_app; [change (lenN [0]) with 1 | change (lenN [0; 0]) with 2]; unfold pad_len; lia.
Qed.

(* ---------------------------------------------------------------- Shift-JIS body *)
Lemma read_sjis_loop_spec a : forall s pre post acc fuel,
  a_data a = pre ++ s ++ 0 :: post -> ~ In 0 s -> (length s < fuel)%nat ->
  read_sjis_loop fuel a (lenN pre) acc = (Ok (rev acc ++ s), lenN pre + lenN s + 1).
Proof.
  induction s as [|b s IH]; intros pre post acc fuel E Hn Hf.
  - destruct fuel as [|f]; [cbn in Hf; lia|]. cbn [read_sjis_loop]. cbn [app] in E.
    rewrite (r_read_u8_at a pre 0 post E). rewrite N.eqb_refl. rewrite app_nil_r. f_equal. rewrite lenN_nil. lia.
  - destruct fuel as [|f]; [cbn in Hf; lia|]. cbn [read_sjis_loop].
    assert (E' : a_data a = pre ++ b :: (s ++ 0 :: post)) by (rewrite E; reflexivity).
    rewrite (r_read_u8_at a pre b _ E').
    assert (Hb : b <> 0) by (intros ->; apply Hn; left; reflexivity).
    destruct (N.eqb_spec b 0) as [Z|_]; [congruence|].
    assert (E2 : a_data a = (pre ++ [b]) ++ s ++ 0 :: post) by (rewrite E, <- app_assoc; reflexivity).
    replace (lenN pre + 1) with (lenN (pre ++ [b])) by (rewrite lenN_app; reflexivity).
    rewrite (IH (pre ++ [b]) post (b :: acc) f E2); [| intros Hin; apply Hn; right; exact Hin | cbn [length] in Hf; lia].
    cbn [rev]. rewrite <- app_assoc. cbn [app]. f_equal. rewrite lenN_app, !lenN_cons, lenN_nil. lia.
Qed.

Lemma read_sjis_cell a pre s post fuel :
  a_data a = pre ++ cell ShiftJIS s ++ post -> lenN pre mod 4 = 0 -> ~ In 0 s -> (length s < fuel)%nat ->
  r_read_shift_jis_string fuel a (lenN pre) = (Ok s, lenN pre + lenN (cell ShiftJIS s)).
Proof.
  intros E Hp Hn Hf. unfold r_read_shift_jis_string.
  cbn [cell] in E. unfold pad_to in E. rewrite <- !app_assoc in E. cbn [app] in E.
  rewrite (read_sjis_loop_spec a s pre _ [] fuel E Hn Hf). cbn [rev app]. f_equal.
  rewrite align4_spec. cbn [cell]. rewrite lenN_pad_to, lenN_app. change (lenN [0]) with 1. unfold pad_len. lia.
Qed.

(* ---------------------------------------------------------------- UTF-16 body *)
Definition unit_ok (u : N) : Prop := 0 < u /\ u < 65536.

Lemma read_utf16_loop_spec a : forall us pre post acc fuel,
  a_data a = pre ++ units_le us ++ 0 :: 0 :: post -> Forall unit_ok us -> (length us < fuel)%nat ->
  read_utf16_loop fuel a (lenN pre) acc = (Ok (rev acc ++ us), lenN pre + 2 * lenN us + 2).
Proof.
  induction us as [|u us IH]; intros pre post acc fuel E Hw Hf.
  - destruct fuel as [|f]; [cbn in Hf; lia|]. cbn [read_utf16_loop]. cbn [units_le flat_map app] in E.
    rewrite (r_read_u8_at a pre 0 _ E).
    assert (E2 : a_data a = (pre ++ [0]) ++ 0 :: post) by (rewrite E, <- app_assoc; reflexivity).
    replace (lenN pre + 1) with (lenN (pre ++ [0])) by (rewrite lenN_app; reflexivity).
    rewrite (r_read_u8_at a (pre ++ [0]) 0 post E2). cbn [N.eqb andb]. rewrite app_nil_r. f_equal.
    rewrite lenN_app, lenN_nil. change (lenN [0]) with 1. lia.
  - destruct fuel as [|f]; [cbn in Hf; lia|]. cbn [read_utf16_loop].
    inversion Hw as [|u' us' Hu Hus]; subst. destruct Hu as [Hu0 Hu1].
    set (b1 := u mod 256). set (b2 := (u / 256) mod 256).
    assert (E1 : a_data a = pre ++ b1 :: (b2 :: units_le us ++ 0 :: 0 :: post)).
    { rewrite E. unfold units_le. cbn [flat_map enc enc_le app]. reflexivity. }
    rewrite (r_read_u8_at a pre b1 _ E1).
    assert (E2 : a_data a = (pre ++ [b1]) ++ b2 :: (units_le us ++ 0 :: 0 :: post)) by (rewrite E1, <- app_assoc; reflexivity).
    replace (lenN pre + 1) with (lenN (pre ++ [b1])) by (rewrite lenN_app; reflexivity).
    rewrite (r_read_u8_at a (pre ++ [b1]) b2 _ E2).
    assert (Hnz : andb (b1 =? 0) (b2 =? 0) = false).
    { subst b1 b2. destruct (N.eqb_spec (u mod 256) 0); destruct (N.eqb_spec ((u / 256) mod 256) 0); cbn [andb]; try reflexivity. lia. }
    rewrite Hnz.
    assert (Hv : b1 + 256 * b2 = u) by (subst b1 b2; lia). rewrite Hv.
    assert (E3 : a_data a = ((pre ++ [b1]) ++ [b2]) ++ units_le us ++ 0 :: 0 :: post) by (rewrite E2, <- (app_assoc (pre ++ [b1]) [b2]); reflexivity).
    replace (lenN (pre ++ [b1]) + 1) with (lenN ((pre ++ [b1]) ++ [b2])) by (rewrite !lenN_app; reflexivity).
    rewrite (IH _ post (u :: acc) f E3 Hus); [| cbn [length] in Hf; lia].
    cbn [rev]. rewrite <- app_assoc. cbn [app]. f_equal. rewrite !lenN_app, !lenN_cons, !lenN_nil. lia.
Qed.

Lemma read_utf16_cell a pre us post fuel :
  a_data a = pre ++ cell Unicode us ++ post -> lenN pre mod 4 = 0 -> Forall unit_ok us -> utf16_valid us = true ->
  (length us < fuel)%nat ->
  r_read_utf_16_string fuel a (lenN pre) = (Ok us, lenN pre + lenN (cell Unicode us)).
Proof.
  intros E Hp Hw Hv Hf. unfold r_read_utf_16_string.
  cbn [cell] in E. unfold pad_to in E. rewrite <- !app_assoc in E. cbn [app] in E.
  rewrite (read_utf16_loop_spec a us pre _ [] fuel E Hw Hf). cbn [rev app]. rewrite Hv. f_equal.
  rewrite align4_spec. cbn [cell]. rewrite lenN_pad_to, lenN_app, lenN_units_le. change (lenN [0; 0]) with 2. unfold pad_len. lia.
Qed.

(* ---------------------------------------------------------------- messages *)
Definition wf_msg (fmt : tformat) (m : list N) : Prop :=
  match fmt with
  | ShiftJIS => ~ In 0 m
  | Unicode => Forall unit_ok m /\ utf16_valid m = true
  end.

Lemma length_le_cell fmt m : (length m <= length (cell fmt m))%nat.
Proof.
  destruct fmt; cbn [cell]; unfold pad_to; rewrite !app_length.
  - lia.
  - assert (H := lenN_units_le m). unfold lenN in H. lia.
Qed.

Lemma read_message_cell fmt a pre m post fuel :
  a_data a = pre ++ cell fmt m ++ post -> lenN pre mod 4 = 0 -> wf_msg fmt m -> (length (a_data a) < fuel)%nat ->
  r_read_message fmt fuel a (lenN pre) = (Ok m, lenN pre + lenN (cell fmt m)).
Proof.
  intros E Hp Hw Hf.
  assert (Hl : (length m < fuel)%nat).
  { pose proof (length_le_cell fmt m). rewrite E, !app_length in Hf. lia. }
  destruct fmt; cbn [r_read_message wf_msg] in *.
  - apply (read_sjis_cell a pre m post fuel E Hp Hw Hl).
  - destruct Hw as [Hw Hv]. apply (read_utf16_cell a pre m post fuel E Hp Hw Hv Hl).
Qed.
