(* Agreement of src/pixel_encodings.rs (ColorFormat numbering and its two tables, the RGB5A3 channel
   constants), regenerated from the source on every run, with Model/ColorFormat.v and Model/Pixel.v.
   The model numbers the ColorFormat variants by their position in the enum declaration. *)
From Coq Require Import String List NArith ZArith Bool.
From Mila Require Import Generated.SourceTables.
From Mila Require Import Proofs.SrcAgreeLib Lib.Bytes Lib.Machine Model.Pixel Model.ColorFormat.
Import ListNotations.
Local Open Scope N_scope.

(* the numbering the model (and the harness) uses: RGBA8 = 0, RGB5A3 = 1, CI8 = 2, Unrecognized = anything else *)
Theorem src_COLORFORMAT_NAMES_agrees :
  src_COLORFORMAT_NAMES = map s2l ["RGBA8"; "RGB5A3"; "CI8"; "Unrecognized"]%string.
Proof. reflexivity. Qed.

Theorem src_COLORFORMAT_BPP_agrees : map cf_bytes_per_pixel (rangeN 4) = src_COLORFORMAT_BPP.
Proof. reflexivity. Qed.

Theorem src_COLORFORMAT_INDEXED_agrees : map cf_indexed (rangeN 4) = src_COLORFORMAT_INDEXED.
Proof. reflexivity. Qed.

(* every number from 3 up behaves like Unrecognized (index 3) *)
Theorem src_COLORFORMAT_agrees_rest : forall f, 3 <= f ->
  cf_recognized f = false /\ cf_bytes_per_pixel f = nthN 3 src_COLORFORMAT_BPP /\ cf_indexed f = nth 3 src_COLORFORMAT_INDEXED false.
Proof.
  intros f H. N_cases f 2; try (exfalso; apply H; reflexivity); repeat split; reflexivity.
Qed.

(* decode_rgb5a3_pixel with its constants taken from the table read from the source *)
Definition chan (v : N) (c : N * N * N * N) : N :=
  let '(m, s, k, a) := c in as_u8 (m * band (shr v s) k + a).
Definition decode_rgb5a3_tbl (t : N * list (N * N * N * N)) (v : N) : color :=
  let '(sel, cs) := t in
  if band v sel =? 0 then map (chan v) (firstn 4 cs) else map (chan v) (skipn 4 cs).

Theorem src_RGB5A3_agrees : forall v, decode_rgb5a3_pixel v = decode_rgb5a3_tbl src_RGB5A3 v.
Proof.
  intro v. unfold decode_rgb5a3_pixel, decode_rgb5a3_tbl, src_RGB5A3.
  cbn [map firstn skipn chan]. rewrite ?N.add_0_r.
  destruct (band v 32768 =? 0); reflexivity.
Qed.
