(* Generic scatter/gather lemmas: a loop that stores values at computed indices of a buffer.
   If the indices are pairwise distinct, the element at index d of the result is the value written with
   destination d.  Flattening of nested for-loops over [seq]. *)
From Coq Require Import List NArith Arith Lia Bool ZifyBool ZifyNat ZifyN.
From Mila Require Import Lib.Bytes Lib.Machine Model.Pixel.
Import ListNotations.
Local Open Scope N_scope.

(* ---------------- upd ---------------- *)
Lemma upd_length {A} (i : nat) (v : A) l : length (upd i v l) = length l.
Proof. revert i; induction l as [|x r IH]; intros [|i]; cbn [upd length]; auto. Qed.
Lemma nth_error_upd_same {A} (i : nat) (v : A) l : (i < length l)%nat -> nth_error (upd i v l) i = Some v.
Proof.
  revert i; induction l as [|x r IH]; intros [|i] H; cbn [upd nth_error length] in *; try lia; auto.
  apply IH. lia.
Qed.
Lemma nth_error_upd_other {A} (i j : nat) (v : A) l : i <> j -> nth_error (upd i v l) j = nth_error l j.
Proof.
  revert i j; induction l as [|x r IH]; intros [|i] [|j] H; cbn [upd nth_error]; auto; try congruence.
Qed.

Lemma skipn_skipn' {A} (x y : nat) (l : list A) : skipn x (skipn y l) = skipn (y + x) l.
Proof. revert l; induction y as [|y IH]; intros l; [reflexivity|]. destruct l as [|a l]; cbn [skipn plus]; [destruct x; reflexivity|apply IH]. Qed.

(* ---------------- scatter ---------------- *)
Fixpoint scatter {A} (ws : list (N * A)) (bmp : list A) : list A :=
  match ws with
  | [] => bmp
  | (d, c) :: r => scatter r (upd (N.to_nat d) c bmp)
  end.

Lemma scatter_length {A} (ws : list (N * A)) bmp : length (scatter ws bmp) = length bmp.
Proof. revert bmp; induction ws as [|[d c] r IH]; intros bmp; cbn [scatter]; [reflexivity|]. rewrite IH. apply upd_length. Qed.

Lemma scatter_untouched {A} (ws : list (N * A)) : forall bmp d,
  ~ In d (map fst ws) -> nth_error (scatter ws bmp) (N.to_nat d) = nth_error bmp (N.to_nat d).
Proof.
  induction ws as [|[d' c] r IH]; intros bmp d H; cbn [scatter]; [reflexivity|].
  cbn [map fst In] in H. rewrite IH by tauto. apply nth_error_upd_other. intros E. apply H. left. lia.
Qed.

Lemma scatter_nth {A} (ws : list (N * A)) : forall bmp d c,
  NoDup (map fst ws) -> In (d, c) ws -> (N.to_nat d < length bmp)%nat ->
  nth_error (scatter ws bmp) (N.to_nat d) = Some c.
Proof.
  induction ws as [|[d' c'] r IH]; intros bmp d c ND Hin Hlt; [destruct Hin|].
  cbn [scatter]. cbn [map fst] in ND. inversion ND as [|? ? Hnotin ND']; subst.
  destruct Hin as [E|Hin].
  - inversion E; subst. rewrite scatter_untouched by exact Hnotin. apply nth_error_upd_same. exact Hlt.
  - apply IH; [exact ND'|exact Hin|]. rewrite upd_length. exact Hlt.
Qed.

(* ---------------- nested loops ---------------- *)
Lemma map_seq_shift {T} (f : nat -> T) a n : map f (seq a n) = map (fun i => f (a + i)%nat) (seq 0 n).
Proof.
  revert f; induction a as [|a IH]; intros f; [reflexivity|].
  rewrite <- seq_shift, map_map, IH. reflexivity.
Qed.

Lemma flat_map_seq {T} (g : nat -> nat -> T) (A B : nat) :
  flat_map (fun a => map (g a) (seq 0 B)) (seq 0 A) = map (fun i => g (i / B)%nat (i mod B)%nat) (seq 0 (A * B)).
Proof.
  destruct B as [|B']; [rewrite Nat.mul_0_r; cbn [seq map]; induction (seq 0 A); cbn; auto|].
  set (B := S B'). assert (HB : (0 < B)%nat) by (unfold B; lia). clearbody B.
  induction A as [|A IH]; [reflexivity|].
  rewrite seq_S, flat_map_app, IH. cbn [flat_map]. rewrite app_nil_r.
  replace (S A * B)%nat with (A * B + B)%nat by lia. rewrite seq_app, map_app. f_equal.
  cbn [plus]. rewrite (map_seq_shift _ (A * B)%nat). apply map_ext_in. intros i Hi. apply in_seq in Hi.
  f_equal.
  - apply Nat.div_unique with (r := i); lia.
  - apply Nat.mod_unique with (q := A); lia.

Qed.

Lemma NoDup_map_inv {A B} (f : A -> B) (g : B -> A) l : (forall x, In x l -> g (f x) = x) -> NoDup l -> NoDup (map f l).
Proof.
  intros Hg ND. induction ND as [|x l Hx ND IH]; cbn [map]; constructor.
  - intros Hin. apply in_map_iff in Hin. destruct Hin as (y & E & Hy). apply Hx.
    assert (y = x) by (rewrite <- (Hg y), <- (Hg x), E; auto using in_eq, in_cons). subst. exact Hy.
  - apply IH. intros y Hy. apply Hg. right. exact Hy.
Qed.

Lemma In_combine_nth {A B} (l : list A) (l' : list B) k a b :
  nth_error l k = Some a -> nth_error l' k = Some b -> In (a, b) (combine l l').
Proof.
  revert l' k; induction l as [|x r IH]; intros [|y r'] [|k] Ha Hb; cbn [nth_error combine] in *; try discriminate.
  - inversion Ha; inversion Hb; subst. left. reflexivity.
  - right. eapply IH; eauto.
Qed.

Lemma map_fst_combine {A B} (l : list A) (l' : list B) : length l = length l' -> map fst (combine l l') = l.
Proof.
  revert l'; induction l as [|x r IH]; intros [|y r'] H; cbn [combine map fst length] in *; try lia; [reflexivity|].
  f_equal. apply IH. lia.
Qed.

(* ---------------- the tile walk as a scatter ---------------- *)
Fixpoint read_all (fmt : N) (n : nat) (rest : bytes) : option (list N) :=
  match n with
  | O => Some []
  | S k => match read_elem fmt rest with
           | None => None
           | Some (v, r') => match read_all fmt k r' with Some vs => Some (v :: vs) | None => None end
           end
  end.

Lemma read_all_length fmt n : forall rest vs, read_all fmt n rest = Some vs -> length vs = n.
Proof.
  induction n as [|n IH]; intros rest vs H; cbn [read_all] in H.
  - inversion H. reflexivity.
  - destruct (read_elem fmt rest) as [[v r']|]; [|discriminate].
    destruct (read_all fmt n r') as [vs'|] eqn:E; [|discriminate]. inversion H; subst. cbn [length]. f_equal. eapply IH; eauto.
Qed.

Lemma rgba_loop_scatter fmt blen : forall dsts rest bmp vs,
  read_all fmt (length dsts) rest = Some vs -> Forall (fun d => d < blen) dsts ->
  rgba_loop fmt blen dsts rest bmp = Ok (scatter (combine dsts (map (fun v => decode_color v fmt) vs)) bmp).
Proof.
  induction dsts as [|d ds IH]; intros rest bmp vs HR HF; cbn [length read_all] in HR.
  - inversion HR. reflexivity.
  - cbn [rgba_loop]. destruct (read_elem fmt rest) as [[v r']|]; [|discriminate].
    destruct (read_all fmt (length ds) r') as [vs'|] eqn:E; [|discriminate]. inversion HR; subst.
    inversion HF as [|? ? Hd HF']; subst. destruct (N.ltb_spec d blen); [|lia].
    cbn [map combine scatter]. apply IH; assumption.
Qed.
