(* C08: LZ10CompressionFormat::compress writes a well-formed LZ10 stream whose tokens expand to the input. *)
From Coq Require Import List NArith Arith Lia Bool ZifyBool ZifyNat ZifyN.
From Mila Require Import Lib.Bytes Model.LZCore Model.LZ10 Model.LZSpec
  Proofs.LZBits Proofs.LZCoreProofs Proofs.LZTokens Proofs.LZEmitProofs Proofs.LZSpecProofs.
Import ListNotations.
Local Open Scope N_scope.

(* the shift/mask expressions of lz10.rs write the LD DD form of the format description *)
Lemma tok10_senc t : tok_range 18 t -> tok10 t = senc V10 t.
Proof.
  destruct t as [b|len disp]; cbn [tok_range tok10 senc]; [reflexivity|]. intros [Hl Hd].
  rewrite N_land_240, N_land_15, N_land_255, N_shiftl_mul, N_shiftr_div.
  change (2 ^ 4) with 16. change (2 ^ 8) with 256.
  rewrite N_lor_16 by lia.
  f_equal. lia.
Qed.

Lemma header10_bytes n : n < 2 ^ 24 ->
  exists l0 l1 l2, header10 n = [0x10; l0; l1; l2] /\ l0 < 256 /\ l1 < 256 /\ l2 < 256 /\ l0 + 256 * l1 + 65536 * l2 = n.
Proof.
  intros Hn. unfold header10. do 3 eexists. split; [reflexivity|].
  rewrite !N_land_255, !N_shiftr_div. change (2 ^ 8) with 256. change (2 ^ 16) with 65536. change (2 ^ 24) with 16777216 in Hn.
  lia.
Qed.

Theorem compress10_enc x : compress10 x = header10 (lenN x) ++ enc_body (senc V10) (tokens 18 x).
Proof.
  unfold compress10. rewrite emit_loop_enc. f_equal. apply enc_body_ext.
  eapply Forall_impl; [|apply tokens_ranges]. intros t Ht. apply tok10_senc. exact Ht.
Qed.

Definition ref_in_range10 (t : token) : Prop :=
  match t with Lit _ => True | Ref len disp => (3 <= len <= 18 /\ 1 <= disp <= 4096)%nat end.

Theorem compress10_wellformed x : wfb x -> lenN x < 2 ^ 24 ->
  exists ts, sparse10 (compress10 x) = Some (lenN x, ts) /\ Forall ref_in_range10 ts /\ expand ts = Some x.
Proof.
  intros Hw Hn. exists (tokens 18 x). split; [|split].
  - rewrite compress10_enc.
    pose proof (tokens_valid V10 18 x Hw ltac:(cbn; lia)) as Hv.
    destruct (header10_bytes (lenN x) Hn) as (l0 & l1 & l2 & Hh & H0 & H1 & H2 & Hsum).
    rewrite Hh. unfold sparse10.
    assert (Hwf : wfbb (([16; l0; l1; l2] ++ enc_body (senc V10) (tokens 18 x))) = true).
    { apply wfbb_spec. apply wfb_app; [repeat constructor; lia | apply wfb_enc_body; exact Hv]. }
    rewrite Hwf. cbn [negb app]. cbv beta iota. rewrite Hsum.
    rewrite sbody_enc; [reflexivity | exact Hv |]. rewrite tokens_total. reflexivity.
  - eapply Forall_impl; [|apply (tokens_ranges 18 x)]. intros [b|len disp]; cbn [tok_range ref_in_range10]; lia.
  - apply tokens_expand.
Qed.

(* the accumulator length of the extracted guard *)
Lemma len_acc_eq : forall l acc, len_acc l acc = acc + lenN l.
Proof.
  induction l as [|a l IH]; intros acc; cbn [len_acc]; unfold lenN in *; cbn [length]; [lia|].
  rewrite IH. lia.
Qed.
Lemma lenN_tr_eq x : lenN_tr x = lenN x.
Proof. unfold lenN_tr. rewrite len_acc_eq. lia. Qed.

