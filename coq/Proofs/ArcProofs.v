(* C16: extraction from every archive that satisfies the layout relation returns exactly the
   packed files; the four error cases; the reader depends on observations only. *)
From Coq Require Import List NArith ZArith Bool Lia ZifyBool ZifyNat ZifyN Permutation.
From Mila Require Import Lib.Bytes Lib.BytesExtra Lib.Machine Model.BinArchive Model.BinStreams Model.BinFormat Model.Arc
  Proofs.AMapLemmas Proofs.BinAccess Proofs.BinAccess2 Proofs.FindLabel Proofs.ObsEqual.
Import ListNotations.
Local Open Scope N_scope.
Ltac Zify.zify_post_hook ::= Z.div_mod_to_equations.

(* number of elements as an N (the u32 count of the file) *)
Definition lenL {A} (l : list A) : N := N.of_nat (length l).
Lemma lenL_nil {A} : lenL (@nil A) = 0.
Proof. reflexivity. Qed.
Lemma lenL_cons {A} (x : A) l : lenL (x :: l) = 1 + lenL l.
Proof. unfold lenL. cbn [length]. lia. Qed.

(* ---------------------------------------------------------------- the layout relation *)
Definition arc_pad (w0 : N) : N := if w0 =? 0 then HEADER_PAD else 0.

(* record j of the table at [info] describes entry [en]: a string cell holding the name, then index,
   size and offset; the entry's address is offset + pad (which fits a u32) *)
Definition record_is (a : archive) (info pad : N) (j : nat) (en : arc_entry) : Prop :=
  let r := info + 16 * N.of_nat j in
  exists off,
    read_string a r = Ok (Some (ae_name en)) /\ read_u32 a (r + 4) = Ok (ae_index en) /\
    read_u32 a (r + 8) = Ok (ae_size en) /\ read_u32 a (r + 12) = Ok off /\
    off + pad < 2 ^ 32 /\ ae_address en = off + pad.
(* records i, i+1, ... of the table are [recs] *)
Definition table_from (a : archive) (info pad : N) (i : nat) (recs : list arc_entry) : Prop :=
  forall j en, nth_error recs j = Some en -> record_is a info pad (i + j) en.

(* entry [en] is the file (name, body): the recorded size is the body's length and the body is the
   recorded range of the data region.  An EMPTY range (size 0) holds the empty body wherever its address points - also
   beyond the data region: the code seeks there and reads zero bytes (no byte is looked at) *)
Definition holds_file (a : archive) (en : arc_entry) (f : bytes * bytes) : Prop :=
  ae_name en = fst f /\ ae_size en = lenN (snd f) /\
  (sliceN (ae_address en) (lenN (snd f)) (a_data a) = Some (snd f) \/ snd f = []).

Definition arc_layout (a : archive) (files : list (bytes * bytes)) : Prop :=
  exists c i w0 recs,
    (* c / i = the LOWEST address carrying the label Count / Info (find_label_address of the repaired code 10408e9;
       Proofs/FindLabel.v: find_label_address_spec); with the label on exactly one address, that address *)
    find_label_address a COUNT = Some c /\ find_label_address a INFO = Some i /\
    read_u32 a 0 = Ok w0 /\                                       (* pad = 0x60 iff the first word is 0 *)
    read_u32 a c = Ok (lenL files) /\
    table_from a i (arc_pad w0) 0 recs /\
    Forall2 (holds_file a) recs files /\
    NoDup (map fst files).

(* ---------------------------------------------------------------- the record loop *)
Lemma fst_rd {A} (r : outcome A) pos w : fst (rd r pos w) = r.
Proof. destruct r; reflexivity. Qed.

Lemma read_entry_record a info pad j en :
  record_is a info pad j en ->
  read_entry a (info + 16 * N.of_nat j) pad = (Ok en, info + 16 * N.of_nat (S j)).
Proof.
  intros (off & Hs & Hi & Hz & Ho & Hlt & Ha). unfold read_entry.
  set (r := info + 16 * N.of_nat j) in *.
  unfold r_read_string, r_read_u32. rewrite Hs. cbn [rd].
  rewrite Hi. cbn [rd]. replace (r + 4 + 4) with (r + 8) by lia. rewrite Hz. cbn [rd].
  replace (r + 8 + 4) with (r + 12) by lia. rewrite Ho. cbn [rd].
  unfold checked_add32. destruct (N.ltb_spec (off + pad) (2 ^ 32)) as [_|C]; [|lia].
  f_equal; [|unfold r; lia]. f_equal. destruct en as [n ix sz ad]. cbn in *. subst ad. reflexivity.
Qed.

(* running over a prefix of the table: the loop continues with the remaining count behind the prefix *)
Lemma entry_loop_prefix a info pad : forall pre i remaining acc fuel,
  table_from a info pad i pre -> lenL pre <= remaining -> (length pre <= fuel)%nat ->
  entry_loop fuel a remaining (info + 16 * N.of_nat i) pad acc =
  entry_loop (fuel - length pre) a (remaining - lenL pre) (info + 16 * N.of_nat (i + length pre)) pad (rev pre ++ acc).
Proof.
  induction pre as [|en pre IH]; intros i remaining acc fuel Ht Hr Hf.
  - cbn [length rev app]. rewrite lenL_nil, N.sub_0_r, Nat.sub_0_r, Nat.add_0_r. reflexivity.
  - rewrite lenL_cons in Hr. cbn [length] in Hf. destruct fuel as [|f]; [lia|].
    cbn [entry_loop]. destruct (N.eqb_spec remaining 0) as [Z|_]; [lia|].
    assert (H0 : record_is a info pad i en).
    { specialize (Ht 0%nat en eq_refl). rewrite Nat.add_0_r in Ht. exact Ht. }
    rewrite (read_entry_record a info pad i en H0).
    rewrite IH.
    + cbn [length rev]. rewrite lenL_cons, <- app_assoc. cbn [app].
      replace (S f - S (length pre))%nat with (f - length pre)%nat by lia.
      replace (remaining - 1 - lenL pre) with (remaining - (1 + lenL pre)) by lia.
      replace (S i + length pre)%nat with (i + S (length pre))%nat by lia. reflexivity.
    + intros j e' Hj. specialize (Ht (S j) e' Hj). replace (i + S j)%nat with (S i + j)%nat in Ht by lia. exact Ht.
    + lia.
    + lia.
Qed.

Lemma entry_loop_table a info pad recs fuel :
  table_from a info pad 0 recs -> (length recs <= fuel)%nat ->
  entry_loop fuel a (lenL recs) info pad [] = Ok recs.
Proof.
  intros Ht Hf. replace info with (info + 16 * N.of_nat 0) at 1 by (cbn; lia).
  rewrite (entry_loop_prefix a info pad recs 0 (lenL recs) [] fuel Ht (N.le_refl _) Hf).
  rewrite N.sub_diag. destruct (fuel - length recs)%nat; cbn [entry_loop N.eqb]; rewrite app_nil_r, rev_involutive; reflexivity.
Qed.

(* a readable record lies inside the data region: the table of n records needs 16 n bytes *)
Lemma record_is_inside a info pad j en : record_is a info pad j en -> info + 16 * N.of_nat j + 16 <= size a.
Proof.
  intros (off & _ & _ & _ & Ho & _). assert (H : exists v, read_uint a (info + 16 * N.of_nat j + 12) 4 = Ok v) by (exists off; exact Ho).
  apply read_uint_ok_iff in H. change (N.of_nat 4) with 4 in H. lia.
Qed.
Lemma table_fuel a info pad recs : table_from a info pad 0 recs -> (length recs <= data_fuel a)%nat.
Proof.
  intros Ht. unfold data_fuel. destruct recs as [|e0 r0] eqn:E; [cbn; lia|]. rewrite <- E in *.
  assert (Hn : (length recs - 1 < length recs)%nat) by (rewrite E; cbn; lia).
  destruct (nth_error recs (length recs - 1)) as [en|] eqn:En; [|apply nth_error_None in En; lia].
  specialize (Ht _ en En). apply record_is_inside in Ht. unfold size, lenN in Ht. cbn [Nat.add] in Ht. lia.
Qed.

(* ---------------------------------------------------------------- bodies *)
Lemma r_read_bytes_loop_ok a : forall n pos acc, pos + N.of_nat n <= size a ->
  r_read_bytes_loop n a pos acc = (Ok (rev acc ++ firstn n (skipn (N.to_nat pos) (a_data a))), pos + N.of_nat n).
Proof.
  induction n as [|n IH]; intros pos acc H; cbn [r_read_bytes_loop].
  - cbn [firstn]. rewrite app_nil_r. f_equal. lia.
  - assert (Hlt : pos < size a) by lia.
    destruct (proj2 (read_u8_ok_iff a pos) Hlt) as [v Hv]. unfold r_read_u8. rewrite Hv. cbn [rd].
    destruct (read_u8_value a pos v Hv) as [_ Hnth].
    rewrite IH by lia. f_equal; [|lia]. f_equal. cbn [rev]. rewrite <- app_assoc. cbn [app]. f_equal.
    rewrite (firstn_skipn_S _ _ n v Hnth). do 3 f_equal. lia.
Qed.

Lemma read_body_ok a address sz body :
  sliceN address sz (a_data a) = Some body -> fst (r_read_bytes a address sz) = Ok body.
Proof.
  unfold sliceN. destruct (N.leb_spec (address + sz) (lenN (a_data a))) as [H|H]; [|discriminate].
  intros E. injection E as E. unfold r_read_bytes. unfold size.
  replace (N.min sz (lenN (a_data a) + 1)) with sz by lia.
  rewrite r_read_bytes_loop_ok by (unfold size; lia). cbn [fst rev app]. rewrite E. reflexivity.
Qed.

Lemma read_body_empty a address : fst (r_read_bytes a address 0) = Ok [].
Proof. unfold r_read_bytes. rewrite N.min_0_l. reflexivity. Qed.

Lemma read_body_outside a address sz : 1 <= sz -> size a < address + sz -> fst (r_read_bytes a address sz) = Err EOob.
Proof.
  intros H1 H2. unfold r_read_bytes.
  destruct (r_read_bytes_loop (N.to_nat (N.min sz (size a + 1))) a address []) as [[bs|e|k] p] eqn:E; cbn [fst].
  - apply r_read_bytes_loop_spec in E. destruct E as (_ & Hle & _). exfalso.
    assert (Hn : N.to_nat (N.min sz (size a + 1)) <> 0%nat) by lia. specialize (Hle Hn). lia.
  - apply r_read_bytes_loop_err in E. destruct E as [-> _]. reflexivity.
  - exfalso. exact (r_read_bytes_loop_no_panic _ _ _ _ _ _ E).
Qed.

Lemma body_loop_files a : forall recs files acc,
  Forall2 (holds_file a) recs files -> body_loop a recs acc = Ok (rev acc ++ files).
Proof.
  induction recs as [|en recs IH]; intros files acc H; inversion H as [|x y xs ys Hh Hr]; subst; cbn [body_loop].
  - rewrite app_nil_r. reflexivity.
  - destruct Hh as (Hn & Hs & Hb).
    assert (Hr' : fst (r_read_bytes a (ae_address en) (ae_size en)) = Ok (snd y)).
    { rewrite Hs. destruct Hb as [Hb|Hb]; [apply read_body_ok; exact Hb | rewrite Hb; apply read_body_empty]. }
    rewrite Hr'.
    rewrite (IH ys ((ae_name en, snd y) :: acc) Hr). cbn [rev]. rewrite <- app_assoc. cbn [app].
    rewrite Hn. destruct y; reflexivity.
Qed.

(* a prefix of readable bodies, then one whose (non-empty) range leaves the data region *)
Lemma body_loop_outside a : forall pre en post acc,
  (forall e, In e pre -> ae_size e = 0 \/ ae_address e + ae_size e <= size a) ->
  1 <= ae_size en -> size a < ae_address en + ae_size en ->
  body_loop a (pre ++ en :: post) acc = Err EOob.
Proof.
  induction pre as [|e pre IH]; intros en post acc Hp H1 H2; cbn [app body_loop].
  - rewrite (read_body_outside a _ _ H1 H2). reflexivity.
  - assert (He : exists b, fst (r_read_bytes a (ae_address e) (ae_size e)) = Ok b).
    { destruct (Hp e (or_introl eq_refl)) as [Z|Hin].
      - rewrite Z. exists []. apply read_body_empty.
      - destruct (sliceN_Some (ae_address e) (ae_size e) (a_data a) Hin) as [b Hb]. exists b. apply read_body_ok. exact Hb. }
    destruct He as [b ->]. apply IH; [|assumption|assumption]. intros e' He'. apply Hp. right. exact He'.
Qed.

(* ---------------------------------------------------------------- the map *)
Lemma fm_set_absent k v m : ~ In k (map fst m) -> fm_set k v m = m ++ [(k, v)].
Proof.
  induction m as [|[k' v'] r IH]; intros H; cbn [fm_set app]; [reflexivity|].
  destruct (bytes_eqb_spec k k') as [E|E]; [exfalso; apply H; left; cbn; congruence|].
  rewrite IH; [reflexivity|]. intros Hin. apply H. right. exact Hin.
Qed.
Lemma fm_fold_distinct : forall l acc, NoDup (map fst (acc ++ l)) ->
  fold_left (fun m kv => fm_set (fst kv) (snd kv) m) l acc = acc ++ l.
Proof.
  induction l as [|kv r IH]; intros acc Hnd; cbn [fold_left]; [rewrite app_nil_r; reflexivity|].
  rewrite fm_set_absent.
  - rewrite IH; rewrite <- app_assoc; destruct kv; [reflexivity | exact Hnd].
  - rewrite map_app in Hnd. cbn [map] in Hnd. apply NoDup_remove_2 in Hnd. intros Hin. apply Hnd. apply in_or_app. left. exact Hin.
Qed.
Lemma fm_of_list_distinct l : NoDup (map fst l) -> fm_of_list l = l.
Proof. intros H. unfold fm_of_list. rewrite fm_fold_distinct; [reflexivity | exact H]. Qed.

Lemma fm_get_in k v l : NoDup (map fst l) -> In (k, v) l -> fm_get k l = Some v.
Proof.
  induction l as [|[k' v'] r IH]; intros Hnd Hin; [destruct Hin|]. cbn [map fst] in Hnd. inversion Hnd as [|x xs Hx Hr]; subst.
  cbn [fm_get]. destruct Hin as [E|Hin].
  - inversion E; subst. rewrite bytes_eqb_refl. reflexivity.
  - destruct (bytes_eqb_spec k k') as [E|E]; [|apply IH; assumption].
    subst k'. exfalso. apply Hx. apply in_map_iff. exists (k, v). auto.
Qed.

(* ---------------------------------------------------------------- extraction *)
Lemma Forall2_length {A B} (R : A -> B -> Prop) l l' : Forall2 R l l' -> length l = length l'.
Proof. induction 1; cbn; congruence. Qed.

Theorem arc_trace_layout m a files : arc_layout a files -> arc_trace m a = Ok files.
Proof.
  intros (c & i & w0 & recs & Hc & Hi & Hw & Hn & Ht & Hf & Hnd). unfold arc_trace.
  rewrite Hc, Hi. cbn [of_option bind].
  rewrite Hw. cbn [bind]. unfold r_read_u32. rewrite fst_rd, Hn. cbn [bind].
  assert (Hl : lenL files = lenL recs) by (unfold lenL; rewrite (Forall2_length _ _ _ Hf); reflexivity).
  rewrite Hl. fold (arc_pad w0).
  rewrite (entry_loop_table a i (arc_pad w0) recs (data_fuel a) Ht (table_fuel a i (arc_pad w0) recs Ht)). cbn [bind].
  rewrite (body_loop_files a recs files [] Hf). reflexivity.
Qed.

Theorem arc_extract m a files : arc_layout a files -> arc_from_archive m a = Ok files.
Proof.
  intros H. unfold arc_from_archive. rewrite (arc_trace_layout m a files H). cbn [bind].
  destruct H as (_ & _ & _ & _ & _ & _ & _ & _ & _ & _ & Hnd). rewrite fm_of_list_distinct by exact Hnd. reflexivity.
Qed.

(* read as a finite map: every packed file is found under its name, nothing else is *)
Theorem arc_extract_map m a files : arc_layout a files ->
  exists r, arc_from_archive m a = Ok r /\ NoDup (map fst r) /\ length r = length files /\
    (forall name body, In (name, body) files -> fm_get name r = Some body) /\
    (forall name, ~ In name (map fst files) -> fm_get name r = None).
Proof.
  intros H. exists files. split; [apply arc_extract; exact H|].
  destruct H as (_ & _ & _ & _ & _ & _ & _ & _ & _ & _ & Hnd). repeat split; try assumption.
  - intros name body Hin. apply fm_get_in; assumption.
  - intros name Hn. clear Hnd. induction files as [|[k v] r IH]; [reflexivity|]. cbn [fm_get].
    destruct (bytes_eqb_spec name k) as [E|E]; [exfalso; apply Hn; left; cbn; congruence|].
    apply IH. intros Hin. apply Hn. right. exact Hin.
Qed.

(* from bytes: the layout is a statement about the archive BinArchive::from_bytes returns *)
Theorem arc_from_bytes_extract m f a files :
  BinFormat.from_bytes LE f = Ok a -> arc_layout a files -> arc_from_bytes m f = Ok files.
Proof. intros Hp Hl. unfold arc_from_bytes. rewrite Hp. cbn [bind]. apply arc_extract. exact Hl. Qed.

(* the relation does not depend on the (hash) order of the label map *)
Theorem arc_layout_any_hash_order a a' files :
  a_data a' = a_data a -> a_text a' = a_text a -> a_endian a' = a_endian a -> Permutation (a_labels a) (a_labels a') ->
  arc_layout a files -> arc_layout a' files.
Proof.
  intros Hd Ht He P (c & i & w0 & recs & Hc & Hi & Hw & Hn & Htab & Hf & Hnd).
  assert (U : forall x, read_u32 a' x = read_u32 a x) by (intros x; apply read_uint_congr; assumption).
  assert (S : forall x, read_string a' x = read_string a x).
  { intros x. unfold read_string, check_cell, size. rewrite Hd, Ht. reflexivity. }
  exists c, i, w0, recs. repeat split.
  - rewrite <- (find_label_address_perm a a' COUNT P). exact Hc.
  - rewrite <- (find_label_address_perm a a' INFO P). exact Hi.
  - rewrite U. exact Hw.
  - rewrite U. exact Hn.
  - intros j en Hj. destruct (Htab j en Hj) as (off & H1 & H2 & H3 & H4 & H5 & H6). exists off. rewrite S, !U. repeat split; assumption.
  - clear - Hf Hd. induction Hf as [|x y xs ys (H1 & H2 & H3) Hr IH]; constructor; [|exact IH]. split; [exact H1|]. split; [exact H2|]. rewrite Hd. exact H3.
  - exact Hnd.
Qed.

(* ---------------------------------------------------------------- the four errors *)
Theorem arc_no_count m a : label_addrs a COUNT = [] -> arc_from_archive m a = Err ENoCount.
Proof. intros H. unfold arc_from_archive, arc_trace. rewrite find_label_address_addrs, H. reflexivity. Qed.
Theorem arc_no_count' m a : find_label_address a COUNT = None -> arc_from_archive m a = Err ENoCount.
Proof. intros H. unfold arc_from_archive, arc_trace. rewrite H. reflexivity. Qed.
Theorem arc_no_info' m a c : find_label_address a COUNT = Some c -> find_label_address a INFO = None -> arc_from_archive m a = Err ENoInfo.
Proof. intros Hc Hi. unfold arc_from_archive, arc_trace. rewrite Hc, Hi. reflexivity. Qed.

Theorem arc_no_info m a : label_addrs a COUNT <> [] -> label_addrs a INFO = [] -> arc_from_archive m a = Err ENoInfo.
Proof.
  intros Hc Hi. unfold arc_from_archive, arc_trace. rewrite !find_label_address_addrs, Hi.
  destruct (label_addrs a COUNT); [congruence | reflexivity].
Qed.

(* a record without a string: the count label says there are more than k records, the first k are
   readable records and the name cell of record k holds no string *)
Theorem arc_missing_name m a c i w0 n pre :
  find_label_address a COUNT = Some c -> find_label_address a INFO = Some i ->
  read_u32 a 0 = Ok w0 -> read_u32 a c = Ok n ->
  table_from a i (arc_pad w0) 0 pre -> lenL pre < n ->
  read_string a (i + 16 * N.of_nat (length pre)) = Ok None ->
  arc_from_archive m a = Err EMissingName.
Proof.
  intros Hc Hi Hw Hn Ht Hlt Hs. unfold arc_from_archive, arc_trace. rewrite Hc, Hi. cbn [of_option bind].
  rewrite Hw. cbn [bind]. unfold r_read_u32. rewrite fst_rd, Hn. cbn [bind]. fold (arc_pad w0).
  assert (Hin : inside a (i + 16 * N.of_nat (length pre)) 4 = true).
  { rewrite read_string_spec in Hs. destruct (inside a _ 4); [reflexivity | discriminate]. }
  apply inside_true in Hin.
  assert (Hfuel : (length pre < data_fuel a)%nat) by (unfold data_fuel, size, lenN, lenL in *; lia).
  replace i with (i + 16 * N.of_nat 0) at 1 by (cbn; lia).
  rewrite (entry_loop_prefix a i (arc_pad w0) pre 0 n [] (data_fuel a) Ht) by (unfold lenL in *; lia).
  destruct (data_fuel a - length pre)%nat as [|f] eqn:Ef; [lia|]. cbn [entry_loop].
  destruct (N.eqb_spec (n - lenL pre) 0) as [Z|_]; [unfold lenL in *; lia|].
  unfold read_entry, r_read_string. cbn [Nat.add]. rewrite Hs. cbn [rd]. reflexivity.
Qed.

(* a range leaving the data region: all records are readable, the bodies before record k are inside (or
   empty), record k has a non-empty range that ends beyond the data *)
Theorem arc_range_outside m a c i w0 pre en post :
  find_label_address a COUNT = Some c -> find_label_address a INFO = Some i ->
  read_u32 a 0 = Ok w0 -> read_u32 a c = Ok (lenL (pre ++ en :: post)) ->
  table_from a i (arc_pad w0) 0 (pre ++ en :: post) ->
  (forall e, In e pre -> ae_size e = 0 \/ ae_address e + ae_size e <= size a) ->
  1 <= ae_size en -> size a < ae_address en + ae_size en ->
  arc_from_archive m a = Err EOob.
Proof.
  intros Hc Hi Hw Hn Ht Hp H1 H2. unfold arc_from_archive, arc_trace. rewrite Hc, Hi. cbn [of_option bind].
  rewrite Hw. cbn [bind]. unfold r_read_u32. rewrite fst_rd, Hn. cbn [bind]. fold (arc_pad w0).
  rewrite (entry_loop_table a i (arc_pad w0) _ (data_fuel a) Ht (table_fuel a i (arc_pad w0) _ Ht)). cbn [bind].
  rewrite (body_loop_outside a pre en post [] Hp H1 H2). reflexivity.
Qed.
(* in particular an offset that does not even fit a u32 once the header padding is added (finding F9) *)
Theorem arc_offset_overflow m a c i w0 n pre name idx sz off :
  find_label_address a COUNT = Some c -> find_label_address a INFO = Some i ->
  read_u32 a 0 = Ok w0 -> read_u32 a c = Ok n ->
  table_from a i (arc_pad w0) 0 pre -> lenL pre < n ->
  let r := i + 16 * N.of_nat (length pre) in
  read_string a r = Ok (Some name) -> read_u32 a (r + 4) = Ok idx -> read_u32 a (r + 8) = Ok sz -> read_u32 a (r + 12) = Ok off ->
  2 ^ 32 <= off + arc_pad w0 ->
  arc_from_archive m a = Err EOob.
Proof.
  intros Hc Hi Hw Hn Ht Hlt r Hs H4 H8 H12 Hov. unfold arc_from_archive, arc_trace. rewrite Hc, Hi. cbn [of_option bind].
  rewrite Hw. cbn [bind]. unfold r_read_u32. rewrite fst_rd, Hn. cbn [bind]. fold (arc_pad w0).
  assert (Hin : exists v, read_uint a (r + 12) 4 = Ok v) by (exists off; exact H12).
  apply read_uint_ok_iff in Hin. change (N.of_nat 4) with 4 in Hin.
  assert (Hfuel : (length pre < data_fuel a)%nat) by (unfold r, data_fuel, size, lenN, lenL in *; lia).
  replace i with (i + 16 * N.of_nat 0) at 1 by (cbn; lia).
  rewrite (entry_loop_prefix a i (arc_pad w0) pre 0 n [] (data_fuel a) Ht) by (unfold lenL in *; lia).
  destruct (data_fuel a - length pre)%nat as [|f] eqn:Ef; [lia|]. cbn [entry_loop].
  destruct (N.eqb_spec (n - lenL pre) 0) as [Z|_]; [unfold lenL in *; lia|].
  unfold read_entry, r_read_string, r_read_u32. cbn [Nat.add]. fold r. rewrite Hs. cbn [rd].
  rewrite H4. cbn [rd]. replace (r + 4 + 4) with (r + 8) by lia. rewrite H8. cbn [rd].
  replace (r + 8 + 4) with (r + 12) by lia. rewrite H12. cbn [rd].
  unfold checked_add32. destruct (N.ltb_spec (off + arc_pad w0) (2 ^ 32)) as [C|_]; [lia|]. reflexivity.
Qed.

(* ---------------------------------------------------------------- observations only *)
Section Congr.
  Variables a a' : archive.
  Hypothesis Ho : obs_equal a a'.
  Hypothesis He : a_endian a' = a_endian a.

  Let Hd : a_data a' = a_data a := oe_data a a' Ho.

  Lemma read_entry_congr pos pad : read_entry a' pos pad = read_entry a pos pad.
  Proof.
    unfold read_entry, r_read_string, r_read_u32. rewrite (oe_string a a' Ho).
    destruct (rd (read_string a pos) pos 4) as [[[name|]|e|k] p1]; try reflexivity.
    unfold read_u32. rewrite !(read_uint_congr a a' _ 4 Hd He).
    destruct (rd (read_uint a p1 4) p1 4) as [[ix|e|k] p2]; try reflexivity.
    rewrite !(read_uint_congr a a' _ 4 Hd He).
    destruct (rd (read_uint a p2 4) p2 4) as [[sz|e|k] p3]; try reflexivity.
    rewrite !(read_uint_congr a a' _ 4 Hd He). reflexivity.
  Qed.
  Lemma entry_loop_congr pad : forall fuel remaining pos acc,
    entry_loop fuel a' remaining pos pad acc = entry_loop fuel a remaining pos pad acc.
  Proof.
    induction fuel as [|f IH]; intros remaining pos acc; cbn [entry_loop]; [reflexivity|].
    destruct (remaining =? 0); [reflexivity|]. rewrite read_entry_congr.
    destruct (read_entry a pos pad) as [[en|e|k] p]; [apply IH | reflexivity | reflexivity].
  Qed.
  Lemma body_loop_congr : forall ents acc, body_loop a' ents acc = body_loop a ents acc.
  Proof.
    induction ents as [|en r IH]; intros acc; cbn [body_loop]; [reflexivity|].
    rewrite (r_read_bytes_congr a a' _ _ Hd). destruct (fst (r_read_bytes a (ae_address en) (ae_size en))); [apply IH | reflexivity | reflexivity].
  Qed.

  (* the whole extraction is determined by observations (since the repair 10408e9 also when Count or Info sits on
     several addresses: the lookup is a function of the label map) *)
  Theorem arc_trace_congr m : arc_trace m a' = arc_trace m a.
  Proof.
    unfold arc_trace. rewrite !(oe_find a a' Ho).
    destruct (find_label_address a COUNT) as [c|]; cbn [of_option bind]; [|reflexivity].
    destruct (find_label_address a INFO) as [i|]; cbn [of_option bind]; [|reflexivity].
    unfold read_u32, r_read_u32, read_u32. rewrite !(read_uint_congr a a' _ 4 Hd He).
    destruct (read_uint a 0 4) as [w0|e|k]; cbn [bind]; try reflexivity.
    rewrite !fst_rd. destruct (read_uint a c 4) as [n|e|k]; cbn [bind]; try reflexivity.
    unfold data_fuel. rewrite Hd. rewrite entry_loop_congr.
    destruct (entry_loop _ a n i _ []) as [ents|e|k]; cbn [bind]; try reflexivity. apply body_loop_congr.
  Qed.
End Congr.

Theorem arc_from_archive_obs_equal m a a' :
  obs_equal a a' -> a_endian a' = a_endian a -> arc_from_archive m a' = arc_from_archive m a.
Proof. intros Ho He. unfold arc_from_archive. rewrite (arc_trace_congr a a' Ho He m). reflexivity. Qed.

(* ---------------------------------------------------------------- the label on several addresses *)
(* the unique-address reading of the layout is an instance *)
Lemma find_of_addrs a l x : label_addrs a l = [x] -> find_label_address a l = Some x.
Proof. intros H. rewrite find_label_address_addrs, H. reflexivity. Qed.
Theorem arc_layout_unique a files c i w0 recs :
  label_addrs a COUNT = [c] -> label_addrs a INFO = [i] -> read_u32 a 0 = Ok w0 -> read_u32 a c = Ok (lenL files) ->
  table_from a i (arc_pad w0) 0 recs -> Forall2 (holds_file a) recs files -> NoDup (map fst files) -> arc_layout a files.
Proof. intros Hc Hi. exists c, i, w0, recs. repeat split; try assumption; apply find_of_addrs; assumption. Qed.
(* what the lookup means: the lowest of the addresses whose bucket contains the label *)
Theorem find_label_lowest a l c : find_label_address a l = Some c <->
  In c (label_addrs a l) /\ forall y, In y (label_addrs a l) -> c <= y.
Proof. exact (find_label_address_spec a l c). Qed.

(* ---------------------------------------------------------------- "a record whose range leaves the data region is an error" *)
Lemma first_such (P : arc_entry -> bool) : forall l, existsb P l = true ->
  exists pre en post, l = pre ++ en :: post /\ P en = true /\ forall e, In e pre -> P e = false.
Proof.
  induction l as [|x r IH]; cbn [existsb]; [discriminate|]. destruct (P x) eqn:Px.
  - intros _. exists [], x, r. repeat split; [exact Px | intros e []].
  - cbn [orb]. intros H. destruct (IH H) as (pre & en & post & -> & Hen & Hpre).
    exists (x :: pre), en, post. repeat split; [exact Hen|]. intros e [<-|He]; [exact Px | apply Hpre; exact He].
Qed.
(* the general sentence: the table is fully readable, the count is the number of its records, and SOME record has a
   non-empty range that ends beyond the data region - the extraction fails with OutOfBounds (at the first such record) *)
Theorem arc_any_range_outside m a c i w0 recs en :
  find_label_address a COUNT = Some c -> find_label_address a INFO = Some i ->
  read_u32 a 0 = Ok w0 -> read_u32 a c = Ok (lenL recs) ->
  table_from a i (arc_pad w0) 0 recs ->
  In en recs -> 1 <= ae_size en -> size a < ae_address en + ae_size en ->
  arc_from_archive m a = Err EOob.
Proof.
  intros Hc Hi Hw Hn Ht Hin H1 H2.
  set (bad := fun e : arc_entry => andb (1 <=? ae_size e) (size a <? ae_address e + ae_size e)).
  assert (Hex : existsb bad recs = true).
  { apply existsb_exists. exists en. split; [exact Hin|]. unfold bad. apply andb_true_iff. split; [apply N.leb_le | apply N.ltb_lt]; assumption. }
  destruct (first_such bad recs Hex) as (pre & en' & post & E & Hbad & Hpre). subst recs.
  unfold bad in Hbad. apply andb_true_iff in Hbad. destruct Hbad as [B1 B2]. apply N.leb_le in B1. apply N.ltb_lt in B2.
  apply (arc_range_outside m a c i w0 pre en' post Hc Hi Hw Hn Ht); [|exact B1 | exact B2].
  intros e He. specialize (Hpre e He). unfold bad in Hpre. apply andb_false_iff in Hpre.
  destruct Hpre as [F|F]; [apply N.leb_gt in F; left; lia | apply N.ltb_ge in F; right; exact F].
Qed.

(* ---------------------------------------------------------------- known finding F27: the header-detection heuristic *)
(* The layout with an EXPLICIT padding: [arc_layout] is this relation at the padding the code's heuristic picks. *)
Definition arc_layout_with (pad : N) (a : archive) (files : list (bytes * bytes)) : Prop :=
  exists c i recs,
    find_label_address a COUNT = Some c /\ find_label_address a INFO = Some i /\
    read_u32 a c = Ok (lenL files) /\
    table_from a i pad 0 recs /\ Forall2 (holds_file a) recs files /\ NoDup (map fst files).
Lemma arc_layout_explicit a files :
  arc_layout a files <-> exists w0, read_u32 a 0 = Ok w0 /\ arc_layout_with (arc_pad w0) a files.
Proof.
  split.
  - intros (c & i & w0 & recs & Hc & Hi & Hw & Hn & Ht & Hf & Hnd). exists w0. split; [exact Hw|]. exists c, i, recs. repeat split; assumption.
  - intros (w0 & Hw & c & i & recs & Hc & Hi & Hn & Ht & Hf & Hnd). exists c, i, w0, recs. repeat split; assumption.
Qed.
(* the 0x60-byte zero header is present *)
Definition has_header (a : archive) : Prop := sliceN 0 HEADER_PAD (a_data a) = Some (zeros 96).
(* what the property text describes: offsets relative to the data start (no header), or relative to the end of the header when
   one is present *)
Definition arc_spec (a : archive) (files : list (bytes * bytes)) : Prop :=
  arc_layout_with 0 a files \/ (has_header a /\ arc_layout_with HEADER_PAD a files).
(* the known finding: an UN-padded layout whose first data word is 0 - arc.rs:23 takes "first u32 = 0" for "header present" *)
Definition KnownF27 (a : archive) (files : list (bytes * bytes)) : Prop :=
  arc_layout_with 0 a files /\ read_u32 a 0 = Ok 0.

Lemma first_word_exists a c n : read_u32 a c = Ok n -> exists w0, read_u32 a 0 = Ok w0.
Proof.
  intros H. destruct (proj1 (read_uint_ok_iff a c 4) (ex_intro _ n H)) as [H1 H2]. change (N.of_nat 4) with 4 in H2.
  apply (proj2 (read_uint_ok_iff a 0 4)). change (N.of_nat 4) with 4. lia.
Qed.
Lemma header_first_word a : has_header a -> read_u32 a 0 = Ok 0.
Proof.
  unfold has_header, HEADER_PAD. intros H. destruct (sliceN_sound _ _ _ _ H) as (pre & post & E & Lp & _).
  assert (pre = []) by (destruct pre; [reflexivity | unfold lenN in Lp; cbn in Lp; lia]). subst pre. cbn [app] in E.
  unfold read_u32. rewrite read_uint_spec. change (N.of_nat 4) with 4.
  assert (Hsz : 96 <= size a) by (unfold size; rewrite E, lenN_app; change (lenN (zeros 96)) with 96; lia).
  assert (Hi : inside a 0 4 = true) by (apply inside_true; lia). rewrite Hi.
  assert (S : sliceN 0 4 (a_data a) = Some [0;0;0;0]).
  { rewrite E. change (zeros 96) with ([0;0;0;0] ++ zeros 92). rewrite <- app_assoc.
    exact (sliceN_app_exact [] [0;0;0;0] (zeros 92 ++ post)). }
  rewrite S. destruct (a_endian a); reflexivity.
Qed.

(* the proved statement, with the known finding carved out explicitly *)
Theorem arc_extract_outside_known m a files : arc_spec a files -> ~ KnownF27 a files -> arc_from_archive m a = Ok files.
Proof.
  intros [U|[Hh P]] NK; apply arc_extract; apply arc_layout_explicit.
  - pose proof U as (c & i & recs & _ & _ & Hn & _). destruct (first_word_exists a c _ Hn) as [w0 Hw].
    exists w0. split; [exact Hw|]. unfold arc_pad. destruct (N.eqb_spec w0 0) as [Z|Z]; [|exact U].
    exfalso. apply NK. split; [exact U|]. rewrite Hw, Z. reflexivity.
  - exists 0. split; [apply header_first_word; exact Hh | exact P].
Qed.

(* witness 1 (reviewer's probe): un-padded, one file 00 00 00 00 AA BB at data offset 0, then Count, then Info.  The image
   IS an un-padded layout of that file, the code (and the model, which agrees with it) answers OutOfBounds *)
Definition f27_archive : archive :=
  {| a_data := [0;0;0;0;0xAA;0xBB;0;0] ++ [1;0;0;0] ++ [0;0;0;0; 0;0;0;0; 6;0;0;0; 0;0;0;0];
     a_text := [(12, [122])]; a_ptrs := []; a_labels := [(8, [COUNT]); (12, [INFO])]; a_cstrs := []; a_endian := LE |}.
Lemma f27_is_unpadded_layout : arc_layout_with 0 f27_archive [([122], [0;0;0;0;0xAA;0xBB])].
Proof.
  exists 8, 12, [mkEntry [122] 0 6 0]. repeat split; try reflexivity.
  - intros j en Hj. destruct j as [|j]; cbn in Hj; [|destruct j; discriminate]. inversion Hj; subst. exists 0. vm_compute. repeat split; reflexivity.
  - repeat constructor.
  - repeat constructor; cbn; intuition discriminate.
Qed.
Lemma f27_known : KnownF27 f27_archive [([122], [0;0;0;0;0xAA;0xBB])].
Proof. split; [exact f27_is_unpadded_layout | reflexivity]. Qed.
Lemma f27_rejected : forall m, arc_from_archive m f27_archive = Err EOob.
Proof. intros m. vm_compute. reflexivity. Qed.

(* witness 2: seven 8-byte files from data offset 0, the tables behind them give 0x60 bytes of slack: the code answers Ok with
   seven entries under the right names, each holding bytes of the Count / Info tables instead of its body (silent) *)
Definition f27_archive7 : archive :=
  {| a_data := [0; 0; 0; 0; 170; 187; 204; 221; 17; 17; 17; 17; 17; 17; 17; 17; 18; 18; 18; 18; 18; 18; 18; 18; 19; 19; 19; 19; 19; 19; 19; 19; 20; 20; 20; 20; 20; 20; 20; 20; 21; 21; 21; 21; 21; 21; 21; 21; 22; 22; 22; 22; 22; 22; 22; 22; 7; 0; 0; 0; 0; 0; 0; 0; 0; 0; 0; 0; 8; 0; 0; 0; 0; 0; 0; 0; 0; 0; 0; 0; 1; 0; 0; 0; 8; 0; 0; 0; 8; 0; 0; 0; 0; 0; 0; 0; 2; 0; 0; 0; 8; 0; 0; 0; 16; 0; 0; 0; 0; 0; 0; 0; 3; 0; 0; 0; 8; 0; 0; 0; 24; 0; 0; 0; 0; 0; 0; 0; 4; 0; 0; 0; 8; 0; 0; 0; 32; 0; 0; 0; 0; 0; 0; 0; 5; 0; 0; 0; 8; 0; 0; 0; 40; 0; 0; 0; 0; 0; 0; 0; 6; 0; 0; 0; 8; 0; 0; 0; 48; 0; 0; 0];
     a_text := [(60, [102; 48]); (76, [102; 49]); (92, [102; 50]); (108, [102; 51]); (124, [102; 52]); (140, [102; 53]); (156, [102; 54])]; a_ptrs := [];
     a_labels := [(56, [COUNT]); (60, [INFO])]; a_cstrs := []; a_endian := LE |}.
Definition f27_files7 : list (bytes * bytes) := [([102; 48], [0; 0; 0; 0; 170; 187; 204; 221]); ([102; 49], [17; 17; 17; 17; 17; 17; 17; 17]); ([102; 50], [18; 18; 18; 18; 18; 18; 18; 18]); ([102; 51], [19; 19; 19; 19; 19; 19; 19; 19]); ([102; 52], [20; 20; 20; 20; 20; 20; 20; 20]); ([102; 53], [21; 21; 21; 21; 21; 21; 21; 21]); ([102; 54], [22; 22; 22; 22; 22; 22; 22; 22])].
Definition f27_wrong7 : list (bytes * bytes) := [([102; 48], [2; 0; 0; 0; 8; 0; 0; 0]); ([102; 49], [16; 0; 0; 0; 0; 0; 0; 0]); ([102; 50], [3; 0; 0; 0; 8; 0; 0; 0]); ([102; 51], [24; 0; 0; 0; 0; 0; 0; 0]); ([102; 52], [4; 0; 0; 0; 8; 0; 0; 0]); ([102; 53], [32; 0; 0; 0; 0; 0; 0; 0]); ([102; 54], [5; 0; 0; 0; 8; 0; 0; 0])].
Lemma f27_7_is_unpadded_layout : arc_layout_with 0 f27_archive7 f27_files7.
Proof.
  exists 56, 60, [mkEntry [102; 48] 0 8 0; mkEntry [102; 49] 1 8 8; mkEntry [102; 50] 2 8 16; mkEntry [102; 51] 3 8 24; mkEntry [102; 52] 4 8 32; mkEntry [102; 53] 5 8 40; mkEntry [102; 54] 6 8 48]. repeat split; try reflexivity.
  - intros j en Hj.
    do 7 (destruct j as [|j]; [cbn in Hj; inversion Hj; subst; match goal with |- record_is _ _ _ _ ?e => unfold record_is; exists (ae_address e) end; vm_compute; repeat split; reflexivity|]).
    destruct j; discriminate.
  - repeat constructor.
  - repeat constructor; cbn; intuition discriminate.
Qed.
Lemma f27_7_wrong_data : forall m, arc_from_archive m f27_archive7 = Ok f27_wrong7.
Proof. intros m. vm_compute. reflexivity. Qed.
Lemma f27_7_differs : f27_wrong7 <> f27_files7.
Proof. discriminate. Qed.

(* the full statement - every image the property text describes - and its refutation *)
Definition arc_extract_full : Prop := forall m a files, arc_spec a files -> arc_from_archive m a = Ok files.
Theorem arc_extract_full_refuted : ~ arc_extract_full.
Proof.
  intros H. pose proof (H Checked f27_archive _ (or_introl f27_is_unpadded_layout)) as E. rewrite f27_rejected in E. discriminate.
Qed.
