(* C19_etc1_exact: the block decoder of Model/Etc1.v computes exactly the texels the ETC1 rules
   (Model/PixelSpec.v, etc1_spec) define, for every 64-bit block whose differential base + delta stays in
   0..31 -- by decomposition of the word into its fields (shift/mask = div/mod, single bits = testbit) and
   finite sweeps per field group (32 x 8 base/delta pairs, 16 nibbles, 8 x 2 x 2 modifiers), not by
   enumerating 2^64 blocks.  F15: the pre-repair expression overflows u8 in a checked build. *)
From Coq Require Import List NArith ZArith Arith Lia Bool ZifyBool ZifyNat ZifyN.
From Mila Require Import Lib.Bytes Lib.Machine Model.Pixel Model.PixelSpec Model.Etc1 Proofs.TexFinite Proofs.PixelProofs.
Import ListNotations.
Local Open Scope N_scope.
Ltac Zify.zify_post_hook ::= Z.div_mod_to_equations.

(* ---------------- fields and bits ---------------- *)
Lemma band1_testbit v k : band (shr v k) 1 = N.b2n (N.testbit v k).
Proof.
  unfold band, shr. change 1 with (N.ones 1). rewrite N.land_ones. change (2 ^ 1) with 2.
  rewrite <- N.bit0_mod, N.shiftr_spec by lia. reflexivity.
Qed.

Lemma field_lt v k n : field v k n < 2 ^ n.
Proof. unfold field. apply N.mod_lt. apply N.pow_nonzero. lia. Qed.

Lemma band_field0 v n : band v (N.ones n) = field v 0 n.
Proof. rewrite <- band_shr_field. unfold shr. rewrite N.shiftr_0_r. reflexivity. Qed.

(* bit k of a 16-bit group *)
Lemma group_bit v g k : k < 16 -> band (shr (band (shr v g) 0xFFFF) k) 1 = N.b2n (N.testbit v (k + g)).
Proof.
  intros Hk. rewrite band1_testbit. unfold band, shr. change 0xFFFF with (N.ones 16).
  rewrite N.land_spec, N.shiftr_spec, N.ones_spec_low by lia. rewrite andb_true_r. reflexivity.
Qed.
Lemma group_bit0 v k : k < 16 -> band (shr (band v 0xFFFF) k) 1 = N.b2n (N.testbit v k).
Proof.
  intros Hk. rewrite band1_testbit. unfold band. change 0xFFFF with (N.ones 16).
  rewrite N.land_spec, N.ones_spec_low by lia. rewrite andb_true_r. reflexivity.
Qed.

(* ---------------- finite sweeps per field group ---------------- *)
Lemma sweep_ext5 : all_below 32 (fun r => (Z.of_N (ext5 r) =? extend5 (Z.of_N r))%Z) = true.
Proof. vm_compute. reflexivity. Qed.
Lemma sweep_ext4 : all_below 16 (fun v => (Z.of_N (ext4 v) =? extend4 (Z.of_N v))%Z) = true.
Proof. vm_compute. reflexivity. Qed.
Lemma sweep_diff : all_below2 32 8 (fun r d =>
  let s := (Z.of_N r + signed3 d)%Z in
  negb ((0 <=? s)%Z && (s <=? 31)%Z) || (Z.of_N (ext5 (diff_second r d)) =? extend5 s)%Z) = true.
Proof. vm_compute. reflexivity. Qed.
Lemma sweep_modifier : all_below3 8 2 2 (fun t msb lsb =>
  Z.eqb (if msb =? 1 then (- modifier t lsb)%Z else modifier t lsb) (etc1_modifier t (msb =? 1) (lsb =? 1))) = true.
Proof. vm_compute. reflexivity. Qed.
Lemma sweep_alpha : all_below 16 (fun a => as_u8 (a * 0x11) =? 17 * a) = true.
Proof. vm_compute. reflexivity. Qed.

Lemma ext5_spec r : r < 32 -> Z.of_N (ext5 r) = extend5 (Z.of_N r).
Proof. intros H. pose proof (all_below_spec _ _ sweep_ext5 r H) as E. cbv beta in E. lia. Qed.
Lemma ext4_spec v : v < 16 -> Z.of_N (ext4 v) = extend4 (Z.of_N v).
Proof. intros H. pose proof (all_below_spec _ _ sweep_ext4 v H) as E. cbv beta in E. lia. Qed.
Lemma diff_spec r d : r < 32 -> d < 8 -> (0 <= Z.of_N r + signed3 d <= 31)%Z ->
  Z.of_N (ext5 (diff_second r d)) = extend5 (Z.of_N r + signed3 d).
Proof.
  intros Hr Hd Hs. pose proof (all_below2_spec _ _ _ sweep_diff r d Hr Hd) as E. cbv beta zeta in E.
  destruct ((0 <=? Z.of_N r + signed3 d)%Z) eqn:E1; [|lia].
  destruct ((Z.of_N r + signed3 d <=? 31)%Z) eqn:E2; [|lia]. cbn [andb negb orb] in E. lia.
Qed.
Lemma modifier_spec t msb lsb : t < 8 ->
  (if N.b2n msb =? 1 then (- modifier t (N.b2n lsb))%Z else modifier t (N.b2n lsb)) = etc1_modifier t msb lsb.
Proof.
  intros Ht.
  assert (Hm : N.b2n msb < 2) by (destruct msb; cbn; lia). assert (Hl : N.b2n lsb < 2) by (destruct lsb; cbn; lia).
  pose proof (all_below3_spec _ _ _ _ sweep_modifier t (N.b2n msb) (N.b2n lsb) Ht Hm Hl) as E. cbv beta in E.
  replace (N.b2n msb =? 1) with msb in E |- * by (destruct msb; reflexivity).
  replace (N.b2n lsb =? 1) with lsb in E by (destruct lsb; reflexivity). lia.
Qed.
Lemma alpha_spec a : a < 16 -> as_u8 (a * 0x11) = 17 * a.
Proof. intros H. pose proof (all_below_spec _ _ sweep_alpha a H) as E. cbv beta in E. lia. Qed.

Lemma clamp_spec z : clamp_u8 z = clamp255 z.
Proof. unfold clamp_u8, clamp255. destruct (Z.ltb_spec z 0); [lia|]. destruct (Z.ltb_spec 255 z); lia. Qed.

(* ---------------- base colours ---------------- *)
Definition top_of (i : nat) : N := match i with O => 63 | S O => 55 | _ => 47 end.

Lemma diff_flag pixels : (band (shr pixels 33) 1 =? 1) = etc1_diff pixels.
Proof. rewrite band1_testbit. unfold etc1_diff. destruct (N.testbit pixels 33); reflexivity. Qed.

Lemma base1_spec pixels i : (i < 3)%nat ->
  Z.of_N (nth i (fst (block_colors pixels)) 0) = etc1_base1 pixels (top_of i).
Proof.
  intros Hi. unfold block_colors, etc1_base1. rewrite diff_flag.
  change 0x1F with (N.ones 5). change 0xF with (N.ones 4). rewrite !band_shr_field.
  destruct (etc1_diff pixels); cbn [fst];
    destruct i as [|[|[|i]]]; try lia; cbn [nth top_of];
    first [apply ext5_spec; apply (field_lt _ _ 5) | apply ext4_spec; apply (field_lt _ _ 4)].
Qed.

Lemma base2_spec pixels i : (i < 3)%nat -> etc1_in_range pixels = true ->
  Z.of_N (nth i (snd (block_colors pixels)) 0) = etc1_base2 pixels (top_of i).
Proof.
  intros Hi HR. unfold block_colors, etc1_base2. rewrite diff_flag.
  unfold etc1_in_range in HR.
  change 0x1F with (N.ones 5). change 0xF with (N.ones 4). change 7 with (N.ones 3). rewrite !band_shr_field.
  destruct (etc1_diff pixels); cbn [snd negb orb forallb andb] in *.
  - assert (R : forall top, In top [63; 55; 47] -> (0 <= etc1_sum pixels top <= 31)%Z).
    { intros top Ht. destruct Ht as [<-|[<-|[<-|[]]]]; lia. }
    destruct i as [|[|[|i]]]; try lia; cbn [nth top_of]; unfold etc1_sum in R.
    + apply diff_spec; [apply (field_lt _ _ 5)|apply (field_lt _ _ 3)|]. apply (R 63). cbn; auto.
    + apply diff_spec; [apply (field_lt _ _ 5)|apply (field_lt _ _ 3)|]. apply (R 55). cbn; auto.
    + apply diff_spec; [apply (field_lt _ _ 5)|apply (field_lt _ _ 3)|]. apply (R 47). cbn; auto.
  - destruct i as [|[|[|i]]]; try lia; cbn [nth top_of]; apply ext4_spec; apply (field_lt _ _ 4).
Qed.

(* ---------------- one texel ---------------- *)
Lemma texel_spec pixels alphas px py : px < 4 -> py < 4 -> etc1_in_range pixels = true ->
  texel pixels alphas (fst (block_colors pixels)) (snd (block_colors pixels)) px py = etc1_texel alphas pixels px py.
Proof.
  intros Hx Hy HR. unfold texel, etc1_texel.
  assert (Ek : px * 4 + py = 4 * px + py) by lia. rewrite Ek.
  set (k := 4 * px + py). assert (Hk : k < 16) by (unfold k; lia).
  rewrite group_bit by exact Hk. rewrite group_bit0 by exact Hk.
  replace (k + 16) with (16 + k) by lia.
  change 7 with (N.ones 3). change 0xF with (N.ones 4). rewrite !band_shr_field.
  replace (band (shr pixels 32) 1 =? 1) with (etc1_flip pixels)
    by (rewrite band1_testbit; unfold etc1_flip; destruct (N.testbit pixels 32); reflexivity).
  replace (k * 4) with (4 * k) by lia.
  set (second := if etc1_flip pixels then 2 <=? py else 2 <=? px).
  assert (Efirst : (if etc1_flip pixels then py <? 2 else px <? 2) = negb second).
  { unfold second. destruct (etc1_flip pixels); rewrite N.ltb_antisym; reflexivity. }
  rewrite Efirst.
  set (msb := N.testbit pixels (16 + k)). set (lsb := N.testbit pixels k).
  assert (Ht1 : field pixels 37 3 < 8) by apply (field_lt _ _ 3).
  assert (Ht2 : field pixels 34 3 < 8) by apply (field_lt _ _ 3).
  assert (Ea : as_u8 (field alphas (4 * k) 4 * 17) = 17 * field alphas (4 * k) 4)
    by (apply alpha_spec; apply (field_lt _ _ 4)).
  rewrite !clamp_spec.
  destruct second; cbn [negb].
  - rewrite (modifier_spec _ msb lsb Ht2).
    rewrite (base2_spec pixels 0 ltac:(lia) HR), (base2_spec pixels 1 ltac:(lia) HR), (base2_spec pixels 2 ltac:(lia) HR).
    cbn [top_of]. rewrite Ea. reflexivity.
  - rewrite (modifier_spec _ msb lsb Ht1).
    rewrite (base1_spec pixels 0 ltac:(lia)), (base1_spec pixels 1 ltac:(lia)), (base1_spec pixels 2 ltac:(lia)).
    cbn [top_of]. rewrite Ea. reflexivity.
Qed.

(* ---------------- the block ---------------- *)
Theorem decode_block_exact : forall alphas pixels, etc1_in_range pixels = true ->
  decode_block alphas pixels = etc1_spec alphas pixels.
Proof.
  intros alphas pixels HR. unfold decode_block, etc1_spec.
  destruct (block_colors pixels) as [c1 c2] eqn:E.
  pose proof (f_equal fst E) as E1. pose proof (f_equal snd E) as E2. cbn [fst snd] in E1, E2. clear E. subst c1 c2.
  cbv [seq flat_map map app N.of_nat Pos.of_succ_nat Pos.succ].
  rewrite !texel_spec by (try lia; exact HR). reflexivity.
Qed.

(* ---------------- F15 ---------------- *)
Definition F15_BLOCK : N := 2 ^ 33 + 2 ^ 59 + 7 * 2 ^ 56.   (* differential, red base 1, red delta -1 *)

Lemma F15_witness : etc1_in_range F15_BLOCK = true /\ block_colors_prefix Checked F15_BLOCK = Panic POverflow.
Proof. vm_compute. split; reflexivity. Qed.

Lemma add_w8_wrapping a b : add_w W8 Wrapping a b = Ok ((a + b) mod 256).
Proof.
  unfold add_w, maxw, W8. change (2 ^ 8) with 256. destruct (N.ltb_spec (a + b) 256); [|reflexivity].
  rewrite N.mod_small by assumption. reflexivity.
Qed.

Lemma block_colors_prefix_wrapping pixels : block_colors_prefix Wrapping pixels = Ok (block_colors pixels).
Proof.
  unfold block_colors_prefix, block_colors, diff_second_prefix, diff_second.
  destruct (band (shr pixels 33) 1 =? 1); [|reflexivity].
  rewrite !add_w8_wrapping. reflexivity.
Qed.
