(* Lemmas about Model/Localize.v (property C14). *)
From Coq Require Import List NArith Bool Lia.
From Mila Require Import Model.Localize.
Import ListNotations.
Local Open Scope N_scope.

Lemma str_eqb_spec a b : reflect (a = b) (str_eqb a b).
Proof.
  revert b; induction a as [|x a IH]; intros [|y b]; cbn [str_eqb]; try (constructor; congruence).
  destruct (N.eqb_spec x y) as [E|E]; cbn [andb].
  - destruct (IH b) as [E'|E']; constructor; congruence.
  - constructor; congruence.
Qed.

(* a plain component: non-empty, no '/', not "." or ".." *)
Definition plainP (c : str) : Prop := c <> [] /\ ~ In SLASH c /\ c <> [DOT] /\ c <> [DOT; DOT].

Lemma plain_of_plainP c : plainP c -> plain c = true.
Proof.
  intros (H1 & _ & H3 & H4). unfold plain.
  destruct (str_eqb_spec c []); [contradiction|].
  destruct (str_eqb_spec c [DOT]); [contradiction|].
  destruct (str_eqb_spec c [DOT; DOT]); [contradiction|]. reflexivity.
Qed.

Lemma split_slash_noslash c : ~ In SLASH c -> split_slash c = [c].
Proof.
  induction c as [|x c IH]; intros H; cbn [split_slash]; [reflexivity|].
  destruct (N.eqb_spec x SLASH) as [E|E]; [exfalso; apply H; left; auto|].
  rewrite IH; [reflexivity|]. intros Hin; apply H; right; exact Hin.
Qed.

Lemma split_slash_app c r : ~ In SLASH c -> split_slash (c ++ SLASH :: r) = c :: split_slash r.
Proof.
  induction c as [|x c IH]; intros H; cbn [app split_slash].
  - rewrite N.eqb_refl. reflexivity.
  - destruct (N.eqb_spec x SLASH) as [E|E]; [exfalso; apply H; left; auto|].
    rewrite IH; [reflexivity|]. intros Hin; apply H; right; exact Hin.
Qed.

Lemma split_join comps : comps <> [] -> Forall plainP comps -> split_slash (join comps) = comps.
Proof.
  induction comps as [|c r IH]; intros Hne Hp; [congruence|].
  inversion Hp as [|? ? Hc Hr]; subst. destruct r as [|c2 r2].
  - cbn [join]. apply split_slash_noslash. apply Hc.
  - change (join (c :: c2 :: r2)) with (c ++ SLASH :: join (c2 :: r2)).
    rewrite split_slash_app by apply Hc. f_equal. apply IH; [congruence | exact Hr].
Qed.

Lemma join_snoc_slash comps : comps <> [] -> join comps ++ [SLASH] = join (comps ++ [[]]).
Proof.
  induction comps as [|c r IH]; intros Hne; [congruence|]. destruct r as [|c2 r2].
  - cbn [join app]. reflexivity.
  - change (join (c :: c2 :: r2)) with (c ++ SLASH :: join (c2 :: r2)).
    change ((c :: c2 :: r2) ++ [[]]) with (c :: (c2 :: r2) ++ [[]]).
    assert (E : join (c :: (c2 :: r2) ++ [[]]) = c ++ SLASH :: join ((c2 :: r2) ++ [[]])) by reflexivity.
    rewrite E, <- IH by congruence. rewrite <- app_assoc. reflexivity.
Qed.

Lemma split_slash_snoc_empty comps : comps <> [] -> Forall plainP comps ->
  split_slash (join comps ++ [SLASH]) = comps ++ [[]].
Proof.
  induction comps as [|c r IH]; intros Hne Hp; [congruence|].
  inversion Hp as [|? ? Hc Hr]; subst. destruct r as [|c2 r2].
  - cbn [join app]. rewrite split_slash_app by apply Hc. reflexivity.
  - change (join (c :: c2 :: r2)) with (c ++ SLASH :: join (c2 :: r2)).
    rewrite <- app_assoc. cbn [app]. rewrite split_slash_app by apply Hc.
    cbn [app]. f_equal. apply IH; [congruence | exact Hr].
Qed.

Definition render (comps : list str) (tr : bool) : str := join comps ++ (if tr then [SLASH] else []).

Lemma forallb_plain comps : Forall plainP comps -> forallb plain comps = true.
Proof. induction 1 as [|c r Hc Hr IH]; cbn [forallb]; [reflexivity|]. rewrite plain_of_plainP by exact Hc. exact IH. Qed.

Lemma join_head comps c r : comps = c :: r -> exists t, join comps = c ++ t /\ (r = [] -> t = []) /\ (r <> [] -> exists t', t = SLASH :: t').
Proof.
  intros ->. destruct r as [|c2 r2].
  - exists []. cbn [join]. rewrite app_nil_r. repeat split; congruence.
  - exists (SLASH :: join (c2 :: r2)). repeat split; try congruence. intros _. eauto.
Qed.

(* rendering of a plain path is none of the four special strings *)
Lemma render_not_special comps tr : comps <> [] -> Forall plainP comps ->
  render comps tr <> [] /\ render comps tr <> [SLASH] /\ render comps tr <> [DOT; DOT] /\ render comps tr <> [DOT].
Proof.
  intros Hne Hp. destruct comps as [|c r]; [congruence|].
  inversion Hp as [|? ? (Hc1 & Hc2 & Hc3 & Hc4) Hr]; subst.
  destruct (join_head (c :: r) c r eq_refl) as (t & Ej & Ht0 & Ht1). unfold render. rewrite Ej.
  destruct c as [|x c]; [congruence|]. cbn [app].
  assert (Hx : x <> SLASH) by (intros ->; apply Hc2; left; reflexivity).
  repeat split; try discriminate.
  - intros H. inversion H. congruence.
  - (* = ".." *) intros H. injection H as Hx' Hrest. subst x.
    destruct c as [|y c]; [apply Hc3; reflexivity|]. cbn [app] in Hrest.
    injection Hrest as Hy Hrest2. subst y. apply app_eq_nil in Hrest2. destruct Hrest2 as [Hc0 _]. apply app_eq_nil in Hc0. destruct Hc0 as [Hc0 _]. subst c.
    apply Hc4. reflexivity.
  - (* = "." *) intros H. injection H as Hx' Hrest. subst x.
    destruct c as [|y c]; [apply Hc3; reflexivity|]. cbn [app] in Hrest. discriminate.
Qed.

Lemma classify_render comps tr : comps <> [] -> Forall plainP comps -> classify (render comps tr) = SPlain comps tr.
Proof.
  intros Hne Hp. destruct (render_not_special comps tr Hne Hp) as (N1 & N2 & N3 & N4).
  unfold classify.
  destruct (str_eqb_spec (render comps tr) []); [contradiction|].
  destruct (str_eqb_spec (render comps tr) [SLASH]); [contradiction|].
  destruct (str_eqb_spec (render comps tr) [DOT; DOT]); [contradiction|].
  destruct (str_eqb_spec (render comps tr) [DOT]); [contradiction|].
  unfold render. destruct tr.
  - rewrite split_slash_snoc_empty by assumption.
    rewrite forallb_app. cbn [forallb]. replace (plain []) with false by reflexivity.
    rewrite !andb_false_r. rewrite rev_app_distr. cbn [rev app].
    destruct (rev comps) as [|c0 r0] eqn:Er.
    + exfalso. apply Hne. apply (f_equal (@rev str)) in Er. rewrite rev_involutive in Er. exact Er.
    + assert (Hf : forallb plain (c0 :: r0) = true) by (rewrite <- Er; apply forallb_plain, Forall_rev, Hp).
      rewrite Hf, <- Er, rev_involutive. reflexivity.
  - rewrite app_nil_r. rewrite split_join by assumption. rewrite forallb_plain by exact Hp. reflexivity.
Qed.

Lemma join_nonempty comps : comps <> [] -> Forall plainP comps -> join comps <> [].
Proof.
  intros Hne Hp. destruct comps as [|c r]; [congruence|]. inversion Hp as [|? ? (Hc & _) _]; subst.
  destruct (join_head (c :: r) c r eq_refl) as (t & -> & _). destruct c; [congruence | discriminate].
Qed.

(* get_parent_and_file_name on structured paths *)
Lemma parent_and_file_multi dir name tr : dir <> [] -> Forall plainP (dir ++ [name]) ->
  parent_and_file (render (dir ++ [name]) tr) = PFOk (join dir) name.
Proof.
  intros Hne Hp. unfold parent_and_file. rewrite classify_render; [|destruct dir; discriminate | exact Hp].
  rewrite rev_app_distr. cbn [rev app]. rewrite rev_involutive.
  apply Forall_app in Hp. destruct Hp as [Hd _].
  destruct (str_eqb_spec (join dir) []) as [E|E]; [exfalso; exact (join_nonempty dir Hne Hd E) | reflexivity].
Qed.

Lemma parent_and_file_single c tr : plainP c -> parent_and_file (render [c] tr) = PFOk c [].
Proof.
  intros Hc. unfold parent_and_file. rewrite classify_render; [|discriminate | constructor; [exact Hc | constructor]].
  cbn [rev app join]. reflexivity.
Qed.
