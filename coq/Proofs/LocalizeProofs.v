(* Lemmas about Model/Localize.v (property C14). *)
From Coq Require Import List NArith Bool Lia.
From Mila Require Import Model.Localize.
Import ListNotations.
Local Open Scope N_scope.

Lemma str_eqb_spec a b : reflect (a = b) (str_eqb a b).
Proof.
  revert b; induction a as [|x a IH]; intros [|y b]; cbn [str_eqb]; try (constructor; congruence).
  destruct (N.eqb_spec x y) as [E|E]; cbn [andb].
  - destruct (IH b) as [E'|E']; constructor; congruence.
  - constructor; congruence.
Qed.

(* a plain component: non-empty, no '/', not "." or ".." *)
Definition plainP (c : str) : Prop := c <> [] /\ ~ In SLASH c /\ c <> [DOT] /\ c <> [DOT; DOT].

Lemma plain_of_plainP c : plainP c -> plain c = true.
Proof.
  intros (H1 & _ & H3 & H4). unfold plain.
  destruct (str_eqb_spec c []); [contradiction|].
  destruct (str_eqb_spec c [DOT]); [contradiction|].
  destruct (str_eqb_spec c [DOT; DOT]); [contradiction|]. reflexivity.
Qed.

Lemma split_slash_noslash c : ~ In SLASH c -> split_slash c = [c].
Proof.
  induction c as [|x c IH]; intros H; cbn [split_slash]; [reflexivity|].
  destruct (N.eqb_spec x SLASH) as [E|E]; [exfalso; apply H; left; auto|].
  rewrite IH; [reflexivity|]. intros Hin; apply H; right; exact Hin.
Qed.

Lemma split_slash_app c r : ~ In SLASH c -> split_slash (c ++ SLASH :: r) = c :: split_slash r.
Proof.
  induction c as [|x c IH]; intros H; cbn [app split_slash].
  - rewrite N.eqb_refl. reflexivity.
  - destruct (N.eqb_spec x SLASH) as [E|E]; [exfalso; apply H; left; auto|].
    rewrite IH; [reflexivity|]. intros Hin; apply H; right; exact Hin.
Qed.

Lemma split_join comps : comps <> [] -> Forall plainP comps -> split_slash (join comps) = comps.
Proof.
  induction comps as [|c r IH]; intros Hne Hp; [congruence|].
  inversion Hp as [|? ? Hc Hr]; subst. destruct r as [|c2 r2].
  - cbn [join]. apply split_slash_noslash. apply Hc.
  - change (join (c :: c2 :: r2)) with (c ++ SLASH :: join (c2 :: r2)).
    rewrite split_slash_app by apply Hc. f_equal. apply IH; [congruence | exact Hr].
Qed.

Lemma join_snoc_slash comps : comps <> [] -> join comps ++ [SLASH] = join (comps ++ [[]]).
Proof.
  induction comps as [|c r IH]; intros Hne; [congruence|]. destruct r as [|c2 r2].
  - cbn [join app]. reflexivity.
  - change (join (c :: c2 :: r2)) with (c ++ SLASH :: join (c2 :: r2)).
    change ((c :: c2 :: r2) ++ [[]]) with (c :: (c2 :: r2) ++ [[]]).
    assert (E : join (c :: (c2 :: r2) ++ [[]]) = c ++ SLASH :: join ((c2 :: r2) ++ [[]])) by reflexivity.
    rewrite E, <- IH by congruence. rewrite <- app_assoc. reflexivity.
Qed.

Lemma split_slash_snoc_empty comps : comps <> [] -> Forall plainP comps ->
  split_slash (join comps ++ [SLASH]) = comps ++ [[]].
Proof.
  induction comps as [|c r IH]; intros Hne Hp; [congruence|].
  inversion Hp as [|? ? Hc Hr]; subst. destruct r as [|c2 r2].
  - cbn [join app]. rewrite split_slash_app by apply Hc. reflexivity.
  - change (join (c :: c2 :: r2)) with (c ++ SLASH :: join (c2 :: r2)).
    rewrite <- app_assoc. cbn [app]. rewrite split_slash_app by apply Hc.
    cbn [app]. f_equal. apply IH; [congruence | exact Hr].
Qed.

Definition render (comps : list str) (tr : bool) : str := join comps ++ (if tr then [SLASH] else []).

Lemma forallb_plain comps : Forall plainP comps -> forallb plain comps = true.
Proof. induction 1 as [|c r Hc Hr IH]; cbn [forallb]; [reflexivity|]. rewrite plain_of_plainP by exact Hc. exact IH. Qed.

Lemma join_head comps c r : comps = c :: r -> exists t, join comps = c ++ t /\ (r = [] -> t = []) /\ (r <> [] -> exists t', t = SLASH :: t').
Proof.
  intros ->. destruct r as [|c2 r2].
  - exists []. cbn [join]. rewrite app_nil_r. repeat split; congruence.
  - exists (SLASH :: join (c2 :: r2)). repeat split; try congruence. intros _. eauto.
Qed.

(* rendering of a plain path is none of the four special strings *)
Lemma render_not_special comps tr : comps <> [] -> Forall plainP comps ->
  render comps tr <> [] /\ render comps tr <> [SLASH] /\ render comps tr <> [DOT; DOT] /\ render comps tr <> [DOT].
Proof.
  intros Hne Hp. destruct comps as [|c r]; [congruence|].
  inversion Hp as [|? ? (Hc1 & Hc2 & Hc3 & Hc4) Hr]; subst.
  destruct (join_head (c :: r) c r eq_refl) as (t & Ej & Ht0 & Ht1). unfold render. rewrite Ej.
  destruct c as [|x c]; [congruence|]. cbn [app].
  assert (Hx : x <> SLASH) by (intros ->; apply Hc2; left; reflexivity).
  repeat split; try discriminate.
  - intros H. inversion H. congruence.
  - (* = ".." *) intros H. injection H as Hx' Hrest. subst x.
    destruct c as [|y c]; [apply Hc3; reflexivity|]. cbn [app] in Hrest.
    injection Hrest as Hy Hrest2. subst y. apply app_eq_nil in Hrest2. destruct Hrest2 as [Hc0 _]. apply app_eq_nil in Hc0. destruct Hc0 as [Hc0 _]. subst c.
    apply Hc4. reflexivity.
  - (* = "." *) intros H. injection H as Hx' Hrest. subst x.
    destruct c as [|y c]; [apply Hc3; reflexivity|]. cbn [app] in Hrest. discriminate.
Qed.

Lemma classify_render comps tr : comps <> [] -> Forall plainP comps -> classify (render comps tr) = SPlain comps tr.
Proof.
  intros Hne Hp. destruct (render_not_special comps tr Hne Hp) as (N1 & N2 & N3 & N4).
  unfold classify.
  destruct (str_eqb_spec (render comps tr) []); [contradiction|].
  destruct (str_eqb_spec (render comps tr) [SLASH]); [contradiction|].
  destruct (str_eqb_spec (render comps tr) [DOT; DOT]); [contradiction|].
  destruct (str_eqb_spec (render comps tr) [DOT]); [contradiction|].
  unfold render. destruct tr.
  - rewrite split_slash_snoc_empty by assumption.
    rewrite forallb_app. cbn [forallb]. replace (plain []) with false by reflexivity.
    rewrite !andb_false_r. rewrite rev_app_distr. cbn [rev app].
    destruct (rev comps) as [|c0 r0] eqn:Er.
    + exfalso. apply Hne. apply (f_equal (@rev str)) in Er. rewrite rev_involutive in Er. exact Er.
    + assert (Hf : forallb plain (c0 :: r0) = true) by (rewrite <- Er; apply forallb_plain, Forall_rev, Hp).
      rewrite Hf, <- Er, rev_involutive. reflexivity.
  - rewrite app_nil_r. rewrite split_join by assumption. rewrite forallb_plain by exact Hp. reflexivity.
Qed.

Lemma join_nonempty comps : comps <> [] -> Forall plainP comps -> join comps <> [].
Proof.
  intros Hne Hp. destruct comps as [|c r]; [congruence|]. inversion Hp as [|? ? (Hc & _) _]; subst.
  destruct (join_head (c :: r) c r eq_refl) as (t & -> & _). destruct c; [congruence | discriminate].
Qed.

(* ---- strings are lists of scalar values; OsStr::to_str on slices of a valid string ---- *)
Definition substring (v s : str) : Prop := exists a b, s = a ++ v ++ b.

Lemma valid_str_app a b : valid_str (a ++ b) = andb (valid_str a) (valid_str b).
Proof. apply forallb_app. Qed.
Lemma valid_substring v s : valid_str s = true -> substring v s -> valid_str v = true.
Proof.
  intros H (a & b & ->). rewrite !valid_str_app in H. apply andb_true_iff in H. destruct H as (_ & H).
  apply andb_true_iff in H. apply H.
Qed.
(* the unwrap sites, whatever slice of the caller's string reaches them *)
Lemma os_to_str_substring v s : valid_str s = true -> substring v s -> os_to_str v = Some v.
Proof. intros H Hs. unfold os_to_str. rewrite (valid_substring v s H Hs). reflexivity. Qed.

Lemma split_slash_ne s : split_slash s <> [].
Proof. destruct s as [|c r]; cbn [split_slash]; [discriminate|]. destruct (c =? SLASH); [discriminate|]. destruct (split_slash r); discriminate. Qed.

Lemma join_split s : join (split_slash s) = s.
Proof.
  induction s as [|c r IH]; [reflexivity|]. cbn [split_slash].
  pose proof (split_slash_ne r) as Hne.
  destruct (split_slash r) as [|h t] eqn:Es; [congruence|].
  destruct (N.eqb_spec c SLASH) as [->|E].
  - change (join ([] :: h :: t)) with ([] ++ SLASH :: join (h :: t)). rewrite IH. reflexivity.
  - destruct t as [|h2 t2].
    + cbn [join] in *. subst r. reflexivity.
    + change (join ((c :: h) :: h2 :: t2)) with ((c :: h) ++ SLASH :: join (h2 :: t2)).
      change (join (h :: h2 :: t2)) with (h ++ SLASH :: join (h2 :: t2)) in IH. rewrite <- IH. reflexivity.
Qed.

Lemma join_snoc dir name : dir <> [] -> join (dir ++ [name]) = join dir ++ SLASH :: name.
Proof.
  induction dir as [|c r IH]; intros H; [congruence|]. destruct r as [|c2 r2]; [reflexivity|].
  change (join ((c :: c2 :: r2) ++ [name])) with (c ++ SLASH :: join ((c2 :: r2) ++ [name])).
  rewrite IH by discriminate. change (join (c :: c2 :: r2)) with (c ++ SLASH :: join (c2 :: r2)).
  rewrite <- app_assoc. reflexivity.
Qed.

(* classify is the inverse of render: a string classified as plain IS its components joined by '/' (+ '/') *)
Lemma classify_plain_render s comps tr : classify s = SPlain comps tr -> comps <> [] /\ s = render comps tr.
Proof.
  unfold classify.
  destruct (str_eqb s []); [discriminate|]. destruct (str_eqb s [SLASH]); [discriminate|].
  destruct (str_eqb s [DOT; DOT]); [discriminate|]. destruct (str_eqb s [DOT]); [discriminate|].
  destruct (forallb plain (split_slash s)) eqn:F.
  - intros H. injection H as <- <-. unfold render. rewrite app_nil_r, join_split. split; [|reflexivity].
    apply split_slash_ne.
  - destruct (rev (split_slash s)) as [|[|x0 l0] [|c1 r1]] eqn:R; try discriminate.
    destruct (forallb plain (c1 :: r1)); [|discriminate]. intros H. injection H as <- <-.
    assert (E : split_slash s = rev (c1 :: r1) ++ [[]]).
    { apply (f_equal (@rev str)) in R. rewrite rev_involutive in R. exact R. }
    assert (Hne : rev (c1 :: r1) <> []) by (cbn [rev]; destruct (rev r1); discriminate).
    split; [exact Hne|]. unfold render. change (rev r1 ++ [c1]) with (rev (c1 :: r1)). rewrite (join_snoc_slash _ Hne), <- E, join_split. reflexivity.
Qed.

(* the slices Path::parent / Path::file_name return in the model are sub-slices of the caller's string *)
Lemma path_parent_substring s v : path_parent s = QSome v -> substring v s.
Proof.
  unfold path_parent. destruct (classify s) as [| | | |comps tr|] eqn:C; try discriminate.
  1,2: intros H; injection H as <-; exists [], s; reflexivity.
  destruct (classify_plain_render s comps tr C) as (Hne & ->).
  destruct (rev comps) as [|file rinit] eqn:R; [discriminate|]. intros H. injection H as <-.
  assert (E : comps = rev rinit ++ [file]) by (apply (f_equal (@rev str)) in R; rewrite rev_involutive in R; exact R).
  subst comps. unfold render. destruct (rev rinit) as [|d0 dr] eqn:Ed.
  - exists [], (join ([] ++ [file]) ++ (if tr then [SLASH] else [])). reflexivity.
  - rewrite join_snoc by discriminate. exists [], (SLASH :: file ++ (if tr then [SLASH] else [])).
    cbn [app]. rewrite <- app_assoc. reflexivity.
Qed.
Lemma path_file_name_substring s v : path_file_name s = QSome v -> substring v s.
Proof.
  unfold path_file_name. destruct (classify s) as [| | | |comps tr|] eqn:C; try discriminate.
  destruct (classify_plain_render s comps tr C) as (Hne & ->).
  destruct (rev comps) as [|file rinit] eqn:R; [discriminate|]. intros H. injection H as <-.
  assert (E : comps = rev rinit ++ [file]) by (apply (f_equal (@rev str)) in R; rewrite rev_involutive in R; exact R).
  subst comps. unfold render. destruct (rev rinit) as [|d0 dr] eqn:Ed.
  - exists [], (if tr then [SLASH] else []). reflexivity.
  - rewrite join_snoc by discriminate. exists (join (d0 :: dr) ++ [SLASH]), (if tr then [SLASH] else []).
    rewrite <- !app_assoc. reflexivity.
Qed.

(* hence neither unwrap can fail on a caller string that is a str *)
Lemma get_parent_no_panic s : valid_str s = true -> get_parent_as_string s <> SPanic.
Proof.
  intros H. unfold get_parent_as_string. destruct (path_parent s) as [v| |] eqn:P; try discriminate.
  rewrite (os_to_str_substring v s H (path_parent_substring s v P)). discriminate.
Qed.
Lemma get_file_name_no_panic s : valid_str s = true -> get_file_name s <> SPanic.
Proof.
  intros H. unfold get_file_name. destruct (path_file_name s) as [v| |] eqn:P; try discriminate.
  rewrite (os_to_str_substring v s H (path_file_name_substring s v P)). discriminate.
Qed.
Lemma parent_and_file_no_panic s : valid_str s = true -> parent_and_file s <> PFPanic.
Proof.
  intros H. unfold parent_and_file. pose proof (get_parent_no_panic s H) as P1. pose proof (get_file_name_no_panic s H) as P2.
  destruct (get_parent_as_string s) as [par|e| |]; try discriminate; [|congruence].
  destruct (get_file_name s) as [f|e| |]; try discriminate; [|congruence].
  destruct (str_eqb par []); discriminate.
Qed.
Theorem localize_no_panic g l s : valid_str s = true -> localize g l s <> LPanic.
Proof.
  intros H. unfold localize. destruct g; try discriminate;
    (pose proof (parent_and_file_no_panic s H) as P; destruct (parent_and_file s) as [d f|e| |]; try discriminate; try congruence;
     destruct (infix _ l); discriminate).
Qed.

(* the result is a String again (every marker is ASCII), and "unmodelled" means exactly: not one of the modelled path shapes *)
Lemma infix_valid g l m : infix g l = Some m -> valid_str m = true.
Proof. destruct g, l; cbn [infix]; intros H; try discriminate; injection H as <-; reflexivity. Qed.
Lemma sres_ok_valid_parent s t : valid_str s = true -> get_parent_as_string s = SOk t -> valid_str t = true.
Proof.
  intros H. unfold get_parent_as_string. destruct (path_parent s) as [v| |] eqn:P; try discriminate.
  rewrite (os_to_str_substring v s H (path_parent_substring s v P)). intros E. injection E as <-.
  exact (valid_substring v s H (path_parent_substring s v P)).
Qed.
Lemma sres_ok_valid_file s t : valid_str s = true -> get_file_name s = SOk t -> valid_str t = true.
Proof.
  intros H. unfold get_file_name. destruct (path_file_name s) as [v| |] eqn:P; try discriminate.
  rewrite (os_to_str_substring v s H (path_file_name_substring s v P)). intros E. injection E as <-.
  exact (valid_substring v s H (path_file_name_substring s v P)).
Qed.
Lemma unmodelled_other s : parent_and_file s = PFUnmodelled -> classify s = SOther.
Proof.
  unfold parent_and_file, get_parent_as_string, get_file_name, path_parent, path_file_name.
  destruct (classify s) as [| | | |comps tr|] eqn:C; try reflexivity; cbn [os_to_str valid_str forallb]; try discriminate.
  destruct (classify_plain_render s comps tr C) as (Hne & _).
  destruct (rev comps) as [|file rinit] eqn:R.
  - exfalso. apply Hne. apply (f_equal (@rev str)) in R. rewrite rev_involutive in R. exact R.
  - destruct (os_to_str (join (rev rinit))); [|discriminate]. destruct (os_to_str file); [|discriminate].
    destruct (str_eqb _ []); discriminate.
Qed.
Theorem localize_total g l s : valid_str s = true ->
  match localize g l s with
  | LOk r => valid_str r = true
  | LErr _ => True
  | LUnmodelled => classify s = SOther
  | LPanic => False
  end.
Proof.
  intros H. pose proof (localize_no_panic g l s H) as NP. unfold localize in *.
  destruct g; [exact H| | | | |];
    (destruct (parent_and_file s) as [d f|e| |] eqn:PF; [|exact I|congruence|apply unmodelled_other; exact PF];
     destruct (infix _ l) as [m|] eqn:IX; [|exact Logic.I];
     unfold parent_and_file in PF;
     destruct (get_parent_as_string s) as [par|e| |] eqn:GP; try discriminate;
     destruct (get_file_name s) as [fl|e| |] eqn:GF; try discriminate;
     pose proof (sres_ok_valid_parent s par H GP) as V1; pose proof (sres_ok_valid_file s fl H GF) as V2;
     pose proof (infix_valid _ _ _ IX) as V3;
     destruct (str_eqb par []); injection PF as <- <-; rewrite !valid_str_app, ?V1, ?V2, ?V3; reflexivity).
Qed.

(* get_parent_and_file_name on structured paths: the parent and the file name when both are strs, a panic otherwise
   (on a valid caller string the first case always applies: parent_and_file_multi / _single below) *)
Lemma parent_and_file_multi_gen dir name tr : dir <> [] -> Forall plainP (dir ++ [name]) ->
  parent_and_file (render (dir ++ [name]) tr) =
    if andb (valid_str (join dir)) (valid_str name) then PFOk (join dir) name else PFPanic.
Proof.
  intros Hne Hp. unfold parent_and_file, get_parent_as_string, get_file_name, path_parent, path_file_name.
  rewrite classify_render; [|destruct dir; discriminate | exact Hp].
  rewrite rev_app_distr. cbn [rev app]. rewrite rev_involutive.
  apply Forall_app in Hp. destruct Hp as [Hd _]. unfold os_to_str.
  destruct (valid_str (join dir)); cbn [andb]; [|reflexivity].
  destruct (valid_str name); [|reflexivity].
  destruct (str_eqb_spec (join dir) []) as [E|E]; [exfalso; exact (join_nonempty dir Hne Hd E) | reflexivity].
Qed.
Lemma valid_render_parts dir name tr : dir <> [] -> valid_str (render (dir ++ [name]) tr) = true ->
  valid_str (join dir) = true /\ valid_str name = true.
Proof.
  intros Hne. unfold render. rewrite join_snoc by exact Hne. rewrite !valid_str_app. cbn [valid_str forallb].
  intros H. apply andb_true_iff in H. destruct H as (H & _). apply andb_true_iff in H. destruct H as (H1 & H2).
  apply andb_true_iff in H2. destruct H2 as (_ & H2). auto.
Qed.
Lemma parent_and_file_multi dir name tr : dir <> [] -> Forall plainP (dir ++ [name]) ->
  valid_str (render (dir ++ [name]) tr) = true ->
  parent_and_file (render (dir ++ [name]) tr) = PFOk (join dir) name.
Proof.
  intros Hne Hp Hv. rewrite parent_and_file_multi_gen by assumption.
  destruct (valid_render_parts dir name tr Hne Hv) as (-> & ->). reflexivity.
Qed.

Lemma parent_and_file_single_gen c tr : plainP c ->
  parent_and_file (render [c] tr) = if valid_str c then PFOk c [] else PFPanic.
Proof.
  intros Hc. unfold parent_and_file, get_parent_as_string, get_file_name, path_parent, path_file_name.
  rewrite classify_render; [|discriminate | constructor; [exact Hc | constructor]].
  cbn [rev app join os_to_str valid_str forallb]. unfold os_to_str. destruct (valid_str c); reflexivity.
Qed.
Lemma parent_and_file_single c tr : plainP c -> valid_str (render [c] tr) = true -> parent_and_file (render [c] tr) = PFOk c [].
Proof.
  intros Hc Hv. rewrite parent_and_file_single_gen by exact Hc. unfold render in Hv. cbn [join] in Hv.
  rewrite valid_str_app in Hv. apply andb_true_iff in Hv. destruct Hv as (-> & _). reflexivity.
Qed.
