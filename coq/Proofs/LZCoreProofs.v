(* Lemmas about Model/LZCore.v.  Part 1 is the prototype proof of DESIGN.md Appendix B.2 (verbatim):
   the greedy token stream of any look-ahead L expands to the input, overlapping copies included. *)
From Coq Require Import List NArith Arith Lia Bool.
From Mila Require Import Model.LZCore.
Import ListNotations.

Lemma cpl_le cap a b : cpl cap a b <= cap.
Proof. revert a b; induction cap as [|c IH]; intros [|x a] [|y b]; cbn [cpl]; try lia.
  destruct (N.eqb x y); [specialize (IH a b)|]; lia. Qed.

Lemma cpl_firstn cap a b : firstn (cpl cap a b) a = firstn (cpl cap a b) b.
Proof. revert a b; induction cap as [|c IH]; intros [|x a] [|y b]; cbn [cpl]; try reflexivity.
  destruct (N.eqb_spec x y); [subst; cbn [firstn]; f_equal; apply IH | reflexivity]. Qed.

Lemma cpl_len_l cap a b : cpl cap a b <= length a.
Proof. revert a b; induction cap as [|c IH]; intros [|x a] [|y b]; cbn [cpl length]; try lia.
  destruct (N.eqb x y); [specialize (IH a b)|]; lia. Qed.

Lemma cpl_len_r cap a b : cpl cap a b <= length b.
Proof. revert a b; induction cap as [|c IH]; intros [|x a] [|y b]; cbn [cpl length]; try lia.
  destruct (N.eqb x y); [specialize (IH a b)|]; lia. Qed.

Lemma tl_skipn {A} k (l : list A) : tl (skipn k l) = skipn (S k) l.
Proof. revert l; induction k as [|k IH]; intros l.
  - destruct l; reflexivity.
  - destruct l as [|x l]; [reflexivity|]. change (tl (skipn k l) = skipn (S k) l). apply IH. Qed.

(* what a reported match means *)
Definition match_ok (whole rest : list N) (base oldlen newlen l d : nat) : Prop :=
  l <= newlen /\ l <= length rest /\
  (l = 0 \/ (2 <= d <= oldlen /\ firstn l (skipn (base + oldlen - d) whole) = firstn l rest)).

Lemma search_ok : forall n win rest newlen oldlen i best bd whole base,
  win = skipn (base + i) whole ->
  i + n = oldlen - 1 ->
  match_ok whole rest base oldlen newlen best bd ->
  let '(l, d) := search n win rest newlen oldlen i best bd in
  match_ok whole rest base oldlen newlen l d.
Proof.
  induction n as [|n IH]; intros win rest newlen oldlen i best bd whole base Hwin Hi Hinv; cbn [search].
  - exact Hinv.
  - pose proof (cpl_le newlen win rest) as Hle.
    pose proof (cpl_len_r newlen win rest) as Hlr.
    pose proof (cpl_firstn newlen win rest) as Hsp.
    assert (Hnew : match_ok whole rest base oldlen newlen (cpl newlen win rest) (oldlen - i)).
    { split; [exact Hle|]. split; [exact Hlr|]. right. split; [lia|].
      replace (base + oldlen - (oldlen - i)) with (base + i) by lia. rewrite <- Hwin. exact Hsp. }
    assert (Htl : tl win = skipn (base + S i) whole).
    { subst win. rewrite tl_skipn. f_equal. lia. }
    destruct (Nat.ltb best (cpl newlen win rest)).
    + destruct (Nat.eqb (cpl newlen win rest) newlen).
      * exact Hnew.
      * apply IH with (whole := whole) (base := base); [exact Htl | lia | exact Hnew].
    + apply IH with (whole := whole) (base := base); [exact Htl | lia | exact Hinv].
Qed.

Lemma occ_ok whole newptr newlen oldptr oldlen :
  let '(l, d) := occ whole newptr newlen oldptr oldlen in
  match_ok whole (skipn newptr whole) oldptr oldlen newlen l d.
Proof.
  unfold occ. destruct (orb _ _).
  - split; [lia|]. split; [lia|]. left; reflexivity.
  - apply search_ok with (whole := whole) (base := oldptr).
    + f_equal. lia.
    + lia.
    + split; [lia|]. split; [lia|]. left; reflexivity.
Qed.

(* copying a matched region reproduces the input *)
Lemma nth_error_firstn_lt {A} (l : list A) n i : i < n -> nth_error (firstn n l) i = nth_error l i.
Proof. revert l i; induction n as [|n IH]; intros [|x l] [|i] H; cbn; try lia; try reflexivity.
  apply IH; lia. Qed.

Lemma firstn_S_nth_error {A} (l : list A) n v : nth_error l n = Some v -> firstn (S n) l = firstn n l ++ [v].
Proof. revert l; induction n as [|n IH]; intros [|x l] H; cbn in *; try discriminate.
  - inversion H; reflexivity.
  - f_equal. apply IH. exact H. Qed.

Lemma firstn_skipn_head {A} (l : list A) k n :
  firstn (S n) (skipn k l) = match nth_error l k with Some v => v :: firstn n (skipn (S k) l) | None => [] end.
Proof.
  revert l; induction k as [|k IH]; intros [|x l]; try reflexivity.
  change (firstn (S n) (skipn k l) = match nth_error l k with Some v => v :: firstn n (skipn (S k) l) | None => [] end).
  apply IH.
Qed.

Lemma copy_ok : forall len x pos d,
  1 <= d <= pos -> pos + len <= length x ->
  firstn len (skipn (pos - d) x) = firstn len (skipn pos x) ->
  copy len (firstn pos x) (pos - d) = Some (firstn (pos + len) x).
Proof.
  induction len as [|len IH]; intros x pos d Hd Hlen Hm; cbn [copy].
  - rewrite Nat.add_0_r. reflexivity.
  - rewrite nth_error_firstn_lt by lia.
    rewrite (firstn_skipn_head x (pos - d) len) in Hm.
    rewrite (firstn_skipn_head x pos len) in Hm.
    destruct (nth_error x (pos - d)) as [v|] eqn:Ev.
    2:{ apply nth_error_None in Ev. lia. }
    destruct (nth_error x pos) as [w|] eqn:Ew.
    2:{ apply nth_error_None in Ew. lia. }
    injection Hm as Hvw Hrest. subst w.
    rewrite <- (firstn_S_nth_error x pos v Ew).
    replace (S (pos - d)) with (S pos - d) by lia.
    replace (pos + S len) with (S pos + len) by lia.
    apply IH; [lia | lia |].
    replace (S pos - d) with (S (pos - d)) by lia.
    exact Hrest.
Qed.

Theorem tokens_from_expand : forall fuel L x pos,
  pos <= length x -> length x - pos <= fuel ->
  expand_from (tokens_from fuel L x pos) (firstn pos x) = Some x.
Proof.
  induction fuel as [|fuel IH]; intros L x pos Hpos Hfuel.
  - cbn [tokens_from expand_from]. f_equal. apply firstn_all2. lia.
  - cbn [tokens_from].
    destruct (Nat.leb_spec (length x) pos) as [Hend|Hlt].
    + cbn [expand_from]. f_equal. apply firstn_all2. lia.
    + pose proof (occ_ok x pos (Nat.min (length x - pos) L) (pos - Nat.min pos WINDOW) (Nat.min pos WINDOW)) as Hocc.
      destruct (occ x pos (Nat.min (length x - pos) L) (pos - Nat.min pos WINDOW) (Nat.min pos WINDOW)) as [len disp].
      destruct Hocc as (Hl1 & Hl2 & Hm).
      destruct (Nat.ltb_spec len 3) as [Hsmall|Hbig].
      * cbn [expand_from].
        destruct (nth_error x pos) as [v|] eqn:Ev.
        2:{ apply nth_error_None in Ev. lia. }
        rewrite (nth_error_nth x pos 0%N Ev).
        rewrite <- (firstn_S_nth_error x pos v Ev).
        apply IH; lia.
      * destruct Hm as [Hz|((Hd1 & Hd2) & Hm)]; [lia|].
        rewrite skipn_length in Hl2.
        cbn [expand_from].
        rewrite firstn_length_le by lia.
        assert (Hdp : disp <= pos) by lia.
        destruct (Nat.leb_spec 1 disp); [|lia].
        destruct (Nat.leb_spec disp pos); [|lia].
        cbn [andb].
        replace (pos - Nat.min pos WINDOW + Nat.min pos WINDOW - disp) with (pos - disp) in Hm by lia.
        rewrite (copy_ok len x pos disp) by (try lia; exact Hm).
        apply IH; lia.
Qed.

Theorem tokens_expand L x : expand (tokens L x) = Some x.
Proof. unfold expand, tokens. apply (tokens_from_expand (length x) L x 0); lia. Qed.

