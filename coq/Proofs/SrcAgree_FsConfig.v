(* Agreement of the per-game configuration of LayeredFilesystem::new and of the compressed-file suffixes
   (src/layered_filesystem.rs, src/lz10.rs, src/lz13.rs; regenerated from the source on every run) with
   Model/LayeredFS.v. *)
From Coq Require Import String List NArith ZArith Bool.
From Mila Require Import Generated.SourceTables.
From Mila Require Import Proofs.SrcAgreeLib Lib.Bytes Lib.Machine Model.Localize Model.LayeredFS.
Import ListNotations.
Local Open Scope N_scope.

Definition all_fsgames : list fsgame := [FE9; FE10; FE11; FE12; FE13; FE14; FE15].
Lemma all_fsgames_complete : forall g, In g all_fsgames.
Proof. intros []; cbn; tauto. Qed.

(* enum Game { FE9, FE10, FE11, FE12, FE13, FE14, FE15 } *)
Theorem src_GAME_NAMES_agrees :
  src_GAME_NAMES = map s2l ["FE9"; "FE10"; "FE11"; "FE12"; "FE13"; "FE14"; "FE15"]%string.
Proof. reflexivity. Qed.

(* codes of the translator: compression 0 LZ10 / 1 LZ13; localizer = position in enum PathLocalizer;
   endian 0 Big / 1 Little; text format 0 ShiftJIS / 1 Unicode *)
Definition code_cfmt (c : cfmt) : N := match c with LZ10 => 0 | LZ13 => 1 end.
Definition code_loc (g : game) : N :=
  match g with GNoOp => 0 | GFE9 => 1 | GFE10 => 2 | GFE13 => 3 | GFE14 => 4 | GFE15 => 5 end.
Definition code_endian (e : endian) : N := match e with BE => 0 | LE => 1 end.
Definition code_tfmt (t : tfmt) : N := match t with ShiftJIS => 0 | Unicode => 1 end.

Definition config_row (g : fsgame) : option N * option N * N * N :=
  (option_map code_cfmt (comp_of_game g), option_map code_loc (loc_of_game g),
   code_endian (endian_of_game g), code_tfmt (text_of_game g)).

(* the four matches of LayeredFilesystem::new, for every game *)
Theorem src_FS_CONFIG_agrees : src_FS_CONFIG = map config_row all_fsgames.
Proof. reflexivity. Qed.

(* [fs_new] fails with UnsupportedGame exactly on the games for which the source returns that error *)
Theorem src_FS_CONFIG_agrees_unsupported : forall ls l (i : nat) g,
  ls <> [] -> nth_error all_fsgames i = Some g ->
  (fs_new ls l g = FErr EUnsupportedGame <->
   (fst (fst (fst (nth i src_FS_CONFIG (None, None, 0, 0)))) = None \/
    snd (fst (fst (nth i src_FS_CONFIG (None, None, 0, 0)))) = None)).
Proof.
  intros ls l i g Hls Hi. destruct ls as [|L ls]; [congruence|].
  do 7 (destruct i as [|i]; [inversion Hi; subst g; cbn; split; intro H;
                              try (left; reflexivity); try reflexivity; try discriminate;
                              try (destruct H; discriminate) | ]).
  destruct i; discriminate.
Qed.

Theorem src_LZ10_SUFFIXES_agrees : src_LZ10_SUFFIXES = suffixes LZ10.
Proof. reflexivity. Qed.
Theorem src_LZ13_SUFFIXES_agrees : src_LZ13_SUFFIXES = suffixes LZ13.
Proof. reflexivity. Qed.
