(* C01, "an archive of the same size": what holds, and the refutation of the literal reading when a c-string is pending
   (review r1, C01-1); the empty label bucket (C01-2). *)
From Coq Require Import List NArith ZArith Bool Lia ZifyBool ZifyNat ZifyN.
From Mila Require Import Lib.Bytes Lib.Machine Model.BinArchive Model.BinFormat Proofs.BinFormatSpec
  Proofs.BinSerializeConforms Proofs.BinRoundTrip.
Import ListNotations.
Local Open Scope N_scope.
Ltac Zify.zify_post_hook ::= Z.div_mod_to_equations.

(* the size of the parsed archive: the data plus the c-string pool the format appends to it (padded to 4) *)
Theorem round_trip_size kf m a f a' :
  wf_archive a -> serialize_k kf m a = Ok f -> from_bytes (a_endian a) f = Ok a' ->
  size a' = size a + lenN (pool_bytes a) /\ lenN (pool_bytes a) mod 4 = 0 /\ (a_cstrs a = [] -> size a' = size a).
Proof.
  intros WF Es Ep. destruct (round_trip_ok kf m a f WF Es) as (a0 & _ & Ep0 & _ & _ & H1 & H2 & H3 & _).
  rewrite Ep in Ep0. inversion Ep0; subst a0. auto.
Qed.

(* the literal reading fails as soon as a c-string is pending: ex_archive (14 data bytes, c-string "cs" pending at cell 4)
   parses back with 18 bytes - the pool "cs\0" padded to 4 has become data *)
Theorem same_size_refuted :
  exists kf m a f a', wf_archive a /\ fits32 a /\ serialize_k kf m a = Ok f /\ from_bytes (a_endian a) f = Ok a' /\
                   size a = 14 /\ size a' = 18.
Proof.
  destruct ex_archive_wf as [WF FIT].
  destruct (round_trip key_bytes Checked ex_archive WF FIT) as (f & a' & Es & _ & Ep & _ & _ & H1 & _).
  exists key_bytes, Checked, ex_archive, f, a'.
  split; [exact WF|]. split; [exact FIT|]. split; [exact Es|]. split; [exact Ep|]. split; [reflexivity|].
  rewrite H1. vm_compute. reflexivity.
Qed.
