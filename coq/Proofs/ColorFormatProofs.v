(* ColorFormat::decode / decode_indexed: RGBA8 is the identity on aligned data, RGB5A3 is Pixel.rgb5a3_decode,
   CI8.decode_indexed is Pixel.decode_indexed_ci8; the error branches. *)
From Coq Require Import List NArith ZArith Arith Lia Bool ZifyBool ZifyNat ZifyN.
From Mila Require Import Lib.Bytes Lib.Machine Model.Pixel Model.ColorFormat.
Import ListNotations.
Local Open Scope N_scope.
Ltac Zify.zify_post_hook ::= Z.div_mod_to_equations.

Lemma rgba8_copy_id : forall n data, length data = (4 * n)%nat -> rgba8_copy data = data.
Proof.
  induction n as [|n IH]; intros data H.
  - destruct data; [reflexivity|discriminate].
  - destruct data as [|a [|b [|c [|d r]]]]; cbn [length] in H; try lia.
    cbn [rgba8_copy app]. rewrite IH by lia. reflexivity.
Qed.

Theorem cf_decode_rgba8 : forall data, lenN data mod 4 = 0 -> cf_decode 0 data = CfOk data.
Proof.
  intros data H. unfold cf_decode. cbn [cf_recognized cf_indexed cf_bytes_per_pixel N.leb N.eqb N.compare negb].
  rewrite H. cbn [N.eqb negb]. rewrite (rgba8_copy_id (length data / 4)); [reflexivity|]. unfold lenN in H. lia.
Qed.

Theorem cf_decode_rgb5a3 : forall data, cf_decode 1 data =
  match rgb5a3_decode data with Ok px => CfOk (flatten px) | _ => CfErr UnalignedData end.
Proof.
  intros data. unfold cf_decode, rgb5a3_decode. cbn [cf_recognized cf_indexed cf_bytes_per_pixel N.leb N.eqb N.compare Pos.compare Pos.compare_cont Pos.eqb negb].
  destruct (lenN data mod 2 =? 0); reflexivity.
Qed.

Theorem cf_decode_errors : forall fmt data,
  (2 < fmt -> cf_decode fmt data = CfErr UnsupportedFormat) /\
  (fmt = 2 -> cf_decode fmt data = CfErr NoPalette) /\
  (fmt < 2 -> lenN data mod cf_bytes_per_pixel fmt <> 0 -> cf_decode fmt data = CfErr UnalignedData).
Proof.
  intros fmt data. unfold cf_decode, cf_recognized, cf_indexed. repeat split.
  - intros H. destruct (N.leb_spec fmt 2); [lia|]. reflexivity.
  - intros ->. reflexivity.
  - intros H U. destruct (N.leb_spec fmt 2); [|lia]. destruct (N.eqb_spec fmt 2); [lia|]. cbn [negb].
    destruct (N.eqb_spec (lenN data mod cf_bytes_per_pixel fmt) 0); [contradiction|]. reflexivity.
Qed.

Theorem cf_decode_indexed_ci8 : forall data pal,
  cf_decode_indexed 2 data pal =
  match decode_indexed_ci8 data pal with Ok b => CfOk b | Err EOob => CfErr OutOfBoundsIndex | _ => CfErr UnalignedData end.
Proof. reflexivity. Qed.

Theorem cf_decode_indexed_errors : forall fmt data pal,
  (2 < fmt -> cf_decode_indexed fmt data pal = CfErr UnsupportedFormat) /\
  (fmt < 2 -> cf_decode_indexed fmt data pal = CfErr NotIndexed).
Proof.
  intros fmt data pal. unfold cf_decode_indexed, cf_recognized, cf_indexed. split; intros H.
  - destruct (N.leb_spec fmt 2); [lia|]. reflexivity.
  - destruct (N.leb_spec fmt 2); [|lia]. destruct (N.eqb_spec fmt 2); [lia|]. reflexivity.
Qed.
