(* Agreement of the three hand-unrolled field tables of src/asset_binary.rs (reader `from_stream`,
   `compute_flags`, writer `append`), regenerated from the straight-line source code on every run, with the
   tables r_base / r_ext / f_schema / w_base / w_ext that Model/AssetBin.v interprets.  Fields are numbered
   by the translator by their position in `struct AssetSpec` (flagged strings; typed fields with a use_ flag),
   which is the numbering of the model's field constants. *)
From Coq Require Import List NArith ZArith Bool.
From Mila Require Import Generated.SourceTables.
From Mila Require Import Proofs.SrcAgreeLib Lib.Bytes Lib.Machine Model.AssetBin.
Import ListNotations.
Local Open Scope N_scope.

Definition code_kind (k : fkind) : N := match k with KColor => 0 | KF32 => 1 | KU32 => 2 end.

Definition code_rentry (e : rentry) : N * N * N * N * N * N :=
  match e with
  | RStr t index => (0, N.of_nat t, index, 0, 0, 0)
  | RTyped byte mask ut vt k => (1, N.of_nat byte, mask, N.of_nat ut, N.of_nat vt, code_kind k)
  end.
Definition code_fentry (e : fentry) : N * N * N * N :=
  let '(byte, mask, s) := e in
  match s with FStr t => (N.of_nat byte, mask, 0, N.of_nat t) | FUse t => (N.of_nat byte, mask, 1, N.of_nat t) end.
Definition code_wentry (e : wentry) : N * N * N * N :=
  match e with
  | WStr t => (0, N.of_nat t, 0, 0)
  | WTyped ut vt k => (1, N.of_nat ut, N.of_nat vt, code_kind k)
  end.

(* the codes are injective, so equal code lists mean equal tables *)
Lemma code_kind_inj : forall a b, code_kind a = code_kind b -> a = b.
Proof. intros [] [] H; try reflexivity; discriminate. Qed.
Lemma code_rentry_inj : forall a b, code_rentry a = code_rentry b -> a = b.
Proof.
  intros [t i|by_ mk ut vt k] [t' i'|by' mk' ut' vt' k'] H; cbn in H; try discriminate; inversion H; subst.
  - f_equal. now apply Nat2N.inj.
  - f_equal; try now apply Nat2N.inj. now apply code_kind_inj.
Qed.
Lemma code_wentry_inj : forall a b, code_wentry a = code_wentry b -> a = b.
Proof.
  intros [t|ut vt k] [t'|ut' vt' k'] H; cbn in H; try discriminate; inversion H; subst.
  - f_equal. now apply Nat2N.inj.
  - f_equal; try now apply Nat2N.inj. now apply code_kind_inj.
Qed.

(* struct AssetSpec: 33 flagged strings, 18 typed fields; declared types against the kinds the model reads *)
Theorem src_ASSET_FIELDS_agrees :
  src_ASSET_FIELDS
  = (N.of_nat N_STRS, N.of_nat N_TYPED,
     map code_kind [KColor; KColor; KColor; KF32; KF32; KF32; KU32; KU32; KU32; KU32; KColor;
                    KU32; KU32; KU32; KU32; KU32; KU32; KU32]).
Proof. reflexivity. Qed.

Theorem src_ASSET_R_BASE_agrees : src_ASSET_R_BASE = map code_rentry r_base.
Proof. reflexivity. Qed.
Theorem src_ASSET_R_EXT_agrees : src_ASSET_R_EXT = map code_rentry r_ext.
Proof. reflexivity. Qed.
Theorem src_ASSET_F_SCHEMA_agrees : src_ASSET_F_SCHEMA = map code_fentry f_schema.
Proof. reflexivity. Qed.
Theorem src_ASSET_W_BASE_agrees : src_ASSET_W_BASE = map code_wentry w_base.
Proof. reflexivity. Qed.
Theorem src_ASSET_W_EXT_agrees : src_ASSET_W_EXT = map code_wentry w_ext.
Proof. reflexivity. Qed.

(* every typed block reads / writes its field with the reader / writer of the field's declared type *)
Theorem src_ASSET_agrees_kinds :
  forallb (fun r => match r with
                    | (1, _, _, _, v, k) => nthN (N.to_nat v) (snd src_ASSET_FIELDS) =? k
                    | _ => true
                    end) src_ASSET_R_EXT = true /\
  forallb (fun r => match r with
                    | (1, _, v, k) => nthN (N.to_nat v) (snd src_ASSET_FIELDS) =? k
                    | _ => true
                    end) src_ASSET_W_EXT = true.
Proof. split; vm_compute; reflexivity. Qed.
