(* What decode_rgba_pixel_data does for the 3DS formats OUTSIDE the property's list (RGB8 = 1, L4 = 10, A4 = 11).
   No specification is claimed for them; these lemmas only record the behaviour of the code as modelled
   (notes/tex.md section 4). *)
From Coq Require Import List NArith ZArith Arith Lia Bool ZifyBool ZifyNat ZifyN.
From Mila Require Import Lib.Bytes Lib.Machine Model.Pixel Model.PixelSpec Proofs.Scatter Proofs.TileProofs.
Import ListNotations.
Local Open Scope N_scope.
Ltac Zify.zify_post_hook ::= Z.div_mod_to_equations.

(* RGB8: every pixel is read as four bytes followed by a seek back of one, so a payload of exactly 3*w*h bytes
   (the size the bytes-per-pixel table gives) always ends in UnexpectedEof *)
Lemma rgb8_exact_payload_fails m data w h : w mod 8 = 0 -> h mod 8 = 0 -> 0 < w -> 0 < h -> w * h < 2 ^ 32 ->
  lenN data = payload_size 1 w h -> decode_rgba_pixels m data w h 1 = Err EIo.
Proof.
  intros Hw Hh Pw Ph Hsz Hlen. unfold decode_rgba_pixels.
  rewrite mul_w_ok by (unfold maxw, W64; lia). cbn [bind].
  rewrite mul_w_ok by (unfold maxw, W64; lia). cbn [bind].
  unfold ALLOC_LIMIT. destruct (N.leb_spec (2 ^ 32) (w * h)) as [?|_]; [lia|].
  assert (En : h / 8 * (w / 8) * 64 = w * h).
  { replace (w * h) with ((8 * (w / 8)) * (8 * (h / 8))) by (f_equal; lia). generalize (w / 8) (h / 8). intros a b. lia. }
  rewrite En. unfold need. assert (P : 0 < w * h) by nia. destruct (N.eqb_spec (w * h) 0); [lia|].
  unfold payload_size in Hlen. cbn [bpp2] in Hlen. rewrite <- N.mul_assoc in Hlen.
  destruct (N.leb_spec (3 * (w * h) + 1) (lenN data)); [|reflexivity]. revert Hlen H. generalize (w * h) (lenN data). intros a b. lia.
Qed.
