(* C05, aset and asset-binary parts: the readers layered on the bin archive are TOTAL on arbitrary archives,
   hence (with Proofs/BinTotal.v, Proofs/TextArcTotal.v) on arbitrary byte strings.
     - ASetFile::from_archive / AssetBinary::from_archive never panic on ANY archive value (every slice access is
       dominated by a bounds check; flags[4..6] are read only when 8 flag bytes were read; read_color's
       copy_from_slice always gets 4 bytes);
     - the read loops never exhaust their fuel: an aset iteration consumes >= 4 bytes (read_set_advances), an
       asset iteration >= 8 bytes inside the data (from_stream_advances), the loops stop at the end of the data
       resp. at the first malformed record;
     - the only errors are out-of-bounds reads (and the missing table label for aset);
     - whatever is accepted is in the writers' domain (257 table entries, 257 entries per set) and re-serializes
       without panic in both arithmetic modes.
   The readers contain no fixed-width arithmetic: the arithmetic mode only enters through BinFormat.serialize. *)
From Coq Require Import List NArith ZArith Bool Lia ZifyBool ZifyNat ZifyN Arith.
From Mila Require Import Lib.Bytes Lib.BytesExtra Lib.Machine Model.BinArchive Model.BinStreams Model.BinFormat
  Proofs.AMapLemmas Proofs.BinAccess Proofs.BinAccess2 Proofs.BinTotal Proofs.TextArcTotal Proofs.RecsCells.
From Mila Require Model.ASet Model.AssetBin Proofs.ASetWrite Proofs.ASetRoundTrip Proofs.AssetBinRoundTrip.
Import ListNotations.
Local Open Scope N_scope.
Ltac Zify.zify_post_hook ::= Z.div_mod_to_equations.

(* ================================================================== stream reads: Ok and advanced inside the data, or Err EOob *)
Inductive sres {A} (a : archive) (p w : N) : outcome A * N -> Prop :=
| sres_ok v : p + w <= size a -> sres a p w (Ok v, p + w)
| sres_err : sres a p w (Err EOob, p).

Lemma u32_res a p : sres a p 4 (r_read_u32 a p).
Proof.
  unfold r_read_u32, read_u32. rewrite read_uint_spec. change (N.of_nat 4) with 4.
  destruct (inside a p 4) eqn:I; [|constructor]. apply inside_true in I.
  destruct (sliceN_Some p 4 (a_data a)) as (s & ->); [unfold size in I; lia|]. constructor. lia.
Qed.
Lemma str_res a p : sres a p 4 (r_read_string a p).
Proof.
  unfold r_read_string. rewrite read_string_spec. destruct (inside a p 4) eqn:I; [|constructor].
  apply inside_true in I. constructor. lia.
Qed.
Lemma u8_res a p : sres a p 1 (r_read_u8 a p).
Proof.
  unfold r_read_u8. rewrite read_u8_spec. destruct (N.ltb_spec p (size a)) as [H|H]; [|constructor].
  destruct (sliceN_Some p 1 (a_data a)) as (s & ->); [unfold size in H; lia|]. constructor. lia.
Qed.
Lemma label_res a p i : (exists v, r_read_label a p i = (Ok v, p) /\ p + 4 <= size a) \/ r_read_label a p i = (Err EOob, p).
Proof.
  unfold r_read_label. rewrite read_labels_spec. destruct (inside a p 4) eqn:I; [|right; reflexivity].
  apply inside_true in I. left. destruct (am_get p (a_labels a)); eexists; (split; [reflexivity | lia]).
Qed.
(* read_bytes(n), n >= 1: all n bytes or an error *)
Lemma bytes_res a p n : 1 <= n ->
  (exists bs, r_read_bytes a p n = (Ok bs, p + n) /\ length bs = N.to_nat n /\ p + n <= size a) \/
  (exists p', r_read_bytes a p n = (Err EOob, p')).
Proof.
  intros Hn. unfold r_read_bytes. set (k := N.to_nat (N.min n (size a + 1))).
  destruct (r_read_bytes_loop k a p []) as [[bs|e|pk] p'] eqn:E.
  - apply r_read_bytes_loop_spec in E. destruct E as (Ep & Hle & Ebs).
    assert (Hk : k <> 0%nat) by (unfold k; lia). specialize (Hle Hk).
    assert (Ek : N.of_nat k = n) by (unfold k in *; lia).
    left. exists bs. rewrite Ep, Ek. split; [reflexivity|]. split; [|lia].
    rewrite Ebs. cbn [rev app]. rewrite firstn_length, skipn_length. unfold size, lenN in Hle. lia.
  - apply r_read_bytes_loop_err in E. destruct E as [-> _]. right. eexists. reflexivity.
  - exfalso. exact (r_read_bytes_loop_no_panic _ _ _ _ _ _ E).
Qed.

(* outcome of a reader returning (value, cursor): Ok with a property, or an out-of-bounds error; never a panic *)
Definition goodP {X} (P : X -> N -> Prop) (o : outcome (X * N)) : Prop :=
  match o with Ok r => P (fst r) (snd r) | Err e => e = EOob | Panic _ => False end.
Lemma goodP_impl {X} (P Q : X -> N -> Prop) o : (forall x p, P x p -> Q x p) -> goodP P o -> goodP Q o.
Proof. destruct o as [[x p]| |]; cbn [goodP fst snd]; auto. Qed.

Lemma serialize_no_panic_any_size m a p : a_cstrs a = [] -> BinFormat.serialize m a <> Panic p.
Proof. intros _. unfold BinFormat.serialize. apply serialize_no_panic_all. Qed.

(* ================================================================== animation-set files *)
Module ASetT.
Import Model.ASet Proofs.ASetWrite.

Lemma read_strings_good : forall n a p acc,
  goodP (fun l p' => p <= p' <= N.max p (size a) /\ length l = (n + length acc)%nat) (read_strings n a p acc).
Proof.
  induction n as [|n IH]; intros a p acc; cbn [read_strings].
  - cbn [goodP fst snd]. rewrite rev_length. split; [lia | reflexivity].
  - destruct (str_res a p) as [v Hv|]; [|reflexivity].
    eapply goodP_impl; [|apply IH]. cbn [length]. intros l p' [H1 H2]. split; lia.
Qed.

Lemma read_group_good : forall bits flags a p acc,
  goodP (fun l p' => p <= p' <= N.max p (size a) /\ length l = (length bits + length acc)%nat) (read_group bits flags a p acc).
Proof.
  induction bits as [|b r IH]; intros flags a p acc; cbn [read_group].
  - cbn [goodP fst snd length]. split; [lia | reflexivity].
  - destruct (N.land flags (N.shiftl 1 b) =? 0).
    + eapply goodP_impl; [|apply IH]. cbn [length]. intros l p' [H1 H2]. split; lia.
    + destruct (str_res a p) as [v Hv|]; [|reflexivity].
      eapply goodP_impl; [|apply IH]. cbn [length]. intros l p' [H1 H2]. split; lia.
Qed.

Lemma read_groups_good : forall groups mf a p acc,
  goodP (fun l p' => p <= p' <= N.max p (size a) /\ length l = (32 * length groups + length acc)%nat) (read_groups groups mf a p acc).
Proof.
  induction groups as [|g r IH]; intros mf a p acc; cbn [read_groups].
  - cbn [goodP fst snd length]. split; [lia | reflexivity].
  - destruct (N.land mf (N.shiftl 1 g) =? 0).
    + eapply goodP_impl; [|apply IH]. cbn [length]. rewrite app_length, repeat_length. unfold GROUP_BITS.
      intros l p' [H1 H2]. split; lia.
    + destruct (u32_res a p) as [fl Hv|]; [|reflexivity].
      pose proof (read_group_good (range GROUP_BITS) fl a (p + 4) acc) as G.
      destruct (read_group (range GROUP_BITS) fl a (p + 4) acc) as [[l1 p1]|e|k]; cbn [goodP fst snd bind] in *; [|exact G|exact G].
      destruct G as [G1 G2]. unfold range in G2. rewrite map_length, seq_length in G2. unfold GROUP_BITS in G2.
      eapply goodP_impl; [|apply IH]. cbn [length]. intros l p' [H1 H2]. split; lia.
Qed.

(* one iteration of the set loop: at least the 4 bytes of main_flags are consumed, inside the data; the set has 257 entries *)
Theorem read_set_good a p : goodP (fun s p' => p + 4 <= p' <= size a /\ length s = 257%nat) (read_set a p).
Proof.
  unfold read_set. destruct (label_res a p 0) as [(lbl & -> & Hin)| ->]; [|reflexivity].
  destruct (u32_res a p) as [mf Hv|]; [|reflexivity].
  pose proof (read_groups_good (range GROUPS) mf a (p + 4) [lbl]) as G.
  destruct (read_groups (range GROUPS) mf a (p + 4) [lbl]) as [[l1 p1]|e|k]; cbn [goodP fst snd bind] in *; [|exact G|exact G].
  destruct G as [G1 G2]. unfold range in G2. rewrite map_length, seq_length in G2. unfold GROUPS in G2. cbn [length] in G2.
  rewrite rev_length. split; lia.
Qed.

Definition len257 (s : list (option bytes)) : Prop := length s = 257%nat.

Lemma read_sets_total a : forall fuel pos acc,
  size a < pos + 4 * N.of_nat fuel -> Forall len257 acc ->
  match read_sets fuel a pos acc with Ok sets => Forall len257 sets | Err e => e = EOob | Panic _ => False end.
Proof.
  induction fuel as [|fuel IH]; intros pos acc Hf Hacc; cbn [read_sets];
    (destruct (N.leb_spec (size a) pos) as [Hle|Hgt]; [apply Forall_rev; exact Hacc|]); [lia|].
  pose proof (read_set_good a pos) as G. destruct (read_set a pos) as [[s p']|e|k]; cbn [goodP fst snd bind] in *; [|exact G|exact G].
  destruct G as (G1 & G3). apply IH; [lia|]. constructor; [exact G3 | exact Hacc].
Qed.

Theorem from_archive_total a :
  match from_archive a with Ok v => wf_aset v | Err e => e = EOob \/ e = EOther | Panic _ => False end.
Proof.
  unfold from_archive. destruct (find_label_address a ACNT) as [ta|]; cbn [of_option bind]; [|right; reflexivity].
  destruct (str_res a (0 + 4)) as [meta Hm|]; [|left; reflexivity].
  pose proof (read_strings_good TABLE_LEN a ta []) as G.
  destruct (read_strings TABLE_LEN a ta []) as [[t p1]|e|k]; cbn [goodP fst snd bind] in *; [|left; exact G|exact G].
  destruct G as [_ G2].
  pose proof (read_sets_total a (S (length (a_data a))) p1 []) as R.
  destruct (read_sets (S (length (a_data a))) a p1 []) as [sets|e|k]; cbn [bind].
  - split; [cbn [as_table]; rewrite G2; reflexivity | cbn [as_sets]; apply R; [unfold size, lenN; lia | constructor]].
  - left. apply R; [unfold size, lenN; lia | constructor].
  - apply R; [unfold size, lenN; lia | constructor].
Qed.

Theorem from_archive_no_panic a k : from_archive a <> Panic k.
Proof. pose proof (from_archive_total a) as T. intros E. rewrite E in T. exact T. Qed.
Theorem from_archive_fuel_never_exhausted a : from_archive a <> Err EOutOfFuel.
Proof. pose proof (from_archive_total a) as T. intros E. rewrite E in T. destruct T; discriminate. Qed.
Theorem from_archive_wf a v : from_archive a = Ok v -> wf_aset v.
Proof. pose proof (from_archive_total a) as T. intros E. rewrite E in T. exact T. Qed.
(* ... and every flags word and string cell the flags announce lies inside the data: a record announcing more is rejected *)
Theorem read_set_advances a p s p' : read_set a p = Ok (s, p') -> p + 4 <= p' <= size a /\ length s = 257%nat.
Proof. pose proof (read_set_good a p) as G. intros E. rewrite E in G. exact G. Qed.

(* every byte string *)
Theorem parse_no_panic f k : parse f <> Panic k.
Proof.
  unfold parse. destruct (BinFormat.from_bytes LE f) as [a|e|k'] eqn:E; cbn [bind]; [apply from_archive_no_panic | discriminate|].
  exfalso. exact (from_bytes_no_panic LE f k' E).
Qed.
Theorem parse_fuel_never_exhausted f : parse f <> Err EOutOfFuel.
Proof.
  unfold parse. destruct (BinFormat.from_bytes LE f) as [a|e|k'] eqn:E; cbn [bind]; [apply from_archive_fuel_never_exhausted | | discriminate].
  intros C. inversion C; subst. exact (bin_from_bytes_no_fuel LE f E).
Qed.
Theorem parse_wf f v : parse f = Ok v -> wf_aset v.
Proof.
  unfold parse. destruct (BinFormat.from_bytes LE f) as [a|e|k']; cbn [bind]; [apply from_archive_wf | discriminate | discriminate].
Qed.

(* anything in the reader's range is in the writer's domain: the archive is built, serialization does not panic *)
Lemma wf_sets_nonempty sets : Forall (fun s : oset => length s = 257%nat) sets -> Forall (fun s : oset => s <> []) sets.
Proof. apply Forall_impl. intros s H E. subst s. discriminate. Qed.
Theorem serialize_wf_no_panic m v k : wf_aset v -> serialize m v <> Panic k.
Proof.
  intros [Ht Hs]. unfold serialize. rewrite (build_spec v Ht (wf_sets_nonempty _ Hs)). cbn [bind].
  apply serialize_no_panic_any_size. reflexivity.
Qed.
Theorem reserialize_no_panic f v m k : parse f = Ok v -> serialize m v <> Panic k.
Proof. intros H. apply serialize_wf_no_panic. exact (parse_wf f v H). Qed.
Theorem from_archive_reserialize_no_panic a v m k : from_archive a = Ok v -> serialize m v <> Panic k.
Proof. intros H. apply serialize_wf_no_panic. exact (from_archive_wf a v H). Qed.
(* whatever the reader returns - from ANY archive, also a foreign or malformed one - is a fixed point of write -> read *)
Theorem reader_output_round_trips a v : from_archive a = Ok v -> exists a', build v = Ok a' /\ from_archive a' = Ok v.
Proof.
  intros H. destruct (Proofs.ASetRoundTrip.round_trip_archive v (from_archive_wf a v H)) as (a' & B & R & _). exists a'. auto.
Qed.
End ASetT.

(* ================================================================== asset binaries *)
Module AssetT.
Import Model.AssetBin Proofs.AssetBinRoundTrip.

(* a reader-table entry only indexes flag bytes that were read *)
Definition entry_okb (n : nat) (e : rentry) : bool :=
  match e with RStr _ _ => true | RTyped b _ _ _ _ => (b <? n)%nat end.

Lemma read_flag_str_good a p flags idx :
  goodP (fun _ p' => p <= p' <= N.max p (size a)) (match read_flag_str a p flags idx with (Ok v, p') => Ok (v, p') | (Err e, _) => Err e | (Panic k, _) => Panic k end).
Proof.
  unfold read_flag_str. destruct (orb _ _); [cbn [goodP fst snd]; lia|].
  destruct (str_res a p) as [v Hv|]; cbn [goodP fst snd]; [lia | reflexivity].
Qed.
Lemma read_color_good a p :
  goodP (fun _ p' => p <= p' <= N.max p (size a)) (match read_color a p with (Ok v, p') => Ok (v, p') | (Err e, _) => Err e | (Panic k, _) => Panic k end).
Proof.
  unfold read_color. destruct (bytes_res a p 4 ltac:(lia)) as [(bs & -> & Hl & Hs)|(p' & ->)]; [|reflexivity].
  change (N.to_nat 4) with 4%nat in Hl.
  destruct bs as [|b0 [|b1 [|b2 [|b3 [|b4 r]]]]]; cbn [length] in Hl; try lia. cbn [goodP fst snd]. lia.
Qed.
Lemma read_typed_good k a p :
  goodP (fun _ p' => p <= p' <= N.max p (size a)) (match read_typed k a p with (Ok v, p') => Ok (v, p') | (Err e, _) => Err e | (Panic k, _) => Panic k end).
Proof.
  destruct k; cbn [read_typed].
  - apply read_color_good.
  - change (r_read_f32 a p) with (r_read_u32 a p). destruct (u32_res a p) as [v Hv|]; cbn [goodP fst snd]; [lia | reflexivity].
  - destruct (u32_res a p) as [v Hv|]; cbn [goodP fst snd]; [lia | reflexivity].
Qed.

Lemma read_entries_good a flags : forall es sp p,
  forallb (entry_okb (length flags)) es = true ->
  goodP (fun _ p' => p <= p' <= N.max p (size a)) (read_entries a flags es sp p).
Proof.
  induction es as [|e r IH]; intros sp p Hok; cbn [read_entries].
  - cbn [goodP fst snd]. lia.
  - cbn [forallb] in Hok. apply andb_true_iff in Hok. destruct Hok as [He Hr].
    destruct e as [t idx|b mask ut vt k]; cbn [entry_okb] in He.
    + pose proof (read_flag_str_good a p flags idx) as G.
      destruct (read_flag_str a p flags idx) as [[v|e|pk] p1]; cbn [goodP fst snd] in G; [|exact G|exact G].
      eapply goodP_impl; [|apply (IH _ p1 Hr)]. cbn beta. intros _ p' H. lia.
    + apply Nat.ltb_lt in He. destruct (nth_error flags b) as [fb|] eqn:E; [|apply nth_error_None in E; lia].
      destruct (N.land fb mask =? 0); [apply IH; exact Hr|].
      pose proof (read_typed_good k a p) as G.
      destruct (read_typed k a p) as [[v|e|pk] p1]; cbn [goodP fst snd] in G; [|exact G|exact G].
      eapply goodP_impl; [|apply (IH _ p1 Hr)]. cbn beta. intros _ p' H. lia.
Qed.

(* one record: at least 8 bytes (4 flag bytes + the name cell) are consumed inside the data *)
Theorem from_stream_with_good rb re a p :
  forallb (entry_okb 4) rb = true -> forallb (entry_okb 8) re = true ->
  goodP (fun _ p' => p + 8 <= p' <= size a) (from_stream_with rb re a p).
Proof.
  intros Hb He. unfold from_stream_with. destruct (u8_res a p) as [raw Hraw|]; [|reflexivity].
  set (fc := if N.land raw 1 =? 1 then 7 else 3).
  assert (Hfc : fc = 3 \/ fc = 7) by (unfold fc; destruct (N.land raw 1 =? 1); auto).
  clearbody fc. assert (H1 : 1 <= fc) by lia.
  destruct (bytes_res a (p + 1) fc H1) as [(rest & -> & Hl & Hs)|(p' & ->)]; [|reflexivity].
  destruct (str_res a (p + 1 + fc)) as [name Hn|]; [|reflexivity].
  assert (Hlen : length (raw :: rest) = S (N.to_nat fc)) by (cbn [length]; rewrite Hl; reflexivity).
  pose proof (read_entries_good a (raw :: rest) rb (set_name name spec_default) (p + 1 + fc + 4)) as G1.
  rewrite Hlen in G1.
  assert (Hb' : forallb (entry_okb (S (N.to_nat fc))) rb = true).
  { rewrite forallb_forall in *. intros e Hin. specialize (Hb e Hin). destruct e; cbn [entry_okb] in *; [reflexivity|].
    apply Nat.ltb_lt in Hb. apply Nat.ltb_lt. lia. }
  specialize (G1 Hb').
  destruct (read_entries a (raw :: rest) rb (set_name name spec_default) (p + 1 + fc + 4)) as [[sp1 p1]|e|k]; cbn [goodP fst snd bind] in *;
    [|exact G1|exact G1].
  destruct (N.ltb_spec 3 fc) as [Hlt|Hge].
  - assert (fc = 7) by lia. subst fc.
    pose proof (read_entries_good a (raw :: rest) re sp1 p1) as G2. rewrite Hlen in G2.
    change (S (N.to_nat 7)) with 8%nat in G2. specialize (G2 He).
    eapply goodP_impl; [|exact G2]. cbn beta. intros _ p' H'. lia.
  - cbn [goodP fst snd]. lia.
Qed.

Definition tables_ok : forallb (entry_okb 4) r_base = true /\ forallb (entry_okb 8) r_ext = true.
Proof. split; vm_compute; reflexivity. Qed.

Theorem from_stream_good a p : goodP (fun _ p' => p + 8 <= p' <= size a) (from_stream a p).
Proof. apply from_stream_with_good; apply tables_ok. Qed.
Theorem from_stream_advances a p sp p' : from_stream a p = Ok (sp, p') -> p + 8 <= p' <= size a.
Proof. pose proof (from_stream_good a p) as G. intros E. rewrite E in G. exact G. Qed.
Theorem from_stream_no_panic a p k : from_stream a p <> Panic k.
Proof. pose proof (from_stream_good a p) as G. intros E. rewrite E in G. exact G. Qed.

(* the read loop always ends with the specs read so far: it stops at the first record that cannot be read *)
Lemma read_specs_total a : forall fuel pos acc,
  (0 < fuel)%nat -> size a < pos + 8 * N.of_nat fuel ->
  exists l, read_specs_with r_base r_ext fuel a pos acc = Ok l.
Proof.
  induction fuel as [|fuel IH]; intros pos acc H0 Hf; [lia|]. cbn [read_specs_with].
  pose proof (from_stream_good a pos) as G. unfold from_stream in G.
  destruct (from_stream_with r_base r_ext a pos) as [[sp p']|e|k]; cbn [goodP fst snd] in G; [|eexists; reflexivity|destruct G].
  apply IH; lia.
Qed.

Theorem from_archive_total a : (exists b, from_archive a = Ok b) \/ from_archive a = Err EOob.
Proof.
  unfold from_archive, from_archive_with. destruct (u32_res a 0) as [fl Hfl|]; [|right; reflexivity].
  destruct (read_specs_total a (S (length (a_data a))) (0 + 4) []) as (l & ->); [lia | unfold size, lenN; lia|].
  left. eexists. reflexivity.
Qed.
Theorem from_archive_no_panic a k : from_archive a <> Panic k.
Proof. destruct (from_archive_total a) as [(b & ->)| ->]; discriminate. Qed.
Theorem from_archive_fuel_never_exhausted a : from_archive a <> Err EOutOfFuel.
Proof. destruct (from_archive_total a) as [(b & ->)| ->]; discriminate. Qed.
(* only an archive without the 4-byte header flags word is rejected *)
Theorem from_archive_ok_iff a : (exists b, from_archive a = Ok b) <-> 4 <= size a.
Proof.
  unfold from_archive, from_archive_with. split.
  - intros (b & E). destruct (u32_res a 0) as [fl Hfl|]; [lia | discriminate].
  - intros H. unfold r_read_u32, read_u32. rewrite read_uint_spec. change (N.of_nat 4) with 4.
    assert (I : inside a 0 4 = true) by (apply inside_true; lia). rewrite I.
    destruct (sliceN_Some 0 4 (a_data a)) as (s & ->); [unfold size in H; lia|]. cbn [rd].
    destruct (read_specs_total a (S (length (a_data a))) (0 + 4) []) as (l & ->); [lia | unfold size, lenN; lia|].
    eexists. reflexivity.
Qed.

Theorem parse_no_panic f k : parse f <> Panic k.
Proof.
  unfold parse. destruct (BinFormat.from_bytes LE f) as [a|e|k'] eqn:E; cbn [bind]; [apply from_archive_no_panic | discriminate|].
  exfalso. exact (from_bytes_no_panic LE f k' E).
Qed.
Theorem parse_fuel_never_exhausted f : parse f <> Err EOutOfFuel.
Proof.
  unfold parse. destruct (BinFormat.from_bytes LE f) as [a|e|k'] eqn:E; cbn [bind]; [apply from_archive_fuel_never_exhausted | | discriminate].
  intros C. inversion C; subst. exact (bin_from_bytes_no_fuel LE f E).
Qed.

(* ANY asset-binary value serializes without panic (the writer never indexes out of the room it allocates) *)
Theorem serialize_no_panic m b k : serialize m b <> Panic k.
Proof.
  unfold serialize. rewrite build_is_cells. cbn [bind]. apply serialize_no_panic_any_size. reflexivity.
Qed.
Theorem reserialize_no_panic f b m k : parse f = Ok b -> serialize m b <> Panic k.
Proof. intros _. apply serialize_no_panic. Qed.
End AssetT.
