(* Generic lemmas on association maps (Model/BinArchive.v: am_get, am_set, am_del, am_map_keys, am_filter_keys). *)
From Coq Require Import List NArith Bool Lia.
From Mila Require Import Lib.Bytes Model.BinArchive.
Import ListNotations.
Local Open Scope N_scope.

Section AM.
Context {V : Type}.
Implicit Types (m : amap V) (k : N).

Lemma am_get_in k m v : am_get k m = Some v -> In (k, v) m.
Proof.
  induction m as [|[k' v'] r IH]; cbn [am_get]; [discriminate|].
  destruct (N.eqb_spec k k') as [E|E]; intros H; [inversion H; subst; left; reflexivity | right; auto].
Qed.
Lemma am_get_none k m : am_get k m = None <-> ~ In k (am_keys m).
Proof.
  unfold am_keys. induction m as [|[k' v'] r IH]; cbn [am_get map fst In]; [tauto|].
  destruct (N.eqb_spec k k') as [E|E]; [split; [discriminate | intros H; exfalso; apply H; auto]|].
  rewrite IH. split; [intros H [H1|H1]; [congruence | auto] | tauto].
Qed.
Lemma am_get_some_key k m v : am_get k m = Some v -> In k (am_keys m).
Proof. intros H. apply am_get_in in H. unfold am_keys. apply in_map_iff. exists (k, v). auto. Qed.

Lemma am_keys_map_keys f m : am_keys (am_map_keys f m) = map f (am_keys m).
Proof. unfold am_keys, am_map_keys. rewrite !map_map. reflexivity. Qed.
Lemma am_keys_filter_keys p m : am_keys (am_filter_keys p m) = filter p (am_keys m).
Proof.
  unfold am_keys, am_filter_keys. induction m as [|[k v] r IH]; cbn [filter map fst]; [reflexivity|].
  destruct (p k); cbn [map fst]; congruence.
Qed.

(* lookup through a key map that is injective on the keys of interest *)
Lemma am_get_map_keys f m x :
  (forall k, In k (am_keys m) -> f k = f x -> k = x) ->
  am_get (f x) (am_map_keys f m) = am_get x m.
Proof.
  unfold am_map_keys, am_keys. induction m as [|[k v] r IH]; intros Hinj; cbn [map am_get fst snd]; [reflexivity|].
  destruct (N.eqb_spec (f x) (f k)) as [E|E].
  - assert (k = x) by (apply Hinj; [left; reflexivity | congruence]). subst k. rewrite N.eqb_refl. reflexivity.
  - destruct (N.eqb_spec x k) as [E2|E2]; [subst; congruence|].
    apply IH. intros k0 Hk. apply Hinj. right. exact Hk.
Qed.

Lemma am_get_filter_keys p m x : am_get x (am_filter_keys p m) = if p x then am_get x m else None.
Proof.
  unfold am_filter_keys. induction m as [|[k v] r IH]; cbn [filter am_get fst]; [destruct (p x); reflexivity|].
  destruct (p k) eqn:Pk; cbn [am_get].
  - destruct (N.eqb_spec x k) as [E|E]; [subst; rewrite Pk; reflexivity | exact IH].
  - destruct (N.eqb_spec x k) as [E|E]; [subst; rewrite Pk in *; exact IH | exact IH].
Qed.

Lemma am_get_set_same k v m : am_get k (am_set k v m) = Some v.
Proof. induction m as [|[k' v'] r IH]; cbn [am_set am_get]; [rewrite N.eqb_refl; reflexivity|].
  destruct (N.eqb_spec k k'); cbn [am_get]; [rewrite N.eqb_refl; reflexivity|]. destruct (N.eqb_spec k k'); [congruence | exact IH]. Qed.
Lemma am_get_set_other k k2 v m : k2 <> k -> am_get k2 (am_set k v m) = am_get k2 m.
Proof.
  intros Hne. induction m as [|[k' v'] r IH]; cbn [am_set am_get].
  - destruct (N.eqb_spec k2 k); [congruence | reflexivity].
  - destruct (N.eqb_spec k k') as [E|E]; cbn [am_get].
    + subst k'. destruct (N.eqb_spec k2 k); [congruence | reflexivity].
    + rewrite IH. reflexivity.
Qed.
Lemma am_keys_set k v m : incl (am_keys (am_set k v m)) (k :: am_keys m) /\ incl (k :: am_keys m) (am_keys (am_set k v m)).
Proof.
  unfold am_keys. induction m as [|[k' v'] r [IH1 IH2]]; cbn [am_set map fst].
  - split; apply incl_refl.
  - destruct (N.eqb_spec k k') as [E|E]; cbn [map fst].
    + subst k'. split; intros x Hx; cbn [In] in *; tauto.
    + split; intros x Hx; cbn [In] in *.
      * destruct Hx as [Hx|Hx]; [tauto|]. apply IH1 in Hx. cbn [In] in Hx. tauto.
      * destruct Hx as [Hx|[Hx|Hx]]; [right; apply IH2; left; exact Hx | tauto | right; apply IH2; right; exact Hx].
Qed.
Lemma am_keys_del_incl k m : incl (am_keys (am_del k m)) (am_keys m).
Proof.
  unfold am_keys. induction m as [|[k' v'] r IH]; cbn [am_del map fst]; [apply incl_refl|].
  destruct (N.eqb_spec k k'); cbn [map fst]; intros x Hx; cbn [In] in *; [tauto|]. destruct Hx; [tauto | right; apply IH; assumption].
Qed.
End AM.
