(* CompressionFormat (src/compression_format.rs): the enum's compress / decompress are the entry points
   of the variant (compression_format.rs:20-25, 27-32), hence decompress . compress = id through the enum
   for both variants - the empty payload included - what happens when the two formats are crossed, and the
   size guards of F21 seen through the enum. *)
From Coq Require Import List NArith Arith Lia Bool.
From Mila Require Import Lib.Bytes Lib.Machine Model.LZCore Model.LZ10 Model.LZ11 Model.LZSpec Model.LZDecode
  Proofs.LZ10Proofs Proofs.LZ11Proofs Proofs.LZDecodeProofs Proofs.LZRoundTrip Proofs.LZRoundTripExt.
Import ListNotations.
Local Open Scope N_scope.

Theorem cf_compress_dispatch f m x :
  cf_compress f m x = match f with CF10 => compress10_o x | CF13 => compress13_o m x end.
Proof. reflexivity. Qed.

Lemma compress10_o_small x : lenN x < 2 ^ 24 -> compress10_o x = Ok (compress10 x).
Proof.
  intros H. unfold compress10_o. rewrite lenN_tr_eq. change (2 ^ 24) with 16777216 in H.
  destruct (N.ltb_spec 16777215 (lenN x)); [lia | reflexivity].
Qed.
Lemma compress10_o_rejects x : 2 ^ 24 <= lenN x -> compress10_o x = Err ETooLarge.
Proof.
  intros H. unfold compress10_o. rewrite lenN_tr_eq. change (2 ^ 24) with 16777216 in H.
  destruct (N.ltb_spec 16777215 (lenN x)); [reflexivity | lia].
Qed.
Lemma compress10_o_ok_inv x c : compress10_o x = Ok c -> lenN x < 2 ^ 24 /\ c = compress10 x.
Proof.
  unfold compress10_o. rewrite lenN_tr_eq. change (2 ^ 24) with 16777216.
  destruct (N.ltb_spec 16777215 (lenN x)) as [Hb|Hs]; [discriminate|]. intros Hc. injection Hc as <-. split; [lia | reflexivity].
Qed.

(* whatever LZ10 compress accepts comes back: no size hypothesis - success of compress IS the size condition *)
Theorem compress10_o_round_trip x c : wfb x -> compress10_o x = Ok c -> forall m, lz10_decompress m c = Ok x.
Proof.
  intros Hw Hc m. destruct (compress10_o_ok_inv x c Hc) as [Hn ->]. apply compress10_round_trip; assumption.
Qed.

(* ... and the same for LZ13 *)
Theorem compress13_o_round_trip_inv mc x c : wfb x -> compress13_o mc x = Ok c -> forall m, lz13_decompress m c = Ok x.
Proof.
  intros Hw Hc m. destruct (compress13_o_ok_inv mc x c Hc) as [Hn _].
  destruct (compress13_o_round_trip mc x Hw Hn) as (c' & Hc' & Hd). rewrite Hc in Hc'. injection Hc' as <-. apply Hd.
Qed.

(* decompress (compress x) = x through the enum, compress in profile mc, decompress in profile md:
   whenever compress returns Ok (no size hypothesis), and it does return Ok below the format's limit *)
Theorem cf_round_trip_ok f mc md x c : wfb x -> cf_compress f mc x = Ok c -> cf_decompress f md c = Ok x.
Proof.
  intros Hw Hc. destruct f; cbn [cf_compress cf_decompress] in *.
  - exact (compress10_o_round_trip x c Hw Hc md).
  - exact (compress13_o_round_trip_inv mc x c Hw Hc md).
Qed.

Definition cf_limit (f : cformat) : N := match f with CF10 => 2 ^ 24 | CF13 => 2 ^ 32 end.

Theorem cf_compress_total f mc x :
  (lenN x < cf_limit f -> exists c, cf_compress f mc x = Ok c) /\
  (cf_limit f <= lenN x -> cf_compress f mc x = Err ETooLarge).
Proof.
  destruct f; cbn [cf_compress cf_limit]; split; intros H.
  - rewrite (compress10_o_small x H). eauto.
  - exact (compress10_o_rejects x H).
  - rewrite (compress13_o_small mc x H). destruct (compress13_enc mc x) as [h Hh]; [|eauto].
    change (2 ^ 32) with 4294967296 in H. change (2 ^ 63) with 9223372036854775808. lia.
  - exact (compress13_o_rejects mc x H).
Qed.

Theorem cf_round_trip f mc md x : wfb x -> lenN x < 2 ^ 24 ->
  exists c, cf_compress f mc x = Ok c /\ cf_decompress f md c = Ok x.
Proof.
  intros Hw Hn.
  assert (Hl : lenN x < cf_limit f).
  { destruct f; cbn [cf_limit]; [exact Hn|]. change (2 ^ 24) with 16777216 in Hn. change (2 ^ 32) with 4294967296. lia. }
  destruct (proj1 (cf_compress_total f mc x) Hl) as [c Hc]. exists c. split; [exact Hc|].
  exact (cf_round_trip_ok f mc md x c Hw Hc).
Qed.

(* the head of what the two compressors write *)
Lemma compress10_head x : exists r, compress10 x = 0x10 :: r.
Proof. rewrite compress10_enc. cbn [header10 app]. eauto. Qed.

Lemma compress13_head m x c : compress13_o m x = Ok c ->
  exists a b d r, c = 0x13 :: a :: b :: d :: 0x11 :: r.
Proof.
  intros Hc. destruct (compress13_o_ok_inv m x c Hc) as [Hn Hc'].
  assert (Hn63 : lenN x < 2 ^ 63) by (change (2 ^ 32) with 4294967296 in Hn; change (2 ^ 63) with 9223372036854775808; lia).
  destruct (compress13_enc m x Hn63) as [h Hh]. rewrite Hh in Hc'. injection Hc' as <-.
  unfold header13, le24. cbn [app]. eauto 8.
Qed.

(* crossing the formats.  The LZ13 entry point passes a bare LZ10 stream through, so a file written by the
   LZ10 format is read back by the LZ13 format; the LZ10 entry point rejects the 0x13 wrapper. *)
Theorem cf13_reads_cf10 mc md x c : wfb x -> cf_compress CF10 mc x = Ok c -> cf_decompress CF13 md c = Ok x.
Proof.
  intros Hw Hc. cbn [cf_compress cf_decompress] in *.
  pose proof (compress10_o_round_trip x c Hw Hc md) as Hr. unfold lz10_decompress in Hr.
  destruct (compress10_o_ok_inv x c Hc) as [_ ->].
  destruct (compress10_head x) as [r Hr0]. rewrite Hr0 in *.
  destruct r as [|a [|b [|d r]]]; try (rewrite (lz_short md) in Hr by (cbn [length]; lia); discriminate).
  rewrite lz13_bare by (intro; discriminate). exact Hr.
Qed.

Theorem cf10_rejects_cf13 mc md x c :
  cf_compress CF13 mc x = Ok c -> cf_decompress CF10 md c = Err EInvalidInput.
Proof.
  intros Hc. cbn [cf_compress cf_decompress] in *.
  destruct (compress13_head mc x c Hc) as (a & b & d & r & ->).
  unfold lz10_decompress. apply lz_unknown_type; intro; discriminate.
Qed.
