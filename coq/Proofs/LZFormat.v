(* CompressionFormat (src/compression_format.rs): the enum's compress / decompress are the entry points
   of the variant (compression_format.rs:20-25, 27-32), hence decompress . compress = id through the enum
   for both variants - the empty payload included - and what happens when the two formats are crossed. *)
From Coq Require Import List NArith Arith Lia Bool.
From Mila Require Import Lib.Bytes Lib.Machine Model.LZCore Model.LZ10 Model.LZ11 Model.LZSpec Model.LZDecode
  Proofs.LZ10Proofs Proofs.LZ11Proofs Proofs.LZDecodeProofs Proofs.LZRoundTrip.
Import ListNotations.
Local Open Scope N_scope.

Theorem cf_compress_dispatch f m x :
  cf_compress f m x = match f with CF10 => Ok (compress10 x) | CF13 => compress13 m x end.
Proof. reflexivity. Qed.

(* decompress (compress x) = x through the enum, compress in profile mc, decompress in profile md *)
Theorem cf_round_trip f mc md x : wfb x -> lenN x < 2 ^ 24 ->
  exists c, cf_compress f mc x = Ok c /\ cf_decompress f md c = Ok x.
Proof.
  intros Hw Hn. destruct f; cbn [cf_compress cf_decompress].
  - eexists. split; [reflexivity|]. apply compress10_round_trip; assumption.
  - destruct x as [|b x].
    + apply compress13_empty_round_trip.
    + destruct (compress13_round_trip mc (b :: x) ltac:(discriminate) Hw Hn) as (c & Hc & Hd). eauto.
Qed.

(* the head of what the two compressors write *)
Lemma compress10_head x : exists r, compress10 x = 0x10 :: r.
Proof. rewrite compress10_enc. cbn [header10 app]. eauto. Qed.

Lemma compress13_head m x c : lenN x < 2 ^ 63 -> compress13 m x = Ok c ->
  exists a b d r, c = 0x13 :: a :: b :: d :: 0x11 :: r.
Proof.
  intros Hn Hc. destruct (compress13_enc m x Hn) as [h Hh]. rewrite Hh in Hc. injection Hc as <-.
  unfold header13, le24. cbn [app]. eauto 8.
Qed.

(* crossing the formats.  The LZ13 entry point passes a bare LZ10 stream through, so a file written by the
   LZ10 format is read back by the LZ13 format; the LZ10 entry point rejects the 0x13 wrapper. *)
Theorem cf13_reads_cf10 mc md x : wfb x -> lenN x < 2 ^ 24 ->
  exists c, cf_compress CF10 mc x = Ok c /\ cf_decompress CF13 md c = Ok x.
Proof.
  intros Hw Hn. cbn [cf_compress cf_decompress]. eexists. split; [reflexivity|].
  pose proof (compress10_round_trip x Hw Hn md) as Hr. unfold lz10_decompress in Hr.
  destruct (compress10_head x) as [r Hr0]. rewrite Hr0 in *.
  destruct r as [|a [|b [|d r]]]; try (rewrite (lz_short md) in Hr by (cbn [length]; lia); discriminate).
  rewrite lz13_bare by (intro; discriminate). exact Hr.
Qed.

Theorem cf10_rejects_cf13 mc md x c : lenN x < 2 ^ 63 ->
  cf_compress CF13 mc x = Ok c -> cf_decompress CF10 md c = Err EInvalidInput.
Proof.
  intros Hn Hc. cbn [cf_compress cf_decompress] in *.
  destruct (compress13_head mc x c Hn Hc) as (a & b & d & r & ->).
  unfold lz10_decompress. apply lz_unknown_type; intro; discriminate.
Qed.
