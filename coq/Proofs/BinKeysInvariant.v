(* C03: every annotation key is at most the size after EVERY history of API calls (no alignment assumption) - the fact that
   makes the key additions of allocate (`pointer + count` on cells, label addresses, c-string cells) exact usize arithmetic. *)
From Coq Require Import List NArith ZArith Bool Lia ZifyBool ZifyNat ZifyN.
From Mila Require Import Lib.Bytes Lib.Machine Model.BinArchive Proofs.AMapLemmas Proofs.BinAccess Proofs.BinRelocate Proofs.BinInvariant.
Import ListNotations.
Local Open Scope N_scope.
Ltac Zify.zify_post_hook ::= Z.div_mod_to_equations.

Lemma keys_same_size a a' :
  size a' = size a -> am_keys (a_text a') = am_keys (a_text a) -> am_keys (a_ptrs a') = am_keys (a_ptrs a) ->
  am_keys (a_labels a') = am_keys (a_labels a) -> a_cstrs a' = a_cstrs a -> keys_le_size a -> keys_le_size a'.
Proof. unfold keys_le_size. intros -> -> -> -> ->. tauto. Qed.

Lemma keys_step a o : keys_le_size a -> keys_le_size (bstep a o).
Proof.
  intros Hwf. unfold bstep. destruct (run_op a o) as [a'|e|k] eqn:E; try exact Hwf.
  destruct Hwf as (Ht & Hp & Hl & Hc).
  destruct o; cbn [run_op] in *.
  - (* allocate *)
    destruct (allocate_spec _ _ _ _ _ E) as (_ & Hs & _ & Kt & _ & Kp & _ & Kl & Kc & _).
    unfold keys_le_size. rewrite Kt, Kp, Kl, Kc, Hs. repeat split.
    + rewrite Forall_map. eapply Forall_impl; [|exact Ht]. unfold kappa. intros k H1. destruct (N.leb_spec addr k); lia.
    + rewrite Forall_map. eapply Forall_impl; [|exact Hp]. unfold kappa. intros k H1. destruct (N.leb_spec addr k); lia.
    + rewrite Forall_map. eapply Forall_impl; [|exact Hl]. unfold tau. intros k H1. destruct (orb _ _); lia.
    + rewrite Forall_map. eapply Forall_impl; [|exact Hc]. intros [s cells] H. cbn [snd] in *. rewrite Forall_map.
      eapply Forall_impl; [|exact H]. unfold kappa. intros k H1. destruct (N.leb_spec addr k); lia.
  - (* allocate_at_end *)
    inversion E; subst a'. unfold keys_le_size, allocate_at_end, size in *. cbn [set_data a_data a_text a_ptrs a_labels a_cstrs].
    rewrite lenN_app. repeat split.
    + eapply Forall_impl; [|exact Ht]. cbn. intros; lia.
    + eapply Forall_impl; [|exact Hp]. cbn. intros; lia.
    + eapply Forall_impl; [|exact Hl]. cbn. intros; lia.
    + eapply Forall_impl; [|exact Hc]. intros q H. eapply Forall_impl; [|exact H]. cbn. intros; lia.
  - (* deallocate *)
    destruct (deallocate_accepted _ _ _ _ _ E) as (A1 & A2 & A3 & A4).
    destruct (deallocate_spec _ _ _ _ _ E) as (_ & Hs & _ & Kt & Kp & _ & Kl & Kc & _).
    assert (Hback : forall k, k <= size a -> negb (in_range addr n k) = true -> back addr n k <= size a').
    { unfold back, in_range. intros k H2 H3.
      destruct (N.leb_spec addr k); destruct (N.ltb_spec k (addr + n)); cbn [andb negb] in H3; try discriminate; lia. }
    unfold keys_le_size. rewrite Kt, Kl, Kc. repeat split.
    + rewrite Forall_map. rewrite Forall_forall in *. intros k Hk. apply filter_In in Hk. destruct Hk. auto.
    + rewrite Kp. unfold am_keys. rewrite map_map. cbn [fst]. rewrite Forall_map. rewrite Forall_forall in *.
      intros [k v] Hk. apply filter_In in Hk. destruct Hk as [Hin Hf]. cbn [fst snd] in *.
      apply Hback; [apply Hp; unfold am_keys; apply in_map_iff; exists (k, v); auto|].
      destruct (in_range addr n k); [discriminate | reflexivity].
    + rewrite Forall_map. rewrite Forall_forall in *. intros k Hk. apply filter_In in Hk. destruct Hk as [Hin Hf].
      specialize (Hl k Hin). unfold backl, in_range in *.
      destruct (N.leb_spec addr k); destruct (N.ltb_spec k (addr + n)); cbn [andb negb] in Hf; try discriminate;
        destruct (N.ltb_spec addr k); destruct (N.eqb_spec addr k); destruct ge; cbn [orb andb]; lia.
    + rewrite Forall_map.
      assert (G := filter_cstrs_forall (fun k => negb (in_range addr n k)) (a_cstrs a) (fun k => k <= size a)
                     (fun k => back addr n k <= size a') (fun k H1 H2 => Hback k H1 H2) Hc).
      eapply Forall_impl; [|exact G]. intros [s cells] H. cbn [snd] in *. rewrite Forall_map. exact H.
  - (* truncate *)
    destruct (truncate_spec _ _ _ E) as [T1 T2]. destruct (N.leb_spec (size a) addr) as [Hge|Hlt].
    { rewrite (T1 Hge). unfold keys_le_size. tauto. }
    destruct (T2 Hlt) as (_ & Hs & _ & _ & _ & Kc & _).
    unfold truncate in E. destruct (N.leb_spec (size a) addr); [lia|]. inversion E; subst a'.
    unfold keys_le_size, size in *. cbn [a_data a_text a_ptrs a_labels a_cstrs] in *. rewrite Hs.
    rewrite !am_keys_filter_keys. repeat split.
    + rewrite Forall_forall in *. intros k Hk. apply filter_In in Hk. destruct Hk as [Hin Hf]. lia.
    + rewrite Forall_forall in *. intros k Hk. apply filter_In in Hk. destruct Hk as [Hin Hf]. lia.
    + rewrite Forall_forall in *. intros k Hk. apply filter_In in Hk. destruct Hk as [Hin Hf]. lia.
    + apply (filter_cstrs_forall (fun k => k <? addr) (a_cstrs a) (fun k => k <= lenN (a_data a))); [|exact Hc].
      intros k H1 H3. lia.
  - (* write_bytes *)
    destruct (write_bytes_local _ _ _ _ E) as (_ & Hs & (E1 & E2 & E3 & E4 & _)).
    eapply keys_same_size; try eassumption; try congruence. unfold keys_le_size; tauto.
  - (* write_string *)
    destruct v as [s|].
    + revert E. unfold write_string. rewrite check_cell_spec. destruct (inside a addr 4) eqn:Hin; cbn [bind]; [|discriminate].
      intros E; inversion E; subst a'. apply inside_true in Hin.
      unfold keys_le_size, size in *. cbn [set_text a_data a_text a_ptrs a_labels a_cstrs]. repeat split; try assumption.
      eapply Forall_incl; [apply am_keys_set|]. constructor; [lia | exact Ht].
    + revert E. unfold write_string, delete_string. rewrite check_cell_spec. destruct (inside a addr 4); cbn [bind]; [|discriminate].
      intros E; inversion E; subst a'.
      unfold keys_le_size, size in *. cbn [set_text a_data a_text a_ptrs a_labels a_cstrs]. repeat split; try assumption.
      eapply Forall_incl; [apply am_keys_del_incl | exact Ht].
  - (* write_pointer *)
    destruct v as [s|].
    + revert E. unfold write_pointer. rewrite check_cell_spec. destruct (inside a addr 4) eqn:Hin; cbn [bind]; [|discriminate].
      intros E; inversion E; subst a'. apply inside_true in Hin.
      unfold keys_le_size, size in *. cbn [set_ptrs a_data a_text a_ptrs a_labels a_cstrs]. repeat split; try assumption.
      eapply Forall_incl; [apply am_keys_set|]. constructor; [lia | exact Hp].
    + revert E. unfold write_pointer, delete_pointer. rewrite check_cell_spec. destruct (inside a addr 4); cbn [bind]; [|discriminate].
      intros E; inversion E; subst a'.
      unfold keys_le_size, size in *. cbn [set_ptrs a_data a_text a_ptrs a_labels a_cstrs]. repeat split; try assumption.
      eapply Forall_incl; [apply am_keys_del_incl | exact Hp].
  - (* write_c_string *)
    revert E. unfold write_c_string. rewrite check_cell_spec. destruct (inside a addr 4) eqn:Hin; cbn [bind]; [|discriminate].
    intros E; inversion E; subst a'. apply inside_true in Hin.
    unfold keys_le_size, size in *. cbn [set_cstrs a_data a_text a_ptrs a_labels a_cstrs]. repeat split; try assumption.
    apply cs_push_cells; [lia | exact Hc].
  - (* write_label *)
    revert E. unfold write_label. rewrite validate_address_true. destruct (N.leb_spec addr (size a)); cbn [bind]; [|discriminate].
    intros E. assert (Ha' : exists b, a' = set_labels a (am_set addr b (a_labels a))).
    { destruct (am_get addr (a_labels a)); inversion E; eauto. }
    destruct Ha' as (b & ->).
    unfold keys_le_size, size in *. cbn [set_labels a_data a_text a_ptrs a_labels a_cstrs]. repeat split; try assumption.
    eapply Forall_incl; [apply am_keys_set|]. constructor; [assumption | exact Hl].
  - (* write_labels *)
    revert E. unfold write_labels. rewrite validate_address_true. destruct (N.leb_spec addr (size a)); cbn [bind]; [|discriminate].
    intros E; inversion E; subst a'.
    unfold keys_le_size, size in *. cbn [set_labels a_data a_text a_ptrs a_labels a_cstrs]. repeat split; try assumption.
    eapply Forall_incl; [apply am_keys_set|]. constructor; [assumption | exact Hl].
  - (* delete_labels *)
    revert E. unfold delete_labels. rewrite check_cell_spec. destruct (inside a addr 4); cbn [bind]; [|discriminate].
    intros E; inversion E; subst a'.
    unfold keys_le_size, size in *. cbn [set_labels a_data a_text a_ptrs a_labels a_cstrs]. repeat split; try assumption.
    eapply Forall_incl; [apply am_keys_del_incl | exact Hl].
  - (* delete_label *)
    revert E. unfold delete_label. rewrite check_cell_spec. destruct (inside a addr 4) eqn:Hin; cbn [bind]; [|discriminate].
    destruct (am_get addr (a_labels a)) as [b|] eqn:G; [|intros E; inversion E; subst a'; unfold keys_le_size; tauto].
    destruct (i <? _); intros E; inversion E; subst a'.
    unfold keys_le_size, size in *. cbn [set_labels a_data a_text a_ptrs a_labels a_cstrs]. repeat split; try assumption.
    eapply Forall_incl; [apply am_keys_set|]. constructor; [|exact Hl].
    apply am_get_some_key in G. rewrite Forall_forall in Hl. apply Hl. exact G.
Qed.

(* no hypothesis on the operations: any addresses, any alignment, accepted or rejected *)
Theorem history_keys_invariant e ops : keys_le_size (fold_left bstep ops (ba_new e)).
Proof.
  assert (G : forall l a, keys_le_size a -> keys_le_size (fold_left bstep l a)).
  { induction l as [|o r IH]; intros a Hwf; cbn [fold_left]; [exact Hwf|]. apply IH. apply keys_step. exact Hwf. }
  apply G. unfold keys_le_size. cbn. repeat split; constructor.
Qed.
