(* C20: input whose first four bytes are not the magic number is rejected (BCH, CGFX, TPL);
   input shorter than a magic number is rejected as well. *)
From Coq Require Import List NArith Bool.
From Mila Require Import Lib.Bytes Lib.Machine Model.TexCommon Model.Bch Model.Cgfx Model.Tpl.
Import ListNotations.
Local Open Scope N_scope.

Lemma bch_bad_magic m f v : u32_at LE f 0 = Some v -> v <> BCH_MAGIC -> read_bch m f = Err EBadMagic.
Proof.
  intros H Hv. unfold read_bch, bch_read_header, rd32. rewrite H. cbn [of_option bind].
  destruct (N.eqb_spec v BCH_MAGIC) as [E|_]; [contradiction|]. reflexivity.
Qed.
Lemma cgfx_bad_magic m f v : u32_at LE f 0 = Some v -> v <> CGFX_MAGIC -> read_cgfx m f = Err EBadMagic.
Proof.
  intros H Hv. unfold read_cgfx, read_cgfx_g, cgfx_header, rd32. rewrite H. cbn [of_option bind].
  destruct (N.eqb_spec v CGFX_MAGIC) as [E|_]; [contradiction|]. reflexivity.
Qed.
Lemma tpl_bad_magic m f v : u32_at BE f 0 = Some v -> v <> TPL_MAGIC -> read_tpl m f = Err EBadMagic.
Proof.
  intros H Hv. unfold read_tpl, tpl_parse, rd32. rewrite H. cbn [of_option bind].
  destruct (N.eqb_spec v TPL_MAGIC) as [E|_]; [contradiction|]. reflexivity.
Qed.

Lemma bch_no_magic m f : u32_at LE f 0 = None -> read_bch m f = Err EIo.
Proof. intros H. unfold read_bch, bch_read_header, rd32. rewrite H. reflexivity. Qed.
Lemma cgfx_no_magic m f : u32_at LE f 0 = None -> read_cgfx m f = Err EIo.
Proof. intros H. unfold read_cgfx, read_cgfx_g, cgfx_header, rd32. rewrite H. reflexivity. Qed.
Lemma tpl_no_magic m f : u32_at BE f 0 = None -> read_tpl m f = Err EIo.
Proof. intros H. unfold read_tpl, tpl_parse, rd32. rewrite H. reflexivity. Qed.

(* every input that does not start with the magic number is rejected *)
Lemma bad_magic_rejected :
  (forall m f, u32_at LE f 0 <> Some BCH_MAGIC -> exists e, read_bch m f = Err e) /\
  (forall m f, u32_at LE f 0 <> Some CGFX_MAGIC -> exists e, read_cgfx m f = Err e) /\
  (forall m f, u32_at BE f 0 <> Some TPL_MAGIC -> exists e, read_tpl m f = Err e).
Proof.
  split; [|split]; intros m f H.
  - destruct (u32_at LE f 0) as [v|] eqn:E; [exists EBadMagic; apply (bch_bad_magic m f v E); congruence | exists EIo; apply bch_no_magic, E].
  - destruct (u32_at LE f 0) as [v|] eqn:E; [exists EBadMagic; apply (cgfx_bad_magic m f v E); congruence | exists EIo; apply cgfx_no_magic, E].
  - destruct (u32_at BE f 0) as [v|] eqn:E; [exists EBadMagic; apply (tpl_bad_magic m f v E); congruence | exists EIo; apply tpl_no_magic, E].
Qed.
