(* C04 (review r1, C04-1/2/3): stream block writes and reads in closed form (success, failure, cursor, empty block),
   accept conditions of the annotation writers / deleters, the byte order of the codec pinned against the base-256 digits. *)
From Coq Require Import List NArith ZArith Bool Lia ZifyBool ZifyNat ZifyN.
From Mila Require Import Lib.Bytes Lib.BytesExtra Lib.Machine Model.BinArchive Model.BinStreams Proofs.BinAccess Proofs.BinAccess2.
Import ListNotations.
Local Open Scope N_scope.
Ltac Zify.zify_post_hook ::= Z.div_mod_to_equations.

(* ------------------------------------------------------------------ byte order *)
(* independent of [enc]'s recursion: byte i of the little-endian form is digit i of v in base 256; the big-endian form
   has digit w-1-i at position i (most significant byte at the lowest address) *)
Lemma enc_le_nth : forall (w : nat) v (i : nat), (i < w)%nat -> nth i (enc_le w v) 0 = (v / 256 ^ N.of_nat i) mod 256.
Proof.
  induction w as [|w IH]; intros v i Hi; [lia|]. cbn [enc_le]. destruct i as [|i]; cbn [nth].
  - change (N.of_nat 0) with 0. rewrite N.pow_0_r, N.div_1_r. reflexivity.
  - rewrite IH by lia. rewrite Nat2N.inj_succ, N.pow_succ_r', N.div_div by lia. reflexivity.
Qed.
Theorem enc_digits e (w : nat) v (i : nat) : (i < w)%nat ->
  nth i (enc e w v) 0 = (v / 256 ^ N.of_nat (match e with LE => i | BE => w - 1 - i end)) mod 256.
Proof.
  intros Hi. destruct e; cbn [enc]; [apply enc_le_nth; exact Hi|].
  rewrite rev_nth by (rewrite length_enc_le; exact Hi). rewrite length_enc_le.
  replace (w - S i)%nat with (w - 1 - i)%nat by lia. apply enc_le_nth. lia.
Qed.
Theorem enc_be_is_rev_le (w : nat) v : enc BE w v = rev (enc LE w v).
Proof. reflexivity. Qed.
Theorem enc_u32_bytes v :
  enc LE 4 v = [v mod 256; v / 256 mod 256; v / 65536 mod 256; v / 16777216 mod 256] /\
  enc BE 4 v = [v / 16777216 mod 256; v / 65536 mod 256; v / 256 mod 256; v mod 256].
Proof. cbn [enc enc_le rev app]. rewrite !N.div_div by lia. split; reflexivity. Qed.
Theorem enc_u16_bytes v :
  enc LE 2 v = [v mod 256; v / 256 mod 256] /\ enc BE 2 v = [v / 256 mod 256; v mod 256].
Proof. cbn [enc enc_le rev app]. split; reflexivity. Qed.

(* ------------------------------------------------------------------ accept conditions of annotation writes / deletes *)
Theorem write_string_spec a address v :
  write_string a address v =
    if inside a address 4
    then Ok (set_text a (match v with Some s => am_set address s (a_text a) | None => am_del address (a_text a) end))
    else Err EOob.
Proof. destruct v; unfold write_string, delete_string; rewrite check_cell_spec; destruct (inside a address 4); reflexivity. Qed.
Theorem write_pointer_spec a address v :
  write_pointer a address v =
    if inside a address 4
    then Ok (set_ptrs a (match v with Some p => am_set address p (a_ptrs a) | None => am_del address (a_ptrs a) end))
    else Err EOob.
Proof. destruct v; unfold write_pointer, delete_pointer; rewrite check_cell_spec; destruct (inside a address 4); reflexivity. Qed.
Theorem write_c_string_spec a address s :
  write_c_string a address s = if inside a address 4 then Ok (set_cstrs a (cs_push s address (a_cstrs a))) else Err EOob.
Proof. unfold write_c_string; rewrite check_cell_spec; destruct (inside a address 4); reflexivity. Qed.
Theorem delete_string_spec a address :
  delete_string a address = if inside a address 4 then Ok (set_text a (am_del address (a_text a))) else Err EOob.
Proof. unfold delete_string; rewrite check_cell_spec; destruct (inside a address 4); reflexivity. Qed.
Theorem delete_pointer_spec a address :
  delete_pointer a address = if inside a address 4 then Ok (set_ptrs a (am_del address (a_ptrs a))) else Err EOob.
Proof. unfold delete_pointer; rewrite check_cell_spec; destruct (inside a address 4); reflexivity. Qed.
Theorem delete_labels_spec a address :
  delete_labels a address = if inside a address 4 then Ok (set_labels a (am_del address (a_labels a))) else Err EOob.
Proof. unfold delete_labels; rewrite check_cell_spec; destruct (inside a address 4); reflexivity. Qed.
Theorem delete_label_spec a address index :
  delete_label a address index =
    if inside a address 4
    then match am_get address (a_labels a) with
         | Some bucket => if index <? N.of_nat (length bucket)
                          then Ok (set_labels a (am_set address (remove_nth (N.to_nat index) bucket) (a_labels a)))
                          else Err ELabelIndex
         | None => Ok a
         end
    else Err EOob.
Proof. unfold delete_label; rewrite check_cell_spec; destruct (inside a address 4); reflexivity. Qed.
(* labels may sit on any address up to and including the end *)
Theorem write_labels_spec a address ls :
  write_labels a address ls = if address <=? size a then Ok (set_labels a (am_set address ls (a_labels a))) else Err EOob.
Proof. unfold write_labels; rewrite validate_address_true; destruct (address <=? size a); reflexivity. Qed.
Theorem write_label_spec a address l :
  write_label a address l =
    if address <=? size a
    then Ok (set_labels a (am_set address (match am_get address (a_labels a) with Some b => b ++ [l] | None => [l] end) (a_labels a)))
    else Err EOob.
Proof.
  unfold write_label; rewrite validate_address_true; destruct (address <=? size a); cbn [bind]; [|reflexivity].
  destruct (am_get address (a_labels a)); reflexivity.
Qed.

(* ------------------------------------------------------------------ stream read_bytes, closed form *)
Lemma read_u8_cases a pos :
  (pos < size a /\ exists v, read_u8 a pos = Ok v /\ nth_error (a_data a) (N.to_nat pos) = Some v) \/
  (size a <= pos /\ read_u8 a pos = Err EOob).
Proof.
  destruct (N.ltb_spec pos (size a)) as [H|H].
  - left. split; [exact H|]. destruct (proj2 (read_u8_ok_iff a pos) H) as [v Ev]. exists v. split; [exact Ev|].
    exact (proj2 (read_u8_value a pos v Ev)).
  - right. split; [exact H|]. apply read_u8_outside. lia.
Qed.

Lemma r_read_bytes_loop_closed : forall n a pos acc,
  r_read_bytes_loop n a pos acc =
    if N.of_nat n <=? size a - pos
    then (Ok (rev acc ++ firstn n (skipn (N.to_nat pos) (a_data a))), pos + N.of_nat n)
    else (Err EOob, pos + (size a - pos)).
Proof.
  induction n as [|n IH]; intros a pos acc; cbn [r_read_bytes_loop].
  - change (N.of_nat 0) with 0. destruct (N.leb_spec 0 (size a - pos)); [|lia]. cbn [firstn]. rewrite app_nil_r, N.add_0_r. reflexivity.
  - unfold r_read_u8. rewrite rd_spec. destruct (read_u8_cases a pos) as [(Hlt & v & Ev & Hnth)|(Hge & Ev)]; rewrite Ev; cbn [is_ok].
    + rewrite IH. destruct (N.leb_spec (N.of_nat n) (size a - (pos + 1))); destruct (N.leb_spec (N.of_nat (S n)) (size a - pos)); try lia.
      * f_equal; [|lia]. f_equal. cbn [rev]. rewrite <- app_assoc. cbn [app]. f_equal.
        rewrite (firstn_skipn_S _ _ n v Hnth). f_equal. f_equal. f_equal. lia.
      * f_equal. lia.
    + destruct (N.leb_spec (N.of_nat (S n)) (size a - pos)); [lia|]. f_equal. lia.
Qed.

(* count <= the bytes left: the block and cursor + count; otherwise out of bounds with the cursor at the end of the data
   (or where it was when it already stood beyond the end): the bytes read before the failing one have been consumed *)
Theorem r_read_bytes_spec a pos count :
  r_read_bytes a pos count =
    if count <=? size a - pos
    then (Ok (firstn (N.to_nat count) (skipn (N.to_nat pos) (a_data a))), pos + count)
    else (Err EOob, pos + (size a - pos)).
Proof.
  unfold r_read_bytes. rewrite r_read_bytes_loop_closed. rewrite N2Nat.id. cbn [rev app].
  destruct (N.leb_spec count (size a - pos)).
  - assert (E : N.min count (size a + 1) = count) by lia. rewrite E.
    destruct (N.leb_spec count (size a - pos)); [reflexivity | lia].
  - destruct (N.leb_spec (N.min count (size a + 1)) (size a - pos)); [lia | reflexivity].
Qed.
(* converse of r_read_bytes_positional: whenever the positional block read succeeds, the stream read is the same block *)
Theorem r_read_bytes_complete a pos count bs :
  read_bytes a pos count = Ok bs -> r_read_bytes a pos count = (Ok bs, pos + count).
Proof.
  intros H. assert (Hin : pos < size a /\ pos + count <= size a).
  { destruct (N.ltb_spec pos (size a)) as [H1|H1]; destruct (N.leb_spec (pos + count) (size a)) as [H2|H2]; try (split; assumption);
      rewrite read_bytes_outside in H by lia; discriminate. }
  apply read_bytes_value in H. unfold sliceN in H. destruct (pos + count <=? lenN (a_data a)); [|discriminate]. inversion H; subst bs.
  rewrite r_read_bytes_spec. destruct (N.leb_spec count (size a - pos)); [reflexivity | lia].
Qed.
Theorem r_read_bytes_fail a pos count :
  1 <= count -> size a < pos + count -> r_read_bytes a pos count = (Err EOob, N.max pos (size a)).
Proof.
  intros H1 H. rewrite r_read_bytes_spec. destruct (N.leb_spec count (size a - pos)); [lia|]. f_equal. lia.
Qed.
(* the empty block: the stream reads nothing and succeeds wherever the cursor stands; the positional call validates its
   address first and fails at or beyond the end *)
Theorem r_read_bytes_zero a pos :
  r_read_bytes a pos 0 = (Ok [], pos) /\ (size a <= pos -> read_bytes a pos 0 = Err EOob).
Proof.
  split.
  - rewrite r_read_bytes_spec. destruct (N.leb_spec 0 (size a - pos)); [|lia]. cbn [N.to_nat firstn]. rewrite N.add_0_r. reflexivity.
  - intros H. apply read_bytes_outside. lia.
Qed.

(* ------------------------------------------------------------------ stream write_bytes, closed form *)
Lemma patched_nil d pos : patched d pos [] = d.
Proof. unfold patched. change (lenN []) with 0. rewrite N.add_0_r. cbn [app]. apply firstn_skipn. Qed.
Lemma set_data_same a : set_data a (a_data a) = a.
Proof. destruct a; reflexivity. Qed.
Lemma patch_after_byte (A B : bytes) b xs :
  firstn (S (length A)) (A ++ b :: B) ++ xs ++ skipn (S (length A) + length xs) (A ++ b :: B) = A ++ (b :: xs) ++ skipn (length xs) B.
Proof.
  rewrite firstn_app, skipn_app.
  rewrite firstn_all2 by lia. rewrite skipn_all2 by lia.
  replace (S (length A) - length A)%nat with 1%nat by lia.
  replace (S (length A) + length xs - length A)%nat with (S (length xs)) by lia.
  cbn [firstn skipn app]. rewrite <- app_assoc. reflexivity.
Qed.
Lemma skipn_skipn' {A} (x y : nat) (l : list A) : skipn x (skipn y l) = skipn (y + x) l.
Proof. revert l; induction y as [|y IH]; intros l; [reflexivity|]. destruct l; [destruct x; reflexivity|]. cbn [skipn Nat.add]. apply IH. Qed.
Lemma patched_cons d pos b xs :
  pos < lenN d -> pos + 1 + lenN xs <= lenN d ->
  patched (patched d pos [b]) (pos + 1) xs = patched d pos (b :: xs).
Proof.
  intros H1 H2. unfold patched. change (lenN [b]) with 1. cbn [app].
  set (A := firstn (N.to_nat pos) d). set (B := skipn (N.to_nat (pos + 1)) d).
  assert (LA : length A = N.to_nat pos) by (unfold A; rewrite firstn_length; unfold lenN in *; lia).
  replace (N.to_nat (pos + 1)) with (S (length A)) by lia.
  replace (N.to_nat (pos + 1 + lenN xs)) with (S (length A) + length xs)%nat by (unfold lenN; lia).
  rewrite patch_after_byte. f_equal. cbn [app]. f_equal. f_equal.
  unfold B. rewrite skipn_skipn'. f_equal. rewrite lenN_cons. unfold lenN. lia.
Qed.

(* bs fits behind the cursor: everything written, cursor + |bs|; otherwise out of bounds, and the bytes that did fit HAVE
   been written (successive byte writes: a failing block write is not atomic), cursor at the end of the data *)
Theorem w_write_bytes_spec : forall bs a pos,
  w_write_bytes a pos bs =
    (if lenN bs <=? size a - pos then Ok tt else Err EOob,
     set_data a (patched (a_data a) pos (firstn (N.to_nat (N.min (lenN bs) (size a - pos))) bs)),
     pos + N.min (lenN bs) (size a - pos)).
Proof.
  induction bs as [|b r IH]; intros a pos; cbn [w_write_bytes].
  - change (lenN []) with 0. destruct (N.leb_spec 0 (size a - pos)); [|lia].
    replace (N.min 0 (size a - pos)) with 0 by lia. cbn [N.to_nat firstn]. rewrite patched_nil, set_data_same, N.add_0_r. reflexivity.
  - unfold w_write_u8. rewrite wr_spec, write_u8_spec. destruct (N.ltb_spec pos (size a)) as [Hlt|Hge]; cbn [unit_of arch_of is_ok].
    + rewrite IH. clear IH.
      assert (Hs : size (set_data a (patched (a_data a) pos [b])) = size a).
      { unfold size. cbn [set_data a_data]. apply patched_length. change (lenN [b]) with 1. unfold size in Hlt. lia. }
      rewrite Hs. rewrite lenN_cons.
      set (k' := N.min (lenN r) (size a - (pos + 1))).
      assert (Ek : N.min (1 + lenN r) (size a - pos) = 1 + k') by (unfold k'; lia). rewrite Ek.
      f_equal; [f_equal|].
      * destruct (N.leb_spec (lenN r) (size a - (pos + 1))); destruct (N.leb_spec (1 + lenN r) (size a - pos)); try reflexivity; lia.
      * replace (N.to_nat (1 + k')) with (S (N.to_nat k')) by lia. cbn [firstn].
        transitivity (set_data a (patched (patched (a_data a) pos [b]) (pos + 1) (firstn (N.to_nat k') r))); [reflexivity|].
        f_equal. apply patched_cons; [unfold size in Hlt; exact Hlt|].
        rewrite lenN_firstn by (unfold k'; lia). unfold size in *. unfold k'. lia.
      * lia.
    + rewrite lenN_cons. destruct (N.leb_spec (1 + lenN r) (size a - pos)); [lia|].
      replace (N.min (1 + lenN r) (size a - pos)) with 0 by lia. cbn [N.to_nat firstn]. rewrite patched_nil, set_data_same, N.add_0_r. reflexivity.
Qed.

(* a non-empty block: the stream write succeeds exactly when the positional write at the cursor does, with the same archive,
   and advances by the length *)
Theorem w_write_bytes_ok_iff a pos bs a' p :
  bs <> [] ->
  (w_write_bytes a pos bs = (Ok tt, a', p) <-> write_bytes a pos bs = Ok a' /\ p = pos + lenN bs).
Proof.
  intros Hne. assert (H1 : 1 <= lenN bs) by (destruct bs; [congruence | rewrite lenN_cons; lia]).
  rewrite w_write_bytes_spec, write_bytes_spec. unfold inside.
  destruct (N.leb_spec (lenN bs) (size a - pos)) as [Hle|Hgt].
  - replace (N.min (lenN bs) (size a - pos)) with (lenN bs) by lia.
    replace (N.to_nat (lenN bs)) with (length bs) by (unfold lenN; lia). rewrite firstn_all.
    destruct (N.ltb_spec pos (size a)); [|lia]. destruct (N.leb_spec (pos + lenN bs) (size a)); [|lia]. cbn [andb].
    split; [intros E; inversion E; split; reflexivity | intros [E ->]; inversion E; reflexivity].
  - split; [discriminate|]. intros [E _].
    destruct (N.ltb_spec pos (size a)); destruct (N.leb_spec (pos + lenN bs) (size a)); cbn [andb] in E; try discriminate; lia.
Qed.
Theorem w_write_bytes_fail a pos bs :
  bs <> [] -> size a < pos + lenN bs ->
  w_write_bytes a pos bs =
    (Err EOob, set_data a (patched (a_data a) pos (firstn (N.to_nat (size a - pos)) bs)), N.max pos (size a)).
Proof.
  intros Hne H. assert (H1 : 1 <= lenN bs) by (destruct bs; [congruence | rewrite lenN_cons; lia]). rewrite w_write_bytes_spec. destruct (N.leb_spec (lenN bs) (size a - pos)); [lia|].
  replace (N.min (lenN bs) (size a - pos)) with (size a - pos) by lia. f_equal. lia.
Qed.
Theorem w_write_bytes_never_panics a pos bs k a' p : w_write_bytes a pos bs <> (Panic k, a', p).
Proof. rewrite w_write_bytes_spec. destruct (lenN bs <=? size a - pos); discriminate. Qed.
(* whatever happens, only data bytes change: the annotations are those of the archive passed in *)
Theorem w_write_bytes_annotations a pos bs : same_annotations a (snd (fst (w_write_bytes a pos bs))).
Proof. rewrite w_write_bytes_spec. cbn [fst snd]. unfold same_annotations. cbn. repeat split. Qed.
(* the empty block succeeds wherever the cursor stands; the positional call fails at or beyond the end *)
Theorem w_write_bytes_empty a pos :
  w_write_bytes a pos [] = (Ok tt, a, pos) /\ (size a <= pos -> write_bytes a pos [] = Err EOob).
Proof. split; [reflexivity|]. intros H. apply write_bytes_outside. lia. Qed.

(* ------------------------------------------------------------------ signed stream accessors *)
Theorem r_read_signed_refines a pos :
  r_read_i8 a pos = (read_i8 a pos, if is_ok (read_i8 a pos) then pos + 1 else pos) /\
  r_read_i16 a pos = (read_i16 a pos, if is_ok (read_i16 a pos) then pos + 2 else pos) /\
  r_read_i32 a pos = (read_i32 a pos, if is_ok (read_i32 a pos) then pos + 4 else pos).
Proof.
  unfold r_read_i8, r_read_i16, r_read_i32, r_read_u8, r_read_u16, r_read_u32, read_i8, read_i16, read_i32. rewrite !rd_spec.
  repeat split; [destruct (read_u8 a pos) | destruct (read_u16 a pos) | destruct (read_u32 a pos)]; reflexivity.
Qed.

(* ------------------------------------------------------------------ signed typed accessors: what was written is read back *)
Theorem signed_read_after_write a address a' :
  (forall z, (-128 <= z < 128)%Z -> write_i8 a address z = Ok a' -> read_i8 a' address = Ok z) /\
  (forall z, (-32768 <= z < 32768)%Z -> write_i16 a address z = Ok a' -> read_i16 a' address = Ok z) /\
  (forall z, (-2147483648 <= z < 2147483648)%Z -> write_i32 a address z = Ok a' -> read_i32 a' address = Ok z).
Proof.
  split; [|split]; intros z Hz Hw.
  - destruct (signed_round_trip 8 z ltac:(lia) Hz) as [R B]. unfold write_i8 in Hw. unfold read_i8.
    rewrite (read_after_write_u8 a address (of_signed 8 z) a' B Hw). cbn [bind]. rewrite R. reflexivity.
  - destruct (signed_round_trip 16 z ltac:(lia) Hz) as [R B]. unfold write_i16, write_u16 in Hw. unfold read_i16, read_u16.
    rewrite (read_after_write_uint a address 2 (of_signed 16 z) a' B Hw). cbn [bind]. rewrite R. reflexivity.
  - destruct (signed_round_trip 32 z ltac:(lia) Hz) as [R B]. unfold write_i32, write_u32 in Hw. unfold read_i32, read_u32.
    rewrite (read_after_write_uint a address 4 (of_signed 32 z) a' B Hw). cbn [bind]. rewrite R. reflexivity.
Qed.
(* signed stream writes: the positional signed write at the cursor *)
Theorem w_write_signed_refines a pos z :
  w_write_i8 a pos z = (unit_of (write_i8 a pos z), arch_of (write_i8 a pos z) a, if is_ok (write_i8 a pos z) then pos + 1 else pos) /\
  w_write_i16 a pos z = (unit_of (write_i16 a pos z), arch_of (write_i16 a pos z) a, if is_ok (write_i16 a pos z) then pos + 2 else pos) /\
  w_write_i32 a pos z = (unit_of (write_i32 a pos z), arch_of (write_i32 a pos z) a, if is_ok (write_i32 a pos z) then pos + 4 else pos).
Proof. repeat split; apply wr_spec. Qed.
