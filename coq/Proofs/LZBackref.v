(* C11, negative half (2): a reference that reaches back before the start of the output is an error.
   Stream = header announcing n bytes, then any legal token sequence ts producing fewer than n bytes,
   then a reference whose displacement exceeds what has been produced, then anything. *)
From Coq Require Import List NArith Arith Lia Bool ZifyBool ZifyNat ZifyN.
From Mila Require Import Lib.Bytes Lib.Machine Model.LZCore Model.LZSpec Model.LZDecode
  Proofs.LZBits Proofs.LZCoreProofs Proofs.LZEmitProofs Proofs.LZSpecProofs Proofs.LZDecodeProofs Proofs.LZConforming.
Import ListNotations.
Local Open Scope N_scope.

(* the decoder reads a prefix [g] of a group that the writer wrote, and goes on with the rest of the group *)
Lemma bits_loop_enc_prefix m v : forall g g2 n F rest o prod size,
  (length g + length g2 <= n <= 8)%nat ->
  (forall j, j < N.of_nat n -> N.testbit F j = N.testbit (flag_of (8 - N.of_nat n) (g ++ g2)) j) ->
  valid_from v prod g -> vwf o -> v_len o = N.of_nat prod ->
  N.of_nat (prod + total_len g) <= size -> wfb rest ->
  exists o', vwf o' /\ v_len o' = N.of_nat (prod + total_len g) /\
    (forall j, j < N.of_nat (n - length g) -> N.testbit F j = N.testbit (flag_of (8 - N.of_nat (n - length g)) g2) j) /\
    bits_loop m (is11 v) n F (concat (map (senc v) g) ++ rest) o size
    = bits_loop m (is11 v) (n - length g) F rest o' size.
Proof.
  induction g as [|t r IH]; intros g2 n F rest o prod size Hn HF Hv Hwo Hlen Hle Hwr.
  - exists o. cbn [concat map app length total_len fold_right] in *. rewrite Nat.add_0_r, Nat.sub_0_r.
    split; [exact Hwo|]. split; [exact Hlen|]. split; [exact HF | reflexivity].
  - destruct n as [|n']; [cbn [length] in Hn; lia|].
    pose proof (valid_from_tok_pos v t r prod Hv) as Hpos.
    rewrite total_len_cons in *. cbn [length] in Hn.
    assert (Hbit : N.testbit F (N.of_nat n') = is_ref t).
    { rewrite HF by lia. replace (N.of_nat n') with (7 - (8 - N.of_nat (S n'))) by lia.
      cbn [app]. apply flag_of_head. cbn [length]. rewrite app_length. lia. }
    assert (HF' : forall j, j < N.of_nat n' -> N.testbit F j = N.testbit (flag_of (8 - N.of_nat n') (r ++ g2)) j).
    { intros j Hj. rewrite HF by lia. cbn [app]. rewrite flag_of_tail by lia. do 2 f_equal. lia. }
    cbn [bits_loop]. destruct (N.leb_spec size (v_len o)) as [Hstop|_]; [lia|].
    rewrite N_flag_test, Hbit. cbn [concat map length]. rewrite <- app_assoc.
    replace (S n' - S (length r))%nat with (n' - length r)%nat by lia.
    destruct t as [b|len disp]; cbn [is_ref negb].
    + cbn [senc app next bind]. cbn [valid_from] in Hv. destruct Hv as [Hb Hv]. cbn [tok_len] in *.
      destruct (IH g2 n' F rest (v_push o b) (S prod) size) as (o' & Hw' & Hl' & HF2 & Heq);
        [lia | exact HF' | exact Hv | apply vwf_push; exact Hwo | cbn [v_push v_len]; lia | lia | exact Hwr |].
      exists o'. split; [exact Hw'|]. split; [lia|]. split; [exact HF2 | exact Heq].
    + cbn [valid_from] in Hv. destruct Hv as (Hl & Hd & Hreach & Hv). cbn [tok_len] in *.
      pose proof (stoken_senc v len disp (concat (map (senc v) r) ++ rest) Hl Hd) as Hst.
      destruct (stoken_shape _ _ _ _ _ Hst) as (b0 & b1 & r0 & Hshape).
      rewrite Hshape in *. 
      assert (Hwall : wfb (b0 :: b1 :: r0)).
      { rewrite <- Hshape. apply wfb_app; [eapply (senc_wfb v (Ref len disp) prod []); cbn [valid_from]; auto|].
        apply wfb_app; [eapply wfb_concat_senc; exact Hv | exact Hwr]. }
      destruct (dec_ref_stoken v b0 b1 r0 _ _ _ Hwall Hst) as (Hdr & _ & _ & _).
      cbn [next bind]. rewrite Hdr. cbn [bind].
      destruct (N.leb_spec (v_len o) (N.of_nat disp - 1)) as [Hc|_]; [lia|].
      rewrite (sub_w_ok W64 m (v_len o) (N.of_nat disp - 1)) by lia. cbn [bind].
      rewrite (sub_w_ok W64 m (v_len o - (N.of_nat disp - 1)) 1) by lia. cbn [bind].
      destruct (copy_loop_spec (N.to_nat (N.of_nat len)) o (v_len o - (N.of_nat disp - 1) - 1) Hwo ltac:(lia)) as (o1 & Hc & Hw1 & Hl1 & _).
      rewrite Hc. cbn [bind].
      destruct (IH g2 n' F rest o1 (prod + len)%nat size) as (o' & Hw' & Hl' & HF2 & Heq);
        [lia | exact HF' | exact Hv | exact Hw1 | lia | lia | exact Hwr |].
      exists o'. split; [exact Hw'|]. split; [lia|]. split; [exact HF2 | exact Heq].
Qed.

(* the offending token itself *)
Lemma bits_loop_bad_ref m v k F len disp rest o size :
  N.testbit F (N.of_nat k) = true -> v_len o < size -> v_len o < N.of_nat disp ->
  (3 <= len <= max_len v)%nat -> (1 <= disp <= 4096)%nat -> wfb rest ->
  bits_loop m (is11 v) (S k) F (senc v (Ref len disp) ++ rest) o size = Err EInvalidInput.
Proof.
  intros Hbit Hsz Hbad Hl Hd Hwr. cbn [bits_loop].
  destruct (N.leb_spec size (v_len o)) as [Hc|_]; [lia|].
  rewrite N_flag_test, Hbit. cbn [negb].
  pose proof (stoken_senc v len disp rest Hl Hd) as Hst.
  destruct (stoken_shape _ _ _ _ _ Hst) as (b0 & b1 & r0 & Hshape). rewrite Hshape in *.
  assert (Hwall : wfb (b0 :: b1 :: r0)).
  { rewrite <- Hshape. apply wfb_app; [eapply (senc_wfb v (Ref len disp) (disp) []); cbn [valid_from]; auto | exact Hwr]. }
  destruct (dec_ref_stoken v b0 b1 r0 _ _ _ Hwall Hst) as (Hdr & _ & _ & _).
  cbn [next bind]. rewrite Hdr. cbn [bind].
  destruct (N.leb_spec (v_len o) (N.of_nat disp - 1)) as [_|Hc]; [reflexivity | lia].
Qed.

Section Backref.
Variable m : mode.
Variable v : version.
Variables (len disp : nat).
Hypothesis Hl : (3 <= len <= max_len v)%nat.
Hypothesis Hd : (1 <= disp <= 4096)%nat.

Lemma dec_loop_backref junk size : wfb junk -> forall fuel ts o prod fuel',
  valid_from v prod ts -> vwf o -> v_len o = N.of_nat prod ->
  (prod + total_len ts < disp)%nat -> N.of_nat (prod + total_len ts) < size ->
  (length ts + 1 <= fuel)%nat -> (length ts < fuel')%nat ->
  dec_loop m (is11 v) fuel' (enc_groups (senc v) fuel (ts ++ [Ref len disp]) ++ junk) o size = Err EInvalidInput.
Proof.
  intros Hwj. induction fuel as [|fuel IH]; intros ts o prod fuel' Hv Hwo Hlen Hbad Hsz Hf Hfp; [lia|].
  remember (ts ++ [Ref len disp]) as all eqn:Eall.
  assert (Hall : (length all = length ts + 1)%nat) by (subst all; rewrite app_length; cbn [length]; lia).
  destruct all as [|a0 all']; [cbn [length] in Hall; lia|].
  remember (a0 :: all') as all eqn:Eall2.
  replace (enc_groups (senc v) (S fuel) all)
    with (flag_of 0 (firstn 8 all) :: concat (map (senc v) (firstn 8 all)) ++ enc_groups (senc v) fuel (skipn 8 all))
    by (subst all; reflexivity).
  pose proof (total_len_ge v ts prod Hv) as Hge.
  destruct fuel' as [|f']; [lia|]. cbn [dec_loop app]. rewrite Hlen.
  destruct (N.leb_spec size (N.of_nat prod)) as [Hc|_]; [lia|]. cbn [next bind].
  rewrite <- app_assoc.
  destruct (Nat.le_gt_cases 8 (length ts)) as [Hbig|Hsmall].
  - (* a full group of legal tokens first *)
    assert (Hfirst : firstn 8 all = firstn 8 ts).
    { rewrite Eall. rewrite firstn_app. replace (8 - length ts)%nat with 0%nat by lia. cbn [firstn]. apply app_nil_r. }
    assert (Hskip : skipn 8 all = skipn 8 ts ++ [Ref len disp]).
    { rewrite Eall. rewrite skipn_app. replace (8 - length ts)%nat with 0%nat by lia. reflexivity. }
    rewrite Hfirst, Hskip.
    pose proof (total_len_split ts 8) as Hsplit.
    destruct (bits_loop_enc_prefix m v (firstn 8 ts) [] 8 (flag_of 0 (firstn 8 ts))
                (enc_groups (senc v) fuel (skipn 8 ts ++ [Ref len disp]) ++ junk) o prod size)
      as (o' & Hw' & Hl' & _ & Heq).
    + rewrite firstn_length. cbn [length]. lia.
    + intros j Hj. rewrite app_nil_r. reflexivity.
    + apply valid_from_firstn. exact Hv.
    + exact Hwo.
    + exact Hlen.
    + lia.
    + apply wfb_app; [|exact Hwj].
      apply wfb_enc_groups_gen. apply Forall_app. split.
      * eapply valid_from_senc_wfb. apply valid_from_skipn. exact Hv.
      * constructor; [|constructor]. eapply (senc_wfb v (Ref len disp) disp []). cbn [valid_from]. repeat split; lia.
    + rewrite Heq. rewrite firstn_length. replace (8 - Nat.min 8 (length ts))%nat with 0%nat by lia.
      cbn [bits_loop bind].
      apply (IH (skipn 8 ts) o' (prod + total_len (firstn 8 ts))%nat f').
      * apply valid_from_skipn. exact Hv.
      * exact Hw'.
      * exact Hl'.
      * lia.
      * lia.
      * rewrite skipn_length. lia.
      * rewrite skipn_length. lia.
  - (* the offending reference is in this group *)
    assert (Hfirst : firstn 8 all = ts ++ [Ref len disp]) by (rewrite Eall; apply firstn_all2; rewrite <- Eall; lia).
    assert (Hskip : skipn 8 all = []) by (apply skipn_all2; lia).
    rewrite Hfirst, Hskip, enc_groups_nil. cbn [app].
    rewrite map_app, concat_app. cbn [map concat]. rewrite app_nil_r, <- app_assoc.
    destruct (bits_loop_enc_prefix m v ts [Ref len disp] 8 (flag_of 0 (ts ++ [Ref len disp]))
                (senc v (Ref len disp) ++ junk) o prod size)
      as (o' & Hw' & Hl' & HF2 & Heq).
    + cbn [length]. lia.
    + intros j Hj. reflexivity.
    + exact Hv.
    + exact Hwo.
    + exact Hlen.
    + lia.
    + apply wfb_app; [|exact Hwj]. eapply (senc_wfb v (Ref len disp) disp []). cbn [valid_from]. repeat split; lia.
    + rewrite Heq. replace (8 - length ts)%nat with (S (7 - length ts)) in * by lia.
      rewrite bits_loop_bad_ref; [reflexivity | | lia | lia | exact Hl | exact Hd | exact Hwj].
      rewrite HF2 by lia.
      replace (N.of_nat (7 - length ts)) with (7 - (8 - N.of_nat (S (7 - length ts)))) by lia.
      rewrite flag_of_head; [reflexivity | cbn [length]; lia].
Qed.

Theorem backref_error ext n ts junk :
  valid v ts -> (total_len ts < disp)%nat -> N.of_nat (total_len ts) < n -> size_fits v ext n -> wfb junk ->
  decompress_lz m (sheader v ext n ++ enc_body (senc v) (ts ++ [Ref len disp]) ++ junk) = Err EInvalidInput.
Proof.
  intros Hv Hbad Hn Hfit Hwj.
  assert (Hbody : forall fuel', (length ts < fuel')%nat ->
            dec_loop m (is11 v) fuel' (enc_body (senc v) (ts ++ [Ref len disp]) ++ junk) v_empty n = Err EInvalidInput).
  { intros fuel' Hf. unfold enc_body.
    apply (dec_loop_backref junk n Hwj (length (ts ++ [Ref len disp])) ts v_empty 0%nat fuel'); auto using vwf_empty.
    rewrite app_length. cbn [length]. lia. }
  assert (Hlenb : (length ts < S (length (enc_body (senc v) (ts ++ [Ref len disp]) ++ junk)))%nat).
  { rewrite app_length, enc_body_length. pose proof (concat_senc_length v (ts ++ [Ref len disp])) as Hc.
    rewrite app_length in Hc. cbn [length] in Hc. lia. }
  unfold decompress_lz.
  destruct v; cbn [sheader size_fits is11] in *.
  - change (2 ^ 24) with 16777216 in Hfit. cbn [enc_le app next bind]. change (16 =? 16) with true. cbv beta iota. cbn [bind next].
    rewrite size24 by lia. rewrite Bool.andb_false_r. cbn [bind].
    replace (n mod 256 + 256 * (n / 256 mod 256) + 65536 * (n / 256 / 256 mod 256)) with n by lia.
    rewrite Hbody by exact Hlenb. reflexivity.
  - destruct ext.
    + change (2 ^ 32) with 4294967296 in Hfit. cbn [enc_le app next bind]. change (17 =? 16) with false. change (17 =? 17) with true.
      cbv beta iota. cbn [bind next]. rewrite size24 by lia. change (0 + 256 * 0 + 65536 * 0 =? 0) with true. cbn [andb bind next].
      rewrite size32 by lia.
      replace (n mod 256 + 256 * (n / 256 mod 256) + 65536 * (n / 256 / 256 mod 256) + 16777216 * (n / 256 / 256 / 256 mod 256)) with n by lia.
      rewrite Hbody by exact Hlenb. reflexivity.
    + change (2 ^ 24) with 16777216 in Hfit. cbn [enc_le app next bind]. change (17 =? 16) with false. change (17 =? 17) with true.
      cbv beta iota. cbn [bind next]. rewrite size24 by lia.
      replace (n mod 256 + 256 * (n / 256 mod 256) + 65536 * (n / 256 / 256 mod 256)) with n by lia.
      destruct (N.eqb_spec n 0) as [E|_]; [lia|]. cbn [andb bind].
      rewrite Hbody by exact Hlenb. reflexivity.
Qed.
End Backref.
