(* Text-archive part of C05: TextArchive::from_archive never panics on ANY archive value (also
   ill-formed ones), the fuel of the model's loops is never exhausted (every iteration of the
   walk advances the cursor - by at least 4 from a 4-aligned position - inside a region of
   |data| bytes), and serialize never panics, so everything accepted can be re-serialized. *)
From Coq Require Import List NArith ZArith Bool Lia ZifyBool ZifyNat ZifyN.
From Mila Require Import Lib.Bytes Lib.Machine Model.BinArchive Model.BinStreams Model.BinFormat Model.TextMap Model.TextFormat
  Proofs.BinAccess Proofs.BinAccess2 Proofs.TextFormatRead Proofs.TextFormatWrite.
Import ListNotations.
Local Open Scope N_scope.
Ltac Zify.zify_post_hook ::= Z.div_mod_to_equations.

Definition not_panic {A} (o : outcome A) : Prop := forall k, o <> Panic k.
Definition not_fuel {A} (o : outcome A) : Prop := o <> Err EOutOfFuel.

(* ---------------------------------------------------------------- string loops *)
(* outcome of the Shift-JIS loop: never a panic; with enough fuel never OutOfFuel; on success the cursor moved on *)
Lemma read_sjis_loop_total a : forall fuel pos acc,
  not_panic (fst (read_sjis_loop fuel a pos acc)) /\
  (pos <= size a -> size a < pos + N.of_nat fuel -> not_fuel (fst (read_sjis_loop fuel a pos acc))) /\
  (forall s p, read_sjis_loop fuel a pos acc = (Ok s, p) -> pos + 1 <= p /\ p <= size a).
Proof.
  induction fuel as [|f IH]; intros pos acc; cbn [read_sjis_loop].
  - cbn [fst]. repeat split; try discriminate. intros H1 H2. lia.
  - destruct (r_read_u8_cases a pos) as [(v & E & Hlt)|(E & Hge)]; rewrite E.
    + destruct (v =? 0).
      * cbn [fst]. repeat split; try discriminate; inversion H; subst; lia.
      * destruct (IH (pos + 1) (v :: acc)) as (P & F & S'). repeat split.
        -- exact P.
        -- intros H1 H2. apply F; lia.
        -- apply S' in H. lia.
        -- apply S' in H. lia.
    + cbn [fst]. repeat split; discriminate.
Qed.

Lemma read_utf16_loop_total a : forall fuel pos acc,
  not_panic (fst (read_utf16_loop fuel a pos acc)) /\
  (pos <= size a -> size a < pos + N.of_nat fuel -> not_fuel (fst (read_utf16_loop fuel a pos acc))) /\
  (forall s p, read_utf16_loop fuel a pos acc = (Ok s, p) -> pos + 2 <= p /\ p <= size a).
Proof.
  induction fuel as [|f IH]; intros pos acc; cbn [read_utf16_loop].
  - cbn [fst]. repeat split; try discriminate. intros H1 H2. lia.
  - destruct (r_read_u8_cases a pos) as [(b1 & E1 & Hlt1)|(E1 & Hge1)]; rewrite E1.
    + destruct (r_read_u8_cases a (pos + 1)) as [(b2 & E2 & Hlt2)|(E2 & Hge2)]; rewrite E2.
      * destruct (andb (b1 =? 0) (b2 =? 0)).
        -- cbn [fst]. repeat split; try discriminate; inversion H; subst; lia.
        -- destruct (IH (pos + 1 + 1) ((b1 + 256 * b2) :: acc)) as (P & F & S'). repeat split.
           ++ exact P.
           ++ intros H1 H2. apply F; lia.
           ++ apply S' in H. lia.
           ++ apply S' in H. lia.
      * cbn [fst]. repeat split; discriminate.
    + destruct (r_read_u8_cases a pos) as [(b2 & E2 & Hlt2)|(E2 & Hge2)]; rewrite E2; [lia|].
      cbn [fst]. repeat split; discriminate.
Qed.

(* a message read: no panic; no fuel exhaustion when the string fuel exceeds the data size; on success
   the cursor advanced - from a 4-aligned position by at least 4, to a 4-aligned position *)
Lemma r_read_message_total fmt a sfuel pos :
  not_panic (fst (r_read_message fmt sfuel a pos)) /\
  (pos <= size a -> size a < N.of_nat sfuel -> not_fuel (fst (r_read_message fmt sfuel a pos))) /\
  (forall msg p, r_read_message fmt sfuel a pos = (Ok msg, p) ->
     pos + 1 <= p /\ p mod 4 = 0 /\ (pos mod 4 = 0 -> pos + 4 <= p)).
Proof.
  destruct fmt; cbn [r_read_message].
  - unfold r_read_shift_jis_string. destruct (read_sjis_loop_total a sfuel pos []) as (P & F & S').
    destruct (read_sjis_loop sfuel a pos []) as [[s|e|k] p] eqn:E; cbn [fst] in *.
    + repeat split; try discriminate.
      * inversion H; subst. pose proof (align4_ge p). destruct (S' _ _ eq_refl). lia.
      * inversion H; subst. apply align4_mod.
      * inversion H; subst. intros Hm. pose proof (align4_ge p). pose proof (align4_mod p). destruct (S' _ _ eq_refl). lia.
    + repeat split; try discriminate. intros H1 H2. apply F; lia.
    + exfalso. exact (P k eq_refl).
  - unfold r_read_utf_16_string. destruct (read_utf16_loop_total a sfuel pos []) as (P & F & S').
    destruct (read_utf16_loop sfuel a pos []) as [[s|e|k] p] eqn:E; cbn [fst] in *.
    + destruct (utf16_valid s); cbn [fst]; repeat split; try discriminate.
      * inversion H; subst. pose proof (align4_ge p). destruct (S' _ _ eq_refl). lia.
      * inversion H; subst. apply align4_mod.
      * inversion H; subst. intros Hm. pose proof (align4_ge p). pose proof (align4_mod p). destruct (S' _ _ eq_refl). lia.
    + repeat split; try discriminate. intros H1 H2. apply F; lia.
    + exfalso. exact (P k eq_refl).
Qed.

(* ---------------------------------------------------------------- the walk *)
Lemma read_labels_total a pos : not_panic (read_labels a pos) /\ not_fuel (read_labels a pos).
Proof. rewrite read_labels_spec. destruct (inside a pos 4); split; try intros k; discriminate. Qed.

Lemma walk_no_panic fmt a sfuel : forall fuel pos acc, not_panic (walk fuel sfuel fmt a pos acc).
Proof.
  induction fuel as [|f IH]; intros pos acc; cbn [walk]; [intros k; discriminate|].
  destruct (pos <? size a); [|intros k; discriminate].
  cbn [r_read_labels fst]. destruct (read_labels_total a pos) as [Pl _].
  destruct (read_labels a pos) as [ls|e|k]; cbn [bind]; [| intros k; discriminate | exfalso; exact (Pl k eq_refl)].
  destruct (r_read_message_total fmt a sfuel pos) as (P & _ & _).
  destruct (r_read_message fmt sfuel a pos) as [[msg|e|k] p]; cbn [bind fst] in *;
    [apply IH | intros k; discriminate | exfalso; exact (P k eq_refl)].
Qed.

Lemma walk_fuel fmt a sfuel : size a < N.of_nat sfuel -> forall fuel pos acc,
  (1 <= fuel)%nat -> size a + 1 <= pos + N.of_nat fuel -> not_fuel (walk fuel sfuel fmt a pos acc).
Proof.
  intros Hs. induction fuel as [|f IH]; intros pos acc H1 H2; [lia|]. cbn [walk].
  destruct (N.ltb_spec pos (size a)) as [Hlt|Hge]; [|discriminate].
  cbn [r_read_labels fst]. destruct (read_labels_total a pos) as [_ Fl].
  destruct (read_labels a pos) as [ls|e|k]; cbn [bind]; [| intros C; apply Fl; inversion C; reflexivity | discriminate].
  destruct (r_read_message_total fmt a sfuel pos) as (_ & F & S').
  destruct (r_read_message fmt sfuel a pos) as [[msg|e|k] p] eqn:E; cbn [bind fst] in *.
  - destruct (S' msg p eq_refl) as (Hp & _). apply IH; lia.
  - intros C. apply F; [lia | lia | inversion C; reflexivity].
  - discriminate.
Qed.

(* the same two facts for the trace variant used by the C05 correspondence *)
Lemma walk_trace_no_panic fmt a sfuel : forall fuel pos acc, not_panic (walk_trace fuel sfuel fmt a pos acc).
Proof.
  induction fuel as [|f IH]; intros pos acc; cbn [walk_trace]; [intros k; discriminate|].
  destruct (pos <? size a); [|intros k; discriminate].
  cbn [r_read_labels fst]. destruct (read_labels_total a pos) as [Pl _].
  destruct (read_labels a pos) as [ls|e|k]; cbn [bind]; [| intros k; discriminate | exfalso; exact (Pl k eq_refl)].
  destruct (r_read_message_total fmt a sfuel pos) as (P & _ & _).
  destruct (r_read_message fmt sfuel a pos) as [[msg|e|k] p]; cbn [bind fst] in *;
    [apply IH | intros k; discriminate | exfalso; exact (P k eq_refl)].
Qed.

(* walk = insertion of the trace into an (insertion-ordered) map *)
Lemma walk_is_fold_of_trace fmt a sfuel : forall fuel pos acc tr,
  walk fuel sfuel fmt a pos (fold_left (fun m kv => e_set (fst kv) (snd kv) m) (rev tr) acc) =
  match walk_trace fuel sfuel fmt a pos tr with
  | Ok l => Ok (fold_left (fun m kv => e_set (fst kv) (snd kv) m) l acc)
  | Err e => Err e
  | Panic k => Panic k
  end.
Proof.
  induction fuel as [|f IH]; intros pos acc tr; cbn [walk walk_trace]; [reflexivity|].
  destruct (pos <? size a); [|reflexivity].
  cbn [r_read_labels fst]. destruct (read_labels a pos) as [ls|e|k]; cbn [bind]; try reflexivity.
  destruct (r_read_message fmt sfuel a pos) as [[msg|e|k] p]; cbn [bind]; try reflexivity.
  destruct ls as [[|k0 ks]|]; try apply IH.
  rewrite <- IH. cbn [rev]. rewrite fold_left_app. reflexivity.
Qed.

(* ---------------------------------------------------------------- from_archive *)
Lemma read_title_total fmt a :
  not_panic (fst (read_title fmt (data_fuel a) a)) /\ not_fuel (fst (read_title fmt (data_fuel a) a)).
Proof.
  destruct fmt; cbn [read_title fst]; [split; [intros k|]; discriminate|].
  destruct (r_read_message_total ShiftJIS a (data_fuel a) 0) as (P & F & _). cbn [r_read_message] in *.
  split; [exact P|]. apply F; [lia|]. unfold data_fuel, size, lenN. lia.
Qed.

Theorem text_from_archive_no_panic : forall fmt a k, from_archive fmt a <> Panic k.
Proof.
  intros fmt a k. unfold from_archive. destruct (read_title_total fmt a) as [P _].
  destruct (read_title fmt (data_fuel a) a) as [[title|e|k'] p]; cbn [bind fst] in *; [| discriminate | exfalso; exact (P k' eq_refl)].
  pose proof (walk_no_panic fmt a (data_fuel a) (data_fuel a) p [] ) as W.
  destruct (walk (data_fuel a) (data_fuel a) fmt a p []) as [es|e|k']; cbn [bind]; [discriminate | discriminate | exfalso; exact (W k' eq_refl)].
Qed.

Theorem text_from_archive_fuel_never_exhausted : forall fmt a, from_archive fmt a <> Err EOutOfFuel.
Proof.
  intros fmt a. unfold from_archive. destruct (read_title_total fmt a) as [_ F].
  destruct (read_title fmt (data_fuel a) a) as [[title|e|k'] p]; cbn [bind fst] in *;
    [| intros C; apply F; inversion C; reflexivity | discriminate].
  assert (W : not_fuel (walk (data_fuel a) (data_fuel a) fmt a p [])).
  { apply walk_fuel; unfold data_fuel, size, lenN; lia. }
  destruct (walk (data_fuel a) (data_fuel a) fmt a p []) as [es|e|k']; cbn [bind];
    [discriminate | intros C; apply W; inversion C; reflexivity | discriminate].
Qed.

Theorem text_from_archive_trace_no_panic : forall fmt a k, from_archive_trace fmt a <> Panic k.
Proof.
  intros fmt a k. unfold from_archive_trace. destruct (read_title_total fmt a) as [P _].
  destruct (read_title fmt (data_fuel a) a) as [[title|e|k'] p]; cbn [bind fst] in *; [| discriminate | exfalso; exact (P k' eq_refl)].
  pose proof (walk_trace_no_panic fmt a (data_fuel a) (data_fuel a) p [] ) as W.
  destruct (walk_trace (data_fuel a) (data_fuel a) fmt a p []) as [es|e|k']; cbn [bind]; [discriminate | discriminate | exfalso; exact (W k' eq_refl)].
Qed.

(* from_archive is the insertion of the trace: the two extracted entry points agree *)
Theorem from_archive_of_trace fmt a :
  from_archive fmt a =
  match from_archive_trace fmt a with
  | Ok (title, tr) => Ok {| t_title := title; t_entries := fold_left (fun m kv => e_set (fst kv) (snd kv) m) tr []; t_dirty := false |}
  | Err e => Err e
  | Panic k => Panic k
  end.
Proof.
  unfold from_archive, from_archive_trace.
  destruct (read_title fmt (data_fuel a) a) as [[title|e|k'] p]; cbn [bind]; try reflexivity.
  pose proof (walk_is_fold_of_trace fmt a (data_fuel a) (data_fuel a) p [] []) as W. cbn [rev fold_left] in W.
  rewrite W. destruct (walk_trace (data_fuel a) (data_fuel a) fmt a p []); reflexivity.
Qed.

(* the walk really moves in steps of at least 4: from a 4-aligned cursor every message read lands on a
   4-aligned cursor at least 4 further (so at most |data| / 4 + 1 iterations happen; the real loop terminates) *)
Theorem text_walk_step_advances fmt a sfuel pos msg p :
  pos mod 4 = 0 -> r_read_message fmt sfuel a pos = (Ok msg, p) -> pos + 4 <= p /\ p mod 4 = 0.
Proof.
  intros Hm E. destruct (r_read_message_total fmt a sfuel pos) as (_ & _ & S'). destruct (S' msg p E) as (_ & H2 & H3). split; auto.
Qed.

(* ---------------------------------------------------------------- serialize *)
Lemma pad_to_4_nil : pad_to 4 [] = [].
Proof. reflexivity. Qed.

(* BinArchive::serialize on an archive without strings, pointers and c-strings succeeds, unless the image would exceed the
   32-bit sizes of the format: then it is rejected with an error (fix 524d15f, finding F25) - never a panic *)
Lemma bin_serialize_plain_ok kf m a : a_text a = [] -> a_ptrs a = [] -> a_cstrs a = [] ->
  (exists f, BinFormat.serialize_k kf m a = Ok f) \/ BinFormat.serialize_k kf m a = Err EOther.
Proof.
  intros Ht Hp Hc. unfold BinFormat.serialize_k. rewrite Ht, Hp, Hc.
  cbn [isort fold_right cstr_pool app poke_all bind p_raw pool_empty]. rewrite pad_to_4_nil.
  destruct (emit_labels _ pool_empty []) as [tpool1 raw_labels].
  cbn [isort fold_right emit_text bind map concat app length].
  match goal with |- context [guard ?c EOther] => destruct c end; cbn [guard bind]; [|right; reflexivity].
  left.
  unfold add_w. change (lenN []) with 0. unfold trunc_w at 1 2. rewrite N.mod_0_l by (unfold maxw; lia). rewrite N.add_0_r.
  destruct (N.ltb_spec (size a mod maxw 32) (maxw 32)) as [_|C]; [cbn [bind]; eexists; reflexivity|].
  exfalso. pose proof (N.mod_lt (size a) (maxw 32)). unfold maxw in *. lia.
Qed.

Theorem text_serialize_ok_or_too_large : forall kf m fmt e t,
  (exists f, TextFormat.serialize kf m fmt e t = Ok f) \/ TextFormat.serialize kf m fmt e t = Err EOther.
Proof.
  intros kf m fmt e t. unfold TextFormat.serialize. rewrite build_archive_spec. cbn [bind].
  apply bin_serialize_plain_ok; reflexivity.
Qed.
Theorem text_serialize_no_panic : forall kf m fmt e t k, TextFormat.serialize kf m fmt e t <> Panic k.
Proof. intros kf m fmt e t k. destruct (text_serialize_ok_or_too_large kf m fmt e t) as [[f ->]| ->]; discriminate. Qed.

(* anything accepted can be re-serialized without panicking (either arithmetic mode, either endianness) *)
Theorem text_reserialize_no_panic : forall fmt a t, from_archive fmt a = Ok t ->
  forall kf m e k, TextFormat.serialize kf m fmt e t <> Panic k.
Proof. intros fmt a t _ kf m e k. apply text_serialize_no_panic. Qed.

(* from_bytes = BinArchive::from_bytes, then from_archive: totality follows from the bin-archive parser's *)
Theorem text_from_bytes_no_panic : forall fmt e f,
  (forall k, BinFormat.from_bytes e f <> Panic k) -> forall k, TextFormat.from_bytes fmt e f <> Panic k.
Proof.
  intros fmt e f H k. unfold TextFormat.from_bytes. destruct (BinFormat.from_bytes e f) as [a|er|k'] eqn:E; cbn [bind].
  - apply text_from_archive_no_panic.
  - discriminate.
  - exfalso. exact (H k' eq_refl).
Qed.
Theorem text_from_bytes_fuel_never_exhausted : forall fmt e f,
  BinFormat.from_bytes e f <> Err EOutOfFuel -> TextFormat.from_bytes fmt e f <> Err EOutOfFuel.
Proof.
  intros fmt e f H. unfold TextFormat.from_bytes. destruct (BinFormat.from_bytes e f) as [a|er|k'] eqn:E; cbn [bind].
  - apply text_from_archive_fuel_never_exhausted.
  - intros C. apply H. inversion C. reflexivity.
  - discriminate.
Qed.

(* ---------------------------------------------------------------- the dirty flag of a parsed archive *)
(* unconditional: whatever TextArchive::from_archive / from_bytes accepts is clean (C07: "the dirty flag is clear on a ...
   parsed archive") *)
Theorem from_archive_is_clean : forall fmt a t, TextFormat.from_archive fmt a = Ok t -> t_dirty t = false.
Proof.
  intros fmt a t. unfold TextFormat.from_archive.
  destruct (read_title fmt (data_fuel a) a) as [[title|e|k] p]; cbn [bind]; try discriminate.
  destruct (walk (data_fuel a) (data_fuel a) fmt a p []) as [es|e|k]; cbn [bind]; try discriminate.
  intros E. injection E as <-. reflexivity.
Qed.
Theorem from_bytes_is_clean : forall fmt e f t, TextFormat.from_bytes fmt e f = Ok t -> t_dirty t = false.
Proof.
  intros fmt e f t. unfold TextFormat.from_bytes. destruct (BinFormat.from_bytes e f) as [a|er|k]; cbn [bind]; try discriminate.
  apply from_archive_is_clean.
Qed.
