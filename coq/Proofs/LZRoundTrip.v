(* decompress (compress x) = x, for the library's own decoder model, in either arithmetic mode. *)
From Coq Require Import List NArith Arith Lia Bool.
From Mila Require Import Lib.Bytes Lib.Machine Model.LZCore Model.LZ10 Model.LZSpec Model.LZDecode
  Proofs.LZ10Proofs Proofs.LZDecodeProofs.
Import ListNotations.
Local Open Scope N_scope.

Theorem compress10_round_trip x : wfb x -> lenN x < 2 ^ 24 -> forall m, lz10_decompress m (compress10 x) = Ok x.
Proof.
  intros Hw Hn m. destruct (compress10_wellformed x Hw Hn) as (ts & Hs & _ & Hex).
  destruct (decode_sparse10 m _ _ _ Hs) as (x' & Hex' & Hd & _).
  rewrite Hex in Hex'. inversion Hex'; subst x'. exact Hd.
Qed.
