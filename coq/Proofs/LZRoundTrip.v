(* decompress (compress x) = x, for the library's own decoder model, in either arithmetic mode. *)
From Coq Require Import List NArith Arith Lia Bool.
From Mila Require Import Lib.Bytes Lib.Machine Model.LZCore Model.LZ10 Model.LZ11 Model.LZSpec Model.LZDecode
  Proofs.LZ10Proofs Proofs.LZ11Proofs Proofs.LZDecodeProofs.
Import ListNotations.
Local Open Scope N_scope.

Theorem compress10_round_trip x : wfb x -> lenN x < 2 ^ 24 -> forall m, lz10_decompress m (compress10 x) = Ok x.
Proof.
  intros Hw Hn m. destruct (compress10_wellformed x Hw Hn) as (ts & Hs & _ & Hex).
  destruct (decode_sparse10 m _ _ _ Hs) as (x' & Hex' & Hd & _).
  rewrite Hex in Hex'. inversion Hex'; subst x'. exact Hd.
Qed.

Theorem compress13_round_trip m x : x <> [] -> wfb x -> lenN x < 2 ^ 24 ->
  exists c, compress13 m x = Ok c /\ forall m', lz13_decompress m' c = Ok x.
Proof.
  intros Hne Hw Hn. destruct (compress13_wellformed m x Hne Hw Hn) as (h & s & ts & Hc & Hh & Hs & _ & Hex).
  exists (0x13 :: h ++ s). split; [exact Hc|]. intros m'.
  destruct h as [|a [|b [|c [|d h']]]]; cbn [length] in Hh; try discriminate Hh. cbn [app].
  rewrite lz13_wrapped.
  destruct (decode_sparse11 m' _ _ _ Hs) as (x' & Hex' & Hd & _).
  rewrite Hex in Hex'. inversion Hex'; subst x'. exact Hd.
Qed.

(* the empty payload (repair of F12): extended size form, and it comes back *)
Lemma compress13_empty_round_trip m m' : exists c, compress13 m [] = Ok c /\ lz13_decompress m' c = Ok [].
Proof. eexists. split; [apply compress13_empty|]. destruct m'; vm_compute; reflexivity. Qed.
