(* C20, CGFX: cgfx::read returns the decoding of every packed texture on every conforming file; prefixes of
   conforming files are read without panic and rejected when a payload byte is missing; checker sound. *)
From Coq Require Import List NArith ZArith Arith Lia Bool ZifyBool ZifyNat ZifyN.
From Mila Require Import Lib.Bytes Lib.BytesExtra Lib.Machine Model.Pixel Model.Etc1 Model.TexCommon Model.TexFormat
  Model.Cgfx Proofs.TexBase.
Import ListNotations.
Local Open Scope N_scope.
Ltac Zify.zify_post_hook ::= Z.div_mod_to_equations.

Ltac known :=
  first [ erewrite rd32_some by eassumption | erewrite rd16_some by eassumption | erewrite rd8_some by eassumption ];
  cbn [bind].
Ltac some32 := match goal with |- context [bind (rd32 ?e ?f ?p) _] =>
  let v := fresh "v" in let E := fresh "E" in destruct (rd32_in e f p) as (v & E); [lia | rewrite E; cbn [bind]; clear E v] end.
Ltac some16 := match goal with |- context [bind (rd16 ?e ?f ?p) _] =>
  let v := fresh "v" in let E := fresh "E" in destruct (rd16_in e f p) as (v & E); [lia | rewrite E; cbn [bind]; clear E v] end.
Ltac mono := repeat first [ apply le_refl | apply le_bind; [ solve [auto with texmono] | intros ? ] ].

Lemma selfrel_fun f p a b : selfrel f p a -> selfrel f p b -> a = b.
Proof. intros (v & Hv & ->) (w & Hw & ->). congruence. Qed.

Lemma selfrel_pos f p t : selfrel f p t -> p + 4 <= lenN f.
Proof. intros (v & Hv & _). eapply u32_at_le; eauto. Qed.

Lemma rel32_ok f p t : lenN f < 2 ^ 32 -> selfrel f p t -> rel32g None f p = Ok t.
Proof.
  intros Hs H. pose proof (selfrel_pos _ _ _ H). destruct H as (v & Hv & ->). unfold rel32g.
  rewrite (rd32_some _ _ _ _ Hv). cbn [bind]. rewrite trunc32_small by lia. reflexivity.
Qed.
Lemma rel32_le r0 g r p : le_out (rel32g r0 g p) (rel32g r0 (g ++ r) p).
Proof. unfold rel32g. mono. Qed.
Global Hint Resolve rel32_le : texmono.

(* target of the j-th reference of the DATA block *)
Definition ref_target (f : bytes) (j : nat) : N :=
  match u32_at LE f (0x20 + 8 * N.of_nat j) with Some v => (0x20 + 8 * N.of_nat j + v) mod 2 ^ 32 | None => 0 end.

(* the TXOB at o describes t *)
Definition txob_at (f : bytes) (o : N) (t : tex) : Prop :=
  exists np dp,
    present32 LE f o /\ u32_at LE f (o + 4) = Some TXOB_FMAGIC /\
    selfrel f (o + 12) np /\ cstr_atN f np = Some (t_name t) /\
    u32_at LE f (o + 24) = Some (t_h t) /\ u32_at LE f (o + 28) = Some (t_w t) /\
    present32 LE f (o + 40) /\ u32_at LE f (o + 52) = Some (t_fmt t) /\
    u32_at LE f (o + 68) = Some (lenN (t_data t)) /\
    selfrel f (o + 72) dp /\ sliceN dp (lenN (t_data t)) f = Some (t_data t) /\
    tex3ds_wf utf8_valid t.

Definition txob_match (f : bytes) (x : txob) (t : tex) : Prop :=
  tx_h x = t_h t /\ tx_w x = t_w t /\ tx_fmt x = t_fmt t /\ tx_size x = lenN (t_data t) /\
  cstr_atN f (tx_name_ptr x) = Some (t_name t) /\
  sliceN (tx_data_ptr x) (lenN (t_data t)) f = Some (t_data t) /\ tex3ds_wf utf8_valid t.

Section CgfxFile.
Variable f : bytes.
Hypothesis Hsmall : lenN f < 2 ^ 32.

Lemma cgfx_data_entries_ok : forall n j, (j + n <= 16)%nat -> 0x9C <= lenN f ->
  cgfx_data_entries None f (0x1C + 8 * N.of_nat j) n = Ok (map (ref_target f) (seq j n)).
Proof.
  induction n as [|n IH]; intros j Hj H; [reflexivity|].
  cbn [cgfx_data_entries seq map].
  destruct (rd32_in LE f (0x1C + 8 * N.of_nat j)) as (c & Hc); [lia|]. rewrite Hc. cbn [bind].
  replace (0x1C + 8 * N.of_nat j + 4) with (0x20 + 8 * N.of_nat j) by lia.
  destruct (u32_at_in LE f (0x20 + 8 * N.of_nat j)) as (v & Hv); [lia|].
  rewrite (rel32_ok f _ ((0x20 + 8 * N.of_nat j + v) mod 2 ^ 32) Hsmall) by (exists v; split; [exact Hv | reflexivity]).
  cbn [bind]. replace (0x1C + 8 * N.of_nat j + 8) with (0x1C + 8 * N.of_nat (S j)) by lia.
  rewrite IH by (try lia; exact H). cbn [bind].
  assert (Er : ref_target f j = (0x20 + 8 * N.of_nat j + v) mod 2 ^ 32) by (unfold ref_target; rewrite Hv; reflexivity).
  rewrite Er. reflexivity.
Qed.

Lemma cgfx_dict_entries_ok d : forall texs k fuel, (length texs <= fuel)%nat ->
  (forall j t, nth_error texs j = Some t -> cgfx_entry f d (k + N.of_nat j) t) ->
  exists objs, cgfx_dict_entries fuel None f (d + 28 + 16 * k) (N.of_nat (length texs)) = Ok objs /\
    Forall2 (txob_at f) objs texs /\
    (forall j o, nth_error objs j = Some o -> selfrel f (d + 28 + 16 * (k + N.of_nat j) + 12) o).
Proof.
  induction texs as [|t r IH]; intros k fuel Hfuel H.
  - exists []. split; [destruct fuel; reflexivity|]. split; [constructor|]. intros [|j] o; discriminate.
  - destruct fuel as [|fuel]; [cbn in Hfuel; lia|]. cbn [length] in *.
    pose proof (H 0%nat t eq_refl) as H0. rewrite N.add_0_r in H0. unfold cgfx_entry in H0. cbv zeta in H0.
    destruct H0 as (dn & o & np & dp & Hdn & Hdname & Ho & Hpo & Hmagic & Hnp & Hname & Hh & Hw & Hmip & Hfmt & Hsize & Hdp & Hd & Hwf).
    destruct (IH (k + 1) fuel ltac:(lia)) as (objs & Er & Mr & Pr).
    { intros j t' Hj. specialize (H (S j) t' Hj). replace (k + 1 + N.of_nat j) with (k + N.of_nat (S j)) by lia. exact H. }
    exists (o :: objs). cbn [cgfx_dict_entries].
    destruct (N.eqb_spec (N.of_nat (S (length r))) 0) as [Z|_]; [lia|].
    destruct Hpo as (vo & Hvo).
    rewrite (rel32_ok f _ dn Hsmall Hdn). cbn [bind].
    rewrite (rel32_ok f _ o Hsmall Ho). cbn [bind].
    replace (d + 28 + 16 * k + 16) with (d + 28 + 16 * (k + 1)) by lia.
    replace (N.of_nat (S (length r)) - 1) with (N.of_nat (length r)) by lia. rewrite Er. cbn [bind].
    split; [reflexivity|]. split.
    + constructor; [|exact Mr]. exists np, dp. repeat split; try assumption; try (exists vo; exact Hvo); apply Hwf.
    + intros [|j] o' Hj; cbn [nth_error] in Hj.
      * inversion Hj; subst. rewrite N.add_0_r. exact Ho.
      * specialize (Pr j o' Hj). replace (k + N.of_nat (S j)) with (k + 1 + N.of_nat j) by lia. exact Pr.
Qed.

Lemma cgfx_txob_ok o t : txob_at f o t ->
  exists x, cgfx_txob None f o = Ok x /\ txob_match f x t /\ selfrel f (o + 72) (tx_data_ptr x).
Proof.
  intros (np & dp & (vo & Hvo) & Hmagic & Hnp & Hname & Hh & Hw & (vm & Hmip) & Hfmt & Hsize & Hdp & Hd & Hwf).
  unfold cgfx_txob. do 2 known. rewrite (rel32_ok f _ np Hsmall Hnp). cbn [bind]. do 5 known.
  rewrite (rel32_ok f _ dp Hsmall Hdp). cbn [bind].
  eexists. split; [reflexivity|]. split; [|exact Hdp].
  unfold txob_match. cbn [tx_h tx_w tx_fmt tx_size tx_name_ptr tx_data_ptr]. auto 10.
Qed.

Lemma cgfx_txobs_ok : forall objs texs, Forall2 (txob_at f) objs texs ->
  exists xs, cgfx_txobs None f objs = Ok xs /\ Forall2 (txob_match f) xs texs /\
             Forall2 (fun x o => selfrel f (o + 72) (tx_data_ptr x)) xs objs.
Proof.
  induction 1 as [|o t objs texs H0 _ (xs & Er & Mr & Pr)].
  - exists []. repeat split; constructor.
  - destruct (cgfx_txob_ok o t H0) as (x & Ex & Mx & Px).
    exists (x :: xs). cbn [cgfx_txobs]. rewrite Ex. cbn [bind]. rewrite Er. cbn [bind].
    repeat split; constructor; assumption.
Qed.

Lemma cgfx_texture_ok m x t : txob_match f x t -> cgfx_texture m f x = decode_tex m t.
Proof.
  intros (Hh & Hw & Hf & Hs & Hn & Hd & (Hv & Hsz & _)). unfold cgfx_texture, decode_tex.
  rewrite Hs, (rd_exact_some _ _ _ Hd). cbn [bind]. rewrite (read_name_cstr _ _ _ _ Hn Hv). cbn [bind].
  rewrite Hh, Hw, Hf. reflexivity.
Qed.

Lemma cgfx_textures_ok m : forall xs texs, Forall2 (txob_match f) xs texs ->
  cgfx_textures m f xs = decode_all (decode_tex m) texs.
Proof.
  induction 1 as [|x t xs texs Hm _ IH]; [reflexivity|].
  cbn [cgfx_textures decode_all]. rewrite (cgfx_texture_ok m x t Hm), IH. reflexivity.
Qed.
End CgfxFile.

Lemma cgfx_fuel f d texs : (forall i t, nth_error texs i = Some t -> cgfx_entry f d (N.of_nat i) t) ->
  (length texs <= S (length f))%nat.
Proof.
  intros H. destruct texs as [|t0 r] eqn:E; [cbn; lia|]. rewrite <- E in *.
  assert (Hn : (0 < length texs)%nat) by (rewrite E; cbn; lia).
  destruct (nth_error texs (length texs - 1)) as [t|] eqn:Et.
  2:{ apply nth_error_None in Et. lia. }
  pose proof (H _ t Et) as H0. unfold cgfx_entry in H0. cbv zeta in H0.
  destruct H0 as (dn & o & np & dp & _ & _ & (v & Hv & _) & _).
  apply u32_at_le in Hv. unfold lenN in Hv. lia.
Qed.

(* the phases of cgfx::read on a conforming file *)
Lemma cgfx_phases f texs : conforms_cgfx f texs ->
  exists d objs xs,
    cgfx_header f = Ok tt /\
    (exists offs, cgfx_data None f = Ok offs /\ nth_error offs 1 = Some d) /\
    cgfx_dict None f d = Ok objs /\ cgfx_txobs None f objs = Ok xs /\
    Forall2 (txob_match f) xs texs /\
    selfrel f 0x28 d /\
    (forall j o, nth_error objs j = Some o -> selfrel f (d + 28 + 16 * N.of_nat j + 12) o) /\
    Forall2 (fun x o => selfrel f (o + 72) (tx_data_ptr x)) xs objs.
Proof.
  intros (Hsmall & Hmagic & H14 & Hdata & (vs & Hvs) & Hrefs & Hcnt & d & Hd & Hdict & (vd & Hvd) & Hn & Hd28 & Hent).
  destruct (cgfx_dict_entries_ok f Hsmall d texs 0 (S (length f)) (cgfx_fuel f d texs Hent)) as (objs & Eo & Mo & Po).
  { intros j t Hj. rewrite N.add_0_l. apply Hent, Hj. }
  destruct (cgfx_txobs_ok f Hsmall objs texs Mo) as (xs & Ex & Mx & Px).
  exists d, objs, xs. split; [|split; [|split; [|split; [exact Ex | split; [exact Mx | split; [exact Hd | split; [|exact Px]]]]]]].
  - unfold cgfx_header. known. unfold CGFX_FMAGIC, CGFX_MAGIC. cbn [N.eqb Pos.eqb guard bind].
    some16. some16. some32. some32. some32. reflexivity.
  - exists (map (ref_target f) (seq 0 16)). split.
    + unfold cgfx_data. do 2 known. apply (cgfx_data_entries_ok f Hsmall 16 0); [lia | exact Hrefs].
    + cbn [seq map nth_error]. unfold ref_target. destruct Hd as (v & Hv & ->).
      change (0x20 + 8 * N.of_nat 1) with 0x28. rewrite Hv. reflexivity.
  - unfold cgfx_dict. do 3 known. rewrite N.mul_0_r, N.add_0_r in Eo. exact Eo.
  - intros j o Hj. specialize (Po j o Hj). rewrite N.add_0_l in Po. exact Po.
Qed.

Theorem read_cgfx_correct : forall m f texs, conforms_cgfx f texs -> read_cgfx m f = decode_all (decode_tex m) texs.
Proof.
  intros m f texs Hc.
  destruct (cgfx_phases f texs Hc) as (d & objs & xs & Eh & (offs & Ed & E1) & Edict & Ex & Mx & _).
  unfold read_cgfx, read_cgfx_g. rewrite Eh. cbn [bind]. rewrite Ed. cbn [bind]. rewrite E1. cbn [of_option bind].
  rewrite Edict. cbn [bind]. rewrite Ex. cbn [bind].
  apply cgfx_textures_ok. exact Mx.
Qed.

(* ---------------------------------------------------------------- prefixes *)
Lemma cgfx_header_le g r : le_out (cgfx_header g) (cgfx_header (g ++ r)).
Proof. unfold cgfx_header. mono. Qed.
Lemma cgfx_data_entries_le r0 g r : forall n p, le_out (cgfx_data_entries r0 g p n) (cgfx_data_entries r0 (g ++ r) p n).
Proof.
  induction n as [|n IH]; intros p; cbn [cgfx_data_entries]; [apply le_refl|].
  apply le_bind; [auto with texmono|]. intros c. apply le_bind; [auto with texmono|]. intros o.
  apply le_bind; [apply IH|]. intros x. apply le_refl.
Qed.
Lemma cgfx_data_le r0 g r : le_out (cgfx_data r0 g) (cgfx_data r0 (g ++ r)).
Proof. unfold cgfx_data. apply le_bind; [auto with texmono|]. intros ?. apply le_bind; [auto with texmono|]. intros ?. apply cgfx_data_entries_le. Qed.
Lemma cgfx_dict_entries_le r0 g r : forall fg ff p n, (N.to_nat n <= ff)%nat ->
  le_out (cgfx_dict_entries fg r0 g p n) (cgfx_dict_entries ff r0 (g ++ r) p n).
Proof.
  induction fg as [|fg IH]; intros ff p n Hff.
  - cbn [cgfx_dict_entries]. destruct (N.eqb_spec n 0) as [->|NZ]; [destruct ff; apply le_refl | apply le_err].
  - destruct ff as [|ff]; cbn [cgfx_dict_entries]; destruct (N.eqb_spec n 0) as [->|NZ]; try apply le_refl; [lia|].
    apply le_bind; [auto with texmono|]. intros fnm. apply le_bind; [auto with texmono|]. intros o.
    apply le_bind; [apply IH; lia|]. intros rest. apply le_refl.
Qed.
Lemma cgfx_dict_le r0 g r d n : u32_at LE (g ++ r) (d + 8) = Some n -> (N.to_nat n <= S (length (g ++ r)))%nat ->
  le_out (cgfx_dict r0 g d) (cgfx_dict r0 (g ++ r) d).
Proof.
  intros Hn Hfuel. unfold cgfx_dict.
  apply le_bind; [auto with texmono|]. intros mg. apply le_bind; [auto with texmono|]. intros sz.
  rewrite (rd32_some _ _ _ _ Hn). cbn [bind].
  pose proof (rd32_le LE g r (d + 8)) as L. rewrite (rd32_some _ _ _ _ Hn) in L.
  destruct L as [-> | (e & ->)]; [|apply le_err]. cbn [bind].
  apply cgfx_dict_entries_le. exact Hfuel.
Qed.
Lemma cgfx_txob_le r0 g r o : le_out (cgfx_txob r0 g o) (cgfx_txob r0 (g ++ r) o).
Proof. unfold cgfx_txob. mono. Qed.
Lemma cgfx_txobs_le r0 g r : forall objs, le_out (cgfx_txobs r0 g objs) (cgfx_txobs r0 (g ++ r) objs).
Proof.
  induction objs as [|o objs IH]; cbn [cgfx_txobs]; [apply le_refl|].
  apply le_bind; [apply cgfx_txob_le|]. intros x. apply le_bind; [apply IH|]. intros xs. apply le_refl.
Qed.

Lemma no_panic_map_ok {A B} (c : outcome A) (F : A -> B) : no_panic c -> no_panic (x <- c ;; Ok (F x)).
Proof. destruct c; cbn; tauto. Qed.
Lemma no_panic_map_inv {A B} (c : outcome A) (F : A -> B) : no_panic (x <- c ;; Ok (F x)) -> no_panic c.
Proof. destruct c; cbn; tauto. Qed.

Section CgfxPrefix.
Variables g r : bytes.
Variable m : mode.

Lemma cgfx_texture_prefix x t : txob_match (g ++ r) x t -> no_panic (decode_tex m t) ->
  good (cuts (lenN g) (tx_data_ptr x) (t_data t)) (cgfx_texture m g x).
Proof.
  intros (Hh & Hw & Hf & Hs & Hn & Hd & (Hv & Hsz & _)) Hdec. unfold cgfx_texture. rewrite Hs.
  split.
  - destruct (rd_exact_le g r (tx_data_ptr x) (lenN (t_data t))) as [E|(e & E)]; rewrite E; [|exact I].
    rewrite (rd_exact_some _ _ _ Hd). cbn [bind].
    destruct (read_name_cases utf8_valid g (tx_name_ptr x)) as [(s & ->)|E']; [|apply is_err_no_panic, is_err_bind, E'].
    cbn [bind]. rewrite Hh, Hw, Hf. apply no_panic_map_ok. unfold decode_tex in Hdec. apply no_panic_map_inv in Hdec. exact Hdec.
  - intros (Hpos & Hcut). rewrite rd_exact_cut by assumption. exact I.
Qed.

Lemma cgfx_textures_prefix : forall xs texs, Forall2 (txob_match (g ++ r)) xs texs ->
  Forall (fun t => no_panic (decode_tex m t)) texs ->
  good (exists j x t, nth_error xs j = Some x /\ nth_error texs j = Some t /\ cuts (lenN g) (tx_data_ptr x) (t_data t))
       (cgfx_textures m g xs).
Proof.
  induction 1 as [|x t xs texs Hm _ IH]; intros Hdec.
  - split; [exact I|]. intros ([|j] & x & t & Hj & _); discriminate.
  - inversion Hdec as [|? ? Hd0 Hdr]; subst. cbn [cgfx_textures].
    eapply good_loop_step; [| apply (cgfx_texture_prefix x t Hm Hd0) | apply (IH Hdr)].
    intros ([|j] & x' & t' & Hx & Ht & Hc); cbn [nth_error] in Hx, Ht.
    + inversion Hx; inversion Ht; subst. left. exact Hc.
    + right. exists j, x', t'. auto.
Qed.
End CgfxPrefix.

Lemma Forall2_nth {A B} (R : A -> B -> Prop) l l' : Forall2 R l l' ->
  forall j a b, nth_error l j = Some a -> nth_error l' j = Some b -> R a b.
Proof.
  induction 1 as [|x y l l' H0 _ IH]; intros [|j] a b Ha Hb; cbn [nth_error] in *; try discriminate.
  - inversion Ha; inversion Hb; subst. exact H0.
  - eapply IH; eauto.
Qed.

Theorem cgfx_prefix : forall m f texs k, conforms_cgfx f texs -> Forall (fun t => no_panic (decode_tex m t)) texs ->
  k < lenN f ->
  no_panic (read_cgfx m (firstn (N.to_nat k) f)) /\
  (forall i t off, nth_error texs i = Some t -> cgfx_payload_at f (N.of_nat i) off -> cuts k off (t_data t) ->
     is_err (read_cgfx m (firstn (N.to_nat k) f))).
Proof.
  intros m f texs k Hc Hdec Hk.
  set (g := firstn (N.to_nat k) f). set (r := skipn (N.to_nat k) f).
  assert (Ef : f = g ++ r) by (symmetry; apply firstn_skipn).
  assert (Lg : lenN g = k) by (apply lenN_firstn; lia).
  destruct (cgfx_phases f texs Hc) as (d & objs & xs & Eh & (offs & Ed & E1) & Edict & Ex & Mx & Hd & Po & Px).
  pose proof Hc as (_ & _ & _ & _ & _ & _ & _ & d' & Hd' & _ & _ & Hn & _ & Hent).
  assert (d' = d) by (eapply selfrel_fun; eauto). subst d'.
  unfold read_cgfx, read_cgfx_g.
  pose proof (cgfx_header_le g r) as L1. rewrite <- Ef, Eh in L1.
  destruct (le_out_ok _ _ L1) as [-> | E]; [|split; [apply is_err_no_panic|intros ? ? ? _ _ _]; apply is_err_bind, E].
  cbn [bind].
  pose proof (cgfx_data_le None g r) as L2. rewrite <- Ef, Ed in L2.
  destruct (le_out_ok _ _ L2) as [-> | E]; [|split; [apply is_err_no_panic|intros ? ? ? _ _ _]; apply is_err_bind, E].
  cbn [bind]. rewrite E1. cbn [of_option bind].
  (* the dictionary *)
  assert (Hn' : u32_at LE (g ++ r) (d + 8) = Some (N.of_nat (length texs))) by (rewrite <- Ef; exact Hn).
  assert (Hfu : (N.to_nat (N.of_nat (length texs)) <= S (length (g ++ r)))%nat).
  { rewrite <- Ef. pose proof (cgfx_fuel f d texs Hent). lia. }
  pose proof (cgfx_dict_le None g r d _ Hn' Hfu) as L3. rewrite <- Ef, Edict in L3.
  destruct (le_out_ok _ _ L3) as [-> | E]; [|split; [apply is_err_no_panic|intros ? ? ? _ _ _]; apply is_err_bind, E].
  cbn [bind].
  pose proof (cgfx_txobs_le None g r objs) as L4. rewrite <- Ef, Ex in L4.
  destruct (le_out_ok _ _ L4) as [-> | E]; [|split; [apply is_err_no_panic|intros ? ? ? _ _ _]; apply is_err_bind, E].
  cbn [bind]. rewrite Ef in Mx.
  destruct (cgfx_textures_prefix g r m xs texs Mx Hdec) as (Pn & Pc).
  split; [exact Pn|]. intros i t off Hi (d' & o & Hd'' & Ho & Hoff) Hcuts. apply Pc.
  assert (d' = d) by (eapply selfrel_fun; eauto). subst d'.
  destruct (nth_error xs i) as [x|] eqn:Exi.
  2:{ apply nth_error_None in Exi. apply Forall2_len in Mx. assert (nth_error texs i <> None) by congruence.
      apply nth_error_Some in H. lia. }
  destruct (nth_error objs i) as [o'|] eqn:Eoi.
  2:{ apply nth_error_None in Eoi. apply Forall2_len in Px. assert (nth_error xs i <> None) by congruence.
      apply nth_error_Some in H. lia. }
  assert (o' = o) by (eapply selfrel_fun; [apply (Po i o' Eoi) | exact Ho]). subst o'.
  pose proof (Forall2_nth _ _ _ Px i x o Exi Eoi) as Hx. cbv beta in Hx.
  assert (tx_data_ptr x = off) by (eapply selfrel_fun; eauto).
  exists i, x, t. split; [exact Exi|]. split; [exact Hi|]. rewrite H, Lg. exact Hcuts.
Qed.

(* ---------------------------------------------------------------- the checker *)
Lemma selfrel_of_spec f p t : selfrel_of f p = Some t -> selfrel f p t.
Proof. unfold selfrel_of, selfrel. destruct (u32_at LE f p) as [v|]; [|discriminate]. intros E; inversion E. exists v. auto. Qed.

Lemma cgfx_entryb_sound f d i t : cgfx_entryb f d i t = true -> cgfx_entry f d i t.
Proof.
  unfold cgfx_entryb, cgfx_entry. cbv zeta.
  destruct (selfrel_of f (d + 28 + 16 * i + 8)) as [dn|] eqn:E0; [|discriminate].
  destruct (selfrel_of f (d + 28 + 16 * i + 12)) as [o|] eqn:E1; [|discriminate].
  destruct (selfrel_of f (o + 12)) as [np|] eqn:E2; [|discriminate].
  destruct (selfrel_of f (o + 72)) as [dp|] eqn:E3; [|discriminate].
  apply selfrel_of_spec in E0, E1, E2, E3.
  intros H. repeat (apply andb_prop in H; destruct H as [H ?]).
  repeat match goal with
  | Hx : oN_eqb _ _ = true |- _ => apply oN_eqb_spec in Hx
  | Hx : ob_eqb _ _ = true |- _ => apply ob_eqb_spec in Hx
  | Hx : is_some _ = true |- _ => apply is_some_spec in Hx
  | Hx : tex3ds_wfb _ _ = true |- _ => apply tex3ds_wfb_spec in Hx
  end.
  exists dn, o, np, dp. unfold present32. tauto.
Qed.

Theorem conforms_cgfxb_sound : forall f texs, conforms_cgfxb f texs = true -> conforms_cgfx f texs.
Proof.
  intros f texs H. unfold conforms_cgfxb in H.
  apply andb_prop in H. destruct H as [H Hdict].
  repeat (apply andb_prop in H; destruct H as [H ?]).
  destruct (selfrel_of f 40) as [d|] eqn:Ed; [|discriminate]. apply selfrel_of_spec in Ed.
  repeat (apply andb_prop in Hdict; destruct Hdict as [Hdict ?]).
  repeat match goal with
  | Hx : oN_eqb _ _ = true |- _ => apply oN_eqb_spec in Hx
  | Hx : is_some _ = true |- _ => apply is_some_spec in Hx
  | Hx : (_ <=? _) = true |- _ => apply N.leb_le in Hx
  | Hx : (_ <? _) = true |- _ => apply N.ltb_lt in Hx
  end.
  split; [assumption|]. split; [assumption|]. split; [assumption|]. split; [assumption|]. split; [assumption|].
  split; [assumption|].
  split; [assumption|].
  exists d. split; [exact Ed|]. split; [assumption|]. split; [assumption|]. split; [assumption|]. split; [assumption|].
  intros i t Hi. apply cgfx_entryb_sound.
  match goal with Hx : entriesb _ _ _ = true |- _ => pose proof (entriesb_spec _ _ _ Hx i t Hi) as E end.
  rewrite N.add_0_l in E. exact E.
Qed.
