(* C19_palette: the CI8 path of Tpl::extract_textures (align, block_to_sequential with 8x4 blocks, crop,
   decode_indexed) returns for pixel (x, y) the palette entry selected by the byte at ci8_index w x y of the
   block data -- for EVERY width and height >= 1 (not only 1..64). *)
From Coq Require Import List NArith ZArith Arith Lia Bool ZifyBool ZifyNat ZifyN.
From Mila Require Import Lib.Bytes Lib.Machine Model.Pixel Model.PixelSpec Proofs.Scatter Proofs.TileProofs.
Import ListNotations.
Local Open Scope nat_scope.
Ltac Zify.zify_post_hook ::= Z.div_mod_to_equations.

(* ---------------- small list facts ---------------- *)
Lemma nth_error_firstn' {A} (l : list A) : forall n i, i < n -> nth_error (firstn n l) i = nth_error l i.
Proof.
  induction l as [|a l IH]; intros [|n] [|i] H; cbn [firstn nth_error]; try lia; try reflexivity.
  apply IH. lia.
Qed.
Lemma nth_error_skipn' {A} (l : list A) : forall n i, nth_error (skipn n l) i = nth_error l (n + i).
Proof.
  induction l as [|a l IH]; intros [|n] i; cbn [skipn nth_error plus]; try reflexivity.
  - destruct i; reflexivity.
  - apply IH.
Qed.
Lemma nth_error_nth_default {A} (l : list A) i d : i < length l -> nth_error l i = Some (nth i l d).
Proof. revert i; induction l as [|a l IH]; intros [|i] H; cbn [length nth_error nth] in *; try lia; auto. apply IH. lia. Qed.

(* ---------------- block_to_sequential as a scatter ---------------- *)
Lemma b2s_loop_scatter data olen : forall pairs out,
  (forall i o, In (i, o) pairs -> i < length data /\ o < olen) ->
  b2s_loop data olen pairs out = scatter (map (fun io => (N.of_nat (snd io), nth (fst io) data 0%N)) pairs) out.
Proof.
  induction pairs as [|[i o] r IH]; intros out H; cbn [b2s_loop map scatter fst snd]; [reflexivity|].
  destruct (H i o (or_introl eq_refl)) as (Hi & Ho).
  rewrite (nth_error_nth_default data i 0%N Hi). destruct (Nat.ltb_spec o olen); [|lia].
  rewrite Nat2N.id. apply IH. intros i' o' Hin. apply H. right. exact Hin.
Qed.

(* output index of the k-th iteration for 8x4 blocks, pr = blocks per row, aw = 8 * pr *)
Definition oidx (aw k : nat) : nat :=
  let bn := k / 32 in let bi := k mod 32 in let pr := aw / 8 in
  (bn / pr) * aw * 4 + (bi / 8) * aw + (bn mod pr) * 8 + bi mod 8.
(* block-data index of pixel (x, y) *)
Definition sidx (aw x y : nat) : nat := ((y / 4) * (aw / 8) + x / 8) * 32 + (y mod 4) * 8 + x mod 8.

Lemma b2s_pairs_flat aw nblocks : b2s_pairs aw 8 4 nblocks = map (fun k => (k, oidx aw k)) (seq 0 (nblocks * 32)).
Proof.
  unfold b2s_pairs. change (8 * 4) with 32.
  rewrite (flat_map_seq (fun bn bi => (bn * 32 + bi, bn / (aw / 8) * aw * 4 + bi / 8 * aw + bn mod (aw / 8) * 8 + bi mod 8)) nblocks 32).
  apply map_ext. intros k. unfold oidx. f_equal. pose proof (Nat.div_mod k 32). lia.
Qed.

Lemma oidx_of_pixel pr br x y : x < 8 * pr -> y < 4 * br ->
  let aw := 8 * pr in sidx aw x y < pr * br * 32 /\ oidx aw (sidx aw x y) = y * aw + x.
Proof.
  intros Hx Hy aw. unfold sidx, oidx. cbv zeta. replace (aw / 8) with pr by (unfold aw; lia).
  set (bn := y / 4 * pr + x / 8). set (bi := y mod 4 * 8 + x mod 8).
  replace (bn * 32 + y mod 4 * 8 + x mod 8) with (bn * 32 + bi) by (unfold bi; lia).
  assert (Hbi : bi < 32) by (unfold bi; lia).
  assert (E1 : (bn * 32 + bi) / 32 = bn) by lia. assert (E2 : (bn * 32 + bi) mod 32 = bi) by lia.
  rewrite E1, E2.
  assert (Hx8 : x / 8 < pr) by lia.
  assert (D : bn / pr = y / 4) by (symmetry; apply Nat.div_unique with (r := x / 8); unfold bn; lia).
  assert (M : bn mod pr = x / 8) by (symmetry; apply Nat.mod_unique with (q := y / 4); unfold bn; lia).
  rewrite D, M. replace (bi / 8) with (y mod 4) by (unfold bi; lia). replace (bi mod 8) with (x mod 8) by (unfold bi; lia).
  split.
  - assert (y / 4 < br) by lia. unfold bn. nia.
  - replace (y * aw) with ((4 * (y / 4) + y mod 4) * aw) by (f_equal; lia). lia.
Qed.

Lemma oidx_shape pr br k : 0 < pr -> k < pr * br * 32 ->
  let aw := 8 * pr in exists x y, x < aw /\ y < 4 * br /\ oidx aw k = x + y * aw /\ sidx aw x y = k.
Proof.
  intros Hpr Hk aw. unfold oidx. replace (aw / 8) with pr by (unfold aw; lia).
  set (bn := k / 32). set (bi := k mod 32).
  assert (Hbn : bn < pr * br) by (unfold bn; apply Nat.div_lt_upper_bound; lia).
  pose proof (Nat.div_mod bn pr ltac:(lia)) as Ebn. pose proof (Nat.mod_upper_bound bn pr ltac:(lia)) as Hbx.
  assert (Hby : bn / pr < br) by (apply Nat.div_lt_upper_bound; lia).
  set (by_ := bn / pr) in *. set (bx := bn mod pr) in *.
  exists (8 * bx + bi mod 8), (4 * by_ + bi / 8).
  assert (Hbi : bi < 32) by (unfold bi; lia).
  split; [unfold aw; lia|]. split; [lia|]. split; [unfold aw; lia|].
  unfold sidx. replace (aw / 8) with pr by (unfold aw; lia).
  replace ((4 * by_ + bi / 8) / 4) with by_ by lia. replace ((8 * bx + bi mod 8) / 8) with bx by lia.
  replace ((4 * by_ + bi / 8) mod 4) with (bi / 8) by lia. replace ((8 * bx + bi mod 8) mod 8) with (bi mod 8) by lia.
  replace (by_ * pr + bx) with bn by lia. unfold bn, bi. pose proof (Nat.div_mod k 32). lia.
Qed.

Lemma div_mod_unique_nat a q w : a < w -> (a + q * w) mod w = a /\ (a + q * w) / w = q.
Proof.
  intros H. split.
  - symmetry. apply Nat.mod_unique with (q := q); lia.
  - symmetry. apply Nat.div_unique with (r := a); lia.
Qed.

(* the sequential image: element (x, y) is the block-data byte at sidx *)
Lemma block_to_sequential_spec img pr br x y : 0 < pr -> 0 < br ->
  length img = 8 * pr * (4 * br) -> x < 8 * pr -> y < 4 * br ->
  let aw := 8 * pr in
  length (block_to_sequential img (N.of_nat aw) (N.of_nat (4 * br)) 8 4) = aw * (4 * br) /\
  nth_error (block_to_sequential img (N.of_nat aw) (N.of_nat (4 * br)) 8 4) (y * aw + x) = Some (nth (sidx aw x y) img 0%N).
Proof.
  intros Hpr Hbr Hlen Hx Hy aw. unfold block_to_sequential.
  replace (N.to_nat (N.of_nat aw * N.of_nat (4 * br))) with (aw * (4 * br)) by lia.
  replace (N.to_nat (N.of_nat aw * N.of_nat (4 * br) / (8 * 4))) with (pr * br).
  2:{ unfold aw. rewrite N2Nat.inj_div. replace (N.to_nat (N.of_nat (8 * pr) * N.of_nat (4 * br))) with (32 * (pr * br)) by lia.
      change (N.to_nat (8 * 4)) with 32. generalize (pr * br). intros q. lia. }
  rewrite Nat2N.id. change (N.to_nat 8) with 8. change (N.to_nat 4) with 4.
  rewrite b2s_pairs_flat.
  rewrite b2s_loop_scatter.
  2:{ intros i o Hin. apply in_map_iff in Hin. destruct Hin as (k & E & Hk). inversion E; subst. apply in_seq in Hk.
      destruct (oidx_shape pr br i Hpr ltac:(lia)) as (x' & y' & Hx' & Hy' & Eo & _). fold aw in Eo, Hx'. rewrite Eo.
      split; [unfold aw in *; nia|]. unfold aw in *. nia. }
  rewrite map_map. cbn [fst snd]. split; [rewrite scatter_length, repeat_length; reflexivity|].
  destruct (oidx_of_pixel pr br x y Hx Hy) as (Hk & Eo). fold aw in Hk, Eo.
  replace (y * aw + x) with (N.to_nat (N.of_nat (y * aw + x))) by lia.
  apply scatter_nth.
  - rewrite map_map. cbn [fst].
    apply (NoDup_map_inv (fun k => N.of_nat (oidx aw k)) (fun d => sidx aw (N.to_nat d mod aw) (N.to_nat d / aw))); [|apply seq_NoDup].
    intros k Hk'. apply in_seq in Hk'. rewrite Nat2N.id.
    destruct (oidx_shape pr br k Hpr ltac:(lia)) as (x' & y' & Hx' & Hy' & Eo' & Es). fold aw in Eo', Hx', Es.
    rewrite Eo'. destruct (div_mod_unique_nat x' y' aw Hx') as (-> & ->). exact Es.
  - apply in_map_iff. exists (sidx aw x y). split; [rewrite Eo; reflexivity|]. apply in_seq. lia.
  - rewrite repeat_length, Nat2N.id. unfold aw in *. nia.
Qed.

(* ---------------- crop ---------------- *)
Lemma crop_rows_spec : forall rows input ow w, w <= ow -> ow * rows <= length input ->
  exists c, crop_rows input ow w rows = Some c /\ length c = rows * w /\
    forall y x, y < rows -> x < w -> nth_error c (y * w + x) = nth_error input (y * ow + x).
Proof.
  induction rows as [|rows IH]; intros input ow w Hw Hlen.
  - exists []. split; [reflexivity|]. split; [reflexivity|]. intros; lia.
  - cbn [crop_rows]. destruct (Nat.leb_spec w (length input)); [|nia].
    destruct (IH (skipn ow input) ow w Hw ltac:(rewrite skipn_length; nia)) as (t & Et & Lt & Ht).
    rewrite Et. eexists. split; [reflexivity|].
    assert (Lf : length (firstn w input) = w) by (rewrite firstn_length; lia).
    split; [rewrite app_length, Lf, Lt; lia|].
    intros [|y] x Hy Hx.
    + cbn [Nat.mul plus]. rewrite nth_error_app1 by lia. apply nth_error_firstn'. exact Hx.
    + rewrite nth_error_app2 by (rewrite Lf; lia). rewrite Lf.
      replace (S y * w + x - w) with (y * w + x) by lia. rewrite Ht by lia. rewrite nth_error_skipn'. f_equal. lia.
Qed.

(* ---------------- palette lookup ---------------- *)
Lemma ci8_lookup_spec pal : forall data, Forall (fun i => (N.to_nat i < length pal)) data ->
  ci8_lookup data pal = Ok (map (fun i => nth (N.to_nat i) pal ZERO_PX) data).
Proof.
  induction data as [|i r IH]; intros HF; cbn [ci8_lookup map]; [reflexivity|].
  inversion HF as [|? ? Hi HF']; subst. rewrite (nth_error_nth_default pal _ ZERO_PX Hi). rewrite IH by exact HF'. reflexivity.
Qed.

Lemma align_8 w : align w 8 = align8 w.
Proof. unfold align, align8. change (N.leb 8 1) with false. cbv iota. destruct (N.ltb_spec 0 (w mod 8)); lia. Qed.
Lemma align_4 h : align h 4 = align4 h.
Proof. unfold align, align4. change (N.leb 4 1) with false. cbv iota. destruct (N.ltb_spec 0 (h mod 4)); lia. Qed.

(* ---------------- RGB5A3 palettes ---------------- *)
Lemma rgb5a3_pixels_nth : forall data i, 2 * i + 1 < length data ->
  nth_error (rgb5a3_pixels data) i = Some (decode_rgb5a3_pixel (256 * nth (2 * i) data 0%N + nth (2 * i + 1) data 0%N)).
Proof.
  fix IH 1. intros data i H. destruct data as [|hi [|lo r]]; cbn [length] in H; try lia.
  cbn [rgb5a3_pixels]. destruct i as [|i].
  - reflexivity.
  - cbn [nth_error]. rewrite IH by (cbn [length] in *; lia).
    replace (2 * S i) with (S (S (2 * i))) by lia. replace (S (S (2 * i)) + 1) with (S (S (2 * i + 1))) by lia.
    reflexivity.
Qed.
Lemma rgb5a3_pixels_length : forall data, length (rgb5a3_pixels data) = length data / 2.
Proof.
  fix IH 1. intros data. destruct data as [|hi [|lo r]]; try reflexivity.
  cbn [rgb5a3_pixels length]. rewrite IH. replace (S (S (length r))) with (length r + 1 * 2) by lia.
  rewrite Nat.div_add by lia. lia.
Qed.

(* ---------------- the whole CI8 path ---------------- *)
Theorem palette_image_source : forall pal_data img w h,
  (1 <= w)%N -> (1 <= h)%N ->
  lenN img = (align8 w * align4 h)%N ->
  (lenN pal_data mod 2 = 0)%N ->
  (forall x y, (x < w)%N -> (y < h)%N -> (nth (N.to_nat (ci8_index w x y)) img 0 < lenN pal_data / 2)%N) ->
  exists px, tpl_ci8_image pal_data img w h = Ok (flatten px) /\ length px = N.to_nat (w * h) /\
    forall x y, (x < w)%N -> (y < h)%N ->
      nth_error px (N.to_nat (y * w + x)) =
        Some (decode_rgb5a3_pixel (be16_at pal_data (nth (N.to_nat (ci8_index w x y)) img 0%N))).
Proof.
  intros pal_data img w h Hw Hh Hlen Hpal Hidx.
  unfold tpl_ci8_image, rgb5a3_decode. rewrite Hpal. cbn [N.eqb bind]. rewrite align_8, align_4.
  set (pr := N.to_nat ((w + 7) / 8)). set (br := N.to_nat ((h + 3) / 4)).
  assert (Hpr : 0 < pr) by (unfold pr; lia). assert (Hbr : 0 < br) by (unfold br; lia).
  assert (Eaw : align8 w = N.of_nat (8 * pr)) by (unfold align8, pr; lia).
  assert (Eah : align4 h = N.of_nat (4 * br)) by (unfold align4, br; lia).
  assert (Himg : length img = 8 * pr * (4 * br)) by (unfold lenN in Hlen; rewrite Eaw, Eah in Hlen; lia).
  set (wn := N.to_nat w). set (hn := N.to_nat h).
  assert (Hwn : wn <= 8 * pr) by (unfold wn, pr; lia). assert (Hhn : hn <= 4 * br) by (unfold hn, br; lia).
  rewrite Eaw, Eah.
  set (seqd := block_to_sequential img (N.of_nat (8 * pr)) (N.of_nat (4 * br)) 8 4).
  assert (Lseq : length seqd = 8 * pr * (4 * br)).
  { destruct (block_to_sequential_spec img pr br 0 0 Hpr Hbr Himg ltac:(lia) ltac:(lia)) as (L & _). exact L. }
  unfold crop. rewrite Nat2N.id. fold wn hn.
  destruct (crop_rows_spec hn seqd (8 * pr) wn Hwn ltac:(rewrite Lseq; nia)) as (c & Ec & Lc & Hc).
  rewrite Ec. cbn [bind].
  set (pal := rgb5a3_pixels pal_data).
  assert (Lpal : length pal = length pal_data / 2) by apply rgb5a3_pixels_length.
  (* every cropped byte is the block-data byte of its pixel *)
  assert (Hcell : forall x y, x < wn -> y < hn ->
            nth_error c (y * wn + x) = Some (nth (N.to_nat (ci8_index w (N.of_nat x) (N.of_nat y))) img 0%N)).
  { intros x y Hx Hy. rewrite Hc by assumption.
    destruct (block_to_sequential_spec img pr br x y Hpr Hbr Himg ltac:(lia) ltac:(lia)) as (_ & E).
    cbv zeta in E. fold seqd in E. rewrite E. do 2 f_equal.
    unfold sidx, ci8_index. rewrite Eaw. lia. }
  assert (HF : Forall (fun i => N.to_nat i < length pal) c).
  { apply Forall_forall. intros v Hv. apply In_nth_error in Hv. destruct Hv as (j & Ej).
    assert (Hj : j < hn * wn) by (rewrite <- Lc; apply nth_error_Some; congruence).
    assert (Hwn0 : 0 < wn) by (unfold wn; lia).
    pose proof (Hcell (j mod wn) (j / wn) ltac:(apply Nat.mod_upper_bound; lia) ltac:(apply Nat.div_lt_upper_bound; lia)) as E.
    replace (j / wn * wn + j mod wn) with j in E by (pose proof (Nat.div_mod j wn); lia).
    rewrite Ej in E. inversion E as [Ev].
    pose proof (Hidx (N.of_nat (j mod wn)) (N.of_nat (j / wn))
                 ltac:(pose proof (Nat.mod_upper_bound j wn); unfold wn in *; lia)
                 ltac:(assert (j / wn < hn) by (apply Nat.div_lt_upper_bound; lia); unfold hn in *; lia)) as B.
    rewrite Lpal. unfold lenN in B. lia. }
  rewrite (ci8_lookup_spec pal c HF). cbn [bind].
  eexists. split; [reflexivity|]. split; [rewrite map_length, Lc; unfold hn, wn; lia|].
  intros x y Hx Hy.
  replace (N.to_nat (y * w + x)) with (N.to_nat y * wn + N.to_nat x) by (unfold wn; lia).
  pose proof (Hcell (N.to_nat x) (N.to_nat y) ltac:(unfold wn; lia) ltac:(unfold hn; lia)) as E.
  rewrite !N2Nat.id in E.
  rewrite (map_nth_error _ _ _ E). f_equal.
  set (v := nth (N.to_nat (ci8_index w x y)) img 0%N) in *.
  pose proof (Hidx x y Hx Hy) as B. fold v in B.
  assert (Hv : 2 * N.to_nat v + 1 < length pal_data) by (unfold lenN in B, Hpal; lia).
  pose proof (rgb5a3_pixels_nth pal_data (N.to_nat v) Hv) as Ep. fold pal in Ep.
  rewrite (nth_error_nth _ _ ZERO_PX Ep). unfold be16_at.
  replace (N.to_nat (2 * v)) with (2 * N.to_nat v) by lia. replace (N.to_nat (2 * v + 1)) with (2 * N.to_nat v + 1) by lia.
  reflexivity.
Qed.
