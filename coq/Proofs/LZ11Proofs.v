(* C09: LZ13CompressionFormat::compress writes a 0x13 wrapper and a well-formed LZ11 stream; it never fails. *)
From Coq Require Import List NArith ZArith Arith Lia Bool ZifyBool ZifyNat ZifyN.
From Mila Require Import Lib.Bytes Lib.Machine Model.LZCore Model.LZ11 Model.LZSpec
  Proofs.LZBits Proofs.LZCoreProofs Proofs.LZTokens Proofs.LZEmitProofs Proofs.LZSpecProofs.
Import ListNotations.

(* the i32 shift/mask expressions of lz13.rs (on a negative number in the middle form) write the
   three reference forms of the format description *)
Lemma tok11_senc t : tok_range 4096 t -> tok11 t = senc V11 t.
Proof.
  destruct t as [b|len disp]; cbn [tok_range tok11 senc]; [reflexivity|]. intros [Hl Hd].
  rewrite !Z_shiftr4, !Z_shiftr8, !Z_shiftr12, !Z_shiftl4, !Z_land_15, !Z_land_255, !Z_land_240.
  destruct (Z.ltb_spec 272 (Z.of_nat len)) as [H272|H272].
  - destruct (N.leb_spec (N.of_nat len) 16) as [Hc|_]; [lia|].
    destruct (N.leb_spec (N.of_nat len) 272) as [Hc|_]; [lia|].
    change 16%Z with (1 * 16)%Z at 1. rewrite !Z_lor_16 by lia.
    cbn [map]. repeat (f_equal; [lia|]). f_equal; lia.
  - destruct (Z.ltb_spec 16 (Z.of_nat len)) as [H16|H16].
    + destruct (N.leb_spec (N.of_nat len) 16) as [Hc|_]; [lia|].
      destruct (N.leb_spec (N.of_nat len) 272) as [_|Hc]; [|lia].
      rewrite !Z_lor_16 by lia.
      cbn [map]. repeat (f_equal; [lia|]). f_equal; lia.
    + destruct (N.leb_spec (N.of_nat len) 16) as [_|Hc]; [|lia].
      rewrite !Z_lor_16 by lia.
      cbn [map]. repeat (f_equal; [lia|]). f_equal; lia.
Qed.

Local Open Scope N_scope.

Lemma le24_bytes n : n < 2 ^ 24 ->
  exists l0 l1 l2, le24 n = [l0; l1; l2] /\ l0 < 256 /\ l1 < 256 /\ l2 < 256 /\ l0 + 256 * l1 + 65536 * l2 = n.
Proof.
  intros Hn. unfold le24. do 3 eexists. split; [reflexivity|].
  rewrite !N_land_255, !N_shiftr_div. change (2 ^ 8) with 256. change (2 ^ 16) with 65536. change (2 ^ 24) with 16777216 in Hn.
  lia.
Qed.

Lemma le24_wfb n : wfb (le24 n).
Proof. unfold le24. rewrite !N_land_255. repeat constructor; lia. Qed.

(* ---------------------------------------------------------------- calculate_lz13_header never fails *)
Lemma hdr_search_res : forall n win rest cap l, (l = 1 \/ 3 <= l)%nat ->
  (hdr_search n win rest cap l = 1 \/ 3 <= hdr_search n win rest cap l)%nat.
Proof.
  induction n as [|n IH]; intros win rest cap l Hl; cbn [hdr_search]; [exact Hl|].
  apply IH. destruct (Nat.leb_spec 3 (cpl cap win rest)); cbn [andb]; [|exact Hl].
  destruct (Nat.ltb_spec l (cpl cap win rest)); [right; assumption | exact Hl].
Qed.

Lemma hdr_loop_total : forall fuel whole len sp ml bl fc, (len - sp <= fuel)%nat ->
  exists z, hdr_loop fuel whole len sp ml bl fc = Ok z.
Proof.
  induction fuel as [|fuel IH]; intros whole len sp ml bl fc Hf; cbn [hdr_loop].
  - destruct (Nat.leb_spec len sp); [eauto | lia].
  - destruct (Nat.leb_spec len sp) as [|Hlt]; [eauto|].
    set (l := hdr_search (Nat.min sp 4096 - 1) (skipn (sp - Nat.min sp 4096) whole) (skipn sp whole) (len - sp) 1).
    destruct (hdr_search_res (Nat.min sp 4096 - 1) (skipn (sp - Nat.min sp 4096) whole) (skipn sp whole) (len - sp) 1 ltac:(left; reflexivity)) as [H1|H3];
      fold l in H1 || fold l in H3.
    + rewrite H1. cbn [Nat.eqb].
      destruct (Z.eqb_spec (w32 (fc + 1)) 8); apply IH; lia.
    + destruct (Nat.eqb_spec l 1) as [E|_]; [lia|].
      destruct (Nat.leb_spec l 2) as [E|_]; [lia|].
      destruct (Nat.leb l 16); [destruct (Z.eqb_spec (w32 (fc + 1)) 8); apply IH; lia|].
      destruct (Nat.leb l 272); destruct (Z.eqb_spec (w32 (fc + 1)) 8); apply IH; lia.
Qed.

Lemma calculate_lz13_header_total x : exists h, calculate_lz13_header x = Ok h.
Proof.
  unfold calculate_lz13_header.
  destruct (hdr_loop_total (length x) x (length x) 0 0%Z 9%Z 0%Z ltac:(lia)) as [z Hz].
  rewrite Hz. cbn [bind]. eauto.
Qed.

(* ---------------------------------------------------------------- layout of the output *)
Theorem compress13_enc m x : lenN x < 2 ^ 63 ->
  exists h, compress13 m x = Ok (header13 h (lenN x) ++ enc_body (senc V11) (tokens 4096 x)).
Proof.
  intros Hn. destruct (calculate_lz13_header_total x) as [h Hh]. exists h.
  unfold compress13, compress13_with. rewrite Hh. cbn [bind].
  change (2 ^ 63) with 9223372036854775808 in Hn.
  assert (Hmax : maxw W64 = 18446744073709551616) by reflexivity.
  rewrite (add_w_ok W64 m 12 (lenN x)) by (rewrite Hmax; lia). cbn [bind].
  rewrite (add_w_ok W64 m (lenN x) 7) by (rewrite Hmax; lia). cbn [bind].
  rewrite add_w_ok by (rewrite Hmax, N_shiftr_div; change (2 ^ 3) with 8; lia). cbn [bind].
  rewrite emit_loop_enc. do 2 f_equal. apply enc_body_ext.
  eapply Forall_impl; [|apply tokens_ranges]. intros t Ht. apply tok11_senc. exact Ht.
Qed.

Definition ref_in_range11 (t : token) : Prop :=
  match t with Lit _ => True | Ref len disp => (3 <= len <= 4096 /\ 1 <= disp <= 4096)%nat end.

Theorem compress13_wellformed m x : x <> [] -> wfb x -> lenN x < 2 ^ 24 ->
  exists h s ts, compress13 m x = Ok (0x13 :: h ++ s) /\ length h = 3%nat /\
                 sparse11 s = Some (lenN x, ts) /\ Forall ref_in_range11 ts /\ expand ts = Some x.
Proof.
  intros Hne Hw Hn.
  assert (Hn63 : lenN x < 2 ^ 63).
  { change (2 ^ 24) with 16777216 in Hn. change (2 ^ 63) with 9223372036854775808. lia. }
  destruct (compress13_enc m x Hn63) as [h Hc].
  assert (Hpos : lenN x <> 0). { destruct x; [congruence | unfold lenN; cbn [length]; lia]. }
  exists (le24 h), (0x11 :: le24 (lenN x) ++ enc_body (senc V11) (tokens 4096 x)), (tokens 4096 x).
  split; [|split; [reflexivity | split; [|split]]].
  - rewrite Hc. unfold header13.
    destruct (N.eqb_spec (lenN x) 0) as [E|_]; [congruence|].
    destruct (N.ltb_spec 16777215 (lenN x)) as [E|_]; [change (2 ^ 24) with 16777216 in Hn; lia|].
    cbn [orb app]. rewrite <- !app_assoc. reflexivity.
  - pose proof (tokens_valid V11 4096 x Hw ltac:(cbn; lia)) as Hv.
    destruct (le24_bytes (lenN x) Hn) as (l0 & l1 & l2 & Hh & H0 & H1 & H2 & Hsum).
    rewrite Hh. unfold sparse11.
    assert (Hwf : wfbb (17 :: [l0; l1; l2] ++ enc_body (senc V11) (tokens 4096 x)) = true).
    { apply wfbb_spec. constructor; [lia|]. apply wfb_app; [repeat constructor; lia | apply wfb_enc_body; exact Hv]. }
    rewrite Hwf. cbn [negb app]. cbv beta iota. rewrite Hsum.
    destruct (N.eqb_spec (lenN x) 0) as [E|_]; [congruence|].
    rewrite sbody_enc; [reflexivity | exact Hv |]. rewrite tokens_total. reflexivity.
  - eapply Forall_impl; [|apply (tokens_ranges 4096 x)]. intros [b|len disp]; cbn [tok_range ref_in_range11]; lia.
  - apply tokens_expand.
Qed.

(* never Panic, never Err, the empty input included (inputs the i32 header computation is modelled for) *)
Theorem compress13_total m x : lenN x < 2 ^ 31 -> exists r, compress13 m x = Ok r.
Proof.
  intros Hn. destruct (compress13_enc m x) as [h Hc]; [|eauto].
  change (2 ^ 31) with 2147483648 in Hn. change (2 ^ 63) with 9223372036854775808. lia.
Qed.

(* the repaired empty input (F12) *)
Lemma compress13_empty m : compress13 m [] = Ok [0x13; 9; 0; 0; 0x11; 0; 0; 0; 0; 0; 0; 0].
Proof. destruct m; vm_compute; reflexivity. Qed.
