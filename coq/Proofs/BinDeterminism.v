(* C02, part 1: serialize does not depend on the iteration order of the four hash maps
   (nor, therefore, on the API history that produced them). *)
From Coq Require Import List NArith ZArith Bool Lia Permutation Sorted.
From Mila Require Import Lib.Bytes Lib.Machine Model.BinArchive Model.BinFormat Proofs.SortLemmas Proofs.AMapLemmas.
Import ListNotations.
Local Open Scope N_scope.

(* ---- order on label buckets ---- *)
Lemma bucket_cmp_refl a : bucket_cmp a a = Eq.
Proof. induction a as [|x a IH]; cbn [bucket_cmp]; [reflexivity|]. rewrite bytes_cmp_refl. exact IH. Qed.
Lemma bucket_cmp_eq a b : bucket_cmp a b = Eq -> a = b.
Proof.
  revert b; induction a as [|x a IH]; intros [|y b]; cbn [bucket_cmp]; try discriminate; [reflexivity|].
  destruct (bytes_cmp x y) eqn:E; try discriminate. intros Hc. apply bytes_cmp_eq in E. subst. f_equal. apply IH. exact Hc.
Qed.
Lemma bucket_cmp_antisym a b : bucket_cmp b a = CompOpp (bucket_cmp a b).
Proof.
  revert b; induction a as [|x a IH]; intros [|y b]; cbn [bucket_cmp CompOpp]; try reflexivity.
  rewrite (bytes_cmp_antisym x y). destruct (bytes_cmp x y); cbn [CompOpp]; [apply IH | reflexivity | reflexivity].
Qed.
Lemma bucket_cmp_trans_lt a b c : bucket_cmp a b = Lt -> bucket_cmp b c = Lt -> bucket_cmp a c = Lt.
Proof.
  revert b c; induction a as [|x a IH]; intros [|y b] [|z c]; cbn [bucket_cmp]; try discriminate; try reflexivity.
  destruct (bytes_cmp x y) eqn:Exy; destruct (bytes_cmp y z) eqn:Eyz; try discriminate; intros H1 H2.
  - apply bytes_cmp_eq in Exy, Eyz. subst. rewrite bytes_cmp_refl. eapply IH; eauto.
  - apply bytes_cmp_eq in Exy. subst. rewrite Eyz. reflexivity.
  - apply bytes_cmp_eq in Eyz. subst. rewrite Exy. reflexivity.
  - rewrite (bytes_cmp_trans_lt x y z Exy Eyz). reflexivity.
Qed.

Lemma label_leb_be_total x y : label_leb_be x y = true \/ label_leb_be y x = true.
Proof.
  unfold label_leb_be. rewrite (bucket_cmp_antisym (snd x) (snd y)). destruct (bucket_cmp (snd x) (snd y)); cbn [CompOpp]; auto.
  destruct (N.leb_spec (fst x) (fst y)); [left; reflexivity | right; apply N.leb_le; lia].
Qed.
Lemma label_leb_be_trans x y z : label_leb_be x y = true -> label_leb_be y z = true -> label_leb_be x z = true.
Proof.
  unfold label_leb_be.
  destruct (bucket_cmp (snd x) (snd y)) eqn:E1; try discriminate; destruct (bucket_cmp (snd y) (snd z)) eqn:E2; try discriminate; intros H1 H2.
  - apply bucket_cmp_eq in E1, E2. rewrite E1, E2, bucket_cmp_refl. rewrite N.leb_le in *. lia.
  - apply bucket_cmp_eq in E1. rewrite E1, E2. reflexivity.
  - apply bucket_cmp_eq in E2. rewrite <- E2, E1. reflexivity.
  - rewrite (bucket_cmp_trans_lt _ _ _ E1 E2). reflexivity.
Qed.
Lemma label_leb_be_antisym (x y : N * list bytes) :
  label_leb_be x y = true -> label_leb_be y x = true -> x = y.
Proof.
  unfold label_leb_be. rewrite (bucket_cmp_antisym (snd x) (snd y)).
  destruct (bucket_cmp (snd x) (snd y)) eqn:E; cbn [CompOpp]; try discriminate.
  apply bucket_cmp_eq in E. rewrite !N.leb_le. intros H1 H2. destruct x, y; cbn [fst snd] in *. f_equal; [lia | exact E].
Qed.

(* ---- the keyed order: label_leb_be on (address, keys of the names) ---- *)
Definition keyed (kf : name_key) (x : N * list bytes) : N * list bytes := (fst x, map kf (snd x)).
Lemma label_leb_be_k_total kf x y : label_leb_be_k kf x y = true \/ label_leb_be_k kf y x = true.
Proof. apply label_leb_be_total. Qed.
Lemma label_leb_be_k_trans kf x y z :
  label_leb_be_k kf x y = true -> label_leb_be_k kf y z = true -> label_leb_be_k kf x z = true.
Proof. apply label_leb_be_trans. Qed.
(* two entries that the keyed order cannot tell apart have the same address and the same keys *)
Lemma label_leb_be_k_antisym kf x y :
  label_leb_be_k kf x y = true -> label_leb_be_k kf y x = true -> fst x = fst y /\ map kf (snd x) = map kf (snd y).
Proof.
  intros H1 H2. pose proof (label_leb_be_antisym _ _ H1 H2) as E. inversion E. split; reflexivity.
Qed.

(* the key function is injective on the names of a label table (the library's decoder is, on lossless names) *)
Definition key_injective_on (kf : name_key) (names : list bytes) : Prop :=
  forall n n', In n names -> In n' names -> kf n = kf n' -> n = n'.
Definition label_names_of (l : list (N * list bytes)) : list bytes := concat (map snd l).
Lemma map_key_inj kf names : key_injective_on kf names ->
  forall b b', incl b names -> incl b' names -> map kf b = map kf b' -> b = b'.
Proof.
  intros Hinj. induction b as [|x b IH]; intros [|y b'] I1 I2 E; cbn [map] in E; try discriminate; [reflexivity|].
  inversion E as [[E1 E2]]. f_equal.
  - apply Hinj; [apply I1; left; reflexivity | apply I2; left; reflexivity | exact E1].
  - apply IH; [intros z Hz; apply I1; right; exact Hz | intros z Hz; apply I2; right; exact Hz | exact E2].
Qed.
Lemma bucket_incl_names (l : list (N * list bytes)) x : In x l -> incl (snd x) (label_names_of l).
Proof. intros Hx z Hz. unfold label_names_of. apply in_concat. exists (snd x). split; [apply in_map; exact Hx | exact Hz]. Qed.

(* the sort of the label table does not depend on the order of its input: for EVERY key function when the
   addresses are distinct (they are the keys of a map), and for an injective key function in any case *)
Lemma isort_labels_perm_invariant kf e (l l' : list (N * list bytes)) :
  NoDup (map fst l) -> Permutation l l' -> isort (label_leb kf e) l = isort (label_leb kf e) l'.
Proof.
  intros Hnd Hp. destruct e; unfold label_leb.
  - apply (isort_key_perm_invariant l l' Hnd Hp).
  - apply isort_perm_invariant; [apply label_leb_be_k_total | apply label_leb_be_k_trans | | exact Hp].
    intros x y Hx Hy H1 H2. apply (nodup_fst_inj l); auto. apply (label_leb_be_k_antisym kf x y H1 H2).
Qed.
(* the weakest condition: no two entries of the table share address AND keys *)
Definition keys_separate (kf : name_key) (l : list (N * list bytes)) : Prop :=
  forall x y, In x l -> In y l -> fst x = fst y -> map kf (snd x) = map kf (snd y) -> x = y.
Lemma keys_separate_nodup kf l : NoDup (map fst l) -> keys_separate kf l.
Proof. intros Hnd x y Hx Hy E _. apply (nodup_fst_inj l); assumption. Qed.
Lemma keys_separate_inj kf l : key_injective_on kf (label_names_of l) -> keys_separate kf l.
Proof.
  intros Hinj [k b] [k' b'] Hx Hy E1 E2. cbn [fst snd] in *. f_equal; [exact E1|].
  apply (map_key_inj kf _ Hinj); [apply (bucket_incl_names l (k, b) Hx) | apply (bucket_incl_names l (k', b') Hy) | exact E2].
Qed.
Lemma isort_labels_be_perm_invariant_sep kf (l l' : list (N * list bytes)) :
  keys_separate kf l -> Permutation l l' -> isort (label_leb_be_k kf) l = isort (label_leb_be_k kf) l'.
Proof.
  intros Hsep Hp.
  apply isort_perm_invariant; [apply label_leb_be_k_total | apply label_leb_be_k_trans | | exact Hp].
  intros x y Hx Hy H1 H2. destruct (label_leb_be_k_antisym kf x y H1 H2) as [E1 E2]. apply Hsep; assumption.
Qed.
Lemma isort_labels_be_perm_invariant_inj kf (l l' : list (N * list bytes)) :
  key_injective_on kf (label_names_of l) -> Permutation l l' ->
  isort (label_leb_be_k kf) l = isort (label_leb_be_k kf) l'.
Proof. intros Hinj. apply isort_labels_be_perm_invariant_sep, keys_separate_inj, Hinj. Qed.

(* a little-endian image does not depend on the key function *)
Lemma serialize_k_LE kf kf' m a : a_endian a = LE -> serialize_k kf m a = serialize_k kf' m a.
Proof. intros E. unfold serialize_k. rewrite E. reflexivity. Qed.
(* with the encoded bytes as keys the keyed order is the byte order of the names *)
Lemma label_leb_be_key_bytes x y : label_leb_be_k key_bytes x y = label_leb_be x y.
Proof. unfold label_leb_be_k, key_bytes. rewrite !map_id. destruct x, y; reflexivity. Qed.

Definition cs_leb (x y : bytes * list N) : bool := bytes_leb (fst x) (fst y).
Lemma isort_cstrs_perm_invariant (l l' : list (bytes * list N)) :
  NoDup (map fst l) -> Permutation l l' -> isort cs_leb l = isort cs_leb l'.
Proof.
  intros Hnd Hp. apply isort_perm_invariant; [| | | exact Hp].
  - intros x y. apply bytes_leb_total.
  - intros x y z. apply bytes_leb_trans.
  - intros x y Hx Hy H1 H2. apply (nodup_fst_inj l); auto. apply bytes_leb_antisym; assumption.
Qed.

(* equal content, different hash orders *)
Definition same_content (a a' : archive) : Prop :=
  a_data a' = a_data a /\ a_endian a' = a_endian a /\
  Permutation (a_text a) (a_text a') /\ Permutation (a_ptrs a) (a_ptrs a') /\
  Permutation (a_labels a) (a_labels a') /\ Permutation (a_cstrs a) (a_cstrs a').

(* the maps are maps: one entry per key; a cell is a pointer or a pending c-string, not both *)
Definition keys_distinct (a : archive) : Prop :=
  NoDup (map fst (a_text a)) /\ NoDup (map fst (a_labels a)) /\ NoDup (map fst (a_cstrs a)) /\
  forall cptrs, NoDup (map fst cptrs) ->
    (forall c, In c (map fst cptrs) <-> exists s cells, In (s, cells) (a_cstrs a) /\ In c cells) ->
    NoDup (map fst (a_ptrs a ++ cptrs)).

Lemma cstr_pool_cells base : forall cs p acc,
  map fst (snd (cstr_pool base cs p acc)) = map fst acc ++ concat (map snd cs).
Proof.
  induction cs as [|[s cells] r IH]; intros p acc; cbn [cstr_pool map snd concat]; [rewrite app_nil_r; reflexivity|].
  destruct (add_text p s) as [p' off]. rewrite IH. rewrite map_app, map_map. cbn [fst]. rewrite map_id, <- app_assoc. reflexivity.
Qed.

Theorem serialize_order_independent kf m a a' :
  same_content a a' ->
  NoDup (map fst (a_text a)) -> NoDup (map fst (a_labels a)) -> NoDup (map fst (a_cstrs a)) ->
  NoDup (map fst (a_ptrs a) ++ concat (map snd (a_cstrs a))) ->
  serialize_k kf m a = serialize_k kf m a'.
Proof.
  intros (Hd & He & Pt & Pp & Pl & Pc) Nt Nl Nc Np. unfold serialize_k. unfold size. rewrite Hd, He.
  change (fun x y : bytes * list N => bytes_leb (fst x) (fst y)) with cs_leb.
  rewrite <- (isort_cstrs_perm_invariant (a_cstrs a) (a_cstrs a') Nc Pc).
  destruct (cstr_pool (lenN (a_data a)) (isort cs_leb (a_cstrs a)) pool_empty []) as [cpool cptrs] eqn:Ecp.
  change (fun x y : N * N => fst x <=? fst y) with (@key_leb N).
  assert (Hptr : isort key_leb (a_ptrs a ++ cptrs) = isort key_leb (a_ptrs a' ++ cptrs)).
  { apply isort_key_perm_invariant; [|apply Permutation_app_tail; exact Pp].
    rewrite map_app. pose proof (cstr_pool_cells (lenN (a_data a)) (isort cs_leb (a_cstrs a)) pool_empty []) as Hc.
    rewrite Ecp in Hc. cbn [snd map app] in Hc. rewrite Hc.
    eapply Permutation_NoDup; [|exact Np]. apply Permutation_app_head.
    apply Permutation_concat || idtac.
    assert (Pm : Permutation (map snd (a_cstrs a)) (map snd (isort cs_leb (a_cstrs a)))) by (apply Permutation_map, isort_perm).
    clear -Pm. induction Pm; cbn [concat]; try reflexivity.
    - apply Permutation_app_head; assumption.
    - rewrite !app_assoc. apply Permutation_app_tail, Permutation_app_comm.
    - etransitivity; eassumption. }
  rewrite Hptr.
  rewrite <- (isort_labels_perm_invariant kf (a_endian a) (a_labels a) (a_labels a') Nl Pl).
  change (fun x y : N * bytes => fst x <=? fst y) with (@key_leb bytes).
  rewrite <- (isort_key_perm_invariant (a_text a) (a_text a') Nt Pt).
  rewrite <- (Permutation_length Pt).
  reflexivity.
Qed.

(* ---- equal observations => equal content: the observational form of the theorem ---- *)
Lemma am_get_app {V} (l1 l2 : amap V) x :
  am_get x (l1 ++ l2) = match am_get x l1 with Some v => Some v | None => am_get x l2 end.
Proof.
  induction l1 as [|[k v] r IH]; cbn [app am_get]; [reflexivity|]. destruct (x =? k); [reflexivity | exact IH].
Qed.

Lemma lookups_perm {V} : forall (m m' : amap V),
  NoDup (map fst m) -> NoDup (map fst m') -> (forall k, am_get k m = am_get k m') -> Permutation m m'.
Proof.
  induction m as [|[k v] r IH]; intros m' N1 N2 Hget.
  - destruct m' as [|[k' v'] r']; [constructor|]. specialize (Hget k'). cbn [am_get] in Hget. rewrite N.eqb_refl in Hget. discriminate.
  - inversion N1 as [|? ? Hn Hr]; subst.
    assert (Hin : In (k, v) m').
    { apply am_get_in. rewrite <- Hget. cbn [am_get]. rewrite N.eqb_refl. reflexivity. }
    apply in_split in Hin. destruct Hin as (l1 & l2 & ->).
    rewrite <- Permutation_middle. apply perm_skip. apply IH; [exact Hr| |].
    + rewrite map_app in *. cbn [map fst] in N2. apply NoDup_remove_1 in N2. exact N2.
    + intros x. destruct (N.eqb_spec x k) as [E|E].
      * subst x. rewrite map_app in N2. cbn [map fst] in N2. apply NoDup_remove_2 in N2. rewrite <- map_app in N2.
        transitivity (@None V); [apply am_get_none; exact Hn | symmetry; apply am_get_none; exact N2].
      * specialize (Hget x). cbn [am_get] in Hget. destruct (N.eqb_spec x k); [congruence|].
        rewrite Hget, !am_get_app. cbn [am_get]. destruct (N.eqb_spec x k); [congruence | reflexivity].
Qed.

(* archives that answer every lookup alike (whatever history or hash state produced them) *)
Definition same_observations (a a' : archive) : Prop :=
  a_data a' = a_data a /\ a_endian a' = a_endian a /\ a_cstrs a = [] /\ a_cstrs a' = [] /\
  (forall k, am_get k (a_text a) = am_get k (a_text a')) /\
  (forall k, am_get k (a_ptrs a) = am_get k (a_ptrs a')) /\
  (forall k, am_get k (a_labels a) = am_get k (a_labels a')).
Definition maps_are_maps (a : archive) : Prop :=
  NoDup (map fst (a_text a)) /\ NoDup (map fst (a_ptrs a)) /\ NoDup (map fst (a_labels a)).

Theorem serialize_deterministic kf m a a' :
  maps_are_maps a -> maps_are_maps a' -> same_observations a a' -> serialize_k kf m a = serialize_k kf m a'.
Proof.
  intros (T1 & P1 & L1) (T2 & P2 & L2) (Hd & He & C1 & C2 & Gt & Gp & Gl).
  apply serialize_order_independent; try assumption.
  - repeat split; try assumption; try (apply lookups_perm; assumption). rewrite C1, C2. constructor.
  - rewrite C1. constructor.
  - rewrite C1. cbn [map concat]. rewrite app_nil_r. exact P1.
Qed.
