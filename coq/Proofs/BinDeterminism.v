(* C02, part 1: serialize does not depend on the iteration order of the four hash maps
   (nor, therefore, on the API history that produced them). *)
From Coq Require Import List NArith ZArith Bool Lia Permutation Sorted.
From Mila Require Import Lib.Bytes Lib.Machine Model.BinArchive Model.BinFormat Proofs.SortLemmas Proofs.AMapLemmas.
Import ListNotations.
Local Open Scope N_scope.

(* ---- order on label buckets ---- *)
Lemma bucket_cmp_refl a : bucket_cmp a a = Eq.
Proof. induction a as [|x a IH]; cbn [bucket_cmp]; [reflexivity|]. rewrite bytes_cmp_refl. exact IH. Qed.
Lemma bucket_cmp_eq a b : bucket_cmp a b = Eq -> a = b.
Proof.
  revert b; induction a as [|x a IH]; intros [|y b]; cbn [bucket_cmp]; try discriminate; [reflexivity|].
  destruct (bytes_cmp x y) eqn:E; try discriminate. intros Hc. apply bytes_cmp_eq in E. subst. f_equal. apply IH. exact Hc.
Qed.
Lemma bucket_cmp_antisym a b : bucket_cmp b a = CompOpp (bucket_cmp a b).
Proof.
  revert b; induction a as [|x a IH]; intros [|y b]; cbn [bucket_cmp CompOpp]; try reflexivity.
  rewrite (bytes_cmp_antisym x y). destruct (bytes_cmp x y); cbn [CompOpp]; [apply IH | reflexivity | reflexivity].
Qed.
Lemma bucket_cmp_trans_lt a b c : bucket_cmp a b = Lt -> bucket_cmp b c = Lt -> bucket_cmp a c = Lt.
Proof.
  revert b c; induction a as [|x a IH]; intros [|y b] [|z c]; cbn [bucket_cmp]; try discriminate; try reflexivity.
  destruct (bytes_cmp x y) eqn:Exy; destruct (bytes_cmp y z) eqn:Eyz; try discriminate; intros H1 H2.
  - apply bytes_cmp_eq in Exy, Eyz. subst. rewrite bytes_cmp_refl. eapply IH; eauto.
  - apply bytes_cmp_eq in Exy. subst. rewrite Eyz. reflexivity.
  - apply bytes_cmp_eq in Eyz. subst. rewrite Exy. reflexivity.
  - rewrite (bytes_cmp_trans_lt x y z Exy Eyz). reflexivity.
Qed.

Lemma label_leb_be_total x y : label_leb_be x y = true \/ label_leb_be y x = true.
Proof.
  unfold label_leb_be. rewrite (bucket_cmp_antisym (snd x) (snd y)). destruct (bucket_cmp (snd x) (snd y)); cbn [CompOpp]; auto.
  destruct (N.leb_spec (fst x) (fst y)); [left; reflexivity | right; apply N.leb_le; lia].
Qed.
Lemma label_leb_be_trans x y z : label_leb_be x y = true -> label_leb_be y z = true -> label_leb_be x z = true.
Proof.
  unfold label_leb_be.
  destruct (bucket_cmp (snd x) (snd y)) eqn:E1; try discriminate; destruct (bucket_cmp (snd y) (snd z)) eqn:E2; try discriminate; intros H1 H2.
  - apply bucket_cmp_eq in E1, E2. rewrite E1, E2, bucket_cmp_refl. rewrite N.leb_le in *. lia.
  - apply bucket_cmp_eq in E1. rewrite E1, E2. reflexivity.
  - apply bucket_cmp_eq in E2. rewrite <- E2, E1. reflexivity.
  - rewrite (bucket_cmp_trans_lt _ _ _ E1 E2). reflexivity.
Qed.
Lemma label_leb_be_antisym (x y : N * list bytes) :
  label_leb_be x y = true -> label_leb_be y x = true -> x = y.
Proof.
  unfold label_leb_be. rewrite (bucket_cmp_antisym (snd x) (snd y)).
  destruct (bucket_cmp (snd x) (snd y)) eqn:E; cbn [CompOpp]; try discriminate.
  apply bucket_cmp_eq in E. rewrite !N.leb_le. intros H1 H2. destruct x, y; cbn [fst snd] in *. f_equal; [lia | exact E].
Qed.

Lemma isort_labels_perm_invariant e (l l' : list (N * list bytes)) :
  NoDup (map fst l) -> Permutation l l' ->
  isort (match e with BE => label_leb_be | LE => label_leb_le end) l =
  isort (match e with BE => label_leb_be | LE => label_leb_le end) l'.
Proof.
  intros Hnd Hp. destruct e.
  - apply (isort_key_perm_invariant l l' Hnd Hp).
  - apply isort_perm_invariant; [apply label_leb_be_total | apply label_leb_be_trans | | exact Hp].
    intros x y _ _. apply label_leb_be_antisym.
Qed.

Definition cs_leb (x y : bytes * list N) : bool := bytes_leb (fst x) (fst y).
Lemma isort_cstrs_perm_invariant (l l' : list (bytes * list N)) :
  NoDup (map fst l) -> Permutation l l' -> isort cs_leb l = isort cs_leb l'.
Proof.
  intros Hnd Hp. apply isort_perm_invariant; [| | | exact Hp].
  - intros x y. apply bytes_leb_total.
  - intros x y z. apply bytes_leb_trans.
  - intros x y Hx Hy H1 H2. apply (nodup_fst_inj l); auto. apply bytes_leb_antisym; assumption.
Qed.

(* equal content, different hash orders *)
Definition same_content (a a' : archive) : Prop :=
  a_data a' = a_data a /\ a_endian a' = a_endian a /\
  Permutation (a_text a) (a_text a') /\ Permutation (a_ptrs a) (a_ptrs a') /\
  Permutation (a_labels a) (a_labels a') /\ Permutation (a_cstrs a) (a_cstrs a').

(* the maps are maps: one entry per key; a cell is a pointer or a pending c-string, not both *)
Definition keys_distinct (a : archive) : Prop :=
  NoDup (map fst (a_text a)) /\ NoDup (map fst (a_labels a)) /\ NoDup (map fst (a_cstrs a)) /\
  forall cptrs, NoDup (map fst cptrs) ->
    (forall c, In c (map fst cptrs) <-> exists s cells, In (s, cells) (a_cstrs a) /\ In c cells) ->
    NoDup (map fst (a_ptrs a ++ cptrs)).

Lemma cstr_pool_cells base : forall cs p acc,
  map fst (snd (cstr_pool base cs p acc)) = map fst acc ++ concat (map snd cs).
Proof.
  induction cs as [|[s cells] r IH]; intros p acc; cbn [cstr_pool map snd concat]; [rewrite app_nil_r; reflexivity|].
  destruct (add_text p s) as [p' off]. rewrite IH. rewrite map_app, map_map. cbn [fst]. rewrite map_id, <- app_assoc. reflexivity.
Qed.

Theorem serialize_order_independent m a a' :
  same_content a a' ->
  NoDup (map fst (a_text a)) -> NoDup (map fst (a_labels a)) -> NoDup (map fst (a_cstrs a)) ->
  NoDup (map fst (a_ptrs a) ++ concat (map snd (a_cstrs a))) ->
  serialize m a = serialize m a'.
Proof.
  intros (Hd & He & Pt & Pp & Pl & Pc) Nt Nl Nc Np. unfold serialize. unfold size. rewrite Hd, He.
  change (fun x y : bytes * list N => bytes_leb (fst x) (fst y)) with cs_leb.
  rewrite <- (isort_cstrs_perm_invariant (a_cstrs a) (a_cstrs a') Nc Pc).
  destruct (cstr_pool (lenN (a_data a)) (isort cs_leb (a_cstrs a)) pool_empty []) as [cpool cptrs] eqn:Ecp.
  change (fun x y : N * N => fst x <=? fst y) with (@key_leb N).
  assert (Hptr : isort key_leb (a_ptrs a ++ cptrs) = isort key_leb (a_ptrs a' ++ cptrs)).
  { apply isort_key_perm_invariant; [|apply Permutation_app_tail; exact Pp].
    rewrite map_app. pose proof (cstr_pool_cells (lenN (a_data a)) (isort cs_leb (a_cstrs a)) pool_empty []) as Hc.
    rewrite Ecp in Hc. cbn [snd map app] in Hc. rewrite Hc.
    eapply Permutation_NoDup; [|exact Np]. apply Permutation_app_head.
    apply Permutation_concat || idtac.
    assert (Pm : Permutation (map snd (a_cstrs a)) (map snd (isort cs_leb (a_cstrs a)))) by (apply Permutation_map, isort_perm).
    clear -Pm. induction Pm; cbn [concat]; try reflexivity.
    - apply Permutation_app_head; assumption.
    - rewrite !app_assoc. apply Permutation_app_tail, Permutation_app_comm.
    - etransitivity; eassumption. }
  rewrite Hptr.
  rewrite <- (isort_labels_perm_invariant (a_endian a) (a_labels a) (a_labels a') Nl Pl).
  change (fun x y : N * bytes => fst x <=? fst y) with (@key_leb bytes).
  rewrite <- (isort_key_perm_invariant (a_text a) (a_text a') Nt Pt).
  rewrite <- (Permutation_length Pt).
  reflexivity.
Qed.

(* ---- equal observations => equal content: the observational form of the theorem ---- *)
Lemma am_get_app {V} (l1 l2 : amap V) x :
  am_get x (l1 ++ l2) = match am_get x l1 with Some v => Some v | None => am_get x l2 end.
Proof.
  induction l1 as [|[k v] r IH]; cbn [app am_get]; [reflexivity|]. destruct (x =? k); [reflexivity | exact IH].
Qed.

Lemma lookups_perm {V} : forall (m m' : amap V),
  NoDup (map fst m) -> NoDup (map fst m') -> (forall k, am_get k m = am_get k m') -> Permutation m m'.
Proof.
  induction m as [|[k v] r IH]; intros m' N1 N2 Hget.
  - destruct m' as [|[k' v'] r']; [constructor|]. specialize (Hget k'). cbn [am_get] in Hget. rewrite N.eqb_refl in Hget. discriminate.
  - inversion N1 as [|? ? Hn Hr]; subst.
    assert (Hin : In (k, v) m').
    { apply am_get_in. rewrite <- Hget. cbn [am_get]. rewrite N.eqb_refl. reflexivity. }
    apply in_split in Hin. destruct Hin as (l1 & l2 & ->).
    rewrite <- Permutation_middle. apply perm_skip. apply IH; [exact Hr| |].
    + rewrite map_app in *. cbn [map fst] in N2. apply NoDup_remove_1 in N2. exact N2.
    + intros x. destruct (N.eqb_spec x k) as [E|E].
      * subst x. rewrite map_app in N2. cbn [map fst] in N2. apply NoDup_remove_2 in N2. rewrite <- map_app in N2.
        transitivity (@None V); [apply am_get_none; exact Hn | symmetry; apply am_get_none; exact N2].
      * specialize (Hget x). cbn [am_get] in Hget. destruct (N.eqb_spec x k); [congruence|].
        rewrite Hget, !am_get_app. cbn [am_get]. destruct (N.eqb_spec x k); [congruence | reflexivity].
Qed.

(* archives that answer every lookup alike (whatever history or hash state produced them) *)
Definition same_observations (a a' : archive) : Prop :=
  a_data a' = a_data a /\ a_endian a' = a_endian a /\ a_cstrs a = [] /\ a_cstrs a' = [] /\
  (forall k, am_get k (a_text a) = am_get k (a_text a')) /\
  (forall k, am_get k (a_ptrs a) = am_get k (a_ptrs a')) /\
  (forall k, am_get k (a_labels a) = am_get k (a_labels a')).
Definition maps_are_maps (a : archive) : Prop :=
  NoDup (map fst (a_text a)) /\ NoDup (map fst (a_ptrs a)) /\ NoDup (map fst (a_labels a)).

Theorem serialize_deterministic m a a' :
  maps_are_maps a -> maps_are_maps a' -> same_observations a a' -> serialize m a = serialize m a'.
Proof.
  intros (T1 & P1 & L1) (T2 & P2 & L2) (Hd & He & C1 & C2 & Gt & Gp & Gl).
  apply serialize_order_independent; try assumption.
  - repeat split; try assumption; try (apply lookups_perm; assumption). rewrite C1, C2. constructor.
  - rewrite C1. constructor.
  - rewrite C1. cbn [map concat]. rewrite app_nil_r. exact P1.
Qed.
