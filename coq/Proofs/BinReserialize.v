(* C02, last sentence: parsing then re-serializing a file written by serialize reproduces it byte
   for byte.  The parsed archive differs from the original only in its data, which is the already
   poked data of the image; poking the same values into it again changes nothing. *)
From Coq Require Import List NArith ZArith Arith Bool Lia Permutation ZifyBool ZifyNat ZifyN.
From Mila Require Import Lib.Bytes Lib.BytesExtra Lib.Machine Model.BinArchive Model.BinFormat
  Proofs.AMapLemmas Proofs.SortLemmas Proofs.BinFormatSpec Proofs.BinParserCorrect Proofs.BinDeterminism
  Proofs.BinSerializeConformsBase Proofs.BinSerializeConformsPhases Proofs.BinSerializeConforms.
Import ListNotations.
Local Open Scope N_scope.
Ltac Zify.zify_post_hook ::= Z.div_mod_to_equations.

(* ------------------------------------------------------------------ poking what is already there *)
Lemma poke_same e d c v : wfb d -> u32_at e d c = Some (trunc_w 32 v) -> poke_u32 e d c v = Ok d.
Proof.
  intros W Hu. pose proof (u32_at_Some_bound _ _ _ _ Hu) as Hb.
  destruct (poke_decomp e d c v Hb) as (A & old & B & Ed & LA & Lo & Hp). rewrite Hp. f_equal. rewrite Ed. do 2 f_equal.
  assert (Hold : u32_at e d c = Some (dec e old)).
  { rewrite Ed, <- LA. unfold u32_at. replace 4 with (lenN old). rewrite sliceN_app_exact. reflexivity. }
  rewrite Hu in Hold. inversion Hold as [Hv]. rewrite Hv.
  assert (Wo : wfb old). { rewrite Ed in W. apply wfb_app_inv in W. destruct W as [_ W]. apply wfb_app_inv in W. apply W. }
  assert (L4 : length old = 4%nat) by (unfold lenN in Lo; lia). rewrite <- L4. apply enc_dec, Wo.
Qed.

Lemma poke_all_same e ps : forall d, wfb d -> (forall c v, In (c, v) ps -> u32_at e d c = Some (trunc_w 32 v)) ->
  poke_all e d ps = Ok d.
Proof.
  induction ps as [|[c v] r IH]; intros d W H; cbn [poke_all]; [reflexivity|].
  rewrite (poke_same e d c v W) by (apply H; left; reflexivity). cbn [bind]. apply IH; [exact W|]. intros c0 v0 Hin. apply H. right. exact Hin.
Qed.

(* running the string phase again on data that already holds its results *)
Lemma emit_text_rerun e tstart ts : forall d p g d' p' g',
  pool_ok p -> cells_ok (lenN d) (map fst ts) ->
  emit_text e tstart ts d p g = Ok (d', p', g') ->
  forall D, wfb D -> (forall c, In c (map fst ts) -> u32_at e D c = u32_at e d' c) ->
  emit_text e tstart ts D p g = Ok (D, p', g').
Proof.
  induction ts as [|[c s] r IH]; intros d p g d' p' g' Hok Hcells E D W HD; cbn [emit_text] in *.
  - inversion E; subst. reflexivity.
  - cbn [map fst] in Hcells, HD. destruct (cells_ok_cons _ _ _ Hcells) as (Hin & Hnot & Hsep & Hcells').
    destruct (add_text p s) as [p1 off] eqn:Ea.
    destruct (add_text_spec _ _ _ _ Hok Ea) as (Hok1 & _).
    destruct (poke_spec e d c (tstart + off) Hin) as (d1 & Ep & L1 & Hu & _). rewrite Ep in E. cbn [bind] in E.
    assert (Hcells1 : cells_ok (lenN d1) (map fst r)) by (rewrite L1; exact Hcells').
    (* the rest of the first run does not touch cell c *)
    destruct (emit_text_spec e tstart r d1 p1 (group_add off c g) Hok1 Hcells1) as (x & y & z & E' & _ & _ & _ & _ & Hfar & _).
    rewrite E in E'. inversion E'; subst x y z. clear E'.
    assert (Hc : u32_at e D c = Some (trunc_w 32 (tstart + off))).
    { rewrite HD by (left; reflexivity). rewrite Hfar by exact Hsep. exact Hu. }
    rewrite (poke_same e D c (tstart + off) W Hc). cbn [bind].
    apply (IH d1 p1 (group_add off c g) d' p' g' Hok1 Hcells1 E D W). intros c0 H0. apply HD. right. exact H0.
Qed.

(* ------------------------------------------------------------------ the named phases depend on the data only through its length *)
Section SetData.
Variable kf : name_key.
Variables (a : archive) (d : bytes).
Hypothesis Hlen : lenN d = size a.
Let b := set_data a d.

Lemma size_set_data : size b = size a.
Proof. unfold size, b. cbn [set_data a_data]. exact Hlen. Qed.
Lemma cs_run_set_data : cs_run b = cs_run a.
Proof. unfold cs_run, cs_sorted. rewrite size_set_data. reflexivity. Qed.
Lemma pool_bytes_set_data : pool_bytes b = pool_bytes a.
Proof. unfold pool_bytes. rewrite cs_run_set_data. reflexivity. Qed.
Lemma all_ptrs_set_data : all_ptrs b = all_ptrs a.
Proof. unfold all_ptrs, cs_ptrs. rewrite cs_run_set_data. reflexivity. Qed.
Lemma lab_run_set_data : lab_run kf b = lab_run kf a.
Proof. reflexivity. Qed.
Lemma txt_sorted_set_data : txt_sorted b = txt_sorted a.
Proof. reflexivity. Qed.
Lemma text_start_set_data : text_start kf b = text_start kf a.
Proof. unfold text_start. rewrite size_set_data, pool_bytes_set_data, all_ptrs_set_data. reflexivity. Qed.
Lemma ser_data_set_data :
  ser_data kf b = (d1 <- poke_all (a_endian a) d (all_ptrs a) ;; emit_text (a_endian a) (text_start kf a) (txt_sorted a) d1 (fst (lab_run kf a)) []).
Proof. unfold ser_data. rewrite text_start_set_data, all_ptrs_set_data. reflexivity. Qed.
Lemma assemble_set_data m r : assemble kf b m r = assemble kf a m r.
Proof. unfold assemble. rewrite size_set_data, pool_bytes_set_data, all_ptrs_set_data. reflexivity. Qed.
End SetData.

(* ------------------------------------------------------------------ re-serializing the poked data *)
Lemma serialize_poked kf m m' a f : wf_archive a -> serialize_k kf m a = Ok f ->
  exists d2 tpool2 groups, ser_data kf a = Ok (d2, tpool2, groups) /\ lenN d2 = size a /\ wfb d2 /\
    serialize_k kf m' (set_data a d2) = Ok f.
Proof.
  intros WF Ef.
  destruct (ser_facts kf a WF) as (d2 & tpool2 & groups & ltab & Es & L2 & W2 & Hptr & Hstr & Hnth & Hok2 & Wp & Hlen & Erl & HF & Hperm).
  destruct (serialize_ok_small kf m a f d2 tpool2 groups ltab Ef Es L2 Hok2 Hlen Erl Hptr Hstr) as [SZ FSZ].
  exists d2, tpool2, groups. split; [exact Es|]. split; [exact L2|]. split; [exact W2|].
  assert (Ei : forall mm, assemble kf a mm (d2, tpool2, groups) = Ok (image_of a d2 tpool2 groups ltab)) by (intros mm; apply assemble_ok; assumption).
  assert (E : f = image_of a d2 tpool2 groups ltab).
  { rewrite serialize_unfold, Es in Ef. cbn [bind] in Ef. rewrite Ei in Ef. inversion Ef. reflexivity. }
  rewrite serialize_unfold, (ser_data_set_data kf a d2 L2).
  rewrite (poke_all_same _ _ d2 W2 Hptr). cbn [bind].
  (* the first run of the string phase *)
  unfold ser_data in Es. destruct (poke_all (a_endian a) (a_data a) (all_ptrs a)) as [d1| |] eqn:E1; cbn [bind] in Es; try discriminate.
  destruct (poke_all_spec (a_endian a) (all_ptrs a) (a_data a) (ptr_cells_ok a WF)) as (d1' & E1' & L1 & _). rewrite E1 in E1'. inversion E1'; subst d1'.
  destruct (lab_facts kf a WF) as (lt' & _ & Hok1 & _).
  assert (Hc : cells_ok (lenN d1) (map fst (txt_sorted a))) by (rewrite L1; apply txt_cells_ok; exact WF).
  rewrite (emit_text_rerun _ _ _ _ _ _ _ _ _ Hok1 Hc Es d2 W2) by reflexivity. cbn [bind].
  rewrite (assemble_set_data kf a d2 L2), Ei, E. reflexivity.
Qed.

(* ------------------------------------------------------------------ C02: parse, then serialize again *)
Lemma no_cstrs_pool a : a_cstrs a = [] -> cs_ptrs a = [] /\ pool_bytes a = [].
Proof. intros E. unfold cs_ptrs, pool_bytes, cs_run, cs_sorted. rewrite E. split; reflexivity. Qed.

Theorem reserialize_identity : forall kf m m' a f a',
  wf_archive a -> a_cstrs a = [] ->
  serialize_k kf m a = Ok f -> from_bytes (a_endian a) f = Ok a' -> serialize_k kf m' a' = Ok f.
Proof.
  intros kf m m' a f a' WF Hcs Ef Ep.
  destruct (serialize_ok_conforms kf m a f WF Ef) as (_ & Hc).
  destruct (parser_correct _ _ _ Hc) as (a0 & Ep0 & Hd & He & Hcs' & Gp & Gt & Gl & Np & Nt & Nl). rewrite Ep in Ep0. inversion Ep0; subst a0.
  destruct (serialize_poked kf m m' a f WF Ef) as (d2 & tpool2 & groups & Es & L2 & W2 & Eb).
  destruct (no_cstrs_pool a Hcs) as [Ecp Epb].
  rewrite (published_eq kf a d2 tpool2 groups Es) in Hd, Gp, Gt, Gl. cbn [c_data c_ptrs c_text c_labels] in Hd, Gp, Gt, Gl.
  rewrite Epb, app_nil_r in Hd. rewrite Ecp, app_nil_r in Gp.
  rewrite <- Eb. symmetry. apply serialize_deterministic.
  - pose proof (wf_cells_nodup a WF) as Hn. unfold cells in Hn. cbn [set_data a_text a_ptrs a_labels]. split; [|split].
    + apply NoDup_app_r in Hn. apply NoDup_app_l in Hn. exact Hn.
    + apply NoDup_app_l in Hn. exact Hn.
    + apply (wf_label_keys a WF).
  - unfold maps_are_maps. auto.
  - unfold same_observations. cbn [set_data a_data a_endian a_cstrs a_text a_ptrs a_labels].
    split; [exact Hd|]. split; [exact He|]. split; [exact Hcs|]. split; [exact Hcs'|]. repeat split; intros k; symmetry; auto.
Qed.

(* the same, for any archive that answers every lookup like the parsed one *)
Corollary reserialize_identity_lookups : forall kf m m' a f a' a'',
  wf_archive a -> a_cstrs a = [] ->
  serialize_k kf m a = Ok f -> from_bytes (a_endian a) f = Ok a' ->
  maps_are_maps a'' -> same_observations a' a'' -> serialize_k kf m' a'' = Ok f.
Proof.
  intros kf m m' a f a' a'' WF Hcs Ef Ep Hm Hs.
  rewrite <- (reserialize_identity kf m m' a f a' WF Hcs Ef Ep). symmetry. apply serialize_deterministic; [|exact Hm|exact Hs].
  destruct (serialize_ok_conforms kf m a f WF Ef) as (_ & Hc).
  destruct (parser_correct _ _ _ Hc) as (a0 & Ep0 & _ & _ & _ & _ & _ & _ & Np & Nt & Nl). rewrite Ep in Ep0. inversion Ep0; subst a0.
  unfold maps_are_maps. auto.
Qed.
