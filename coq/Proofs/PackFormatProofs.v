(* The boolean checker conforms_packb decides the format relation conforms_pack. *)
From Coq Require Import List NArith ZArith Arith Lia Bool ZifyBool ZifyNat ZifyN.
From Mila Require Import Lib.Bytes Lib.BytesExtra Model.PackFormat.
Import ListNotations.
Local Open Scope N_scope.
Ltac Zify.zify_post_hook ::= Z.div_mod_to_equations.

Lemma opt_bytes_eqb_true o b : opt_bytes_eqb o b = true <-> o = Some b.
Proof.
  destruct o as [x|]; cbn [opt_bytes_eqb]; [|split; discriminate].
  destruct (bytes_eqb_spec x b) as [E|E]; split; intros H; try congruence; inversion H; congruence.
Qed.
Lemma opt_N_eqb_true o v : opt_N_eqb o v = true <-> o = Some v.
Proof.
  destruct o as [x|]; cbn [opt_N_eqb]; [|split; discriminate].
  destruct (N.eqb_spec x v) as [E|E]; split; intros H; try congruence; inversion H; congruence.
Qed.

Lemma existsb_bytes_eqb x r : existsb (bytes_eqb x) r = true <-> In x r.
Proof.
  rewrite existsb_exists. split.
  - intros (y & Hy & E). destruct (bytes_eqb_spec x y); [subst; exact Hy | discriminate].
  - intros H. exists x. split; [exact H | apply bytes_eqb_refl].
Qed.
Lemma nodupb_spec l : nodupb l = true <-> NoDup l.
Proof.
  induction l as [|x r IH]; cbn [nodupb].
  - split; [constructor | reflexivity].
  - rewrite andb_true_iff, negb_true_iff, IH. split.
    + intros [H1 H2]. constructor; [|exact H2]. intros Hin. apply existsb_bytes_eqb in Hin. congruence.
    + intros H. inversion H as [|? ? Hn Hd]; subst. split; [|exact Hd].
      destruct (existsb (bytes_eqb x) r) eqn:E; [|reflexivity]. apply existsb_bytes_eqb in E. contradiction.
Qed.

Lemma name_at_cstr f a nm : name_at f a nm <-> cstr_atN f a = Some nm.
Proof.
  split.
  - intros (pre & post & E & L & Hn). eapply cstr_atN_decomp; eauto.
  - intros H. destruct (cstr_atN_sound _ _ _ H) as (pre & post & E & L & Hn). exists pre, post. auto.
Qed.

Lemma entry_atb_spec f i e : entry_atb f i e = true <-> entry_at f i e.
Proof.
  unfold entry_atb, entry_at, fields_at. split.
  - destruct (u32_at BE f (8 + 16 * i)) as [unk|]; [|discriminate].
    destruct (u32_at BE f (8 + 16 * i + 4)) as [na|]; [|discriminate].
    destruct (u32_at BE f (8 + 16 * i + 8)) as [fa|]; [|discriminate].
    destruct (u32_at BE f (8 + 16 * i + 12)) as [sz|]; [|discriminate].
    rewrite andb_true_iff, !opt_bytes_eqb_true. intros [H1 H2].
    exists na, fa, sz. repeat split; eauto. apply name_at_cstr, H1.
  - intros (na & fa & sz & ((unk & H0) & H1 & H2 & H3) & Hn & Hs).
    rewrite H0, H1, H2, H3. rewrite andb_true_iff, !opt_bytes_eqb_true. split; [apply name_at_cstr, Hn | exact Hs].
Qed.

Lemma entries_atb_spec f files : forall i,
  entries_atb f i files = true <-> (forall j e, nth_error files j = Some e -> entry_at f (i + N.of_nat j) e).
Proof.
  induction files as [|e0 r IH]; intros i; cbn [entries_atb].
  - split; [|reflexivity]. intros _ [|j] e; discriminate.
  - rewrite andb_true_iff, entry_atb_spec, IH. split.
    + intros [H0 Hr] [|j] e; cbn [nth_error].
      * intros E; inversion E; subst. replace (i + N.of_nat 0) with i by lia. exact H0.
      * intros E. replace (i + N.of_nat (S j)) with (i + 1 + N.of_nat j) by lia. apply Hr, E.
    + intros H. split.
      * specialize (H O e0 eq_refl). replace (i + N.of_nat 0) with i in H by lia. exact H.
      * intros j e E. specialize (H (S j) e E). replace (i + N.of_nat (S j)) with (i + 1 + N.of_nat j) in H by lia. exact H.
Qed.

Theorem conforms_packb_spec f files : conforms_packb f files = true <-> conforms_pack f files.
Proof.
  unfold conforms_packb, conforms_pack. rewrite !andb_true_iff, !opt_N_eqb_true, nodupb_spec, entries_atb_spec, N.leb_le.
  split.
  - intros ((((H1 & H2) & H3) & H4) & H5). repeat split; auto.
  - intros (H1 & H2 & H3 & H4 & H5). repeat split; auto.
Qed.

Lemma conforms_packb_sound f files : conforms_packb f files = true -> conforms_pack f files.
Proof. apply conforms_packb_spec. Qed.
Lemma conforms_packb_complete f files : conforms_pack f files -> conforms_packb f files = true.
Proof. apply conforms_packb_spec. Qed.
