(* C18, part 5: the whole file at the archive-API level.
   [file_cells b] = header flags word, the records, a trailing zero word.  The writer builds exactly
   the archive of these cells; the reader, run on ANY archive showing this layout, returns [b]; the
   read loop stops at the trailing zero word (it reads as a short all-absent record whose name cell
   lies beyond the data).  Generic in the schema first, then instantiated with the source's tables
   through the computed agreement (Proofs/AssetBinSchema.v). *)
From Coq Require Import List NArith ZArith Bool Lia ZifyBool ZifyNat ZifyN Arith.
From Mila Require Import Lib.Bytes Lib.Machine Model.BinArchive Model.BinStreams Model.AssetBin
  Proofs.AMapLemmas Proofs.BinAccess Proofs.BinAccess2 Proofs.RecsCells Proofs.AssetBinSchema Proofs.AssetBinFlags
  Proofs.AssetBinWrite Proofs.AssetBinRead.
Import ListNotations.
Local Open Scope N_scope.
Ltac Zify.zify_post_hook ::= Z.div_mod_to_equations.

Definition wf_bin (b : asset_binary) : Prop := ab_flags b < 2 ^ 32 /\ Forall wf_spec (ab_specs b).

Lemma ba_new_keys e : keys_below (a_text (ba_new e)) (size (ba_new e)).
Proof. intros k []. Qed.

Section Schema.
Variables (cb ce : list centry).
Hypothesis WF : schema_wf cb ce.

Fixpoint records (specs : list spec) : list cell :=
  match specs with [] => [] | sp :: r => record_cells cb ce sp ++ records r end.
Definition file_cells (b : asset_binary) : list cell :=
  CRaw (enc LE 4 (ab_flags b)) :: records (ab_specs b) ++ [CRaw (zeros (N.to_nat 4))].

Lemma records_size_ge specs : 8 * N.of_nat (length specs) <= cells_size (records specs).
Proof.
  induction specs as [|sp r IH]; cbn [records length cells_size]; [lia|].
  rewrite cells_size_app. pose proof (record_cells_size_ge cb ce sp). lia.
Qed.

Let fs := map fproj (cb ++ ce).
Let wb := map wproj cb.
Let we := map wproj ce.
Let rb := map rproj cb.
Let re := map rproj ce.

Lemma append_all_spec : forall specs a,
  keys_below (a_text a) (size a) -> a_endian a = LE ->
  append_all_with fs wb we specs a = Ok (append_cells a (records specs)).
Proof.
  induction specs as [|sp r IH]; intros a Hk He; cbn [append_all_with records].
  - rewrite append_cells_nil. reflexivity.
  - unfold fs, wb, we. rewrite (append_with_spec cb ce WF sp a Hk He). cbn [bind].
    fold fs wb we. rewrite IH; [|apply keys_below_append_cells; exact Hk | exact He].
    rewrite append_cells_app. reflexivity.
Qed.

Theorem build_with_spec b : build_with fs wb we b = Ok (append_cells (ba_new LE) (file_cells b)).
Proof.
  unfold build_with. rewrite mid_start.
  pose proof (write_u32_mid (ba_new LE) [] 4 (ab_flags b)) as W. cbn [cells_size] in W.
  change (size (ba_new LE) + 0) with 0 in W. rewrite W by lia. cbn [bind app].
  change (4 - 4) with 0. rewrite mid_end.
  rewrite append_all_spec; [|apply keys_below_append_cells; apply ba_new_keys | reflexivity].
  cbn [bind]. rewrite allocate_is_append, !append_cells_app. reflexivity.
Qed.

(* ---- the read loop ---- *)
Lemma from_stream_trailing a p :
  cell_at a p (CRaw (zeros (N.to_nat 4))) -> size a = p + 4 -> from_stream_with rb re a p = Err EOob.
Proof.
  intros H Hs. unfold from_stream_with. rewrite zeros_4 in H.
  destruct (r_read_u8_raw a p 0 [0; 0; 0] H) as [R1 H1]. rewrite R1.
  change (N.land 0 1 =? 1) with false. cbv iota.
  pose proof (r_read_bytes_raw a (p + 1) [0; 0; 0]) as R2. change (lenN [0; 0; 0]) with 3 in R2.
  rewrite R2; [|discriminate | exact H1].
  unfold r_read_string. rewrite read_string_spec.
  assert (Hin : inside a (p + 1 + 3) 4 = false).
  { destruct (inside a (p + 1 + 3) 4) eqn:E; [|reflexivity]. apply inside_true in E. lia. }
  rewrite Hin. reflexivity.
Qed.

Lemma read_specs_layout a : a_endian a = LE ->
  forall specs acc p fuel,
  Forall wf_spec specs ->
  layout a p (records specs ++ [CRaw (zeros (N.to_nat 4))]) ->
  size a = p + cells_size (records specs) + 4 ->
  (length specs < fuel)%nat ->
  read_specs_with rb re fuel a p acc = Ok (rev acc ++ specs).
Proof.
  intros He. induction specs as [|sp r IH]; intros acc p fuel Hwf Hl Hs Hf; (destruct fuel as [|fuel]; [cbn [length] in Hf; lia|]);
    cbn [read_specs_with records cells_size app] in *.
  - destruct Hl as [Hc _]. rewrite N.add_0_r in Hs. rewrite (from_stream_trailing a p Hc Hs). rewrite app_nil_r. reflexivity.
  - inversion Hwf as [|? ? W Wr]; subst. rewrite <- app_assoc in Hl. apply layout_app in Hl. destruct Hl as [H1 H2].
    unfold rb, re. rewrite (from_stream_layout cb ce WF sp a p W He H1). fold rb re.
    rewrite (IH (sp :: acc) _ fuel Wr H2).
    + cbn [rev]. rewrite <- app_assoc. reflexivity.
    + rewrite cells_size_app in Hs. lia.
    + cbn [length] in Hf. lia.
Qed.

(* the reader on any archive that shows the file layout *)
Theorem from_archive_layout b a :
  wf_bin b -> a_endian a = LE -> layout a 0 (file_cells b) -> size a = cells_size (file_cells b) ->
  from_archive_with rb re a = Ok b.
Proof.
  intros [Hfl Hwf] He Hl Hs. unfold from_archive_with, file_cells in *.
  cbn [layout cells_size cell_size] in Hl, Hs. destruct Hl as [H0 Hr].
  assert (L4 : lenN (enc LE 4 (ab_flags b)) = 4) by reflexivity. rewrite L4 in *.
  rewrite (r_read_u32_raw a 0 (ab_flags b) He Hfl H0).
  rewrite cells_size_app in Hs. cbn [cells_size cell_size] in Hs. rewrite lenN_zeros in Hs.
  rewrite (read_specs_layout a He (ab_specs b) [] (0 + 4) _ Hwf Hr).
  - cbn [bind rev app]. destruct b; reflexivity.
  - lia.
  - pose proof (records_size_ge (ab_specs b)) as G. unfold size in Hs. unfold lenN in Hs. lia.
Qed.

Theorem round_trip_with b :
  wf_bin b ->
  exists a, build_with fs wb we b = Ok a /\ from_archive_with rb re a = Ok b /\
            a = append_cells (ba_new LE) (file_cells b).
Proof.
  intros W. exists (append_cells (ba_new LE) (file_cells b)). split; [apply build_with_spec|]. split; [|reflexivity].
  apply from_archive_layout; [exact W | reflexivity | | ].
  - apply (layout_append (ba_new LE)). apply ba_new_keys.
  - rewrite size_append_cells. reflexivity.
Qed.

End Schema.

(* ================================================================== the source's tables *)
Definition src_wf : schema_wf c_base c_ext := schema_ok_wf _ _ source_schema_ok.
Definition src_file_cells := file_cells c_base c_ext.
Definition src_record_cells := record_cells c_base c_ext.

Lemma build_eq : build = build_with (map fproj (c_base ++ c_ext)) (map wproj c_base) (map wproj c_ext).
Proof. unfold build. rewrite flags_agree, writer_base_agrees, writer_ext_agrees. reflexivity. Qed.
Lemma from_archive_eq : from_archive = from_archive_with (map rproj c_base) (map rproj c_ext).
Proof. unfold from_archive. rewrite reader_base_agrees, reader_ext_agrees. reflexivity. Qed.
Lemma from_stream_eq : from_stream = from_stream_with (map rproj c_base) (map rproj c_ext).
Proof. unfold from_stream. rewrite reader_base_agrees, reader_ext_agrees. reflexivity. Qed.
Lemma compute_flags_eq : compute_flags = compute_flags_with (map fproj (c_base ++ c_ext)).
Proof. unfold compute_flags. rewrite flags_agree. reflexivity. Qed.
Lemma append_eq : append = append_with (map fproj (c_base ++ c_ext)) (map wproj c_base) (map wproj c_ext).
Proof. unfold append. rewrite flags_agree, writer_base_agrees, writer_ext_agrees. reflexivity. Qed.

Theorem build_is_cells b : build b = Ok (append_cells (ba_new LE) (src_file_cells b)).
Proof. rewrite build_eq. apply (build_with_spec c_base c_ext src_wf). Qed.
Theorem from_archive_of_layout b a :
  wf_bin b -> a_endian a = LE -> layout a 0 (src_file_cells b) -> size a = cells_size (src_file_cells b) ->
  from_archive a = Ok b.
Proof. rewrite from_archive_eq. apply (from_archive_layout c_base c_ext src_wf). Qed.
Theorem round_trip_archive b : wf_bin b -> exists a, build b = Ok a /\ from_archive a = Ok b.
Proof.
  intros W. destruct (round_trip_with c_base c_ext src_wf b W) as (a & B & R & _).
  exists a. rewrite build_eq, from_archive_eq. auto.
Qed.
