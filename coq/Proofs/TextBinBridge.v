(* Bridge from the bin-archive round trip (C01: Proofs/BinRoundTrip.v, BinSerializeConforms.v,
   BinParserCorrect.v) to the readers layered on a bin archive (text archive C06, arc C16,
   record files C17/C18).

   C01 states the round trip as agreement of the three maps (am_get at every address), of the
   raw bytes outside annotated cells and of the size.  The layered readers only use the
   accessors (read_string / read_pointer / read_labels / find_label_address / raw bytes), i.e.
   [ObsEqual.obs_equal].  This file proves

     bin_round_trip_maps   : C01's round trip + the three NoDup facts about the parsed archive
                             (general: any wf_archive / fits32 archive);
     bin_round_trip_obs    : wf_archive a -> fits32 a -> (no annotated cell) ->
                             exists f a', serialize_k kf m a = Ok f /\ from_bytes (a_endian a) f = Ok a' /\ obs_equal a a';
     plain_labelled_wf / plain_labelled_fits : what the text writer builds is in C01's domain;
     bin_round_trip_plain  : forall m, bin_round_trip_premise m   (the premise of C06's byte level).

   With annotated cells the raw bytes of the cells differ (a string cell holds zero bytes before and the
   text pointer after the round trip), hence [oe_data] - equality of the whole data - is only available
   without cells; with cells use bin_round_trip_maps. *)
From Coq Require Import List NArith ZArith Bool Lia ZifyBool ZifyNat ZifyN.
From Mila Require Import Lib.Bytes Lib.Machine Model.BinArchive Model.BinStreams Model.BinFormat Model.TextMap Model.TextFormat
  Proofs.TextFormatRead Proofs.AMapLemmas Proofs.BinAccess Proofs.BinAccess2 Proofs.BinFormatSpec Proofs.BinParserCorrect
  Proofs.BinSerializeConformsBase Proofs.BinSerializeConformsPhases Proofs.BinSerializeConforms Proofs.BinRoundTrip
  Proofs.ObsEqual Proofs.TextFormatRoundTrip.
Import ListNotations.
Local Open Scope N_scope.

(* ------------------------------------------------------------------ general: C01 + NoDup of the parsed maps *)
Theorem bin_round_trip_maps kf m a :
  wf_archive a -> fits32 a ->
  exists f a',
    BinFormat.serialize_k kf m a = Ok f /\ wfb f /\ BinFormat.from_bytes (a_endian a) f = Ok a' /\
    a_endian a' = a_endian a /\ a_cstrs a' = [] /\
    size a' = size a + lenN (pool_bytes a) /\ (a_cstrs a = [] -> size a' = size a) /\
    (forall i, (i < N.to_nat (size a))%nat -> outside (cells a) i -> nth_error (a_data a') i = nth_error (a_data a) i) /\
    (forall x, am_get x (a_text a') = am_get x (a_text a)) /\
    (forall x, ~ In x (cs_cells a) -> am_get x (a_ptrs a') = am_get x (a_ptrs a)) /\
    (forall x, am_get x (a_labels a') = am_get x (a_labels a)) /\
    NoDup (am_keys (a_ptrs a')) /\ NoDup (am_keys (a_text a')) /\ NoDup (am_keys (a_labels a')).
Proof.
  intros WF FIT.
  destruct (round_trip kf m a WF FIT) as (f & a' & Hs & Hw & Hp & He & Hcs & Hsz & _ & Hsz0 & Hd & Gt & Gp & Gl & _).
  destruct (serialize_conforms kf m a WF FIT) as (f2 & Hs2 & _ & Hc).
  assert (Ef : f2 = f) by congruence. subst f2.
  destruct (parser_correct _ _ _ Hc) as (a2 & Hp2 & _ & _ & _ & _ & _ & _ & N1 & N2 & N3).
  assert (Ea : a2 = a') by congruence. subst a2.
  exists f, a'. repeat (split; [assumption|]). assumption.
Qed.

(* ------------------------------------------------------------------ lists equal from nth_error *)
Lemma nth_error_eq_ext {A} : forall (l l' : list A), length l = length l' ->
  (forall i, (i < length l)%nat -> nth_error l' i = nth_error l i) -> l' = l.
Proof.
  induction l as [|x r IH]; intros [|y r'] HL H; cbn [length] in HL; try discriminate; [reflexivity|].
  pose proof (H 0%nat ltac:(cbn [length]; lia)) as H0. cbn [nth_error] in H0. injection H0 as ->.
  f_equal. apply IH; [lia|]. intros i Hi. apply (H (S i)). cbn [length]. lia.
Qed.

(* ------------------------------------------------------------------ archives without annotated cells *)
Theorem bin_round_trip_obs kf m a :
  wf_archive a -> fits32 a -> a_text a = [] -> a_ptrs a = [] -> a_cstrs a = [] ->
  exists f a', BinFormat.serialize_k kf m a = Ok f /\ BinFormat.from_bytes (a_endian a) f = Ok a' /\ obs_equal a a'.
Proof.
  intros WF FIT Et Ep Ec.
  destruct (bin_round_trip_maps kf m a WF FIT) as (f & a' & Hs & _ & Hp & He & _ & _ & Hsz & Hd & Gt & Gp & Gl & _ & _ & N3).
  specialize (Hsz Ec).
  assert (Ecells : cells a = []) by (unfold cells, cs_cells; rewrite Et, Ep, Ec; reflexivity).
  assert (Edata : a_data a' = a_data a).
  { apply nth_error_eq_ext.
    - unfold size, lenN in Hsz. lia.
    - intros i Hi. apply Hd; [unfold size, lenN; lia|]. rewrite Ecells. intros c [].
  }
  exists f, a'. split; [exact Hs|]. split; [exact Hp|]. constructor.
  - exact Edata.
  - intros x. unfold read_string, check_cell, size. rewrite Edata, Gt. reflexivity.
  - intros x. unfold read_pointer, check_cell, size. rewrite Edata, Gp; [reflexivity|]. unfold cs_cells. rewrite Ec. intros [].
  - intros x. unfold read_labels, check_cell, size. rewrite Edata, Gl. reflexivity.
  - apply find_agree_all; [exact (wf_label_keys a WF) | exact N3 | exact Gl].
Qed.

(* ------------------------------------------------------------------ the text writer's archives are in C01's domain *)
Lemma sumf_cons {A} (f : A -> N) x r : sumf f (x :: r) = f x + sumf f r.
Proof. reflexivity. Qed.
Lemma sumf_label_count (L : amap (list bytes)) :
  sumf (fun kb => lenL (snd kb)) L = N.of_nat (length (concat (map snd L))).
Proof.
  induction L as [|[k b] r IH]; [reflexivity|].
  rewrite sumf_cons, IH. cbn [map concat snd]. rewrite app_length. unfold lenL. lia.
Qed.
Lemma sumf_names (b : list bytes) :
  sumf (fun l => lenN l + 1) b = N.of_nat (length (concat (map (fun l : bytes => l ++ [0]) b))).
Proof.
  induction b as [|l r IH]; [reflexivity|].
  rewrite sumf_cons, IH. cbn [map concat]. rewrite !app_length. unfold lenN. cbn [length]. lia.
Qed.
Lemma sumf_name_bytes (L : amap (list bytes)) :
  sumf (fun kb => sumf (fun l => lenN l + 1) (snd kb)) L =
  N.of_nat (length (concat (map (fun l : bytes => l ++ [0]) (concat (map snd L))))).
Proof.
  induction L as [|[k b] r IH]; [reflexivity|].
  rewrite sumf_cons, IH. cbn [map concat snd]. rewrite sumf_names, map_app, concat_app, app_length. lia.
Qed.

Lemma plain_ser_bound a : a_text a = [] -> a_ptrs a = [] -> a_cstrs a = [] -> ser_bound a = file_bound a.
Proof.
  intros Et Ep Ec. unfold ser_bound, file_bound, label_count, name_bytes. rewrite Et, Ep, Ec.
  rewrite sumf_label_count, sumf_name_bytes. cbn [sumf fold_right length]. unfold lenL. cbn [length]. lia.
Qed.

Lemma plain_labelled_wf a : plain_labelled a -> wf_archive a.
Proof.
  intros (Et & Ep & Ec & Hd & Hk & Hl & _).
  assert (Ecells : cells a = []) by (unfold cells, cs_cells; rewrite Et, Ep, Ec; reflexivity).
  constructor.
  - rewrite Ecells. constructor.
  - rewrite Ecells. intros c [].
  - rewrite Ecells. intros c c' [].
  - rewrite Ep. intros c t [].
  - exact Hk.
  - intros k b Hin. destruct (Hl k b Hin) as (H1 & H2 & H3). split; [exact H1|]. split; [exact H2|].
    eapply Forall_impl; [|exact H3]. cbn beta. intros l (Hw & Hz). split; assumption.
  - rewrite Et. intros c s [].
  - rewrite Ec. constructor.
  - rewrite Ec. intros s cs [].
  - exact Hd.
Qed.
Lemma plain_labelled_fits a : plain_labelled a -> fits32 a.
Proof.
  intros (Et & Ep & Ec & _ & _ & _ & Hb). unfold fits32, U32. rewrite (plain_ser_bound a Et Ep Ec). exact Hb.
Qed.

Lemma text_image_in_C01_domain fmt e t : wf_text_bytes fmt e t ->
  wf_archive (TextFormatWrite.text_image fmt e t) /\ fits32 (TextFormatWrite.text_image fmt e t).
Proof.
  intros H. pose proof (text_image_plain fmt e t H) as P. split; [apply plain_labelled_wf | apply plain_labelled_fits]; exact P.
Qed.

(* the premise of the byte-level statements of C06 (Proofs/TextFormatRoundTrip.v), discharged *)
Theorem bin_round_trip_plain : forall kf m, bin_round_trip_premise kf m.
Proof.
  intros kf m a H. pose proof H as (Et & Ep & Ec & _).
  apply bin_round_trip_obs; [apply plain_labelled_wf | apply plain_labelled_fits | | | ]; assumption.
Qed.

(* ------------------------------------------------------------------ C06, byte level, premise-free *)
Theorem text_round_trip_bytes_final : forall kf m fmt e t, wf_text fmt t -> wf_text_bytes fmt e t ->
  exists f t', TextFormat.serialize kf m fmt e t = Ok f /\ TextFormat.from_bytes fmt e f = Ok t' /\ same_text fmt t t'.
Proof. intros kf m. exact (text_round_trip_bytes_explicit kf m (bin_round_trip_plain kf m)). Qed.

Theorem text_layout_bytes_final : forall kf m fmt e t, wf_text_bytes fmt e t ->
  exists f a', TextFormat.serialize kf m fmt e t = Ok f /\ BinFormat.from_bytes e f = Ok a' /\
    forall i k msg, nth_error (t_entries t) i = Some (k, msg) ->
      let off := entry_offset fmt t i in
      off mod 4 = 0 /\ read_labels a' off = Ok (Some [k]) /\ sliceN off (lenN (cell fmt msg)) (a_data a') = Some (cell fmt msg).
Proof. intros kf m. exact (text_layout_bytes kf m (bin_round_trip_plain kf m)). Qed.

(* ------------------------------------------------------------------ files: the parser on ANY conforming file *)
(* the archive value a file's content denotes (what a reader layered on the bin archive sees) *)
Definition content_archive (e : endian) (c : content) : archive :=
  {| a_data := c_data c; a_text := c_text c; a_ptrs := c_ptrs c; a_labels := c_labels c; a_cstrs := []; a_endian := e |}.

(* C01_parser_correct, seen by a layered reader: from_bytes of every file that conforms to the format with content c
   (tables in any order, strings anywhere in the text section) is observationally equal to c *)
Theorem parsed_obs_equal e f c : conforms e f c ->
  exists a, BinFormat.from_bytes e f = Ok a /\ a_endian a = e /\ obs_equal (content_archive e c) a.
Proof.
  intros Hc. destruct (parser_correct e f c Hc) as (a & Hp & Hd & He & _ & Gp & Gt & Gl & _ & _ & N3).
  exists a. split; [exact Hp|]. split; [exact He|].
  assert (Hk : NoDup (am_keys (a_labels (content_archive e c)))).
  { destruct Hc as (reserved & ptab & ltab & txt & names & H). cbn zeta in H.
    destruct H as (_ & _ & _ & _ & _ & _ & _ & _ & _ & _ & _ & (Hk & _)). exact Hk. }
  constructor.
  - exact Hd.
  - intros x. unfold read_string, check_cell, size. rewrite Hd, Gt. reflexivity.
  - intros x. unfold read_pointer, check_cell, size. rewrite Hd, Gp. reflexivity.
  - intros x. unfold read_labels, check_cell, size. rewrite Hd, Gl. reflexivity.
  - apply find_agree_all; [exact Hk | exact N3 | exact Gl].
Qed.

(* ------------------------------------------------------------------ the text reader on ANY conforming file *)
(* TextArchive::from_bytes on a file that conforms to the bin-archive format with content c reads c: whatever tool wrote
   the file (table order, string placement, extra strings or pointers the text reader never looks at) *)
Theorem text_file_reads_content fmt e f c : conforms e f c ->
  TextFormat.from_bytes fmt e f = TextFormat.from_archive fmt (content_archive e c).
Proof.
  intros Hc. destruct (parsed_obs_equal e f c Hc) as (a & Hp & _ & Ho).
  unfold TextFormat.from_bytes. rewrite Hp. cbn [bind]. apply from_archive_obs_equal. exact Ho.
Qed.

(* ... in particular a file whose data region is the title cell followed by the message cells of t and whose label map
   puts [key] on every message offset is parsed to t - not only the image this writer produces *)
Theorem text_parse_any_conforming_file fmt e f c t : conforms e f c -> wf_text fmt t ->
  c_data c = a_data (TextFormatWrite.text_image fmt e t) ->
  (forall x, am_get x (c_labels c) = am_get x (a_labels (TextFormatWrite.text_image fmt e t))) ->
  TextFormat.from_bytes fmt e f = Ok (parsed fmt t).
Proof.
  intros Hc Hw Hd Hl. rewrite (text_file_reads_content fmt e f c Hc).
  rewrite <- (from_archive_text_image fmt e t Hw). apply from_archive_congr.
  - exact Hd.
  - intros x. unfold read_labels, check_cell, size. cbn [content_archive a_data a_labels]. rewrite Hd, Hl. reflexivity.
Qed.

(* ------------------------------------------------------------------ the layout, stated on the FILE through [conforms] *)
(* what C01's serialize_conforms publishes for an archive without annotated cells is the archive itself *)
Lemma plain_published kf a : plain_labelled a ->
  c_data (published kf a) = a_data a /\ c_labels (published kf a) = a_labels a /\ c_text (published kf a) = [] /\ c_ptrs (published kf a) = [].
Proof.
  intros P. pose proof (plain_labelled_wf a P) as WF. destruct P as (Et & Ep & Ec & _).
  destruct (published_data_len kf a WF) as (L1 & _ & L3). specialize (L3 Ec).
  split; [|split; [reflexivity | split]].
  - apply nth_error_eq_ext.
    + unfold size, lenN in *. lia.
    + intros i Hi. apply published_data_outside; [exact WF | unfold size, lenN; lia |].
      unfold cells, cs_cells. rewrite Et, Ep, Ec. intros c [].
  - cbn [published c_text]. exact Et.
  - cbn [published c_ptrs]. rewrite Ep. unfold cs_ptrs, cs_run, cs_sorted. rewrite Ec. reflexivity.
Qed.

(* the image of a text archive conforms to the bin-archive FORMAT RELATION (Proofs/BinFormatSpec.v, written from the format
   description independently of serialize and from_bytes) with a content whose data region is the title cell followed by
   the message cells and whose label map puts exactly [key] on every message offset: "in the file every message starts on a
   4-byte boundary and carries its key as the label of that address", without going through the model's own parser *)
Theorem text_layout_conforms kf m fmt e t : wf_text_bytes fmt e t ->
  exists f c, TextFormat.serialize kf m fmt e t = Ok f /\ wfb f /\ conforms e f c /\
    c_ptrs c = [] /\ c_text c = [] /\
    c_data c = a_data (TextFormatWrite.text_image fmt e t) /\ c_labels c = a_labels (TextFormatWrite.text_image fmt e t) /\
    forall i k msg, nth_error (t_entries t) i = Some (k, msg) ->
      let off := entry_offset fmt t i in
      off mod 4 = 0 /\ am_get off (c_labels c) = Some [k] /\ sliceN off (lenN (cell fmt msg)) (c_data c) = Some (cell fmt msg).
Proof.
  intros Hb. pose proof (text_image_plain fmt e t Hb) as P.
  destruct (serialize_conforms kf m _ (plain_labelled_wf _ P) (plain_labelled_fits _ P)) as (f & Hs & Hw & Hc).
  destruct (plain_published kf _ P) as (Pd & Pl & Pt & Pp).
  exists f, (published kf (TextFormatWrite.text_image fmt e t)).
  split; [unfold TextFormat.serialize; rewrite TextFormatWrite.build_archive_spec; cbn [bind]; exact Hs|].
  split; [exact Hw|]. split; [exact Hc|]. split; [exact Pp|]. split; [exact Pt|]. split; [exact Pd|]. split; [exact Pl|].
  intros i k msg Hn. destruct (TextFormatRoundTrip.text_image_layout fmt e t i k msg Hn) as (H1 & H2 & H3 & _).
  split; [exact H1|]. rewrite Pl, Pd. split; assumption.
Qed.
