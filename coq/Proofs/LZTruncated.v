(* C11, negative half (1): every strict prefix of a well-formed stream is an error.
   Argument: a successful run of the decoder is unchanged by appending bytes to the input (they end up
   in the unread rest); the run on a well-formed stream reads every byte (the parser leaves nothing
   over); so a successful run on a strict prefix would leave the cut-off bytes unread in the run on the
   whole stream - contradiction.  With totality (LZTotal) the outcome is Err EInvalidInput. *)
From Coq Require Import List NArith Arith Lia Bool ZifyBool ZifyNat ZifyN.
From Mila Require Import Lib.Bytes Lib.Machine Model.LZCore Model.LZSpec Model.LZDecode
  Proofs.LZBits Proofs.LZCoreProofs Proofs.LZDecodeProofs Proofs.LZTotal.
Import ListNotations.
Local Open Scope N_scope.

(* the outer loop, also returning the unread input *)
Fixpoint dec_loop_r (m : mode) (lz11 : bool) (fuel : nat) (bs : list N) (o : vec) (size : N) : outcome (list N * vec) :=
  if size <=? v_len o then Ok (bs, o) else
  match fuel with
  | O => Err EOutOfFuel
  | S f =>
    '(flags, bs) <- next bs ;;
    '(bs, o) <- bits_loop m lz11 8 flags bs o size ;;
    dec_loop_r m lz11 f bs o size
  end.

Lemma dec_loop_r_snd m lz11 : forall fuel bs o size,
  dec_loop m lz11 fuel bs o size = bind (dec_loop_r m lz11 fuel bs o size) (fun r => Ok (snd r)).
Proof.
  induction fuel as [|fuel IH]; intros bs o size; cbn [dec_loop dec_loop_r].
  - destruct (size <=? v_len o); reflexivity.
  - destruct (size <=? v_len o); [reflexivity|].
    destruct (next bs) as [[flags bs1]|e|p]; cbn [bind]; try reflexivity.
    destruct (bits_loop m lz11 8 flags bs1 o size) as [[bs2 o1]|e|p]; cbn [bind]; try reflexivity.
    apply IH.
Qed.

(* ---------------------------------------------------------------- appending input *)
Lemma next_app bs e b r : next bs = Ok (b, r) -> next (bs ++ e) = Ok (b, r ++ e).
Proof. destruct bs as [|x bs']; cbn [next app]; [discriminate|]. intros H; inversion H; subst. reflexivity. Qed.

Lemma dec_ref_app lz11 b0 b1 bs e l d r :
  dec_ref lz11 b0 b1 bs = Ok (l, d, r) -> dec_ref lz11 b0 b1 (bs ++ e) = Ok (l, d, r ++ e).
Proof.
  unfold dec_ref. destruct (negb lz11); [intros H; inversion H; subst; reflexivity|].
  destruct (1 <? N.shiftr b0 4); [intros H; inversion H; subst; reflexivity|].
  destruct (N.shiftr b0 4 =? 0).
  - destruct (next bs) as [[b2 bs2]|x|p] eqn:E2; cbn [bind]; try discriminate.
    rewrite (next_app _ e _ _ E2). cbn [bind]. intros H; inversion H; subst; reflexivity.
  - destruct (next bs) as [[b2 bs2]|x|p] eqn:E2; cbn [bind]; try discriminate.
    rewrite (next_app _ e _ _ E2). cbn [bind].
    destruct (next bs2) as [[b3 bs3]|x|p] eqn:E3; cbn [bind]; try discriminate.
    rewrite (next_app _ e _ _ E3). cbn [bind]. intros H; inversion H; subst; reflexivity.
Qed.

Lemma bits_loop_app m lz11 e : forall k F bs o size r o',
  bits_loop m lz11 k F bs o size = Ok (r, o') -> bits_loop m lz11 k F (bs ++ e) o size = Ok (r ++ e, o').
Proof.
  induction k as [|k IH]; intros F bs o size r o'; cbn [bits_loop].
  - intros H; inversion H; subst; reflexivity.
  - destruct (size <=? v_len o); [intros H; inversion H; subst; reflexivity|].
    destruct (N.land (N.shiftr F (N.of_nat k)) 1 =? 0).
    + destruct (next bs) as [[b bs1]|x|p] eqn:E1; cbn [bind]; try discriminate.
      rewrite (next_app _ e _ _ E1). cbn [bind]. apply IH.
    + destruct (next bs) as [[b0 bs1]|x|p] eqn:E1; cbn [bind]; try discriminate.
      rewrite (next_app _ e _ _ E1). cbn [bind].
      destruct (next bs1) as [[b1 bs2]|x|p] eqn:E2; cbn [bind]; try discriminate.
      rewrite (next_app _ e _ _ E2). cbn [bind].
      destruct (dec_ref lz11 b0 b1 bs2) as [[[len disp] bs3]|x|p] eqn:E3; cbn [bind]; try discriminate.
      rewrite (dec_ref_app _ _ _ _ e _ _ _ E3). cbn [bind].
      destruct (v_len o <=? disp); [discriminate|].
      destruct (sub_w W64 m (v_len o) disp) as [t|x|p]; cbn [bind]; try discriminate.
      destruct (sub_w W64 m t 1) as [st|x|p]; cbn [bind]; try discriminate.
      destruct (copy_loop (N.to_nat len) o st) as [o1|x|p]; cbn [bind]; try discriminate.
      apply IH.
Qed.

Lemma dec_loop_r_app m lz11 e : forall fuel bs o size r o',
  dec_loop_r m lz11 fuel bs o size = Ok (r, o') -> dec_loop_r m lz11 fuel (bs ++ e) o size = Ok (r ++ e, o').
Proof.
  induction fuel as [|fuel IH]; intros bs o size r o'; cbn [dec_loop_r].
  - destruct (size <=? v_len o); [intros H; inversion H; subst; reflexivity | discriminate].
  - destruct (size <=? v_len o); [intros H; inversion H; subst; reflexivity|].
    destruct (next bs) as [[flags bs1]|x|p] eqn:E1; cbn [bind]; try discriminate.
    rewrite (next_app _ e _ _ E1). cbn [bind].
    destruct (bits_loop m lz11 8 flags bs1 o size) as [[bs2 o1]|x|p] eqn:E2; cbn [bind]; try discriminate.
    rewrite (bits_loop_app m lz11 e _ _ _ _ _ _ _ E2). cbn [bind]. apply IH.
Qed.

Lemma dec_loop_r_fuel m lz11 : forall fuel fuel' bs o size res,
  dec_loop_r m lz11 fuel bs o size = Ok res -> (fuel <= fuel')%nat -> dec_loop_r m lz11 fuel' bs o size = Ok res.
Proof.
  induction fuel as [|fuel IH]; intros fuel' bs o size res; cbn [dec_loop_r].
  - destruct (size <=? v_len o) eqn:E; [|discriminate]. intros H _. destruct fuel'; cbn [dec_loop_r]; rewrite E; exact H.
  - destruct (size <=? v_len o) eqn:E.
    + intros H _. destruct fuel'; cbn [dec_loop_r]; rewrite E; exact H.
    + intros H Hf. destruct fuel' as [|f']; [lia|]. cbn [dec_loop_r]. rewrite E.
      destruct (next bs) as [[flags bs1]|x|p]; cbn [bind] in *; try discriminate.
      destruct (bits_loop m lz11 8 flags bs1 o size) as [[bs2 o1]|x|p]; cbn [bind] in *; try discriminate.
      apply (IH f'); [exact H | lia].
Qed.

(* ---------------------------------------------------------------- a well-formed body is read completely *)
Lemma dec_loop_r_sgroups m v : forall fuel bs o prod total ts fuel',
  wfb bs -> vwf o -> v_len o = prod ->
  sgroups v fuel bs prod total = Some ts ->
  (length bs < fuel')%nat ->
  exists o', dec_loop_r m (is11 v) fuel' bs o total = Ok ([], o').
Proof.
  induction fuel as [|fuel IH]; intros bs o prod total ts fuel' Hwb Hwo Hlen Hs Hf.
  - cbn [sgroups] in Hs.
    destruct (N.eqb_spec prod total) as [E|E].
    + destruct bs; [|discriminate]. exists o. destruct fuel'; cbn [dec_loop_r]; rewrite Hlen;
        (destruct (N.leb_spec total prod); [reflexivity | lia]).
    + destruct (N.ltb_spec total prod); discriminate.
  - cbn [sgroups] in Hs.
    destruct (N.eqb_spec prod total) as [E|E].
    + destruct bs; [|discriminate]. exists o. destruct fuel'; cbn [dec_loop_r]; rewrite Hlen;
        (destruct (N.leb_spec total prod); [reflexivity | lia]).
    + destruct (N.ltb_spec total prod) as [Hc|Hlt]; [discriminate|].
      destruct bs as [|flag bs']; [discriminate|].
      destruct (sgroup v 8 flag bs' prod total) as [[[ts1 r] p]|] eqn:Eg; [|discriminate].
      destruct (sgroups v fuel r p total) as [ts2|] eqn:Er; [|discriminate].
      apply wfb_cons_inv in Hwb. destruct Hwb as [_ Hwb'].
      destruct (bits_loop_sgroup m v 8 flag bs' o prod total ts1 r p Hwb' Hwo Hlen Eg) as (o1 & Hb & Hw1 & Hp1 & _ & Hwr & Hlr).
      destruct fuel' as [|f']; [lia|]. cbn [length] in Hf.
      destruct (IH r o1 p total ts2 f' Hwr Hw1 Hp1 Er ltac:(lia)) as (o' & Hd).
      exists o'. cbn [dec_loop_r]. rewrite Hlen. destruct (N.leb_spec total prod) as [Hc|_]; [lia|].
      cbn [next bind]. rewrite Hb. cbn [bind]. exact Hd.
Qed.

Theorem truncated_body m v body total ts p e :
  wfb body -> sbody v body total = Some ts -> body = p ++ e -> e <> [] ->
  dec_loop m (is11 v) (S (length p)) p v_empty total = Err EInvalidInput.
Proof.
  intros Hwb Hs Hsplit He.
  pose proof (dec_loop_safe m (is11 v) (S (length p)) p v_empty total vwf_empty ltac:(lia)) as Hsafe.
  destruct (dec_loop m (is11 v) (S (length p)) p v_empty total) as [o'|x|pp] eqn:Ed; cbn [safe] in Hsafe;
    [exfalso | subst x; reflexivity | destruct Hsafe].
  rewrite dec_loop_r_snd in Ed.
  destruct (dec_loop_r m (is11 v) (S (length p)) p v_empty total) as [[r o1]|x|pp] eqn:Er; cbn [bind] in Ed; try discriminate.
  apply (dec_loop_r_app m (is11 v) e) in Er. rewrite <- Hsplit in Er.
  apply (dec_loop_r_fuel m (is11 v) _ (S (length body))) in Er; [|subst body; rewrite app_length; lia].
  unfold sbody in Hs.
  destruct (dec_loop_r_sgroups m v _ body v_empty 0 total ts (S (length body)) Hwb vwf_empty eq_refl Hs ltac:(lia)) as (o2 & Hfull).
  rewrite Hfull in Er. inversion Er as [[Hr Ho]]. symmetry in Hr. apply app_eq_nil in Hr. destruct Hr as [_ Hr]. exact (He Hr).
Qed.

(* ---------------------------------------------------------------- whole streams *)
Lemma strict_prefix_cases {A} (x : A) (l p e : list A) : x :: l = p ++ e -> e <> [] ->
  p = [] \/ exists p', p = x :: p' /\ l = p' ++ e.
Proof. destruct p as [|y p']; [auto|]. cbn [app]. intros H _. inversion H; subst. right. eauto. Qed.

Theorem truncated10 m s n ts p e : sparse10 s = Some (n, ts) -> s = p ++ e -> e <> [] ->
  decompress_lz m p = Err EInvalidInput.
Proof.
  intros Hs Hsplit He. destruct (sparse10_inv s n ts Hs) as (Ew & l0 & l1 & l2 & body & -> & Hn & Eb).
  destruct (strict_prefix_cases _ _ _ _ Hsplit He) as [->|(p1 & -> & H1)]; [apply lz_short; cbn; lia|].
  destruct (strict_prefix_cases _ _ _ _ H1 He) as [->|(p2 & -> & H2)]; [apply lz_short; cbn; lia|].
  destruct (strict_prefix_cases _ _ _ _ H2 He) as [->|(p3 & -> & H3)]; [apply lz_short; cbn; lia|].
  destruct (strict_prefix_cases _ _ _ _ H3 He) as [->|(p4 & -> & H4)]; [apply lz_short; cbn; lia|].
  do 4 (apply wfb_cons_inv in Ew; destruct Ew as [? Ew]).
  unfold decompress_lz. cbn [next bind]. change (16 =? 16) with true. cbv beta iota. cbn [bind next].
  rewrite size24 by assumption. rewrite Bool.andb_false_r. cbn [bind]. rewrite <- Hn.
  pose proof (truncated_body m V10 body n ts p4 e Ew Eb H4 He) as Ht. cbn [is11] in Ht. rewrite Ht. reflexivity.
Qed.

Theorem truncated11 m s n ts p e : sparse11 s = Some (n, ts) -> s = p ++ e -> e <> [] ->
  decompress_lz m p = Err EInvalidInput.
Proof.
  intros Hs Hsplit He. destruct (sparse11_inv s n ts Hs) as (Ew & l0 & l1 & l2 & body & -> & Hcase).
  destruct (strict_prefix_cases _ _ _ _ Hsplit He) as [->|(p1 & -> & H1)]; [apply lz_short; cbn; lia|].
  destruct (strict_prefix_cases _ _ _ _ H1 He) as [->|(p2 & -> & H2)]; [apply lz_short; cbn; lia|].
  destruct (strict_prefix_cases _ _ _ _ H2 He) as [->|(p3 & -> & H3)]; [apply lz_short; cbn; lia|].
  destruct (strict_prefix_cases _ _ _ _ H3 He) as [->|(p4 & -> & H4)]; [apply lz_short; cbn; lia|].
  do 4 (apply wfb_cons_inv in Ew; destruct Ew as [? Ew]).
  unfold decompress_lz. cbn [next bind]. change (17 =? 16) with false. change (17 =? 17) with true. cbv beta iota. cbn [bind next].
  rewrite size24 by assumption.
  destruct Hcase as [(Hnz & Hn & Eb) | (Hz & m0 & m1 & m2 & m3 & body' & -> & Hn & Eb)].
  - destruct (N.eqb_spec (l0 + 256 * l1 + 65536 * l2) 0) as [E|_]; [congruence|]. cbn [andb bind]. rewrite <- Hn.
    pose proof (truncated_body m V11 body n ts p4 e Ew Eb H4 He) as Ht. cbn [is11] in Ht. rewrite Ht. reflexivity.
  - rewrite Hz. cbn [N.eqb andb].
    destruct (strict_prefix_cases _ _ _ _ H4 He) as [->|(q1 & -> & G1)]; [reflexivity|].
    destruct (strict_prefix_cases _ _ _ _ G1 He) as [->|(q2 & -> & G2)]; [reflexivity|].
    destruct (strict_prefix_cases _ _ _ _ G2 He) as [->|(q3 & -> & G3)]; [reflexivity|].
    destruct (strict_prefix_cases _ _ _ _ G3 He) as [->|(q4 & -> & G4)]; [reflexivity|].
    do 4 (apply wfb_cons_inv in Ew; destruct Ew as [? Ew]).
    cbn [next bind]. rewrite size32 by assumption. rewrite <- Hn.
    pose proof (truncated_body m V11 body' n ts q4 e Ew Eb G4 He) as Ht. cbn [is11] in Ht. rewrite Ht. reflexivity.
Qed.
