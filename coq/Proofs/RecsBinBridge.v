(* The bin-archive round trip (C01) in the shape the record-file developments use it
   (Proofs/RecsBytes.v: [ba_wf], [RecsBytes.obs_equal]; premise of the byte-level theorems of C17 / C18):

     recs_bin_round_trip : ba_wf a -> image_bound a + 3 < 2 ^ 32 ->
       exists f a', serialize m a = Ok f /\ from_bytes LE f = Ok a' /\ RecsBytes.obs_equal a a'.

   The "+ 3": C01's size bound [ser_bound] (Proofs/BinSerializeConforms.v) counts 3 spare bytes for the padding of the
   c-string pool, also when that pool is empty; [image_bound] of RecsBytes.v does not. *)
From Coq Require Import List NArith ZArith Bool Lia ZifyBool ZifyNat ZifyN.
From Mila Require Import Lib.Bytes Lib.Machine Model.BinArchive Model.BinStreams Model.BinFormat
  Proofs.AMapLemmas Proofs.BinFormatSpec Proofs.BinSerializeConformsBase Proofs.BinSerializeConformsPhases Proofs.BinSerializeConforms
  Proofs.TextBinBridge Proofs.RecsBytes.
Import ListNotations.
Local Open Scope N_scope.
Ltac Zify.zify_post_hook ::= Z.div_mod_to_equations.

Lemma sumf_cons' {A} (f : A -> N) x r : sumf f (x :: r) = f x + sumf f r.
Proof. reflexivity. Qed.

Lemma text_weight_sum (t : amap bytes) :
  text_weight t = 4 * lenL t + sumf (fun cs => lenN (snd cs) + 1) t.
Proof.
  induction t as [|[k s] r IH]; [reflexivity|]. cbn [text_weight]. rewrite sumf_cons', IH. cbn [snd]. unfold lenL. cbn [length]. lia.
Qed.
Lemma bucket_weight_sum (b : list bytes) : bucket_weight b = 8 * lenL b + sumf (fun l => lenN l + 1) b.
Proof.
  induction b as [|l r IH]; [reflexivity|]. cbn [bucket_weight]. rewrite sumf_cons', IH. unfold lenL. cbn [length]. lia.
Qed.
Lemma labels_weight_sum (ls : amap (list bytes)) :
  labels_weight ls = 8 * sumf (fun kb => lenL (snd kb)) ls + sumf (fun kb => sumf (fun l => lenN l + 1) (snd kb)) ls.
Proof.
  induction ls as [|[k b] r IH]; [reflexivity|]. cbn [labels_weight]. rewrite !sumf_cons', IH, bucket_weight_sum. cbn [snd]. lia.
Qed.

Lemma ba_ser_bound a : a_ptrs a = [] -> a_cstrs a = [] -> ser_bound a = image_bound a + 3.
Proof.
  intros Ep Ec. unfold ser_bound, image_bound. rewrite Ep, Ec, text_weight_sum, labels_weight_sum.
  cbn [sumf fold_right]. change (lenL (@nil (N * N))) with 0. lia.
Qed.

Lemma ba_wf_wf_archive a : ba_wf a -> wf_archive a.
Proof.
  intros W.
  assert (Ecells : cells a = am_keys (a_text a)).
  { unfold cells, cs_cells. rewrite (bw_ptrs a W), (bw_cstrs a W). cbn [map concat app]. rewrite app_nil_r. reflexivity. }
  assert (Hin : forall c, In c (am_keys (a_text a)) -> c mod 4 = 0 /\ c + 4 <= size a).
  { intros c Hc. unfold am_keys in Hc. apply in_map_iff in Hc. destruct Hc as ([k s] & E & Hks). cbn [fst] in E. subst k.
    destruct (bw_text a W c s Hks) as (H1 & H2 & _). split; assumption. }
  constructor.
  - rewrite Ecells. exact (bw_text_keys a W).
  - rewrite Ecells. intros c Hc. apply Hin. exact Hc.
  - rewrite Ecells. intros c c' Hc Hc' Hne. destruct (Hin c Hc) as [M _]. destruct (Hin c' Hc') as [M' _]. unfold sep. lia.
  - rewrite (bw_ptrs a W). intros c t [].
  - exact (bw_label_keys a W).
  - intros k b Hkb. destruct (bw_labels a W k b Hkb) as (_ & H2 & H3 & H4). split; [exact H2|]. split; [exact H3 | exact H4].
  - intros c s Hcs. destruct (bw_text a W c s Hcs) as (_ & _ & H3). exact H3.
  - rewrite (bw_cstrs a W). constructor.
  - rewrite (bw_cstrs a W). intros s cs [].
  - exact (bw_data a W).
Qed.

Theorem recs_bin_round_trip m a : ba_wf a -> image_bound a + 3 < 2 ^ 32 ->
  exists f a', BinFormat.serialize m a = Ok f /\ BinFormat.from_bytes LE f = Ok a' /\ RecsBytes.obs_equal a a'.
Proof.
  intros W B.
  assert (FIT : fits32 a) by (unfold fits32, U32; rewrite (ba_ser_bound a (bw_ptrs a W) (bw_cstrs a W)); exact B).
  destruct (bin_round_trip_maps key_bytes m a (ba_wf_wf_archive a W) FIT)
    as (f & a' & Hs & _ & Hp & He & _ & _ & Hsz & Hd & Gt & Gp & Gl & _ & _ & N3).
  specialize (Hsz (bw_cstrs a W)). rewrite (bw_endian a W) in Hp.
  exists f, a'. split; [exact Hs|]. split; [exact Hp|].
  unfold RecsBytes.obs_equal. split; [exact Hsz|]. split; [exact He|]. split; [|split; [exact Gt|split; [|split; [exact Gl | exact N3]]]].
  - intros x Hx Hnc. apply Hd; [lia|]. intros c Hc.
    assert (Hk : In c (am_keys (a_text a)) \/ In c (am_keys (a_ptrs a))).
    { unfold cells, cs_cells in Hc. rewrite (bw_cstrs a W) in Hc. cbn [map concat] in Hc. rewrite app_nil_r in Hc.
      apply in_app_or in Hc. unfold am_keys. tauto. }
    destruct (N.ltb_spec x c) as [L|L]; [left; lia|]. destruct (N.leb_spec (c + 4) x) as [R|R]; [right; lia|].
    exfalso. apply Hnc. exists c. split; [exact Hk | lia].
  - intros x. apply Gp. unfold cs_cells. rewrite (bw_cstrs a W). intros [].
Qed.
