(* C11, positive half: every legal token sequence - any mix of literals and references of every
   length form and displacement 1..4096 that stays inside the output - written down as the format
   prescribes is accepted by the strict parser, and the library's decoder returns its expansion,
   for each header form, through each entry point, in either arithmetic mode. *)
From Coq Require Import List NArith Arith Lia Bool ZifyBool ZifyNat ZifyN.
From Mila Require Import Lib.Bytes Lib.Machine Model.LZCore Model.LZSpec Model.LZDecode
  Proofs.LZBits Proofs.LZCoreProofs Proofs.LZSpecProofs Proofs.LZDecodeProofs.
Import ListNotations.
Local Open Scope N_scope.

Definition size_fits (v : version) (ext : bool) (n : N) : Prop :=
  match v with
  | V10 => n < 2 ^ 24
  | V11 => if ext then n < 2 ^ 32 else 0 < n < 2 ^ 24
  end.

Definition sparse (v : version) : list N -> option (N * list token) :=
  match v with V10 => sparse10 | V11 => sparse11 end.

Theorem sparse_enc v ext ts n :
  valid v ts -> N.of_nat (total_len ts) = n -> size_fits v ext n ->
  sparse v (sheader v ext n ++ enc_body (senc v) ts) = Some (n, ts).
Proof.
  intros Hv Hn Hfit.
  pose proof (wfb_enc_body v ts Hv) as Hwb.
  pose proof (sbody_enc v ts n Hv Hn) as Hsb.
  destruct v; cbn [sparse sheader size_fits] in *.
  - change (2 ^ 24) with 16777216 in Hfit. cbn [enc_le app]. unfold sparse10.
    assert (Hwf : wfbb (16 :: n mod 256 :: n / 256 mod 256 :: n / 256 / 256 mod 256 :: enc_body (senc V10) ts) = true).
    { apply wfbb_spec. repeat (constructor; [lia|]). exact Hwb. }
    rewrite Hwf. cbn [negb]. cbv beta iota.
    replace (n mod 256 + 256 * (n / 256 mod 256) + 65536 * (n / 256 / 256 mod 256)) with n by lia.
    rewrite Hsb. reflexivity.
  - destruct ext.
    + change (2 ^ 32) with 4294967296 in Hfit. cbn [enc_le app]. unfold sparse11.
      assert (Hwf : wfbb (17 :: 0 :: 0 :: 0 :: n mod 256 :: n / 256 mod 256 :: n / 256 / 256 mod 256 :: n / 256 / 256 / 256 mod 256
                             :: enc_body (senc V11) ts) = true).
      { apply wfbb_spec. repeat (constructor; [lia|]). exact Hwb. }
      rewrite Hwf. cbn [negb]. cbv beta iota. change (0 + 256 * 0 + 65536 * 0 =? 0) with true. cbv beta iota.
      replace (n mod 256 + 256 * (n / 256 mod 256) + 65536 * (n / 256 / 256 mod 256) + 16777216 * (n / 256 / 256 / 256 mod 256)) with n by lia.
      rewrite Hsb. reflexivity.
    + change (2 ^ 24) with 16777216 in Hfit. cbn [enc_le app]. unfold sparse11.
      assert (Hwf : wfbb (17 :: n mod 256 :: n / 256 mod 256 :: n / 256 / 256 mod 256 :: enc_body (senc V11) ts) = true).
      { apply wfbb_spec. repeat (constructor; [lia|]). exact Hwb. }
      rewrite Hwf. cbn [negb]. cbv beta iota.
      replace (n mod 256 + 256 * (n / 256 mod 256) + 65536 * (n / 256 / 256 mod 256)) with n by lia.
      destruct (N.eqb_spec n 0) as [E|_]; [lia|].
      rewrite Hsb. reflexivity.
Qed.

Theorem decode_sparse m v s n ts : sparse v s = Some (n, ts) ->
  exists x, expand ts = Some x /\ decompress_lz m s = Ok x /\ lenN x = n.
Proof. destruct v; [apply decode_sparse10 | apply decode_sparse11]. Qed.

(* a legal token sequence always has an expansion *)
Theorem decode_conforming m v ext ts n :
  valid v ts -> N.of_nat (total_len ts) = n -> size_fits v ext n ->
  exists x, expand ts = Some x /\ lenN x = n /\
    let s := sheader v ext n ++ enc_body (senc v) ts in
    lz10_decompress m s = Ok x /\ lz13_decompress m s = Ok x /\
    (forall a b c, lz13_decompress m (0x13 :: a :: b :: c :: s) = Ok x) /\
    cf_decompress CF10 m s = Ok x /\ cf_decompress CF13 m s = Ok x.
Proof.
  intros Hv Hn Hfit.
  destruct (decode_sparse m v _ _ _ (sparse_enc v ext ts n Hv Hn Hfit)) as (x & Hex & Hd & Hl).
  exists x. split; [exact Hex|]. split; [exact Hl|]. cbn zeta.
  assert (Hbare : lz13_decompress m (sheader v ext n ++ enc_body (senc v) ts) = Ok x).
  { destruct v; cbn [sheader] in *.
    - cbn [enc_le app] in *. rewrite lz13_bare by lia. exact Hd.
    - destruct ext; cbn [enc_le app] in *; rewrite lz13_bare by lia; exact Hd. }
  split; [exact Hd|]. split; [exact Hbare|]. split; [intros a b c; rewrite lz13_wrapped; exact Hd|].
  split; [exact Hd | exact Hbare].
Qed.
