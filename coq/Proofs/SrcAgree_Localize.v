(* Agreement of the per-game, per-language markers of src/localization.rs (regenerated from the source on
   every run) with Model/Localize.v [infix].  Languages and localizers are numbered by their position in
   the enum declarations of the source; the names tie the positions to the model's constructors. *)
From Coq Require Import String List NArith ZArith Bool.
From Mila Require Import Generated.SourceTables.
From Mila Require Import Proofs.SrcAgreeLib Model.Localize.
Import ListNotations.
Local Open Scope N_scope.

Definition all_langs : list lang := [EnglishNA; EnglishEU; Japanese; Spanish; French; Italian; German; Dutch].
Definition all_games : list game := [GNoOp; GFE9; GFE10; GFE13; GFE14; GFE15].

Lemma all_langs_complete : forall l, In l all_langs.
Proof. intros []; cbn; tauto. Qed.
Lemma all_games_complete : forall g, In g all_games.
Proof. intros []; cbn; tauto. Qed.

(* enum Language { EnglishNA, EnglishEU, Japanese, Spanish, French, Italian, German, Dutch } *)
Theorem src_LANGUAGE_NAMES_agrees :
  src_LANGUAGE_NAMES
  = map s2l ["EnglishNA"; "EnglishEU"; "Japanese"; "Spanish"; "French"; "Italian"; "German"; "Dutch"]%string.
Proof. reflexivity. Qed.

(* enum PathLocalizer { NoOp, FE9, FE10, FE13, FE14, FE15 } *)
Theorem src_LOCALIZER_NAMES_agrees :
  src_LOCALIZER_NAMES = map s2l ["NoOp"; "FE9"; "FE10"; "FE13"; "FE14"; "FE15"]%string.
Proof. reflexivity. Qed.

(* the five match statements, arm by arm: FE9, FE10, FE13, FE14, FE15 x the eight languages *)
Theorem src_LOCALIZE_MARKERS_agrees :
  src_LOCALIZE_MARKERS = map (fun g => map (infix g) all_langs) (tl all_games).
Proof. reflexivity. Qed.

(* pointwise form: for every localizer but NoOp and every language *)
Definition game_index (g : game) : nat :=
  match g with GNoOp => 0 | GFE9 => 1 | GFE10 => 2 | GFE13 => 3 | GFE14 => 4 | GFE15 => 5 end%nat.
Definition lang_index (l : lang) : nat :=
  match l with EnglishNA => 0 | EnglishEU => 1 | Japanese => 2 | Spanish => 3 | French => 4 | Italian => 5
             | German => 6 | Dutch => 7 end%nat.

Theorem src_LOCALIZE_MARKERS_agrees_pointwise : forall g l, g <> GNoOp ->
  infix g l = nth (lang_index l) (nth (game_index g - 1) src_LOCALIZE_MARKERS []) None.
Proof. intros [] [] H; try reflexivity; exfalso; apply H; reflexivity. Qed.
