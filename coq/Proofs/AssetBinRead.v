(* C18, part 4: the reader.  For ANY well-formed common schema, `from_stream` with the projected
   reader tables, run on an archive that shows the layout [record_cells sp] at the cursor, returns
   exactly [sp] and leaves the cursor behind the record - provided [sp] is in normal form
   ([wf_spec]: 33 + 18 fields, 32-bit values, an absent typed field holds its default). *)
From Coq Require Import List NArith ZArith Bool Lia ZifyBool ZifyNat ZifyN Arith.
From Mila Require Import Lib.Bytes Lib.Machine Model.BinArchive Model.BinStreams Model.AssetBin
  Proofs.AMapLemmas Proofs.BinAccess Proofs.BinAccess2 Proofs.RecsCells Proofs.AssetBinSchema Proofs.AssetBinFlags
  Proofs.AssetBinWrite.
Import ListNotations.
Local Open Scope N_scope.
Ltac Zify.zify_post_hook ::= Z.div_mod_to_equations.

Record wf_spec (sp : spec) : Prop := {
  ws_strs : length (sp_strs sp) = N_STRS;
  ws_typed : length (sp_typed sp) = N_TYPED;
  ws_vals : forall t, get_val sp t < 2 ^ 32;
  ws_normal : forall t, get_use sp t = false -> get_val sp t = 0 }.

(* what the reader does to the spec under construction, entry by entry *)
Definition restore_entry (sp : spec) (acc : spec) (e : centry) : spec :=
  match e with
  | CS t _ _ => set_str t (get_str sp t) acc
  | CT t _ _ _ => if get_use sp t then set_val t (get_val sp t) (set_use t acc) else acc
  end.
Definition restore (sp : spec) (es : list centry) (acc : spec) : spec := fold_left (restore_entry sp) es acc.

(* ---- typed values ---- *)
Lemma read_color_cell a p v :
  v < 2 ^ 32 -> cell_at a p (CRaw (swap02 (enc_le 4 v))) -> read_color a p = (Ok v, p + 4).
Proof.
  intros Hv H. unfold read_color.
  pose proof (r_read_bytes_raw a p (swap02 (enc_le 4 v))) as R.
  change (lenN (swap02 (enc_le 4 v))) with 4 in R. rewrite R; [|discriminate | exact H].
  cbn [enc_le swap02]. f_equal. f_equal.
  change [v mod 256; v / 256 mod 256; v / 256 / 256 mod 256; v / 256 / 256 / 256 mod 256] with (enc_le 4 v).
  apply dec_enc_le. change (256 ^ N.of_nat 4) with (2 ^ 32). exact Hv.
Qed.
Lemma read_typed_cell a p k v :
  a_endian a = LE -> v < 2 ^ 32 -> cell_at a p (CRaw (typed_bytes k v)) -> read_typed k a p = (Ok v, p + 4).
Proof.
  intros He Hv H. destruct k; cbn [read_typed typed_bytes] in *.
  - apply read_color_cell; assumption.
  - apply r_read_f32_raw; assumption.
  - apply r_read_u32_raw; assumption.
Qed.

(* ---- read_flag_str with a schema entry ---- *)
Lemma index_split (b : nat) (i : N) : i < 8 -> (8 * N.of_nat b + i) / 8 = N.of_nat b /\ (8 * N.of_nat b + i) mod 8 = i.
Proof. intros H. lia. Qed.

Lemma read_flag_str_entry a p fl (b : nat) (i : N) :
  i < 8 -> (b < length fl)%nat ->
  read_flag_str a p fl (8 * N.of_nat b + i)
  = if N.testbit (nth b fl 0) i then r_read_string a p else (Ok None, p).
Proof.
  intros Hi Hb. unfold read_flag_str. destruct (index_split b i Hi) as [-> ->].
  destruct (N.leb_spec (lenN fl) (N.of_nat b)) as [H|_]; [unfold lenN in H; lia|]. cbn [orb].
  rewrite Nat2N.id, shiftl_1, land_pow2_eq0. destruct (N.testbit (nth b fl 0) i); reflexivity.
Qed.

Lemma read_entries_layout sp a fl :
  a_endian a = LE -> (forall t, get_val sp t < 2 ^ 32) ->
  forall es acc p,
  (forall e, In e es -> ce_bit e < 8 /\ (ce_byte e < length fl)%nat /\
                        N.testbit (nth (ce_byte e) fl 0) (ce_bit e) = present sp e) ->
  layout a p (entries_cells sp es) ->
  read_entries a fl (map rproj es) acc p = Ok (restore sp es acc, p + cells_size (entries_cells sp es)).
Proof.
  intros He Hv. induction es as [|e r IH]; intros acc p Hfl Hl; cbn [map read_entries entries_cells restore fold_left cells_size].
  - rewrite N.add_0_r. reflexivity.
  - destruct (Hfl e (or_introl eq_refl)) as (Hi & Hb & Ht).
    assert (Hfl' : forall e', In e' r -> ce_bit e' < 8 /\ (ce_byte e' < length fl)%nat /\
                                        N.testbit (nth (ce_byte e') fl 0) (ce_bit e') = present sp e')
      by (intros e' He'; apply Hfl; right; exact He').
    cbn [entries_cells] in Hl. apply layout_app in Hl. destruct Hl as [Hl1 Hl2].
    rewrite cells_size_app.
    destruct e as [t b i|t b i k]; cbn [rproj ce_byte ce_bit present entry_cells restore_entry] in *.
    + rewrite read_flag_str_entry by assumption. rewrite Ht.
      destruct (get_str sp t) as [v|] eqn:G.
      * cbn [layout] in Hl1. destruct Hl1 as [Hc _]. rewrite (r_read_string_cell a p (Some v) Hc).
        cbn [cells_size cell_size] in *. rewrite (IH _ (p + 4) Hfl'); [|rewrite N.add_0_r in Hl2; exact Hl2].
        f_equal. f_equal. lia.
      * cbn [cells_size] in *. rewrite N.add_0_r in Hl2. rewrite (IH _ p Hfl' Hl2). reflexivity.
    + assert (Hn : nth_error fl b = Some (nth b fl 0)) by (apply nth_error_nth'; exact Hb).
      rewrite Hn, land_pow2_eq0, Ht.
      destruct (get_use sp t) eqn:G; cbn [negb].
      * cbn [layout] in Hl1. destruct Hl1 as [Hc _].
        rewrite (read_typed_cell a p k (get_val sp t) He (Hv t) Hc).
        cbn [cells_size cell_size] in *. rewrite lenN_typed_bytes in *.
        rewrite (IH _ (p + 4) Hfl'); [|rewrite N.add_0_r in Hl2; exact Hl2].
        f_equal. f_equal. lia.
      * cbn [cells_size] in *. rewrite N.add_0_r in Hl2. rewrite (IH _ p Hfl' Hl2). reflexivity.
Qed.

(* ---- what restore leaves in every field ---- *)
Lemma restore_name sp es acc : sp_name (restore sp es acc) = sp_name acc.
Proof.
  revert acc; induction es as [|e r IH]; intros acc; cbn [restore fold_left]; [reflexivity|].
  fold (restore sp r (restore_entry sp acc e)). rewrite IH.
  destruct e; cbn [restore_entry]; [reflexivity|]. destruct (get_use sp t); reflexivity.
Qed.
Lemma restore_lengths sp es acc :
  length (sp_strs (restore sp es acc)) = length (sp_strs acc) /\ length (sp_typed (restore sp es acc)) = length (sp_typed acc).
Proof.
  revert acc; induction es as [|e r IH]; intros acc; cbn [restore fold_left]; [split; reflexivity|].
  fold (restore sp r (restore_entry sp acc e)). destruct (IH (restore_entry sp acc e)) as [-> ->].
  destruct e; cbn [restore_entry set_str sp_strs sp_typed].
  - rewrite length_upd. split; reflexivity.
  - destruct (get_use sp t); cbn [set_val set_use sp_strs sp_typed]; rewrite ?length_upd; split; reflexivity.
Qed.
Lemma restore_strs sp es : forall acc t, (t < length (sp_strs acc))%nat ->
  nth t (sp_strs (restore sp es acc)) None = if existsb (is_CS t) es then get_str sp t else nth t (sp_strs acc) None.
Proof.
  induction es as [|e r IH]; intros acc t Ht; cbn [restore fold_left existsb]; [reflexivity|].
  fold (restore sp r (restore_entry sp acc e)).
  assert (L : length (sp_strs (restore_entry sp acc e)) = length (sp_strs acc)).
  { destruct e; cbn [restore_entry set_str sp_strs]; [apply length_upd|]. destruct (get_use sp t0); reflexivity. }
  rewrite IH by (rewrite L; exact Ht).
  destruct (existsb (is_CS t) r); [rewrite orb_true_r; reflexivity|]. rewrite orb_false_r.
  destruct e as [t' b i|t' b i k]; cbn [is_CS restore_entry].
  - cbn [set_str sp_strs]. destruct (Nat.eqb_spec t' t) as [E|E].
    + subst t'. rewrite nth_upd_same by exact Ht. reflexivity.
    + rewrite nth_upd_other by congruence. reflexivity.
  - destruct (get_use sp t'); reflexivity.
Qed.
Lemma restore_typed sp es : forall acc t, (t < length (sp_typed acc))%nat ->
  nth t (sp_typed (restore sp es acc)) (false, 0)
  = if andb (existsb (is_CT t) es) (get_use sp t) then (true, get_val sp t) else nth t (sp_typed acc) (false, 0).
Proof.
  induction es as [|e r IH]; intros acc t Ht; cbn [restore fold_left existsb]; [reflexivity|].
  fold (restore sp r (restore_entry sp acc e)).
  assert (L : length (sp_typed (restore_entry sp acc e)) = length (sp_typed acc)).
  { destruct e; cbn [restore_entry set_str sp_typed]; [reflexivity|].
    destruct (get_use sp t0); cbn [set_val set_use sp_typed]; rewrite ?length_upd; reflexivity. }
  rewrite IH by (rewrite L; exact Ht).
  destruct (existsb (is_CT t) r) eqn:X; cbn [andb].
  - rewrite orb_true_r. cbn [andb]. destruct (get_use sp t) eqn:G; [reflexivity|].
    (* not present: the head entry cannot have changed it either *)
    destruct e as [t' b i|t' b i k]; cbn [restore_entry]; [reflexivity|].
    destruct (get_use sp t') eqn:G'; [|reflexivity]. cbn [set_val set_use sp_typed].
    destruct (Nat.eq_dec t' t) as [E|E]; [congruence|]. rewrite !nth_upd_other by congruence. reflexivity.
  - rewrite orb_false_r. destruct e as [t' b i|t' b i k]; cbn [is_CT restore_entry]; [reflexivity|].
    destruct (Nat.eqb_spec t' t) as [E|E]; cbn [andb].
    + subst t'. destruct (get_use sp t) eqn:G; [|reflexivity]. cbn [set_val set_use sp_typed].
      rewrite nth_upd_same by (rewrite length_upd; exact Ht). rewrite nth_upd_same by exact Ht. reflexivity.
    + destruct (get_use sp t') eqn:G'; [|reflexivity]. cbn [set_val set_use sp_typed].
      rewrite !nth_upd_other by congruence. reflexivity.
Qed.

Lemma nth_default_strs t : nth t (sp_strs spec_default) None = None.
Proof. cbn [spec_default sp_strs]. unfold N_STRS. do 34 (destruct t as [|t]; [reflexivity|]). destruct t; reflexivity. Qed.
Lemma nth_default_typed t : nth t (sp_typed spec_default) (false, 0) = (false, 0).
Proof. cbn [spec_default sp_typed]. unfold N_TYPED. do 19 (destruct t as [|t]; [reflexivity|]). destruct t; reflexivity. Qed.

Section Schema.
Variables (cb ce : list centry).
Hypothesis WF : schema_wf cb ce.

(* the spec the reader rebuilds is the spec that was written *)
Lemma restored_is_spec sp :
  wf_spec sp ->
  (if long cb ce sp then restore sp ce (restore sp cb (set_name (sp_name sp) spec_default))
   else restore sp cb (set_name (sp_name sp) spec_default)) = sp.
Proof.
  intros W.
  set (sp0 := set_name (sp_name sp) spec_default).
  assert (Habs : long cb ce sp = false -> forall e, In e ce -> present sp e = false).
  { intros L. apply (short_iff cb ce WF sp). rewrite long_eq in L. destruct (short cb ce sp); [reflexivity | discriminate]. }
  set (res := if long cb ce sp then restore sp ce (restore sp cb sp0) else restore sp cb sp0).
  assert (Hname : sp_name res = sp_name sp).
  { unfold res. destruct (long cb ce sp); rewrite ?restore_name; reflexivity. }
  assert (Hls : length (sp_strs res) = N_STRS /\ length (sp_typed res) = N_TYPED).
  { unfold res. destruct (long cb ce sp).
    - destruct (restore_lengths sp ce (restore sp cb sp0)) as [-> ->]. destruct (restore_lengths sp cb sp0) as [-> ->]. split; reflexivity.
    - destruct (restore_lengths sp cb sp0) as [-> ->]. split; reflexivity. }
  destruct Hls as [Ls Lt].
  assert (L0s : length (sp_strs sp0) = N_STRS) by reflexivity.
  assert (L0t : length (sp_typed sp0) = N_TYPED) by reflexivity.
  assert (Hs : sp_strs res = sp_strs sp).
  { apply (nth_ext _ _ None None); [rewrite Ls; symmetry; exact (ws_strs sp W)|].
    intros t Ht. rewrite Ls in Ht. change (nth t (sp_strs sp) None) with (get_str sp t).
    destruct (sw_strs _ _ WF t Ht) as (e & He & Ee). apply in_app_iff in He.
    unfold res. destruct (long cb ce sp) eqn:L.
    - unfold restore. rewrite <- fold_left_app. fold (restore sp (cb ++ ce) sp0).
      rewrite restore_strs by (rewrite L0s; exact Ht).
      replace (existsb (is_CS t) (cb ++ ce)) with true; [reflexivity|].
      symmetry. apply existsb_exists. exists e. split; [apply in_app_iff; exact He | exact Ee].
    - rewrite restore_strs by (rewrite L0s; exact Ht).
      destruct (existsb (is_CS t) cb) eqn:X; [reflexivity|].
      destruct He as [He|He].
      + assert (existsb (is_CS t) cb = true) by (apply existsb_exists; exists e; auto). congruence.
      + pose proof (Habs eq_refl e He) as P. destruct e as [t' b i|]; [|discriminate].
        cbn [is_CS] in Ee. apply Nat.eqb_eq in Ee. subst t'. cbn [present] in P.
        unfold sp0. cbn [set_name sp_strs]. rewrite nth_default_strs. destruct (get_str sp t); [discriminate | reflexivity]. }
  assert (Ht : sp_typed res = sp_typed sp).
  { apply (nth_ext _ _ (false, 0) (false, 0)); [rewrite Lt; symmetry; exact (ws_typed sp W)|].
    intros t Htt. rewrite Lt in Htt.
    assert (Esp : nth t (sp_typed sp) (false, 0) = (get_use sp t, get_val sp t)) by (unfold get_use, get_val; apply surjective_pairing).
    destruct (sw_typed _ _ WF t Htt) as (e & He & Ee). apply in_app_iff in He.
    assert (Dflt : nth t (sp_typed sp0) (false, 0) = (false, 0)) by (unfold sp0; cbn [set_name sp_typed]; apply nth_default_typed).
    unfold res. destruct (long cb ce sp) eqn:L.
    - unfold restore. rewrite <- fold_left_app. fold (restore sp (cb ++ ce) sp0).
      rewrite restore_typed by (rewrite L0t; exact Htt).
      replace (existsb (is_CT t) (cb ++ ce)) with true.
      2:{ symmetry. apply existsb_exists. exists e. split; [apply in_app_iff; exact He | exact Ee]. }
      cbn [andb]. rewrite Esp, Dflt. destruct (get_use sp t) eqn:G; [reflexivity|]. rewrite (ws_normal sp W t G). reflexivity.
    - rewrite restore_typed by (rewrite L0t; exact Htt). rewrite Esp, Dflt.
      destruct (get_use sp t) eqn:G.
      + destruct (existsb (is_CT t) cb) eqn:X; cbn [andb]; [reflexivity|]. exfalso.
        destruct He as [He|He].
        * assert (existsb (is_CT t) cb = true) by (apply existsb_exists; exists e; auto). congruence.
        * pose proof (Habs eq_refl e He) as P. destruct e as [|t' b i k]; [discriminate|].
          cbn [is_CT] in Ee. apply Nat.eqb_eq in Ee. subst t'. cbn [present] in P. congruence.
      + rewrite andb_false_r. rewrite (ws_normal sp W t G). reflexivity. }
  fold sp0. fold res. destruct res as [n s t], sp as [n' s' t']. cbn [sp_name sp_strs sp_typed] in *. congruence.
Qed.

(* one record *)
Theorem from_stream_layout sp a p :
  wf_spec sp -> a_endian a = LE -> layout a p (record_cells cb ce sp) ->
  from_stream_with (map rproj cb) (map rproj ce) a p = Ok (sp, p + cells_size (record_cells cb ce sp)).
Proof.
  intros W He Hl. unfold record_cells in *. cbn [layout cell_size cells_size] in Hl.
  destruct Hl as (Hfl & Hname & Hrest). cbn [cell_size] in Hrest.
  destruct (flags_nonempty cb ce sp) as (f0 & rest & Efl & Lrest).
  pose proof (flags_marker cb ce WF sp) as M. rewrite Efl in M. cbn [nth] in M.
  assert (Elen : lenN (flags cb ce sp) = 1 + lenN rest) by (rewrite Efl; apply lenN_cons).
  assert (Lr : lenN rest = if long cb ce sp then 7 else 3).
  { unfold lenN. rewrite Lrest, long_eq. destruct (short cb ce sp); reflexivity. }
  unfold from_stream_with.
  rewrite Efl in Hfl. destruct (r_read_u8_raw a p f0 rest Hfl) as [R1 Hrest1]. rewrite R1.
  rewrite land_1, M.
  assert (FC : (if (if long cb ce sp then 1 else 0) =? 1 then 7 else 3) = lenN rest) by (rewrite Lr; destruct (long cb ce sp); reflexivity).
  rewrite FC.
  rewrite (r_read_bytes_raw a (p + 1) rest); [|destruct rest; [destruct (short cb ce sp); discriminate | discriminate] | exact Hrest1].
  replace (p + 1 + lenN rest) with (p + lenN (flags cb ce sp)) by lia.
  rewrite (r_read_string_cell a _ (sp_name sp) Hname).
  apply layout_app in Hrest. destruct Hrest as [Hb Hx].
  rewrite <- Efl.
  rewrite (read_entries_layout sp a (flags cb ce sp) He (ws_vals sp W) cb _ _); [|intros e Hin|exact Hb].
  2:{ assert (Hall : In e (cb ++ ce)) by (apply in_app_iff; left; exact Hin).
      destruct (sw_base _ _ WF e Hin) as [_ Hbit]. pose proof (flags_base_len cb ce WF sp e Hin) as Hlen.
      repeat split; [exact Hbit | exact Hlen | exact (flags_bit_entry cb ce WF sp e Hall Hlen)]. }
  cbn [bind fst snd].
  pose proof (restored_is_spec sp W) as RS.
  rewrite Lr. cbn [cells_size cell_size]. rewrite cells_size_app.
  destruct (long cb ce sp) eqn:L.
  - change (3 <? 7) with true. cbv iota.
    rewrite (read_entries_layout sp a (flags cb ce sp) He (ws_vals sp W) ce _ _); [|intros e Hin|exact Hx].
    2:{ assert (Hall : In e (cb ++ ce)) by (apply in_app_iff; right; exact Hin).
        destruct (sw_ext _ _ WF e Hin) as [_ Hbit]. pose proof (flags_ext_len cb ce WF sp e Hin L) as Hlen.
        repeat split; [exact Hbit | exact Hlen | exact (flags_bit_entry cb ce WF sp e Hall Hlen)]. }
    rewrite RS. f_equal. f_equal. lia.
  - change (3 <? 3) with false. cbv iota. rewrite RS. cbn [cells_size]. f_equal. f_equal. lia.
Qed.

End Schema.
