(* fe9_arc::parse returns exactly the files of every conforming image (C15_parser_correct). *)
From Coq Require Import List NArith ZArith Arith Lia Bool ZifyBool ZifyNat ZifyN.
From Mila Require Import Lib.Bytes Lib.BytesExtra Lib.Machine Model.PackFormat Model.Pack Proofs.PackFormatProofs.
Import ListNotations.
Local Open Scope N_scope.
Ltac Zify.zify_post_hook ::= Z.div_mod_to_equations.

(* ---- IndexMap::insert *)
Lemma im_insert_fresh k v acc : ~ In k (map fst acc) -> im_insert k v acc = acc ++ [(k, v)].
Proof.
  induction acc as [|[k' v'] r IH]; cbn [im_insert map fst In app]; intros H; [reflexivity|].
  destruct (bytes_eqb_spec k k') as [E|E]; [exfalso; apply H; left; congruence|].
  rewrite IH; [reflexivity|]. intros Hin. apply H. right. exact Hin.
Qed.

Lemma im_insert_keys k v acc : In k (map fst acc) -> map fst (im_insert k v acc) = map fst acc.
Proof.
  induction acc as [|[k' v'] r IH]; cbn [im_insert map fst In]; intros H; [contradiction|].
  destruct (bytes_eqb_spec k k') as [E|E]; [reflexivity|]. cbn [map fst]. f_equal. apply IH.
  destruct H as [H|H]; [congruence | exact H].
Qed.

Lemma NoDup_snoc {A} (l : list A) x : NoDup l -> ~ In x l -> NoDup (l ++ [x]).
Proof.
  induction 1 as [|y l Hy Hd IH]; cbn [app]; intros Hx.
  - constructor; [intros [] | constructor].
  - constructor.
    + rewrite in_app_iff. intros [H|[H|[]]]; [contradiction | subst; apply Hx; left; reflexivity].
    + apply IH. intros H. apply Hx. right. exact H.
Qed.

Lemma im_insert_NoDup k v acc : NoDup (map fst acc) -> NoDup (map fst (im_insert k v acc)).
Proof.
  intros H. destruct (in_dec (list_eq_dec N.eq_dec) k (map fst acc)) as [Hin|Hin].
  - rewrite im_insert_keys by exact Hin. exact H.
  - rewrite im_insert_fresh by exact Hin. rewrite map_app. cbn [map fst].
    apply NoDup_snoc; auto.
Qed.

(* ---- header and entry table *)
(* what the first loop learns about the file behind entry e *)
Definition meta_for (f : bytes) (me : meta) (e : entry) : Prop :=
  cstr_atN f (m_name me) = Some (fst e) /\ sliceN (m_addr me) (m_size me) f = Some (snd e) /\
  m_addr me < 2 ^ 32 /\ m_size me < 2 ^ 32.

Lemma read_meta_fields f i na fa sz :
  fields_at f i na fa sz -> read_meta f (8 + 16 * i) = Ok (mkMeta na fa sz).
Proof.
  intros ((unk & H0) & H1 & H2 & H3). unfold read_meta, rd32. rewrite H0, H1, H2, H3. reflexivity.
Qed.

Lemma read_metas_conforming f (W : wfb f) files : forall k,
  (forall j e, nth_error files j = Some e -> entry_at f (k + N.of_nat j) e) ->
  exists ms, read_metas f (8 + 16 * k) (length files) = Ok ms /\ Forall2 (meta_for f) ms files.
Proof.
  induction files as [|e0 r IH]; intros k H; cbn [length read_metas].
  - exists []. split; [reflexivity | constructor].
  - destruct (H O e0 eq_refl) as (na & fa & sz & Hf & Hn & Hs).
    replace (k + N.of_nat 0) with k in Hf by lia.
    rewrite (read_meta_fields _ _ _ _ _ Hf). cbn [bind].
    destruct (IH (k + 1)) as (ms & Hms & HF).
    { intros j e E. replace (k + 1 + N.of_nat j) with (k + N.of_nat (S j)) by lia. apply H. exact E. }
    unfold METADATA_SIZE. replace (8 + 16 * k + 16) with (8 + 16 * (k + 1)) by lia. rewrite Hms. cbn [bind].
    eexists. split; [reflexivity|]. constructor; [|exact HF].
    destruct Hf as (_ & _ & Hfa & Hsz).
    unfold meta_for; cbn [m_name m_addr m_size]. repeat split.
    + apply name_at_cstr, Hn.
    + exact Hs.
    + eapply u32_at_bound; eauto.
    + eapply u32_at_bound; eauto.
Qed.

(* ---- the second loop on a table of good entries with fresh names *)
Lemma read_files_conforming m f ms (files : list entry) :
  Forall2 (meta_for f) ms files ->
  forall acc : list entry, NoDup (map fst files) -> (forall e, In e files -> ~ In (fst e) (map fst acc)) ->
  read_files m f (lenN f) ms acc = (map m_size ms, Ok (acc ++ files)).
Proof.
  induction 1 as [|me e ms' files' Hme HF IH]; intros acc Hnd Hfresh; cbn [read_files map].
  - rewrite app_nil_r. reflexivity.
  - destruct Hme as (Hn & Hs & Ha & Hz). rewrite Hn.
    pose proof (sliceN_bound _ _ _ _ Hs) as Hb.
    rewrite add_w_ok by (unfold maxw, W64; lia).
    destruct (N.ltb_spec (lenN f) (m_addr me + m_size me)) as [Hlt|_]; [lia|].
    rewrite Hs. rewrite im_insert_fresh by (apply Hfresh; left; reflexivity).
    cbn [map fst] in Hnd. inversion Hnd as [|? ? Hnotin Hnd']; subst.
    rewrite IH.
    + rewrite <- app_assoc. destruct e. reflexivity.
    + exact Hnd'.
    + intros e' He'. rewrite map_app, in_app_iff. cbn [map fst In]. intros [Hin|[Heq|[]]].
      * revert Hin. apply Hfresh. right. exact He'.
      * apply Hnotin. rewrite Heq. apply in_map. exact He'.
Qed.

(* ---- C15_parser_correct *)
Theorem parser_correct f files :
  wfb f -> conforms_pack f files -> forall m, parse m f = Ok files.
Proof.
  intros W (Hmag & Hmax & Hcnt & Hent & Hnd) m.
  destruct (read_metas_conforming f W files 0) as (ms & Hms & HF).
  { intros j e E. replace (0 + N.of_nat j) with (N.of_nat j) by lia. apply Hent, E. }
  unfold parse, parse_run, parse_header, rd32, rd16.
  rewrite Hmag. cbn [of_option bind]. change (PACK_MAGIC =? MAGIC) with true. cbn [guard bind].
  rewrite Hcnt. cbn [of_option bind]. rewrite Nat2N.id.
  change BASE_HEADER_SIZE with (8 + 16 * 0). rewrite Hms.
  rewrite (read_files_conforming m f ms files HF []); [reflexivity | exact Hnd | intros e _ []].
Qed.

Lemma parser_correct_allocs f files :
  wfb f -> conforms_pack f files -> forall m, parse_allocs m f = map (fun e => lenN (snd e)) files.
Proof.
  intros W (Hmag & Hmax & Hcnt & Hent & Hnd) m.
  destruct (read_metas_conforming f W files 0) as (ms & Hms & HF).
  { intros j e E. replace (0 + N.of_nat j) with (N.of_nat j) by lia. apply Hent, E. }
  unfold parse_allocs, parse_run, parse_header, rd32, rd16.
  rewrite Hmag. cbn [of_option bind]. change (PACK_MAGIC =? MAGIC) with true. cbn [guard bind].
  rewrite Hcnt. cbn [of_option bind]. rewrite Nat2N.id.
  change BASE_HEADER_SIZE with (8 + 16 * 0). rewrite Hms.
  rewrite (read_files_conforming m f ms files HF []); [| exact Hnd | intros e _ []]. cbn [fst].
  clear -HF. induction HF as [|me e ms' files' Hme HF IH]; cbn [map]; [reflexivity|]. f_equal; [|exact IH].
  destruct Hme as (_ & Hs & _). symmetry. eapply sliceN_length; eauto.
Qed.
