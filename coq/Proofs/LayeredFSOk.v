(* WHEN write / create_dir succeed (review item C12-2), and what create_dir leaves unchanged (C12-7).
   Everything here is derived from the definitions of l_write / l_create_dir / fs_write / fs_create_dir;
   no well-formedness of the layers is needed. *)
From Coq Require Import List NArith Bool Arith Lia.
From Mila Require Import Lib.Bytes Lib.Machine Model.Localize Proofs.LocalizeProofs Model.LayeredFS
  Proofs.LayeredFSBase Proofs.LayeredFSStack.
Import ListNotations.

(* ------------------------------------------------------------------ one layer *)
(* std::fs::create_dir_all(parent) + std::fs::write succeed on the tree: no trailing '/', no proper ancestor is a
   file, the target is not a directory (the layer root is one) *)
Definition can_write (L : layer) (a : ppath) : bool :=
  andb (negb (snd a)) (andb (negb (blocked L (proper_prefixes (fst a)))) (negb (is_dir_at L (fst a)))).
(* create_dir_all succeeds on the tree: neither the target nor an ancestor is a file *)
Definition can_create_dir (L : layer) (a : ppath) : bool := negb (blocked L (prefixes (fst a))).

Lemma l_get_mkdirs_self L p : l_get (mkdirs L (proper_prefixes p)) p = l_get L p.
Proof.
  rewrite l_get_mkdirs. destruct (l_get L p) as [e|]; [reflexivity|].
  destruct (inb p (proper_prefixes p)) eqn:I; [|reflexivity].
  apply inb_spec in I. exfalso. exact (proper_prefix_neq _ _ I eq_refl).
Qed.

Lemma l_write_ok_iff L a c : snd (l_write L a c) = can_write L a.
Proof.
  destruct a as [p tr]. unfold l_write, can_write, is_dir_at. cbn [fst snd].
  destruct (blocked L (proper_prefixes p)); [destruct tr; reflexivity|].
  destruct tr; [reflexivity|]. rewrite l_get_mkdirs_self.
  destruct (l_get L p) as [[b|]|]; reflexivity.
Qed.

Lemma l_create_dir_ok_iff L a : snd (l_create_dir L a) = can_create_dir L a.
Proof. unfold l_create_dir, can_create_dir. destruct (blocked L (prefixes (fst a))); reflexivity. Qed.

Lemma can_write_spec L pp tr : can_write L (pp, tr) = true <->
  tr = false /\ (forall q, In q (proper_prefixes pp) -> is_file_at L q = false) /\ l_get L pp <> Some Dir.
Proof.
  unfold can_write, is_dir_at. cbn [fst snd]. rewrite !andb_true_iff, !negb_true_iff, blocked_false. split.
  - intros (H1 & H2 & H3). repeat split; auto. intros E. rewrite E in H3. discriminate.
  - intros (H1 & H2 & H3). repeat split; auto. destruct (l_get L pp) as [[b|]|]; congruence.
Qed.

Lemma can_create_dir_spec L a : can_create_dir L a = true <-> forall q, In q (prefixes (fst a)) -> is_file_at L q = false.
Proof. unfold can_create_dir. rewrite negb_true_iff. apply blocked_false. Qed.

Lemma rev_last_top {A} (ls : list A) (top : A) r d : rev ls = top :: r -> last ls d = top /\ ls <> [].
Proof. intros H. apply rev_cons_inv in H. subst ls. rewrite last_snoc. split; [reflexivity | destruct (rev r); discriminate]. Qed.

Lemma search_top_snoc P a x : search_top P (a ++ [x]) = if P x then Some (length a, x) else search_top P a.
Proof.
  destruct (P x) eqn:E; [apply search_top_last; exact E|].
  induction a as [|y a IH]; cbn [app search_top length].
  - rewrite E. reflexivity.
  - rewrite IH. reflexivity.
Qed.

(* ------------------------------------------------------------------ the stack *)
Section Codec.
  Variable compress decompress : cfmt -> bytes -> outcome bytes.

  (* the return value of write, completely: the localisation / path error, else the codec's error, else
     NoWriteableLayers (unreachable after fs_new), else Ok or WriteError according to [can_write] on the TOP layer *)
  Theorem write_result S p b loc :
    snd (fs_write compress S p b loc) =
      fbind (fs_addr S p loc) (fun sa =>
      fbind (encode_by_name compress S p b) (fun _ =>
      match layers S with
      | [] => FErr ENoWriteableLayers
      | _ => if can_write (last (layers S) []) (snd sa) then FOk tt else FErr EWrite
      end)).
  Proof.
    unfold fs_write. destruct (fs_addr S p loc) as [sa|e|k]; cbn [fbind snd]; try reflexivity.
    destruct (encode_by_name compress S p b) as [c|e|k]; cbn [fbind snd]; try reflexivity.
    destruct (rev (layers S)) as [|top r] eqn:R.
    - destruct (layers S) as [|x l]; [reflexivity|]. exfalso. apply (f_equal (@length _)) in R.
      rewrite rev_length in R. discriminate.
    - destruct (rev_last_top (layers S) top r [] R) as (-> & Hne).
      pose proof (l_write_ok_iff top (snd sa) c) as W. destruct (l_write top (snd sa) c) as [top' ok]. cbn [snd] in *. subst ok.
      destruct (layers S); [congruence|]. reflexivity.
  Qed.

  (* write succeeds IFF: the path localizes (when asked to) to a modelled path WITHOUT trailing '/', the codec accepts the
     payload (only consulted for names with the game's compressed suffix), there is a layer, and in the TOP layer no proper
     ancestor of the target is a file and the target is not a directory (in particular it is not the layer root).
     Lower layers play no role: a file below does not block, a directory below does not help. *)
  Theorem write_ok_iff S p b loc :
    snd (fs_write compress S p b loc) = FOk tt <->
    exists s pp c, fs_addr S p loc = FOk (s, (pp, false)) /\ encode_by_name compress S p b = FOk c /\ layers S <> [] /\
      let top := last (layers S) [] in
      (forall q, In q (proper_prefixes pp) -> is_file_at top q = false) /\ l_get top pp <> Some Dir.
  Proof.
    rewrite write_result. split.
    - destruct (fs_addr S p loc) as [[s [pp tr]]|e|k]; cbn [fbind snd]; try discriminate.
      destruct (encode_by_name compress S p b) as [c|e|k]; cbn [fbind]; try discriminate.
      destruct (layers S) as [|x l] eqn:EL; [discriminate|]. rewrite <- EL.
      destruct (can_write (last (layers S) []) (pp, tr)) eqn:C; [|discriminate]. intros _.
      apply can_write_spec in C. destruct C as (-> & H1 & H2). exists s, pp, c. repeat split; auto. congruence.
    - intros (s & pp & c & -> & -> & Hne & H1 & H2). cbn [fbind snd].
      destruct (layers S) as [|x l] eqn:EL; [congruence|]. rewrite <- EL.
      rewrite (proj2 (can_write_spec (last (layers S) []) pp false)); [reflexivity|]. rewrite EL. auto.
  Qed.

  (* the only other outcomes *)
  Theorem write_not_ok S p b loc s pp tr c :
    fs_addr S p loc = FOk (s, (pp, tr)) -> encode_by_name compress S p b = FOk c -> layers S <> [] ->
    snd (fs_write compress S p b loc) <> FOk tt -> snd (fs_write compress S p b loc) = FErr EWrite.
  Proof.
    rewrite write_result. intros -> -> Hne. cbn [fbind snd]. destruct (layers S) as [|x l] eqn:EL; [congruence|]. rewrite <- EL.
    destruct (can_write _ _); congruence.
  Qed.

  (* ---- create_dir ---- *)
  Theorem create_dir_result S p loc :
    snd (fs_create_dir S p loc) =
      fbind (fs_addr S p loc) (fun sa =>
      match layers S with
      | [] => FPanic PIndex
      | _ => if can_create_dir (last (layers S) []) (snd sa) then FOk tt else FErr EIo
      end).
  Proof.
    unfold fs_create_dir. destruct (fs_addr S p loc) as [sa|e|k]; cbn [fbind snd]; try reflexivity.
    destruct (rev (layers S)) as [|top r] eqn:R.
    - destruct (layers S) as [|x l]; [reflexivity|]. exfalso. apply (f_equal (@length _)) in R.
      rewrite rev_length in R. discriminate.
    - destruct (rev_last_top (layers S) top r [] R) as (-> & Hne).
      pose proof (l_create_dir_ok_iff top (snd sa)) as W. destruct (l_create_dir top (snd sa)) as [top' ok]. cbn [snd] in *. subst ok.
      destruct (layers S); [congruence|]. reflexivity.
  Qed.

  (* create_dir succeeds IFF the path localizes to a modelled path (a trailing '/' and the root "" are fine), there is a layer,
     and in the TOP layer neither the target nor any of its ancestors is a file *)
  Theorem create_dir_ok_iff S p loc :
    snd (fs_create_dir S p loc) = FOk tt <->
    exists s pp tr, fs_addr S p loc = FOk (s, (pp, tr)) /\ layers S <> [] /\
      forall q, In q (prefixes pp) -> is_file_at (last (layers S) []) q = false.
  Proof.
    rewrite create_dir_result. split.
    - destruct (fs_addr S p loc) as [[s [pp tr]]|e|k]; cbn [fbind snd]; try discriminate.
      destruct (layers S) as [|x l] eqn:EL; [discriminate|]. rewrite <- EL.
      destruct (can_create_dir (last (layers S) []) (pp, tr)) eqn:C; [|discriminate]. intros _.
      pose proof (proj1 (can_create_dir_spec _ _) C) as C'. cbn [fst] in C'. exists s, pp, tr. split; [reflexivity|]. split; [congruence | exact C'].
    - intros (s & pp & tr & -> & Hne & H1). cbn [fbind snd].
      destruct (layers S) as [|x l] eqn:EL; [congruence|]. rewrite <- EL.
      rewrite (proj2 (can_create_dir_spec (last (layers S) []) (pp, tr))); [reflexivity|]. rewrite EL. exact H1.
  Qed.

  (* ---- frame of create_dir: files are neither created, removed nor changed ---- *)
  Lemma after_mkdirs_file L qs q b : after_mkdirs L qs q = Some (File b) <-> l_get L q = Some (File b).
  Proof.
    unfold after_mkdirs. destruct (l_get L q) as [e|]; [tauto|]. destruct (inb q qs); split; discriminate.
  Qed.
  Lemma after_mkdirs_mono L qs q : l_get L q <> None -> after_mkdirs L qs q = l_get L q.
  Proof. unfold after_mkdirs. destruct (l_get L q); congruence. Qed.

  Lemma mkdirs_is_file L qs a : l_is_file (mkdirs L qs) a = l_is_file L a.
  Proof.
    unfold l_is_file. rewrite l_get_mkdirs. fold (after_mkdirs L qs (fst a)).
    destruct (l_get L (fst a)) as [e|] eqn:E.
    - rewrite after_mkdirs_mono by congruence. rewrite E. reflexivity.
    - unfold after_mkdirs. rewrite E. destruct (inb (fst a) qs); reflexivity.
  Qed.
  Lemma mkdirs_read L qs a : l_read (mkdirs L qs) a = l_read L a.
  Proof.
    unfold l_read. rewrite l_get_mkdirs. fold (after_mkdirs L qs (fst a)).
    destruct (l_get L (fst a)) as [e|] eqn:E.
    - rewrite after_mkdirs_mono by congruence. rewrite E. reflexivity.
    - unfold after_mkdirs. rewrite E. destruct (inb (fst a) qs); reflexivity.
  Qed.
  Lemma mkdirs_is_dir_mono L qs a : l_is_dir L a = true -> l_is_dir (mkdirs L qs) a = true.
  Proof.
    unfold l_is_dir. rewrite l_get_mkdirs. destruct (l_get L (fst a)) as [[b|]|]; try discriminate. reflexivity.
  Qed.

  Lemma create_dir_layers S p loc S' r : fs_create_dir S p loc = (S', r) ->
    S' = S \/ exists rest top qs, layers S = rest ++ [top] /\ S' = mkFs (rest ++ [mkdirs top qs]) (conf S) (lng S).
  Proof.
    intros H. apply fs_create_dir_cases in H.
    destruct H as [(-> & _)|(s & a & top & rest & top' & ok & A & Ly & W & -> & R)]; [left; reflexivity|].
    destruct ok.
    - apply l_create_dir_spec in W. destruct W as (_ & W). destruct (W eq_refl) as (_ & -> & _). right. eauto.
    - apply l_create_dir_spec in W. destruct W as (W & _). destruct (W eq_refl) as (-> & _). left.
      destruct S as [ls cf lg]. cbn [layers conf lng] in *. rewrite Ly. reflexivity.
  Qed.

  (* whatever create_dir returns (for any path q, localized or not): every read and every file_exists query answers as
     before, and paths that existed / were directories still do.  (exists / directory_exists / listings may of course GAIN
     the created directories; resolve may move to the top layer.) *)
  Theorem create_dir_frame S q l S' r : fs_create_dir S q l = (S', r) ->
    (forall p loc, fs_read decompress S' p loc = fs_read decompress S p loc) /\
    (forall p loc, fs_file_exists S' p loc = fs_file_exists S p loc) /\
    (forall p loc, fs_exists S p loc = FOk true -> fs_exists S' p loc = FOk true) /\
    (forall p loc, fs_directory_exists S p loc = FOk true -> fs_directory_exists S' p loc = FOk true).
  Proof.
    intros H. apply create_dir_layers in H. destruct H as [->|(rest & top & qs & Ly & ->)]; [repeat split; auto|].
    set (S1 := mkFs (rest ++ [mkdirs top qs]) (conf S) (lng S)).
    assert (AD : forall p loc, fs_addr S1 p loc = fs_addr S p loc) by (intros; apply fs_addr_state; reflexivity).
    split; [|split; [|split]]; intros p loc.
    - unfold fs_read. rewrite AD. destruct (fs_addr S p loc) as [[s a]|e|k]; cbn [fbind]; try reflexivity.
      cbn [snd]. unfold S1 at 1. cbn [layers]. rewrite Ly, !search_top_snoc, mkdirs_is_file.
      destruct (l_is_file top a); [rewrite mkdirs_read; reflexivity | reflexivity].
    - unfold fs_file_exists. rewrite AD. destruct (fs_addr S p loc) as [[s a]|e|k]; cbn [fbind]; try reflexivity.
      cbn [snd]. unfold S1. cbn [layers]. rewrite Ly, !search_top_snoc, mkdirs_is_file.
      destruct (l_is_file top a); reflexivity.
    - unfold fs_exists. rewrite AD. destruct (fs_addr S p loc) as [[s a]|e|k]; cbn [fbind]; try (intros; assumption).
      cbn [snd]. unfold S1. cbn [layers]. rewrite Ly, !search_top_snoc. unfold l_exists. rewrite mkdirs_is_file.
      destruct (l_is_file top a); cbn [orb]; [intros _; reflexivity|].
      destruct (l_is_dir top a) eqn:D; [rewrite (mkdirs_is_dir_mono top qs a D); intros _; reflexivity|].
      destruct (search_top _ rest) as [[i L]|]; [|discriminate]. intros _. destruct (l_is_dir (mkdirs top qs) a); reflexivity.
    - unfold fs_directory_exists. rewrite AD. destruct (fs_addr S p loc) as [[s a]|e|k]; cbn [fbind]; try (intros; assumption).
      cbn [snd]. unfold S1. cbn [layers]. rewrite Ly, !search_top_snoc.
      destruct (l_is_dir top a) eqn:D; [rewrite (mkdirs_is_dir_mono top qs a D); intros _; reflexivity|].
      destruct (search_top _ rest) as [[i L]|]; [|discriminate]. intros _. destruct (l_is_dir (mkdirs top qs) a); reflexivity.
  Qed.
End Codec.

(* after fs_new there is a layer *)
Lemma fs_new_layers ls l g S : fs_new ls l g = FOk S -> layers S <> [].
Proof.
  unfold fs_new. destruct ls as [|x r]; [discriminate|]. destruct (comp_of_game g); [|discriminate].
  destruct (loc_of_game g); [|discriminate]. intros H. injection H as <-. discriminate.
Qed.

(* what "the addressed location" is: the path string itself or its localisation, parsed into components *)
Lemma fs_addr_iff S p loc s a : fs_addr S p loc = FOk (s, a) <->
  (if loc then localize (c_loc (conf S)) (lng S) p = LOk s else s = p) /\ parse_path s = Some a.
Proof.
  destruct loc.
  - unfold fs_addr, fs_actual. destruct (localize (c_loc (conf S)) (lng S) p) as [s'|e| |]; cbn [fbind].
    + destruct (parse_path s') as [a'|] eqn:P; split.
      * intros H. injection H as <- <-. auto.
      * intros (E & H). injection E as <-. rewrite P in H. injection H as <-. reflexivity.
      * discriminate.
      * intros (E & H). injection E as <-. congruence.
    + split; [discriminate | intros (E & _); discriminate].
    + split; [discriminate | intros (E & _); discriminate].
    + split; [discriminate | intros (E & _); discriminate].
  - rewrite fs_addr_unloc. split; intros (-> & H); auto.
Qed.
