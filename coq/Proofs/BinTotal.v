(* C05, bin-archive part: BinArchive::from_bytes is total on arbitrary bytes - never a panic, the
   field-sized allocation is bounded by the input, declared sizes beyond the input are rejected -
   and whatever it accepts can be re-serialized without panicking (both arithmetic modes). *)
From Coq Require Import List NArith ZArith Bool Lia ZifyBool ZifyNat ZifyN.
From Mila Require Import Lib.Bytes Lib.Machine Model.BinArchive Model.BinFormat Proofs.BinAccess Proofs.BinFormatSpec.
Import ListNotations.
Local Open Scope N_scope.
Ltac Zify.zify_post_hook ::= Z.div_mod_to_equations.

Lemma bind_Panic_inv {A B} (c : outcome A) (k : A -> outcome B) p :
  bind c k = Panic p -> c = Panic p \/ exists a, c = Ok a /\ k a = Panic p.
Proof. destruct c; cbn [bind]; intros H; [right; eauto | discriminate | left; inversion H; reflexivity]. Qed.

Lemma of_option_no_panic {A} e (o : option A) p : of_option e o <> Panic p.
Proof. destruct o; discriminate. Qed.
Lemma check_cell_no_panic a address w p : check_cell a address w <> Panic p.
Proof. rewrite check_cell_spec. destruct (inside a address w); discriminate. Qed.
Lemma write_string_no_panic a address v p : write_string a address v <> Panic p.
Proof.
  destruct v; unfold write_string, delete_string; intros H; apply bind_Panic_inv in H;
    destruct H as [H|(x & _ & H)]; try discriminate; exact (check_cell_no_panic _ _ _ _ H).
Qed.
Lemma write_pointer_no_panic a address v p : write_pointer a address v <> Panic p.
Proof.
  destruct v; unfold write_pointer, delete_pointer; intros H; apply bind_Panic_inv in H;
    destruct H as [H|(x & _ & H)]; try discriminate; exact (check_cell_no_panic _ _ _ _ H).
Qed.
Lemma string_at_no_panic f flen pos p : string_at f flen pos <> Panic p.
Proof. unfold string_at. destruct (pos <? flen); [destruct (cstr _)|]; discriminate. Qed.
Lemma validate_address_no_panic a s b p : validate_address a s b <> Panic p.
Proof. unfold validate_address. destruct (orb _ _); discriminate. Qed.

Lemma ptr_loop_no_panic e f flen dsz : forall n pos a p, ptr_loop e f flen dsz n pos a <> Panic p.
Proof.
  induction n as [|n IH]; intros pos a p; cbn [ptr_loop]; [discriminate|]. intros H.
  apply bind_Panic_inv in H. destruct H as [H|(pa & _ & H)]; [exact (of_option_no_panic _ _ _ H)|].
  apply bind_Panic_inv in H. destruct H as [H|(pv & _ & H)]; [exact (read_uint_never_panics _ _ _ _ H)|].
  destruct (dsz <? pv).
  - apply bind_Panic_inv in H. destruct H as [H|(s & _ & H)]; [exact (string_at_no_panic _ _ _ _ H)|].
    apply bind_Panic_inv in H. destruct H as [H|(a' & _ & H)]; [exact (write_string_no_panic _ _ _ _ H) | exact (IH _ _ _ H)].
  - apply bind_Panic_inv in H. destruct H as [H|(a' & _ & H)]; [exact (write_pointer_no_panic _ _ _ _ H) | exact (IH _ _ _ H)].
Qed.
Lemma lbl_loop_no_panic e f flen tstart : forall n pos a p, lbl_loop e f flen tstart n pos a <> Panic p.
Proof.
  induction n as [|n IH]; intros pos a p; cbn [lbl_loop]; [discriminate|]. intros H.
  apply bind_Panic_inv in H. destruct H as [H|(addr & _ & H)]; [exact (of_option_no_panic _ _ _ H)|].
  apply bind_Panic_inv in H. destruct H as [H|(off & _ & H)]; [exact (of_option_no_panic _ _ _ H)|].
  apply bind_Panic_inv in H. destruct H as [H|(s & _ & H)]; [exact (string_at_no_panic _ _ _ _ H)|].
  apply bind_Panic_inv in H. destruct H as [H|(u & _ & H)]; [exact (validate_address_no_panic _ _ _ _ H) | exact (IH _ _ _ H)].
Qed.

Theorem from_bytes_no_panic e f p : from_bytes e f <> Panic p.
Proof.
  unfold from_bytes, from_bytes_alloc. intros H.
  apply bind_Panic_inv in H. destruct H as [H|(r & _ & H)]; [|discriminate].
  destruct (lenN f <? 32); [discriminate|].
  apply bind_Panic_inv in H. destruct H as [H|(dsz & _ & H)]; [exact (of_option_no_panic _ _ _ H)|].
  apply bind_Panic_inv in H. destruct H as [H|(pc & _ & H)]; [exact (of_option_no_panic _ _ _ H)|].
  apply bind_Panic_inv in H. destruct H as [H|(lc & _ & H)]; [exact (of_option_no_panic _ _ _ H)|].
  destruct (lenN f <? dsz + 4 * pc + 8 * lc + 32); [discriminate|].
  apply bind_Panic_inv in H. destruct H as [H|(d & _ & H)]; [exact (of_option_no_panic _ _ _ H)|].
  apply bind_Panic_inv in H. destruct H as [H|(a1 & _ & H)]; [exact (ptr_loop_no_panic _ _ _ _ _ _ _ _ H)|].
  apply bind_Panic_inv in H. destruct H as [H|(a2 & _ & H)]; [exact (lbl_loop_no_panic _ _ _ _ _ _ _ _ H) | discriminate].
Qed.

(* the single field-sized allocation (data.resize(data_size)) is requested only after the size check *)
Definition resize_request (e : endian) (f : bytes) : option N :=
  if lenN f <? 32 then None else
  match u32_at e f 4, u32_at e f 8, u32_at e f 12 with
  | Some dsz, Some pc, Some lc => if lenN f <? dsz + 4 * pc + 8 * lc + 32 then None else Some dsz
  | _, _, _ => None
  end.

Theorem resize_request_bounded e f r : resize_request e f = Some r -> r + 32 <= lenN f.
Proof.
  unfold resize_request. destruct (lenN f <? 32); [discriminate|].
  destruct (u32_at e f 4) as [dsz|]; [|discriminate]. destruct (u32_at e f 8) as [pc|]; [|discriminate].
  destruct (u32_at e f 12) as [lc|]; [|discriminate].
  destruct (N.ltb_spec (lenN f) (dsz + 4 * pc + 8 * lc + 32)); [discriminate|]. intros E; inversion E; subst. lia.
Qed.
Theorem from_bytes_alloc_is_request e f a r : from_bytes_alloc e f = Ok (a, r) -> resize_request e f = Some r.
Proof.
  unfold from_bytes_alloc, resize_request, u32_file. destruct (lenN f <? 32); [discriminate|].
  destruct (u32_at e f 4) as [dsz|]; cbn [of_option bind]; [|discriminate].
  destruct (u32_at e f 8) as [pc|]; cbn [of_option bind]; [|discriminate].
  destruct (u32_at e f 12) as [lc|]; cbn [of_option bind]; [|discriminate].
  destruct (lenN f <? dsz + 4 * pc + 8 * lc + 32); [discriminate|].
  intros H. repeat (apply bind_Ok_inv in H; destruct H as (? & _ & H)). inversion H; subst. reflexivity.
Qed.

(* a header declaring more data, pointers or labels than the buffer holds is rejected *)
Theorem declared_sizes_rejected e f dsz pc lc :
  u32_at e f 4 = Some dsz -> u32_at e f 8 = Some pc -> u32_at e f 12 = Some lc ->
  lenN f < dsz + 4 * pc + 8 * lc + 32 -> from_bytes e f = Err ETooSmall.
Proof.
  intros H4 H8 H12 Hlt. unfold from_bytes, from_bytes_alloc, u32_file. destruct (lenN f <? 32); [reflexivity|].
  rewrite H4, H8, H12. cbn [of_option bind]. destruct (N.ltb_spec (lenN f) (dsz + 4 * pc + 8 * lc + 32)); [reflexivity | lia].
Qed.

(* ---- what from_bytes returns can be serialized without panicking ---- *)
Lemma ptr_loop_keeps e f flen dsz : forall n pos a a',
  ptr_loop e f flen dsz n pos a = Ok a' -> a_data a' = a_data a /\ a_cstrs a' = a_cstrs a.
Proof.
  induction n as [|n IH]; intros pos a a'; cbn [ptr_loop]; [intros H; inversion H; tauto|]. intros H.
  apply bind_Ok_inv in H. destruct H as (pa & _ & H). apply bind_Ok_inv in H. destruct H as (pv & _ & H).
  destruct (dsz <? pv).
  - apply bind_Ok_inv in H. destruct H as (s & _ & H). apply bind_Ok_inv in H. destruct H as (a1 & H1 & H).
    apply IH in H. destruct H as [H2 H3]. rewrite H2, H3. unfold write_string in H1.
    apply bind_Ok_inv in H1. destruct H1 as (u & _ & H1). inversion H1; subst. cbn. tauto.
  - apply bind_Ok_inv in H. destruct H as (a1 & H1 & H).
    apply IH in H. destruct H as [H2 H3]. rewrite H2, H3. unfold write_pointer in H1.
    apply bind_Ok_inv in H1. destruct H1 as (u & _ & H1). inversion H1; subst. cbn. tauto.
Qed.
Lemma lbl_loop_keeps e f flen tstart : forall n pos a a',
  lbl_loop e f flen tstart n pos a = Ok a' -> a_data a' = a_data a /\ a_cstrs a' = a_cstrs a.
Proof.
  induction n as [|n IH]; intros pos a a'; cbn [lbl_loop]; [intros H; inversion H; tauto|]. intros H.
  repeat (apply bind_Ok_inv in H; destruct H as (? & _ & H)). apply IH in H. cbn in H. exact H.
Qed.

Lemma sliceN_wfb off len f s : wfb f -> sliceN off len f = Some s -> wfb s.
Proof.
  intros Hw. unfold sliceN. destruct (off + len <=? lenN f); [|discriminate].
  intros E. assert (E' : s = firstn (N.to_nat len) (skipn (N.to_nat off) f)) by congruence.
  rewrite E'. apply wfb_firstn, wfb_skipn, Hw.
Qed.

Lemma from_bytes_shape e f a : wfb f -> from_bytes e f = Ok a -> a_cstrs a = [] /\ size a < U32.
Proof.
  intros Hw. unfold from_bytes, from_bytes_alloc, u32_file. intros H.
  apply bind_Ok_inv in H. destruct H as ([a0 r] & H & E). inversion E; subst a0. clear E. cbn [fst].
  destruct (lenN f <? 32); [discriminate|].
  destruct (u32_at e f 4) as [dsz|] eqn:E4; cbn [of_option bind] in H; [|discriminate].
  destruct (u32_at e f 8) as [pc|]; cbn [of_option bind] in H; [|discriminate].
  destruct (u32_at e f 12) as [lc|]; cbn [of_option bind] in H; [|discriminate].
  destruct (lenN f <? dsz + 4 * pc + 8 * lc + 32); [discriminate|].
  destruct (sliceN 32 dsz f) as [d|] eqn:Es; cbn [of_option bind] in H; [|discriminate].
  apply bind_Ok_inv in H. destruct H as (a1 & H1 & H). apply bind_Ok_inv in H. destruct H as (a2 & H2 & H).
  inversion H; subst a2 r. apply ptr_loop_keeps in H1. apply lbl_loop_keeps in H2. cbn [a_data a_cstrs] in H1.
  destruct H1 as [D1 C1]. destruct H2 as [D2 C2]. split; [congruence|].
  unfold size. rewrite D2, D1. rewrite (sliceN_length _ _ _ _ Es).
  unfold u32_at in E4. destruct (sliceN 4 4 f) as [s4|] eqn:S4; [|discriminate].
  assert (Hw4 : wfb s4) by (eapply sliceN_wfb; eauto).
  assert (L4 : length s4 = 4%nat).
  { apply sliceN_length in S4. unfold lenN in S4. lia. }
  assert (Ed : dsz = dec e s4) by congruence. rewrite Ed.
  pose proof (dec_bound e s4 Hw4) as B. rewrite L4 in B. exact B.
Qed.

Lemma poke_u32_no_panic e d c v p : poke_u32 e d c v <> Panic p.
Proof. unfold poke_u32. destruct (c + 4 <=? lenN d); discriminate. Qed.
Lemma poke_all_no_panic e : forall ps d p, poke_all e d ps <> Panic p.
Proof.
  induction ps as [|[s t] r IH]; intros d p; cbn [poke_all]; [discriminate|]. intros H.
  apply bind_Panic_inv in H. destruct H as [H|(d' & _ & H)]; [exact (poke_u32_no_panic _ _ _ _ _ H) | exact (IH _ _ H)].
Qed.
Lemma emit_text_no_panic e tstart : forall ts d pl g p, emit_text e tstart ts d pl g <> Panic p.
Proof.
  induction ts as [|[c s] r IH]; intros d pl g p; cbn [emit_text]; [discriminate|].
  destruct (add_text pl s) as [p' off]. intros H.
  apply bind_Panic_inv in H. destruct H as [H|(d' & _ & H)]; [exact (poke_u32_no_panic _ _ _ _ _ H) | exact (IH _ _ _ _ H)].
Qed.

(* serialize never panics, on ANY archive, in either profile: the only arithmetic that could (the u32 addition of data size and
   c-string pool size in the header) sits behind the 32-bit guard of fix 524d15f (finding F25), where both summands are exact
   and their sum is below the file size *)
Theorem serialize_no_panic_all kf m a p : serialize_k kf m a <> Panic p.
Proof.
  unfold serialize_k. destruct (cstr_pool _ _ _ _) as [cpool cptrs]. intros H.
  apply bind_Panic_inv in H. destruct H as [H|(d1 & _ & H)]; [exact (poke_all_no_panic _ _ _ _ H)|].
  destruct (emit_labels _ pool_empty []) as [tp1 rl].
  apply bind_Panic_inv in H. destruct H as [H|([[d2 tp2] g] & _ & H)]; [exact (emit_text_no_panic _ _ _ _ _ _ _ H)|].
  apply bind_Panic_inv in H. destruct H as [H|([] & G & H)].
  - unfold guard in H. destruct (_ <=? 4294967295); discriminate.
  - unfold guard in G. match type of G with (if ?c then _ else _) = _ => destruct c eqn:Ec end; [|discriminate].
    apply N.leb_le in Ec.
    apply bind_Panic_inv in H. destruct H as [H|(dsz & _ & H)]; [|discriminate].
    rewrite !trunc_small in H by (unfold U32; lia). rewrite add_w_ok in H; [discriminate|]. unfold maxw. lia.
Qed.
Theorem serialize_no_panic kf m a p : a_cstrs a = [] -> size a < U32 -> serialize_k kf m a <> Panic p.
Proof. intros _ _. apply serialize_no_panic_all. Qed.

Theorem reserialize_no_panic kf e f a m p : wfb f -> from_bytes e f = Ok a -> serialize_k kf m a <> Panic p.
Proof. intros Hw H. destruct (from_bytes_shape e f a Hw H) as [Hc Hs]. apply serialize_no_panic; assumption. Qed.
