(* Pack-archive part of C05: fe9_arc::parse is total on arbitrary bytes, in both arithmetic modes.
     pack_parse_no_panic          never Panic
     pack_alloc_bound             every vec![0; size] request is <= |input|          (after F8)
     pack_declared_size_rejected  an entry with file_address + size > |input| yields Err
     pack_reserialize_no_panic    anything accepted re-serializes without Panic
   and the witnesses that the two defects existed in the code as found (F7, F8). *)
From Coq Require Import List NArith ZArith Arith Lia Bool ZifyBool ZifyNat ZifyN.
From Mila Require Import Lib.Bytes Lib.BytesExtra Lib.Machine Model.Pack.
Import ListNotations.
Local Open Scope N_scope.
Ltac Zify.zify_post_hook ::= Z.div_mod_to_equations.

Definition no_panic {A} (o : outcome A) : Prop := forall k, o <> Panic k.

Lemma no_panic_bind {A B} (c : outcome A) (k : A -> outcome B) :
  no_panic c -> (forall a, c = Ok a -> no_panic (k a)) -> no_panic (bind c k).
Proof. intros Hc Hk. destruct c as [a|e|p]; cbn [bind]; [apply Hk; reflexivity | intros q; discriminate | exfalso; exact (Hc p eq_refl)]. Qed.
Lemma no_panic_of_option {A} e (o : option A) : no_panic (of_option e o).
Proof. destruct o; intros q; discriminate. Qed.
Lemma no_panic_guard b e : no_panic (guard b e).
Proof. destruct b; intros q; discriminate. Qed.
Lemma no_panic_Ok {A} (a : A) : no_panic (Ok a).
Proof. intros q; discriminate. Qed.

Definition bound32 (me : meta) : Prop := m_addr me < 2 ^ 32 /\ m_size me < 2 ^ 32.

Lemma rd32_bound f pos v : wfb f -> rd32 f pos = Ok v -> v < 2 ^ 32.
Proof.
  intros W. unfold rd32. destruct (u32_at BE f pos) as [x|] eqn:E; cbn [of_option]; [|discriminate].
  intros H; inversion H; subst. eapply u32_at_bound; eauto.
Qed.

Lemma read_meta_no_panic f pos : no_panic (read_meta f pos).
Proof.
  unfold read_meta. repeat (apply no_panic_bind; [apply no_panic_of_option | intros ? _]). apply no_panic_Ok.
Qed.
Lemma read_meta_inv f pos me : read_meta f pos = Ok me ->
  u32_at BE f (pos + 4) = Some (m_name me) /\ u32_at BE f (pos + 8) = Some (m_addr me) /\ u32_at BE f (pos + 12) = Some (m_size me).
Proof.
  unfold read_meta, rd32.
  destruct (u32_at BE f pos); cbn [of_option bind]; [|discriminate].
  destruct (u32_at BE f (pos + 4)); cbn [of_option bind]; [|discriminate].
  destruct (u32_at BE f (pos + 8)); cbn [of_option bind]; [|discriminate].
  destruct (u32_at BE f (pos + 12)); cbn [of_option bind]; [|discriminate].
  intros H; inversion H; subst; cbn [m_name m_addr m_size]. auto.
Qed.

Lemma read_metas_no_panic f n : forall pos, no_panic (read_metas f pos n).
Proof.
  induction n as [|n IH]; intros pos; cbn [read_metas]; [apply no_panic_Ok|].
  apply no_panic_bind; [apply read_meta_no_panic | intros ? _].
  apply no_panic_bind; [apply IH | intros ? _]. apply no_panic_Ok.
Qed.

(* entry j of the table read at [pos] is the j-th record *)
Lemma read_metas_nth f n : forall pos ms, read_metas f pos n = Ok ms ->
  length ms = n /\
  forall j me, nth_error ms j = Some me ->
    u32_at BE f (pos + 16 * N.of_nat j + 4) = Some (m_name me) /\
    u32_at BE f (pos + 16 * N.of_nat j + 8) = Some (m_addr me) /\
    u32_at BE f (pos + 16 * N.of_nat j + 12) = Some (m_size me).
Proof.
  induction n as [|n IH]; intros pos ms; cbn [read_metas].
  - intros H; inversion H; subst. split; [reflexivity|]. intros [|j] me; discriminate.
  - destruct (read_meta f pos) as [me0| |] eqn:E0; cbn [bind]; try discriminate.
    destruct (read_metas f (pos + METADATA_SIZE) n) as [r| |] eqn:Er; cbn [bind]; try discriminate.
    intros H; inversion H; subst. destruct (IH _ _ Er) as [HL Hn]. split; [cbn [length]; congruence|].
    intros [|j] me; cbn [nth_error].
    + intros X; inversion X; subst. replace (pos + 16 * N.of_nat 0) with pos by lia. apply read_meta_inv, E0.
    + intros X. specialize (Hn j me X). unfold METADATA_SIZE in Hn.
      replace (pos + 16 * N.of_nat (S j)) with (pos + 16 + 16 * N.of_nat j) by lia. exact Hn.
Qed.

Lemma read_metas_bound32 f (W : wfb f) n pos ms : read_metas f pos n = Ok ms -> Forall bound32 ms.
Proof.
  intros H. destruct (read_metas_nth _ _ _ _ H) as [_ Hn]. apply Forall_forall. intros me Hin.
  destruct (In_nth_error _ _ Hin) as [j Hj]. destruct (Hn j me Hj) as (_ & Ha & Hs).
  split; eapply u32_at_bound; eauto.
Qed.

Lemma parse_header_no_panic f : no_panic (parse_header f).
Proof.
  unfold parse_header, rd32, rd16.
  apply no_panic_bind; [apply no_panic_of_option | intros ? _].
  apply no_panic_bind; [apply no_panic_guard | intros ? _].
  apply no_panic_bind; [apply no_panic_of_option | intros ? _].
  apply read_metas_no_panic.
Qed.

Lemma parse_header_inv f ms : parse_header f = Ok ms ->
  u32_at BE f 0 = Some MAGIC /\ exists count, u16_at BE f 4 = Some count /\ read_metas f 8 (N.to_nat count) = Ok ms.
Proof.
  unfold parse_header, rd32, rd16.
  destruct (u32_at BE f 0) as [mg|]; cbn [of_option bind]; [|discriminate].
  destruct (N.eqb_spec mg MAGIC) as [E|E]; cbn [guard bind]; [|discriminate].
  destruct (u16_at BE f 4) as [c|]; cbn [of_option bind]; [|discriminate].
  intros H. split; [congruence|]. exists c. split; [reflexivity | exact H].
Qed.

(* ---- the second loop: one step, under the 32-bit bound of the fields *)
Lemma read_files_step m f flen me r acc : bound32 me ->
  read_files m f flen (me :: r) acc =
    match cstr_atN f (m_name me) with
    | None => ([], Err EUnterminated)
    | Some name =>
      if flen <? m_addr me + m_size me then ([], Err ETooSmall)
      else match sliceN (m_addr me) (m_size me) f with
           | None => ([m_size me], Err EIo)
           | Some body => (m_size me :: fst (read_files m f flen r (im_insert name body acc)),
                           snd (read_files m f flen r (im_insert name body acc)))
           end
    end.
Proof.
  intros [Ha Hs]. cbn [read_files]. destruct (cstr_atN f (m_name me)); [|reflexivity].
  rewrite add_w_ok by (unfold maxw, W64; lia).
  destruct (flen <? m_addr me + m_size me); [reflexivity|].
  destruct (sliceN (m_addr me) (m_size me) f); [|reflexivity].
  destruct (read_files m f flen r _). reflexivity.
Qed.

Lemma read_files_no_panic m f flen ms : Forall bound32 ms -> forall acc, no_panic (snd (read_files m f flen ms acc)).
Proof.
  induction 1 as [|me r Hb HF IH]; intros acc; [cbn; apply no_panic_Ok|].
  rewrite read_files_step by exact Hb.
  destruct (cstr_atN f (m_name me)); [|intros q; discriminate].
  destruct (flen <? m_addr me + m_size me); [intros q; discriminate|].
  destruct (sliceN (m_addr me) (m_size me) f); [|intros q; discriminate]. cbn [snd]. apply IH.
Qed.

Lemma read_files_allocs m f flen ms : Forall bound32 ms ->
  forall acc, Forall (fun r => r <= flen) (fst (read_files m f flen ms acc)).
Proof.
  induction 1 as [|me r Hb HF IH]; intros acc; [cbn; constructor|].
  rewrite read_files_step by exact Hb.
  destruct (cstr_atN f (m_name me)); [|constructor].
  destruct (N.ltb_spec flen (m_addr me + m_size me)) as [Hlt|Hge]; [constructor|].
  destruct (sliceN (m_addr me) (m_size me) f); cbn [fst].
  - constructor; [lia | apply IH].
  - constructor; [lia | constructor].
Qed.

Lemma read_files_Ok_inside m f flen ms : Forall bound32 ms ->
  forall acc v, snd (read_files m f flen ms acc) = Ok v -> Forall (fun me => m_addr me + m_size me <= flen) ms.
Proof.
  induction 1 as [|me r Hb HF IH]; intros acc v; [constructor|].
  rewrite read_files_step by exact Hb.
  destruct (cstr_atN f (m_name me)); [|discriminate].
  destruct (N.ltb_spec flen (m_addr me + m_size me)) as [Hlt|Hge]; [discriminate|].
  destruct (sliceN (m_addr me) (m_size me) f); [|discriminate]. cbn [snd]. intros H.
  constructor; [exact Hge | eapply IH; eauto].
Qed.

(* ------------------------------------------------------------------ the four C05 statements *)
Theorem pack_parse_no_panic : forall m f, wfb f -> forall k, parse m f <> Panic k.
Proof.
  intros m f W. unfold parse, parse_run.
  destruct (parse_header f) as [ms|e|p] eqn:E; cbn [snd]; try (intros q; discriminate).
  - destruct (parse_header_inv _ _ E) as (_ & c & _ & Hr).
    apply read_files_no_panic. eapply read_metas_bound32; eauto.
  - exfalso. exact (parse_header_no_panic f p E).
Qed.

Theorem pack_alloc_bound : forall m f, wfb f -> Forall (fun r => r <= lenN f) (parse_allocs m f).
Proof.
  intros m f W. unfold parse_allocs, parse_run.
  destruct (parse_header f) as [ms|e|p] eqn:E; cbn [fst]; try constructor.
  destruct (parse_header_inv _ _ E) as (_ & c & _ & Hr).
  apply read_files_allocs. eapply read_metas_bound32; eauto.
Qed.

Theorem pack_declared_size_rejected : forall m f count i fa sz,
  wfb f -> u16_at BE f 4 = Some count -> i < count ->
  u32_at BE f (8 + 16 * i + 8) = Some fa -> u32_at BE f (8 + 16 * i + 12) = Some sz ->
  lenN f < fa + sz -> exists e, parse m f = Err e.
Proof.
  intros m f count i fa sz W Hc Hi Hfa Hsz Hout.
  destruct (parse m f) as [v|e|p] eqn:P; [exfalso | eauto | exfalso; exact (pack_parse_no_panic m f W p P)].
  unfold parse, parse_run in P. destruct (parse_header f) as [ms|e|p] eqn:E; cbn [snd] in P; try discriminate.
  destruct (parse_header_inv _ _ E) as (_ & c & Hc' & Hr). rewrite Hc in Hc'. inversion Hc'; subst c.
  pose proof (read_metas_bound32 f W _ _ _ Hr) as HB.
  pose proof (read_files_Ok_inside _ _ _ _ HB _ _ P) as Hin.
  destruct (read_metas_nth _ _ _ _ Hr) as [HL Hn].
  destruct (nth_error ms (N.to_nat i)) as [me|] eqn:Hme.
  - destruct (Hn _ _ Hme) as (_ & Ha & Hs). rewrite N2Nat.id in Ha, Hs.
    rewrite Hfa in Ha. rewrite Hsz in Hs. inversion Ha; inversion Hs; subst.
    rewrite Forall_forall in Hin. specialize (Hin me (nth_error_In _ _ Hme)). lia.
  - apply nth_error_None in Hme. lia.
Qed.

(* serialize answers Ok or - since F26 (530f18c): more than 65535 files or an image above 4 GiB - Err, never a panic *)
Lemma serialize_no_panic : forall files k, serialize files <> Panic k.
Proof.
  intros files k. unfold serialize.
  destruct (fold_left _ (map fst files) _) as [taddrs txt0].
  destruct (fold_left _ (map snd files) _) as [finfo raw].
  match goal with |- (if ?c then _ else _) <> _ => destruct c end; discriminate.
Qed.

Theorem pack_reserialize_no_panic : forall m f v, parse m f = Ok v -> forall k, serialize v <> Panic k.
Proof. intros m f v _ k. apply serialize_no_panic. Qed.

(* ------------------------------------------------------------------ the code as found (before the repairs)
   F7: `if magic != MAGIC { todo!() }`;  F8: `vec![0; size]` before any comparison with the input.
   The two functions below are the model with exactly those two lines put back. *)
Definition parse_header_F7 (f : bytes) : outcome (list meta) :=
  magic <- rd32 f 0 ;;
  _ <- (if magic =? MAGIC then Ok tt else Panic PTodo) ;;
  count <- rd16 f 4 ;;
  read_metas f BASE_HEADER_SIZE (N.to_nat count).

Fixpoint read_files_F8 (f : bytes) (ms : list meta) (acc : list entry) : list N * outcome (list entry) :=
  match ms with
  | [] => ([], Ok acc)
  | e :: r =>
    match cstr_atN f (m_name e) with
    | None => ([], Err EUnterminated)
    | Some name =>
      match sliceN (m_addr e) (m_size e) f with
      | None => ([m_size e], Err EIo)
      | Some body => let '(lg, o) := read_files_F8 f r (im_insert name body acc) in (m_size e :: lg, o)
      end
    end
  end.

Lemma F7_witness : parse_header_F7 [0;0;0;0;0;0;0;0] = Panic PTodo.
Proof. vm_compute. reflexivity. Qed.

Definition F8_input : bytes :=
  [112;97;99;107; 0;1; 0;0;  0;0;0;0; 0;0;0;24; 0;0;0;32; 255;255;255;255;  97;0; 0;0;0;0;0;0;0;0;0;0].

Lemma F8_witness : exists ms, parse_header F8_input = Ok ms /\
  read_files_F8 F8_input ms [] = ([4294967295], Err EIo) /\ lenN F8_input = 36.
Proof. eexists. split; [vm_compute; reflexivity | split; vm_compute; reflexivity]. Qed.

(* the repaired code on the same inputs *)
Lemma F7_repaired : forall m, parse_run m [0;0;0;0;0;0;0;0] = ([], Err EBadMagic).
Proof. intros []; vm_compute; reflexivity. Qed.
Lemma F8_repaired : forall m, parse_run m F8_input = ([], Err ETooSmall).
Proof. intros []; vm_compute; reflexivity. Qed.
