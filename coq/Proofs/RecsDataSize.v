(* The data-size field (offset 4) of the image BinArchive::serialize writes is the size of the data region, for
   archives without pending c-strings below 2^32: ties the space formulas of C17 / C18 to the FILE bytes. *)
From Coq Require Import List NArith ZArith Bool Lia ZifyBool ZifyNat ZifyN.
From Mila Require Import Lib.Bytes Lib.BytesExtra Lib.Machine Model.BinArchive Model.BinFormat Proofs.BinTotal.
Import ListNotations.
Local Open Scope N_scope.

Lemma u32_at_second e x v post : v < 2 ^ 32 -> u32_at e (enc e 4 x ++ enc e 4 v ++ post) 4 = Some v.
Proof. intros H. pose proof (u32_at_app_exact e (enc e 4 x) v post H) as E. rewrite lenN_enc in E. exact E. Qed.

Theorem serialize_data_size m a f :
  a_cstrs a = [] -> size a < 2 ^ 32 -> BinFormat.serialize m a = Ok f -> u32_at (a_endian a) f 4 = Some (size a).
Proof.
  intros Hc Hs. unfold BinFormat.serialize, BinFormat.serialize_k. rewrite Hc.
  change (isort (fun x y : bytes * list N => bytes_leb (fst x) (fst y)) []) with (@nil (bytes * list N)).
  cbn [cstr_pool]. change (pad_to 4 (p_raw pool_empty)) with (@nil N). intros H.
  apply bind_Ok_inv in H. destruct H as (d1 & _ & H).
  destruct (emit_labels _ pool_empty []) as [tp1 rl].
  apply bind_Ok_inv in H. destruct H as ([[d2 tp2] g] & _ & H).
  apply bind_Ok_inv in H. destruct H as ([] & _ & H).   (* the 32-bit guard of fix 524d15f passed *)
  apply bind_Ok_inv in H. destruct H as (dsz & Hd & H).
  change (lenN []) with 0 in Hd. change (trunc_w 32 0) with 0 in Hd.
  assert (Et : trunc_w 32 (size a) = size a) by (unfold trunc_w, maxw; apply N.mod_small; exact Hs).
  rewrite Et, add_w_ok in Hd by (unfold maxw; lia). inversion Hd; subst dsz. clear Hd.
  injection H as H. subst f.
  match goal with |- u32_at _ (_ ++ enc _ 4 ?v ++ _) 4 = _ => replace (Some (size a)) with (Some v) by (f_equal; lia); apply u32_at_second; lia end.
Qed.
