(* Cells: the common ground of the record formats layered on the bin archive (C17, C18).
   A writer that does `allocate_at_end(n)` and then fills the new region through a cursor
   builds an archive whose data and string map are EXACTLY those of a list of cells
   ([append_cells]); a reader only needs the observations [layout] of that list.
   This file: the cell list, the explicit result of tail writes, the layout predicate and
   the stream-read lemmas on it.  Nothing here is specific to a record format. *)
From Coq Require Import List NArith ZArith Bool Lia ZifyBool ZifyNat ZifyN.
From Mila Require Import Lib.Bytes Lib.Machine Model.BinArchive Model.BinStreams
  Proofs.AMapLemmas Proofs.BinAccess Proofs.BinAccess2.
Import ListNotations.
Local Open Scope N_scope.
Ltac Zify.zify_post_hook ::= Z.div_mod_to_equations.

(* ------------------------------------------------------------------ small list / map facts *)
Lemma lenN_zeros n : lenN (zeros (N.to_nat n)) = n.
Proof. unfold lenN, zeros. rewrite repeat_length. lia. Qed.
Lemma zeros_split k n : k <= n -> zeros (N.to_nat n) = zeros (N.to_nat k) ++ zeros (N.to_nat (n - k)).
Proof.
  intros H. unfold zeros. rewrite <- repeat_app. f_equal. lia.
Qed.
Lemma zeros_4 : zeros (N.to_nat 4) = [0; 0; 0; 0].
Proof. reflexivity. Qed.

Lemma archive_eq a b :
  a_data a = a_data b -> a_text a = a_text b -> a_ptrs a = a_ptrs b -> a_labels a = a_labels b ->
  a_cstrs a = a_cstrs b -> a_endian a = a_endian b -> a = b.
Proof. destruct a, b; cbn; intros; subst; reflexivity. Qed.

Section AMapMore.
Context {V : Type}.
Implicit Types (m : amap V) (k : N).
Lemma am_set_fresh k (v : V) m : ~ In k (am_keys m) -> am_set k v m = m ++ [(k, v)].
Proof.
  unfold am_keys. induction m as [|[k' v'] r IH]; cbn [am_set map fst In app]; intros H; [reflexivity|].
  destruct (N.eqb_spec k k') as [E|E]; [exfalso; apply H; left; congruence|].
  rewrite IH by tauto. reflexivity.
Qed.
Lemma am_del_absent k m : ~ In k (am_keys m) -> am_del k m = m.
Proof.
  unfold am_keys. induction m as [|[k' v'] r IH]; cbn [am_del map fst In]; intros H; [reflexivity|].
  destruct (N.eqb_spec k k') as [E|E]; [exfalso; apply H; left; congruence|].
  rewrite IH by tauto. reflexivity.
Qed.
Lemma am_keys_app m1 m2 : am_keys (m1 ++ m2) = am_keys m1 ++ am_keys m2.
Proof. unfold am_keys. apply map_app. Qed.
Lemma am_get_app k m1 m2 :
  am_get k (m1 ++ m2) = match am_get k m1 with Some v => Some v | None => am_get k m2 end.
Proof.
  induction m1 as [|[k' v'] r IH]; cbn [app am_get]; [reflexivity|].
  destruct (k =? k'); [reflexivity | exact IH].
Qed.
Lemma am_get_app_notin k m1 m2 : ~ In k (am_keys m1) -> am_get k (m1 ++ m2) = am_get k m2.
Proof. intros H. rewrite am_get_app. apply am_get_none in H. rewrite H. reflexivity. Qed.
Lemma am_get_nodup_in k (v : V) m : NoDup (am_keys m) -> In (k, v) m -> am_get k m = Some v.
Proof.
  unfold am_keys. induction m as [|[k' v'] r IH]; cbn [map fst In am_get]; intros ND H; [tauto|].
  inversion ND as [|x l Hx ND']; subst.
  destruct H as [H|H].
  - inversion H; subst. rewrite N.eqb_refl. reflexivity.
  - destruct (N.eqb_spec k k') as [E|E]; [|apply IH; assumption].
    subst k'. exfalso. apply Hx. apply in_map_iff. exists (k, v). auto.
Qed.
End AMapMore.

Definition keys_below {V} (m : amap V) (p : N) : Prop := forall k, In k (am_keys m) -> k < p.

(* ------------------------------------------------------------------ cells *)
Inductive cell :=
| CRaw (bs : bytes)            (* raw bytes (write_bytes / write_u32 / write_f32) *)
| CStr (o : option bytes).     (* a 4-byte string cell: write_string(o) *)

Definition cell_size (c : cell) : N := match c with CRaw bs => lenN bs | CStr _ => 4 end.
Definition cell_bytes (c : cell) : bytes := match c with CRaw bs => bs | CStr _ => zeros (N.to_nat 4) end.
Fixpoint cells_size (cs : list cell) : N := match cs with [] => 0 | c :: r => cell_size c + cells_size r end.
Fixpoint cells_bytes (cs : list cell) : bytes := match cs with [] => [] | c :: r => cell_bytes c ++ cells_bytes r end.
Fixpoint cells_text (p : N) (cs : list cell) : amap bytes :=
  match cs with
  | [] => []
  | CStr (Some s) :: r => (p, s) :: cells_text (p + 4) r
  | c :: r => cells_text (p + cell_size c) r
  end.

Lemma lenN_cell_bytes c : lenN (cell_bytes c) = cell_size c.
Proof. destruct c; cbn [cell_bytes cell_size]; [reflexivity | apply lenN_zeros]. Qed.
Lemma lenN_cells_bytes cs : lenN (cells_bytes cs) = cells_size cs.
Proof. induction cs as [|c r IH]; cbn [cells_bytes cells_size]; [reflexivity|]. rewrite lenN_app, lenN_cell_bytes, IH. reflexivity. Qed.
Lemma cells_size_app a b : cells_size (a ++ b) = cells_size a + cells_size b.
Proof. induction a as [|c r IH]; cbn [app cells_size]; [reflexivity | rewrite IH; lia]. Qed.
Lemma cells_bytes_app a b : cells_bytes (a ++ b) = cells_bytes a ++ cells_bytes b.
Proof. induction a as [|c r IH]; cbn [app cells_bytes]; [reflexivity | rewrite IH, app_assoc; reflexivity]. Qed.
Lemma cells_text_app p a b : cells_text p (a ++ b) = cells_text p a ++ cells_text (p + cells_size a) b.
Proof.
  revert p; induction a as [|c r IH]; intros p; cbn [app cells_text cells_size].
  - rewrite N.add_0_r. reflexivity.
  - destruct c as [bs|[s|]]; cbn [cell_size]; rewrite IH, N.add_assoc; reflexivity.
Qed.
Lemma cells_text_keys p cs k : In k (am_keys (cells_text p cs)) -> p <= k /\ k + 4 <= p + cells_size cs.
Proof.
  revert p; induction cs as [|c r IH]; intros p; cbn [cells_text cells_size]; [intros []|].
  destruct c as [bs|[s|]]; cbn [cell_size am_keys map fst In].
  - intros H. apply IH in H. lia.
  - intros [H|H]; [subst; lia|]. apply IH in H. lia.
  - intros H. apply IH in H. lia.
Qed.
Lemma cells_text_keys_nodup p cs : NoDup (am_keys (cells_text p cs)).
Proof.
  revert p; induction cs as [|c r IH]; intros p; cbn [cells_text]; [constructor|].
  destruct c as [bs|[s|]]; try apply IH. cbn [am_keys map fst]. constructor; [|apply IH].
  intros H. apply cells_text_keys in H. lia.
Qed.

(* the archive after appending the cells at the end *)
Definition append_cells (a : archive) (cs : list cell) : archive :=
  {| a_data := a_data a ++ cells_bytes cs;
     a_text := a_text a ++ cells_text (size a) cs;
     a_ptrs := a_ptrs a; a_labels := a_labels a; a_cstrs := a_cstrs a; a_endian := a_endian a |}.

Lemma size_append_cells a cs : size (append_cells a cs) = size a + cells_size cs.
Proof. unfold size, append_cells. cbn [a_data]. rewrite lenN_app, lenN_cells_bytes. reflexivity. Qed.
Lemma append_cells_nil a : append_cells a [] = a.
Proof. apply archive_eq; cbn; rewrite ?app_nil_r; reflexivity. Qed.
Lemma append_cells_app a cs1 cs2 : append_cells (append_cells a cs1) cs2 = append_cells a (cs1 ++ cs2).
Proof.
  apply archive_eq; try reflexivity.
  - cbn [append_cells a_data]. rewrite cells_bytes_app, app_assoc. reflexivity.
  - cbn [append_cells a_text]. rewrite cells_text_app, <- app_assoc. f_equal. f_equal. f_equal.
    apply (size_append_cells a cs1).
Qed.
Lemma keys_below_append_cells a cs :
  keys_below (a_text a) (size a) -> keys_below (a_text (append_cells a cs)) (size (append_cells a cs)).
Proof.
  intros H k. rewrite size_append_cells. cbn [append_cells a_text]. rewrite am_keys_app, in_app_iff.
  intros [Hk|Hk]; [apply H in Hk; lia|]. apply cells_text_keys in Hk. lia.
Qed.

(* ------------------------------------------------------------------ writing into a freshly allocated tail *)
(* [mid a done n]: the cells [done] have been written behind [a], [n] zero bytes are still unwritten *)
Definition mid (a : archive) (done : list cell) (n : N) : archive :=
  set_data (append_cells a done) (a_data a ++ cells_bytes done ++ zeros (N.to_nat n)).

Lemma mid_start a n : allocate_at_end a n = mid a [] n.
Proof. unfold allocate_at_end, mid. apply archive_eq; cbn; rewrite ?app_nil_r; reflexivity. Qed.
Lemma mid_end a done : mid a done 0 = append_cells a done.
Proof. unfold mid. apply archive_eq; cbn; rewrite ?app_nil_r; reflexivity. Qed.
Lemma size_mid a done n : size (mid a done n) = size a + cells_size done + n.
Proof. unfold size, mid. cbn [set_data a_data]. rewrite !lenN_app, lenN_cells_bytes, lenN_zeros. lia. Qed.
Lemma mid_endian a done n : a_endian (mid a done n) = a_endian a.
Proof. reflexivity. Qed.
Lemma mid_labels a done n : a_labels (mid a done n) = a_labels a.
Proof. reflexivity. Qed.
(* more room: allocate_at_end on a state with nothing unwritten *)
Lemma mid_more a done n : allocate_at_end (mid a done 0) n = mid a done n.
Proof. unfold allocate_at_end, mid. apply archive_eq; cbn; rewrite ?app_nil_r, <- ?app_assoc; reflexivity. Qed.

Lemma patched_tail D n bs :
  lenN bs <= n ->
  patched (D ++ zeros (N.to_nat n)) (lenN D) bs = D ++ bs ++ zeros (N.to_nat (n - lenN bs)).
Proof.
  intros H. unfold patched.
  rewrite (zeros_split (lenN bs) n H).
  replace (N.to_nat (lenN D)) with (length D) by (unfold lenN; lia).
  rewrite firstn_app_exact. f_equal. f_equal.
  replace (N.to_nat (lenN D + lenN bs)) with (length (D ++ zeros (N.to_nat (lenN bs)))).
  2:{ rewrite app_length. unfold zeros. rewrite repeat_length. unfold lenN. lia. }
  rewrite app_assoc. apply skipn_app_exact.
Qed.

(* raw level: a u32 / a byte string written at the start of the zero tail *)
Lemma write_uint_tail a D n w v :
  a_data a = D ++ zeros (N.to_nat n) -> N.of_nat w <= n -> (0 < w)%nat ->
  write_uint a (lenN D) w v = Ok (set_data a (D ++ enc (a_endian a) w v ++ zeros (N.to_nat (n - N.of_nat w)))).
Proof.
  intros Hd Hn Hw. rewrite write_uint_spec.
  assert (Hs : size a = lenN D + n) by (unfold size; rewrite Hd, lenN_app, lenN_zeros; reflexivity).
  assert (Hin : inside a (lenN D) (N.of_nat w) = true) by (apply inside_true; lia).
  rewrite Hin. f_equal. f_equal. rewrite Hd.
  assert (Hl : lenN (enc (a_endian a) w v) = N.of_nat w) by (unfold lenN; rewrite length_enc; reflexivity).
  rewrite <- Hl. apply patched_tail. lia.
Qed.

Lemma set_data_set_data a d1 d2 : set_data (set_data a d1) d2 = set_data a d2.
Proof. reflexivity. Qed.

Lemma w_write_bytes_tail : forall bs a D n,
  a_data a = D ++ zeros (N.to_nat n) -> lenN bs <= n ->
  w_write_bytes a (lenN D) bs = (Ok tt, set_data a (D ++ bs ++ zeros (N.to_nat (n - lenN bs))), lenN D + lenN bs).
Proof.
  induction bs as [|b r IH]; intros a D n Hd Hn; cbn [w_write_bytes].
  - cbn [app]. rewrite lenN_nil, N.sub_0_r, N.add_0_r. f_equal. f_equal.
    apply archive_eq; cbn; auto.
  - rewrite lenN_cons in Hn. unfold w_write_u8. rewrite write_u8_spec.
    assert (Hs : size a = lenN D + n) by (unfold size; rewrite Hd, lenN_app, lenN_zeros; reflexivity).
    destruct (N.ltb_spec (lenN D) (size a)) as [_|Hc]; [|lia]. cbn [wr].
    rewrite Hd. change [b] with ([b] ++ []) at 1.
    pose proof (patched_tail D n [b]) as P. change (lenN [b]) with 1 in P. rewrite app_nil_r. rewrite P by lia.
    replace (lenN D + 1) with (lenN (D ++ [b])) by (rewrite lenN_app; reflexivity).
    rewrite (IH _ (D ++ [b]) (n - 1)).
    + rewrite set_data_set_data. rewrite <- !app_assoc. cbn [app]. rewrite lenN_cons, lenN_app.
      change (lenN [b]) with 1. f_equal; [|lia]. f_equal. f_equal. f_equal. f_equal. f_equal. f_equal. lia.
    + cbn [set_data a_data]. rewrite <- app_assoc. reflexivity.
    + lia.
Qed.

(* cell level *)
Lemma mid_data a done n : a_data (mid a done n) = (a_data a ++ cells_bytes done) ++ zeros (N.to_nat n).
Proof. unfold mid. cbn [set_data a_data]. rewrite app_assoc. reflexivity. Qed.
Lemma mid_pos a done : lenN (a_data a ++ cells_bytes done) = size a + cells_size done.
Proof. rewrite lenN_app, lenN_cells_bytes. reflexivity. Qed.

Lemma mid_raw_step a done n bs :
  lenN bs <= n ->
  set_data (mid a done n) ((a_data a ++ cells_bytes done) ++ bs ++ zeros (N.to_nat (n - lenN bs)))
  = mid a (done ++ [CRaw bs]) (n - lenN bs).
Proof.
  intros H. unfold mid. apply archive_eq; cbn [set_data append_cells a_data a_text a_ptrs a_labels a_cstrs a_endian]; try reflexivity.
  - rewrite cells_bytes_app. cbn [cells_bytes cell_bytes]. rewrite app_nil_r, <- !app_assoc. reflexivity.
  - rewrite cells_text_app. cbn [cells_text]. rewrite app_nil_r. reflexivity.
Qed.

Lemma w_write_bytes_mid a done n bs :
  lenN bs <= n ->
  w_write_bytes (mid a done n) (size a + cells_size done) bs
  = (Ok tt, mid a (done ++ [CRaw bs]) (n - lenN bs), size a + cells_size done + lenN bs).
Proof.
  intros H. rewrite <- mid_pos. rewrite (w_write_bytes_tail bs _ _ n (mid_data a done n) H).
  rewrite mid_raw_step by exact H. reflexivity.
Qed.

Lemma write_u32_mid a done n v :
  4 <= n ->
  write_u32 (mid a done n) (size a + cells_size done) v = Ok (mid a (done ++ [CRaw (enc (a_endian a) 4 v)]) (n - 4)).
Proof.
  intros H. unfold write_u32. rewrite <- mid_pos.
  rewrite (write_uint_tail _ _ n 4 v (mid_data a done n)) by (cbn; lia). f_equal.
  rewrite mid_endian. change (N.of_nat 4) with 4.
  pose proof (mid_raw_step a done n (enc (a_endian a) 4 v)) as P.
  assert (Hl : lenN (enc (a_endian a) 4 v) = 4) by (unfold lenN; rewrite length_enc; reflexivity).
  rewrite Hl in P. apply P. exact H.
Qed.
Lemma w_write_u32_mid a done n v :
  4 <= n ->
  w_write_u32 (mid a done n) (size a + cells_size done) v
  = (Ok tt, mid a (done ++ [CRaw (enc (a_endian a) 4 v)]) (n - 4), size a + cells_size done + 4).
Proof. intros H. unfold w_write_u32. rewrite write_u32_mid by exact H. reflexivity. Qed.
Lemma allocate_is_append a n : allocate_at_end a n = append_cells a [CRaw (zeros (N.to_nat n))].
Proof. unfold allocate_at_end, append_cells. apply archive_eq; cbn; rewrite ?app_nil_r; reflexivity. Qed.
Lemma w_write_f32_mid a done n v :
  4 <= n ->
  w_write_f32 (mid a done n) (size a + cells_size done) v
  = (Ok tt, mid a (done ++ [CRaw (enc (a_endian a) 4 v)]) (n - 4), size a + cells_size done + 4).
Proof. exact (w_write_u32_mid a done n v). Qed.

Lemma mid_text a done n : a_text (mid a done n) = a_text a ++ cells_text (size a) done.
Proof. reflexivity. Qed.
Lemma mid_pos_fresh a done n :
  keys_below (a_text a) (size a) -> ~ In (size a + cells_size done) (am_keys (a_text (mid a done n))).
Proof.
  intros Hk. rewrite mid_text, am_keys_app, in_app_iff. intros [H|H].
  - apply Hk in H. lia.
  - apply cells_text_keys in H. lia.
Qed.

Lemma w_write_string_mid a done n o :
  keys_below (a_text a) (size a) -> 4 <= n ->
  w_write_string (mid a done n) (size a + cells_size done) o
  = (Ok tt, mid a (done ++ [CStr o]) (n - 4), size a + cells_size done + 4).
Proof.
  intros Hk H. unfold w_write_string.
  assert (Hin : inside (mid a done n) (size a + cells_size done) 4 = true).
  { apply inside_true. rewrite size_mid. lia. }
  assert (Hd : a_data a ++ cells_bytes done ++ zeros (N.to_nat n)
               = a_data a ++ cells_bytes (done ++ [CStr o]) ++ zeros (N.to_nat (n - 4))).
  { rewrite cells_bytes_app. cbn [cells_bytes cell_bytes]. rewrite app_nil_r, <- app_assoc.
    rewrite (zeros_split 4 n H). reflexivity. }
  pose proof (mid_pos_fresh a done n Hk) as Hf.
  destruct o as [s|]; cbn [write_string]; unfold delete_string; rewrite check_cell_spec, Hin; cbn [bind wr]; f_equal; f_equal.
  - rewrite am_set_fresh by exact Hf.
    unfold mid. apply archive_eq; cbn [set_text set_data append_cells a_data a_text a_ptrs a_labels a_cstrs a_endian]; try reflexivity.
    + exact Hd.
    + rewrite cells_text_app. cbn [cells_text]. rewrite <- app_assoc. reflexivity.
  - rewrite am_del_absent by exact Hf.
    unfold mid. apply archive_eq; cbn [set_text set_data append_cells a_data a_text a_ptrs a_labels a_cstrs a_endian]; try reflexivity.
    + exact Hd.
    + rewrite cells_text_app. cbn [cells_text]. rewrite app_nil_r. reflexivity.
Qed.

(* ------------------------------------------------------------------ layout: what a reader observes *)
Definition cell_at (a : archive) (p : N) (c : cell) : Prop :=
  match c with
  | CRaw bs => sliceN p (lenN bs) (a_data a) = Some bs
  | CStr o => p + 4 <= size a /\ am_get p (a_text a) = o
  end.
Fixpoint layout (a : archive) (p : N) (cs : list cell) : Prop :=
  match cs with
  | [] => True
  | c :: r => cell_at a p c /\ layout a (p + cell_size c) r
  end.

Lemma layout_app a p cs1 cs2 : layout a p (cs1 ++ cs2) <-> layout a p cs1 /\ layout a (p + cells_size cs1) cs2.
Proof.
  revert p; induction cs1 as [|c r IH]; intros p; cbn [app layout cells_size].
  - rewrite N.add_0_r. tauto.
  - rewrite IH. replace (p + cell_size c + cells_size r) with (p + (cell_size c + cells_size r)) by lia. tauto.
Qed.

(* the appended cells are laid out behind the old data *)
Lemma layout_append_gen a : keys_below (a_text a) (size a) ->
  forall cs done, layout (append_cells a (done ++ cs)) (size a + cells_size done) cs.
Proof.
  intros Hk. induction cs as [|c r IH]; intros done; cbn [layout]; [exact I|]. split.
  - destruct c as [bs|o]; cbn [cell_at].
    + cbn [append_cells a_data]. rewrite cells_bytes_app. cbn [cells_bytes cell_bytes].
      rewrite <- mid_pos. rewrite app_assoc. apply sliceN_app_exact.
    + split.
      * rewrite size_append_cells, cells_size_app. cbn [cells_size cell_size]. lia.
      * cbn [append_cells a_text]. rewrite cells_text_app.
        rewrite am_get_app_notin. 2:{ intros H. apply Hk in H. lia. }
        rewrite am_get_app_notin. 2:{ intros H. apply cells_text_keys in H. lia. }
        destruct o as [s|]; cbn [cells_text am_get cell_size].
        -- rewrite N.eqb_refl. reflexivity.
        -- apply am_get_none. intros H. apply cells_text_keys in H. lia.
  - specialize (IH (done ++ [c])). rewrite <- app_assoc in IH. cbn [app] in IH.
    rewrite cells_size_app in IH. cbn [cells_size] in IH.
    replace (size a + (cells_size done + (cell_size c + 0))) with (size a + cells_size done + cell_size c) in IH by lia.
    exact IH.
Qed.
Lemma layout_append a cs : keys_below (a_text a) (size a) -> layout (append_cells a cs) (size a) cs.
Proof. intros Hk. pose proof (layout_append_gen a Hk cs []) as H. cbn [app cells_size] in H. rewrite N.add_0_r in H. exact H. Qed.

(* ------------------------------------------------------------------ stream reads on a layout *)
Lemma sliceN_cons_inv p n d b r :
  sliceN p (1 + n) d = Some (b :: r) ->
  nth_error d (N.to_nat p) = Some b /\ p < lenN d /\ sliceN (p + 1) n d = Some r.
Proof.
  unfold sliceN. destruct (N.leb_spec (p + (1 + n)) (lenN d)) as [H|H]; [|discriminate].
  replace (N.to_nat (1 + n)) with (S (N.to_nat n)) by lia. intros E.
  destruct (nth_error d (N.to_nat p)) as [x|] eqn:Ex.
  - rewrite (firstn_skipn_S _ _ _ x Ex) in E. inversion E; subst. split; [reflexivity|]. split; [lia|].
    destruct (N.leb_spec (p + 1 + n) (lenN d)); [|lia]. replace (N.to_nat (p + 1)) with (S (N.to_nat p)) by lia. reflexivity.
  - apply nth_error_None in Ex. unfold lenN in H. lia.
Qed.

Lemma read_u8_at a p b : nth_error (a_data a) (N.to_nat p) = Some b -> p < size a -> read_u8 a p = Ok b.
Proof.
  intros Hn Hp. rewrite read_u8_spec. destruct (N.ltb_spec p (size a)); [|lia].
  unfold sliceN. unfold size in Hp. destruct (N.leb_spec (p + 1) (lenN (a_data a))); [|lia].
  change (N.to_nat 1) with 1%nat. rewrite (firstn_skipn_S _ _ 0 b Hn). cbn [firstn dec dec_le]. f_equal. lia.
Qed.

Lemma r_read_u8_raw a p b r :
  cell_at a p (CRaw (b :: r)) -> r_read_u8 a p = (Ok b, p + 1) /\ cell_at a (p + 1) (CRaw r).
Proof.
  cbn [cell_at]. rewrite lenN_cons. intros H. apply sliceN_cons_inv in H. destruct H as (Hn & Hp & Hr).
  split; [|exact Hr]. unfold r_read_u8. rewrite (read_u8_at a p b Hn Hp). reflexivity.
Qed.

Lemma r_read_bytes_loop_raw : forall bs a p acc,
  cell_at a p (CRaw bs) -> r_read_bytes_loop (length bs) a p acc = (Ok (rev acc ++ bs), p + lenN bs).
Proof.
  induction bs as [|b r IH]; intros a p acc H; cbn [length r_read_bytes_loop].
  - rewrite app_nil_r, lenN_nil, N.add_0_r. reflexivity.
  - destruct (r_read_u8_raw a p b r H) as [E H']. rewrite E. rewrite (IH a (p + 1) (b :: acc) H').
    cbn [rev]. rewrite <- app_assoc. cbn [app]. rewrite lenN_cons. f_equal. lia.
Qed.
Lemma r_read_bytes_raw a p bs :
  bs <> [] -> cell_at a p (CRaw bs) -> r_read_bytes a p (lenN bs) = (Ok bs, p + lenN bs).
Proof.
  intros Hne H. unfold r_read_bytes.
  assert (Hsz : p + lenN bs <= size a).
  { cbn [cell_at] in H. unfold sliceN in H. destruct (N.leb_spec (p + lenN bs) (lenN (a_data a))); [exact H0 | discriminate]. }
  replace (N.to_nat (N.min (lenN bs) (size a + 1))) with (length bs) by (unfold lenN in *; lia).
  rewrite (r_read_bytes_loop_raw bs a p [] H). reflexivity.
Qed.

Lemma r_read_u32_raw a p v :
  a_endian a = LE -> v < 2 ^ 32 -> cell_at a p (CRaw (enc LE 4 v)) -> r_read_u32 a p = (Ok v, p + 4).
Proof.
  intros He Hv H. cbn [cell_at] in H.
  assert (Hl : lenN (enc LE 4 v) = 4) by (unfold lenN; rewrite length_enc; reflexivity). rewrite Hl in H.
  unfold r_read_u32, read_u32. rewrite read_uint_spec. change (N.of_nat 4) with 4.
  assert (Hin : inside a p 4 = true).
  { apply inside_true. unfold sliceN in H. unfold size. destruct (N.leb_spec (p + 4) (lenN (a_data a))); [lia | discriminate]. }
  rewrite Hin, H, He. rewrite dec_enc by (change (256 ^ N.of_nat 4) with (2 ^ 32); exact Hv). reflexivity.
Qed.
Lemma r_read_f32_raw a p v :
  a_endian a = LE -> v < 2 ^ 32 -> cell_at a p (CRaw (enc LE 4 v)) -> r_read_f32 a p = (Ok v, p + 4).
Proof. exact (r_read_u32_raw a p v). Qed.

Lemma r_read_string_cell a p o : cell_at a p (CStr o) -> r_read_string a p = (Ok o, p + 4).
Proof.
  cbn [cell_at]. intros [Hs Hg]. unfold r_read_string. rewrite read_string_spec.
  assert (Hin : inside a p 4 = true) by (apply inside_true; lia). rewrite Hin, Hg. reflexivity.
Qed.
