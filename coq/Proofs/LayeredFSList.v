(* Lemmas about listings (property C13): the byte-wise order, sort_dedup, the pattern family,
   membership of fs_list / fs_subdirectories in terms of the layers. *)
From Coq Require Import List NArith Bool Arith Lia Sorted.
From Mila Require Import Lib.Bytes Lib.Machine Model.Localize Proofs.LocalizeProofs Model.LayeredFS
  Proofs.LayeredFSBase Proofs.LayeredFSStack.
Import ListNotations.
Local Open Scope N_scope.

(* ------------------------------------------------------------------ the order *)
Definition str_lt (a b : str) : Prop := bytes_cmp a b = Lt.

Lemma bytes_cmp_eq a b : bytes_cmp a b = Eq <-> a = b.
Proof.
  revert b; induction a as [|x a IH]; intros [|y b]; cbn [bytes_cmp]; try (split; [discriminate | congruence]); [tauto|].
  destruct (N.compare_spec x y) as [E|E|E].
  - subst. rewrite IH. split; congruence.
  - split; [discriminate|]. intros H. injection H as -> _. lia.
  - split; [discriminate|]. intros H. injection H as -> _. lia.
Qed.
Lemma bytes_cmp_refl a : bytes_cmp a a = Eq.
Proof. apply bytes_cmp_eq. reflexivity. Qed.
Lemma bytes_cmp_antisym a b : bytes_cmp b a = CompOpp (bytes_cmp a b).
Proof.
  revert b; induction a as [|x a IH]; intros [|y b]; cbn [bytes_cmp CompOpp]; try reflexivity.
  rewrite (N.compare_antisym x y). destruct (x ?= y); cbn [CompOpp]; [apply IH | reflexivity | reflexivity].
Qed.
Lemma bytes_cmp_gt_lt a b : bytes_cmp a b = Gt -> bytes_cmp b a = Lt.
Proof. intros H. rewrite bytes_cmp_antisym, H. reflexivity. Qed.
Lemma str_lt_trans a b c : str_lt a b -> str_lt b c -> str_lt a c.
Proof.
  unfold str_lt. revert b c; induction a as [|x a IH]; intros [|y b] [|z c]; cbn [bytes_cmp]; try discriminate; try reflexivity.
  destruct (N.compare_spec x y) as [E1|E1|E1]; try discriminate;
  destruct (N.compare_spec y z) as [E2|E2|E2]; try discriminate; intros H1 H2.
  - subst. rewrite N.compare_refl. eapply IH; eauto.
  - subst. rewrite (proj2 (N.compare_lt_iff y z) E2). reflexivity.
  - subst. rewrite (proj2 (N.compare_lt_iff x z) E1). reflexivity.
  - assert (E : x < z) by lia. rewrite (proj2 (N.compare_lt_iff x z) E). reflexivity.
Qed.
Lemma str_lt_irrefl a : ~ str_lt a a.
Proof. unfold str_lt. rewrite bytes_cmp_refl. discriminate. Qed.

(* ------------------------------------------------------------------ sort_dedup *)
Lemma insert_sorted_In s l x : In x (insert_sorted s l) <-> x = s \/ In x l.
Proof.
  induction l as [|y r IH]; cbn [insert_sorted In]; [intuition congruence|].
  destruct (bytes_cmp s y) eqn:E; cbn [In].
  - apply bytes_cmp_eq in E. subst. intuition congruence.
  - intuition congruence.
  - rewrite IH. intuition congruence.
Qed.
Lemma insert_sorted_sorted s l : StronglySorted str_lt l -> StronglySorted str_lt (insert_sorted s l).
Proof.
  induction l as [|y r IH]; intros H; cbn [insert_sorted].
  - constructor; constructor.
  - inversion H as [|? ? Hs Hf]; subst. destruct (bytes_cmp s y) eqn:E.
    + exact H.
    + constructor; [exact H|]. constructor; [exact E|].
      rewrite Forall_forall in *. intros z Hz. eapply str_lt_trans; [exact E | apply Hf; exact Hz].
    + constructor; [apply IH; exact Hs|]. rewrite Forall_forall in *. intros z Hz.
      apply insert_sorted_In in Hz. destruct Hz as [->|Hz]; [apply bytes_cmp_gt_lt; exact E | apply Hf; exact Hz].
Qed.
Lemma sort_dedup_In l x : In x (sort_dedup l) <-> In x l.
Proof.
  induction l as [|y r IH]; cbn [sort_dedup fold_right In]; [tauto|].
  change (fold_right insert_sorted [] r) with (sort_dedup r). rewrite insert_sorted_In, IH. intuition congruence.
Qed.
Lemma sort_dedup_sorted l : StronglySorted str_lt (sort_dedup l).
Proof.
  induction l as [|y r IH]; cbn [sort_dedup fold_right]; [constructor|].
  apply insert_sorted_sorted. exact IH.
Qed.
Lemma strictly_sorted_nodup l : StronglySorted str_lt l -> NoDup l.
Proof.
  induction 1 as [|x l Hs IH Hf]; constructor; [|exact IH].
  intros Hin. rewrite Forall_forall in Hf. exact (str_lt_irrefl x (Hf x Hin)).
Qed.

(* ------------------------------------------------------------------ the pattern family *)
Lemma strip_prefix_spec d q rel : strip_prefix d q = Some rel <-> q = d ++ rel.
Proof.
  revert q; induction d as [|x d IH]; intros q; cbn [strip_prefix app].
  - split; congruence.
  - destruct q as [|y q]; [split; discriminate|].
    destruct (str_eqb_spec x y) as [->|N].
    + rewrite IH. split; congruence.
    + split; [discriminate | congruence].
Qed.

(* what each pattern of the family selects among the paths relative to the listed directory,
   written from glob's documentation: '*' = any name, "**/" = any number of directories *)
Definition matchesP (pat : pattern) (rel : path) : Prop :=
  match pat with
  | PAll => rel <> []
  | PStar => exists n, rel = [n]
  | PExt e => exists stem, rel = [stem ++ DOT :: e]
  | PRecExt e => exists dirs stem, rel = dirs ++ [stem ++ DOT :: e]
  | PSub s => exists n, rel = [s; n]
  end.

Lemma has_ext_spec e n : has_ext e n = true <-> exists stem, n = stem ++ DOT :: e.
Proof. unfold has_ext. apply ends_with_spec. Qed.

Lemma matches_spec pat rel : matches pat rel = true <-> matchesP pat rel.
Proof.
  destruct pat as [| |e|e|s]; cbn [matchesP].
  - destruct rel; cbn [matches]; split; [discriminate | intros H; exfalso; apply H; reflexivity | intros _; discriminate | reflexivity].
  - destruct rel as [|n [|m r]]; cbn [matches]; split; try discriminate; eauto; intros (n' & H); discriminate.
  - destruct rel as [|n [|m r]]; cbn [matches]; try (split; [discriminate | intros (st & H); discriminate]).
    rewrite has_ext_spec. split; intros (st & H); exists st; [rewrite H; reflexivity | injection H as H; exact H].
  - destruct rel as [|n r]; [cbn [matches]; split; [discriminate | intros (ds & st & H); destruct ds; discriminate]|].
    change (matches (PRecExt e) (n :: r)) with (has_ext e (last (n :: r) [])).
    rewrite has_ext_spec. split.
    + intros (st & H). exists (removelast (n :: r)), st. rewrite <- H. apply app_removelast_last. discriminate.
    + intros (ds & st & H). exists st. rewrite H. apply last_last.
  - destruct rel as [|a [|n [|m r]]]; cbn [matches]; try (split; [discriminate | intros (n' & H); discriminate]).
    destruct (str_eqb_spec a s) as [->|N]; split; eauto; try discriminate. intros (n' & H). congruence.
Qed.
Lemma matches_nonempty pat rel : matches pat rel = true -> rel <> [].
Proof. destruct pat; destruct rel; cbn [matches]; congruence. Qed.

Lemma under_spec pat d q : under pat d q = true <-> exists rel, q = d ++ rel /\ matches pat rel = true.
Proof.
  unfold under. destruct (strip_prefix d q) as [rel|] eqn:E.
  - apply strip_prefix_spec in E. split; [eauto|]. intros (rel' & H & M). subst q. apply app_inv_head in H. subst. exact M.
  - split; [discriminate|]. intros (rel & H & _). apply strip_prefix_spec in H. congruence.
Qed.

(* ------------------------------------------------------------------ one layer *)
Lemma l_list_In L a pat q :
  In q (l_list L a pat) <-> l_is_dir L a = true /\ In q (map fst L) /\ exists rel, q = fst a ++ rel /\ matches pat rel = true.
Proof.
  unfold l_list. destruct (l_is_dir L a).
  - rewrite filter_In, under_spec. tauto.
  - cbn [In]. split; [tauto | intros (H & _); discriminate].
Qed.

Lemma l_subdirs_In L a q :
  In q (l_subdirs L a) <-> l_is_dir L a = true /\ In (q, Dir) L /\ exists n, q = fst a ++ [n].
Proof.
  unfold l_subdirs. destruct (l_is_dir L a).
  - rewrite in_map_iff. split.
    + intros ([q' e] & E & H). cbn [fst] in E. subst q'. apply filter_In in H. destruct H as (Hin & Hb).
      cbn [fst snd] in Hb. apply andb_true_iff in Hb. destruct Hb as (Hd & Hu).
      destruct e; [discriminate|]. apply under_spec in Hu. destruct Hu as (rel & -> & M).
      destruct rel as [|n [|m r]]; try discriminate. repeat split; eauto.
    + intros (_ & Hin & n & ->). exists (fst a ++ [n], Dir). split; [reflexivity|]. apply filter_In. split; [exact Hin|].
      cbn [fst snd is_dir_entry andb]. apply under_spec. exists [n]. split; reflexivity.
  - cbn [In]. split; [tauto | intros (H & _); discriminate].
Qed.

(* ------------------------------------------------------------------ the stack *)
Lemma fs_list_result S d pat loc s a : fs_addr S d loc = FOk (s, a) ->
  fs_list S d pat loc =
    if wf_pattern pat then FOk (sort_dedup (map render_path (flat_map (fun L => l_list L a pat) (layers S))))
    else FErr EUnmodelled.
Proof. intros H. unfold fs_list. rewrite H. reflexivity. Qed.
(* a listing that returns Ok was asked with a pattern inside the modelled family *)
Lemma fs_list_ok_pattern S d pat loc l : fs_list S d pat loc = FOk l -> wf_pattern pat = true.
Proof.
  unfold fs_list. destruct (fs_addr S d loc) as [[s a]|e|k]; cbn [fbind]; try discriminate.
  destruct (wf_pattern pat); [reflexivity | discriminate].
Qed.
Lemma fs_subdirs_result S d loc s a : fs_addr S d loc = FOk (s, a) ->
  fs_subdirectories S d loc = FOk (sort_dedup (map render_path (flat_map (fun L => l_subdirs L a) (layers S)))).
Proof. intros H. unfold fs_subdirectories. rewrite H. reflexivity. Qed.

Theorem list_spec S d pat loc s a l : fs_addr S d loc = FOk (s, a) -> fs_list S d pat loc = FOk l ->
  forall x, In x l <-> exists L q, In L (layers S) /\ In q (l_list L a pat) /\ x = render_path q.
Proof.
  intros A H x. rewrite (fs_list_result S d pat loc s a A) in H. destruct (wf_pattern pat); [|discriminate]. injection H as <-.
  rewrite sort_dedup_In, in_map_iff. split.
  - intros (q & <- & Hq). apply in_flat_map in Hq. destruct Hq as (L & HL & Hq). eauto.
  - intros (L & q & HL & Hq & ->). exists q. split; [reflexivity|]. apply in_flat_map. eauto.
Qed.
Theorem list_sorted S d pat loc l : fs_list S d pat loc = FOk l -> StronglySorted str_lt l.
Proof.
  unfold fs_list. destruct (fs_addr S d loc) as [[s a]|e|k]; cbn [fbind]; try discriminate.
  destruct (wf_pattern pat); [|discriminate]. intros H. injection H as <-. apply sort_dedup_sorted.
Qed.
Theorem subdirs_spec S d loc s a l : fs_addr S d loc = FOk (s, a) -> fs_subdirectories S d loc = FOk l ->
  forall x, In x l <-> exists L q, In L (layers S) /\ In q (l_subdirs L a) /\ x = render_path q.
Proof.
  intros A H x. rewrite (fs_subdirs_result S d loc s a A) in H. injection H as <-.
  rewrite sort_dedup_In, in_map_iff. split.
  - intros (q & <- & Hq). apply in_flat_map in Hq. destruct Hq as (L & HL & Hq). eauto.
  - intros (L & q & HL & Hq & ->). exists q. split; [reflexivity|]. apply in_flat_map. eauto.
Qed.
Theorem subdirs_sorted S d loc l : fs_subdirectories S d loc = FOk l -> StronglySorted str_lt l.
Proof.
  unfold fs_subdirectories. destruct (fs_addr S d loc) as [[s a]|e|k]; cbn [fbind]; try discriminate.
  intros H. injection H as <-. apply sort_dedup_sorted.
Qed.

Lemma flat_map_nil {A B} (f : A -> list B) l : (forall x, In x l -> f x = []) -> flat_map f l = [].
Proof. induction l as [|x r IH]; intros H; cbn [flat_map]; [reflexivity|]. rewrite (H x) by (left; reflexivity). apply IH. intros; apply H; right; assumption. Qed.

(* a directory present in no layer lists as empty *)
Theorem missing_is_empty S d pat loc s a : wf_pattern pat = true -> fs_addr S d loc = FOk (s, a) ->
  (forall L, In L (layers S) -> l_is_dir L a = false) ->
  fs_list S d pat loc = FOk [] /\ fs_subdirectories S d loc = FOk [].
Proof.
  intros WP A H. rewrite (fs_list_result S d pat loc s a A), (fs_subdirs_result S d loc s a A), WP.
  rewrite !flat_map_nil; [split; reflexivity | |].
  - intros L HL. unfold l_subdirs. rewrite (H L HL). reflexivity.
  - intros L HL. unfold l_list. rewrite (H L HL). reflexivity.
Qed.

(* a localized listing is the unlocalized listing of the localized directory *)
Theorem list_localized S d d' pat : localize (c_loc (conf S)) (lng S) d = LOk d' ->
  fs_list S d pat true = fs_list S d' pat false /\ fs_subdirectories S d true = fs_subdirectories S d' false.
Proof. intros H. unfold fs_list, fs_subdirectories. rewrite (fs_addr_loc S d d' H). split; reflexivity. Qed.

(* ------------------------------------------------------------------ the result is determined by its members *)
Lemma sorted_unique l1 : forall l2, StronglySorted str_lt l1 -> StronglySorted str_lt l2 ->
  (forall x, In x l1 <-> In x l2) -> l1 = l2.
Proof.
  induction l1 as [|a r1 IH]; intros l2 S1 S2 H.
  - destruct l2 as [|b r2]; [reflexivity|]. exfalso. apply (proj2 (H b)). left; reflexivity.
  - destruct l2 as [|b r2]; [exfalso; apply (proj1 (H a)); left; reflexivity|].
    inversion S1 as [|? ? S1' F1]; subst. inversion S2 as [|? ? S2' F2]; subst.
    rewrite Forall_forall in F1, F2.
    assert (E : a = b).
    { destruct (proj1 (H a) (or_introl eq_refl)) as [E|Ha]; [symmetry; exact E|].
      destruct (proj2 (H b) (or_introl eq_refl)) as [E|Hb]; [exact E|].
      exfalso. apply (str_lt_irrefl a). eapply str_lt_trans; [apply F1; exact Hb | apply F2; exact Ha]. }
    subst b. f_equal. apply IH; auto. intros x. split; intros Hx.
    + destruct (proj1 (H x) (or_intror Hx)) as [E|Hx']; [|exact Hx']. subst x. exfalso. exact (str_lt_irrefl a (F1 a Hx)).
    + destruct (proj2 (H x) (or_intror Hx)) as [E|Hx']; [|exact Hx']. subst x. exfalso. exact (str_lt_irrefl a (F2 a Hx)).
Qed.

(* any strictly sorted list with the right members IS the listing *)
Theorem list_canonical S d pat loc s a l l' : fs_addr S d loc = FOk (s, a) -> fs_list S d pat loc = FOk l ->
  StronglySorted str_lt l' ->
  (forall x, In x l' <-> exists L q, In L (layers S) /\ In q (l_list L a pat) /\ x = render_path q) ->
  l' = l.
Proof.
  intros A H S' M. apply sorted_unique; [exact S' | eapply list_sorted; eauto|].
  intros x. rewrite M. symmetry. eapply list_spec; eauto.
Qed.

(* the order of the layers does not matter for a listing *)
Theorem list_layer_order S S' d pat loc : conf S' = conf S -> lng S' = lng S ->
  (forall L, In L (layers S') <-> In L (layers S)) -> fs_list S' d pat loc = fs_list S d pat loc.
Proof.
  intros E1 E2 HL. unfold fs_list. rewrite (fs_addr_state S S' d loc E1 E2).
  destruct (fs_addr S d loc) as [[s a]|e|k]; cbn [fbind]; try reflexivity. destruct (wf_pattern pat); [|reflexivity]. f_equal.
  apply sorted_unique; try apply sort_dedup_sorted. intros x. rewrite !sort_dedup_In, !in_map_iff.
  split; intros (q & <- & Hq); exists q; (split; [reflexivity|]); apply in_flat_map in Hq; destruct Hq as (L & HL' & Hq);
    apply in_flat_map; exists L; (split; [apply HL; exact HL' | exact Hq]).
Qed.

(* ------------------------------------------------------------------ the modelled pattern arguments *)
Definition glob_literal (s : str) : Prop := forall c, In c s -> ~ In c glob_special.

Lemma plain_pattern_arg_spec s : plain_pattern_arg s = true <-> glob_literal s.
Proof.
  unfold plain_pattern_arg, glob_literal. rewrite forallb_forall. split; intros H c Hc.
  - specialize (H c Hc). apply negb_true_iff in H. intros Hin.
    assert (X : existsb (N.eqb c) glob_special = true); [|congruence].
    apply existsb_exists. exists c. split; [exact Hin | apply N.eqb_refl].
  - apply negb_true_iff. destruct (existsb (N.eqb c) glob_special) eqn:E; [|reflexivity].
    apply existsb_exists in E. destruct E as (x & Hx & Ex). apply N.eqb_eq in Ex. subst x. exfalso. exact (H c Hc Hx).
Qed.
