(* Agreement of the constants of src/etc1.rs (modifier table, bit offsets, block sizes), regenerated
   from the source on every run, with Model/Etc1.v.  The bit offsets are literals inside
   [block_colors] and [texel]; [block_colors_o] / [texel_o] are the same definitions with the
   offsets taken from a list, and are proved equal to the model's for the list read from the source. *)
From Coq Require Import List NArith ZArith Bool.
From Mila Require Import Generated.SourceTables.
From Mila Require Import Proofs.SrcAgreeLib Lib.Bytes Lib.Machine Model.Pixel Model.Etc1.
Import ListNotations.
Local Open Scope N_scope.

Theorem src_ETC_MODIFIERS_agrees : src_ETC_MODIFIERS = ETC_MODIFIERS.
Proof. reflexivity. Qed.

Theorem src_ETC_MODIFIERS_agrees_use : forall t idx,
  modifier t idx = (let '(a, b) := nth (N.to_nat t) src_ETC_MODIFIERS (0, 0)%Z in if idx =? 0 then a else b).
Proof. intros t idx. rewrite src_ETC_MODIFIERS_agrees. reflexivity. Qed.

(* positions in src_ETC_OFFSETS *)
Definition off (o : list N) (i : nat) : N := nth i o 0.
Definition oINDIV_R1 := 0%nat.  Definition oINDIV_G1 := 1%nat.  Definition oINDIV_B1 := 2%nat.
Definition oDIFF_R1 := 3%nat.   Definition oDIFF_G1 := 4%nat.   Definition oDIFF_B1 := 5%nat.
Definition oR2 := 6%nat.        Definition oG2 := 7%nat.        Definition oB2 := 8%nat.
Definition oTABLE1 := 9%nat.    Definition oTABLE2 := 10%nat.
Definition oDIFFERENTIAL := 11%nat.  Definition oORIENTATION := 12%nat.

Definition block_colors_o (o : list N) (pixels : N) : list N * list N :=
  if band (shr pixels (off o oDIFFERENTIAL)) 1 =? 1 then
    let r := band (shr pixels (off o oDIFF_R1)) 0x1F in
    let g := band (shr pixels (off o oDIFF_G1)) 0x1F in
    let b := band (shr pixels (off o oDIFF_B1)) 0x1F in
    let r2 := diff_second r (band (shr pixels (off o oR2)) 7) in
    let g2 := diff_second g (band (shr pixels (off o oG2)) 7) in
    let b2 := diff_second b (band (shr pixels (off o oB2)) 7) in
    ([ext5 r; ext5 g; ext5 b], [ext5 r2; ext5 g2; ext5 b2])
  else
    ([ext4 (band (shr pixels (off o oINDIV_R1)) 0xF); ext4 (band (shr pixels (off o oINDIV_G1)) 0xF);
      ext4 (band (shr pixels (off o oINDIV_B1)) 0xF)],
     [ext4 (band (shr pixels (off o oR2)) 0xF); ext4 (band (shr pixels (off o oG2)) 0xF);
      ext4 (band (shr pixels (off o oB2)) 0xF)]).

Definition texel_o (o : list N) (pixels alphas : N) (c1 c2 : list N) (px py : N) : color :=
  let horizontal := band (shr pixels (off o oORIENTATION)) 1 =? 1 in
  let t1 := band (shr pixels (off o oTABLE1)) 7 in
  let t2 := band (shr pixels (off o oTABLE2)) 7 in
  let amounts := band pixels 0xFFFF in
  let signs := band (shr pixels 16) 0xFFFF in
  let offset := px * 4 + py in
  let first := if horizontal then py <? 2 else px <? 2 in
  let table := if first then t1 else t2 in
  let col := if first then c1 else c2 in
  let sign := band (shr signs offset) 1 in
  let mag := modifier table (band (shr amounts offset) 1) in
  let amount := if sign =? 1 then (- mag)%Z else mag in
  let ch (i : nat) := clamp_u8 (Z.of_N (nth i col 0) + amount) in
  [ch 0%nat; ch 1%nat; ch 2%nat; as_u8 (band (shr alphas (offset * 4)) 0xF * 0x11)].

Theorem src_ETC_OFFSETS_agrees_count : length src_ETC_OFFSETS = 13%nat.
Proof. reflexivity. Qed.

Theorem src_ETC_OFFSETS_agrees : forall pixels, block_colors pixels = block_colors_o src_ETC_OFFSETS pixels.
Proof. intro pixels. reflexivity. Qed.

Theorem src_ETC_OFFSETS_agrees_texel : forall pixels alphas c1 c2 px py,
  texel pixels alphas c1 c2 px py = texel_o src_ETC_OFFSETS pixels alphas c1 c2 px py.
Proof. intros. reflexivity. Qed.

(* block sizes: [take_block] consumes exactly ETC1_BLOCK_SIZE / ETC1A4_BLOCK_SIZE bytes (checked on every
   buffer length up to 40), and a 1x1 image (one tile of four blocks) needs four blocks *)
Definition block_size (alpha : bool) : N := nth (if alpha then 1 else 0)%nat src_ETC_BLOCK_SIZES 0.

Definition take_block_consumes (alpha : bool) (n : nat) : bool :=
  match take_block alpha (zeros n) with
  | Some (_, _, rest) => (block_size alpha <=? N.of_nat n) && (lenN rest + block_size alpha =? N.of_nat n)
  | None => N.of_nat n <? block_size alpha
  end.

Theorem src_ETC_BLOCK_SIZES_agrees :
  forallb (take_block_consumes false) (seq 0 41) = true /\ forallb (take_block_consumes true) (seq 0 41) = true.
Proof. split; vm_compute; reflexivity. Qed.

Definition one_tile_needs (alpha : bool) (n : nat) : bool :=
  match etc1_decode_pixels Checked (zeros n) 1 1 alpha with
  | Ok _ => 4 * block_size alpha <=? N.of_nat n
  | Panic PIndex => N.of_nat n <? 4 * block_size alpha
  | _ => false
  end.

Theorem src_ETC_BLOCK_SIZES_agrees_decode :
  forallb (one_tile_needs false) (seq 0 80) = true /\ forallb (one_tile_needs true) (seq 0 80) = true.
Proof. split; vm_compute; reflexivity. Qed.
