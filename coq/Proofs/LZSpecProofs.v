(* The strict parser of LZSpec accepts what LZSpec's writer writes, for every legal token sequence:
   sgroups (enc_groups ts) = ts, nothing left over.  (Parser / encoder inversion, format level.) *)
From Coq Require Import List NArith Arith Lia Bool ZifyBool ZifyNat ZifyN.
From Mila Require Import Lib.Bytes Model.LZCore Model.LZSpec Proofs.LZBits Proofs.LZEmitProofs.
Import ListNotations.
Local Open Scope N_scope.

(* ---------------------------------------------------------------- the flag byte *)
Lemma flag_of_high : forall g k j, k + N.of_nat (length g) <= 8 -> 8 <= j + k -> N.testbit (flag_of k g) j = false.
Proof.
  induction g as [|t r IH]; intros k j Hk Hj; cbn [flag_of]; [apply N.bits_0|].
  cbn [length] in Hk.
  assert (Hr : N.testbit (flag_of (k + 1) r) j = false) by (apply IH; lia).
  destruct (is_ref t); [|exact Hr].
  rewrite N.setbit_eqb, Hr. destruct (N.eqb_spec (7 - k) j); [lia | reflexivity].
Qed.

Lemma flag_of_head t r k : k + N.of_nat (length (t :: r)) <= 8 -> N.testbit (flag_of k (t :: r)) (7 - k) = is_ref t.
Proof.
  intros Hk. cbn [flag_of]. cbn [length] in Hk.
  assert (Hr : N.testbit (flag_of (k + 1) r) (7 - k) = false) by (apply flag_of_high; lia).
  destruct (is_ref t); [|exact Hr].
  rewrite N.setbit_eqb, N.eqb_refl. reflexivity.
Qed.

Lemma flag_of_tail t r k j : j < 7 - k -> N.testbit (flag_of k (t :: r)) j = N.testbit (flag_of (k + 1) r) j.
Proof.
  intros Hj. cbn [flag_of]. destruct (is_ref t); [|reflexivity].
  rewrite N.setbit_eqb. destruct (N.eqb_spec (7 - k) j); [lia | reflexivity].
Qed.

Lemma flag_of_bound : forall g k, k + N.of_nat (length g) <= 8 -> flag_of k g < 2 ^ (8 - k).
Proof.
  induction g as [|t r IH]; intros k Hk; cbn [flag_of].
  - apply N.neq_0_lt_0. apply N.pow_nonzero. lia.
  - cbn [length] in Hk. specialize (IH (k + 1) ltac:(lia)).
    replace (8 - k) with (N.succ (7 - k)) by lia. rewrite N.pow_succ_r'.
    replace (8 - (k + 1)) with (7 - k) in IH by lia.
    destruct (is_ref t); [|lia].
    unfold N.setbit. rewrite N.shiftl_1_l, N.lor_comm.
    replace (2 ^ (7 - k)) with (1 * 2 ^ (7 - k)) at 1 by lia.
    rewrite N_lor_mul_add by exact IH. lia.
Qed.

Lemma flag_of_byte g : (length g <= 8)%nat -> flag_of 0 g < 256.
Proof. intros H. apply (flag_of_bound g 0). lia. Qed.

(* ---------------------------------------------------------------- one token *)
Lemma triple_eq {A B C} (a a' : A) (b b' : B) (c : C) : a = a' -> b = b' -> Some (a, b, c) = Some (a', b', c).
Proof. intros; subst; reflexivity. Qed.

Lemma stoken_senc v len disp r :
  (3 <= len <= max_len v)%nat -> (1 <= disp <= 4096)%nat ->
  stoken v (senc v (Ref len disp) ++ r) = Some (N.of_nat len, N.of_nat disp, r).
Proof.
  intros Hl Hd. unfold senc, stoken.
  destruct v; cbn [max_len] in Hl.
  - cbn [app]. apply triple_eq; lia.
  - assert (Hl' : 3 <= N.of_nat len <= 65808) by lia. clear Hl.
    destruct (N.leb_spec (N.of_nat len) 16) as [H16|H16].
    + cbn [app].
      destruct (N.leb_spec 2 (((N.of_nat len - 1) * 16 + (N.of_nat disp - 1) / 256) / 16)) as [H2|H2]; [|lia].
      apply triple_eq; lia.
    + destruct (N.leb_spec (N.of_nat len) 272) as [H272|H272].
      * cbn [app].
        destruct (N.leb_spec 2 ((N.of_nat len - 17) / 16 / 16)) as [H2|H2]; [lia|].
        destruct (N.eqb_spec ((N.of_nat len - 17) / 16 / 16) 0) as [H0|H0]; [|lia].
        apply triple_eq; lia.
      * cbn [app].
        destruct (N.leb_spec 2 ((16 + (N.of_nat len - 273) / 4096) / 16)) as [H2|H2]; [lia|].
        destruct (N.eqb_spec ((16 + (N.of_nat len - 273) / 4096) / 16) 0) as [H0|H0]; [lia|].
        apply triple_eq; lia.
Qed.

Lemma senc_wfb v t prod r : valid_from v prod (t :: r) -> wfb (senc v t).
Proof.
  destruct t as [b|len disp]; cbn [valid_from]; intros H.
  - destruct H as [Hb _]. constructor; [exact Hb | constructor].
  - destruct H as (Hl & Hd & _ & _). unfold senc.
    destruct v; cbn [max_len] in Hl.
    + repeat constructor; lia.
    + assert (Hl' : 3 <= N.of_nat len <= 65808) by lia.
      destruct (N.leb_spec (N.of_nat len) 16); [repeat constructor; lia|].
      destruct (N.leb_spec (N.of_nat len) 272); repeat constructor; lia.
Qed.

Lemma senc_length_pos v t : (1 <= length (senc v t))%nat.
Proof.
  destruct t as [b|len disp]; cbn [senc length]; [lia|].
  destruct v; [cbn [length]; lia|].
  destruct (N.of_nat len <=? 16); [cbn [length]; lia|]. destruct (N.of_nat len <=? 272); cbn [length]; lia.
Qed.

(* ---------------------------------------------------------------- validity is compositional *)
Lemma total_len_app a b : total_len (a ++ b) = (total_len a + total_len b)%nat.
Proof. induction a as [|t a IH]; cbn [app total_len fold_right] in *; [reflexivity|]. fold (total_len (a ++ b)). fold (total_len a). lia. Qed.

Lemma total_len_cons t r : total_len (t :: r) = (tok_len t + total_len r)%nat.
Proof. reflexivity. Qed.

Lemma valid_from_app v : forall a b prod,
  valid_from v prod (a ++ b) <-> valid_from v prod a /\ valid_from v (prod + total_len a) b.
Proof.
  induction a as [|t a IH]; intros b prod; cbn [app].
  - cbn [valid_from total_len fold_right]. rewrite Nat.add_0_r. tauto.
  - rewrite total_len_cons. destruct t as [c|len disp]; cbn [valid_from tok_len].
    + rewrite IH. replace (S prod + total_len a)%nat with (prod + (1 + total_len a))%nat by lia. tauto.
    + rewrite IH. replace (prod + len + total_len a)%nat with (prod + (len + total_len a))%nat by lia. tauto.
Qed.

Lemma valid_from_tok_pos v t r prod : valid_from v prod (t :: r) -> (1 <= tok_len t)%nat.
Proof. destruct t; cbn [valid_from tok_len]; lia. Qed.

(* ---------------------------------------------------------------- one group *)
Lemma sgroup_enc v : forall g n F rest prod total,
  (length g <= n <= 8)%nat ->
  (forall j, j < N.of_nat n -> N.testbit F j = N.testbit (flag_of (8 - N.of_nat n) g) j) ->
  valid_from v prod g ->
  N.of_nat (prod + total_len g) <= total ->
  (length g = n \/ N.of_nat (prod + total_len g) = total) ->
  sgroup v n F (concat (map (senc v) g) ++ rest) (N.of_nat prod) total
  = Some (g, rest, N.of_nat (prod + total_len g)).
Proof.
  induction g as [|t r IH]; intros n F rest prod total Hn HF Hv Hle Hend.
  - cbn [concat map app total_len fold_right] in *. rewrite Nat.add_0_r in *.
    destruct n as [|n']; cbn [sgroup]; [reflexivity|].
    destruct Hend as [Hend|Hend]; [cbn [length] in Hend; lia|].
    destruct (N.leb_spec total (N.of_nat prod)); [reflexivity | lia].
  - destruct n as [|n']; [cbn [length] in Hn; lia|].
    pose proof (valid_from_tok_pos v t r prod Hv) as Hpos.
    rewrite total_len_cons in *.
    cbn [sgroup]. destruct (N.leb_spec total (N.of_nat prod)) as [Hstop|_]; [lia|].
    assert (Hbit : N.testbit F (N.of_nat n') = is_ref t).
    { rewrite HF by lia. replace (N.of_nat n') with (7 - (8 - N.of_nat (S n'))) by lia.
      apply flag_of_head. cbn [length] in *. lia. }
    assert (HF' : forall j, j < N.of_nat n' -> N.testbit F j = N.testbit (flag_of (8 - N.of_nat n') r) j).
    { intros j Hj. rewrite HF by lia. rewrite flag_of_tail by lia. do 2 f_equal. lia. }
    rewrite Hbit. cbn [concat map]. rewrite <- app_assoc.
    destruct t as [b|len disp]; cbn [is_ref].
    + cbn [senc app]. cbn [valid_from] in Hv. destruct Hv as [Hb Hv]. cbn [tok_len] in *.
      replace (N.of_nat prod + 1) with (N.of_nat (S prod)) by lia.
      rewrite (IH n' F rest (S prod) total); [ | cbn [length] in Hn; lia | exact HF' | exact Hv | lia | cbn [length] in Hend; lia ].
      do 3 f_equal. lia.
    + cbn [valid_from] in Hv. destruct Hv as (Hl & Hd & Hreach & Hv). cbn [tok_len] in *.
      rewrite stoken_senc by assumption.
      destruct (N.leb_spec (N.of_nat disp) (N.of_nat prod)) as [_|Hbad]; [|lia].
      replace (N.of_nat prod + N.of_nat len) with (N.of_nat (prod + len)) by lia.
      rewrite (IH n' F rest (prod + len)%nat total); [ | cbn [length] in Hn; lia | exact HF' | exact Hv | lia | cbn [length] in Hend; lia ].
      rewrite !Nat2N.id. do 3 f_equal. lia.
Qed.

(* ---------------------------------------------------------------- size of the encoding *)
Lemma concat_map_split {A B} (f : A -> list B) (l : list A) n :
  concat (map f l) = concat (map f (firstn n l)) ++ concat (map f (skipn n l)).
Proof. rewrite <- concat_app, <- map_app, firstn_skipn. reflexivity. Qed.

Lemma enc_groups_length tb : forall fuel ts, (length ts <= fuel)%nat ->
  length (enc_groups tb fuel ts) = (length (concat (map tb ts)) + (length ts + 7) / 8)%nat.
Proof.
  induction fuel as [|fuel IH]; intros ts Hlen.
  - destruct ts; [reflexivity | cbn [length] in Hlen; lia].
  - destruct ts as [|t r]; [reflexivity|].
    remember (t :: r) as ts eqn:Ets.
    assert (Hne : (1 <= length ts)%nat) by (subst ts; cbn [length]; lia).
    replace (enc_groups tb (S fuel) ts)
      with (flag_of 0 (firstn 8 ts) :: concat (map tb (firstn 8 ts)) ++ enc_groups tb fuel (skipn 8 ts))
      by (subst ts; reflexivity).
    cbn [length]. rewrite app_length, IH by (rewrite skipn_length; lia).
    rewrite (concat_map_split tb ts 8), app_length, skipn_length.
    destruct (Nat.le_gt_cases 8 (length ts)) as [Hbig|Hsmall]; lia.
Qed.

Lemma enc_body_length tb ts :
  length (enc_body tb ts) = (length (concat (map tb ts)) + (length ts + 7) / 8)%nat.
Proof. apply enc_groups_length. lia. Qed.

Lemma concat_senc_length v : forall ts, (length ts <= length (concat (map (senc v) ts)))%nat.
Proof.
  induction ts as [|t r IH]; [cbn; lia|]. cbn [map concat length]. rewrite app_length.
  pose proof (senc_length_pos v t). lia.
Qed.

(* ---------------------------------------------------------------- all groups *)
Lemma valid_from_firstn v ts prod n : valid_from v prod ts -> valid_from v prod (firstn n ts).
Proof. intros H. rewrite <- (firstn_skipn n ts) in H. apply valid_from_app in H. tauto. Qed.

Lemma valid_from_skipn v ts prod n : valid_from v prod ts -> valid_from v (prod + total_len (firstn n ts)) (skipn n ts).
Proof. intros H. rewrite <- (firstn_skipn n ts) in H. apply valid_from_app in H. tauto. Qed.

Lemma total_len_split ts n : total_len ts = (total_len (firstn n ts) + total_len (skipn n ts))%nat.
Proof. rewrite <- total_len_app, firstn_skipn. reflexivity. Qed.

Lemma total_len_ge v : forall ts prod, valid_from v prod ts -> (length ts <= total_len ts)%nat.
Proof.
  induction ts as [|t r IH]; intros prod H; [cbn; lia|].
  pose proof (valid_from_tok_pos v t r prod H) as Hp. rewrite total_len_cons. cbn [length].
  assert (Hr : exists p, valid_from v p r).
  { destruct t; cbn [valid_from] in H; [exists (S prod); tauto | eexists; apply H]. }
  destruct Hr as [p Hr]. specialize (IH p Hr). lia.
Qed.

Lemma sgroups_enc v : forall fuel ts fuelp prod total,
  valid_from v prod ts ->
  N.of_nat (prod + total_len ts) = total ->
  (length ts <= fuel)%nat -> (length ts < fuelp)%nat ->
  sgroups v fuelp (enc_groups (senc v) fuel ts) (N.of_nat prod) total = Some ts.
Proof.
  induction fuel as [|fuel IH]; intros ts fuelp prod total Hv Htot Hfuel Hfp.
  - destruct ts; [|cbn [length] in Hfuel; lia]. cbn [enc_groups total_len fold_right] in *.
    destruct fuelp; cbn [sgroups]; (destruct (N.eqb_spec (N.of_nat prod) total); [reflexivity | lia]).
  - destruct ts as [|t r].
    { cbn [enc_groups total_len fold_right] in *.
      destruct fuelp; cbn [sgroups]; (destruct (N.eqb_spec (N.of_nat prod) total); [reflexivity | lia]). }
    remember (t :: r) as ts eqn:Ets.
    assert (Hne : (1 <= length ts)%nat) by (subst ts; cbn [length]; lia).
    replace (enc_groups (senc v) (S fuel) ts)
      with (flag_of 0 (firstn 8 ts) :: concat (map (senc v) (firstn 8 ts)) ++ enc_groups (senc v) fuel (skipn 8 ts))
      by (subst ts; reflexivity).
    pose proof (total_len_ge v ts prod Hv) as Hge.
    pose proof (total_len_split ts 8) as Hsplit.
    destruct fuelp as [|fp]; [lia|]. cbn [sgroups].
    destruct (N.eqb_spec (N.of_nat prod) total) as [E|_]; [lia|].
    destruct (N.ltb_spec total (N.of_nat prod)) as [E|_]; [lia|].
    rewrite (sgroup_enc v (firstn 8 ts) 8 (flag_of 0 (firstn 8 ts)) (enc_groups (senc v) fuel (skipn 8 ts)) prod total).
    + rewrite (IH (skipn 8 ts) fp (prod + total_len (firstn 8 ts))%nat total).
      * rewrite firstn_skipn. reflexivity.
      * apply valid_from_skipn. exact Hv.
      * lia.
      * rewrite skipn_length. lia.
      * rewrite skipn_length. lia.
    + rewrite firstn_length. lia.
    + intros j Hj. reflexivity.
    + apply valid_from_firstn. exact Hv.
    + lia.
    + destruct (Nat.le_gt_cases 8 (length ts)) as [Hbig|Hsmall].
      * left. rewrite firstn_length. lia.
      * right. rewrite (firstn_all2 ts) in * by lia. rewrite (skipn_all2 ts) in Hsplit by lia.
        cbn [total_len fold_right] in Hsplit. lia.
Qed.

Theorem sbody_enc v ts total :
  valid v ts -> N.of_nat (total_len ts) = total ->
  sbody v (enc_body (senc v) ts) total = Some ts.
Proof.
  intros Hv Htot. unfold sbody, enc_body.
  apply (sgroups_enc v (length ts) ts _ 0%nat total Hv Htot); [lia|].
  rewrite enc_groups_length by lia. pose proof (concat_senc_length v ts). lia.
Qed.

(* ---------------------------------------------------------------- every byte written is a byte *)
Lemma wfb_concat_senc v : forall ts prod, valid_from v prod ts -> wfb (concat (map (senc v) ts)).
Proof.
  induction ts as [|t r IH]; intros prod H; [constructor|]. cbn [map concat].
  apply wfb_app; [eapply senc_wfb; exact H|].
  destruct t; cbn [valid_from] in H; eapply IH; apply H.
Qed.

Lemma wfb_enc_groups v : forall fuel ts prod, valid_from v prod ts -> wfb (enc_groups (senc v) fuel ts).
Proof.
  induction fuel as [|fuel IH]; intros ts prod H; [destruct ts; constructor|].
  destruct ts as [|t r]; [constructor|].
  remember (t :: r) as ts eqn:Ets.
  replace (enc_groups (senc v) (S fuel) ts)
    with (flag_of 0 (firstn 8 ts) :: concat (map (senc v) (firstn 8 ts)) ++ enc_groups (senc v) fuel (skipn 8 ts))
    by (subst ts; reflexivity).
  constructor; [apply flag_of_byte; rewrite firstn_length; lia|].
  apply wfb_app.
  - eapply wfb_concat_senc. apply valid_from_firstn. exact H.
  - eapply IH. apply valid_from_skipn. exact H.
Qed.

Lemma wfb_enc_body v ts : valid v ts -> wfb (enc_body (senc v) ts).
Proof. apply wfb_enc_groups. Qed.

(* the same from the bytes of the tokens alone (used for streams with an illegal reference) *)
Lemma valid_from_senc_wfb v : forall ts prod, valid_from v prod ts -> Forall (fun t => wfb (senc v t)) ts.
Proof.
  induction ts as [|t r IH]; intros prod H; constructor.
  - eapply senc_wfb. exact H.
  - destruct t; cbn [valid_from] in H; eapply IH; apply H.
Qed.

Lemma wfb_concat_gen v : forall ts, Forall (fun t => wfb (senc v t)) ts -> wfb (concat (map (senc v) ts)).
Proof. induction 1 as [|t r Ht Hr IH]; cbn [map concat]; [constructor | apply wfb_app; assumption]. Qed.

Lemma wfb_enc_groups_gen v : forall fuel ts, Forall (fun t => wfb (senc v t)) ts -> wfb (enc_groups (senc v) fuel ts).
Proof.
  induction fuel as [|fuel IH]; intros ts H; [destruct ts; constructor|].
  destruct ts as [|t r]; [constructor|].
  remember (t :: r) as ts eqn:Ets.
  replace (enc_groups (senc v) (S fuel) ts)
    with (flag_of 0 (firstn 8 ts) :: concat (map (senc v) (firstn 8 ts)) ++ enc_groups (senc v) fuel (skipn 8 ts))
    by (subst ts; reflexivity).
  constructor; [apply flag_of_byte; rewrite firstn_length; lia|].
  apply wfb_app.
  - apply wfb_concat_gen. rewrite Forall_forall in *. intros a Ha. apply H. eapply In_firstn'. exact Ha.
  - apply IH. rewrite Forall_forall in *. intros a Ha. apply H. eapply In_skipn. exact Ha.
Qed.
