(* C02, part 2: the canonical image.  [canonical e c] is written from the property text - no hash
   maps, no pool threading: de-duplicated string list, offsets by position, groups by string in
   first-use order - and serialize is proved to produce exactly it. *)
From Coq Require Import List NArith ZArith Bool Lia Permutation Sorted ZifyBool ZifyNat ZifyN.
From Mila Require Import Lib.Bytes Lib.Machine Model.BinArchive Model.BinFormat Proofs.SortLemmas Proofs.BinDeterminism Proofs.BinFormatSpec.
Import ListNotations.
Local Open Scope N_scope.
Ltac Zify.zify_post_hook ::= Z.div_mod_to_equations.

(* ---- specification-side vocabulary ---- *)
Definition mem (s : bytes) (l : list bytes) : bool := existsb (bytes_eqb s) l.
Definition dedup_step (acc : list bytes) (s : bytes) : list bytes := if mem s acc then acc else acc ++ [s].
(* every distinct string once, in order of first occurrence *)
Definition dedup_from (acc l : list bytes) : list bytes := fold_left dedup_step l acc.
Definition dedup (l : list bytes) : list bytes := dedup_from [] l.
(* the text section: each item followed by NUL *)
Definition tsection (items : list bytes) : bytes := concat (map (fun s => s ++ [0]) items).
(* offset of an item = total length of the items before it *)
Fixpoint offset_of (s : bytes) (items : list bytes) : N :=
  match items with
  | [] => 0
  | x :: r => if bytes_eqb s x then 0 else lenN x + 1 + offset_of s r
  end.

Lemma mem_In s l : mem s l = true <-> In s l.
Proof.
  unfold mem. rewrite existsb_exists. split.
  - intros (x & Hx & E). destruct (bytes_eqb_spec s x); [subst; exact Hx | discriminate].
  - intros H. exists s. split; [exact H | apply bytes_eqb_refl].
Qed.
Lemma mem_false s l : mem s l = false <-> ~ In s l.
Proof. rewrite <- mem_In. destruct (mem s l); split; congruence. Qed.

Lemma lenN_tsection_app a b : tsection (a ++ b) = tsection a ++ tsection b.
Proof. unfold tsection. rewrite map_app, concat_app. reflexivity. Qed.
Lemma offset_of_app_in s a b : In s a -> offset_of s (a ++ b) = offset_of s a.
Proof.
  induction a as [|x r IH]; intros H; [destruct H|]. cbn [app offset_of].
  destruct (bytes_eqb_spec s x) as [E|E]; [reflexivity|]. rewrite IH; [reflexivity|]. destruct H; congruence.
Qed.
Lemma offset_of_app_notin s a b : ~ In s a -> offset_of s (a ++ b) = lenN (tsection a) + offset_of s b.
Proof.
  induction a as [|x r IH]; intros H; cbn [app offset_of]; [reflexivity|].
  destruct (bytes_eqb_spec s x) as [E|E]; [exfalso; apply H; left; auto|].
  rewrite IH by (intros Hin; apply H; right; exact Hin).
  change (tsection (x :: r)) with ((x ++ [0]) ++ tsection r). rewrite !lenN_app. change (lenN [0]) with 1. lia.
Qed.
Lemma offset_of_self s : offset_of s [s] = 0.
Proof. cbn. rewrite bytes_eqb_refl. reflexivity. Qed.

Lemma dedup_step_incl acc s x : In x acc -> In x (dedup_step acc s).
Proof. unfold dedup_step. destruct (mem s acc); [auto | intros; apply in_or_app; left; assumption]. Qed.
Lemma dedup_step_prefix acc s : exists t, dedup_step acc s = acc ++ t.
Proof. unfold dedup_step. destruct (mem s acc); [exists []; rewrite app_nil_r | exists [s]]; reflexivity. Qed.
Lemma dedup_from_prefix : forall l acc, exists t, dedup_from acc l = acc ++ t.
Proof.
  induction l as [|s r IH]; intros acc; cbn [dedup_from fold_left]; [exists []; rewrite app_nil_r; reflexivity|].
  destruct (dedup_step_prefix acc s) as (t1 & E1). destruct (IH (dedup_step acc s)) as (t2 & E2).
  exists (t1 ++ t2). unfold dedup_from in *. rewrite E2, E1, app_assoc. reflexivity.
Qed.
(* offsets never change once a string is stored *)
Lemma offset_stable acc l s : In s acc -> offset_of s (dedup_from acc l) = offset_of s acc.
Proof. intros H. destruct (dedup_from_prefix l acc) as (t & ->). apply offset_of_app_in. exact H. Qed.
Lemma dedup_step_has acc s : In s (dedup_step acc s).
Proof. unfold dedup_step. destruct (mem s acc) eqn:E; [apply mem_In; exact E | apply in_or_app; right; left; reflexivity]. Qed.
Lemma dedup_step_nodup acc s : NoDup acc -> NoDup (dedup_step acc s).
Proof.
  unfold dedup_step. destruct (mem s acc) eqn:E; [auto|]. intros H. apply mem_false in E.
  rewrite <- (rev_involutive (acc ++ [s])). apply NoDup_rev. rewrite rev_app_distr. cbn [rev app].
  constructor; [rewrite <- in_rev; exact E | apply NoDup_rev; exact H].
Qed.

(* ---- the pool invariant ---- *)
Definition pool_is (p : pool) (items : list bytes) : Prop :=
  p_raw p = tsection items /\ p_len p = lenN (tsection items) /\
  p_offs p = map (fun s => (s, offset_of s items)) items /\ NoDup items.

Lemma pool_is_empty : pool_is pool_empty [].
Proof. repeat split. constructor. Qed.

Lemma offs_get_spec items0 items s :
  offs_get s (map (fun x => (x, offset_of x items0)) items) =
    if mem s items then Some (offset_of s items0) else None.
Proof.
  induction items as [|x r IH]; cbn [map offs_get mem existsb]; [reflexivity|].
  destruct (bytes_eqb_spec s x) as [E|E]; cbn [orb]; [subst; reflexivity | exact IH].
Qed.

Lemma add_text_spec p items s :
  pool_is p items ->
  pool_is (fst (add_text p s)) (dedup_step items s) /\ snd (add_text p s) = offset_of s (dedup_step items s).
Proof.
  intros (Hr & Hl & Ho & Hn). unfold add_text, dedup_step. rewrite Ho, offs_get_spec.
  destruct (mem s items) eqn:E; cbn [fst snd].
  - split; [repeat split; assumption | reflexivity].
  - apply mem_false in E. split.
    + repeat split; cbn [p_raw p_len p_offs].
      * rewrite Hr, lenN_tsection_app. unfold tsection at 3. cbn [map concat]. rewrite app_nil_r. reflexivity.
      * rewrite Hl, lenN_tsection_app, lenN_app. unfold tsection at 3. cbn [map concat]. rewrite app_nil_r, lenN_app.
        change (lenN [0]) with 1. lia.
      * rewrite map_app. cbn [map]. f_equal.
        -- apply map_ext_in. intros x Hx. rewrite offset_of_app_in by exact Hx. reflexivity.
        -- rewrite offset_of_app_notin by exact E. rewrite offset_of_self, Hl. f_equal. f_equal. lia.
      * pose proof (dedup_step_nodup items s Hn) as G. unfold dedup_step in G.
        destruct (mem s items) eqn:E2; [apply mem_In in E2; contradiction | exact G].
    + rewrite offset_of_app_notin by exact E. rewrite offset_of_self, Hl. lia.
Qed.

(* ---- label emission ---- *)
Definition bucket_entries (items : list bytes) (address : N) (bucket : list bytes) : list N :=
  concat (map (fun l => [address; offset_of l items]) bucket).
Definition label_entries (items : list bytes) (ls : list (N * list bytes)) : list N :=
  concat (map (fun p => bucket_entries items (fst p) (snd p)) ls).

Lemma emit_bucket_spec address : forall bucket p items acc,
  pool_is p items ->
  let items' := dedup_from items bucket in
  pool_is (fst (emit_bucket address bucket p acc)) items' /\
  snd (emit_bucket address bucket p acc) = acc ++ bucket_entries items' address bucket.
Proof.
  induction bucket as [|l r IH]; intros p items acc Hp; cbn [emit_bucket dedup_from fold_left].
  - cbn [fst snd]. unfold bucket_entries. cbn [map concat]. rewrite app_nil_r. split; [exact Hp | reflexivity].
  - destruct (add_text_spec p items l Hp) as [Hp' Hoff]. destruct (add_text p l) as [p' off]. cbn [fst snd] in Hp', Hoff.
    destruct (IH p' (dedup_step items l) (acc ++ [address; off]) Hp') as [H1 H2]. split; [exact H1|].
    rewrite H2. unfold bucket_entries. cbn [map concat]. rewrite <- app_assoc. f_equal. cbn [app]. f_equal. f_equal.
    rewrite Hoff. symmetry. apply offset_stable. apply dedup_step_has.
Qed.

Lemma bucket_entries_stable items more address bucket :
  (forall l, In l bucket -> In l items) ->
  bucket_entries (dedup_from items more) address bucket = bucket_entries items address bucket.
Proof.
  intros H. unfold bucket_entries. f_equal. apply map_ext_in. intros l Hl. rewrite offset_stable by (apply H; exact Hl). reflexivity.
Qed.
Lemma dedup_from_has : forall l acc x, In x l \/ In x acc -> In x (dedup_from acc l).
Proof.
  induction l as [|s r IH]; intros acc x H; cbn [dedup_from fold_left].
  - destruct H as [[]|H]; exact H.
  - apply IH. destruct H as [[<-|H]|H]; [right; apply dedup_step_has | left; exact H | right; apply dedup_step_incl; exact H].
Qed.
Lemma dedup_from_app acc a b : dedup_from acc (a ++ b) = dedup_from (dedup_from acc a) b.
Proof. unfold dedup_from. apply fold_left_app. Qed.

Lemma emit_labels_spec : forall ls p items acc,
  pool_is p items ->
  let items' := dedup_from items (concat (map snd ls)) in
  pool_is (fst (emit_labels ls p acc)) items' /\
  snd (emit_labels ls p acc) = acc ++ label_entries items' ls.
Proof.
  induction ls as [|[address bucket] r IH]; intros p items acc Hp; cbn [emit_labels map snd concat].
  - cbn [fst snd dedup_from fold_left]. unfold label_entries. cbn [map concat]. rewrite app_nil_r. split; [exact Hp | reflexivity].
  - destruct (emit_bucket_spec address bucket p items acc Hp) as [H1 H2].
    destruct (emit_bucket address bucket p acc) as [p' acc']. cbn [fst snd] in H1, H2.
    destruct (IH p' (dedup_from items bucket) acc' H1) as [G1 G2].
    rewrite dedup_from_app. split; [exact G1|].
    rewrite G2, H2. unfold label_entries. cbn [map concat fst snd]. rewrite <- app_assoc. f_equal. f_equal.
    symmetry. apply bucket_entries_stable. intros l Hl. apply dedup_from_has. left. exact Hl.
Qed.

(* ---- string emission ---- *)
Fixpoint sgroup_add (s : bytes) (cell : N) (g : list (bytes * list N)) : list (bytes * list N) :=
  match g with
  | [] => [(s, [cell])]
  | (s', cells) :: r => if bytes_eqb s s' then (s', cells ++ [cell]) :: r else (s', cells) :: sgroup_add s cell r
  end.
(* string cells grouped by string, groups in order of first use *)
Definition str_groups_from (g : list (bytes * list N)) (ts : list (N * bytes)) : list (bytes * list N) :=
  fold_left (fun g p => sgroup_add (snd p) (fst p) g) ts g.
Definition str_groups (ts : list (N * bytes)) := str_groups_from [] ts.

Fixpoint poke_text (e : endian) (tstart : N) (items : list bytes) (d : bytes) (ts : list (N * bytes)) : outcome bytes :=
  match ts with
  | [] => Ok d
  | (cell, s) :: r => d' <- poke_u32 e d cell (tstart + offset_of s items) ;; poke_text e tstart items d' r
  end.

Lemma offset_of_pos_tail s x r : s <> x -> 0 < offset_of s (x :: r).
Proof. intros H. cbn [offset_of]. destruct (bytes_eqb_spec s x); [congruence | lia]. Qed.
Lemma offset_of_inj : forall items x y, In x items -> In y items -> offset_of x items = offset_of y items -> x = y.
Proof.
  induction items as [|z r IH]; intros x y Hx Hy E; [destruct Hx|]. cbn [offset_of] in E.
  destruct (bytes_eqb_spec x z) as [Ex|Ex]; destruct (bytes_eqb_spec y z) as [Ey|Ey]; try congruence; try lia.
  apply IH; [destruct Hx; congruence | destruct Hy; congruence | lia].
Qed.

Definition by_offset (items : list bytes) (sg : list (bytes * list N)) : list (N * list N) :=
  map (fun q => (offset_of (fst q) items, snd q)) sg.

Lemma group_add_by_offset items s cell : forall sg,
  In s items -> (forall q, In q sg -> In (fst q) items) ->
  group_add (offset_of s items) cell (by_offset items sg) = by_offset items (sgroup_add s cell sg).
Proof.
  induction sg as [|[s' cells] r IH]; intros Hs Hsg; cbn [by_offset map group_add sgroup_add fst snd]; [reflexivity|].
  assert (Hs' : In s' items) by (apply (Hsg (s', cells)); left; reflexivity).
  destruct (bytes_eqb_spec s s') as [E|E].
  - subst s'. rewrite N.eqb_refl. reflexivity.
  - destruct (N.eqb_spec (offset_of s items) (offset_of s' items)) as [E2|E2].
    + exfalso. apply E. apply (offset_of_inj items); assumption.
    + cbn [map fst snd]. f_equal. apply IH; [exact Hs | intros q Hq; apply Hsg; right; exact Hq].
Qed.
Lemma by_offset_stable items more sg :
  (forall q, In q sg -> In (fst q) items) -> by_offset (dedup_from items more) sg = by_offset items sg.
Proof.
  intros H. unfold by_offset. apply map_ext_in. intros q Hq. rewrite offset_stable by (apply H; exact Hq). reflexivity.
Qed.
Lemma sgroup_add_keys s cell sg q : In q (sgroup_add s cell sg) -> fst q = s \/ exists q', In q' sg /\ fst q' = fst q.
Proof.
  induction sg as [|[s' cells] r IH]; cbn [sgroup_add]; intros H.
  - destruct H as [<-|[]]. left; reflexivity.
  - destruct (bytes_eqb_spec s s') as [E|E]; cbn [In] in H.
    + destruct H as [<-|H]; [right; exists (s', cells); split; [left; reflexivity | reflexivity] | right; exists q; split; [right; exact H | reflexivity]].
    + destruct H as [<-|H]; [right; exists (s', cells); split; [left; reflexivity | reflexivity]|].
      destruct (IH H) as [G|(q' & G1 & G2)]; [left; exact G | right; exists q'; split; [right; exact G1 | exact G2]].
Qed.

Lemma emit_text_spec e tstart : forall ts d p sg items,
  pool_is p items -> (forall q, In q sg -> In (fst q) items) ->
  let items' := dedup_from items (map snd ts) in
  emit_text e tstart ts d p (by_offset items sg) =
    (d' <- poke_text e tstart items' d ts ;;
     Ok (d', fst (fold_left (fun pp s => (fst (add_text (fst pp) s), tt)) (map snd ts) (p, tt)), by_offset items' (str_groups_from sg ts)))
  /\ pool_is (fst (fold_left (fun pp s => (fst (add_text (fst pp) s), tt)) (map snd ts) (p, tt))) items'
  /\ (forall q, In q (str_groups_from sg ts) -> In (fst q) items').
Proof.
  induction ts as [|[cell s] r IH]; intros d p sg items Hp Hsg; cbn [emit_text map snd fold_left poke_text dedup_from str_groups_from fst].
  - cbn [bind fst]. split; [reflexivity|]. split; [exact Hp | exact Hsg].
  - destruct (add_text_spec p items s Hp) as [Hp' Hoff]. destruct (add_text p s) as [p' off] eqn:Ea. cbn [fst snd] in Hp', Hoff.
    set (items1 := dedup_step items s) in *.
    assert (Hs1 : In s items1) by apply dedup_step_has.
    assert (Hsg1 : forall q, In q (sgroup_add s cell sg) -> In (fst q) items1).
    { intros q Hq. destruct (sgroup_add_keys s cell sg q Hq) as [->|(q' & G1 & G2)]; [exact Hs1|].
      rewrite <- G2. apply dedup_step_incl. apply Hsg. exact G1. }
    assert (Hg : group_add off cell (by_offset items sg) = by_offset items1 (sgroup_add s cell sg)).
    { rewrite Hoff. rewrite <- (group_add_by_offset items1 s cell sg Hs1).
      - f_equal. unfold items1. destruct (dedup_step_prefix items s) as (t & Et). rewrite Et.
        unfold by_offset. apply map_ext_in. intros q Hq. rewrite offset_of_app_in by (apply Hsg; exact Hq). reflexivity.
      - intros q Hq. apply dedup_step_incl. apply Hsg. exact Hq. }
    destruct (IH d p' (sgroup_add s cell sg) items1 Hp' Hsg1) as (H1 & H2 & H3). cbn zeta in H1, H2, H3.
    assert (Hoff' : off = offset_of s (dedup_from items1 (map snd r))) by (rewrite Hoff; symmetry; apply offset_stable; exact Hs1).
    split; [|split].
    + fold (dedup_from items1 (map snd r)). rewrite <- Hoff'.
      destruct (poke_u32 e d cell (tstart + off)) as [d1|er|k]; cbn [bind]; try reflexivity.
      rewrite Hg. destruct (IH d1 p' (sgroup_add s cell sg) items1 Hp' Hsg1) as (H1' & _ & _). cbn zeta in H1'. exact H1'.
    + exact H2.
    + exact H3.
Qed.

(* ---- the canonical image ---- *)
(* [ptrs], [text] sorted by cell, [labels] sorted by address: the content, listed without hash maps *)
Definition canonical (kf : name_key) (e : endian) (d : bytes) (ptrs : list (N * N)) (text : list (N * bytes)) (labels : list (N * list bytes))
  : outcome bytes :=
  (* labels ordered by address (little-endian) or by the keys of their names, then address (big-endian) *)
  let labels' := match e with LE => labels | BE => isort (label_leb_be_k kf) labels end in
  (* text section: label names in emission order, then strings in first-use order; every distinct string once *)
  let items := dedup (concat (map snd labels') ++ map snd text) in
  let ltab := label_entries items labels' in
  (* pointer table: internal pointers ascending, then string cells grouped by string in first-use order, each group ascending *)
  let ptab := map fst ptrs ++ concat (map (fun q => isort N.leb (snd q)) (str_groups text)) in
  let tstart := lenN d + 4 * lenL ptab + 4 * lenL ltab in
  d1 <- poke_all e d ptrs ;;
  d2 <- poke_text e tstart items d1 text ;;
  let fsz := 32 + lenN d + 4 * lenL ptab + 4 * lenL ltab + lenN (tsection items) in
  (* the format stores every size in 32 bits: no canonical image exists above u32::MAX *)
  _ <- guard (fsz <=? 4294967295) EOther ;;
  Ok (enc e 4 fsz ++ enc e 4 (lenN d) ++ enc e 4 (lenL ptab) ++ enc e 4 (lenL ltab / 2) ++ zeros 16
      ++ d2 ++ u32s e ptab ++ u32s e ltab ++ tsection items).

Definition canonical_size (kf : name_key) (e : endian) (d : bytes) (ptrs : list (N * N)) (text : list (N * bytes)) (labels : list (N * list bytes)) : N :=
  let labels' := match e with LE => labels | BE => isort (label_leb_be_k kf) labels end in
  let items := dedup (concat (map snd labels') ++ map snd text) in
  32 + lenN d + 4 * (lenL ptrs + lenL text) + 4 * lenL (label_entries items labels') + lenN (tsection items).

Lemma sgroup_add_total s cell sg :
  length (concat (map snd (sgroup_add s cell sg))) = S (length (concat (map snd sg))).
Proof.
  induction sg as [|[s' cells] r IH]; cbn [sgroup_add map snd concat length app]; [reflexivity|].
  destruct (bytes_eqb s s'); cbn [map snd concat]; rewrite !app_length; [cbn [length]; lia | rewrite IH; lia].
Qed.
Lemma str_groups_total : forall ts sg,
  length (concat (map snd (str_groups_from sg ts))) = (length (concat (map snd sg)) + length ts)%nat.
Proof.
  induction ts as [|p r IH]; intros sg; cbn [str_groups_from fold_left length]; [lia|].
  unfold str_groups_from in IH. rewrite IH, sgroup_add_total. lia.
Qed.

Lemma isort_N_length l : length (isort N.leb l) = length l.
Proof. apply Permutation_length. apply Permutation_sym. apply isort_perm. Qed.

Lemma concat_map_length {A} (f : list N -> list N) (l : list (A * list N)) :
  (forall x, length (f x) = length x) ->
  length (concat (map (fun q => f (snd q)) l)) = length (concat (map snd l)).
Proof.
  intros Hf. induction l as [|q r IH]; cbn [map concat]; [reflexivity|]. rewrite !app_length, IH, Hf. reflexivity.
Qed.

Lemma map_trunc_small l : Forall (fun x => x < U32) l -> map (trunc_w 32) l = l.
Proof. induction 1 as [|x r Hx Hr IH]; cbn [map]; [reflexivity|]. rewrite trunc_small by exact Hx. rewrite IH. reflexivity. Qed.

Lemma sgroup_add_cells s cell sg x :
  In x (concat (map snd (sgroup_add s cell sg))) -> x = cell \/ In x (concat (map snd sg)).
Proof.
  induction sg as [|[s' cells] r IH]; cbn [sgroup_add map snd concat].
  - rewrite app_nil_r. intros [<-|[]]. left; reflexivity.
  - destruct (bytes_eqb s s'); cbn [map snd concat]; rewrite !in_app_iff.
    + cbn [In]. intros [[H|[H|[]]]|H]; auto.
    + intros [H|H]; [auto|]. destruct (IH H); auto.
Qed.
Lemma str_groups_cells : forall ts sg x,
  In x (concat (map snd (str_groups_from sg ts))) -> In x (map fst ts) \/ In x (concat (map snd sg)).
Proof.
  induction ts as [|p r IH]; intros sg x; cbn [str_groups_from fold_left map fst]; [auto|].
  intros H. apply IH in H. destruct H as [H|H]; [left; right; exact H|].
  apply sgroup_add_cells in H. destruct H as [->|H]; [left; left; reflexivity | right; exact H].
Qed.

Theorem serialize_is_canonical kf m a :
  keys_separate kf (a_labels a) ->
  a_cstrs a = [] ->
  Forall (fun p => fst p < U32) (a_text a) ->
  serialize_k kf m a =
    canonical kf (a_endian a) (a_data a) (isort key_leb (a_ptrs a)) (isort key_leb (a_text a)) (isort key_leb (a_labels a)).
Proof.
  intros Hsep Hcs Hcells. unfold serialize_k, canonical. rewrite Hcs.
  change (isort (fun x y : bytes * list N => bytes_leb (fst x) (fst y)) []) with (@nil (bytes * list N)).
  cbn [cstr_pool]. rewrite app_nil_r.
  change (pad_to 4 (p_raw pool_empty)) with (@nil N). change (lenN []) with 0.
  change (fun x y : N * N => fst x <=? fst y) with (@key_leb N).
  change (fun x y : N * bytes => fst x <=? fst y) with (@key_leb bytes).
  set (ptrs := isort key_leb (a_ptrs a)). set (text := isort key_leb (a_text a)).
  set (e := a_endian a).
  set (labels' := isort (label_leb kf e) (a_labels a)).
  assert (Hlab : labels' = match e with LE => isort key_leb (a_labels a) | BE => isort (label_leb_be_k kf) (isort key_leb (a_labels a)) end).
  { unfold labels', label_leb. destruct e; [reflexivity|].
    apply isort_labels_be_perm_invariant_sep; [exact Hsep | apply isort_perm]. }
  rewrite <- Hlab. clear Hlab.
  destruct (poke_all e (a_data a) ptrs) as [d1|er|k]; cbn [bind]; try reflexivity.
  (* labels *)
  destruct (emit_labels_spec labels' pool_empty [] [] pool_is_empty) as [Hp1 Hl1]. cbn zeta in Hp1, Hl1.
  destruct (emit_labels labels' pool_empty []) as [tpool1 raw_labels]. cbn [fst snd app] in Hp1, Hl1.
  set (items1 := dedup_from [] (concat (map snd labels'))) in *.
  (* strings *)
  set (tstart := size a + 0 + (N.of_nat (length (map fst ptrs)) + N.of_nat (length (a_text a)) + N.of_nat (length raw_labels)) * 4).
  destruct (emit_text_spec e tstart text d1 tpool1 [] items1 Hp1 ltac:(intros q [])) as (Ht1 & Hp2 & _). cbn zeta in Ht1, Hp2.
  change (by_offset items1 []) with (@nil (N * list N)) in Ht1. rewrite Ht1. clear Ht1.
  set (items := dedup_from items1 (map snd text)) in *.
  assert (Hitems : items = dedup (concat (map snd labels') ++ map snd text)).
  { unfold items, items1, dedup. rewrite dedup_from_app. reflexivity. }
  rewrite <- Hitems.
  assert (Hrl : raw_labels = label_entries items labels').
  { rewrite Hl1. unfold label_entries. f_equal. apply map_ext_in. intros q Hq. symmetry.
    apply bucket_entries_stable. intros l Hl. apply dedup_from_has. left.
    apply in_concat. exists (snd q). split; [apply in_map; exact Hq | exact Hl]. }
  (* the pointer table *)
  set (groups := str_groups_from [] text).
  assert (Hgcells : Forall (fun x => x < U32) (concat (map snd groups))).
  { rewrite Forall_forall. intros x Hx. apply str_groups_cells in Hx. destruct Hx as [Hx|[]].
    apply in_map_iff in Hx. destruct Hx as (q & <- & Hq).
    apply (Permutation_in _ (Permutation_sym (isort_perm key_leb (a_text a)))) in Hq.
    rewrite Forall_forall in Hcells. apply Hcells. exact Hq. }
  assert (Hptab : concat (map (fun g : N * list N => isort N.leb (map (trunc_w 32) (snd g))) (by_offset items groups)) =
                  concat (map (fun q : bytes * list N => isort N.leb (snd q)) groups)).
  { unfold by_offset. rewrite map_map. cbn [snd]. f_equal. apply map_ext_in. intros q Hq. f_equal.
    apply map_trunc_small. rewrite Forall_forall in *. intros x Hx. apply Hgcells.
    apply in_concat. exists (snd q). split; [apply in_map; exact Hq | exact Hx]. }
  assert (Hnp : length (concat (map (fun q : bytes * list N => isort N.leb (snd q)) groups)) = length (a_text a)).
  { rewrite (concat_map_length (isort N.leb) groups isort_N_length). unfold groups. rewrite str_groups_total. cbn [map concat length].
    unfold text. rewrite <- (Permutation_length (isort_perm key_leb (a_text a))). reflexivity. }
  set (ptab := map fst ptrs ++ concat (map (fun q : bytes * list N => isort N.leb (snd q)) groups)).
  assert (Hlp : lenL ptab = N.of_nat (length (map fst ptrs)) + N.of_nat (length (a_text a))).
  { unfold ptab, lenL. rewrite app_length, Hnp. lia. }
  assert (Hts : tstart = lenN (a_data a) + 4 * lenL ptab + 4 * lenL (label_entries items labels')).
  { unfold tstart, size. rewrite Hlp, Hrl. unfold lenL. lia. }
  unfold str_groups. fold groups. fold ptab. rewrite <- Hts.
  destruct (poke_text e tstart items d1 text) as [d2|er|k]; cbn [bind]; try reflexivity.
  rewrite Hptab. fold ptab.
  destruct Hp2 as (Hraw & Hlen & _ & _). rewrite Hraw, Hlen, Hrl.
  (* the guard: both sides compare the same number with u32::MAX; behind it every number written fits in 32 bits *)
  set (L := label_entries items labels') in *. set (T := tsection items) in *.
  unfold size. unfold lenL in *.
  replace (lenN (a_data a) + 0 + N.of_nat (length ptab) * 4 + N.of_nat (length L) * 4 + lenN T + 32)
    with (32 + lenN (a_data a) + 4 * N.of_nat (length ptab) + 4 * N.of_nat (length L) + lenN T) by lia.
  destruct (N.leb_spec (32 + lenN (a_data a) + 4 * N.of_nat (length ptab) + 4 * N.of_nat (length L) + lenN T) 4294967295) as [Hfit'|Hbig];
    cbn [guard bind]; [|reflexivity].
  rewrite (trunc_small (lenN (a_data a))) by (unfold U32; lia). change (trunc_w 32 0) with 0.
  rewrite add_w_ok by (unfold maxw; lia). cbn [bind].
  rewrite !trunc_small.
  - cbn [app]. f_equal. rewrite N.add_0_r. reflexivity.
  - assert (N.of_nat (length L) / 2 <= N.of_nat (length L)) by (apply N.div_le_upper_bound; lia). unfold U32. lia.
  - unfold U32. lia.
  - unfold U32. lia.
Qed.

(* a canonical image exists only below 4 GiB; in particular its data region is shorter than 2^32 *)
Lemma canonical_ok_data_small kf e d ptrs text labels f : canonical kf e d ptrs text labels = Ok f -> lenN d < U32.
Proof.
  unfold canonical. cbv zeta. intros H.
  apply bind_Ok_inv in H. destruct H as (d1 & _ & H). apply bind_Ok_inv in H. destruct H as (d2 & _ & H).
  apply bind_Ok_inv in H. destruct H as ([] & G & _). unfold guard in G.
  match type of G with (if ?c then _ else _) = _ => destruct c eqn:Ec end; [|discriminate].
  apply N.leb_le in Ec. unfold U32. lia.
Qed.

(* the two usual ways to meet [keys_separate]: a key function injective on the label names of the archive, or
   distinct label addresses (every archive the API builds) *)
Corollary serialize_is_canonical_inj kf m a :
  key_injective_on kf (label_names_of (a_labels a)) ->
  a_cstrs a = [] ->
  Forall (fun p => fst p < U32) (a_text a) ->
  serialize_k kf m a =
    canonical kf (a_endian a) (a_data a) (isort key_leb (a_ptrs a)) (isort key_leb (a_text a)) (isort key_leb (a_labels a)).
Proof. intros H. exact (serialize_is_canonical kf m a (keys_separate_inj kf _ H)). Qed.
Corollary serialize_is_canonical_maps kf m a :
  NoDup (map fst (a_labels a)) ->
  a_cstrs a = [] ->
  Forall (fun p => fst p < U32) (a_text a) ->
  serialize_k kf m a =
    canonical kf (a_endian a) (a_data a) (isort key_leb (a_ptrs a)) (isort key_leb (a_text a)) (isort key_leb (a_labels a)).
Proof. intros H. exact (serialize_is_canonical kf m a (keys_separate_nodup kf _ H)). Qed.
