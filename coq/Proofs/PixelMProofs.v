(* The moded models of Model/PixelM.v return, in BOTH arithmetic modes, Ok of their Model/Pixel.v counterparts on u16
   dimensions and byte payloads: none of the machine operations of texture_decoder.rs, pixel_encodings.rs,
   texture_utils.rs and the CI8 path of tpl.rs overflows its Rust type there. *)
From Coq Require Import List NArith ZArith Arith Lia Bool ZifyBool ZifyNat ZifyN.
From Mila Require Import Lib.Bytes Lib.Machine Model.Pixel Model.PixelM Proofs.TexFinite Proofs.Scatter.
Import ListNotations.
Local Open Scope N_scope.
Ltac Zify.zify_post_hook ::= Z.div_mod_to_equations.

(* ---------------- the primitive operations ---------------- *)
Lemma shr_m_ok w m v k : k < w -> shr_m w m v k = Ok (shr v k).
Proof. intros H. unfold shr_m, shr. destruct (N.ltb_spec k w); [|lia]. rewrite N.shiftr_div_pow2. reflexivity. Qed.
Lemma shl_m_ok w m v k : k < w -> v * 2 ^ k < 2 ^ w -> shl_m w m v k = Ok (shl v k).
Proof.
  intros H B. unfold shl_m, shl, maxw. destruct (N.ltb_spec k w); [|lia]. rewrite N.shiftl_mul_pow2, N.mod_small by exact B. reflexivity.
Qed.
Lemma u8_as_u8 v : u8 v = as_u8 v. Proof. reflexivity. Qed.
Lemma u8_small v : v < 256 -> u8 v = v.
Proof. intros H. unfold u8, trunc_w, maxw, W8. change (2 ^ 8) with 256. apply N.mod_small, H. Qed.
Lemma band_ones_lt x n : band x (N.ones n) < 2 ^ n.
Proof. unfold band. rewrite N.land_ones. apply N.mod_lt, N.pow_nonzero. lia. Qed.
Lemma index_m_ok {A} (t : list A) i d : (N.to_nat i < length t)%nat -> index_m t i = Ok (nth (N.to_nat i) t d).
Proof.
  intros H. unfold index_m. destruct (nth_error t (N.to_nat i)) as [x|] eqn:E.
  - rewrite (nth_error_nth _ _ d E). reflexivity.
  - apply nth_error_None in E. lia.
Qed.
Lemma div_m_ok a b : b <> 0 -> div_m a b = Ok (a / b).
Proof. intros H. unfold div_m. destruct (N.eqb_spec b 0); [contradiction|reflexivity]. Qed.
Lemma mod_m_ok a b : b <> 0 -> mod_m a b = Ok (a mod b).
Proof. intros H. unfold mod_m. destruct (N.eqb_spec b 0); [contradiction|reflexivity]. Qed.

(* ---------------- decode_color ---------------- *)
Definition color_eqb (a b : color) : bool := if list_eq_dec N.eq_dec a b then true else false.
Definition ocolor_is (o : outcome color) (c : color) : bool := match o with Ok c' => color_eqb c' c | _ => false end.
Lemma ocolor_is_spec o c : ocolor_is o c = true -> o = Ok c.
Proof. destruct o as [c'| |]; cbn; try discriminate. unfold color_eqb. destruct (list_eq_dec N.eq_dec c' c); [congruence|discriminate]. Qed.
Definition both_modes (f : mode -> outcome color) (c : color) : bool := ocolor_is (f Checked) c && ocolor_is (f Wrapping) c.
Lemma both_modes_spec f c : both_modes f c = true -> forall m, f m = Ok c.
Proof. unfold both_modes. intros H m. apply andb_prop in H. destruct H as (A & B). destruct m; apply ocolor_is_spec; assumption. Qed.

(* every value the tile walk can hand to decode_color: u32 / 24 bits / u16 / u8 / the constant 0 *)
Definition elem_bound (fmt : N) : N :=
  match fmt with 0 => 2 ^ 32 | 1 => 2 ^ 24 | 2 | 3 | 4 | 5 => 65536 | 6 | 7 | 8 | 9 => 256 | _ => 1 end.

Lemma u8_band_ff x : u8 (band x 0xFF) = band x 0xFF.
Proof. apply u8_small. change 0xFF with (N.ones 8). apply (band_ones_lt x 8). Qed.

Lemma decode_color_m_rgba8 m v : decode_color_m m v 0 = Ok (decode_color v 0).
Proof.
  unfold decode_color_m, fld32. rewrite !shr_m_ok by (unfold W32; lia). cbn [bind]. rewrite !u8_band_ff. reflexivity.
Qed.
Lemma decode_color_m_rgb8 m v : decode_color_m m v 1 = Ok (decode_color v 1).
Proof.
  unfold decode_color_m, fld32. rewrite !shr_m_ok by (unfold W32; lia). cbn [bind]. rewrite !u8_band_ff. reflexivity.
Qed.

(* the 16- and 8-bit formats, by argument (no value sweep): shifts by constants below 32, table indices below 32 by the
   mask, products and left shifts of masked fields far below 2^32 *)
Lemma c5_index x : index_m CONVERT_5_TO_8 (band x 0x1F) = Ok (c5 (band x 0x1F)).
Proof.
  unfold c5, tbl. apply index_m_ok. change 0x1F with (N.ones 5). pose proof (band_ones_lt x 5) as B. change (2 ^ 5) with 32 in B.
  change (length CONVERT_5_TO_8) with 32%nat. lia.
Qed.
Ltac s32 := unfold W32; lia.
Lemma decode_color_m_5551 m v : decode_color_m m v 2 = Ok (decode_color v 2).
Proof.
  unfold decode_color_m, fld32. do 3 (rewrite shr_m_ok by s32; cbn [bind]). rewrite !c5_index. cbn [bind]. reflexivity.
Qed.
Lemma decode_color_m_565 m v : decode_color_m m v 3 = Ok (decode_color v 3).
Proof.
  unfold decode_color_m, fld32. do 2 (rewrite shr_m_ok by s32; cbn [bind]). rewrite c5_index. cbn [bind].
  rewrite mul_w_ok.
  2:{ change 0x3F with (N.ones 6). pose proof (band_ones_lt (shr v 5) 6) as B. change (2 ^ 6) with 64 in B.
      unfold maxw, W32. change (2 ^ 32) with 4294967296. lia. }
  cbn [bind]. rewrite c5_index. cbn [bind]. reflexivity.
Qed.
Lemma shl4_nibble m x : shl_m W32 m (band x 0xF) 4 = Ok (shl (band x 0xF) 4).
Proof.
  apply shl_m_ok; [s32|]. change 0xF with (N.ones 4). pose proof (band_ones_lt x 4) as B. change (2 ^ 4) with 16 in *.
  unfold W32. change (2 ^ 32) with 4294967296. lia.
Qed.
Lemma decode_color_m_4444 m v : decode_color_m m v 4 = Ok (decode_color v 4).
Proof.
  unfold decode_color_m, fld32. do 3 (rewrite shr_m_ok by s32; cbn [bind]). rewrite !shl4_nibble. cbn [bind]. reflexivity.
Qed.
Lemma decode_color_m_la8 m v : decode_color_m m v 5 = Ok (decode_color v 5).
Proof. unfold decode_color_m, fld32. rewrite shr_m_ok by s32. cbn [bind]. reflexivity. Qed.
Lemma decode_color_m_hilo8 m v : decode_color_m m v 6 = Ok (decode_color v 6).
Proof. unfold decode_color_m. rewrite shr_m_ok by s32. cbn [bind]. reflexivity. Qed.
Lemma decode_color_m_la4 m v : decode_color_m m v 9 = Ok (decode_color v 9).
Proof. unfold decode_color_m. rewrite shr_m_ok by s32. cbn [bind]. reflexivity. Qed.

Theorem decode_color_m_ok : forall m fmt v, v < elem_bound fmt -> decode_color_m m v fmt = Ok (decode_color v fmt).
Proof.
  intros m fmt v Hv.
  assert (C : fmt = 0 \/ fmt = 1 \/ (fmt = 2 \/ fmt = 3 \/ fmt = 4 \/ fmt = 5) \/ (fmt = 6 \/ fmt = 7 \/ fmt = 8 \/ fmt = 9)
              \/ fmt = 10 \/ fmt = 11 \/ 12 <= fmt) by lia.
  destruct C as [->|[->|[C|[C|[->|[->|C]]]]]].
  - apply decode_color_m_rgba8.
  - apply decode_color_m_rgb8.
  - destruct C as [->|[->|[->| ->]]]; [apply decode_color_m_5551|apply decode_color_m_565|apply decode_color_m_4444|apply decode_color_m_la8].
  - destruct C as [->|[->|[->| ->]]]; [apply decode_color_m_hilo8|reflexivity|reflexivity|apply decode_color_m_la4].
  - cbn [elem_bound] in Hv. assert (v = 0) by lia. subst. destruct m; reflexivity.
  - cbn [elem_bound] in Hv. assert (v = 0) by lia. subst. destruct m; reflexivity.
  - destruct fmt as [|p]; [lia|]. do 4 (destruct p as [p|p|]; try lia; try reflexivity).
Qed.

(* what read_elem hands to decode_color *)
Lemma wfb_cons_inv a r : wfb (a :: r) -> a < 256 /\ wfb r.
Proof. intros H. inversion H; subst. auto. Qed.

Lemma read_elem_bound fmt rest v rest' : wfb rest -> read_elem fmt rest = Some (v, rest') -> v < elem_bound fmt /\ wfb rest'.
Proof.
  intros W H.
  assert (C : fmt = 0 \/ fmt = 1 \/ (fmt = 2 \/ fmt = 3 \/ fmt = 4 \/ fmt = 5) \/ (fmt = 6 \/ fmt = 7 \/ fmt = 8 \/ fmt = 9) \/ 10 <= fmt) by lia.
  destruct C as [->|[->|[C|[C|C]]]].
  - cbn [read_elem] in H. destruct rest as [|a [|b [|c [|d r]]]]; try discriminate. inversion H; subst. clear H.
    apply wfb_cons_inv in W. destruct W as (Ha & W). apply wfb_cons_inv in W. destruct W as (Hb & W).
    apply wfb_cons_inv in W. destruct W as (Hc & W). apply wfb_cons_inv in W. destruct W as (Hd & W).
    split; [|exact W]. assert (W4 : wfb [a; b; c; d]) by (repeat constructor; assumption).
    exact (dec_le_bound _ W4).
  - cbn [read_elem] in H. destruct rest as [|a [|b [|c [|d r]]]]; try discriminate. inversion H; subst. clear H.
    do 3 (apply wfb_cons_inv in W; destruct W as (_ & W)).
    split; [|exact W]. cbn [elem_bound]. change 0xFFFFFF with (N.ones 24). apply (band_ones_lt _ 24).
  - assert (E : read_elem fmt rest = match rest with a :: b :: r => Some (dec_le [a; b], r) | _ => None end)
      by (destruct C as [->|[->|[->| ->]]]; reflexivity).
    rewrite E in H. destruct rest as [|a [|b r]]; try discriminate. inversion H; subst. clear H E.
    apply wfb_cons_inv in W. destruct W as (Ha & W). apply wfb_cons_inv in W. destruct W as (Hb & W).
    split; [|exact W]. assert (B : elem_bound fmt = 65536) by (destruct C as [->|[->|[->| ->]]]; reflexivity). rewrite B. assert (W2 : wfb [a; b]) by (repeat constructor; assumption). exact (dec_le_bound _ W2).
  - assert (E : read_elem fmt rest = match rest with a :: r => Some (a, r) | _ => None end)
      by (destruct C as [->|[->|[->| ->]]]; reflexivity).
    rewrite E in H. destruct rest as [|a r]; try discriminate. inversion H; subst. clear H E.
    apply wfb_cons_inv in W. destruct W as (Ha & W).
    split; [|exact W]. assert (B : elem_bound fmt = 256) by (destruct C as [->|[->|[->| ->]]]; reflexivity). rewrite B. exact Ha.
  - assert (E : read_elem fmt rest = Some (0, rest)).
    { destruct fmt as [|p]; [lia|]. do 4 (destruct p as [p|p|]; try lia; try reflexivity). }
    rewrite E in H. inversion H; subst. split; [|exact W].
    destruct fmt as [|p]; [lia|]. do 4 (destruct p as [p|p|]; try lia; try (cbn [elem_bound]; lia)).
Qed.

(* ---------------- the tile walk ---------------- *)
Definition oxy_is (o : outcome (N * N)) (xy : N * N) : bool :=
  match o with Ok (a, b) => (a =? fst xy) && (b =? snd xy) && (a <? 8) && (b <? 8) | _ => false end.
Lemma sweep_tile_xy : forallb (fun p => oxy_is (tile_xy_m Checked p) (tile_xy p) && oxy_is (tile_xy_m Wrapping p) (tile_xy p)) (seq 0 64) = true.
Proof. vm_compute. reflexivity. Qed.
Lemma tile_xy_m_ok m p : (p < 64)%nat -> tile_xy_m m p = Ok (tile_xy p) /\ fst (tile_xy p) < 8 /\ snd (tile_xy p) < 8.
Proof.
  intros Hp. pose proof sweep_tile_xy as S. rewrite forallb_forall in S. specialize (S p ltac:(apply in_seq; lia)).
  apply andb_prop in S. destruct S as (A & B).
  assert (G : forall o, oxy_is o (tile_xy p) = true -> o = Ok (tile_xy p) /\ fst (tile_xy p) < 8 /\ snd (tile_xy p) < 8).
  { intros o H. destruct o as [[a b]| |]; cbn [oxy_is] in H; try discriminate. destruct (tile_xy p) as [x y]. cbn [fst snd] in *.
    rewrite !andb_true_iff in H. destruct H as (((E1 & E2) & L1) & L2). apply N.eqb_eq in E1, E2. subst. split; [reflexivity|lia]. }
  destruct m; apply G; assumption.
Qed.

Lemma tile_out_index_m_ok m w h ty tx p : 4 * (w * h) < 2 ^ 64 ->
  N.of_nat tx < w / 8 -> N.of_nat ty < h / 8 -> (p < 64)%nat ->
  tile_out_index_m m w ty tx p = Ok (4 * tile_dst w ty tx p) /\ tile_dst w ty tx p < w * h.
Proof.
  intros Hsz Htx Hty Hp. unfold tile_out_index_m, tile_dst.
  destruct (tile_xy_m_ok m p Hp) as (E & Hx & Hy). rewrite E. cbn [bind]. destruct (tile_xy p) as [x y]. cbn [fst snd] in Hx, Hy.
  assert (A : N.of_nat tx * 8 + x < w) by lia. assert (B : N.of_nat ty * 8 + y < h) by lia.
  assert (D : N.of_nat tx * 8 + x + (N.of_nat ty * 8 + y) * w < w * h) by nia.
  change (2 ^ 64) with 18446744073709551616 in Hsz.
  rewrite mul_w_ok by (unfold maxw, W64; change (2 ^ 64) with 18446744073709551616; nia). cbn [bind].
  rewrite add_w_ok by (unfold maxw, W64; change (2 ^ 64) with 18446744073709551616; nia). cbn [bind].
  rewrite mul_w_ok by (unfold maxw, W64; change (2 ^ 64) with 18446744073709551616; nia). cbn [bind].
  rewrite add_w_ok by (unfold maxw, W64; change (2 ^ 64) with 18446744073709551616; nia). cbn [bind].
  rewrite mul_w_ok by (unfold maxw, W64; change (2 ^ 64) with 18446744073709551616; nia). cbn [bind].
  rewrite add_w_ok by (unfold maxw, W64; change (2 ^ 64) with 18446744073709551616; nia). cbn [bind].
  rewrite mul_w_ok by (unfold maxw, W64; change (2 ^ 64) with 18446744073709551616; nia).
  split; [f_equal; lia|exact D].
Qed.

Definition it_dst (w : N) (it : nat * nat * nat) : N := let '(ty, tx, p) := it in tile_dst w ty tx p.
Definition it_ok (w h : N) (it : nat * nat * nat) : Prop :=
  let '(ty, tx, p) := it in N.of_nat tx < w / 8 /\ N.of_nat ty < h / 8 /\ (p < 64)%nat.

Lemma rgba_loop_m_ok m fmt w h : 4 * (w * h) < 2 ^ 64 -> forall its rest bmp,
  wfb rest -> Forall (it_ok w h) its ->
  rgba_loop_m m fmt (w * h) w its rest bmp = rgba_loop fmt (w * h) (map (it_dst w) its) rest bmp.
Proof.
  intros Hsz. induction its as [|[[ty tx] p] r IH]; intros rest bmp W HF; [reflexivity|].
  inversion HF as [|? ? Hit HF']; subst. unfold it_ok in Hit. destruct Hit as (Htx & Hty & Hp).
  cbn [rgba_loop_m map rgba_loop it_dst].
  destruct (tile_out_index_m_ok m w h ty tx p Hsz Htx Hty Hp) as (E & D). rewrite E. cbn [bind].
  destruct (read_elem fmt rest) as [[v rest']|] eqn:ER; [|reflexivity].
  destruct (read_elem_bound fmt rest v rest' W ER) as (Bv & W').
  rewrite (decode_color_m_ok m fmt v Bv). cbn [bind].
  set (d := tile_dst w ty tx p) in *.
  rewrite add_w_ok by (unfold maxw, W64; lia). cbn [bind].
  destruct (N.leb_spec (4 * d + 4) (4 * (w * h))) as [_|?]; [|lia].
  destruct (N.ltb_spec d (w * h)) as [_|?]; [|lia].
  replace (4 * d / 4) with d by lia. apply IH; assumption.
Qed.

Lemma map_flat_map {A B C} (f : B -> C) (g : A -> list B) l : map f (flat_map g l) = flat_map (fun a => map f (g a)) l.
Proof. induction l as [|x r IH]; cbn [flat_map map]; [reflexivity|]. rewrite map_app, IH. reflexivity. Qed.

Lemma tile_dsts_iters tw th w : tile_dsts tw th w = map (it_dst w) (tile_iters tw th).
Proof.
  unfold tile_dsts, tile_iters. rewrite map_flat_map. apply flat_map_ext. intros ty.
  rewrite map_flat_map. apply flat_map_ext. intros tx. rewrite map_map. reflexivity.
Qed.

Lemma tile_iters_ok w h : Forall (it_ok w h) (tile_iters (N.to_nat (w / 8)) (N.to_nat (h / 8))).
Proof.
  apply Forall_forall. intros [[ty tx] p] Hin. unfold tile_iters in Hin.
  apply in_flat_map in Hin. destruct Hin as (ty' & Hty & Hin). apply in_flat_map in Hin. destruct Hin as (tx' & Htx & Hin).
  apply in_map_iff in Hin. destruct Hin as (p' & E & Hp). inversion E; subst. apply in_seq in Hty, Htx, Hp.
  unfold it_ok. lia.
Qed.

(* the whole raw decoder, every format, every payload of bytes *)
Theorem decode_rgba_pixels_m_ok : forall m data w h fmt, 4 * (w * h) < 2 ^ 64 -> wfb data ->
  decode_rgba_pixels_m m data w h fmt = decode_rgba_pixels m data w h fmt.
Proof.
  intros m data w h fmt Hsz W. unfold decode_rgba_pixels_m, decode_rgba_pixels.
  rewrite !mul_w_ok by (unfold maxw, W64; lia). cbn [bind].
  rewrite !mul_w_ok by (unfold maxw, W64; lia). cbn [bind].
  destruct (ALLOC_LIMIT <=? w * h); [reflexivity|].
  rewrite !div_m_ok by lia. cbn [bind].
  destruct (need fmt (h / 8 * (w / 8) * 64) <=? lenN data); [|reflexivity].
  rewrite tile_dsts_iters. apply rgba_loop_m_ok; [exact Hsz|exact W|apply tile_iters_ok].
Qed.

(* ---------------- RGB5A3 ---------------- *)
(* every u16 product of the decoder fits: the factors are masked fields (at most 8 bits) times at most 0x20 *)
Lemma mul16_ok m c x n : n <= 8 -> c <= 0x20 -> mul_w W16 m c (band x (N.ones n)) = Ok (c * band x (N.ones n)).
Proof.
  intros Hn Hc. apply mul_w_ok. pose proof (band_ones_lt x n) as B. assert (2 ^ n <= 2 ^ 8) by (apply N.pow_le_mono_r; lia).
  change (2 ^ 8) with 256 in *. unfold maxw, W16. change (2 ^ 16) with 65536.
  assert (c * band x (N.ones n) <= 0x20 * 255) by (apply N.mul_le_mono; lia). lia.
Qed.
Ltac s16 := unfold W16; lia.
Theorem decode_rgb5a3_pixel_m_all : forall m v, decode_rgb5a3_pixel_m m v = Ok (decode_rgb5a3_pixel v).
Proof.
  intros m v. unfold decode_rgb5a3_pixel_m, decode_rgb5a3_pixel, fld16. destruct (band v 0x8000 =? 0).
  - change 0x7 with (N.ones 3). change 0xF with (N.ones 4).
    rewrite shr_m_ok by s16. cbn [bind]. rewrite (mul16_ok m 0x20 _ 3) by lia. cbn [bind].
    rewrite shr_m_ok by s16. cbn [bind]. rewrite (mul16_ok m 0x11 _ 4) by lia. cbn [bind].
    rewrite shr_m_ok by s16. cbn [bind]. rewrite (mul16_ok m 0x11 _ 4) by lia. cbn [bind].
    rewrite (mul16_ok m 0x11 _ 4) by lia. cbn [bind]. reflexivity.
  - change 0xFF with (N.ones 8). change 0x1F with (N.ones 5).
    rewrite shr_m_ok by s16. cbn [bind]. rewrite (mul16_ok m 0x8 _ 8) by lia. cbn [bind].
    rewrite shr_m_ok by s16. cbn [bind]. rewrite (mul16_ok m 0x8 _ 5) by lia. cbn [bind].
    rewrite (mul16_ok m 0x8 _ 5) by lia. cbn [bind]. reflexivity.
Qed.
Theorem decode_rgb5a3_pixel_m_ok : forall m v, v < 65536 -> decode_rgb5a3_pixel_m m v = Ok (decode_rgb5a3_pixel v).
Proof. intros m v _. apply decode_rgb5a3_pixel_m_all. Qed.

Lemma rgb5a3_loop_m_ok m : forall data pos, wfb data -> pos + lenN data < 2 ^ 64 -> rgb5a3_loop_m m pos data = Ok (rgb5a3_pixels data).
Proof.
  fix IH 1. intros data pos W B. destruct data as [|hi [|lo r]]; try reflexivity.
  apply wfb_cons_inv in W. destruct W as (Hhi & W). apply wfb_cons_inv in W. destruct W as (Hlo & W).
  cbn [rgb5a3_loop_m rgb5a3_pixels]. unfold lenN in B. cbn [length] in B.
  rewrite add_w_ok by (unfold maxw, W64; lia). cbn [bind].
  rewrite decode_rgb5a3_pixel_m_ok by lia. cbn [bind].
  rewrite IH; [reflexivity|exact W|unfold lenN; lia].
Qed.
Theorem rgb5a3_decode_m_ok : forall m data, wfb data -> lenN data < 2 ^ 64 -> rgb5a3_decode_m m data = rgb5a3_decode data.
Proof.
  intros m data W B. unfold rgb5a3_decode_m, rgb5a3_decode. destruct (lenN data mod 2 =? 0); [|reflexivity].
  apply rgb5a3_loop_m_ok; [exact W|lia].
Qed.

(* ---------------- decode_indexed ---------------- *)
Theorem ci8_lookup_m_ok : forall m pal data, wfb data -> ci8_lookup_m m data pal = ci8_lookup data pal.
Proof.
  intros m pal. induction data as [|i r IH]; intros W; [reflexivity|].
  apply wfb_cons_inv in W. destruct W as (Hi & W). cbn [ci8_lookup_m ci8_lookup].
  destruct (N.leb_spec (N.of_nat (length pal)) i) as [L|L].
  - destruct (nth_error pal (N.to_nat i)) eqn:E; [|reflexivity].
    assert (N.to_nat i < length pal)%nat by (apply nth_error_Some; congruence). lia.
  - rewrite mul_w_ok by (unfold maxw, W64; change (2 ^ 64) with 18446744073709551616; lia). cbn [bind].
    rewrite add_w_ok by (unfold maxw, W64; change (2 ^ 64) with 18446744073709551616; lia). cbn [bind].
    unfold index_m. destruct (nth_error pal (N.to_nat i)) eqn:E.
    + cbn [bind]. rewrite IH by exact W. reflexivity.
    + apply nth_error_None in E. lia.
Qed.

(* ---------------- texture_utils ---------------- *)
Theorem align_m_ok : forall m v inc, v + inc < 2 ^ 64 -> align_m m v inc = Ok (align v inc).
Proof.
  intros m v inc B. unfold align_m, align. destruct (inc <=? 1) eqn:E; [reflexivity|]. apply N.leb_gt in E.
  rewrite mod_m_ok by lia. cbn [bind]. destruct (N.ltb_spec 0 (v mod inc)); [|reflexivity].
  rewrite sub_w_ok by lia. cbn [bind]. apply add_w_ok. unfold maxw, W64. lia.
Qed.

(* block_to_sequential: (index_in_input, index_in_output) of Model/Pixel.v's b2s_pairs, as a function of the iteration *)
Definition b2s_pair (tw bw bh : nat) (it : nat * nat) : nat * nat :=
  let '(bn, bi) := it in
  let bsz := (bw * bh)%nat in let per_row := (tw / bw)%nat in
  ((bn * bsz + bi)%nat, ((bn / per_row) * tw * bh + (bi / bw) * tw + (bn mod per_row) * bw + bi mod bw)%nat).

Lemma b2s_pairs_iters tw bw bh nblocks : b2s_pairs tw bw bh nblocks = map (b2s_pair tw bw bh) (b2s_iters (bw * bh) nblocks).
Proof.
  unfold b2s_pairs, b2s_iters. rewrite map_flat_map. apply flat_map_ext. intros bn. rewrite map_map. reflexivity.
Qed.

Lemma b2s_fits (bn bsz bi row tw bh rib col bw cib : N) :
  bn < 17179869184 -> bsz <= 64 -> bi < 64 -> row <= bn -> tw < 131072 -> bh <= 8 -> rib < 64 -> col < 131072 -> bw <= 8 -> cib < 8 ->
  let M := 18446744073709551616 in
  bn * bsz < M /\ bn * bsz + bi < M /\ row * tw < M /\ row * tw * bh < M /\ rib * tw < M /\ col * bw < M /\
  row * tw * bh + rib * tw < M /\ row * tw * bh + rib * tw + col * bw < M /\ row * tw * bh + rib * tw + col * bw + cib < M.
Proof.
  intros Hbn Hbsz Hbi Hrow Htw Hbh Hrib Hcol Hbw Hcib M.
  assert (A1 : bn * bsz <= 17179869184 * 64) by (apply N.mul_le_mono; lia).
  assert (A2 : row * tw <= 17179869184 * 131072) by (apply N.mul_le_mono; lia).
  assert (A3 : row * tw * bh <= 17179869184 * 131072 * 8) by (apply N.mul_le_mono; lia).
  assert (A4 : rib * tw <= 64 * 131072) by (apply N.mul_le_mono; lia).
  assert (A5 : col * bw <= 131072 * 8) by (apply N.mul_le_mono; lia).
  unfold M. lia.
Qed.

Lemma b2s_pair_m_ok m (tw th bw bh : nat) bn bi :
  N.of_nat tw < 131072 -> N.of_nat th < 131072 -> (0 < bw <= 8)%nat -> (0 < bh <= 8)%nat -> (0 < tw / bw)%nat ->
  (bn < tw * th / (bw * bh))%nat -> (bi < bw * bh)%nat ->
  b2s_pair_m m (N.of_nat tw) (N.of_nat bw) (N.of_nat bh) (N.of_nat (tw / bw)) (N.of_nat (bw * bh)) bn bi =
  Ok (N.of_nat (fst (b2s_pair tw bw bh (bn, bi))), N.of_nat (snd (b2s_pair tw bw bh (bn, bi)))).
Proof.
  intros Htw Hth Hbw Hbh Hpr Hbn Hbi. unfold b2s_pair_m, b2s_pair. cbn [fst snd].
  set (pr := (tw / bw)%nat) in *.
  rewrite !div_m_ok, !mod_m_ok by lia. cbn [bind].
  assert (Bn : N.of_nat bn < 17179869184).
  { assert (tw * th / (bw * bh) <= tw * th)%nat by (apply Nat.div_le_upper_bound; nia).
    assert (N.of_nat tw * N.of_nat th <= 131071 * 131071) by (apply N.mul_le_mono; lia). lia. }
  assert (Bsz : (bw * bh <= 64)%nat) by nia.
  assert (Brow : (bn / pr <= bn)%nat) by (apply Nat.div_le_upper_bound; nia).
  assert (Bcol : (bn mod pr < pr)%nat) by (apply Nat.mod_upper_bound; lia).
  assert (Bpr : (pr <= tw)%nat) by (unfold pr; apply Nat.div_le_upper_bound; nia).
  assert (Brib : (bi / bw <= bi)%nat) by (apply Nat.div_le_upper_bound; nia).
  assert (Bcib : (bi mod bw < bw)%nat) by (apply Nat.mod_upper_bound; lia).
  assert (E1 : N.of_nat bn / N.of_nat pr = N.of_nat (bn / pr)) by (rewrite Nat2N.inj_div; reflexivity).
  assert (E2 : N.of_nat bn mod N.of_nat pr = N.of_nat (bn mod pr)) by (rewrite Nat2N.inj_mod; reflexivity).
  assert (E3 : N.of_nat bi / N.of_nat bw = N.of_nat (bi / bw)) by (rewrite Nat2N.inj_div; reflexivity).
  assert (E4 : N.of_nat bi mod N.of_nat bw = N.of_nat (bi mod bw)) by (rewrite Nat2N.inj_mod; reflexivity).
  rewrite E1, E2, E3, E4.
  set (row := (bn / pr)%nat) in *. set (col := (bn mod pr)%nat) in *. set (rib := (bi / bw)%nat) in *. set (cib := (bi mod bw)%nat) in *.
  destruct (b2s_fits (N.of_nat bn) (N.of_nat (bw * bh)) (N.of_nat bi) (N.of_nat row) (N.of_nat tw) (N.of_nat bh) (N.of_nat rib)
              (N.of_nat col) (N.of_nat bw) (N.of_nat cib)) as (F1 & F2 & F3 & F4 & F5 & F6 & F7 & F8 & F9);
    [exact Bn|clear -Bsz; lia|clear -Hbi Bsz; lia|clear -Brow; lia|exact Htw|clear -Hbh; lia|clear -Brib Hbi Bsz; lia
    |clear -Bcol Bpr Htw; lia|clear -Hbw; lia|clear -Bcib Hbw; lia|].
  assert (M : maxw W64 = 18446744073709551616) by reflexivity.
  rewrite (mul_w_ok W64 m (N.of_nat bn)) by (rewrite M; exact F1). cbn [bind].
  rewrite add_w_ok by (rewrite M; exact F2). cbn [bind].
  rewrite (mul_w_ok W64 m (N.of_nat row)) by (rewrite M; exact F3). cbn [bind].
  rewrite mul_w_ok by (rewrite M; exact F4). cbn [bind].
  rewrite (mul_w_ok W64 m (N.of_nat rib)) by (rewrite M; exact F5). cbn [bind].
  rewrite (mul_w_ok W64 m (N.of_nat col)) by (rewrite M; exact F6). cbn [bind].
  rewrite add_w_ok by (rewrite M; exact F7). cbn [bind].
  rewrite add_w_ok by (rewrite M; exact F8). cbn [bind].
  rewrite add_w_ok by (rewrite M; exact F9). cbn [bind].
  do 2 f_equal; lia.
Qed.

Lemma b2s_loop_m_ok m data olen (tw th bw bh : nat) :
  N.of_nat tw < 131072 -> N.of_nat th < 131072 -> (0 < bw <= 8)%nat -> (0 < bh <= 8)%nat -> (0 < tw / bw)%nat ->
  forall its out, Forall (fun it => (fst it < tw * th / (bw * bh))%nat /\ (snd it < bw * bh)%nat) its ->
  b2s_loop_m m data olen (N.of_nat tw) (N.of_nat bw) (N.of_nat bh) (N.of_nat (tw / bw)) (N.of_nat (bw * bh)) its out =
  Ok (b2s_loop data olen (map (b2s_pair tw bw bh) its) out).
Proof.
  intros Htw Hth Hbw Hbh Hpr. induction its as [|[bn bi] r IH]; intros out HF; [reflexivity|].
  inversion HF as [|? ? (Hbn & Hbi) HF']; subst. cbn [fst snd] in Hbn, Hbi.
  cbn [b2s_loop_m map]. rewrite (b2s_pair_m_ok m tw th bw bh bn bi) by assumption. cbn [bind].
  destruct (b2s_pair tw bw bh (bn, bi)) as [i o] eqn:E. cbn [fst snd b2s_loop]. rewrite !Nat2N.id.
  destruct (nth_error data i); [destruct (o <? olen)%nat|]; apply IH; exact HF'.
Qed.

Lemma b2s_iters_ok bsz nblocks : Forall (fun it => (fst it < nblocks)%nat /\ (snd it < bsz)%nat) (b2s_iters bsz nblocks).
Proof.
  apply Forall_forall. intros [bn bi] Hin. unfold b2s_iters in Hin. apply in_flat_map in Hin. destruct Hin as (bn' & Hbn & Hin).
  apply in_map_iff in Hin. destruct Hin as (bi' & E & Hbi). inversion E; subst. apply in_seq in Hbn, Hbi. cbn [fst snd]. lia.
Qed.

Theorem block_to_sequential_m_ok : forall m data tw th bw bh,
  tw < 2 ^ 17 -> th < 2 ^ 17 -> 0 < bw <= 8 -> 0 < bh <= 8 -> (bw <= tw \/ tw = 0) ->
  block_to_sequential_m m data tw th bw bh = Ok (block_to_sequential data tw th bw bh).
Proof.
  intros m data tw th bw bh Htw Hth Hbw Hbh Hpr. change (2 ^ 17) with 131072 in *.
  unfold block_to_sequential_m, block_to_sequential.
  rewrite mul_w_ok by (unfold maxw, W64; change (2 ^ 64) with 18446744073709551616; nia). cbn [bind].
  rewrite div_m_ok by lia. cbn [bind].
  rewrite mul_w_ok by (unfold maxw, W64; change (2 ^ 64) with 18446744073709551616; nia). cbn [bind].
  rewrite div_m_ok by nia. cbn [bind].
  rewrite b2s_pairs_iters.
  replace (N.to_nat bw * N.to_nat bh)%nat with (N.to_nat (bw * bh)) by lia.
  destruct Hpr as [Hpr| ->].
  - pose (twn := N.to_nat tw). pose (thn := N.to_nat th). pose (bwn := N.to_nat bw). pose (bhn := N.to_nat bh).
    assert (E1 : tw = N.of_nat twn) by (unfold twn; lia). assert (E2 : bw = N.of_nat bwn) by (unfold bwn; lia).
    assert (E3 : bh = N.of_nat bhn) by (unfold bhn; lia).
    assert (E4 : tw / bw = N.of_nat (twn / bwn)) by (rewrite Nat2N.inj_div, <- E1, <- E2; reflexivity).
    assert (E5 : bw * bh = N.of_nat (bwn * bhn)) by (unfold bwn, bhn; lia).
    replace (b2s_loop_m m data (N.to_nat (tw * th)) tw bw bh (tw / bw) (bw * bh))
      with (b2s_loop_m m data (N.to_nat (tw * th)) (N.of_nat twn) (N.of_nat bwn) (N.of_nat bhn) (N.of_nat (twn / bwn)) (N.of_nat (bwn * bhn)))
      by (rewrite <- E1, <- E2, <- E3, <- E4, <- E5; reflexivity).
    fold twn bwn bhn.
    apply (b2s_loop_m_ok m data _ twn thn bwn bhn); try (unfold twn, thn, bwn, bhn; lia).
    eapply Forall_impl; [|apply b2s_iters_ok]. cbv beta. intros it (A & B). split.
      * replace (twn * thn / (bwn * bhn))%nat with (N.to_nat (tw * th / (bw * bh))); [exact A|].
        unfold twn, thn, bwn, bhn. rewrite N2Nat.inj_div, !N2Nat.inj_mul. reflexivity.
      * replace (bwn * bhn)%nat with (N.to_nat (bw * bh)) by (unfold bwn, bhn; lia). exact B.
  - replace (N.to_nat (0 * th / (bw * bh))) with 0%nat by (rewrite N.mul_0_l, N.div_0_l by nia; reflexivity).
    reflexivity.
Qed.

Lemma crop_rows_m_ok m ow w : forall rows input r, (r + N.of_nat rows) * ow + w < 2 ^ 64 ->
  crop_rows_m m input ow w r rows = Ok (crop_rows input (N.to_nat ow) (N.to_nat w) rows).
Proof.
  induction rows as [|k IH]; intros input r B; [reflexivity|].
  cbn [crop_rows_m crop_rows]. change (2 ^ 64) with 18446744073709551616 in B.
  rewrite mul_w_ok by (unfold maxw, W64; change (2 ^ 64) with 18446744073709551616; nia). cbn [bind].
  rewrite add_w_ok by (unfold maxw, W64; change (2 ^ 64) with 18446744073709551616; nia). cbn [bind].
  destruct (N.to_nat w <=? length input)%nat; [|reflexivity].
  rewrite IH by (change (2 ^ 64) with 18446744073709551616; nia). cbn [bind].
  destruct (crop_rows (skipn (N.to_nat ow) input) (N.to_nat ow) (N.to_nat w) k); reflexivity.
Qed.
Theorem crop_m_ok : forall m input ow w h, h * ow + w < 2 ^ 64 -> crop_m m input ow w h = crop input ow w h.
Proof.
  intros m input ow w h B. unfold crop_m, crop. rewrite crop_rows_m_ok by (rewrite N2Nat.id; lia). reflexivity.
Qed.

(* bytes stay bytes through block_to_sequential and crop *)
Lemma b2s_loop_wfb data olen : wfb data -> forall pairs out, wfb out -> wfb (b2s_loop data olen pairs out).
Proof.
  intros Wd. induction pairs as [|[i o] r IH]; intros out Wo; [exact Wo|]. cbn [b2s_loop].
  destruct (nth_error data i) as [v|] eqn:E; [|apply IH, Wo]. destruct (o <? olen)%nat; [|apply IH, Wo].
  apply IH. unfold wfb in *. rewrite Forall_forall in Wd. apply nth_error_In in E.
  revert Wo. generalize out o. induction out0 as [|x t IHo]; intros [|o'] Wo; cbn [upd]; auto; inversion Wo; subst; constructor; auto.
Qed.
Lemma crop_rows_wfb ow w : forall rows input c, wfb input -> crop_rows input ow w rows = Some c -> wfb c.
Proof.
  induction rows as [|k IH]; intros input c W H; cbn [crop_rows] in H.
  - inversion H. constructor.
  - destruct (w <=? length input)%nat; [|discriminate].
    destruct (crop_rows (skipn ow input) ow w k) as [t|] eqn:E; [|discriminate]. inversion H; subst.
    apply wfb_app; [apply wfb_firstn, W|]. eapply IH; [|exact E]. apply wfb_skipn, W.
Qed.

(* the CI8 path of Tpl::extract_textures, every image payload of bytes, u16 dimensions *)
Theorem tpl_ci8_image_m_ok : forall m pal_data img w h, w < 65536 -> h < 65536 ->
  wfb pal_data -> lenN pal_data < 2 ^ 64 -> wfb img ->
  tpl_ci8_image_m m pal_data img w h = tpl_ci8_image pal_data img w h.
Proof.
  intros m pal_data img w h Hw Hh Wp Lp Wi. unfold tpl_ci8_image_m, tpl_ci8_image.
  rewrite rgb5a3_decode_m_ok by assumption. destruct (rgb5a3_decode pal_data) as [pal| |]; try reflexivity. cbn [bind].
  rewrite !align_m_ok by (change (2 ^ 64) with 18446744073709551616; lia). cbn [bind].
  assert (Ba : align w 8 < 65544 /\ (8 <= align w 8 \/ align w 8 = 0)).
  { unfold align. change (8 <=? 1) with false. cbv iota. destruct (N.ltb_spec 0 (w mod 8)); lia. }
  assert (Bh : align h 4 < 65540).
  { unfold align. change (4 <=? 1) with false. cbv iota. destruct (N.ltb_spec 0 (h mod 4)); lia. }
  destruct Ba as (Ba & Ba').
  rewrite block_to_sequential_m_ok by (change (2 ^ 17) with 131072; lia). cbn [bind].
  rewrite crop_m_ok by (change (2 ^ 64) with 18446744073709551616; nia).
  destruct (crop (block_to_sequential img (align w 8) (align h 4) 8 4) (align w 8) w h) as [c| |] eqn:Ec; try reflexivity. cbn [bind].
  rewrite ci8_lookup_m_ok; [reflexivity|].
  unfold crop in Ec. destruct (crop_rows _ _ _ _) as [c'|] eqn:Er; [|discriminate]. inversion Ec; subst.
  eapply crop_rows_wfb; [|exact Er]. unfold block_to_sequential. apply b2s_loop_wfb; [exact Wi|]. apply wfb_zeros.
Qed.
