(* C02, last sentence, in the form of the property text: ANY canonical file - a byte string that is the canonical image
   (Proofs/BinCanonical.v, written from the property text) of a well-formed content - parses, and serializing the parsed
   archive reproduces the file byte for byte, in both arithmetic profiles.  The content is given as an archive record
   without pending c-strings (its maps in any order: the canonical image is taken of the sorted lists). *)
From Coq Require Import List NArith ZArith Bool Lia ZifyBool ZifyNat ZifyN.
From Mila Require Import Lib.Bytes Lib.Machine Model.BinArchive Model.BinFormat Proofs.SortLemmas Proofs.BinFormatSpec
  Proofs.BinParserCorrect Proofs.BinSerializeConforms Proofs.BinCanonical Proofs.BinReserialize.
Import ListNotations.
Local Open Scope N_scope.
Ltac Zify.zify_post_hook ::= Z.div_mod_to_equations.

Lemma wf_text_cells_u32 a : wf_archive a -> size a < U32 -> Forall (fun p : N * bytes => fst p < U32) (a_text a).
Proof.
  intros WF SZ. apply Forall_forall. intros [c s] Hin. cbn [fst].
  assert (Hc : In c (cells a)). { unfold cells. apply in_or_app. right. apply in_or_app. left. apply in_map_iff. exists (c, s). auto. }
  pose proof (wf_cells_in a WF c Hc) as Hle. lia.
Qed.

(* no size hypothesis: a canonical image EXISTS only when it fits the 32-bit sizes of the format ([canonical] and serialize
   both reject larger contents, fix 524d15f) *)
Theorem canonical_file_reserializes : forall kf a f,
  wf_archive a -> a_cstrs a = [] ->
  canonical kf (a_endian a) (a_data a) (isort key_leb (a_ptrs a)) (isort key_leb (a_text a)) (isort key_leb (a_labels a)) = Ok f ->
  exists a', from_bytes (a_endian a) f = Ok a' /\ forall m', serialize_k kf m' a' = Ok f.
Proof.
  intros kf a f WF Hcs Hcan.
  assert (SZ : size a < U32) by (exact (canonical_ok_data_small _ _ _ _ _ _ _ Hcan)).
  rewrite <- (serialize_is_canonical_maps kf Checked a (wf_label_keys a WF) Hcs (wf_text_cells_u32 a WF SZ)) in Hcan.
  destruct (serialize_ok_conforms kf Checked a f WF Hcan) as (_ & Hc).
  destruct (parser_correct _ _ _ Hc) as (a' & Ep & _). exists a'. split; [exact Ep|].
  intros m'. exact (reserialize_identity kf Checked m' a f a' WF Hcs Hcan Ep).
Qed.
