(* C17, part 2: the writer.  One set record is the cell list
     [main flags word] ++ for every non-empty group: [group flags word] ++ one string cell per present slot;
   ASetFile::serialize builds exactly the archive of  header ++ 257 table cells ++ the set records,
   with the label AnimClipNameTable at 12 and every set label at the start of its record.  The room
   each set allocates, (flags_to_write + strings_to_write + 1) * 4, is exactly what it fills. *)
From Coq Require Import List NArith ZArith Bool Lia ZifyBool ZifyNat ZifyN Arith.
From Mila Require Import Lib.Bytes Lib.Machine Model.BinArchive Model.BinStreams Model.ASet
  Proofs.AMapLemmas Proofs.BinAccess Proofs.BinAccess2 Proofs.RecsCells Proofs.ASetBits.
Import ListNotations.
Local Open Scope N_scope.
Ltac Zify.zify_post_hook ::= Z.div_mod_to_equations.

Definition oset := list (option bytes).

(* slot numbers (positions in the set vector) of group g: 32g+1 .. 32g+32 *)
Definition group_slots (g : nat) : list nat := map (fun b => (g * 32 + b + 1)%nat) (seq 0 GROUP_BITS).
Definition gflag (s : oset) (g : nat) : N := compile_flags (group_presence s g).
Definition group_nonempty (s : oset) (g : nat) : bool := existsb (slot_present s) (group_slots g).

Definition slot_cell (s : oset) (idx : nat) : list cell :=
  match slot s idx with Some v => [CStr (Some v)] | None => [] end.
Definition slots_cells (s : oset) (idxs : list nat) : list cell := flat_map (slot_cell s) idxs.
Definition group_cells (s : oset) (g : nat) : list cell :=
  if group_nonempty s g then CRaw (enc LE 4 (gflag s g)) :: slots_cells s (group_slots g) else [].
Definition main_flags (s : oset) : N := main_flags_of (compiled_flags s).
Definition set_cells (s : oset) : list cell :=
  CRaw (enc LE 4 (main_flags s)) :: flat_map (group_cells s) (seq 0 GROUPS).

Lemma group_presence_eq s g : group_presence s g = map (slot_present s) (group_slots g).
Proof. unfold group_presence, group_slots. rewrite map_map. reflexivity. Qed.

Lemma gflag_zero s g : (gflag s g =? 0) = negb (group_nonempty s g).
Proof.
  unfold gflag, group_nonempty. rewrite group_presence_eq.
  destruct (existsb (slot_present s) (group_slots g)) eqn:X; cbn [negb].
  - apply N.eqb_neq. intros E. apply compile_flags_zero in E. rewrite Forall_forall in E.
    apply existsb_exists in X. destruct X as (i & Hi & P).
    specialize (E (slot_present s i) (in_map _ _ _ Hi)). congruence.
  - apply N.eqb_eq. apply compile_flags_zero. apply Forall_forall. intros b Hb.
    apply in_map_iff in Hb. destruct Hb as (i & <- & Hi).
    destruct (slot_present s i) eqn:P; [|reflexivity].
    assert (existsb (slot_present s) (group_slots g) = true) by (apply existsb_exists; exists i; auto). congruence.
Qed.

Lemma gflag_bound s g : gflag s g < 2 ^ 32.
Proof.
  unfold gflag. pose proof (compile_flags_bound (group_presence s g)) as B.
  unfold group_presence in B. rewrite map_length, seq_length in B. exact B.
Qed.
Lemma gflag_testbit s g b : (b < 32)%nat -> N.testbit (gflag s g) (N.of_nat b) = slot_present s (g * 32 + b + 1).
Proof.
  intros H. unfold gflag. rewrite compile_flags_testbit, Nat2N.id. unfold group_presence.
  apply (nth_map_seq (fun bit => slot_present s (g * 32 + bit + 1))). exact H.
Qed.

Lemma compiled_flags_eq s : compiled_flags s = map (gflag s) (seq 0 GROUPS).
Proof. unfold compiled_flags, gflag. reflexivity. Qed.
Lemma main_flags_bound s : main_flags s < 2 ^ 32.
Proof.
  unfold main_flags, main_flags_of. pose proof (compile_flags_bound (map (fun f => negb (f =? 0)) (compiled_flags s))) as B.
  assert (L : length (map (fun f => negb (f =? 0)) (compiled_flags s)) = 8%nat).
  { rewrite compiled_flags_eq, !map_length, seq_length. reflexivity. }
  rewrite L in B. change (2 ^ N.of_nat 8) with 256 in B. lia.
Qed.
Lemma main_flags_testbit s g : (g < 8)%nat -> N.testbit (main_flags s) (N.of_nat g) = group_nonempty s g.
Proof.
  intros H. unfold main_flags, main_flags_of. rewrite compile_flags_testbit, Nat2N.id, compiled_flags_eq, map_map.
  rewrite (nth_map_seq (fun g => negb (gflag s g =? 0))) by exact H. rewrite gflag_zero. apply negb_involutive.
Qed.

(* ---- sizes ---- *)
Lemma slot_cell_size s i : cells_size (slot_cell s i) = if slot_present s i then 4 else 0.
Proof. unfold slot_cell, slot_present. destruct (slot s i); reflexivity. Qed.
Lemma slots_cells_size s l : cells_size (slots_cells s l) = 4 * cnt (slot_present s) l.
Proof.
  unfold slots_cells. induction l as [|i r IH]; cbn [flat_map]; [reflexivity|].
  rewrite cells_size_app, slot_cell_size, cnt_cons, IH. destruct (slot_present s i); lia.
Qed.
Lemma group_cells_size s g :
  cells_size (group_cells s g) = 4 * ((if group_nonempty s g then 1 else 0) + cnt (slot_present s) (group_slots g)).
Proof.
  unfold group_cells. destruct (group_nonempty s g) eqn:X.
  - cbn [cells_size cell_size]. rewrite slots_cells_size. change (lenN (enc LE 4 (gflag s g))) with 4. lia.
  - cbn [cells_size]. unfold group_nonempty in X. apply cnt_zero_iff in X. rewrite X. reflexivity.
Qed.
Lemma groups_cells_size s gs :
  cells_size (flat_map (group_cells s) gs)
  = 4 * (cnt (group_nonempty s) gs + cnt (slot_present s) (flat_map group_slots gs)).
Proof.
  induction gs as [|g r IH]; cbn [flat_map]; [reflexivity|].
  rewrite cells_size_app, group_cells_size, IH, cnt_cons, cnt_app. lia.
Qed.

(* the number of present slots and of non-empty groups of a set *)
Definition present_slots (s : oset) : N := cnt (slot_present s) (seq 1 256).
Definition nonempty_groups (s : oset) : N := cnt (group_nonempty s) (seq 0 GROUPS).
Definition set_space (s : oset) : N := 4 * (1 + nonempty_groups s + present_slots s).

Lemma all_slots : flat_map group_slots (seq 0 GROUPS) = seq 1 256.
Proof. vm_compute. reflexivity. Qed.

Lemma set_cells_size s : cells_size (set_cells s) = set_space s.
Proof.
  unfold set_cells, set_space, nonempty_groups, present_slots. cbn [cells_size cell_size].
  rewrite groups_cells_size, all_slots. change (lenN (enc LE 4 (main_flags s))) with 4. lia.
Qed.
Lemma set_space_ge s : 4 <= set_space s.
Proof. unfold set_space. lia. Qed.

Lemma strings_fold s : forall gs acc,
  fold_left (fun n g => n + count_true (group_presence s g)) gs acc = acc + cnt (slot_present s) (flat_map group_slots gs).
Proof.
  induction gs as [|g r IH]; intros acc; cbn [fold_left flat_map]; [rewrite cnt_nil; lia|].
  rewrite IH, cnt_app, group_presence_eq, count_true_map. lia.
Qed.
(* the room allocated by the writer is the size of the record *)
Lemma set_alloc_size s : (flags_to_write (compiled_flags s) + strings_to_write s + 1) * 4 = set_space s.
Proof.
  unfold flags_to_write, strings_to_write, set_space, nonempty_groups, present_slots.
  rewrite strings_fold, all_slots, compiled_flags_eq, map_map.
  rewrite (map_ext (fun g => negb (gflag s g =? 0)) (group_nonempty s)).
  2:{ intros g. rewrite gflag_zero. apply negb_involutive. }
  rewrite count_true_map. lia.
Qed.

Lemma slots_cells_cons s i r : slots_cells s (i :: r) = slot_cell s i ++ slots_cells s r.
Proof. reflexivity. Qed.
Lemma slot_cell_some s i v : slot s i = Some v -> slot_cell s i = [CStr (Some v)].
Proof. unfold slot_cell. intros ->. reflexivity. Qed.
Lemma slot_cell_none s i : slot s i = None -> slot_cell s i = [].
Proof. unfold slot_cell. intros ->. reflexivity. Qed.
Lemma group_cells_true s g : group_nonempty s g = true -> group_cells s g = CRaw (enc LE 4 (gflag s g)) :: slots_cells s (group_slots g).
Proof. unfold group_cells. intros ->. reflexivity. Qed.
Lemma group_cells_false s g : group_nonempty s g = false -> group_cells s g = [].
Proof. unfold group_cells. intros ->. reflexivity. Qed.

(* ---- writes into the allocated tail ---- *)
Lemma write_slots_mid s A : keys_below (a_text A) (size A) ->
  forall bits i done n,
  let cs := slots_cells s (map (fun j => (i * 32 + j + 1)%nat) bits) in
  cells_size cs <= n ->
  write_slots bits i s (mid A done n) (size A + cells_size done)
  = (Ok tt, mid A (done ++ cs) (n - cells_size cs), size A + cells_size done + cells_size cs).
Proof.
  intros Hk. induction bits as [|j r IH]; intros i done n cs Hn; subst cs; cbn [map write_slots] in *.
  - cbn [slots_cells flat_map cells_size]. rewrite app_nil_r, N.sub_0_r, N.add_0_r. reflexivity.
  - rewrite slots_cells_cons in *. rewrite cells_size_app in Hn.
    destruct (slot s (i * 32 + j + 1)) as [v|] eqn:E;
      [rewrite (slot_cell_some _ _ _ E) in * | rewrite (slot_cell_none _ _ E) in *].
    + cbn [cells_size cell_size] in Hn. rewrite w_write_string_mid by (try assumption; lia).
      replace (size A + cells_size done + 4) with (size A + cells_size (done ++ [CStr (Some v)]))
        by (rewrite cells_size_app; cbn [cells_size cell_size]; lia).
      rewrite IH by lia. rewrite <- app_assoc. cbn [app]. rewrite !cells_size_app. cbn [cells_size cell_size].
      f_equal; [f_equal; f_equal|]; lia.
    + cbn [app cells_size] in *. apply IH. lia.
Qed.

Lemma write_groups_mid s A : keys_below (a_text A) (size A) -> a_endian A = LE ->
  forall gs done n,
  let cs := flat_map (group_cells s) gs in
  cells_size cs <= n ->
  write_groups (map (fun g => (g, gflag s g)) gs) s (mid A done n) (size A + cells_size done)
  = (Ok tt, mid A (done ++ cs) (n - cells_size cs), size A + cells_size done + cells_size cs).
Proof.
  intros Hk He. induction gs as [|g r IH]; intros done n cs Hn; subst cs; cbn [map write_groups flat_map] in *.
  - cbn [cells_size]. rewrite app_nil_r, N.sub_0_r, N.add_0_r. reflexivity.
  - rewrite cells_size_app in Hn. rewrite gflag_zero.
    destruct (group_nonempty s g) eqn:X; cbn [negb];
      [rewrite (group_cells_true _ _ X) in * | rewrite (group_cells_false _ _ X) in *].
    + cbn [cells_size cell_size] in Hn. change (lenN (enc LE 4 (gflag s g))) with 4 in Hn.
      rewrite w_write_u32_mid by lia. rewrite He.
      set (d1 := done ++ [CRaw (enc LE 4 (gflag s g))]).
      replace (size A + cells_size done + 4) with (size A + cells_size d1)
        by (unfold d1; rewrite cells_size_app; cbn [cells_size cell_size]; change (lenN (enc LE 4 (gflag s g))) with 4; lia).
      pose proof (write_slots_mid s A Hk (seq 0 GROUP_BITS) g d1 (n - 4)) as W. cbv zeta in W.
      fold (group_slots g) in W. rewrite W by lia. clear W.
      set (d2 := d1 ++ slots_cells s (group_slots g)).
      replace (size A + cells_size d1 + cells_size (slots_cells s (group_slots g))) with (size A + cells_size d2)
        by (unfold d2; rewrite cells_size_app; lia).
      rewrite IH by lia. unfold d2, d1. rewrite <- !app_assoc. cbn [app]. rewrite !cells_size_app.
      cbn [cells_size cell_size]. rewrite !cells_size_app. change (lenN (enc LE 4 (gflag s g))) with 4.
      f_equal; [f_equal; f_equal|]; lia.
    + cbn [app cells_size] in *. apply IH. lia.
Qed.

Lemma set_labels_mid A L done n : set_labels (mid A done n) L = mid (set_labels A L) done n.
Proof. reflexivity. Qed.
Lemma set_labels_append A L cs : set_labels (append_cells A cs) L = append_cells (set_labels A L) cs.
Proof. reflexivity. Qed.

Definition lbl_entry (p : N) (lbl : option bytes) : amap (list bytes) :=
  match lbl with Some l => [(p, [l])] | None => [] end.

Lemma w_write_label_fresh a p l :
  p <= size a -> ~ In p (am_keys (a_labels a)) ->
  w_write_label a p l = (Ok tt, set_labels a (a_labels a ++ [(p, [l])]), p).
Proof.
  intros Hp Hf. unfold w_write_label, write_label. rewrite validate_address_true.
  destruct (N.leb_spec p (size a)); [|lia]. cbn [bind].
  apply am_get_none in Hf. rewrite Hf. cbn [wr]. rewrite N.add_0_r.
  apply am_get_none in Hf. rewrite am_set_fresh by exact Hf. reflexivity.
Qed.

Lemma main_flags_fold s : main_flags_of (compiled_flags s) = main_flags s.
Proof. unfold main_flags. reflexivity. Qed.
Lemma firstn8_combine s :
  firstn 8 (combine (seq 0 (length (compiled_flags s))) (compiled_flags s)) = map (fun g => (g, gflag s g)) (seq 0 GROUPS).
Proof. rewrite compiled_flags_eq, map_length, seq_length. reflexivity. Qed.

(* one set: the record is appended and the label (if any) is attached to its first byte *)
Theorem write_set_spec lbl rest A :
  keys_below (a_text A) (size A) -> keys_below (a_labels A) (size A) -> a_endian A = LE ->
  let s := lbl :: rest in
  write_set s A (size A)
  = (Ok tt, set_labels (append_cells A (set_cells s)) (a_labels A ++ lbl_entry (size A) lbl), size A + cells_size (set_cells s)).
Proof.
  intros Hk Hl He s. unfold write_set. fold s. rewrite set_alloc_size, <- set_cells_size, mid_start.
  set (n := cells_size (set_cells s)).
  set (L := a_labels A ++ lbl_entry (size A) lbl).
  set (A' := set_labels A L).
  assert (W0 : (match lbl with Some l => w_write_label (mid A [] n) (size A) l | None => (Ok tt, mid A [] n, size A) end)
               = (Ok tt, mid A' [] n, size A)).
  { unfold A', L. destruct lbl as [l|]; cbn [lbl_entry].
    - rewrite w_write_label_fresh.
      + rewrite set_labels_mid. reflexivity.
      + rewrite size_mid. lia.
      + rewrite mid_labels. intros H. apply Hl in H. lia.
    - rewrite app_nil_r. reflexivity. }
  subst s. cbv iota. rewrite W0. clear W0.
  assert (Hk' : keys_below (a_text A') (size A')) by exact Hk.
  assert (He' : a_endian A' = LE) by exact He.
  change (size A) with (size A').
  pose proof (w_write_u32_mid A' [] n (main_flags (lbl :: rest))) as W1. cbn [cells_size app] in W1.
  rewrite N.add_0_r in W1. rewrite main_flags_fold, W1.
  2:{ unfold n. rewrite set_cells_size. apply set_space_ge. }
  clear W1. rewrite He'. rewrite firstn8_combine.
  set (d1 := [CRaw (enc LE 4 (main_flags (lbl :: rest)))]).
  replace (size A' + 4) with (size A' + cells_size d1) by reflexivity.
  pose proof (write_groups_mid (lbl :: rest) A' Hk' He' (seq 0 GROUPS) d1 (n - 4)) as W2. cbv zeta in W2.
  assert (Hn : n = 4 + cells_size (flat_map (group_cells (lbl :: rest)) (seq 0 GROUPS))) by reflexivity.
  rewrite W2 by lia. clear W2.
  replace (n - 4 - cells_size (flat_map (group_cells (lbl :: rest)) (seq 0 GROUPS))) with 0 by lia.
  rewrite mid_end. unfold A'. rewrite <- set_labels_append.
  f_equal. change (cells_size d1) with 4. change (size (set_labels A L)) with (size A). lia.
Qed.

(* ================================================================== all sets, the table, the whole file *)
Fixpoint sets_cells (sets : list oset) : list cell :=
  match sets with [] => [] | s :: r => set_cells s ++ sets_cells r end.
(* the label of a set sits on the first byte of its record *)
Fixpoint sets_labels (p : N) (sets : list oset) : amap (list bytes) :=
  match sets with [] => [] | s :: r => lbl_entry p (hd None s) ++ sets_labels (p + set_space s) r end.

Lemma sets_cells_size_ge sets : 4 * N.of_nat (length sets) <= cells_size (sets_cells sets).
Proof.
  induction sets as [|s r IH]; cbn [sets_cells length cells_size]; [lia|].
  rewrite cells_size_app, set_cells_size. pose proof (set_space_ge s). lia.
Qed.
Lemma sets_labels_keys sets : forall p k, In k (am_keys (sets_labels p sets)) -> p <= k < p + cells_size (sets_cells sets).
Proof.
  induction sets as [|s r IH]; intros p k; cbn [sets_labels sets_cells]; [intros []|].
  rewrite am_keys_app, in_app_iff, cells_size_app, set_cells_size. pose proof (set_space_ge s) as G. intros [H|H].
  - destruct (hd None s); cbn [lbl_entry am_keys map fst In] in H; [|destruct H]. destruct H as [H|[]]. subst k. lia.
  - apply IH in H. lia.
Qed.

Lemma write_sets_spec : forall sets A,
  keys_below (a_text A) (size A) -> keys_below (a_labels A) (size A) -> a_endian A = LE ->
  Forall (fun s => s <> []) sets ->
  write_sets sets A (size A)
  = (Ok tt, set_labels (append_cells A (sets_cells sets)) (a_labels A ++ sets_labels (size A) sets),
     size A + cells_size (sets_cells sets)).
Proof.
  induction sets as [|s r IH]; intros A Hk Hl He Hne; cbn [write_sets sets_cells sets_labels cells_size].
  - rewrite append_cells_nil, app_nil_r, N.add_0_r. f_equal. f_equal. destruct A; reflexivity.
  - inversion Hne as [|? ? Hs Hr]; subst. destruct s as [|lbl rest]; [congruence|].
    rewrite (write_set_spec lbl rest A Hk Hl He). cbv zeta.
    set (s := lbl :: rest) in *.
    set (A1 := set_labels (append_cells A (set_cells s)) (a_labels A ++ lbl_entry (size A) lbl)).
    assert (S1 : size A1 = size A + cells_size (set_cells s)) by apply size_append_cells.
    rewrite <- S1. rewrite IH; [| | |exact He|exact Hr].
    + f_equal; [f_equal|].
      * apply archive_eq; cbn [set_labels append_cells a_data a_text a_ptrs a_labels a_cstrs a_endian]; try reflexivity.
        -- unfold A1. cbn [set_labels append_cells a_data]. rewrite cells_bytes_app, app_assoc. reflexivity.
        -- rewrite S1. unfold A1. cbn [set_labels append_cells a_text]. rewrite cells_text_app, app_assoc. reflexivity.
        -- rewrite S1, set_cells_size. unfold A1, s. cbn [set_labels a_labels hd]. rewrite app_assoc. reflexivity.
      * rewrite cells_size_app, S1. lia.
    + exact (keys_below_append_cells A (set_cells s) Hk).
    + intros k Hk1. cbn [A1 set_labels a_labels] in Hk1. rewrite am_keys_app, in_app_iff in Hk1.
      rewrite S1. pose proof (set_space_ge s) as G. rewrite set_cells_size. destruct Hk1 as [H|H].
      * apply Hl in H. lia.
      * destruct lbl; cbn [lbl_entry am_keys map fst In] in H; [|destruct H]. destruct H as [H|[]]. lia.
Qed.

Lemma write_table_mid A : keys_below (a_text A) (size A) ->
  forall t done n, 4 * N.of_nat (length t) <= n ->
  write_table t (mid A done n) (size A + cells_size done)
  = (Ok tt, mid A (done ++ map CStr t) (n - 4 * N.of_nat (length t)), size A + cells_size done + 4 * N.of_nat (length t)).
Proof.
  intros Hk. induction t as [|o r IH]; intros done n Hn; cbn [write_table map length] in *.
  - rewrite app_nil_r, N.sub_0_r, N.add_0_r. reflexivity.
  - rewrite w_write_string_mid by (try assumption; lia).
    replace (size A + cells_size done + 4) with (size A + cells_size (done ++ [CStr o]))
      by (rewrite cells_size_app; cbn [cells_size cell_size]; lia).
    rewrite IH by lia. rewrite <- app_assoc. cbn [app]. rewrite cells_size_app. cbn [cells_size cell_size].
    f_equal; [f_equal; f_equal|]; lia.
Qed.
Lemma cells_size_strs t : cells_size (map CStr t) = 4 * N.of_nat (length t).
Proof. induction t as [|o r IH]; cbn [map cells_size cell_size length]; [reflexivity | rewrite IH; lia]. Qed.

Lemma write_string_mid a done n o :
  keys_below (a_text a) (size a) -> 4 <= n ->
  write_string (mid a done n) (size a + cells_size done) o = Ok (mid a (done ++ [CStr o]) (n - 4)).
Proof.
  intros Hk Hn. pose proof (w_write_string_mid a done n o Hk Hn) as W. unfold w_write_string in W.
  destruct (write_string (mid a done n) (size a + cells_size done) o); cbn [wr] in W; inversion W; reflexivity.
Qed.

Definition header_cells (v : aset) : list cell := [CRaw (enc LE 4 4); CStr (as_meta v); CRaw (enc LE 4 256)].
Definition file_cells (v : aset) : list cell := header_cells v ++ map CStr (as_table v) ++ sets_cells (as_sets v).
Definition SETS_AT : N := 12 + 4 * 257.
Definition file_labels (v : aset) : amap (list bytes) := (12, [ACNT]) :: sets_labels SETS_AT (as_sets v).
(* the values the reader can return and the round trip is about: 257 table entries, label + 256 slots per set *)
Definition wf_aset (v : aset) : Prop :=
  length (as_table v) = 257%nat /\ Forall (fun s : oset => length s = 257%nat) (as_sets v).

Definition built (v : aset) : archive :=
  {| a_data := cells_bytes (file_cells v); a_text := cells_text 0 (file_cells v); a_ptrs := [];
     a_labels := file_labels v; a_cstrs := []; a_endian := LE |}.

Theorem build_spec v :
  length (as_table v) = 257%nat -> Forall (fun s : oset => s <> []) (as_sets v) -> build v = Ok (built v).
Proof.
  intros Ht Hs. unfold build. set (B := ba_new LE).
  assert (KB : forall L, keys_below (a_text (set_labels B L)) (size (set_labels B L))) by (intros L k []).
  rewrite mid_start.
  pose proof (write_u32_mid B [] 12 4) as W1. change (size B + cells_size []) with 0 in W1. rewrite W1 by lia. clear W1.
  cbn [bind app]. change (a_endian B) with LE. change (12 - 4) with 8.
  pose proof (write_string_mid B [CRaw (enc LE 4 4)] 8 (as_meta v) (KB [])) as W2.
  change (size B + cells_size [CRaw (enc LE 4 4)]) with 4 in W2. rewrite W2 by lia. clear W2.
  cbn [bind app]. change (8 - 4) with 4.
  pose proof (write_u32_mid B [CRaw (enc LE 4 4); CStr (as_meta v)] 4 256) as W3.
  change (size B + cells_size [CRaw (enc LE 4 4); CStr (as_meta v)]) with 8 in W3. rewrite W3 by lia. clear W3.
  cbn [bind app]. change (a_endian B) with LE. change (4 - 4) with 0. fold (header_cells v).
  rewrite mid_more, Ht. change (N.of_nat 257 * 4) with 1028.
  rewrite w_write_label_fresh; [| rewrite size_mid; change (size B) with 0; lia | intros []].
  change (a_labels (mid B (header_cells v) 1028) ++ [(12, [ACNT])]) with [(12, [ACNT])].
  rewrite set_labels_mid. set (B' := set_labels B [(12, [ACNT])]).
  pose proof (write_table_mid B' (KB _) (as_table v) (header_cells v) 1028) as W4.
  change (size B' + cells_size (header_cells v)) with 12 in W4. rewrite Ht in W4. change (4 * N.of_nat 257) with 1028 in W4.
  rewrite W4 by lia. clear W4. change (1028 - 1028) with 0. rewrite mid_end.
  set (A7 := append_cells B' (header_cells v ++ map CStr (as_table v))).
  assert (S7 : size A7 = 12 + 1028).
  { unfold A7. rewrite size_append_cells, cells_size_app, cells_size_strs, Ht. reflexivity. }
  rewrite <- S7. rewrite write_sets_spec; [| | |reflexivity|exact Hs].
  - cbn [out_of]. f_equal. rewrite S7.
    apply archive_eq; cbn [built set_labels append_cells a_data a_text a_ptrs a_labels a_cstrs a_endian]; try reflexivity.
    + unfold A7, file_cells. cbn [append_cells a_data B' set_labels B ba_new app]. rewrite app_assoc, <- cells_bytes_app. reflexivity.
    + rewrite S7. unfold A7, file_cells. cbn [append_cells a_text B' set_labels B ba_new app].
      change (size (set_labels (ba_new LE) [(12, [ACNT])])) with 0.
      rewrite (app_assoc (header_cells v)), (cells_text_app 0 (header_cells v ++ map CStr (as_table v))).
      rewrite cells_size_app, cells_size_strs, Ht. reflexivity.
  - apply keys_below_append_cells. apply KB.
  - intros k Hk. cbn [A7 append_cells a_labels B' set_labels am_keys map fst In] in Hk. destruct Hk as [Hk|[]]. rewrite S7. lia.
Qed.
