(* "Compression succeeds": the machine-level loops of Model/LZCompressMachine.v (checked slice indexing, usize
   arithmetic in a profile, the 17-byte out_buffer of lz10.rs) return Ok of exactly what the list models
   LZCore.occ / LZCore.tokens / LZCore.emit_loop compute - for every input shorter than 2^63 bytes, in either
   profile.  So the index expressions of get_occurrence_length and of the emission buffer are in range, no
   subtraction underflows, and compress10 / compress13 are not merely total by construction. *)
From Coq Require Import List NArith ZArith Arith Lia Bool ZifyBool ZifyNat ZifyN.
From Mila Require Import Lib.Bytes Lib.Machine Model.LZCore Model.LZ10 Model.LZ11 Model.LZ13Machine Model.LZCompressMachine
  Proofs.LZCoreProofs Proofs.LZTokens Proofs.LZ10Proofs Proofs.LZ11Proofs Proofs.LZ13MachineProofs.
Import ListNotations.
Local Open Scope N_scope.

Lemma maxw64 : maxw W64 = 18446744073709551616.
Proof. reflexivity. Qed.

Lemma bidx_ok bytes k : (k < length bytes)%nat -> exists v, bidx bytes (N.of_nat k) = Ok v /\ nth_error bytes k = Some v.
Proof.
  intros H. unfold bidx. rewrite Nat2N.id. destruct (nth_error bytes k) as [v|] eqn:E; [eauto|].
  apply nth_error_None in E. lia.
Qed.

Section Bytes.
  Variable m : mode.
  Variable bytes : list N.
  Let len := length bytes.
  Hypothesis Hlen : N.of_nat len < 9223372036854775808.

  Lemma j_loop_cpl : forall n cos np j cur, (cos + j + n <= len)%nat -> (np + j + n <= len)%nat ->
    j_loop n m bytes (N.of_nat cos) (N.of_nat np) (N.of_nat j) (N.of_nat cur)
    = Ok (N.of_nat (cur + cpl n (skipn (cos + j) bytes) (skipn (np + j) bytes))).
  Proof.
    induction n as [|n IH]; intros cos np j cur Ha Hb; cbn [j_loop cpl].
    - do 2 f_equal. lia.
    - rewrite (add_w_ok W64 m (N.of_nat cos) (N.of_nat j)) by (rewrite maxw64; lia). cbn [bind].
      replace (N.of_nat cos + N.of_nat j) with (N.of_nat (cos + j)) by lia.
      destruct (bidx_ok bytes (cos + j)%nat ltac:(fold len; lia)) as (x & Hx & Hnx). rewrite Hx. cbn [bind].
      rewrite (add_w_ok W64 m (N.of_nat np) (N.of_nat j)) by (rewrite maxw64; lia). cbn [bind].
      replace (N.of_nat np + N.of_nat j) with (N.of_nat (np + j)) by lia.
      destruct (bidx_ok bytes (np + j)%nat ltac:(fold len; lia)) as (y & Hy & Hny). rewrite Hy. cbn [bind].
      rewrite (skipn_nth_error bytes _ _ Hnx), (skipn_nth_error bytes _ _ Hny).
      destruct (x =? y).
      + replace (N.of_nat j + 1) with (N.of_nat (S j)) by lia. replace (N.of_nat cur + 1) with (N.of_nat (S cur)) by lia.
        rewrite (IH cos np (S j) (S cur)) by lia.
        replace (cos + S j)%nat with (S (cos + j)) by lia. replace (np + S j)%nat with (S (np + j)) by lia.
        do 2 f_equal. lia.
      + do 2 f_equal. lia.
  Qed.

  Lemma i_loop_search : forall n np nl op ol i best bd,
    (i + n <= ol)%nat -> (n = 0 \/ op + i + n - 1 + nl <= len)%nat -> (np + nl <= len)%nat ->
    i_loop n m bytes (N.of_nat np) (N.of_nat nl) (N.of_nat op) (N.of_nat ol) (N.of_nat i) (N.of_nat best) (N.of_nat bd)
    = Ok (N.of_nat (fst (search n (skipn (op + i) bytes) (skipn np bytes) nl ol i best bd)),
          N.of_nat (snd (search n (skipn (op + i) bytes) (skipn np bytes) nl ol i best bd))).
  Proof.
    induction n as [|n IH]; intros np nl op ol i best bd Hi Ha Hb; cbn [i_loop search]; [reflexivity|].
    rewrite (add_w_ok W64 m (N.of_nat op) (N.of_nat i)) by (rewrite maxw64; lia). cbn [bind].
    replace (N.of_nat op + N.of_nat i) with (N.of_nat (op + i)) by lia.
    rewrite Nat2N.id. change 0 with (N.of_nat 0).
    rewrite (j_loop_cpl nl (op + i) np 0 0) by lia. cbn [bind].
    rewrite !Nat.add_0_r, Nat.add_0_l.
    set (c := cpl nl (skipn (op + i) bytes) (skipn np bytes)).
    replace (N.of_nat best <? N.of_nat c) with (Nat.ltb best c)
      by (destruct (Nat.ltb_spec best c); destruct (N.ltb_spec (N.of_nat best) (N.of_nat c)); lia).
    destruct (Nat.ltb best c).
    - rewrite (sub_w_ok W64 m (N.of_nat ol) (N.of_nat i)) by lia. cbn [bind].
      replace (N.of_nat ol - N.of_nat i) with (N.of_nat (ol - i)) by lia.
      replace (N.of_nat c =? N.of_nat nl) with (Nat.eqb c nl)
        by (destruct (Nat.eqb_spec c nl); destruct (N.eqb_spec (N.of_nat c) (N.of_nat nl)); lia).
      destruct (Nat.eqb c nl); [reflexivity|].
      replace (N.of_nat i + 1) with (N.of_nat (S i)) by lia.
      rewrite (IH np nl op ol (S i) c (ol - i)%nat) by lia.
      rewrite tl_skipn. replace (op + S i)%nat with (S (op + i)) by lia. reflexivity.
    - replace (N.of_nat i + 1) with (N.of_nat (S i)) by lia.
      rewrite (IH np nl op ol (S i) best bd) by lia.
      rewrite tl_skipn. replace (op + S i)%nat with (S (op + i)) by lia. reflexivity.
  Qed.

  Lemma gol_occ np nl op ol : (op + ol <= np)%nat -> (np + nl <= len)%nat ->
    gol_m m bytes (N.of_nat np) (N.of_nat nl) (N.of_nat op) (N.of_nat ol)
    = Ok (N.of_nat (fst (occ bytes np nl op ol)), N.of_nat (snd (occ bytes np nl op ol))).
  Proof.
    intros Ha Hb. unfold gol_m, occ.
    replace (N.of_nat nl =? 0) with (Nat.eqb nl 0)
      by (destruct (Nat.eqb_spec nl 0); destruct (N.eqb_spec (N.of_nat nl) 0); lia).
    replace (N.of_nat ol =? 0) with (Nat.eqb ol 0)
      by (destruct (Nat.eqb_spec ol 0); destruct (N.eqb_spec (N.of_nat ol) 0); lia).
    destruct (orb (Nat.eqb nl 0) (Nat.eqb ol 0)) eqn:E; [reflexivity|].
    apply orb_false_iff in E. destruct E as [E1 E2]. apply Nat.eqb_neq in E1, E2.
    rewrite (sub_w_ok W64 m (N.of_nat ol) 1) by lia. cbn [bind].
    replace (N.to_nat (N.of_nat ol - 1)) with (ol - 1)%nat by lia.
    change 0 with (N.of_nat 0).
    rewrite (i_loop_search (ol - 1) np nl op ol 0 0 0) by lia.
    rewrite Nat.add_0_r. reflexivity.
  Qed.

  (* ---- the main loop ---- *)
  Variable L : nat.
  Variable cap : option N.
  Variable tb : token -> list N.
  Hypothesis HL : (1 <= L <= 4096)%nat.
  (* a token never needs more room than the buffer has after a flush-at-8: trivially true for a Vec,
     two bytes per token for the 17-byte array *)
  Hypothesis Hcap : match cap with
                    | Some c => c = 17 /\ forall t, (length (tb t) <= 2)%nat
                    | None => True
                    end.

  Definition buf_inv (s : estate) : Prop :=
    e_blocks s <= 8 /\ match cap with Some _ => (length (e_ob s) <= 2 * N.to_nat (e_blocks s))%nat | None => True end.

  Lemma buf_inv_step s t : buf_inv s -> buf_inv (e_step tb s t).
  Proof.
    intros [Hb Ho]. unfold buf_inv, e_step.
    destruct (N.eqb_spec (e_blocks s) 8) as [E|E]; cbn [e_flush e_blocks e_ob].
    - split; [lia|]. destruct cap as [c|]; [|exact I]. destruct Hcap as [_ Ht]. specialize (Ht t).
      cbn [app]. lia.
    - split; [lia|]. destruct cap as [c|]; [|exact I]. destruct Hcap as [_ Ht]. specialize (Ht t).
      rewrite app_length. lia.
  Qed.

  Lemma step_checks_ok s t : buf_inv s ->
    step_checks cap tb (if e_blocks s =? 8 then e_flush s else s) t = Ok tt.
  Proof.
    intros [Hb Ho]. unfold step_checks.
    set (s0 := if e_blocks s =? 8 then e_flush s else s).
    assert (H0 : e_blocks s0 <= 7 /\ match cap with Some _ => (length (e_ob s0) <= 2 * N.to_nat (e_blocks s0))%nat | None => True end).
    { subst s0. destruct (N.eqb_spec (e_blocks s) 8) as [E|E]; cbn [e_flush e_blocks e_ob].
      - split; [lia|]. destruct cap; [cbn [length]; lia | exact I].
      - split; [lia | exact Ho]. }
    destruct H0 as [H7 Hob].
    assert (E7 : (7 <? e_blocks s0) = false) by (apply N.ltb_ge; exact H7).
    assert (Hc : match cap with
                 | Some c => (if c <? 1 + lenN (e_ob s0) + lenN (tb t) then Panic PIndex else Ok tt) = Ok tt
                 | None => True
                 end).
    { destruct cap as [c|]; [|exact I]. destruct Hcap as [-> Ht]. specialize (Ht t). unfold lenN.
      destruct (N.ltb_spec 17 (1 + N.of_nat (length (e_ob s0)) + N.of_nat (length (tb t)))); [lia | reflexivity]. }
    destruct t as [b|l d]; [|rewrite E7]; cbn [bind]; (destruct cap; [exact Hc | reflexivity]).
  Qed.

  Lemma cm_loop_tokens : forall fuel s pos, (pos <= len)%nat -> (len - pos <= fuel)%nat -> buf_inv s ->
    cm_loop m (N.of_nat L) cap tb fuel bytes (N.of_nat len) s (N.of_nat pos)
    = Ok (fold_left (e_step tb) (tokens_from fuel L bytes pos) s).
  Proof.
    induction fuel as [|f IH]; intros s pos Hp Hf Hinv.
    - cbn [cm_loop tokens_from]. assert (pos = len) by lia. subst pos.
      rewrite (proj2 (N.leb_le _ _) (N.le_refl _)). reflexivity.
    - cbn [cm_loop tokens_from]. fold len.
      destruct (Nat.leb_spec len pos) as [Hge|Hlt].
      { rewrite (proj2 (N.leb_le (N.of_nat len) (N.of_nat pos))) by lia. reflexivity. }
      rewrite (proj2 (N.leb_gt (N.of_nat len) (N.of_nat pos))) by lia.
      rewrite (sub_w_ok W64 m (N.of_nat len) (N.of_nat pos)) by lia. cbn [bind].
      assert (Emin : N.min (N.of_nat pos) 4096 = N.of_nat (Nat.min pos WINDOW)) by (unfold WINDOW; lia).
      rewrite Emin.
      rewrite (sub_w_ok W64 m (N.of_nat pos) (N.of_nat (Nat.min pos WINDOW))) by lia. cbn [bind].
      replace (N.min (N.of_nat len - N.of_nat pos) (N.of_nat L)) with (N.of_nat (Nat.min (len - pos) L)) by lia.
      replace (N.of_nat pos - N.of_nat (Nat.min pos WINDOW)) with (N.of_nat (pos - Nat.min pos WINDOW)) by lia.
      rewrite (gol_occ pos (Nat.min (len - pos) L) (pos - Nat.min pos WINDOW) (Nat.min pos WINDOW)) by lia.
      cbn [bind].
      pose proof (occ_ok bytes pos (Nat.min (len - pos) L) (pos - Nat.min pos WINDOW) (Nat.min pos WINDOW)) as Hocc.
      destruct (occ bytes pos (Nat.min (len - pos) L) (pos - Nat.min pos WINDOW) (Nat.min pos WINDOW)) as [l d] eqn:Eo.
      cbn [fst snd].
      replace (N.of_nat l <? 3) with (Nat.ltb l 3)
        by (destruct (Nat.ltb_spec l 3); destruct (N.ltb_spec (N.of_nat l) 3); lia).
      destruct (Nat.ltb_spec l 3) as [Hl3|Hl3].
      + destruct (bidx_ok bytes pos Hlt) as (v & Hv & Hnv). rewrite Hv. cbn [bind].
        rewrite (step_checks_ok s (Lit v) Hinv). cbn [bind].
        rewrite (add_w_ok W64 m (N.of_nat pos) 1) by (rewrite maxw64; lia). cbn [bind].
        replace (N.of_nat pos + 1) with (N.of_nat (S pos)) by lia.
        rewrite (IH (e_step tb s (Lit v)) (S pos)) by (try apply buf_inv_step; try assumption; lia).
        cbn [fold_left]. rewrite (nth_error_nth bytes pos 0 Hnv). reflexivity.
      + assert (Hrange : (l <= Nat.min (len - pos) L /\ 2 <= d)%nat).
        { destruct Hocc as (Hl1 & _ & [Hz|((Hd1 & _) & _)]); lia. }
        rewrite (add_w_ok W64 m (N.of_nat pos) (N.of_nat l)) by (rewrite maxw64; lia). cbn [bind].
        rewrite (sub_w_ok W64 m (N.of_nat d) 1) by lia. cbn [bind].
        rewrite !Nat2N.id.
        rewrite (step_checks_ok s (Ref l d) Hinv). cbn [bind].
        replace (N.of_nat pos + N.of_nat l) with (N.of_nat (pos + l)) by lia.
        rewrite (IH (e_step tb s (Ref l d)) (pos + l)%nat) by (try apply buf_inv_step; try assumption; lia).
        reflexivity.
  Qed.
End Bytes.

(* ---------------------------------------------------------------- the two compressors *)
Lemma tok10_len t : (length (tok10 t) <= 2)%nat.
Proof. destruct t; cbn [tok10 length]; lia. Qed.

Lemma compress_loop_m_eq m L cap tb hdr x :
  lenN x < 2 ^ 63 -> (1 <= L <= 4096)%nat ->
  match cap with Some c => c = 17 /\ forall t, (length (tb t) <= 2)%nat | None => True end ->
  compress_loop_m m (N.of_nat L) cap tb hdr x = Ok (emit_loop tb hdr (tokens L x)).
Proof.
  intros Hn HL Hcap. unfold compress_loop_m, lenN.
  assert (H : N.of_nat (length x) < 9223372036854775808).
  { unfold lenN in Hn. change (2 ^ 63) with 9223372036854775808 in Hn. exact Hn. }
  change 0 with (N.of_nat 0).
  rewrite (cm_loop_tokens m x H L cap tb HL Hcap (length x) (e_init hdr) 0%nat) by
    (first [lia | split; [cbn [e_init e_blocks]; lia | destruct cap; [cbn [e_init e_ob length]; lia | exact I]]]).
  cbn [bind]. reflexivity.
Qed.

(* LZ10CompressionFormat::compress, machine level = the list model with its guard, for EVERY input and either
   profile: below 2^24 bytes it succeeds with what the list model computes (no index out of range, no underflow),
   from 2^24 bytes on it is Err(InputTooLarge) (repair of F21) *)
Theorem compress10_m_eq m x : compress10_m m x = compress10_o x.
Proof.
  unfold compress10_m, compress10_o. rewrite lenN_tr_eq. destruct (N.ltb_spec 16777215 (lenN x)) as [Hbig|Hsmall]; [reflexivity|].
  unfold compress10. change 18 with (N.of_nat 18).
  apply compress_loop_m_eq; [change (2 ^ 63) with 9223372036854775808; lia | lia | split; [reflexivity | exact tok10_len]].
Qed.

Theorem compress10_m_succeeds m x : lenN x < 2 ^ 24 -> compress10_m m x = Ok (compress10 x).
Proof.
  intros Hn. rewrite compress10_m_eq. unfold compress10_o. rewrite lenN_tr_eq. change (2 ^ 24) with 16777216 in Hn.
  destruct (N.ltb_spec 16777215 (lenN x)); [lia | reflexivity].
Qed.

Theorem compress10_m_rejects m x : 2 ^ 24 <= lenN x -> compress10_m m x = Err ETooLarge.
Proof.
  intros Hn. rewrite compress10_m_eq. unfold compress10_o. rewrite lenN_tr_eq. change (2 ^ 24) with 16777216 in Hn.
  destruct (N.ltb_spec 16777215 (lenN x)); [reflexivity | lia].
Qed.

(* LZ13CompressionFormat::compress, machine level throughout = the model with the list-level main loop *)
Theorem compress13_mm_eq m x : compress13_mm m x = compress13_m m x.
Proof.
  unfold compress13_mm, compress13_m. destruct (too_large13 x) eqn:E; [reflexivity|].
  assert (Hn : lenN x < 2 ^ 63).
  { unfold too_large13 in E. apply N.ltb_ge in E. change (2 ^ 63) with 9223372036854775808. lia. }
  destruct (calculate_lz13_header_m x) as [h|e|p]; cbn [bind]; try reflexivity.
  destruct (compress13_reserve m (lenN x)) as [c|e|p]; cbn [bind]; try reflexivity.
  change 4096 with (N.of_nat 4096). apply compress_loop_m_eq; [exact Hn | lia | exact I].
Qed.

(* totality, for EVERY input: Ok below 2^32 bytes, Err(InputTooLarge) from 2^32 bytes on - never a panic *)
Theorem compress13_mm_ok m x : lenN x < 2 ^ 32 ->
  exists h, compress13_mm m x = Ok (emit_loop tok11 (header13 h (lenN x)) (tokens 4096 x)).
Proof. intros Hn. rewrite compress13_mm_eq. apply compress13_m_small. exact Hn. Qed.

Theorem compress13_mm_rejects m x : 2 ^ 32 <= lenN x -> compress13_mm m x = Err ETooLarge.
Proof. intros Hn. rewrite compress13_mm_eq. apply compress13_m_large. exact Hn. Qed.

Theorem compress13_mm_list m x : lenN x < 2 ^ 31 -> compress13_mm m x = compress13_o m x.
Proof. intros Hn. rewrite compress13_mm_eq. apply compress13_m_eq. exact Hn. Qed.
