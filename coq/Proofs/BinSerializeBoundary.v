(* The 32-bit guard of BinArchive::serialize (fix 524d15f, finding F25) at its boundary, for sizes no test can build:
   an archive WITHOUT annotations of any data length n serializes to header ++ data exactly when n + 32 <= 2^32 - 1 and is
   rejected otherwise - symbolic in n, both arithmetic profiles, both endiannesses. *)
From Coq Require Import List NArith ZArith Bool Lia ZifyBool ZifyNat ZifyN.
From Mila Require Import Lib.Bytes Lib.BytesExtra Lib.Machine Model.BinArchive Model.BinFormat Proofs.BinFormatSpec.
Import ListNotations.
Local Open Scope N_scope.

Theorem serialize_plain_boundary kf m a :
  a_text a = [] -> a_ptrs a = [] -> a_labels a = [] -> a_cstrs a = [] ->
  serialize_k kf m a =
    if size a + 32 <=? 4294967295
    then Ok (enc (a_endian a) 4 (size a + 32) ++ enc (a_endian a) 4 (size a) ++ enc (a_endian a) 4 0 ++ enc (a_endian a) 4 0
             ++ zeros 16 ++ a_data a)
    else Err EOther.
Proof.
  intros Ht Hp Hl Hc. unfold serialize_k. rewrite Ht, Hp, Hl, Hc.
  cbn [isort fold_right cstr_pool app poke_all bind p_raw pool_empty emit_labels emit_text map concat length].
  change (pad_to 4 []) with (@nil N). change (lenN []) with 0. change (p_len pool_empty) with 0.
  change (N.of_nat 0) with 0.
  replace (size a + 0 + 0 * 4 + 0 * 4 + 0 + 32) with (size a + 32) by lia.
  destruct (N.leb_spec (size a + 32) 4294967295) as [H|H]; cbn [guard bind]; [|reflexivity].
  change (trunc_w 32 0) with 0. rewrite !trunc_small by (unfold U32; lia).
  rewrite add_w_ok by (unfold maxw; lia). cbn [bind]. rewrite N.add_0_r.
  change (0 / 2) with 0. cbn [u32s map concat app]. rewrite !app_nil_r. reflexivity.
Qed.

(* the two sides of the boundary: the largest archive that is written (data 2^32 - 33 bytes, image 2^32 - 1 bytes, header
   says so exactly) and the smallest that is rejected (data 2^32 - 32 bytes: the image would be 2^32 bytes, its size field 0) *)
Corollary serialize_plain_largest kf m a :
  a_text a = [] -> a_ptrs a = [] -> a_labels a = [] -> a_cstrs a = [] -> size a = 4294967263 ->
  exists f, serialize_k kf m a = Ok f /\ lenN f = 4294967295 /\ u32_at (a_endian a) f 0 = Some 4294967295.
Proof.
  intros Ht Hp Hl Hc Hs. rewrite (serialize_plain_boundary kf m a Ht Hp Hl Hc), Hs. cbn [N.leb N.compare N.add Pos.compare Pos.compare_cont Pos.add].
  change (4294967263 + 32 <=? 4294967295) with true. cbn iota. eexists. split; [reflexivity|]. split.
  - rewrite !lenN_app, !lenN_enc, lenN_zeros. unfold size in Hs. rewrite Hs. reflexivity.
  - change (4294967263 + 32) with 4294967295.
    pose proof (u32_at_app_exact (a_endian a) [] 4294967295
                  (enc (a_endian a) 4 4294967263 ++ enc (a_endian a) 4 0 ++ enc (a_endian a) 4 0 ++ zeros 16 ++ a_data a)) as E.
    cbn [app] in E. apply E. reflexivity.
Qed.
Corollary serialize_plain_smallest_rejected kf m a :
  a_text a = [] -> a_ptrs a = [] -> a_labels a = [] -> a_cstrs a = [] -> size a = 4294967264 ->
  serialize_k kf m a = Err EOther.
Proof. intros Ht Hp Hl Hc Hs. rewrite (serialize_plain_boundary kf m a Ht Hp Hl Hc), Hs. reflexivity. Qed.
