(* C10: size of the compressed output.
   Part 1 - expansion bound for every input (token accounting of the group encoding).
   Part 2 - periodic inputs: from position max(p,2) on, the match search finds a candidate that matches
   for the whole look-ahead, so every token there is a reference of the maximal length (or one of at
   most two trailing literals); counting tokens gives the bound of the property. *)
From Coq Require Import List NArith Arith Lia Bool ZifyBool ZifyNat ZifyN.
From Mila Require Import Lib.Bytes Lib.Machine Model.LZCore Model.LZ10 Model.LZ11 Model.LZSpec
  Proofs.LZCoreProofs Proofs.LZTokens Proofs.LZEmitProofs Proofs.LZSpecProofs Proofs.LZ10Proofs Proofs.LZ11Proofs.
Import ListNotations.

(* bytes a token sequence is written with (without flag bytes) *)
Definition cost (v : version) (ts : list token) : nat := length (concat (map (senc v) ts)).

Lemma cost_cons v t r : cost v (t :: r) = length (senc v t) + cost v r.
Proof. unfold cost. cbn [map concat]. apply app_length. Qed.

(* bytes of one token: 1 for a literal; for a reference at most 2 (LZ10) / 4 (LZ11) and never more than it stands for *)
Definition ref_bytes (v : version) : nat := match v with V10 => 2 | V11 => 4 end.

Lemma senc_len_lit v b : length (senc v (Lit b)) = 1.
Proof. reflexivity. Qed.

Lemma senc_len_ref v len disp : 3 <= len -> length (senc v (Ref len disp)) <= ref_bytes v /\ length (senc v (Ref len disp)) <= len /\ 2 <= length (senc v (Ref len disp)).
Proof.
  intros Hl. cbn [senc]. destruct v; cbn [ref_bytes]; [cbn [length]; lia|].
  destruct (N.leb_spec (N.of_nat len) 16); [cbn [length]; lia|].
  destruct (N.leb_spec (N.of_nat len) 272); cbn [length]; lia.
Qed.

Lemma cost_le_total v L : forall ts, Forall (tok_range L) ts -> cost v ts <= total_len ts /\ length ts <= total_len ts.
Proof.
  induction 1 as [|t r Ht Hr IH]; [cbn; lia|].
  rewrite cost_cons, total_len_cons. cbn [length].
  destruct t as [b|len disp]; cbn [tok_range tok_len] in *.
  - rewrite senc_len_lit. lia.
  - pose proof (senc_len_ref v len disp ltac:(lia)). lia.
Qed.

(* ---------------------------------------------------------------- Part 1: expansion *)
Theorem compress10_expansion x : length (compress10 x) <= 4 + length x + (length x + 7) / 8.
Proof.
  rewrite compress10_enc, app_length, enc_body_length. cbn [header10 length].
  destruct (cost_le_total V10 18 (tokens 18 x) (tokens_ranges 18 x)) as [Hc Hn].
  rewrite tokens_total in *. fold (cost V10 (tokens 18 x)). lia.
Qed.

Lemma header13_length h n :
  length (header13 h n) = if andb (0 <? n)%N (n <? 2 ^ 24)%N then 8 else 12.
Proof.
  unfold header13. change (2 ^ 24)%N with 16777216%N.
  destruct (N.eqb_spec n 0) as [E|E]; destruct (N.ltb_spec 16777215 n) as [Hbig|Hsmall];
    destruct (N.ltb_spec 0 n); destruct (N.ltb_spec n 16777216); try lia; cbn [orb andb le24 app length enc_le]; reflexivity.
Qed.

Theorem compress13_expansion m x c : (lenN x < 2 ^ 63)%N -> compress13 m x = Ok c ->
  length c <= (if andb (0 <? lenN x)%N (lenN x <? 2 ^ 24)%N then 8 else 12) + length x + (length x + 7) / 8.
Proof.
  intros Hn Hc. destruct (compress13_enc m x Hn) as [h Hh]. rewrite Hh in Hc.
  assert (E : c = header13 h (lenN x) ++ enc_body (senc V11) (tokens 4096 x)) by congruence. subst c. clear Hc.
  rewrite app_length, enc_body_length, header13_length.
  destruct (cost_le_total V11 4096 (tokens 4096 x) (tokens_ranges 4096 x)) as [Hc Hl].
  rewrite tokens_total in *. fold (cost V11 (tokens 4096 x)).
  (* the header term is the same on both sides: keep it abstract, and keep the N hypotheses away from lia *)
  clear Hn Hh. generalize (if andb (0 <? lenN x)%N (lenN x <? 2 ^ 24)%N then 8 else 12). intros hd.
  set (C := cost V11 (tokens 4096 x)) in *. set (K := length (tokens 4096 x)) in *. clearbody C K. lia.
Qed.

(* ---------------------------------------------------------------- Part 2: periodic inputs *)
Definition periodic (p : nat) (x : list N) : Prop :=
  forall i, i + p < length x -> nth (i + p) x 0%N = nth i x 0%N.

Lemma periodic_double p x : periodic p x -> periodic (p + p) x.
Proof. intros H i Hi. rewrite Nat.add_assoc, H by lia. apply H. lia. Qed.

Lemma skipn_nth_cons (x : list N) k : k < length x -> skipn k x = nth k x 0%N :: skipn (S k) x.
Proof.
  revert k; induction x as [|a x IH]; intros k H; [cbn in H; lia|].
  destruct k as [|k]; [reflexivity|]. cbn [skipn nth]. apply IH. cbn [length] in H. lia.
Qed.

(* the candidate one period back matches for as long as the input lasts *)
Lemma cpl_periodic x d : periodic d x -> forall cap pos, d <= pos -> pos + cap <= length x ->
  cpl cap (skipn (pos - d) x) (skipn pos x) = cap.
Proof.
  intros Hper. induction cap as [|c IH]; intros pos Hd Hlen; [reflexivity|].
  rewrite (skipn_nth_cons x (pos - d)) by lia. rewrite (skipn_nth_cons x pos) by lia. cbn [cpl].
  replace (nth pos x 0%N) with (nth (pos - d) x 0%N) by (rewrite <- (Hper (pos - d)) by lia; f_equal; lia).
  rewrite N.eqb_refl. f_equal.
  replace (S (pos - d)) with (S pos - d) by lia. apply IH; lia.
Qed.

(* the search reports at least the common prefix with every candidate it was given *)
Lemma search_ge : forall n win rest newlen oldlen i best bd whole base,
  win = skipn (base + i) whole ->
  best <= fst (search n win rest newlen oldlen i best bd) /\
  forall j, i <= j < i + n -> cpl newlen (skipn (base + j) whole) rest <= fst (search n win rest newlen oldlen i best bd).
Proof.
  induction n as [|n IH]; intros win rest newlen oldlen i best bd whole base Hwin; cbn [search].
  - cbn [fst]. split; [lia | intros j Hj; lia].
  - assert (Htl : tl win = skipn (base + S i) whole) by (subst win; rewrite tl_skipn; f_equal; lia).
    pose proof (cpl_le newlen win rest) as Hle.
    destruct (Nat.ltb_spec best (cpl newlen win rest)) as [Hlt|Hge].
    + destruct (Nat.eqb_spec (cpl newlen win rest) newlen) as [E|E].
      * cbn [fst]. split; [lia|]. intros j Hj. rewrite E. apply cpl_le.
      * destruct (IH (tl win) rest newlen oldlen (S i) (cpl newlen win rest) (oldlen - i) whole base Htl) as [H1 H2].
        split; [lia|]. intros j Hj. destruct (Nat.eq_dec j i) as [->|Hne]; [rewrite <- Hwin; exact H1 | apply H2; lia].
    + destruct (IH (tl win) rest newlen oldlen (S i) best bd whole base Htl) as [H1 H2].
      split; [exact H1|]. intros j Hj. destruct (Nat.eq_dec j i) as [->|Hne]; [rewrite <- Hwin; lia | apply H2; lia].
Qed.

Section Periodic.
Variable v : version.
Variable L : nat.
Variable x : list N.
Variable d : nat.
Hypothesis HL : 3 <= L.
Hypothesis Hper : periodic d x.
Hypothesis Hd : 2 <= d <= 4096.

(* from position d on, the reported match is the whole look-ahead *)
Lemma occ_periodic pos : d <= pos -> pos < length x ->
  fst (occ x pos (Nat.min (length x - pos) L) (pos - Nat.min pos WINDOW) (Nat.min pos WINDOW)) = Nat.min (length x - pos) L.
Proof.
  intros Hpos Hlt.
  pose proof (occ_ok x pos (Nat.min (length x - pos) L) (pos - Nat.min pos WINDOW) (Nat.min pos WINDOW)) as Hok.
  unfold occ in *. unfold WINDOW in *.
  destruct (Nat.eqb_spec (Nat.min (length x - pos) L) 0) as [E|_]; [lia|].
  destruct (Nat.eqb_spec (Nat.min pos 4096) 0) as [E|_]; [lia|]. cbn [orb] in *.
  set (newlen := Nat.min (length x - pos) L) in *. set (oldlen := Nat.min pos 4096) in *.
  destruct (search_ge (oldlen - 1) (skipn (pos - oldlen) x) (skipn pos x) newlen oldlen 0 0 0 x (pos - oldlen) ltac:(f_equal; lia)) as [_ Hge].
  specialize (Hge (oldlen - d) ltac:(lia)).
  replace (pos - oldlen + (oldlen - d)) with (pos - d) in Hge by lia.
  rewrite (cpl_periodic x d Hper newlen pos) in Hge by lia.
  destruct (search (oldlen - 1) (skipn (pos - oldlen) x) (skipn pos x) newlen oldlen 0 0 0) as [l dd].
  cbn [fst] in *. destruct Hok as (Hl1 & _). lia.
Qed.

Let r := ref_bytes v.

Lemma r_ge_2 : 2 <= r.
Proof. unfold r. destruct v; cbn; lia. Qed.

(* the last one or two bytes are literals *)
Lemma tail_tiny : forall fuel pos, pos <= length x -> length x - pos <= 2 -> length x - pos <= fuel ->
  cost v (tokens_from fuel L x pos) = length x - pos /\ length (tokens_from fuel L x pos) = length x - pos.
Proof.
  induction fuel as [|fuel IH]; intros pos Hpos Hr Hf; cbn [tokens_from].
  - cbn. lia.
  - destruct (Nat.leb_spec (length x) pos) as [Hend|Hlt]; [cbn; lia|].
    pose proof (occ_ok x pos (Nat.min (length x - pos) L) (pos - Nat.min pos WINDOW) (Nat.min pos WINDOW)) as Hocc.
    destruct (occ x pos (Nat.min (length x - pos) L) (pos - Nat.min pos WINDOW) (Nat.min pos WINDOW)) as [len disp].
    destruct Hocc as (Hl1 & _ & _).
    destruct (Nat.ltb_spec len 3) as [Hsmall|Hbig]; [|lia].
    rewrite cost_cons, senc_len_lit. cbn [length].
    destruct (IH (S pos) ltac:(lia) ltac:(lia) ltac:(lia)) as [Hc Hn]. lia.
Qed.

(* from position d on: at most k references (and then at most two literals) if k look-aheads cover the rest *)
Lemma tail_main : forall fuel pos k, d <= pos <= length x -> length x - pos <= fuel -> length x - pos <= k * L ->
  cost v (tokens_from fuel L x pos) <= r * k /\ length (tokens_from fuel L x pos) <= k + 1.
Proof.
  pose proof r_ge_2 as Hr2.
  induction fuel as [|fuel IH]; intros pos k Hpos Hf Hk.
  - cbn [tokens_from]. cbn. lia.
  - destruct (Nat.le_gt_cases (length x - pos) 2) as [Htiny|Hbig].
    + destruct (tail_tiny (S fuel) pos ltac:(lia) Htiny Hf) as [Hc Hn]. rewrite Hc, Hn.
      destruct k as [|k']; [cbn in Hk; lia|]. rewrite Nat.mul_succ_r. lia.
    + cbn [tokens_from]. destruct (Nat.leb_spec (length x) pos) as [Hend|Hlt]; [lia|].
      pose proof (occ_periodic pos ltac:(lia) Hlt) as Hfull.
      destruct (occ x pos (Nat.min (length x - pos) L) (pos - Nat.min pos WINDOW) (Nat.min pos WINDOW)) as [len disp].
      cbn [fst] in Hfull. subst len.
      destruct (Nat.ltb_spec (Nat.min (length x - pos) L) 3) as [Hc|_]; [lia|].
      rewrite cost_cons. cbn [length].
      pose proof (senc_len_ref v (Nat.min (length x - pos) L) disp ltac:(lia)) as (Hb1 & Hb2 & _). fold r in Hb1.
      destruct k as [|k']; [cbn in Hk; lia|].
      destruct (Nat.le_gt_cases (length x - pos) L) as [Hlast|Hmore].
      * replace (pos + Nat.min (length x - pos) L) with (length x) by lia.
        assert (Hnil : tokens_from fuel L x (length x) = []).
        { destruct fuel as [|f]; cbn [tokens_from]; [reflexivity | rewrite Nat.leb_refl; reflexivity]. }
        rewrite Hnil. unfold cost at 1. cbn [map concat length]. rewrite Nat.mul_succ_r. lia.
      * replace (Nat.min (length x - pos) L) with L in * by lia.
        destruct (IH (pos + L) k' ltac:(lia) ltac:(lia)) as [Hc Hn].
        { rewrite Nat.mul_succ_l in Hk. lia. }
        rewrite Nat.mul_succ_r. lia.
Qed.

(* before position d: at most one token per position, the last one may reach beyond d *)
Lemma head_main : forall fuel pos k, pos < d -> pos <= length x -> length x - pos <= fuel -> length x - d <= k * L ->
  cost v (tokens_from fuel L x pos) <= (d - 1 - pos) + r + r * k /\ length (tokens_from fuel L x pos) <= (d - pos) + k + 1.
Proof.
  pose proof r_ge_2 as Hr2.
  induction fuel as [|fuel IH]; intros pos k Hpd Hpos Hf Hk; cbn [tokens_from].
  - cbn. lia.
  - destruct (Nat.leb_spec (length x) pos) as [Hend|Hlt]; [cbn; lia|].
    pose proof (occ_ok x pos (Nat.min (length x - pos) L) (pos - Nat.min pos WINDOW) (Nat.min pos WINDOW)) as Hocc.
    destruct (occ x pos (Nat.min (length x - pos) L) (pos - Nat.min pos WINDOW) (Nat.min pos WINDOW)) as [len disp].
    destruct Hocc as (Hl1 & Hl2 & _). rewrite skipn_length in Hl2.
    destruct (Nat.ltb_spec len 3) as [Hsmall|Hbig].
    + rewrite cost_cons, senc_len_lit. cbn [length].
      destruct (Nat.lt_ge_cases (S pos) d) as [Hin|Hout].
      * destruct (IH (S pos) k Hin ltac:(lia) ltac:(lia) Hk) as [Hc Hn]. lia.
      * destruct (tail_main fuel (S pos) k ltac:(lia) ltac:(lia) ltac:(lia)) as [Hc Hn]. lia.
    + rewrite cost_cons. cbn [length].
      pose proof (senc_len_ref v len disp Hbig) as (Hb1 & Hb2 & _). fold r in Hb1.
      destruct (Nat.lt_ge_cases (pos + len) d) as [Hin|Hout].
      * destruct (IH (pos + len) k Hin ltac:(lia) ltac:(lia) Hk) as [Hc Hn]. lia.
      * destruct (tail_main fuel (pos + len) k ltac:(lia) ltac:(lia) ltac:(lia)) as [Hc Hn]. lia.
Qed.

Lemma periodic_tokens k : length x - d <= k * L ->
  cost v (tokens L x) <= (d - 1) + r + r * k /\ length (tokens L x) <= d + k + 1.
Proof.
  intros Hk. unfold tokens.
  destruct (head_main (length x) 0 k ltac:(lia) ltac:(lia) ltac:(lia) Hk) as [Hc Hn]. lia.
Qed.
End Periodic.

(* the displacement the argument uses: the period itself, or 2 for period 1 (the search starts at 2) *)
Lemma periodic_disp p x : periodic p x -> 1 <= p <= 4096 ->
  exists d, periodic d x /\ 2 <= d <= 4096 /\ d <= p + 1 /\ p <= d.
Proof.
  intros Hper Hp. destruct (Nat.eq_dec p 1) as [->|Hne].
  - exists 2. split; [apply (periodic_double 1 x Hper) | lia].
  - exists p. split; [exact Hper | lia].
Qed.

Theorem compress10_periodic p x : periodic p x -> 1 <= p <= 4096 ->
  let refs := (length x - p + 17) / 18 + 1 in
  length (compress10 x) <= 4 + (p + 2) + 2 * refs + ((p + 2) + refs + 7) / 8.
Proof.
  intros Hper Hp refs. destruct (periodic_disp p x Hper Hp) as (d & Hd & Hd2 & Hd3 & Hd4).
  destruct (periodic_tokens V10 18 x d ltac:(lia) Hd Hd2 ((length x - p + 17) / 18)) as [Hc Hn]; [lia|].
  rewrite compress10_enc, app_length, enc_body_length. cbn [header10 length]. fold (cost V10 (tokens 18 x)).
  cbn [ref_bytes] in Hc. subst refs. lia.
Qed.

Theorem compress13_periodic m p x c : periodic p x -> 1 <= p <= 4096 -> (lenN x < 2 ^ 63)%N -> compress13 m x = Ok c ->
  let refs := (length x - p + 4095) / 4096 + 1 in
  length c <= (if andb (0 <? lenN x)%N (lenN x <? 2 ^ 24)%N then 8 else 12) + (p + 2) + 4 * refs + ((p + 2) + refs + 7) / 8.
Proof.
  intros Hper Hp Hn Hc refs. destruct (periodic_disp p x Hper Hp) as (d & Hd & Hd2 & Hd3 & Hd4).
  destruct (periodic_tokens V11 4096 x d ltac:(lia) Hd Hd2 ((length x - p + 4095) / 4096)) as [Hco Hnn]; [lia|].
  destruct (compress13_enc m x Hn) as [h Hh]. rewrite Hh in Hc.
  assert (E : c = header13 h (lenN x) ++ enc_body (senc V11) (tokens 4096 x)) by congruence. subst c. clear Hc.
  rewrite app_length, enc_body_length, header13_length. fold (cost V11 (tokens 4096 x)).
  cbn [ref_bytes] in Hco. subst refs.
  clear Hn Hh Hper Hd. generalize (if andb (0 <? lenN x)%N (lenN x <? 2 ^ 24)%N then 8 else 12). intros hd.
  set (C := cost V11 (tokens 4096 x)) in *. set (K := length (tokens 4096 x)) in *. clearbody C K. lia.
Qed.
