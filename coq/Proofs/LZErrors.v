(* C11: the named error classes through the entry points (final forms used by Properties/C11.v). *)
From Coq Require Import List NArith Arith Lia Bool ZifyBool ZifyNat ZifyN.
From Mila Require Import Lib.Bytes Lib.Machine Model.LZCore Model.LZSpec Model.LZDecode
  Proofs.LZDecodeProofs Proofs.LZConforming Proofs.LZTotal Proofs.LZTruncated Proofs.LZBackref.
Import ListNotations.
Local Open Scope N_scope.

Theorem empty_is_error m :
  lz10_decompress m [] = Err EInvalidInput /\ lz13_decompress m [] = Err EInvalidInput /\
  cf_decompress CF10 m [] = Err EInvalidInput /\ cf_decompress CF13 m [] = Err EInvalidInput.
Proof. repeat split; reflexivity. Qed.

Theorem short_is_error m s : (length s < 4)%nat ->
  lz10_decompress m s = Err EInvalidInput /\ lz13_decompress m s = Err EInvalidInput.
Proof. intros H. split; [apply lz_short | apply lz13_short]; exact H. Qed.

Theorem unknown_type_is_error m t s :
  (t <> 0x10 -> t <> 0x11 -> lz10_decompress m (t :: s) = Err EInvalidInput) /\
  (t <> 0x10 -> t <> 0x11 -> t <> 0x13 -> t <> 0 -> lz13_decompress m (t :: s) = Err EInvalidInput) /\
  (forall a b c, t <> 0x10 -> t <> 0x11 -> lz13_decompress m (0x13 :: a :: b :: c :: t :: s) = Err EInvalidInput).
Proof.
  split; [|split].
  - intros H0 H1. apply lz_unknown_type; assumption.
  - intros H0 H1 H13 Hz. destruct s as [|a [|b [|c r]]]; try (apply lz13_short; cbn; lia).
    rewrite lz13_bare by assumption. apply lz_unknown_type; assumption.
  - intros a b c H0 H1. rewrite lz13_wrapped. apply lz_unknown_type; assumption.
Qed.

(* every strict prefix of a well-formed stream: bare through both entry points, and inside the wrapper *)
Theorem truncated_is_error m v s n ts p e : sparse v s = Some (n, ts) -> s = p ++ e -> e <> [] ->
  lz10_decompress m p = Err EInvalidInput /\
  lz13_decompress m p = Err EInvalidInput /\
  (forall a b c, lz13_decompress m (0x13 :: a :: b :: c :: p) = Err EInvalidInput).
Proof.
  intros Hs Hsplit He.
  assert (Hd : decompress_lz m p = Err EInvalidInput).
  { destruct v; [eapply truncated10 | eapply truncated11]; eassumption. }
  split; [exact Hd|]. split; [|intros a b c; rewrite lz13_wrapped; exact Hd].
  destruct p as [|t [|a [|b [|c r]]]]; try (apply lz13_short; cbn; lia).
  (* the type byte of the prefix is the type byte of the stream: 0x10 or 0x11 *)
  assert (Ht : t = 16 \/ t = 17).
  { destruct v; cbn [sparse] in Hs.
    - destruct (sparse10_inv _ _ _ Hs) as (_ & l0 & l1 & l2 & body & E & _). rewrite E in Hsplit. inversion Hsplit. auto.
    - destruct (sparse11_inv _ _ _ Hs) as (_ & l0 & l1 & l2 & body & E & _). rewrite E in Hsplit. inversion Hsplit. auto. }
  rewrite lz13_bare by (destruct Ht; subst t; discriminate). exact Hd.
Qed.

(* a reference before the start of the output, after any legal token sequence, followed by anything *)
Theorem backref_is_error m v ext n ts len disp junk :
  (3 <= len <= max_len v)%nat -> (1 <= disp <= 4096)%nat ->
  valid v ts -> (total_len ts < disp)%nat -> N.of_nat (total_len ts) < n -> size_fits v ext n -> wfb junk ->
  let s := sheader v ext n ++ enc_body (senc v) (ts ++ [Ref len disp]) ++ junk in
  lz10_decompress m s = Err EInvalidInput /\ lz13_decompress m s = Err EInvalidInput /\
  (forall a b c, lz13_decompress m (0x13 :: a :: b :: c :: s) = Err EInvalidInput).
Proof.
  intros Hl Hd Hv Hbad Hn Hfit Hwj s.
  assert (Hdec : decompress_lz m s = Err EInvalidInput) by (apply backref_error; assumption).
  split; [exact Hdec|]. split; [|intros a b c; rewrite lz13_wrapped; exact Hdec].
  subst s. destruct v; cbn [sheader] in *.
  - cbn [enc_le app] in *. rewrite lz13_bare by lia. exact Hdec.
  - destruct ext; cbn [enc_le app] in *; rewrite lz13_bare by lia; exact Hdec.
Qed.

Theorem dispatch f m bytes :
  cf_decompress f m bytes = match f with CF10 => lz10_decompress m bytes | CF13 => lz13_decompress m bytes end.
Proof. reflexivity. Qed.

Theorem entry_points_total m bytes :
  ((exists a, lz10_decompress m bytes = Ok a) \/ lz10_decompress m bytes = Err EInvalidInput) /\
  ((exists a, lz13_decompress m bytes = Ok a) \/ lz13_decompress m bytes = Err EInvalidInput) /\
  (forall f, (exists a, cf_decompress f m bytes = Ok a) \/ cf_decompress f m bytes = Err EInvalidInput).
Proof.
  destruct (decoders_total m bytes) as [H10 H13]. split; [exact H10|]. split; [exact H13|].
  intros []; assumption.
Qed.

Theorem mode_independent m m' bytes :
  lz10_decompress m bytes = lz10_decompress m' bytes /\ lz13_decompress m bytes = lz13_decompress m' bytes.
Proof. split; [apply decompress_lz_mode | apply lz13_decompress_mode]. Qed.

(* non-vacuity witness used by Properties/C11.v *)
Lemma example_conforming :
  let ts := [Lit 7; Ref 300 1; Lit 8; Ref 20 2; Ref 3 301] in
  valid V11 ts /\ size_fits V11 true 325 /\
  sparse V11 (sheader V11 true 325 ++ enc_body (senc V11) ts) = Some (325, ts) /\
  lz13_decompress Checked (0x13 :: 1 :: 2 :: 3 :: sheader V11 true 325 ++ enc_body (senc V11) ts)
    = Ok (repeat 7 301 ++ [8; 7; 8; 7; 8; 7; 8; 7; 8; 7; 8; 7; 8; 7; 8; 7; 8; 7; 8; 7; 8] ++ [7; 7; 7]).
Proof.
  cbv zeta. split; [|split; [|split]].
  - unfold valid. cbn [valid_from max_len]. repeat split; lia.
  - cbn [size_fits]. change (2 ^ 32) with 4294967296. lia.
  - vm_compute. reflexivity.
  - vm_compute. reflexivity.
Qed.

(* every parser-accepted stream through every entry point (review r3, C11 issue 2) *)
Lemma sparse_shape v s n ts : sparse v s = Some (n, ts) ->
  exists t a b c r, s = t :: a :: b :: c :: r /\ (t = 0x10 \/ t = 0x11).
Proof.
  destruct v; cbn [sparse]; unfold sparse10, sparse11; destruct (wfbb s); cbn [negb]; try discriminate;
  destruct s as [|t [|a [|b [|c r]]]]; try discriminate.
  all: try (destruct t as [|p]; try discriminate; repeat (destruct p; try discriminate)).
  all: intros _; repeat eexists; auto.
Qed.

Theorem decode_sparse_entry_points m v s n ts : sparse v s = Some (n, ts) ->
  exists x, expand ts = Some x /\ lenN x = n /\
    lz10_decompress m s = Ok x /\ lz13_decompress m s = Ok x /\
    (forall a b c, lz13_decompress m (0x13 :: a :: b :: c :: s) = Ok x) /\
    cf_decompress CF10 m s = Ok x /\ cf_decompress CF13 m s = Ok x.
Proof.
  intros H. destruct (decode_sparse m v s n ts H) as (x & He & Hd & Hl).
  destruct (sparse_shape _ _ _ _ H) as (t & a & b & c & r & -> & Ht).
  assert (Hb : lz13_decompress m (t :: a :: b :: c :: r) = Ok x).
  { rewrite lz13_bare; [exact Hd| |]; destruct Ht; subst; discriminate. }
  exists x. split; [exact He|]. split; [exact Hl|]. split; [exact Hd|]. split; [exact Hb|].
  split; [intros a' b' c'; rewrite lz13_wrapped; exact Hd|]. split; [exact Hd | exact Hb].
Qed.

(* the extended LZ11 header cut short *)
Theorem short_ext_header_is_error m r : (length r < 4)%nat ->
  lz10_decompress m (0x11 :: 0 :: 0 :: 0 :: r) = Err EInvalidInput /\
  lz13_decompress m (0x11 :: 0 :: 0 :: 0 :: r) = Err EInvalidInput /\
  (forall a b c, lz13_decompress m (0x13 :: a :: b :: c :: 0x11 :: 0 :: 0 :: 0 :: r) = Err EInvalidInput).
Proof.
  intros H.
  assert (Hd : decompress_lz m (0x11 :: 0 :: 0 :: 0 :: r) = Err EInvalidInput).
  { destruct r as [|r0 [|r1 [|r2 [|r3 r]]]]; cbn [length] in H; try lia; reflexivity. }
  split; [exact Hd|]. split; [rewrite lz13_bare by (intro; discriminate); exact Hd|].
  intros a b c. rewrite lz13_wrapped. exact Hd.
Qed.
