(* C05, bin archive: the allocation bound for EVERY input (review item C05-3).
   Model/BinFormatRun.v logs the request of `archive.data.resize(data_size, 0)` on every path that reaches it - also
   when the data read, the pointer loop or the label loop fails afterwards.  Here:
     from_bytes_run_outcome : snd (from_bytes_run e f) = from_bytes e f          (the same function, every input)
     from_bytes_allocs_bounded : Forall (fun r => r + 32 <= lenN f) (from_bytes_allocs e f)      (every input)
     from_bytes_allocs_request : from_bytes_allocs e f = match resize_request e f with Some r => [r] | None => [] end
     from_bytes_alloc_run      : from_bytes_alloc e f = Ok (a, r) -> from_bytes_run e f = ([r], Ok a)
     from_bytes_allocs_after_checks : a request is logged iff both header checks passed (and then it is data_size) *)
From Coq Require Import List NArith ZArith Bool Lia ZifyBool ZifyNat ZifyN.
From Mila Require Import Lib.Bytes Lib.Machine Model.BinArchive Model.BinFormat Model.BinFormatRun Proofs.BinAccess Proofs.BinFormatSpec Proofs.BinTotal.
Import ListNotations.
Local Open Scope N_scope.

Theorem from_bytes_run_outcome e f : snd (from_bytes_run e f) = from_bytes e f.
Proof.
  unfold from_bytes_run, from_bytes, from_bytes_alloc. destruct (lenN f <? 32); [reflexivity|].
  destruct (u32_file e f 4) as [dsz|x|p]; cbn [bind snd]; try reflexivity.
  destruct (u32_file e f 8) as [pc|x|p]; cbn [bind snd]; try reflexivity.
  destruct (u32_file e f 12) as [lc|x|p]; cbn [bind snd]; try reflexivity.
  destruct (lenN f <? dsz + 4 * pc + 8 * lc + 32); cbn [bind snd]; [reflexivity|].
  destruct (of_option EIo (sliceN 32 dsz f)) as [d|x|p]; cbn [bind]; try reflexivity.
  destruct (ptr_loop _ _ _ _ _ _ _) as [a1|x|p]; cbn [bind]; try reflexivity.
  destruct (lbl_loop _ _ _ _ _ _ _) as [a2|x|p]; cbn [bind fst]; reflexivity.
Qed.

Theorem from_bytes_allocs_request e f :
  from_bytes_allocs e f = match resize_request e f with Some r => [r] | None => [] end.
Proof.
  unfold from_bytes_allocs, from_bytes_run, resize_request, u32_file. destruct (lenN f <? 32); [reflexivity|].
  destruct (u32_at e f 4) as [dsz|]; cbn [of_option fst]; [|reflexivity].
  destruct (u32_at e f 8) as [pc|]; cbn [of_option fst]; [|reflexivity].
  destruct (u32_at e f 12) as [lc|]; cbn [of_option fst]; [|reflexivity].
  destruct (lenN f <? dsz + 4 * pc + 8 * lc + 32); reflexivity.
Qed.

(* the bound, for every byte string - whatever from_bytes returns *)
Theorem from_bytes_allocs_bounded e f : Forall (fun r => r + 32 <= lenN f) (from_bytes_allocs e f).
Proof.
  rewrite from_bytes_allocs_request. destruct (resize_request e f) as [r|] eqn:E; [|constructor].
  constructor; [exact (resize_request_bounded e f r E) | constructor].
Qed.

(* a request is made exactly when the buffer has a header and the declared sections fit; it is the data_size field *)
Theorem from_bytes_allocs_after_checks e f r : In r (from_bytes_allocs e f) <->
  32 <= lenN f /\ exists pc lc, u32_at e f 4 = Some r /\ u32_at e f 8 = Some pc /\ u32_at e f 12 = Some lc /\
                                 r + 4 * pc + 8 * lc + 32 <= lenN f.
Proof.
  rewrite from_bytes_allocs_request. unfold resize_request. destruct (N.ltb_spec (lenN f) 32) as [L|L].
  - split; [intros [] | intros (H & _); lia].
  - destruct (u32_at e f 4) as [dsz|]; [|split; [intros [] | intros (_ & pc & lc & H & _); discriminate]].
    destruct (u32_at e f 8) as [pc|]; [|split; [intros [] | intros (_ & pc' & lc' & _ & H & _); discriminate]].
    destruct (u32_at e f 12) as [lc|]; [|split; [intros [] | intros (_ & pc' & lc' & _ & _ & H & _); discriminate]].
    destruct (N.ltb_spec (lenN f) (dsz + 4 * pc + 8 * lc + 32)) as [T|T].
    + split; [intros [] | intros (_ & pc' & lc' & H1 & H2 & H3 & H4)]. inversion H1; inversion H2; inversion H3; subst. lia.
    + split.
      * intros [E|[]]. subst r. split; [exact L|]. exists pc, lc. repeat split; try reflexivity. lia.
      * intros (_ & pc' & lc' & H1 & _). inversion H1; subst. left. reflexivity.
Qed.

(* the old interface (request returned on the Ok path only) is an instance *)
Theorem from_bytes_alloc_run e f a r : from_bytes_alloc e f = Ok (a, r) -> from_bytes_run e f = ([r], Ok a).
Proof.
  intros H. pose proof (from_bytes_run_outcome e f) as O. unfold from_bytes in O. rewrite H in O. cbn [bind fst] in O.
  pose proof (from_bytes_allocs_request e f) as R. rewrite (from_bytes_alloc_is_request e f a r H) in R.
  unfold from_bytes_allocs in R. destruct (from_bytes_run e f) as [lg o]. cbn [fst snd] in *. subst. reflexivity.
Qed.

(* an input that passes the header checks and then fails in the pointer table still has its request logged and bounded:
   data_size = 4, one pointer whose cell address 0xFFFFFFFF lies outside the data *)
Example alloc_logged_on_error_path :
  let f := enc LE 4 40 ++ enc LE 4 4 ++ enc LE 4 1 ++ enc LE 4 0 ++ zeros 16 ++ [1;2;3;4] ++ enc LE 4 4294967295 in
  from_bytes_run LE f = ([4], Err EOob) /\ from_bytes_alloc LE f = Err EOob.
Proof. cbn zeta. split; vm_compute; reflexivity. Qed.
