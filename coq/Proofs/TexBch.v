(* C20, BCH: bch::read returns the decoding of every packed texture on every conforming file; prefixes of
   conforming files are read without panic and rejected when a payload byte is missing; checker sound. *)
From Coq Require Import List NArith ZArith Arith Lia Bool ZifyBool ZifyNat ZifyN.
From Mila Require Import Lib.Bytes Lib.BytesExtra Lib.Machine Model.Pixel Model.Etc1 Model.TexCommon Model.TexFormat
  Model.Bch Proofs.TexBase.
Import ListNotations.
Local Open Scope N_scope.
Ltac Zify.zify_post_hook ::= Z.div_mod_to_equations.

Ltac known :=
  first [ erewrite rd32_some by eassumption | erewrite rd16_some by eassumption | erewrite rd8_some by eassumption ];
  cbn [bind].
Ltac some32 := match goal with |- context [bind (rd32 ?e ?f ?p) _] =>
  let v := fresh "v" in let E := fresh "E" in destruct (rd32_in e f p) as (v & E); [lia | rewrite E; cbn [bind]; clear E v] end.
Ltac some16 := match goal with |- context [bind (rd16 ?e ?f ?p) _] =>
  let v := fresh "v" in let E := fresh "E" in destruct (rd16_in e f p) as (v & E); [lia | rewrite E; cbn [bind]; clear E v] end.
Ltac some8 := match goal with |- context [bind (rd8 ?f ?p) _] =>
  let v := fresh "v" in let E := fresh "E" in destruct (rd8_in f p) as (v & E); [lia | rewrite E; cbn [bind]; clear E v] end.

Definition hdr_of (a : bch_addrs) : bch_header := mkBHdr (ba_contents a) (ba_strings a) (ba_commands a) (ba_raw a).

(* the file is long enough for the header as the code reads it *)
Lemma bch_header_ok f a : bch_header_at f a -> ba_contents a + 0x2C <= lenN f -> bch_read_header f = Ok (hdr_of a).
Proof.
  intros (Hmagic & (bc & Hbc & Hhl) & Hca & Hsa & Hcma & Hra) Hlen.
  assert (L : 100 <= lenN f) by (destruct (0x20 <? bc); lia).
  unfold bch_read_header. known. unfold BCH_FMAGIC, BCH_MAGIC. cbn [N.eqb Pos.eqb guard bind].
  known. some8. some16. do 4 known. unfold BCH_EXT.
  destruct (20 <? bc); repeat some32; reflexivity.
Qed.

Section BchFile.
Variable f : bytes.
Variable a : bch_addrs.
Hypothesis Hsmall : lenN f < 2 ^ 32.

Lemma bch_table_ok m : u32_at LE f (ba_contents a + 0x24) = Some (ba_table a) -> forall n,
  u32_at LE f (ba_contents a + 0x28) = Some n -> ba_contents a + ba_table a <= lenN f ->
  bch_content_table m f (ba_contents a) = Ok (ba_table a + ba_contents a, n).
Proof.
  intros Ht n Hn Hle. pose proof (u32_at_le _ _ _ _ Hn).
  unfold bch_content_table. rewrite add32_ok by lia. cbn [bind]. known.
  rewrite add32_ok by lia. cbn [bind].
  replace (ba_contents a + 36 + 4) with (ba_contents a + 0x28) by lia. known. reflexivity.
Qed.

Lemma bch_texture_ok m i t : bch_entry f a i t -> f32_exact t ->
  bch_texture m f (hdr_of a) (ba_table a + ba_contents a) i = decode_tex m t.
Proof.
  intros (dest & c0 & noff & d0 & Hdest & Hc0 & Hnoff & Hname & Hh & Hw & Hd0 & Hfmt & Hd & (Hv & Hsz & _)) Hx.
  unfold f32_exact in Hx.
  pose proof (u32_at_le _ _ _ _ Hdest). pose proof (u32_at_le _ _ _ _ Hc0). pose proof (u32_at_le _ _ _ _ Hnoff).
  pose proof (cstr_atN_bound _ _ _ Hname). pose proof (u16_at_le _ _ _ _ Hh). pose proof (u32_at_le _ _ _ _ Hd0).
  pose proof (sliceN_bound _ _ _ _ Hd).
  unfold bch_texture, hdr_of. cbn [bh_contents bh_strings bh_commands bh_raw].
  rewrite mul32_ok by lia. cbn [bind]. rewrite add32_ok by lia. cbn [bind].
  replace (ba_table a + ba_contents a + i * 4) with (ba_contents a + ba_table a + 4 * i) by lia. known.
  rewrite add32_ok by lia. cbn [bind]. replace (dest + ba_contents a) with (ba_contents a + dest) by lia. known.
  rewrite add32_ok by lia. cbn [bind]. known.
  rewrite add32_ok by lia. cbn [bind]. rewrite (read_name_cstr _ _ _ _ Hname Hv). cbn [bind].
  replace (c0 + ba_commands a) with (ba_commands a + c0) by lia. do 3 known.
  rewrite add32_ok by lia. cbn [bind]. known.
  replace (d0 + ba_raw a) with (ba_raw a + d0) by lia. rewrite Hx, <- Hsz, (rd_exact_some _ _ _ Hd). cbn [bind].
  unfold decode_tex. reflexivity.
Qed.

Lemma bch_loop_ok m : forall texs i fuel, (length texs <= fuel)%nat ->
  (forall j t, nth_error texs j = Some t -> bch_entry f a (i + N.of_nat j) t) -> Forall f32_exact texs ->
  bch_loop fuel m f (hdr_of a) (ba_table a + ba_contents a) i (i + N.of_nat (length texs)) = decode_all (decode_tex m) texs.
Proof.
  induction texs as [|t r IH]; intros i fuel Hfuel H Hx.
  - cbn [length]. rewrite N.add_0_r. destruct fuel; cbn [bch_loop]; rewrite N.leb_refl; reflexivity.
  - inversion Hx as [|? ? Hx0 Hxr]; subst.
    destruct fuel as [|fuel]; [cbn in Hfuel; lia|]. cbn [length] in *. cbn [bch_loop].
    destruct (N.leb_spec (i + N.of_nat (S (length r))) i) as [?|_]; [lia|].
    rewrite (bch_texture_ok m i t) by (try exact Hx0; specialize (H 0%nat t eq_refl); rewrite N.add_0_r in H; exact H).
    replace (i + N.of_nat (S (length r))) with (i + 1 + N.of_nat (length r)) by lia.
    rewrite IH; [reflexivity | lia | | exact Hxr].
    intros j t' Hj. specialize (H (S j) t' Hj). replace (i + 1 + N.of_nat j) with (i + N.of_nat (S j)) by lia. exact H.
Qed.
End BchFile.

Lemma bch_fuel f a texs : (forall i t, nth_error texs i = Some t -> bch_entry f a (N.of_nat i) t) ->
  (length texs <= S (length f))%nat.
Proof.
  intros H. destruct texs as [|t0 r] eqn:E; [cbn; lia|]. rewrite <- E in *.
  assert (Hn : (0 < length texs)%nat) by (rewrite E; cbn; lia).
  destruct (nth_error texs (length texs - 1)) as [t|] eqn:Et.
  2:{ apply nth_error_None in Et. lia. }
  destruct (H _ t Et) as (dest & c0 & noff & d0 & Hdest & _).
  apply u32_at_le in Hdest. unfold lenN in Hdest. lia.
Qed.

Theorem read_bch_correct : forall m f texs, conforms_bch f texs -> Forall f32_exact texs ->
  read_bch m f = decode_all (decode_tex m) texs.
Proof.
  intros m f texs (Hsmall & a & Hhdr & Htab & Hn & Htle & Hent) Hx.
  unfold read_bch. rewrite (bch_header_ok f a Hhdr) by (apply u32_at_le in Hn; lia). cbn [bind hdr_of bh_contents].
  rewrite (bch_table_ok f a Hsmall m Htab _ Hn Htle). cbn [bind].
  pose proof (bch_loop_ok f a Hsmall m texs 0 (S (length f)) (bch_fuel f a texs Hent)) as E.
  rewrite N.add_0_l in E. apply E; [|exact Hx]. intros j t Hj. rewrite N.add_0_l. apply Hent, Hj.
Qed.

(* ---------------------------------------------------------------- prefixes *)
Ltac mono := repeat first [ apply le_refl | apply le_bind; [ solve [auto with texmono | destruct (_ <? _); auto with texmono] | intros ? ] ].

Lemma bch_header_le g r : le_out (bch_read_header g) (bch_read_header (g ++ r)).
Proof. unfold bch_read_header. mono. Qed.
Lemma bch_table_le m g r ca : le_out (bch_content_table m g ca) (bch_content_table m (g ++ r) ca).
Proof. unfold bch_content_table. mono. Qed.

Lemma no_panic_map_ok {A B} (c : outcome A) (F : A -> B) : no_panic c -> no_panic (x <- c ;; Ok (F x)).
Proof. destruct c; cbn; tauto. Qed.
Lemma no_panic_map_inv {A B} (c : outcome A) (F : A -> B) : no_panic (x <- c ;; Ok (F x)) -> no_panic c.
Proof. destruct c; cbn; tauto. Qed.

Section BchPrefix.
Variables g r : bytes.
Variable a : bch_addrs.
Variable m : mode.
Hypothesis Hsmall : lenN (g ++ r) < 2 ^ 32.
Hypothesis Hca : u32_at LE (g ++ r) 8 = Some (ba_contents a).
Hypothesis Hcma : u32_at LE (g ++ r) 16 = Some (ba_commands a).
Hypothesis Hra : u32_at LE (g ++ r) 20 = Some (ba_raw a).
Hypothesis Htab : u32_at LE (g ++ r) (ba_contents a + 0x24) = Some (ba_table a).

Definition bch_cut (i : N) (t : tex) : Prop :=
  exists off, bch_payload_at (g ++ r) i off /\ cuts (lenN g) off (t_data t).

Lemma bch_texture_prefix i t : bch_entry (g ++ r) a i t -> f32_exact t -> no_panic (decode_tex m t) ->
  good (bch_cut i t) (bch_texture m g (hdr_of a) (ba_table a + ba_contents a) i).
Proof.
  intros (dest & c0 & noff & d0 & Hdest & Hc0 & Hnoff & Hname & Hh & Hw & Hd0 & Hfmt & Hd & (Hv & Hsz & _)) Hx Hdec.
  unfold f32_exact in Hx.
  pose proof (u32_at_le _ _ _ _ Hdest). pose proof (u32_at_le _ _ _ _ Hc0). pose proof (u32_at_le _ _ _ _ Hnoff).
  pose proof (cstr_atN_bound _ _ _ Hname). pose proof (u16_at_le _ _ _ _ Hh). pose proof (u32_at_le _ _ _ _ Hd0).
  pose proof (sliceN_bound _ _ _ _ Hd).
  unfold bch_texture, hdr_of. cbn [bh_contents bh_strings bh_commands bh_raw].
  apply good_mul32; [lia|]. apply good_add32; [lia|].
  replace (ba_table a + ba_contents a + i * 4) with (ba_contents a + ba_table a + 4 * i) by lia.
  eapply (good_rd32 g r); [exact Hdest|]. apply good_add32; [lia|].
  replace (dest + ba_contents a) with (ba_contents a + dest) by lia.
  eapply (good_rd32 g r); [exact Hc0|]. apply good_add32; [lia|].
  eapply (good_rd32 g r); [exact Hnoff|]. apply good_add32; [lia|].
  apply good_name. intros s.
  replace (c0 + ba_commands a) with (ba_commands a + c0) by lia.
  eapply (good_rd16 g r); [exact Hh|]. eapply (good_rd16 g r); [exact Hw|]. eapply (good_rd32 g r); [exact Hd0|].
  apply good_add32; [lia|]. eapply (good_rd32 g r); [exact Hfmt|].
  replace (d0 + ba_raw a) with (ba_raw a + d0) by lia. rewrite Hx, <- Hsz.
  apply (good_exact g r); [exact Hd| |].
  - intros (off & (ca' & cma' & ra' & toff' & dest' & c0' & d0' & E1 & E2 & E3 & E4 & E5 & E6 & E7 & ->) & Hcuts).
    assert (ca' = ba_contents a) by congruence. subst ca'. assert (cma' = ba_commands a) by congruence. subst cma'.
    assert (ra' = ba_raw a) by congruence. subst ra'. assert (toff' = ba_table a) by congruence. subst toff'.
    assert (dest' = dest) by congruence. subst dest'. assert (c0' = c0) by congruence. subst c0'.
    assert (d0' = d0) by congruence. subst d0'. exact Hcuts.
  - apply no_panic_map_ok. unfold decode_tex in Hdec. apply no_panic_map_inv in Hdec. exact Hdec.
Qed.

Lemma bch_loop_prefix : forall texs i fuel,
  (forall j t, nth_error texs j = Some t -> bch_entry (g ++ r) a (i + N.of_nat j) t) ->
  Forall f32_exact texs -> Forall (fun t => no_panic (decode_tex m t)) texs ->
  good (exists j t, nth_error texs j = Some t /\ bch_cut (i + N.of_nat j) t)
       (bch_loop fuel m g (hdr_of a) (ba_table a + ba_contents a) i (i + N.of_nat (length texs))).
Proof.
  induction texs as [|t rr IH]; intros i fuel H Hx Hdec.
  - cbn [length]. rewrite N.add_0_r. split.
    + destruct fuel; cbn [bch_loop]; rewrite N.leb_refl; exact I.
    + intros ([|j] & t & Hj & _); discriminate.
  - inversion Hdec as [|? ? Hd0 Hdr]; subst. inversion Hx as [|? ? Hx0 Hxr]; subst. cbn [length].
    destruct fuel as [|fuel]; cbn [bch_loop];
      (destruct (N.leb_spec (i + N.of_nat (S (length rr))) i) as [?|_]; [lia|]); [apply good_err; exact I|].
    replace (i + N.of_nat (S (length rr))) with (i + 1 + N.of_nat (length rr)) by lia.
    eapply good_loop_step; [| apply (bch_texture_prefix i t); [|exact Hx0|exact Hd0] | apply (IH (i + 1) fuel); [|exact Hxr|exact Hdr]].
    + intros ([|j] & t' & Hj & Hc); cbn [nth_error] in Hj.
      * inversion Hj; subst. left. rewrite N.add_0_r in Hc. exact Hc.
      * right. exists j, t'. split; [exact Hj|]. replace (i + 1 + N.of_nat j) with (i + N.of_nat (S j)) by lia. exact Hc.
    + specialize (H 0%nat t eq_refl). rewrite N.add_0_r in H. exact H.
    + intros j t' Hj. specialize (H (S j) t' Hj). replace (i + 1 + N.of_nat j) with (i + N.of_nat (S j)) by lia. exact H.
Qed.
End BchPrefix.

Theorem bch_prefix : forall m f texs k, conforms_bch f texs -> Forall f32_exact texs ->
  Forall (fun t => no_panic (decode_tex m t)) texs -> k < lenN f ->
  no_panic (read_bch m (firstn (N.to_nat k) f)) /\
  (forall i t off, nth_error texs i = Some t -> bch_payload_at f (N.of_nat i) off -> cuts k off (t_data t) ->
     is_err (read_bch m (firstn (N.to_nat k) f))).
Proof.
  intros m f texs k Hc Hx Hdec Hk.
  set (g := firstn (N.to_nat k) f). set (r := skipn (N.to_nat k) f).
  assert (Ef : f = g ++ r) by (symmetry; apply firstn_skipn).
  assert (Lg : lenN g = k) by (apply lenN_firstn; lia).
  pose proof Hc as (Hsmall & a & Hhdr & Htab & Hn & Htle & Hent).
  pose proof Hhdr as (_ & _ & Hca & _ & Hcma & Hra).
  assert (Hh : bch_read_header f = Ok (hdr_of a)) by (apply bch_header_ok; [exact Hhdr | apply u32_at_le in Hn; lia]).
  pose proof (bch_table_ok f a Hsmall m Htab _ Hn Htle) as Ht.
  unfold read_bch.
  pose proof (bch_header_le g r) as L1. rewrite <- Ef, Hh in L1.
  destruct (le_out_ok _ _ L1) as [-> | E1].
  2:{ split; [apply is_err_no_panic|intros ? ? ? _ _ _]; apply is_err_bind, E1. }
  cbn [bind hdr_of bh_contents].
  pose proof (bch_table_le m g r (ba_contents a)) as L2. rewrite <- Ef, Ht in L2.
  destruct (le_out_ok _ _ L2) as [-> | E2].
  2:{ split; [apply is_err_no_panic|intros ? ? ? _ _ _]; apply is_err_bind, E2. }
  cbn [bind]. rewrite Ef in Hsmall, Hca, Hcma, Hra, Htab.
  pose proof (bch_loop_prefix g r a m Hsmall Hca Hcma Hra Htab texs 0 (S (length g))) as P.
  rewrite N.add_0_l in P. fold (hdr_of a). destruct P as (Pn & Pc); [|exact Hx|exact Hdec|].
  { intros j t Hj. rewrite N.add_0_l, <- Ef. apply Hent, Hj. }
  split; [exact Pn|]. intros i t off Hi Hpay Hcuts. apply Pc.
  exists i, t. split; [exact Hi|]. exists off. rewrite N.add_0_l, <- Ef, Lg. split; assumption.
Qed.

(* ---------------------------------------------------------------- the checker *)
Lemma bch_entryb_sound f a i t : bch_entryb f a i t = true -> bch_entry f a i t.
Proof.
  unfold bch_entryb, bch_entry.
  destruct (u32_at LE f (ba_contents a + ba_table a + 4 * i)) as [dest|] eqn:E0; [|discriminate].
  destruct (u32_at LE f (ba_contents a + dest)) as [c0|] eqn:E1; [|discriminate].
  destruct (u32_at LE f (ba_contents a + dest + 28)) as [noff|] eqn:E2; [|discriminate].
  destruct (u32_at LE f (ba_commands a + c0 + 16)) as [d0|] eqn:E3; [|discriminate].
  intros H. repeat (apply andb_prop in H; destruct H as [H ?]).
  repeat match goal with
  | Hx : oN_eqb _ _ = true |- _ => apply oN_eqb_spec in Hx
  | Hx : ob_eqb _ _ = true |- _ => apply ob_eqb_spec in Hx
  | Hx : tex3ds_wfb _ _ = true |- _ => apply tex3ds_wfb_spec in Hx
  end.
  exists dest, c0, noff, d0. tauto.
Qed.

Theorem conforms_bchb_sound : forall f texs, conforms_bchb f texs = true -> conforms_bch f texs.
Proof.
  intros f texs H. unfold conforms_bchb in H. apply andb_prop in H. destruct H as [H Hrest].
  apply andb_prop in H. destruct H as [Hlen Hmagic].
  destruct (u8_at f 4) as [bc|] eqn:Ebc; [|discriminate].
  destruct (u32_at LE f 8) as [ca|] eqn:E8; [|discriminate].
  destruct (u32_at LE f 12) as [sa|] eqn:E12; [|discriminate].
  destruct (u32_at LE f 16) as [cma|] eqn:E16; [|discriminate].
  destruct (u32_at LE f 20) as [ra|] eqn:E20; [|discriminate].
  apply andb_prop in Hrest. destruct Hrest as [Hhl Hrest].
  destruct (u32_at LE f (ca + 36)) as [toff|] eqn:Et; [|discriminate].
  repeat (apply andb_prop in Hrest; destruct Hrest as [Hrest ?]).
  split; [apply N.ltb_lt; assumption|].
  exists (mkBA ca sa cma ra toff). cbn [ba_contents ba_strings ba_commands ba_raw ba_table].
  split.
  { split; [apply oN_eqb_spec; assumption|]. split; [exists bc; split; [exact Ebc | apply N.leb_le; assumption]|]. auto. }
  split; [exact Et|]. split; [apply oN_eqb_spec; assumption|]. split; [apply N.leb_le; assumption|].
  intros i t Hi. apply bch_entryb_sound.
  match goal with Hx : entriesb _ _ _ = true |- _ => pose proof (entriesb_spec _ _ _ Hx i t Hi) as E end.
  rewrite N.add_0_l in E. exact E.
Qed.
