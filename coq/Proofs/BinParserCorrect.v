(* C01: from_bytes recovers the content from EVERY file that conforms to the format. *)
From Coq Require Import List NArith ZArith Bool Lia Permutation ZifyBool ZifyNat ZifyN.
From Mila Require Import Lib.Bytes Lib.Machine Model.BinArchive Model.BinFormat Proofs.AMapLemmas Proofs.BinAccess Proofs.SortLemmas Proofs.BinFormatSpec.
Import ListNotations.
Local Open Scope N_scope.
Ltac Zify.zify_post_hook ::= Z.div_mod_to_equations.

(* what one pointer-table entry does to the archive, according to the content *)
Definition ptr_step (c : content) (a : archive) (cell : N) : archive :=
  match am_get cell (c_ptrs c) with
  | Some dest => set_ptrs a (am_set cell dest (a_ptrs a))
  | None =>
    match am_get cell (c_text c) with
    | Some s => set_text a (am_set cell s (a_text a))
    | None => a
    end
  end.

Lemma ptr_step_data c a cell : a_data (ptr_step c a cell) = a_data a.
Proof. unfold ptr_step. destruct (am_get cell (c_ptrs c)); [reflexivity|]. destruct (am_get cell (c_text c)); reflexivity. Qed.

Lemma nodup_app_inv {A} (l l' : list A) :
  NoDup (l ++ l') -> NoDup l /\ NoDup l' /\ (forall x, In x l -> ~ In x l').
Proof.
  induction l as [|a l IH]; cbn [app]; intros H.
  - split; [constructor|]. split; [exact H | intros x []].
  - inversion H as [|? ? Hn Hr]; subst. destruct (IH Hr) as (H1 & H2 & H3). split; [|split; [exact H2|]].
    + constructor; [|exact H1]. intros Hin. apply Hn. apply in_or_app. left. exact Hin.
    + intros x [<-|Hx]; [intros Hin; apply Hn; apply in_or_app; right; exact Hin | apply H3; exact Hx].
Qed.

Section Parser.
Variables (e : endian) (f : bytes) (c : content).
Let d := c_data c.
Let dsz := lenN d.

Hypothesis Hptr : forall cell dest, In (cell, dest) (c_ptrs c) -> u32_at e d cell = Some dest /\ dest <= dsz.
Hypothesis Htxt : forall cell s, In (cell, s) (c_text c) ->
  exists v, u32_at e d cell = Some v /\ dsz < v /\ cstr_atN f (v + 32) = Some s.
Hypothesis Hdisj : NoDup (map fst (c_ptrs c) ++ map fst (c_text c)).

Lemma read_u32_of_u32_at a cell v : a_data a = d -> a_endian a = e -> u32_at e d cell = Some v -> read_u32 a cell = Ok v.
Proof.
  intros Hd He Hu. unfold read_u32. rewrite read_uint_spec.
  pose proof (u32_at_Some_bound _ _ _ _ Hu) as Hb.
  assert (Hin : inside a cell (N.of_nat 4) = true).
  { apply inside_true. unfold size. rewrite Hd. change (N.of_nat 4) with 4. fold d in Hb. lia. }
  rewrite Hin. change (N.of_nat 4) with 4. rewrite Hd, He. unfold u32_at in Hu.
  destruct (sliceN cell 4 d); inversion Hu; reflexivity.
Qed.

(* lookups in the content, from membership *)
Lemma ptrs_get cell dest : In (cell, dest) (c_ptrs c) -> am_get cell (c_ptrs c) = Some dest.
Proof.
  intros Hp. destruct (nodup_app_inv _ _ Hdisj) as (N1 & _ & _).
  destruct (am_get cell (c_ptrs c)) as [d'|] eqn:G.
  - apply am_get_in in G.
    assert (E : (cell, d') = (cell, dest)) by (apply (nodup_fst_inj _ _ _ N1 G Hp eq_refl)). congruence.
  - apply am_get_none in G. exfalso. apply G. unfold am_keys. apply in_map_iff. exists (cell, dest). auto.
Qed.
Lemma text_get cell s : In (cell, s) (c_text c) -> am_get cell (c_text c) = Some s /\ am_get cell (c_ptrs c) = None.
Proof.
  intros Ht. destruct (nodup_app_inv _ _ Hdisj) as (_ & N2 & N3). split.
  - destruct (am_get cell (c_text c)) as [s'|] eqn:G.
    + apply am_get_in in G.
      assert (E : (cell, s') = (cell, s)) by (apply (nodup_fst_inj _ _ _ N2 G Ht eq_refl)). congruence.
    + apply am_get_none in G. exfalso. apply G. unfold am_keys. apply in_map_iff. exists (cell, s). auto.
  - apply am_get_none. unfold am_keys. intros Hin. apply (N3 cell Hin). apply in_map_iff. exists (cell, s). auto.
Qed.

Lemma ptr_loop_ok : forall rest pre post a,
  f = pre ++ u32s e rest ++ post ->
  Forall (fun x => x < U32) rest ->
  (forall cell, In cell rest -> In cell (map fst (c_ptrs c) ++ map fst (c_text c))) ->
  a_data a = d -> a_endian a = e ->
  ptr_loop e f (lenN f) dsz (length rest) (lenN pre) a = Ok (fold_left (ptr_step c) rest a).
Proof.
  induction rest as [|cell rest IH]; intros pre post a Hf Hlt Hin Hd He; cbn [length ptr_loop fold_left]; [reflexivity|].
  inversion Hlt as [|x0 l0 Hc Hr]; subst x0 l0.
  assert (Hu : u32_file e f (lenN pre) = Ok cell).
  { unfold u32_file. rewrite Hf at 1. rewrite u32_at_table_head by exact Hc. reflexivity. }
  rewrite Hu. cbn [bind].
  assert (Hcell : In cell (map fst (c_ptrs c) ++ map fst (c_text c))) by (apply Hin; left; reflexivity).
  assert (Hnext : f = (pre ++ enc e 4 cell) ++ u32s e rest ++ post).
  { rewrite Hf at 1. rewrite u32s_cons, trunc_small by exact Hc. rewrite <- !app_assoc. reflexivity. }
  assert (Hpos : lenN pre + 4 = lenN (pre ++ enc e 4 cell)) by (rewrite lenN_app, lenN_enc; reflexivity).
  apply in_app_or in Hcell. destruct Hcell as [Hp|Ht].
  - (* an internal pointer *)
    apply in_map_iff in Hp. destruct Hp as ([k dest] & Hk & Hp). cbn [fst] in Hk. subst k.
    destruct (Hptr _ _ Hp) as [Hv Hle].
    rewrite (read_u32_of_u32_at a cell dest Hd He Hv). cbn [bind].
    destruct (N.ltb_spec dsz dest); [lia|].
    assert (Hw : write_pointer a cell (Some dest) = Ok (set_ptrs a (am_set cell dest (a_ptrs a)))).
    { unfold write_pointer. rewrite check_cell_spec.
      assert (Hi : inside a cell 4 = true).
      { apply inside_true. unfold size. rewrite Hd. pose proof (u32_at_Some_bound _ _ _ _ Hv) as Hb. fold d in Hb. lia. }
      rewrite Hi. reflexivity. }
    rewrite Hw. cbn [bind]. rewrite Hpos.
    rewrite (IH (pre ++ enc e 4 cell) post); [|exact Hnext | exact Hr | intros x Hx; apply Hin; right; exact Hx | exact Hd | exact He].
    f_equal. f_equal. unfold ptr_step. rewrite (ptrs_get _ _ Hp). reflexivity.
  - (* a string *)
    apply in_map_iff in Ht. destruct Ht as ([k s] & Hk & Ht). cbn [fst] in Hk. subst k.
    destruct (Htxt _ _ Ht) as (v & Hv & Hgt & Hs).
    rewrite (read_u32_of_u32_at a cell v Hd He Hv). cbn [bind].
    destruct (N.ltb_spec dsz v); [|lia].
    rewrite (cstr_atN_string_at _ _ _ Hs). cbn [bind].
    assert (Hw : write_string a cell (Some s) = Ok (set_text a (am_set cell s (a_text a)))).
    { unfold write_string. rewrite check_cell_spec.
      assert (Hi : inside a cell 4 = true).
      { apply inside_true. unfold size. rewrite Hd. pose proof (u32_at_Some_bound _ _ _ _ Hv) as Hb. fold d in Hb. lia. }
      rewrite Hi. reflexivity. }
    rewrite Hw. cbn [bind]. rewrite Hpos.
    rewrite (IH (pre ++ enc e 4 cell) post); [|exact Hnext | exact Hr | intros x Hx; apply Hin; right; exact Hx | exact Hd | exact He].
    f_equal. f_equal. unfold ptr_step. destruct (text_get _ _ Ht) as [G1 G2]. rewrite G2, G1. reflexivity.
Qed.

(* ---- what the pointer loop leaves behind ---- *)
Lemma existsb_eqb_In x l : existsb (N.eqb x) l = true <-> In x l.
Proof. rewrite existsb_exists. split; [intros (y & Hy & E); apply N.eqb_eq in E; subst; exact Hy | intros H; exists x; split; [exact H | apply N.eqb_refl]]. Qed.

Lemma fold_ptrs : forall rest a x,
  am_get x (a_ptrs (fold_left (ptr_step c) rest a)) =
    if existsb (N.eqb x) rest
    then match am_get x (c_ptrs c) with Some v => Some v | None => am_get x (a_ptrs a) end
    else am_get x (a_ptrs a).
Proof.
  induction rest as [|cell r IH]; intros a x; cbn [fold_left existsb]; [reflexivity|].
  rewrite IH. unfold ptr_step.
  destruct (N.eqb_spec x cell) as [E|E]; cbn [orb].
  - subst x. destruct (am_get cell (c_ptrs c)) as [dest|] eqn:G.
    + destruct (existsb (N.eqb cell) r); [reflexivity|]. cbn [set_ptrs a_ptrs]. apply am_get_set_same.
    + destruct (am_get cell (c_text c)); cbn [set_text a_ptrs]; destruct (existsb (N.eqb cell) r); reflexivity.
  - destruct (am_get cell (c_ptrs c)) as [dest|] eqn:G.
    + cbn [set_ptrs a_ptrs]. rewrite (am_get_set_other cell x dest (a_ptrs a) E). reflexivity.
    + destruct (am_get cell (c_text c)); cbn [set_text a_ptrs]; reflexivity.
Qed.

Lemma fold_text : forall rest a x,
  am_get x (a_text (fold_left (ptr_step c) rest a)) =
    if existsb (N.eqb x) rest
    then match am_get x (c_ptrs c) with
         | Some _ => am_get x (a_text a)
         | None => match am_get x (c_text c) with Some s => Some s | None => am_get x (a_text a) end
         end
    else am_get x (a_text a).
Proof.
  induction rest as [|cell r IH]; intros a x; cbn [fold_left existsb]; [reflexivity|].
  rewrite IH. unfold ptr_step.
  destruct (N.eqb_spec x cell) as [E|E]; cbn [orb].
  - subst x. destruct (am_get cell (c_ptrs c)) as [dest|] eqn:G.
    + cbn [set_ptrs a_text]. destruct (existsb (N.eqb cell) r); reflexivity.
    + destruct (am_get cell (c_text c)) as [s|] eqn:G2; cbn [set_text a_text].
      * destruct (existsb (N.eqb cell) r); [reflexivity | apply am_get_set_same].
      * destruct (existsb (N.eqb cell) r); reflexivity.
  - destruct (am_get cell (c_ptrs c)) as [dest|] eqn:G.
    + cbn [set_ptrs a_text]. reflexivity.
    + destruct (am_get cell (c_text c)) as [s|] eqn:G2; cbn [set_text a_text]; [|reflexivity].
      rewrite (am_get_set_other cell x s (a_text a) E). reflexivity.
Qed.

Lemma fold_other : forall rest a,
  a_data (fold_left (ptr_step c) rest a) = a_data a /\ a_endian (fold_left (ptr_step c) rest a) = a_endian a /\
  a_labels (fold_left (ptr_step c) rest a) = a_labels a /\ a_cstrs (fold_left (ptr_step c) rest a) = a_cstrs a.
Proof.
  induction rest as [|cell r IH]; intros a; cbn [fold_left]; [tauto|].
  destruct (IH (ptr_step c a cell)) as (H1 & H2 & H3 & H4). rewrite H1, H2, H3, H4. unfold ptr_step.
  destruct (am_get cell (c_ptrs c)); [cbn; tauto|]. destruct (am_get cell (c_text c)); cbn; tauto.
Qed.

Lemma am_set_nodup {V} k (v : V) m : NoDup (am_keys m) -> NoDup (am_keys (am_set k v m)).
Proof.
  unfold am_keys. induction m as [|[k' v'] r IH]; cbn [am_set map fst]; intros H.
  - constructor; [intros [] | constructor].
  - inversion H as [|? ? Hn Hr]; subst. destruct (N.eqb_spec k k') as [E|E]; cbn [map fst].
    + subst. constructor; assumption.
    + constructor; [|apply IH; exact Hr]. intros Hin.
      destruct (am_keys_set k v r) as [I1 _]. apply I1 in Hin. destruct Hin as [Hin|Hin]; [congruence | exact (Hn Hin)].
Qed.
Lemma fold_nodup : forall rest a, NoDup (am_keys (a_ptrs a)) -> NoDup (am_keys (a_text a)) ->
  NoDup (am_keys (a_ptrs (fold_left (ptr_step c) rest a))) /\ NoDup (am_keys (a_text (fold_left (ptr_step c) rest a))).
Proof.
  induction rest as [|cell r IH]; intros a H1 H2; cbn [fold_left]; [tauto|].
  apply IH; unfold ptr_step; destruct (am_get cell (c_ptrs c)); cbn [set_ptrs a_ptrs a_text]; try assumption.
  - apply am_set_nodup; assumption.
  - destruct (am_get cell (c_text c)); cbn [set_text a_ptrs]; assumption.
  - destruct (am_get cell (c_text c)); cbn [set_text a_text]; [apply am_set_nodup|]; assumption.
Qed.
End Parser.

(* ---- the label loop ---- *)
Definition push_named (m : amap (list bytes)) (p : N * bytes) : amap (list bytes) := push_label (fst p) (snd p) m.

Lemma push_label_get_same k s m :
  am_get k (push_label k s m) = Some (match am_get k m with Some b => b ++ [s] | None => [s] end).
Proof.
  induction m as [|[k' b] r IH]; cbn [push_label am_get]; [rewrite N.eqb_refl; reflexivity|].
  destruct (N.eqb_spec k k') as [E|E]; cbn [am_get]; [rewrite E, N.eqb_refl; reflexivity|].
  destruct (N.eqb_spec k k'); [congruence | exact IH].
Qed.
Lemma push_label_get_other k x s m : x <> k -> am_get x (push_label k s m) = am_get x m.
Proof.
  intros Hne. induction m as [|[k' b] r IH]; cbn [push_label am_get].
  - destruct (N.eqb_spec x k); [congruence | reflexivity].
  - destruct (N.eqb_spec k k') as [E|E]; cbn [am_get].
    + subst k'. destruct (N.eqb_spec x k); [congruence | reflexivity].
    + rewrite IH. reflexivity.
Qed.
Lemma push_label_nodup k s m : NoDup (am_keys m) -> NoDup (am_keys (push_label k s m)).
Proof.
  unfold am_keys. induction m as [|[k' b] r IH]; cbn [push_label map fst]; intros H.
  - constructor; [intros [] | constructor].
  - inversion H as [|? ? Hn Hr]; subst. destruct (N.eqb_spec k k') as [E|E]; cbn [map fst]; [constructor; assumption|].
    constructor; [|apply IH; exact Hr]. intros Hin. apply Hn.
    clear -Hin E. induction r as [|[k2 b2] r IH]; cbn [push_label map fst In] in *.
    + destruct Hin as [Hin|[]]. congruence.
    + destruct (N.eqb_spec k k2); cbn [map fst In] in *; [exact Hin|]. destruct Hin as [Hin|Hin]; [left; exact Hin | right; apply IH; exact Hin].
Qed.

Lemma fold_push_get : forall names m addr,
  am_get addr (fold_left push_named names m) =
    match am_get addr m with
    | Some b => Some (b ++ names_at addr names)
    | None => match names_at addr names with [] => None | l => Some l end
    end.
Proof.
  induction names as [|[k s] r IH]; intros m addr; cbn [fold_left].
  - unfold names_at. cbn [filter map]. destruct (am_get addr m); [rewrite app_nil_r|]; reflexivity.
  - rewrite IH. unfold push_named. cbn [fst snd]. unfold names_at. cbn [filter fst].
    destruct (N.eqb_spec k addr) as [E|E].
    + subst k. rewrite push_label_get_same. cbn [map snd].
      destruct (am_get addr m) as [b|]; [rewrite <- app_assoc; reflexivity | reflexivity].
    + rewrite push_label_get_other by congruence. reflexivity.
Qed.
Lemma fold_push_nodup : forall names m, NoDup (am_keys m) -> NoDup (am_keys (fold_left push_named names m)).
Proof. induction names as [|p r IH]; intros m H; cbn [fold_left]; [exact H | apply IH, push_label_nodup, H]. Qed.

Lemma lbl_loop_ok e f tstart : forall ltab names pre post a,
  f = pre ++ u32s e (flat ltab) ++ post ->
  Forall (fun p => fst p < U32 /\ snd p < U32) ltab ->
  Forall2 (resolved f tstart) ltab names ->
  Forall (fun p => fst p <= size a) names ->
  lbl_loop e f (lenN f) tstart (length ltab) (lenN pre) a =
    Ok (set_labels a (fold_left push_named names (a_labels a))).
Proof.
  induction ltab as [|[addr off] r IH]; intros names pre post a Hf Hlt Hres Hle; cbn [length lbl_loop].
  - assert (names = []) by (inversion Hres; reflexivity). subst names. cbn [fold_left]. destruct a; reflexivity.
  - destruct names as [|[addr' name] names']; [inversion Hres|].
    assert (Hhd : resolved f tstart (addr, off) (addr', name)) by (inversion Hres; assumption).
    assert (Hres' : Forall2 (resolved f tstart) r names') by (inversion Hres; assumption).
    destruct Hhd as [Ha Hs]. cbn [fst snd] in Ha, Hs. subst addr'.
    apply Forall_cons_iff in Hlt. destruct Hlt as [[H1 H2] Hlt']. cbn [fst snd] in H1, H2.
    apply Forall_cons_iff in Hle. destruct Hle as [Hle1 Hle']. cbn [fst] in Hle1.
    assert (Hflat : flat ((addr, off) :: r) = addr :: off :: flat r) by reflexivity.
    assert (Hu1 : u32_file e f (lenN pre) = Ok addr).
    { unfold u32_file. rewrite Hf at 1. rewrite Hflat, u32_at_table_head by exact H1. reflexivity. }
    assert (Hf2 : f = (pre ++ enc e 4 addr) ++ u32s e (off :: flat r) ++ post).
    { rewrite Hf at 1. rewrite Hflat, u32s_cons, trunc_small by exact H1. rewrite <- !app_assoc. reflexivity. }
    assert (Hu2 : u32_file e f (lenN pre + 4) = Ok off).
    { unfold u32_file. replace (lenN pre + 4) with (lenN (pre ++ enc e 4 addr)) by (rewrite lenN_app, lenN_enc; reflexivity).
      rewrite Hf2 at 1. rewrite u32_at_table_head by exact H2. reflexivity. }
    rewrite Hu1, Hu2. cbn [bind]. rewrite (cstr_atN_string_at _ _ _ Hs). cbn [bind].
    rewrite validate_address_true. destruct (N.leb_spec addr (size a)); [|lia]. cbn [bind].
    assert (Hf3 : f = ((pre ++ enc e 4 addr) ++ enc e 4 off) ++ u32s e (flat r) ++ post).
    { rewrite Hf2 at 1. rewrite u32s_cons, trunc_small by exact H2. rewrite <- !app_assoc. reflexivity. }
    replace (lenN pre + 8) with (lenN ((pre ++ enc e 4 addr) ++ enc e 4 off)) by (rewrite !lenN_app, !lenN_enc; change (N.of_nat 4) with 4; lia).
    rewrite (IH names' _ post _ Hf3 Hlt' Hres').
    + cbn [set_labels a_labels fold_left]. unfold push_named at 2. cbn [fst snd]. destruct a; reflexivity.
    + unfold size in *. cbn [set_labels a_data]. exact Hle'.
Qed.

(* ------------------------------------------------------------------ the theorem *)
Lemma length_flat l : length (flat l) = (2 * length l)%nat.
Proof. unfold flat. induction l as [|p r IH]; cbn [map concat length app]; [reflexivity|]. rewrite IH. lia. Qed.

Lemma lenL_flat l : lenL (flat l) = 2 * lenL l.
Proof. unfold lenL. rewrite length_flat. lia. Qed.

Theorem parser_correct e f c :
  conforms e f c ->
  exists a, from_bytes e f = Ok a /\ a_data a = c_data c /\ a_endian a = e /\ a_cstrs a = [] /\
    (forall x, am_get x (a_ptrs a) = am_get x (c_ptrs c)) /\
    (forall x, am_get x (a_text a) = am_get x (c_text c)) /\
    (forall x, am_get x (a_labels a) = am_get x (c_labels c)) /\
    NoDup (am_keys (a_ptrs a)) /\ NoDup (am_keys (a_text a)) /\ NoDup (am_keys (a_labels a)).
Proof.
  intros (reserved & ptab & ltab & txt & names & Hf & Hres16 & Hfl & Hpt & Hlt & Hdisj & Hperm & Hptr & Htxt & Hres & Hle & Hgrp).
  set (d := c_data c) in *. set (dsz := lenN d) in *.
  set (tstart := dsz + 4 * lenL ptab + 8 * lenL ltab) in *.
  assert (Hlen : lenN f = 32 + dsz + 4 * lenL ptab + 8 * lenL ltab + lenN txt).
  { rewrite Hf at 1. rewrite !lenN_app, !lenN_enc, !lenN_u32s, lenL_flat.
    assert (R : lenN reserved = 16) by (unfold lenN; rewrite Hres16; reflexivity). rewrite R. unfold dsz.
    change (N.of_nat 4) with 4. lia. }
  assert (Bd : dsz < U32) by lia. assert (Bp : lenL ptab < U32) by lia. assert (Bl : lenL ltab < U32) by lia.
  (* header fields *)
  assert (F4 : u32_file e f 4 = Ok dsz).
  { unfold u32_file. rewrite Hf at 1. replace 4 with (lenN (enc e 4 (lenN f))) at 1 by apply lenN_enc.
    rewrite u32_at_app_exact by exact Bd. reflexivity. }
  assert (F8 : u32_file e f 8 = Ok (lenL ptab)).
  { unfold u32_file. rewrite Hf at 1. rewrite (app_assoc (enc e 4 (lenN f))).
    replace 8 with (lenN (enc e 4 (lenN f) ++ enc e 4 dsz)) at 1 by (rewrite lenN_app, !lenN_enc; reflexivity).
    rewrite u32_at_app_exact by exact Bp. reflexivity. }
  assert (F12 : u32_file e f 12 = Ok (lenL ltab)).
  { unfold u32_file. rewrite Hf at 1. rewrite (app_assoc (enc e 4 (lenN f))), (app_assoc (enc e 4 (lenN f) ++ enc e 4 dsz)).
    replace 12 with (lenN ((enc e 4 (lenN f) ++ enc e 4 dsz) ++ enc e 4 (lenL ptab))) at 1 by (rewrite !lenN_app, !lenN_enc; reflexivity).
    rewrite u32_at_app_exact by exact Bl. reflexivity. }
  set (hdr := enc e 4 (lenN f) ++ enc e 4 dsz ++ enc e 4 (lenL ptab) ++ enc e 4 (lenL ltab) ++ reserved).
  assert (Hhdr : lenN hdr = 32).
  { unfold hdr. rewrite !lenN_app, !lenN_enc. unfold lenN. rewrite Hres16. reflexivity. }
  assert (Hf' : f = hdr ++ d ++ u32s e ptab ++ u32s e (flat ltab) ++ txt).
  { rewrite Hf at 1. unfold hdr. rewrite <- !app_assoc. reflexivity. }
  assert (Sl : sliceN 32 dsz f = Some d).
  { rewrite Hf' at 1. rewrite <- Hhdr. unfold dsz. apply sliceN_app_exact. }
  unfold from_bytes, from_bytes_alloc.
  destruct (N.ltb_spec (lenN f) 32); [lia|].
  rewrite F4. cbn [bind]. rewrite F8. cbn [bind]. rewrite F12. cbn [bind].
  fold tstart. destruct (N.ltb_spec (lenN f) (tstart + 32)); [unfold tstart in *; lia|].
  rewrite Sl. cbn [of_option bind].
  set (a0 := {| a_data := d; a_text := []; a_ptrs := []; a_labels := []; a_cstrs := []; a_endian := e |}).
  assert (P1 : ptr_loop e f (lenN f) dsz (N.to_nat (lenL ptab)) (32 + dsz) a0 = Ok (fold_left (ptr_step c) ptab a0)).
  { unfold lenL. rewrite Nat2N.id. replace (32 + dsz) with (lenN (hdr ++ d)) by (rewrite lenN_app, Hhdr; reflexivity).
    apply (ptr_loop_ok e f c Hptr Htxt Hdisj ptab (hdr ++ d) (u32s e (flat ltab) ++ txt) a0).
    - rewrite Hf' at 1. rewrite <- !app_assoc. reflexivity.
    - exact Hpt.
    - intros cell Hc. apply (Permutation_in _ Hperm). exact Hc.
    - reflexivity.
    - reflexivity. }
  rewrite P1. cbn [bind].
  set (a1 := fold_left (ptr_step c) ptab a0).
  destruct (fold_other c ptab a0) as (D1 & D2 & D3 & D4). fold a1 in D1, D2, D3, D4. cbn [a0 a_data a_endian a_labels a_cstrs] in D1, D2, D3, D4.
  assert (P2 : lbl_loop e f (lenN f) tstart (N.to_nat (lenL ltab)) (32 + dsz + 4 * lenL ptab) a1 =
               Ok (set_labels a1 (fold_left push_named names (a_labels a1)))).
  { unfold lenL at 1. rewrite Nat2N.id.
    replace (32 + dsz + 4 * lenL ptab) with (lenN ((hdr ++ d) ++ u32s e ptab)) by (rewrite !lenN_app, Hhdr, lenN_u32s; reflexivity).
    apply (lbl_loop_ok e f tstart ltab names ((hdr ++ d) ++ u32s e ptab) txt a1).
    - rewrite Hf' at 1. rewrite <- !app_assoc. reflexivity.
    - exact Hlt.
    - exact Hres.
    - unfold size. rewrite D1. exact Hle. }
  rewrite P2. cbn [bind fst].
  eexists. split; [reflexivity|]. cbn [set_labels a_data a_endian a_cstrs a_ptrs a_text a_labels].
  rewrite D1, D2, D3, D4.
  destruct (nodup_app_inv _ _ Hdisj) as (N1 & N2 & N3).
  split; [reflexivity|]. split; [reflexivity|]. split; [reflexivity|].
  assert (InP : forall x, In x ptab <-> In x (map fst (c_ptrs c)) \/ In x (map fst (c_text c))).
  { intros x. rewrite <- in_app_iff. split; apply Permutation_in; [exact Hperm | apply Permutation_sym; exact Hperm]. }
  split.
  { intros x. unfold a1. rewrite fold_ptrs. cbn [a0 a_ptrs am_get].
    destruct (existsb (N.eqb x) ptab) eqn:Ex.
    - destruct (am_get x (c_ptrs c)); reflexivity.
    - destruct (am_get x (c_ptrs c)) as [v|] eqn:G; [|reflexivity].
      exfalso. apply am_get_some_key in G. assert (Hin : In x ptab) by (apply InP; left; exact G).
      apply existsb_eqb_In in Hin. congruence. }
  split.
  { intros x. unfold a1. rewrite fold_text. cbn [a0 a_text am_get].
    destruct (existsb (N.eqb x) ptab) eqn:Ex.
    - destruct (am_get x (c_ptrs c)) as [v|] eqn:G.
      + symmetry. apply am_get_none. intros Hin. apply am_get_some_key in G. exact (N3 x G Hin).
      + destruct (am_get x (c_text c)); reflexivity.
    - destruct (am_get x (c_text c)) as [v|] eqn:G; [|reflexivity].
      exfalso. apply am_get_some_key in G. assert (Hin : In x ptab) by (apply InP; right; exact G).
      apply existsb_eqb_In in Hin. congruence. }
  split.
  { intros x. rewrite fold_push_get. cbn [am_get]. destruct Hgrp as [_ Hg]. destruct (Hg x) as [Hn Hne].
    rewrite Hn. destruct (am_get x (c_labels c)) as [b|]; [|reflexivity]. destruct b; [congruence | reflexivity]. }
  destruct (fold_nodup c ptab a0) as [Q1 Q2]; [constructor | constructor|]. fold a1 in Q1, Q2.
  split; [exact Q1|]. split; [exact Q2|]. apply fold_push_nodup. constructor.
Qed.
