(* C12, codec half: the layered file system instantiated with the REAL codec models.

   Model/LayeredFS.v takes [compress decompress : cfmt -> bytes -> outcome bytes] as section variables and
   Proofs/LayeredFSStack.v proves read-after-write for every pair satisfying the round-trip law.  Here the
   variables are instantiated with the models of mila's two codecs, through the model of
   CompressionFormat's dispatch (Model/LZDecode.v: cf_compress / cf_decompress):

       LayeredFS.LZ10  (FE9, FE10;  names ending in ".cms" / ".cmp")  ->  LZ10CompressionFormat  (Model/LZ10.v)
       LayeredFS.LZ13  (FE13-FE15;  names ending in ".lz")            ->  LZ13CompressionFormat  (Model/LZ11.v)

   After the repair of F21 both compressors reject a payload whose length their size field cannot store
   (LZ10: 2^24 bytes and more; LZ13: 2^32 bytes and more) with Err(InputTooLarge).  So the round-trip law
   needs NO size hypothesis any more: "compress returned Ok" is the size condition
   ([real_codec_round_trip]: wfb b -> real_compress f b = Ok c -> real_decompress f c = Ok b), and therefore
   read-after-write holds for EVERY byte payload of every successful write, compressed name or not, any game.
   A payload that is too large makes the write fail with the state unchanged ([real_write_too_large]).
   (The lemmas with a [lenN b < 2 ^ 24] hypothesis are kept under their old names for Proofs/LayeredFSTyped.v,
   whose bounds come from the serializers of the typed layer.)

   LZ13 between 2^31 and 2^32 bytes: [real_compress] is built on the list model of calculate_lz13_header, which is
   proved equal to the machine-level model only below 2^31 bytes; the two may differ there in the three wrapper
   length bytes and in nothing else, the decoder ignores those bytes, and Proofs/LZRoundTripExt.v proves the same
   round trip for the machine-level model (compress13_mm_round_trip) - so the conclusion does not depend on them.

   [mc] is the arithmetic profile the compressor runs in, [md] the one of the decompressor; the theorems
   hold for every combination (a file written by a debug build is read back by a release build). *)
From Coq Require Import List NArith Bool Arith Lia.
From Mila Require Import Lib.Bytes Lib.Machine Model.Localize Model.LZCore Model.LZ10 Model.LZ11 Model.LZSpec Model.LZDecode
  Proofs.LZCoreProofs Proofs.LZ10Proofs Proofs.LZ11Proofs Proofs.LZRoundTrip Proofs.LZRoundTripExt Proofs.LZFormat Model.LayeredFS Proofs.LayeredFSStack.
Import ListNotations.
Local Open Scope N_scope.

(* which CompressionFormat variant LayeredFilesystem::new builds for a configured format *)
Definition cformat_of (f : cfmt) : cformat := match f with LayeredFS.LZ10 => CF10 | LayeredFS.LZ13 => CF13 end.

(* self.compression_format.compress(bytes) / .decompress(bytes) *)
Definition real_compress (mc : mode) (f : cfmt) (b : bytes) : outcome bytes := cf_compress (cformat_of f) mc b.
Definition real_decompress (md : mode) (f : cfmt) (b : bytes) : outcome bytes := cf_decompress (cformat_of f) md b.

(* the round-trip law of Proofs/LayeredFSStack.v (Section RoundTrip), for the real codecs: no size hypothesis *)
Definition codec_dom (f : cfmt) (b : bytes) : Prop := wfb b.

Theorem real_codec_round_trip mc md : forall f b c,
  codec_dom f b -> real_compress mc f b = Ok c -> real_decompress md f c = Ok b.
Proof. intros f b c Hw Hc. exact (cf_round_trip_ok (cformat_of f) mc md b c Hw Hc). Qed.

(* the size limit of a format: what its size field can store *)
Definition codec_limit (f : cfmt) : N := cf_limit (cformat_of f).

(* compression fails exactly for payloads the size field cannot store (F21), and then with InputTooLarge *)
Theorem real_compress_total mc f b :
  (lenN b < codec_limit f -> exists c, real_compress mc f b = Ok c) /\
  (codec_limit f <= lenN b -> real_compress mc f b = Err ETooLarge).
Proof. exact (cf_compress_total (cformat_of f) mc b). Qed.

Theorem real_compress_ok mc f b : lenN b < 2 ^ 24 -> exists c, real_compress mc f b = Ok c.
Proof.
  intros Hn. apply (proj1 (real_compress_total mc f b)). unfold codec_limit.
  destruct f; cbn [cformat_of cf_limit]; [exact Hn|].
  change (2 ^ 24) with 16777216 in Hn. change (2 ^ 32) with 4294967296. lia.
Qed.

(* ---- read after write with the real codecs: every payload of every successful write ---- *)
Theorem real_read_after_write_any mc md : forall S p b loc S',
  fs_write (real_compress mc) S p b loc = (S', FOk tt) -> wfb b ->
  fs_read (real_decompress md) S' p loc = FOk b.
Proof.
  intros S p b loc S' H Hw.
  exact (read_after_write (real_compress mc) (real_decompress md) codec_dom (real_codec_round_trip mc md) S p b loc S' H Hw).
Qed.

(* (old name and shape, used by Proofs/LayeredFSTyped.v) *)
Theorem real_read_after_write mc md : forall S p b loc S',
  fs_write (real_compress mc) S p b loc = (S', FOk tt) -> wfb b -> lenN b < 2 ^ 24 ->
  fs_read (real_decompress md) S' p loc = FOk b.
Proof. intros S p b loc S' H Hw _. exact (real_read_after_write_any mc md S p b loc S' H Hw). Qed.

(* a payload the configured format cannot store, written to a name with the compressed suffix: the write fails
   with the compression error and NOTHING changes (no layer is touched, no directory is created) *)
Theorem real_write_too_large mc : forall S p b loc,
  is_compressed (c_comp (conf S)) p = true -> codec_limit (c_comp (conf S)) <= lenN b ->
  fst (fs_write (real_compress mc) S p b loc) = S /\
  snd (fs_write (real_compress mc) S p b loc) <> FOk tt /\
  (forall sa, fs_addr S p loc = FOk sa ->
     fs_write (real_compress mc) S p b loc = (S, FErr (ECompression ETooLarge))).
Proof.
  intros S p b loc Hc Hl.
  assert (En : encode_by_name (real_compress mc) S p b = FErr (ECompression ETooLarge)).
  { unfold encode_by_name. rewrite Hc. rewrite (proj2 (real_compress_total mc (c_comp (conf S)) b) Hl). reflexivity. }
  unfold fs_write. destruct (fs_addr S p loc) as [sa|e|k]; cbn [fst snd].
  - rewrite En. cbn [fst snd]. split; [reflexivity|]. split; [discriminate|]. intros; reflexivity.
  - split; [reflexivity|]. split; [discriminate|]. intros sa' H; discriminate.
  - split; [reflexivity|]. split; [discriminate|]. intros sa' H; discriminate.
Qed.

(* ... while a name WITHOUT the compressed suffix is stored as it is, whatever its size: no codec runs *)
Theorem real_encode_plain mc S p b : is_compressed (c_comp (conf S)) p = false ->
  encode_by_name (real_compress mc) S p b = FOk b.
Proof. intros H. unfold encode_by_name. rewrite H. reflexivity. Qed.

(* what "a valid compressed stream" means for the two formats (Model/LZSpec.v: the strict parsers) *)
Definition valid_stream (f : cfmt) (b c : bytes) : Prop :=
  match f with
  | LayeredFS.LZ10 => exists ts, sparse10 c = Some (lenN b, ts) /\ expand ts = Some b
  | LayeredFS.LZ13 =>
    exists h s, c = 0x13 :: h ++ s /\ length h = 3%nat /\
      (b <> [] -> exists ts, sparse11 s = Some (lenN b, ts) /\ expand ts = Some b) /\
      (b = [] -> s = [0x11; 0; 0; 0; 0; 0; 0; 0])
  end.

(* whatever the compressor returns Ok for is a valid stream of the payload (no size hypothesis) *)
Theorem real_compress_valid_any mc f b c : wfb b -> real_compress mc f b = Ok c -> valid_stream f b c.
Proof.
  intros Hw Hc. destruct f; unfold real_compress, cformat_of, cf_compress in Hc; cbn [valid_stream].
  - destruct (compress10_o_ok_inv b c Hc) as [Hn ->].
    destruct (compress10_wellformed b Hw Hn) as (ts & Hs & _ & He). eauto.
  - destruct (compress13_o_ok_inv mc b c Hc) as [Hn Hc'].
    destruct b as [|x b].
    + rewrite compress13_empty in Hc'. injection Hc' as <-.
      exists [9; 0; 0], [0x11; 0; 0; 0; 0; 0; 0; 0]. repeat split; congruence.
    + destruct (compress13_round_trip_ext mc (x :: b) Hw Hn) as (a1 & a2 & a3 & s & Hc2 & Hs & _).
      rewrite Hc' in Hc2. injection Hc2 as ->. exists [a1; a2; a3], s.
      repeat split; [intros _; exists (tokens 4096 (x :: b)); split; [exact Hs | apply tokens_expand] | discriminate].
Qed.

Theorem real_compress_valid mc f b c : wfb b -> lenN b < 2 ^ 24 -> real_compress mc f b = Ok c -> valid_stream f b c.
Proof. intros Hw _ Hc. exact (real_compress_valid_any mc f b c Hw Hc). Qed.

(* the file stored by a successful write: in the top layer, at the addressed location; for a name with the
   game's compressed suffix it is a valid compressed stream of the payload, otherwise the payload itself *)
Theorem real_write_stored_any mc : forall S p b loc S',
  fs_write (real_compress mc) S p b loc = (S', FOk tt) -> wfb b ->
  exists s pp c, fs_addr S p loc = FOk (s, (pp, false)) /\
    l_get (last (layers S') []) pp = Some (File c) /\
    if is_compressed (c_comp (conf S)) p then valid_stream (c_comp (conf S)) b c /\ lenN b < codec_limit (c_comp (conf S)) else c = b.
Proof.
  intros S p b loc S' H Hw.
  destruct (write_ok_top (real_compress mc) S p b loc S' H) as (s & pp & c & A & En & _ & _ & G & _).
  exists s, pp, c. split; [exact A|]. split; [exact G|].
  unfold encode_by_name, lift_codec in En. destruct (is_compressed (c_comp (conf S)) p).
  - destruct (real_compress mc (c_comp (conf S)) b) as [c'|e|k] eqn:E; try discriminate. injection En as ->.
    split; [eapply real_compress_valid_any; eassumption|].
    destruct (N.lt_ge_cases (lenN b) (codec_limit (c_comp (conf S)))) as [Hlt|Hge]; [exact Hlt|].
    rewrite (proj2 (real_compress_total mc (c_comp (conf S)) b) Hge) in E. discriminate.
  - injection En as ->. reflexivity.
Qed.

Theorem real_write_stored mc : forall S p b loc S',
  fs_write (real_compress mc) S p b loc = (S', FOk tt) -> wfb b -> lenN b < 2 ^ 24 ->
  exists s pp c, fs_addr S p loc = FOk (s, (pp, false)) /\
    l_get (last (layers S') []) pp = Some (File c) /\
    if is_compressed (c_comp (conf S)) p then valid_stream (c_comp (conf S)) b c else c = b.
Proof.
  intros S p b loc S' H Hw _. destruct (real_write_stored_any mc S p b loc S' H Hw) as (s & pp & c & A & G & V).
  exists s, pp, c. split; [exact A|]. split; [exact G|]. destruct (is_compressed _ p); [exact (proj1 V) | exact V].
Qed.

(* the codec never makes a write of a payload below 16 MiB fail: encode_by_name is FOk *)
Theorem real_encode_ok mc S p b : lenN b < 2 ^ 24 -> exists c, encode_by_name (real_compress mc) S p b = FOk c.
Proof.
  intros Hn. unfold encode_by_name. destruct (is_compressed _ p); [|eauto].
  destruct (real_compress_ok mc (c_comp (conf S)) b Hn) as [c Hc]. rewrite Hc. cbn [lift_codec]. eauto.
Qed.

(* ---- per game: which codec and which suffixes (LayeredFilesystem::new) ---- *)
Definition sfx_cmp : str := [46; 99; 109; 112].
Definition sfx_cms : str := [46; 99; 109; 115].
Definition sfx_lz : str := [46; 108; 122].

Theorem real_codec_of_game : forall ls l g S, fs_new ls l g = FOk S ->
  match g with
  | FE9 | FE10 =>
    c_comp (conf S) = LayeredFS.LZ10 /\
    (forall p, is_compressed (c_comp (conf S)) p = orb (ends_with sfx_cms p) (ends_with sfx_cmp p)) /\
    (forall mc b, real_compress mc (c_comp (conf S)) b = compress10_o b) /\
    (forall md c, real_decompress md (c_comp (conf S)) c = lz10_decompress md c)
  | FE13 | FE14 | FE15 =>
    c_comp (conf S) = LayeredFS.LZ13 /\
    (forall p, is_compressed (c_comp (conf S)) p = ends_with sfx_lz p) /\
    (forall mc b, real_compress mc (c_comp (conf S)) b = compress13_o mc b) /\
    (forall md c, real_decompress md (c_comp (conf S)) c = lz13_decompress md c)
  | FE11 | FE12 => False
  end.
Proof.
  intros ls l g S H. destruct ls as [|L0 ls]; [discriminate|].
  destruct g; cbn in H; try discriminate; injection H as <-; cbn [conf c_comp];
    (split; [reflexivity|]); (split; [intros p; unfold is_compressed; cbn [suffixes existsb]; rewrite ?orb_false_r; reflexivity|]);
    split; reflexivity.
Qed.

(* the complete per-game statement: after a successful write through a file system configured for game g,
   reading the same path with the same localisation choice returns the payload, and for a name with the
   game's suffix (".cms"/".cmp" for FE9/FE10, ".lz" for FE13-FE15) the stored file is a valid LZ10 /
   0x13-wrapped LZ11 stream of the payload *)
Theorem real_read_after_write_by_game_any mc md : forall ls l g S p b loc S',
  fs_new ls l g = FOk S ->
  fs_write (real_compress mc) S p b loc = (S', FOk tt) -> wfb b ->
  fs_read (real_decompress md) S' p loc = FOk b /\
  exists s pp c, fs_addr S p loc = FOk (s, (pp, false)) /\ l_get (last (layers S') []) pp = Some (File c) /\
    match g with
    | FE9 | FE10 => if orb (ends_with sfx_cms p) (ends_with sfx_cmp p)
                    then valid_stream LayeredFS.LZ10 b c /\ lz10_decompress md c = Ok b else c = b
    | _ => if ends_with sfx_lz p then valid_stream LayeredFS.LZ13 b c /\ lz13_decompress md c = Ok b else c = b
    end.
Proof.
  intros ls l g S p b loc S' Hn H Hw. split; [eapply real_read_after_write_any; eassumption|].
  destruct (write_ok_top (real_compress mc) S p b loc S' H) as (s & pp & c & A & En & _ & _ & G & _).
  exists s, pp, c. split; [exact A|]. split; [exact G|].
  pose proof (real_codec_of_game ls l g S Hn) as HG.
  assert (V : if is_compressed (c_comp (conf S)) p
              then valid_stream (c_comp (conf S)) b c /\ real_decompress md (c_comp (conf S)) c = Ok b else c = b).
  { unfold encode_by_name, lift_codec in En. destruct (is_compressed (c_comp (conf S)) p).
    - destruct (real_compress mc (c_comp (conf S)) b) as [c'|e|k] eqn:E; try discriminate. injection En as ->.
      split; [eapply real_compress_valid_any; eassumption|].
      eapply real_codec_round_trip; [exact Hw | exact E].
    - injection En as ->. reflexivity. }
  destruct g; try contradiction; destruct HG as (Hc & Hs & _ & Hd); rewrite Hs, Hc in V; rewrite ?Hc in Hd;
    try rewrite <- (Hd md c); try exact V;
    (destruct (ends_with sfx_lz p) || destruct (orb _ _)); try exact V; rewrite Hc; exact V.
Qed.

Theorem real_read_after_write_by_game mc md : forall ls l g S p b loc S',
  fs_new ls l g = FOk S ->
  fs_write (real_compress mc) S p b loc = (S', FOk tt) -> wfb b -> lenN b < 2 ^ 24 ->
  fs_read (real_decompress md) S' p loc = FOk b /\
  exists s pp c, fs_addr S p loc = FOk (s, (pp, false)) /\ l_get (last (layers S') []) pp = Some (File c) /\
    match g with
    | FE9 | FE10 => if orb (ends_with sfx_cms p) (ends_with sfx_cmp p)
                    then valid_stream LayeredFS.LZ10 b c /\ lz10_decompress md c = Ok b else c = b
    | _ => if ends_with sfx_lz p then valid_stream LayeredFS.LZ13 b c /\ lz13_decompress md c = Ok b else c = b
    end.
Proof. intros ls l g S p b loc S' Hn H Hw _. exact (real_read_after_write_by_game_any mc md ls l g S p b loc S' Hn H Hw). Qed.

(* FE9 / FE10: a payload of 16 MiB or more written to a ".cms" / ".cmp" name fails and changes nothing (F21: before
   the repair the write succeeded and the file read back as a few bytes) *)
Theorem real_write_too_large_lz10 mc : forall ls l g S p b loc,
  fs_new ls l g = FOk S -> (g = FE9 \/ g = FE10) ->
  orb (ends_with sfx_cms p) (ends_with sfx_cmp p) = true -> 2 ^ 24 <= lenN b ->
  fst (fs_write (real_compress mc) S p b loc) = S /\
  snd (fs_write (real_compress mc) S p b loc) <> FOk tt /\
  (forall sa, fs_addr S p loc = FOk sa -> fs_write (real_compress mc) S p b loc = (S, FErr (ECompression ETooLarge))).
Proof.
  intros ls l g S p b loc Hn Hg Hp Hb.
  pose proof (real_codec_of_game ls l g S Hn) as HG.
  assert (HC : c_comp (conf S) = LayeredFS.LZ10 /\ is_compressed (c_comp (conf S)) p = true).
  { destruct Hg as [-> | ->]; destruct HG as (Hc & Hs & _); (split; [exact Hc | rewrite Hs; exact Hp]). }
  destruct HC as [Hc Hi]. apply real_write_too_large; [exact Hi|]. rewrite Hc. exact Hb.
Qed.

(* ---- non-vacuity: FE10 writes "a.cmp" as an LZ10 stream, FE14 writes "a.lz" as a wrapped LZ11 stream ---- *)
Example real_example_fe10 :
  let S := mkFs [[]] (mkConfig LayeredFS.LZ10 GFE10 BE ShiftJIS) EnglishNA in
  let p := [97; 46; 99; 109; 112] in
  let b := [5; 5; 5; 5; 5; 5; 5; 5; 5; 5] in
  let '(S', r) := fs_write (real_compress Checked) S p b false in
  r = FOk tt /\ l_get (last (layers S') []) [p] = Some (File [0x10; 10; 0; 0; 0x20; 5; 5; 0x50; 1]) /\
  fs_read (real_decompress Wrapping) S' p false = FOk b.
Proof. vm_compute. repeat split. Qed.

Example real_example_fe14 :
  let S := mkFs [[]] (mkConfig LayeredFS.LZ13 GFE14 LE Unicode) EnglishNA in
  let p := [97; 46; 108; 122] in
  let b := [5; 5; 5; 5; 5; 5; 5; 5; 5; 5] in
  let '(S', r) := fs_write (real_compress Checked) S p b false in
  r = FOk tt /\ l_get (last (layers S') []) [p] = Some (File [0x13; 13; 0; 0; 0x11; 10; 0; 0; 0x20; 5; 5; 0x70; 1]) /\
  fs_read (real_decompress Wrapping) S' p false = FOk b.
Proof. vm_compute. repeat split. Qed.
