(* C12, codec half: the layered file system instantiated with the REAL codec models.

   Model/LayeredFS.v takes [compress decompress : cfmt -> bytes -> outcome bytes] as section variables and
   Proofs/LayeredFSStack.v proves read-after-write for every pair satisfying the round-trip law.  Here the
   variables are instantiated with the models of mila's two codecs, through the model of
   CompressionFormat's dispatch (Model/LZDecode.v: cf_compress / cf_decompress):

       LayeredFS.LZ10  (FE9, FE10;  names ending in ".cms" / ".cmp")  ->  LZ10CompressionFormat  (Model/LZ10.v)
       LayeredFS.LZ13  (FE13-FE15;  names ending in ".lz")            ->  LZ13CompressionFormat  (Model/LZ11.v)

   and the round-trip law is discharged with the library round-trip theorems of C08 / C09
   (Proofs/LZRoundTrip.v: compress10_round_trip, compress13_round_trip, compress13_empty_round_trip).
   The domain is "a byte string shorter than 16 MiB" - the empty payload included, for both codecs
   (LZ13 writes the extended size form for it: repair of F12).

   [mc] is the arithmetic profile the compressor runs in, [md] the one of the decompressor; the theorems
   hold for every combination (a file written by a debug build is read back by a release build). *)
From Coq Require Import List NArith Bool Arith Lia.
From Mila Require Import Lib.Bytes Lib.Machine Model.Localize Model.LZCore Model.LZ10 Model.LZ11 Model.LZSpec Model.LZDecode
  Proofs.LZ10Proofs Proofs.LZ11Proofs Proofs.LZRoundTrip Model.LayeredFS Proofs.LayeredFSStack.
Import ListNotations.
Local Open Scope N_scope.

(* which CompressionFormat variant LayeredFilesystem::new builds for a configured format *)
Definition cformat_of (f : cfmt) : cformat := match f with LayeredFS.LZ10 => CF10 | LayeredFS.LZ13 => CF13 end.

(* self.compression_format.compress(bytes) / .decompress(bytes) *)
Definition real_compress (mc : mode) (f : cfmt) (b : bytes) : outcome bytes := cf_compress (cformat_of f) mc b.
Definition real_decompress (md : mode) (f : cfmt) (b : bytes) : outcome bytes := cf_decompress (cformat_of f) md b.

(* the payloads the round trip is proved for: byte strings shorter than 16 MiB, whatever the format *)
Definition codec_dom (f : cfmt) (b : bytes) : Prop := wfb b /\ lenN b < 2 ^ 24.

(* the round-trip law of Proofs/LayeredFSStack.v (Section RoundTrip), for the real codecs *)
Theorem real_codec_round_trip mc md : forall f b c,
  codec_dom f b -> real_compress mc f b = Ok c -> real_decompress md f c = Ok b.
Proof.
  intros f b c [Hw Hn] Hc. destruct f; unfold real_compress, real_decompress, cformat_of, cf_compress, cf_decompress in *.
  - injection Hc as <-. apply compress10_round_trip; assumption.
  - destruct b as [|x b].
    + destruct (compress13_empty_round_trip mc md) as (c' & Hc' & Hd). rewrite Hc in Hc'. injection Hc' as <-. exact Hd.
    + destruct (compress13_round_trip mc (x :: b) ltac:(discriminate) Hw Hn) as (c' & Hc' & Hd).
      rewrite Hc in Hc'. injection Hc' as <-. apply Hd.
Qed.

(* compression of a payload of the domain never fails (so a write can only fail in the file system) *)
Theorem real_compress_ok mc f b : lenN b < 2 ^ 24 -> exists c, real_compress mc f b = Ok c.
Proof.
  intros Hn. destruct f; unfold real_compress, cformat_of, cf_compress; [eauto|].
  apply compress13_total. change (2 ^ 24) with 16777216 in Hn. change (2 ^ 31) with 2147483648. lia.
Qed.

(* ---- read after write with the real codecs ---- *)
Theorem real_read_after_write mc md : forall S p b loc S',
  fs_write (real_compress mc) S p b loc = (S', FOk tt) -> wfb b -> lenN b < 2 ^ 24 ->
  fs_read (real_decompress md) S' p loc = FOk b.
Proof.
  intros S p b loc S' H Hw Hn.
  exact (read_after_write (real_compress mc) (real_decompress md) codec_dom (real_codec_round_trip mc md) S p b loc S' H (conj Hw Hn)).
Qed.

(* what "a valid compressed stream" means for the two formats (Model/LZSpec.v: the strict parsers) *)
Definition valid_stream (f : cfmt) (b c : bytes) : Prop :=
  match f with
  | LayeredFS.LZ10 => exists ts, sparse10 c = Some (lenN b, ts) /\ expand ts = Some b
  | LayeredFS.LZ13 =>
    exists h s, c = 0x13 :: h ++ s /\ length h = 3%nat /\
      (b <> [] -> exists ts, sparse11 s = Some (lenN b, ts) /\ expand ts = Some b) /\
      (b = [] -> s = [0x11; 0; 0; 0; 0; 0; 0; 0])
  end.

Theorem real_compress_valid mc f b c : wfb b -> lenN b < 2 ^ 24 -> real_compress mc f b = Ok c -> valid_stream f b c.
Proof.
  intros Hw Hn Hc. destruct f; unfold real_compress, cformat_of, cf_compress in Hc; cbn [valid_stream].
  - injection Hc as <-. destruct (compress10_wellformed b Hw Hn) as (ts & Hs & _ & He). eauto.
  - destruct b as [|x b].
    + rewrite compress13_empty in Hc. injection Hc as <-.
      exists [9; 0; 0], [0x11; 0; 0; 0; 0; 0; 0; 0]. repeat split; congruence.
    + destruct (compress13_wellformed mc (x :: b) ltac:(discriminate) Hw Hn) as (h & s & ts & Hc' & Hh & Hs & _ & He).
      rewrite Hc in Hc'. injection Hc' as ->. exists h, s. repeat split; [exact Hh | eauto | discriminate].
Qed.

(* the file stored by a successful write: in the top layer, at the addressed location; for a name with the
   game's compressed suffix it is a valid compressed stream of the payload, otherwise the payload itself *)
Theorem real_write_stored mc : forall S p b loc S',
  fs_write (real_compress mc) S p b loc = (S', FOk tt) -> wfb b -> lenN b < 2 ^ 24 ->
  exists s pp c, fs_addr S p loc = FOk (s, (pp, false)) /\
    l_get (last (layers S') []) pp = Some (File c) /\
    if is_compressed (c_comp (conf S)) p then valid_stream (c_comp (conf S)) b c else c = b.
Proof.
  intros S p b loc S' H Hw Hn.
  destruct (write_ok_top (real_compress mc) S p b loc S' H) as (s & pp & c & A & En & _ & _ & G & _).
  exists s, pp, c. split; [exact A|]. split; [exact G|].
  unfold encode_by_name, lift_codec in En. destruct (is_compressed (c_comp (conf S)) p).
  - destruct (real_compress mc (c_comp (conf S)) b) as [c'|e|k] eqn:E; try discriminate. injection En as ->.
    eapply real_compress_valid; eassumption.
  - injection En as ->. reflexivity.
Qed.

(* the codec never makes a write of a payload below 16 MiB fail: encode_by_name is FOk *)
Theorem real_encode_ok mc S p b : lenN b < 2 ^ 24 -> exists c, encode_by_name (real_compress mc) S p b = FOk c.
Proof.
  intros Hn. unfold encode_by_name. destruct (is_compressed _ p); [|eauto].
  destruct (real_compress_ok mc (c_comp (conf S)) b Hn) as [c Hc]. rewrite Hc. cbn [lift_codec]. eauto.
Qed.

(* ---- per game: which codec and which suffixes (LayeredFilesystem::new) ---- *)
Definition sfx_cmp : str := [46; 99; 109; 112].
Definition sfx_cms : str := [46; 99; 109; 115].
Definition sfx_lz : str := [46; 108; 122].

Theorem real_codec_of_game : forall ls l g S, fs_new ls l g = FOk S ->
  match g with
  | FE9 | FE10 =>
    c_comp (conf S) = LayeredFS.LZ10 /\
    (forall p, is_compressed (c_comp (conf S)) p = orb (ends_with sfx_cms p) (ends_with sfx_cmp p)) /\
    (forall mc b, real_compress mc (c_comp (conf S)) b = Ok (compress10 b)) /\
    (forall md c, real_decompress md (c_comp (conf S)) c = lz10_decompress md c)
  | FE13 | FE14 | FE15 =>
    c_comp (conf S) = LayeredFS.LZ13 /\
    (forall p, is_compressed (c_comp (conf S)) p = ends_with sfx_lz p) /\
    (forall mc b, real_compress mc (c_comp (conf S)) b = compress13 mc b) /\
    (forall md c, real_decompress md (c_comp (conf S)) c = lz13_decompress md c)
  | FE11 | FE12 => False
  end.
Proof.
  intros ls l g S H. destruct ls as [|L0 ls]; [discriminate|].
  destruct g; cbn in H; try discriminate; injection H as <-; cbn [conf c_comp];
    (split; [reflexivity|]); (split; [intros p; unfold is_compressed; cbn [suffixes existsb]; rewrite ?orb_false_r; reflexivity|]);
    split; reflexivity.
Qed.

(* the complete per-game statement: after a successful write through a file system configured for game g,
   reading the same path with the same localisation choice returns the payload, and for a name with the
   game's suffix (".cms"/".cmp" for FE9/FE10, ".lz" for FE13-FE15) the stored file is a valid LZ10 /
   0x13-wrapped LZ11 stream of the payload *)
Theorem real_read_after_write_by_game mc md : forall ls l g S p b loc S',
  fs_new ls l g = FOk S ->
  fs_write (real_compress mc) S p b loc = (S', FOk tt) -> wfb b -> lenN b < 2 ^ 24 ->
  fs_read (real_decompress md) S' p loc = FOk b /\
  exists s pp c, fs_addr S p loc = FOk (s, (pp, false)) /\ l_get (last (layers S') []) pp = Some (File c) /\
    match g with
    | FE9 | FE10 => if orb (ends_with sfx_cms p) (ends_with sfx_cmp p)
                    then valid_stream LayeredFS.LZ10 b c /\ lz10_decompress md c = Ok b else c = b
    | _ => if ends_with sfx_lz p then valid_stream LayeredFS.LZ13 b c /\ lz13_decompress md c = Ok b else c = b
    end.
Proof.
  intros ls l g S p b loc S' Hn H Hw Hl. split; [eapply real_read_after_write; eassumption|].
  destruct (write_ok_top (real_compress mc) S p b loc S' H) as (s & pp & c & A & En & _ & _ & G & _).
  exists s, pp, c. split; [exact A|]. split; [exact G|].
  pose proof (real_codec_of_game ls l g S Hn) as HG.
  assert (V : if is_compressed (c_comp (conf S)) p
              then valid_stream (c_comp (conf S)) b c /\ real_decompress md (c_comp (conf S)) c = Ok b else c = b).
  { unfold encode_by_name, lift_codec in En. destruct (is_compressed (c_comp (conf S)) p).
    - destruct (real_compress mc (c_comp (conf S)) b) as [c'|e|k] eqn:E; try discriminate. injection En as ->.
      split; [eapply real_compress_valid; eassumption|].
      eapply real_codec_round_trip; [split; eassumption | exact E].
    - injection En as ->. reflexivity. }
  destruct g; try contradiction; destruct HG as (Hc & Hs & _ & Hd); rewrite Hs, Hc in V; rewrite ?Hc in Hd;
    try rewrite <- (Hd md c); try exact V;
    (destruct (ends_with sfx_lz p) || destruct (orb _ _)); try exact V; rewrite Hc; exact V.
Qed.

(* ---- non-vacuity: FE10 writes "a.cmp" as an LZ10 stream, FE14 writes "a.lz" as a wrapped LZ11 stream ---- *)
Example real_example_fe10 :
  let S := mkFs [[]] (mkConfig LayeredFS.LZ10 GFE10 BE ShiftJIS) EnglishNA in
  let p := [97; 46; 99; 109; 112] in
  let b := [5; 5; 5; 5; 5; 5; 5; 5; 5; 5] in
  let '(S', r) := fs_write (real_compress Checked) S p b false in
  r = FOk tt /\ l_get (last (layers S') []) [p] = Some (File [0x10; 10; 0; 0; 0x20; 5; 5; 0x50; 1]) /\
  fs_read (real_decompress Wrapping) S' p false = FOk b.
Proof. vm_compute. repeat split. Qed.

Example real_example_fe14 :
  let S := mkFs [[]] (mkConfig LayeredFS.LZ13 GFE14 LE Unicode) EnglishNA in
  let p := [97; 46; 108; 122] in
  let b := [5; 5; 5; 5; 5; 5; 5; 5; 5; 5] in
  let '(S', r) := fs_write (real_compress Checked) S p b false in
  r = FOk tt /\ l_get (last (layers S') []) [p] = Some (File [0x13; 13; 0; 0; 0x11; 10; 0; 0; 0x20; 5; 5; 0x70; 1]) /\
  fs_read (real_decompress Wrapping) S' p false = FOk b.
Proof. vm_compute. repeat split. Qed.
