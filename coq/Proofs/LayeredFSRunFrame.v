(* Frame theorem over the histories of Model/LayeredFS.v ([fs_run]: read / write / create_dir / queries / listings, any codec):
   along a history none of whose WRITES is addressed to the location p addresses - create_dir calls are unrestricted - a read
   of p and file_exists of p answer as before (review r4, C12-7: the histories of the property's quantifier contain create_dir,
   the typed histories of Model/FsTyped.v do not). *)
From Coq Require Import List NArith Bool Arith.
From Mila Require Import Lib.Bytes Lib.Machine Model.Localize Proofs.LocalizeProofs Model.LayeredFS
  Proofs.LayeredFSBase Proofs.LayeredFSStack Proofs.LayeredFSOk Proofs.LayeredFSTyped.
Import ListNotations.

Section Frame.
  Variable compress decompress : cfmt -> bytes -> outcome bytes.

  Definition op_elsewhere (S : fsys) (pp : path) (o : op) : Prop :=
    match o with
    | OWrite q _ l => forall s qq tr, fs_addr S q l = FOk (s, (qq, tr)) -> qq <> pp
    | _ => True
    end.

  Lemma op_elsewhere_state S S' pp o : conf S' = conf S -> lng S' = lng S -> op_elsewhere S pp o -> op_elsewhere S' pp o.
  Proof.
    intros C G. destruct o; cbn [op_elsewhere]; try exact (fun H => H).
    intros H s qq tr A. rewrite (fs_addr_state S S' _ _ C G) in A. exact (H s qq tr A).
  Qed.

  Lemma fs_step_conf S o : conf (fst (fs_step compress decompress S o)) = conf S /\ lng (fst (fs_step compress decompress S o)) = lng S.
  Proof.
    destruct o; cbn [fs_step fst]; auto.
    - destruct (fs_write compress S p b loc) as [S' r] eqn:W. cbn [fst].
      destruct (write_lower_untouched compress S p b loc S' r W) as (C & G & _). auto.
    - destruct (fs_create_dir S p loc) as [S' r] eqn:W. cbn [fst].
      destruct (create_dir_top_only S p loc S' r W) as (C & G & _). auto.
  Qed.

  Lemma write_frame_file_exists S q b locq S' r p loc s a :
    fs_write compress S q b locq = (S', r) -> fs_addr S p loc = FOk (s, a) ->
    (forall s' qq trq, fs_addr S q locq = FOk (s', (qq, trq)) -> qq <> fst a) ->
    fs_file_exists S' p loc = fs_file_exists S p loc.
  Proof.
    intros H A Hne. apply fs_write_cases in H.
    destruct H as [(-> & _)|(s' & qq & trq & c & top & rest & top' & ok & A' & En & Ly & W & -> & _)]; [reflexivity|].
    assert (A2 : fs_addr (mkFs (rest ++ [top']) (conf S) (lng S)) p loc = FOk (s, a))
      by (rewrite (fs_addr_state S (mkFs (rest ++ [top']) (conf S) (lng S)) p loc eq_refl eq_refl); exact A).
    rewrite (fs_file_exists_spec _ p s loc a A2), (fs_file_exists_spec S p s loc a A). cbn [layers]. rewrite Ly, !existsb_app. cbn [existsb].
    assert (Hq : fst a <> qq) by (intros E; exact (Hne s' qq trq A' (eq_sym E))).
    destruct (l_write_frame_read top qq trq c top' ok a W Hq) as [E1 _]. rewrite E1. reflexivity.
  Qed.

  Theorem fs_step_keeps_read S o p loc s a :
    fs_addr S p loc = FOk (s, a) -> op_elsewhere S (fst a) o ->
    fs_read decompress (fst (fs_step compress decompress S o)) p loc = fs_read decompress S p loc /\
    fs_file_exists (fst (fs_step compress decompress S o)) p loc = fs_file_exists S p loc.
  Proof.
    intros A E. destruct o; cbn [fs_step fst]; try (split; reflexivity); cbn [op_elsewhere] in E.
    - destruct (fs_write compress S p0 b loc0) as [S' r] eqn:W. cbn [fst]. split.
      + exact (write_frame_read compress decompress S p0 b loc0 S' r p loc s a W A E).
      + exact (write_frame_file_exists S p0 b loc0 S' r p loc s a W A E).
    - destruct (fs_create_dir S p0 loc0) as [S' r] eqn:W. cbn [fst].
      destruct (create_dir_frame decompress S p0 loc0 S' r W) as (R & F & _). split; [apply R | apply F].
  Qed.

  Theorem fs_run_keeps_read os : forall S p loc s a,
    fs_addr S p loc = FOk (s, a) -> Forall (op_elsewhere S (fst a)) os ->
    fs_read decompress (fs_run compress decompress S os) p loc = fs_read decompress S p loc /\
    fs_file_exists (fs_run compress decompress S os) p loc = fs_file_exists S p loc.
  Proof.
    induction os as [|o r IH]; intros S p loc s a A F; cbn [fs_run]; [split; reflexivity|].
    inversion F as [|? ? Ho Hr]; subst.
    destruct (fs_step_conf S o) as (C & G).
    destruct (fs_step_keeps_read S o p loc s a A Ho) as (R1 & F1).
    destruct (IH (fst (fs_step compress decompress S o)) p loc s a) as (R2 & F2).
    - rewrite (fs_addr_state S _ p loc C G). exact A.
    - eapply Forall_impl; [|exact Hr]. intros o'. apply op_elsewhere_state; assumption.
    - split; [rewrite R2; exact R1 | rewrite F2; exact F1].
  Qed.

  (* read-after-write THROUGH a history with create_dir calls: after a successful write of p, any calls other than writes to the
     same location (reads, queries, listings, create_dir anywhere, writes elsewhere), a read of p returns the payload *)
  Theorem read_after_write_history (dom : cfmt -> bytes -> Prop) :
    (forall f b c, dom f b -> compress f b = Ok c -> decompress f c = Ok b) ->
    forall S p b loc S1 os,
    fs_write compress S p b loc = (S1, FOk tt) -> dom (c_comp (conf S)) b ->
    (forall s pp tr, fs_addr S p loc = FOk (s, (pp, tr)) -> Forall (op_elsewhere S pp) os) ->
    fs_read decompress (fs_run compress decompress S1 os) p loc = FOk b.
  Proof.
    intros RT S p b loc S1 os W D F.
    pose proof (read_after_write compress decompress dom RT S p b loc S1 W D) as R.
    destruct (write_lower_untouched compress S p b loc S1 (FOk tt) W) as (C & G & _).
    destruct (write_ok_top compress S p b loc S1 W) as (s & pp & c & A & _).
    assert (A1 : fs_addr S1 p loc = FOk (s, (pp, false))) by (rewrite (fs_addr_state S S1 p loc C G); exact A).
    assert (F1 : Forall (op_elsewhere S1 pp) os).
    { eapply Forall_impl; [|exact (F s pp false A)]. intros o. apply op_elsewhere_state; assumption. }
    destruct (fs_run_keeps_read os S1 p loc s (pp, false) A1 F1) as (K & _). rewrite K. exact R.
  Qed.
End Frame.
