(* Agreement of the counts, header constants and the label of src/aset.rs (regenerated from the source on
   every run) with Model/ASet.v. *)
From Coq Require Import String List NArith ZArith Bool.
From Mila Require Import Generated.SourceTables.
From Mila Require Import Proofs.SrcAgreeLib Lib.Bytes Lib.Machine Model.BinArchive Model.BinStreams Model.ASet.
Import ListNotations.
Local Open Scope N_scope.

Definition ca (i : nat) : N := nthN i src_ASET_CONSTS.

Theorem src_ASET_CONSTS_agrees_count : List.length src_ASET_CONSTS = 14%nat.
Proof. reflexivity. Qed.

(* reader: 257 clip names, 8 groups of 32 slots; the writer uses the same group / slot counts and stride *)
Theorem src_ASET_CONSTS_agrees :
  ca 0 = N.of_nat TABLE_LEN /\ ca 1 = N.of_nat GROUPS /\ ca 2 = N.of_nat GROUP_BITS /\
  ca 4 = N.of_nat GROUPS /\ ca 5 = N.of_nat GROUPS /\ ca 6 = N.of_nat GROUP_BITS /\ ca 7 = N.of_nat GROUP_BITS.
Proof. repeat split; reflexivity. Qed.

(* the places where the model has the numbers as literals *)
Theorem src_ASET_CONSTS_agrees_slots : forall set g,
  group_presence set g = map (fun bit => slot_present set (g * N.to_nat (ca 7) + bit + 1)) (seq 0 (N.to_nat (ca 6))).
Proof. intros. reflexivity. Qed.

Theorem src_ASET_CONSTS_agrees_write_slots : forall bits i set a pos,
  write_slots bits i set a pos
  = (fix go (bits : list nat) (a : archive) (pos : N) : outcome unit * archive * N :=
       match bits with
       | [] => (Ok tt, a, pos)
       | j :: r =>
         match slot set (i * N.to_nat (ca 7) + j + 1) with
         | Some v => match w_write_string a pos (Some v) with
                     | (Ok _, a', p) => go r a' p
                     | other => other
                     end
         | None => go r a pos
         end
       end) bits a pos.
Proof. induction bits as [|j r IH]; intros; [reflexivity|]. cbn [write_slots]. 
       change (N.to_nat (ca 7)) with 32%nat.
       destruct (slot set (i * 32 + j + 1)); [destruct (w_write_string a pos (Some b)) as [[[]]]|]; try reflexivity; apply IH. Qed.

(* header: reader.skip(4); allocate_at_end(12); write_u32(0, 4); write_string(4, meta); write_u32(8, 0x100);
   BinArchiveWriter::new(archive, 12); 4 bytes per table cell *)
Definition build_p (hdr w0 w8 meta_at wstart cell : N) (s : aset) : outcome archive :=
  let a1 := allocate_at_end (ba_new LE) hdr in
  a2 <- write_u32 a1 0 w0 ;;
  a3 <- write_string a2 meta_at (as_meta s) ;;
  a4 <- write_u32 a3 8 w8 ;;
  let a5 := allocate_at_end a4 (N.of_nat (List.length (as_table s)) * cell) in
  match w_write_label a5 wstart ACNT with
  | (Ok _, a6, p6) =>
    match write_table (as_table s) a6 p6 with
    | (Ok _, a7, p7) => out_of (write_sets (as_sets s) a7 p7)
    | other => out_of other
    end
  | other => out_of other
  end.

Theorem src_ASET_CONSTS_agrees_header : forall s,
  build s = build_p (ca 8) (ca 9) (ca 10) (ca 11) (ca 12) (ca 13) s.
Proof. intro s. reflexivity. Qed.

Definition from_archive_p (skip : N) (tlen : nat) (a : archive) : outcome aset :=
  let pos := 0 + skip in
  table_address <- of_option EOther (find_label_address a ACNT) ;;
  match r_read_string a pos with
  | (Ok meta, _) =>
    r <- read_strings tlen a table_address [] ;;
    sets <- read_sets (S (List.length (a_data a))) a (snd r) [] ;;
    Ok {| as_meta := meta; as_table := fst r; as_sets := sets |}
  | (Err e, _) => Err e
  | (Panic k, _) => Panic k
  end.

Theorem src_ASET_CONSTS_agrees_reader : forall a,
  from_archive a = from_archive_p (ca 3) (N.to_nat (ca 0)) a.
Proof. intro a. reflexivity. Qed.

Theorem src_ASET_LABEL_agrees : src_ASET_LABEL = ACNT.
Proof. reflexivity. Qed.
Theorem src_ASET_LABEL_agrees_text : src_ASET_LABEL = s2l "AnimClipNameTable".
Proof. reflexivity. Qed.
