(* Lemmas for property C03: allocate / deallocate / truncate relocate every annotation. *)
From Coq Require Import List NArith ZArith Bool Lia ZifyBool ZifyNat ZifyN.
From Mila Require Import Lib.Bytes Lib.Machine Model.BinArchive Proofs.AMapLemmas Proofs.BinAccess.
Import ListNotations.
Local Open Scope N_scope.
Ltac Zify.zify_post_hook ::= Z.div_mod_to_equations.

(* the relocation maps of the property text *)
Definition kappa (a n x : N) : N := if a <=? x then x + n else x.                         (* strings, pointer cells, c-string cells *)
Definition tau (a n : N) (ge : bool) (x : N) : N := if orb (a <? x) (andb (a =? x) ge) then x + n else x.   (* labels, pointer targets *)
Definition back (a n x : N) : N := if a <=? x then x - n else x.
Definition backl (a n : N) (ge : bool) (x : N) : N := if orb (a <? x) (andb (a =? x) ge) then x - n else x.
Definition in_rng (a n x : N) : Prop := a <= x /\ x < a + n.

Lemma adjust_pointer_kappa x a n : adjust_pointer x a n false = kappa a n x.
Proof. reflexivity. Qed.
Lemma adjust_pointer_back x a n : adjust_pointer x a n true = back a n x.
Proof. reflexivity. Qed.
Lemma adjust_dest_tau x a n ge : adjust_dest x a n false ge = tau a n ge x.
Proof.
  unfold adjust_dest, moves, tau. replace (andb (a <=? x) ge) with (orb (andb (a <? x) ge) (andb (a =? x) ge)).
  - destruct (N.ltb_spec a x); destruct (N.eqb_spec a x); destruct ge; cbn; try reflexivity; lia.
  - destruct (N.ltb_spec a x); destruct (N.eqb_spec a x); destruct (N.leb_spec a x); destruct ge; cbn; try reflexivity; lia.
Qed.
Lemma adjust_dest_backl x a n ge : adjust_dest x a n true ge = backl a n ge x.
Proof.
  unfold adjust_dest, moves, backl.
  destruct (N.ltb_spec a x); destruct (N.eqb_spec a x); destruct (N.leb_spec a x); destruct ge; cbn; try reflexivity; lia.
Qed.

Lemma kappa_inj a n x y : kappa a n x = kappa a n y -> x = y.
Proof. unfold kappa. destruct (N.leb_spec a x); destruct (N.leb_spec a y); lia. Qed.
Lemma tau_inj a n ge x y : tau a n ge x = tau a n ge y -> x = y.
Proof.
  unfold tau. destruct (N.ltb_spec a x); destruct (N.ltb_spec a y); destruct (N.eqb_spec a x); destruct (N.eqb_spec a y);
    destruct ge; cbn [orb andb]; lia.
Qed.
Lemma back_inj a n x y : ~ in_rng a n x -> ~ in_rng a n y -> back a n x = back a n y -> x = y.
Proof. unfold back, in_rng. destruct (N.leb_spec a x); destruct (N.leb_spec a y); lia. Qed.
Lemma backl_inj a n ge x y : ~ in_rng a n x -> ~ in_rng a n y -> backl a n ge x = backl a n ge y -> x = y.
Proof.
  unfold backl, in_rng. destruct (N.ltb_spec a x); destruct (N.ltb_spec a y); destruct (N.eqb_spec a x); destruct (N.eqb_spec a y);
    destruct ge; cbn [orb andb]; lia.
Qed.
Lemma in_range_spec a n x : in_range a n x = true <-> in_rng a n x.
Proof. unfold in_range, in_rng. rewrite andb_true_iff, N.leb_le, N.ltb_lt. tauto. Qed.

(* lookup through a map on (key, value) pairs *)
Lemma am_get_map_pairs (f g : N -> N) (m : amap N) x :
  (forall k, In k (am_keys m) -> f k = f x -> k = x) ->
  am_get (f x) (map (fun p => (f (fst p), g (snd p))) m) = option_map g (am_get x m).
Proof.
  unfold am_keys. induction m as [|[k v] r IH]; intros Hinj; cbn [map am_get fst snd]; [reflexivity|].
  destruct (N.eqb_spec (f x) (f k)) as [E|E].
  - assert (k = x) by (apply Hinj; [left; reflexivity | congruence]). subst k. rewrite N.eqb_refl. reflexivity.
  - destruct (N.eqb_spec x k) as [E2|E2]; [subst; congruence|].
    apply IH. intros k0 Hk. apply Hinj. right. exact Hk.
Qed.

(* ------------------------------------------------------------------ allocate *)
Lemma validate_alignment_spec v k : validate_alignment v k = if v mod k =? 0 then Ok tt else Err EUnaligned.
Proof. reflexivity. Qed.

Lemma USIZE_MAX1_val : USIZE_MAX1 = 18446744073709551616.
Proof. reflexivity. Qed.
Lemma ISIZE_MAX_val : ISIZE_MAX = 9223372036854775807.
Proof. reflexivity. Qed.

(* a label address / pointer target t is moved by an insertion at addr: behind it, or on it when ge *)
Definition moved (addr : N) (ge : bool) (t : N) : Prop := addr < t \/ (addr = t /\ ge = true).
Lemma moves_spec t addr ge : moves t addr ge = true <-> moved addr ge t.
Proof.
  unfold moves, moved. rewrite orb_true_iff, andb_true_iff, N.ltb_lt, N.leb_le. split.
  - intros [H|[H1 H2]]; [left; exact H|]. destruct (N.eq_dec addr t) as [E|E]; [right; auto | left; lia].
  - intros [H|[H1 H2]]; [left; exact H | right; split; [lia | exact H2]].
Qed.
Lemma tau_moved addr n ge t : tau addr n ge t = if moves t addr ge then t + n else t.
Proof. rewrite <- adjust_dest_tau. reflexivity. Qed.

(* the representability condition of the repaired code (fix 0edd128), as a proposition:
   the new size is a valid vector length (<= isize::MAX = 2^63 - 1) and every pointer target that moves stays a usize *)
Definition targets_fit (a : archive) (addr n : N) (ge : bool) : Prop :=
  forall c t, In (c, t) (a_ptrs a) -> moved addr ge t -> t + n < USIZE_MAX1.
Definition allocate_cond (a : archive) (addr n : N) (ge : bool) : Prop :=
  addr <= size a /\ addr mod 4 = 0 /\ n mod 4 = 0 /\ size a + n <= ISIZE_MAX /\ targets_fit a addr n ge.

Lemma allocate_fits_spec a addr n ge :
  allocate_fits a addr n ge = true <-> (size a + n <= ISIZE_MAX /\ targets_fit a addr n ge).
Proof.
  unfold allocate_fits, targets_fit, checked_add64. rewrite andb_true_iff, forallb_forall.
  rewrite ISIZE_MAX_val, USIZE_MAX1_val.
  split.
  - intros [H1 H2]. split.
    + destruct (N.ltb_spec (size a + n) 18446744073709551616); [apply N.leb_le in H1; exact H1 | discriminate].
    + intros c t Hin Hm. specialize (H2 (c, t) Hin). cbn [snd] in H2. apply moves_spec in Hm. rewrite Hm in H2. cbn [negb orb] in H2.
      destruct (N.ltb_spec (t + n) 18446744073709551616); [assumption | discriminate].
  - intros [H1 H2]. split.
    + destruct (N.ltb_spec (size a + n) 18446744073709551616); [apply N.leb_le; exact H1 | lia].
    + intros [c t] Hin. cbn [snd]. destruct (moves t addr ge) eqn:Hm; cbn [negb orb]; [|reflexivity].
      apply moves_spec in Hm. specialize (H2 c t Hin Hm).
      destruct (N.ltb_spec (t + n) 18446744073709551616); [reflexivity | lia].
Qed.

Lemma allocate_checks_spec a addr n ge :
  allocate_checks a addr n ge =
    if negb (addr <=? size a) then Err EOob
    else if negb ((addr mod 4 =? 0) && (n mod 4 =? 0)) then Err EUnaligned
    else if allocate_fits a addr n ge then Ok tt else Err EOob.
Proof.
  unfold allocate_checks, validate_alignment, guard. rewrite validate_address_true.
  destruct (addr <=? size a); cbn [bind negb]; [|reflexivity].
  destruct (addr mod 4 =? 0); cbn [bind negb andb]; [|reflexivity].
  destruct (n mod 4 =? 0); cbn [bind negb]; reflexivity.
Qed.
Lemma allocate_checks_ok_iff a addr n ge : allocate_checks a addr n ge = Ok tt <-> allocate_cond a addr n ge.
Proof.
  rewrite allocate_checks_spec. unfold allocate_cond. rewrite <- allocate_fits_spec.
  destruct (N.leb_spec addr (size a)); cbn [negb]; [|split; [discriminate | lia]].
  destruct (N.eqb_spec (addr mod 4) 0); cbn [andb negb]; [|split; [discriminate | lia]].
  destruct (N.eqb_spec (n mod 4) 0); cbn [negb]; [|split; [discriminate | lia]].
  destruct (allocate_fits a addr n ge); split; try discriminate; try reflexivity; try tauto.
  intros (_ & _ & _ & Hd); discriminate.
Qed.
Lemma allocate_checks_result a addr n ge :
  allocate_checks a addr n ge = Ok tt \/ allocate_checks a addr n ge = Err EOob \/ allocate_checks a addr n ge = Err EUnaligned.
Proof.
  rewrite allocate_checks_spec. destruct (negb _); [auto|]. destruct (negb _); [auto|]. destruct (allocate_fits _ _ _ _); auto.
Qed.
Lemma allocate_unfold a addr n ge :
  allocate a addr n ge =
    match allocate_checks a addr n ge with
    | Ok _ => Ok {| a_data := firstn (N.to_nat addr) (a_data a) ++ zeros (N.to_nat n) ++ skipn (N.to_nat addr) (a_data a);
                    a_text := adjust_text (a_text a) addr n false;
                    a_ptrs := adjust_pointers (a_ptrs a) addr n false ge;
                    a_labels := adjust_labels (a_labels a) addr n false ge;
                    a_cstrs := adjust_cstrs (a_cstrs a) addr n false;
                    a_endian := a_endian a |}
    | Err e => Err e
    | Panic k => Panic k
    end.
Proof. unfold allocate. destruct (allocate_checks a addr n ge); reflexivity. Qed.

(* accepted iff in range, aligned and representable *)
Theorem allocate_ok_iff a addr n ge :
  (exists a', allocate a addr n ge = Ok a') <-> allocate_cond a addr n ge.
Proof.
  rewrite <- allocate_checks_ok_iff, allocate_unfold.
  destruct (allocate_checks a addr n ge) as [[]|e|k]; split; intros H; try discriminate; eauto; destruct H; discriminate.
Qed.
Lemma allocate_accepted a addr n ge a' : allocate a addr n ge = Ok a' -> allocate_cond a addr n ge.
Proof. intros H. apply allocate_ok_iff. eauto. Qed.
(* everything else is rejected with one of the two error kinds (never a panic) *)
Theorem allocate_rejected a addr n ge :
  ~ allocate_cond a addr n ge ->
  allocate a addr n ge = Err EOob \/ allocate a addr n ge = Err EUnaligned.
Proof.
  intros Hn. rewrite allocate_unfold. destruct (allocate_checks_result a addr n ge) as [E|[E|E]]; rewrite E; auto.
  exfalso. apply Hn. apply allocate_checks_ok_iff. exact E.
Qed.
Theorem allocate_never_panics a addr n ge k : allocate a addr n ge <> Panic k.
Proof.
  rewrite allocate_unfold. destruct (allocate_checks_result a addr n ge) as [E|[E|E]]; rewrite E; discriminate.
Qed.

(* ---- the code's own statement order in machine arithmetic (Model: allocate_m) ---- *)
(* every annotation key (cell, label address, c-string cell) is at most the size: true after every history of API calls
   (Proofs/BinKeysInvariant.v: keys are validated against the size when written and relocated with it) *)
Definition keys_le_size (a : archive) : Prop :=
  Forall (fun k => k <= size a) (am_keys (a_text a)) /\ Forall (fun k => k <= size a) (am_keys (a_ptrs a)) /\
  Forall (fun k => k <= size a) (am_keys (a_labels a)) /\ Forall (fun q => Forall (fun k => k <= size a) (snd q)) (a_cstrs a).

Lemma add_at_ok m b x n : x + n < USIZE_MAX1 -> add_at m b x n = Ok (if b then x + n else x).
Proof. intros H. unfold add_at. destruct b; [apply add_w_ok; exact H | reflexivity]. Qed.
Lemma relocate_keys_add_ok {V} m mv n (mp : amap V) :
  Forall (fun k => k + n < USIZE_MAX1) (am_keys mp) ->
  relocate_keys_add m mv n mp = Ok (am_map_keys (fun k => if mv k then k + n else k) mp).
Proof.
  unfold am_keys, am_map_keys. induction mp as [|[k v] r IH]; intros H; cbn [relocate_keys_add map fst snd]; [reflexivity|].
  cbn [map fst] in H. inversion H as [|? ? Hk Hr]; subst. rewrite add_at_ok by exact Hk. cbn [bind]. rewrite IH by exact Hr. reflexivity.
Qed.
Lemma relocate_list_add_ok m mv n l :
  Forall (fun k => k + n < USIZE_MAX1) l -> relocate_list_add m mv n l = Ok (map (fun k => if mv k then k + n else k) l).
Proof.
  induction l as [|k r IH]; intros H; cbn [relocate_list_add map]; [reflexivity|].
  inversion H as [|? ? Hk Hr]; subst. rewrite add_at_ok by exact Hk. cbn [bind]. rewrite IH by exact Hr. reflexivity.
Qed.
Lemma relocate_cstrs_add_ok m mv n c :
  Forall (fun q : bytes * list N => Forall (fun k => k + n < USIZE_MAX1) (snd q)) c ->
  relocate_cstrs_add m mv n c = Ok (map (fun q => (fst q, map (fun k => if mv k then k + n else k) (snd q))) c).
Proof.
  induction c as [|[s cells] r IH]; intros H; cbn [relocate_cstrs_add map fst snd]; [reflexivity|].
  inversion H as [|? ? Hk Hr]; subst. cbn [snd] in Hk. rewrite relocate_list_add_ok by exact Hk. cbn [bind]. rewrite IH by exact Hr. reflexivity.
Qed.
Lemma adjust_pointers_add_ok m ptrs addr n ge :
  Forall (fun k => k + n < USIZE_MAX1) (am_keys ptrs) ->
  (forall c t, In (c, t) ptrs -> moved addr ge t -> t + n < USIZE_MAX1) ->
  adjust_pointers_add m ptrs addr n ge = Ok (adjust_pointers ptrs addr n false ge).
Proof.
  unfold am_keys. induction ptrs as [|[c t] r IH]; intros Hk H; cbn [adjust_pointers_add adjust_pointers map fst snd]; [reflexivity|].
  cbn [map fst] in Hk. inversion Hk as [|? ? Hc Hr]; subst.
  rewrite IH by (try exact Hr; intros c0 t0 Hin; apply (H c0 t0); right; exact Hin).
  rewrite add_at_ok by exact Hc. cbn [bind]. unfold add_at, adjust_dest, adjust_pointer.
  destruct (moves t addr ge) eqn:Hm; cbn [bind]; [|reflexivity].
  rewrite add_w_ok; [reflexivity|]. apply (H c t); [left; reflexivity | apply moves_spec; exact Hm].
Qed.
(* For BOTH arithmetic profiles the step-by-step execution is the functional summary: it never panics, never wraps a key
   or a target, and when it does not return Ok the archive the caller holds is the one it passed in. *)
Theorem allocate_m_is_allocate m a addr n ge :
  keys_le_size a ->
  allocate_m m a addr n ge =
    match allocate a addr n ge with Ok a' => (Ok tt, a') | Err e => (Err e, a) | Panic k => (Panic k, a) end.
Proof.
  intros (Kt & Kp & Kl & Kc). unfold allocate_m. rewrite allocate_unfold.
  destruct (allocate_checks a addr n ge) as [[]|e|k] eqn:E; try reflexivity.
  apply allocate_checks_ok_iff in E. destruct E as (_ & _ & _ & Hsz & Hfit).
  rewrite ISIZE_MAX_val in Hsz.
  assert (B : forall k, k <= size a -> k + n < USIZE_MAX1) by (intros k Hk; rewrite USIZE_MAX1_val; lia).
  assert (Bt : Forall (fun k => k + n < USIZE_MAX1) (am_keys (a_text a))) by (eapply Forall_impl; [|exact Kt]; exact B).
  assert (Bp : Forall (fun k => k + n < USIZE_MAX1) (am_keys (a_ptrs a))) by (eapply Forall_impl; [|exact Kp]; exact B).
  assert (Bl : Forall (fun k => k + n < USIZE_MAX1) (am_keys (a_labels a))) by (eapply Forall_impl; [|exact Kl]; exact B).
  assert (Bc : Forall (fun q : bytes * list N => Forall (fun k => k + n < USIZE_MAX1) (snd q)) (a_cstrs a)).
  { eapply Forall_impl; [|exact Kc]. intros q Hq. eapply Forall_impl; [|exact Hq]. exact B. }
  unfold allocate_apply.
  rewrite (relocate_keys_add_ok m _ n (a_text a) Bt), (relocate_keys_add_ok m _ n (a_labels a) Bl). cbn [bind].
  rewrite (adjust_pointers_add_ok m (a_ptrs a) addr n ge Bp Hfit). cbn [bind].
  rewrite (relocate_cstrs_add_ok m _ n (a_cstrs a) Bc). reflexivity.
Qed.
Theorem allocate_m_failure_unchanged m a addr n ge :
  keys_le_size a -> fst (allocate_m m a addr n ge) <> Ok tt -> snd (allocate_m m a addr n ge) = a.
Proof.
  intros K. rewrite (allocate_m_is_allocate m a addr n ge K).
  destruct (allocate a addr n ge); cbn [fst snd]; [intros H; exfalso; apply H; reflexivity | reflexivity | reflexivity].
Qed.
Theorem allocate_m_never_panics m a addr n ge k : keys_le_size a -> fst (allocate_m m a addr n ge) <> Panic k.
Proof.
  intros K. rewrite (allocate_m_is_allocate m a addr n ge K). destruct (allocate a addr n ge) as [a'|e|k'] eqn:E; cbn [fst]; try discriminate.
  exfalso. exact (allocate_never_panics _ _ _ _ _ E).
Qed.
(* relocated targets are usize values again *)
Theorem allocate_targets_usize a addr n ge a' :
  allocate a addr n ge = Ok a' ->
  (forall c t, In (c, t) (a_ptrs a) -> t < USIZE_MAX1) -> forall c t, In (c, t) (a_ptrs a') -> t < USIZE_MAX1.
Proof.
  intros H Hu c t Hin. destruct (allocate_accepted _ _ _ _ _ H) as (_ & _ & _ & _ & Hfit).
  rewrite allocate_unfold in H. destruct (allocate_checks a addr n ge); try discriminate. inversion H; subst a'; clear H.
  cbn [a_ptrs] in Hin. unfold adjust_pointers in Hin. apply in_map_iff in Hin. destruct Hin as ([c0 t0] & E & Hin0).
  cbn [fst snd] in E. inversion E; subst c t; clear E. unfold adjust_dest.
  destruct (moves t0 addr ge) eqn:Hm; [apply (Hfit c0 t0 Hin0); apply moves_spec; exact Hm | apply (Hu c0 t0 Hin0)].
Qed.

(* without the check (the code before fix 0edd128): the finding's input - 8 bytes, a pointer at 0 with target usize::MAX - 1,
   allocate(0, 4, false) - panics in the checked profile AFTER the data has been spliced, and wraps the target in release *)
Definition f24_archive : archive :=
  {| a_data := zeros 8; a_text := []; a_ptrs := [(0, 18446744073709551614)]; a_labels := []; a_cstrs := []; a_endian := LE |}.
Example allocate_apply_unchecked_panics :
  fst (allocate_apply Checked f24_archive 0 4 false) = Panic POverflow
  /\ size (snd (allocate_apply Checked f24_archive 0 4 false)) = 12
  /\ a_ptrs (snd (allocate_apply Checked f24_archive 0 4 false)) = [(0, 18446744073709551614)]
  /\ fst (allocate_apply Wrapping f24_archive 0 4 false) = Ok tt
  /\ a_ptrs (snd (allocate_apply Wrapping f24_archive 0 4 false)) = [(4, 2)]
  /\ allocate f24_archive 0 4 false = Err EOob
  /\ allocate_m Checked f24_archive 0 4 false = (Err EOob, f24_archive).
Proof. vm_compute. repeat split. Qed.

Theorem allocate_spec a addr n ge a' :
  allocate a addr n ge = Ok a' ->
  a_data a' = firstn (N.to_nat addr) (a_data a) ++ zeros (N.to_nat n) ++ skipn (N.to_nat addr) (a_data a)
  /\ size a' = size a + n
  /\ (forall x, am_get (kappa addr n x) (a_text a') = am_get x (a_text a))
  /\ am_keys (a_text a') = map (kappa addr n) (am_keys (a_text a))
  /\ (forall x, am_get (kappa addr n x) (a_ptrs a') = option_map (tau addr n ge) (am_get x (a_ptrs a)))
  /\ am_keys (a_ptrs a') = map (kappa addr n) (am_keys (a_ptrs a))
  /\ (forall x, am_get (tau addr n ge x) (a_labels a') = am_get x (a_labels a))
  /\ am_keys (a_labels a') = map (tau addr n ge) (am_keys (a_labels a))
  /\ a_cstrs a' = map (fun q => (fst q, map (kappa addr n) (snd q))) (a_cstrs a)
  /\ a_endian a' = a_endian a.
Proof.
  intros H. assert (Hok : addr <= size a) by (apply (allocate_accepted a addr n ge a'); exact H).
  rewrite allocate_unfold in H. destruct (allocate_checks a addr n ge); try discriminate.
  inversion H; subst a'; clear H. cbn [a_data a_text a_ptrs a_labels a_cstrs a_endian].
  split; [reflexivity|]. split.
  { unfold size, lenN in *. cbn [a_data]. rewrite !app_length, firstn_length, skipn_length. unfold zeros. rewrite repeat_length. lia. }
  split. { intros x. unfold adjust_text. apply am_get_map_keys. intros k _ E. apply (kappa_inj addr n). exact E. }
  split. { unfold adjust_text. apply am_keys_map_keys. }
  split. { intros x. unfold adjust_pointers.
    rewrite (map_ext _ (fun p => (kappa addr n (fst p), tau addr n ge (snd p)))) by (intros [k v]; cbn [fst snd]; rewrite adjust_dest_tau; reflexivity).
    apply am_get_map_pairs. intros k _ E. apply (kappa_inj addr n). exact E. }
  split. { unfold adjust_pointers, am_keys. rewrite !map_map. reflexivity. }
  split. { intros x. unfold adjust_labels.
    rewrite <- (am_get_map_keys (tau addr n ge) (a_labels a) x) by (intros k _ E; apply (tau_inj addr n ge); exact E).
    f_equal. unfold am_map_keys. apply map_ext. intros [k v]. cbn [fst snd]. rewrite adjust_dest_tau. reflexivity. }
  split. { unfold adjust_labels. rewrite am_keys_map_keys. apply map_ext. intros k. apply adjust_dest_tau. }
  split; reflexivity.
Qed.

(* ------------------------------------------------------------------ deallocate *)
Theorem deallocate_ok_iff a addr n ge :
  addr < USIZE_MAX1 -> n < USIZE_MAX1 -> size a < USIZE_MAX1 ->
  ((exists a', deallocate a addr n ge = Ok a') <-> (addr < size a /\ addr + n <= size a /\ addr mod 4 = 0 /\ n mod 4 = 0)).
Proof.
  intros Ha Hn Hs. unfold deallocate, checked_add64. rewrite validate_address_false. unfold validate_alignment.
  destruct (N.ltb_spec addr (size a)); cbn [bind]; [|split; [intros [a' Hdis]; discriminate | lia]].
  destruct (N.ltb_spec (addr + n) USIZE_MAX1); cbn [of_option bind]; [|split; [intros [a' Hdis]; discriminate | lia]].
  rewrite validate_address_true.
  destruct (N.leb_spec (addr + n) (size a)); cbn [bind]; [|split; [intros [a' Hdis]; discriminate | lia]].
  destruct (N.eqb_spec (addr mod 4) 0); cbn [bind]; [|split; [intros [a' Hdis]; discriminate | lia]].
  destruct (N.eqb_spec (n mod 4) 0); cbn [bind]; [|split; [intros [a' Hdis]; discriminate | lia]].
  split; [lia | eauto].
Qed.
Theorem deallocate_never_panics a addr n ge k : deallocate a addr n ge <> Panic k.
Proof.
  unfold deallocate, checked_add64. rewrite validate_address_false. unfold validate_alignment.
  destruct (addr <? size a); cbn [bind]; [|discriminate].
  destruct (addr + n <? USIZE_MAX1); cbn [of_option bind]; [|discriminate].
  rewrite validate_address_true. destruct (addr + n <=? size a); cbn [bind]; [|discriminate].
  destruct (addr mod 4 =? 0); cbn [bind]; [|discriminate].
  destruct (n mod 4 =? 0); cbn [bind]; discriminate.
Qed.
Theorem deallocate_rejected a addr n ge :
  ~ (addr < size a /\ addr + n <= size a /\ addr mod 4 = 0 /\ n mod 4 = 0) ->
  deallocate a addr n ge = Err EOob \/ deallocate a addr n ge = Err EUnaligned.
Proof.
  unfold deallocate, checked_add64. rewrite validate_address_false. unfold validate_alignment.
  destruct (N.ltb_spec addr (size a)); cbn [bind]; [|auto].
  destruct (N.ltb_spec (addr + n) USIZE_MAX1); cbn [of_option bind]; [|auto].
  rewrite validate_address_true. destruct (N.leb_spec (addr + n) (size a)); cbn [bind]; [|auto].
  destruct (N.eqb_spec (addr mod 4) 0); cbn [bind]; [|auto].
  destruct (N.eqb_spec (n mod 4) 0); cbn [bind]; [|auto]. lia.
Qed.

Lemma filter_cstrs_spec p c :
  filter_cstrs p c = filter (fun q => match snd q with [] => false | _ => true end) (map (fun q => (fst q, filter p (snd q))) c).
Proof. reflexivity. Qed.

Theorem deallocate_spec a addr n ge a' :
  deallocate a addr n ge = Ok a' ->
  a_data a' = firstn (N.to_nat addr) (a_data a) ++ skipn (N.to_nat (addr + n)) (a_data a)
  /\ size a' + n = size a
  (* strings: exactly those outside the range survive, shifted back *)
  /\ (forall x, ~ in_rng addr n x -> am_get (back addr n x) (a_text a') = am_get x (a_text a))
  /\ am_keys (a_text a') = map (back addr n) (filter (fun k => negb (in_range addr n k)) (am_keys (a_text a)))
  (* pointers: those located in the range or pointing into it are removed *)
  /\ a_ptrs a' = map (fun p => (back addr n (fst p), backl addr n ge (snd p)))
                     (filter (fun p => negb (orb (in_range addr n (fst p)) (in_range addr n (snd p)))) (a_ptrs a))
  /\ (forall x, ~ in_rng addr n x -> am_get (backl addr n ge x) (a_labels a') = am_get x (a_labels a))
  /\ am_keys (a_labels a') = map (backl addr n ge) (filter (fun k => negb (in_range addr n k)) (am_keys (a_labels a)))
  /\ a_cstrs a' = map (fun q => (fst q, map (back addr n) (snd q)))
                      (filter_cstrs (fun k => negb (in_range addr n k)) (a_cstrs a))
  /\ a_endian a' = a_endian a.
Proof.
  intros H. unfold deallocate, checked_add64 in H. rewrite validate_address_false in H.
  destruct (N.ltb_spec addr (size a)) as [H1|H1]; cbn [bind] in H; try discriminate.
  destruct (addr + n <? USIZE_MAX1); cbn [of_option bind] in H; try discriminate.
  rewrite validate_address_true in H. destruct (N.leb_spec (addr + n) (size a)) as [H2|H2]; cbn [bind] in H; try discriminate.
  destruct (validate_alignment addr 4); cbn [bind] in H; try discriminate.
  destruct (validate_alignment n 4); cbn [bind] in H; try discriminate.
  inversion H; subst a'; clear H. cbn [a_data a_text a_ptrs a_labels a_cstrs a_endian].
  split; [reflexivity|]. split.
  { unfold size, lenN in *. cbn [a_data]. rewrite !app_length, firstn_length, skipn_length. lia. }
  split.
  { intros x Hx. unfold adjust_text, filter_text_or_labels.
    transitivity (am_get x (am_filter_keys (fun k => negb (in_range addr n k)) (a_text a))).
    - apply (am_get_map_keys (fun k => adjust_pointer k addr n true)).
      intros k Hk E. rewrite am_keys_filter_keys in Hk. apply filter_In in Hk. destruct Hk as [_ Hk].
      apply (back_inj addr n); [|exact Hx | exact E].
      intros Hr. apply in_range_spec in Hr. rewrite Hr in Hk. discriminate.
    - rewrite am_get_filter_keys. destruct (in_range addr n x) eqn:E; [apply in_range_spec in E; contradiction | reflexivity]. }
  split. { unfold adjust_text, filter_text_or_labels. rewrite am_keys_map_keys, am_keys_filter_keys. reflexivity. }
  split.
  { unfold adjust_pointers, filter_pointers. apply map_ext. intros [k v]. cbn [fst snd]. rewrite adjust_dest_backl. reflexivity. }
  split.
  { intros x Hx. unfold adjust_labels, filter_text_or_labels.
    transitivity (am_get x (am_filter_keys (fun k => negb (in_range addr n k)) (a_labels a))).
    - rewrite <- (adjust_dest_backl x addr n ge).
      apply (am_get_map_keys (fun k => adjust_dest k addr n true ge)).
      intros k Hk E. rewrite am_keys_filter_keys in Hk. apply filter_In in Hk. destruct Hk as [_ Hk].
      rewrite !adjust_dest_backl in E.
      apply (backl_inj addr n ge); [|exact Hx | exact E].
      intros Hr. apply in_range_spec in Hr. rewrite Hr in Hk. discriminate.
    - rewrite am_get_filter_keys. destruct (in_range addr n x) eqn:E; [apply in_range_spec in E; contradiction | reflexivity]. }
  split.
  { unfold adjust_labels, filter_text_or_labels. rewrite am_keys_map_keys, am_keys_filter_keys.
    apply map_ext. intros k. apply adjust_dest_backl. }
  split; reflexivity.
Qed.

(* ------------------------------------------------------------------ truncate *)
Theorem truncate_spec a addr a' :
  truncate a addr = Ok a' ->
  (size a <= addr -> a' = a) /\
  (addr < size a ->
     a_data a' = firstn (N.to_nat addr) (a_data a) /\ size a' = addr
     /\ (forall x, am_get x (a_text a') = if x <? addr then am_get x (a_text a) else None)
     /\ (forall x, am_get x (a_ptrs a') = if x <? addr then am_get x (a_ptrs a) else None)
     /\ (forall x, am_get x (a_labels a') = if x <? addr then am_get x (a_labels a) else None)
     /\ a_cstrs a' = filter_cstrs (fun k => k <? addr) (a_cstrs a)
     /\ a_endian a' = a_endian a).
Proof.
  unfold truncate. destruct (N.leb_spec (size a) addr) as [H|H]; intros E; inversion E; subst a'; clear E.
  - split; [reflexivity | lia].
  - split; [lia|]. intros _. cbn [a_data a_text a_ptrs a_labels a_cstrs a_endian].
    split; [reflexivity|]. split.
    { unfold size, lenN in *. cbn [a_data]. rewrite firstn_length. lia. }
    split; [intros x; apply (am_get_filter_keys (fun k => k <? addr))|].
    split; [intros x; apply (am_get_filter_keys (fun k => k <? addr))|].
    split; [intros x; apply (am_get_filter_keys (fun k => k <? addr))|].
    split; reflexivity.
Qed.
Theorem truncate_total a addr : exists a', truncate a addr = Ok a'.
Proof. unfold truncate. destruct (size a <=? addr); eauto. Qed.

(* every c-string cell at or beyond the cut is gone, the others stay, per string in order *)
Lemma filter_cstrs_cells p c s cells :
  In (s, cells) (filter_cstrs p c) -> cells <> [] /\ exists cells0, In (s, cells0) c /\ cells = filter p cells0.
Proof.
  unfold filter_cstrs. rewrite filter_In, in_map_iff. intros [((s0, c0) & E & Hin) Hne]. cbn [fst snd] in *.
  inversion E; subst. split; [destruct (filter p c0); [discriminate | discriminate] | eauto].
Qed.

(* ------------------------------------------------------------------ appending *)
(* the guard is assumption A-usize (the new size is a valid Vec length): above it allocate_at_end does not return in the code *)
Theorem allocate_at_end_spec a n :
  size a + n <= ISIZE_MAX ->
  a_data (allocate_at_end a n) = a_data a ++ zeros (N.to_nat n) /\ same_annotations a (allocate_at_end a n)
  /\ size (allocate_at_end a n) = size a + n.
Proof.
  intros _. unfold allocate_at_end. split; [reflexivity|]. split; [cbn; repeat split|].
  unfold size, lenN. cbn [set_data a_data]. rewrite app_length. unfold zeros. rewrite repeat_length. lia.
Qed.

Lemma deallocate_accepted a addr n ge a' :
  deallocate a addr n ge = Ok a' -> addr < size a /\ addr + n <= size a /\ addr mod 4 = 0 /\ n mod 4 = 0.
Proof.
  intros E. unfold deallocate, checked_add64 in E. rewrite validate_address_false in E. unfold validate_alignment in E.
  destruct (N.ltb_spec addr (size a)); cbn [bind] in E; [|discriminate].
  destruct (addr + n <? USIZE_MAX1); cbn [of_option bind] in E; [|discriminate].
  rewrite validate_address_true in E. destruct (N.leb_spec (addr + n) (size a)); cbn [bind] in E; [|discriminate].
  destruct (N.eqb_spec (addr mod 4) 0); cbn [bind] in E; [|discriminate].
  destruct (N.eqb_spec (n mod 4) 0); cbn [bind] in E; [|discriminate]. lia.
Qed.

(* ------------------------------------------------------------------ deallocate: the usize subtractions cannot underflow *)
(* `pointer - count` / `destination - count` are executed only for values at or behind the removed range that are not inside it
   (the filters ran first), i.e. for values >= addr + n: in both profiles the machine subtraction is the exact difference *)
Lemma back_no_underflow m a n x : ~ in_rng a n x -> a <= x -> n <= x /\ sub_w 64 m x n = Ok (x - n).
Proof. unfold in_rng. intros H1 H2. assert (H : n <= x) by lia. split; [exact H | apply sub_w_ok; exact H]. Qed.
Theorem deallocate_target_sub_exact m ptrs addr n ge c t :
  In (c, t) (filter_pointers ptrs addr n) -> moves t addr ge = true -> n <= t /\ sub_w 64 m t n = Ok (t - n).
Proof.
  unfold filter_pointers. intros Hin Hm. apply filter_In in Hin. destruct Hin as [_ Hf]. cbn [fst snd] in Hf.
  apply (back_no_underflow m addr n t).
  - intros Hr. apply in_range_spec in Hr. rewrite Hr, orb_true_r in Hf. discriminate.
  - apply moves_spec in Hm. unfold moved in Hm. lia.
Qed.
Theorem deallocate_cell_sub_exact m ptrs addr n c t :
  In (c, t) (filter_pointers ptrs addr n) -> addr <= c -> n <= c /\ sub_w 64 m c n = Ok (c - n).
Proof.
  unfold filter_pointers. intros Hin Hle. apply filter_In in Hin. destruct Hin as [_ Hf]. cbn [fst snd] in Hf.
  apply (back_no_underflow m addr n c); [|exact Hle]. intros Hr. apply in_range_spec in Hr. rewrite Hr in Hf. discriminate.
Qed.
Theorem deallocate_key_sub_exact {V} m (mp : amap V) addr n k :
  In k (am_keys (filter_text_or_labels mp addr n)) -> addr <= k -> n <= k /\ sub_w 64 m k n = Ok (k - n).
Proof.
  unfold filter_text_or_labels. rewrite am_keys_filter_keys. intros Hin Hle. apply filter_In in Hin. destruct Hin as [_ Hf].
  apply (back_no_underflow m addr n k); [|exact Hle]. intros Hr. apply in_range_spec in Hr. rewrite Hr in Hf. discriminate.
Qed.
Theorem deallocate_cstr_sub_exact m cs addr n s cells k :
  In (s, cells) (filter_cstrs (fun k => negb (in_range addr n k)) cs) -> In k cells -> addr <= k -> n <= k /\ sub_w 64 m k n = Ok (k - n).
Proof.
  intros Hin Hk Hle. destruct (filter_cstrs_cells _ _ _ _ Hin) as (_ & cells0 & _ & ->). apply filter_In in Hk. destruct Hk as [_ Hf].
  apply (back_no_underflow m addr n k); [|exact Hle]. intros Hr. apply in_range_spec in Hr. rewrite Hr in Hf. discriminate.
Qed.

(* ------------------------------------------------------------------ relocated maps stay maps (HashMap::collect merges no keys) *)
Lemma NoDup_map_inj_on {A B} (f : A -> B) l :
  (forall x y, In x l -> In y l -> f x = f y -> x = y) -> NoDup l -> NoDup (map f l).
Proof.
  induction l as [|x r IH]; intros Hinj Hnd; cbn [map]; [constructor|]. inversion Hnd as [|? ? Hx Hr]; subst. constructor.
  - intros Hin. apply in_map_iff in Hin. destruct Hin as (y & E & Hy).
    assert (y = x) by (apply Hinj; [right; exact Hy | left; reflexivity | exact E]). subst. contradiction.
  - apply IH; [|exact Hr]. intros x0 y0 Hx0 Hy0. apply Hinj; right; assumption.
Qed.
Lemma NoDup_map_fst_filter {A B} (p : A * B -> bool) l : NoDup (map fst l) -> NoDup (map fst (filter p l)).
Proof.
  induction l as [|x r IH]; cbn [filter map]; intros H; [constructor|]. inversion H as [|? ? Hx Hr]; subst.
  destruct (p x); cbn [map]; [constructor|]; auto.
  intros Hin. apply Hx. apply in_map_iff in Hin. destruct Hin as (y & E & Hy). apply filter_In in Hy. apply in_map_iff. exists y. tauto.
Qed.

Theorem allocate_keeps_maps a addr n ge a' :
  allocate a addr n ge = Ok a' ->
  (NoDup (am_keys (a_text a)) -> NoDup (am_keys (a_text a'))) /\
  (NoDup (am_keys (a_ptrs a)) -> NoDup (am_keys (a_ptrs a'))) /\
  (NoDup (am_keys (a_labels a)) -> NoDup (am_keys (a_labels a'))).
Proof.
  intros E. destruct (allocate_spec _ _ _ _ _ E) as (_ & _ & _ & Kt & _ & Kp & _ & Kl & _). rewrite Kt, Kp, Kl.
  repeat split; intros H; apply NoDup_map_inj_on; try exact H; intros x y _ _ Exy.
  - exact (kappa_inj _ _ _ _ Exy).
  - exact (kappa_inj _ _ _ _ Exy).
  - exact (tau_inj _ _ _ _ _ Exy).
Qed.
Lemma not_in_range_filter addr n l x : In x (filter (fun k => negb (in_range addr n k)) l) -> ~ in_rng addr n x.
Proof. intros Hin Hr. apply filter_In in Hin. destruct Hin as [_ Hf]. apply in_range_spec in Hr. rewrite Hr in Hf. discriminate. Qed.
Theorem deallocate_keeps_maps a addr n ge a' :
  deallocate a addr n ge = Ok a' ->
  (NoDup (am_keys (a_text a)) -> NoDup (am_keys (a_text a'))) /\
  (NoDup (am_keys (a_ptrs a)) -> NoDup (am_keys (a_ptrs a'))) /\
  (NoDup (am_keys (a_labels a)) -> NoDup (am_keys (a_labels a'))).
Proof.
  intros E. destruct (deallocate_spec _ _ _ _ _ E) as (_ & _ & _ & Kt & Kp & _ & Kl & _). rewrite Kt, Kp, Kl.
  split; [|split]; intros H.
  - apply NoDup_map_inj_on; [|apply NoDup_filter; exact H].
    intros x y Hx Hy. apply back_inj; eapply not_in_range_filter; eassumption.
  - unfold am_keys in *. rewrite map_map. cbn [fst].
    rewrite <- (map_map fst (back addr n)).
    apply NoDup_map_inj_on; [|apply NoDup_map_fst_filter; exact H].
    intros x y Hx Hy. apply in_map_iff in Hx. destruct Hx as ([cx tx] & <- & Hx). apply in_map_iff in Hy. destruct Hy as ([cy ty] & <- & Hy).
    apply filter_In in Hx. apply filter_In in Hy. destruct Hx as [_ Hx]. destruct Hy as [_ Hy]. cbn [fst snd] in *.
    apply back_inj; intros Hr; apply in_range_spec in Hr; rewrite Hr in *; discriminate.
  - apply NoDup_map_inj_on; [|apply NoDup_filter; exact H].
    intros x y Hx Hy. apply backl_inj; eapply not_in_range_filter; eassumption.
Qed.
Theorem truncate_keeps_maps a addr a' :
  truncate a addr = Ok a' ->
  (NoDup (am_keys (a_text a)) -> NoDup (am_keys (a_text a'))) /\
  (NoDup (am_keys (a_ptrs a)) -> NoDup (am_keys (a_ptrs a'))) /\
  (NoDup (am_keys (a_labels a)) -> NoDup (am_keys (a_labels a'))).
Proof.
  unfold truncate. destruct (size a <=? addr); intros E; inversion E; subst a'; [tauto|].
  cbn [a_text a_ptrs a_labels]. rewrite !am_keys_filter_keys. repeat split; apply NoDup_filter.
Qed.
