(* Lemmas for property C03: allocate / deallocate / truncate relocate every annotation. *)
From Coq Require Import List NArith ZArith Bool Lia ZifyBool ZifyNat ZifyN.
From Mila Require Import Lib.Bytes Lib.Machine Model.BinArchive Proofs.AMapLemmas Proofs.BinAccess.
Import ListNotations.
Local Open Scope N_scope.
Ltac Zify.zify_post_hook ::= Z.div_mod_to_equations.

(* the relocation maps of the property text *)
Definition kappa (a n x : N) : N := if a <=? x then x + n else x.                         (* strings, pointer cells, c-string cells *)
Definition tau (a n : N) (ge : bool) (x : N) : N := if orb (a <? x) (andb (a =? x) ge) then x + n else x.   (* labels, pointer targets *)
Definition back (a n x : N) : N := if a <=? x then x - n else x.
Definition backl (a n : N) (ge : bool) (x : N) : N := if orb (a <? x) (andb (a =? x) ge) then x - n else x.
Definition in_rng (a n x : N) : Prop := a <= x /\ x < a + n.

Lemma adjust_pointer_kappa x a n : adjust_pointer x a n false = kappa a n x.
Proof. reflexivity. Qed.
Lemma adjust_pointer_back x a n : adjust_pointer x a n true = back a n x.
Proof. reflexivity. Qed.
Lemma adjust_dest_tau x a n ge : adjust_dest x a n false ge = tau a n ge x.
Proof.
  unfold adjust_dest, tau. replace (andb (a <=? x) ge) with (orb (andb (a <? x) ge) (andb (a =? x) ge)).
  - destruct (N.ltb_spec a x); destruct (N.eqb_spec a x); destruct ge; cbn; try reflexivity; lia.
  - destruct (N.ltb_spec a x); destruct (N.eqb_spec a x); destruct (N.leb_spec a x); destruct ge; cbn; try reflexivity; lia.
Qed.
Lemma adjust_dest_backl x a n ge : adjust_dest x a n true ge = backl a n ge x.
Proof.
  unfold adjust_dest, backl.
  destruct (N.ltb_spec a x); destruct (N.eqb_spec a x); destruct (N.leb_spec a x); destruct ge; cbn; try reflexivity; lia.
Qed.

Lemma kappa_inj a n x y : kappa a n x = kappa a n y -> x = y.
Proof. unfold kappa. destruct (N.leb_spec a x); destruct (N.leb_spec a y); lia. Qed.
Lemma tau_inj a n ge x y : tau a n ge x = tau a n ge y -> x = y.
Proof.
  unfold tau. destruct (N.ltb_spec a x); destruct (N.ltb_spec a y); destruct (N.eqb_spec a x); destruct (N.eqb_spec a y);
    destruct ge; cbn [orb andb]; lia.
Qed.
Lemma back_inj a n x y : ~ in_rng a n x -> ~ in_rng a n y -> back a n x = back a n y -> x = y.
Proof. unfold back, in_rng. destruct (N.leb_spec a x); destruct (N.leb_spec a y); lia. Qed.
Lemma backl_inj a n ge x y : ~ in_rng a n x -> ~ in_rng a n y -> backl a n ge x = backl a n ge y -> x = y.
Proof.
  unfold backl, in_rng. destruct (N.ltb_spec a x); destruct (N.ltb_spec a y); destruct (N.eqb_spec a x); destruct (N.eqb_spec a y);
    destruct ge; cbn [orb andb]; lia.
Qed.
Lemma in_range_spec a n x : in_range a n x = true <-> in_rng a n x.
Proof. unfold in_range, in_rng. rewrite andb_true_iff, N.leb_le, N.ltb_lt. tauto. Qed.

(* lookup through a map on (key, value) pairs *)
Lemma am_get_map_pairs (f g : N -> N) (m : amap N) x :
  (forall k, In k (am_keys m) -> f k = f x -> k = x) ->
  am_get (f x) (map (fun p => (f (fst p), g (snd p))) m) = option_map g (am_get x m).
Proof.
  unfold am_keys. induction m as [|[k v] r IH]; intros Hinj; cbn [map am_get fst snd]; [reflexivity|].
  destruct (N.eqb_spec (f x) (f k)) as [E|E].
  - assert (k = x) by (apply Hinj; [left; reflexivity | congruence]). subst k. rewrite N.eqb_refl. reflexivity.
  - destruct (N.eqb_spec x k) as [E2|E2]; [subst; congruence|].
    apply IH. intros k0 Hk. apply Hinj. right. exact Hk.
Qed.

(* ------------------------------------------------------------------ allocate *)
Lemma validate_alignment_spec v k : validate_alignment v k = if v mod k =? 0 then Ok tt else Err EUnaligned.
Proof. reflexivity. Qed.

Theorem allocate_ok_iff a addr n ge :
  (exists a', allocate a addr n ge = Ok a') <-> (addr <= size a /\ addr mod 4 = 0 /\ n mod 4 = 0).
Proof.
  unfold allocate. rewrite validate_address_true. unfold validate_alignment.
  destruct (N.leb_spec addr (size a)); cbn [bind]; [|split; [intros [a' Hdis]; discriminate | lia]].
  destruct (N.eqb_spec (addr mod 4) 0); cbn [bind]; [|split; [intros [a' Hdis]; discriminate | lia]].
  destruct (N.eqb_spec (n mod 4) 0); cbn [bind]; [|split; [intros [a' Hdis]; discriminate | lia]].
  split; [lia | eauto].
Qed.
Theorem allocate_rejected a addr n ge :
  ~ (addr <= size a /\ addr mod 4 = 0 /\ n mod 4 = 0) ->
  allocate a addr n ge = Err EOob \/ allocate a addr n ge = Err EUnaligned.
Proof.
  unfold allocate. rewrite validate_address_true. unfold validate_alignment.
  destruct (N.leb_spec addr (size a)); cbn [bind]; [|auto].
  destruct (N.eqb_spec (addr mod 4) 0); cbn [bind]; [|auto].
  destruct (N.eqb_spec (n mod 4) 0); cbn [bind]; [|auto]. lia.
Qed.

Theorem allocate_spec a addr n ge a' :
  allocate a addr n ge = Ok a' ->
  a_data a' = firstn (N.to_nat addr) (a_data a) ++ zeros (N.to_nat n) ++ skipn (N.to_nat addr) (a_data a)
  /\ size a' = size a + n
  /\ (forall x, am_get (kappa addr n x) (a_text a') = am_get x (a_text a))
  /\ am_keys (a_text a') = map (kappa addr n) (am_keys (a_text a))
  /\ (forall x, am_get (kappa addr n x) (a_ptrs a') = option_map (tau addr n ge) (am_get x (a_ptrs a)))
  /\ am_keys (a_ptrs a') = map (kappa addr n) (am_keys (a_ptrs a))
  /\ (forall x, am_get (tau addr n ge x) (a_labels a') = am_get x (a_labels a))
  /\ am_keys (a_labels a') = map (tau addr n ge) (am_keys (a_labels a))
  /\ a_cstrs a' = map (fun q => (fst q, map (kappa addr n) (snd q))) (a_cstrs a)
  /\ a_endian a' = a_endian a.
Proof.
  intros H. assert (Hok : addr <= size a) by (apply (allocate_ok_iff a addr n ge); eauto).
  unfold allocate in H. destruct (validate_address addr (size a) true); cbn [bind] in H; try discriminate.
  destruct (validate_alignment addr 4); cbn [bind] in H; try discriminate.
  destruct (validate_alignment n 4); cbn [bind] in H; try discriminate.
  inversion H; subst a'; clear H. cbn [a_data a_text a_ptrs a_labels a_cstrs a_endian].
  split; [reflexivity|]. split.
  { unfold size, lenN in *. cbn [a_data]. rewrite !app_length, firstn_length, skipn_length. unfold zeros. rewrite repeat_length. lia. }
  split. { intros x. unfold adjust_text. apply am_get_map_keys. intros k _ E. apply (kappa_inj addr n). exact E. }
  split. { unfold adjust_text. apply am_keys_map_keys. }
  split. { intros x. unfold adjust_pointers.
    rewrite (map_ext _ (fun p => (kappa addr n (fst p), tau addr n ge (snd p)))) by (intros [k v]; cbn [fst snd]; rewrite adjust_dest_tau; reflexivity).
    apply am_get_map_pairs. intros k _ E. apply (kappa_inj addr n). exact E. }
  split. { unfold adjust_pointers, am_keys. rewrite !map_map. reflexivity. }
  split. { intros x. unfold adjust_labels.
    rewrite <- (am_get_map_keys (tau addr n ge) (a_labels a) x) by (intros k _ E; apply (tau_inj addr n ge); exact E).
    f_equal. unfold am_map_keys. apply map_ext. intros [k v]. cbn [fst snd]. rewrite adjust_dest_tau. reflexivity. }
  split. { unfold adjust_labels. rewrite am_keys_map_keys. apply map_ext. intros k. apply adjust_dest_tau. }
  split; reflexivity.
Qed.

(* ------------------------------------------------------------------ deallocate *)
Theorem deallocate_ok_iff a addr n ge :
  addr < USIZE_MAX1 -> n < USIZE_MAX1 -> size a < USIZE_MAX1 ->
  ((exists a', deallocate a addr n ge = Ok a') <-> (addr < size a /\ addr + n <= size a /\ addr mod 4 = 0 /\ n mod 4 = 0)).
Proof.
  intros Ha Hn Hs. unfold deallocate, checked_add64. rewrite validate_address_false. unfold validate_alignment.
  destruct (N.ltb_spec addr (size a)); cbn [bind]; [|split; [intros [a' Hdis]; discriminate | lia]].
  destruct (N.ltb_spec (addr + n) USIZE_MAX1); cbn [of_option bind]; [|split; [intros [a' Hdis]; discriminate | lia]].
  rewrite validate_address_true.
  destruct (N.leb_spec (addr + n) (size a)); cbn [bind]; [|split; [intros [a' Hdis]; discriminate | lia]].
  destruct (N.eqb_spec (addr mod 4) 0); cbn [bind]; [|split; [intros [a' Hdis]; discriminate | lia]].
  destruct (N.eqb_spec (n mod 4) 0); cbn [bind]; [|split; [intros [a' Hdis]; discriminate | lia]].
  split; [lia | eauto].
Qed.
Theorem deallocate_never_panics a addr n ge k : deallocate a addr n ge <> Panic k.
Proof.
  unfold deallocate, checked_add64. rewrite validate_address_false. unfold validate_alignment.
  destruct (addr <? size a); cbn [bind]; [|discriminate].
  destruct (addr + n <? USIZE_MAX1); cbn [of_option bind]; [|discriminate].
  rewrite validate_address_true. destruct (addr + n <=? size a); cbn [bind]; [|discriminate].
  destruct (addr mod 4 =? 0); cbn [bind]; [|discriminate].
  destruct (n mod 4 =? 0); cbn [bind]; discriminate.
Qed.
Theorem deallocate_rejected a addr n ge :
  ~ (addr < size a /\ addr + n <= size a /\ addr mod 4 = 0 /\ n mod 4 = 0) ->
  deallocate a addr n ge = Err EOob \/ deallocate a addr n ge = Err EUnaligned.
Proof.
  unfold deallocate, checked_add64. rewrite validate_address_false. unfold validate_alignment.
  destruct (N.ltb_spec addr (size a)); cbn [bind]; [|auto].
  destruct (N.ltb_spec (addr + n) USIZE_MAX1); cbn [of_option bind]; [|auto].
  rewrite validate_address_true. destruct (N.leb_spec (addr + n) (size a)); cbn [bind]; [|auto].
  destruct (N.eqb_spec (addr mod 4) 0); cbn [bind]; [|auto].
  destruct (N.eqb_spec (n mod 4) 0); cbn [bind]; [|auto]. lia.
Qed.

Lemma filter_cstrs_spec p c :
  filter_cstrs p c = filter (fun q => match snd q with [] => false | _ => true end) (map (fun q => (fst q, filter p (snd q))) c).
Proof. reflexivity. Qed.

Theorem deallocate_spec a addr n ge a' :
  deallocate a addr n ge = Ok a' ->
  a_data a' = firstn (N.to_nat addr) (a_data a) ++ skipn (N.to_nat (addr + n)) (a_data a)
  /\ size a' + n = size a
  (* strings: exactly those outside the range survive, shifted back *)
  /\ (forall x, ~ in_rng addr n x -> am_get (back addr n x) (a_text a') = am_get x (a_text a))
  /\ am_keys (a_text a') = map (back addr n) (filter (fun k => negb (in_range addr n k)) (am_keys (a_text a)))
  (* pointers: those located in the range or pointing into it are removed *)
  /\ a_ptrs a' = map (fun p => (back addr n (fst p), backl addr n ge (snd p)))
                     (filter (fun p => negb (orb (in_range addr n (fst p)) (in_range addr n (snd p)))) (a_ptrs a))
  /\ (forall x, ~ in_rng addr n x -> am_get (backl addr n ge x) (a_labels a') = am_get x (a_labels a))
  /\ am_keys (a_labels a') = map (backl addr n ge) (filter (fun k => negb (in_range addr n k)) (am_keys (a_labels a)))
  /\ a_cstrs a' = map (fun q => (fst q, map (back addr n) (snd q)))
                      (filter_cstrs (fun k => negb (in_range addr n k)) (a_cstrs a))
  /\ a_endian a' = a_endian a.
Proof.
  intros H. unfold deallocate, checked_add64 in H. rewrite validate_address_false in H.
  destruct (N.ltb_spec addr (size a)) as [H1|H1]; cbn [bind] in H; try discriminate.
  destruct (addr + n <? USIZE_MAX1); cbn [of_option bind] in H; try discriminate.
  rewrite validate_address_true in H. destruct (N.leb_spec (addr + n) (size a)) as [H2|H2]; cbn [bind] in H; try discriminate.
  destruct (validate_alignment addr 4); cbn [bind] in H; try discriminate.
  destruct (validate_alignment n 4); cbn [bind] in H; try discriminate.
  inversion H; subst a'; clear H. cbn [a_data a_text a_ptrs a_labels a_cstrs a_endian].
  split; [reflexivity|]. split.
  { unfold size, lenN in *. cbn [a_data]. rewrite !app_length, firstn_length, skipn_length. lia. }
  split.
  { intros x Hx. unfold adjust_text, filter_text_or_labels.
    transitivity (am_get x (am_filter_keys (fun k => negb (in_range addr n k)) (a_text a))).
    - apply (am_get_map_keys (fun k => adjust_pointer k addr n true)).
      intros k Hk E. rewrite am_keys_filter_keys in Hk. apply filter_In in Hk. destruct Hk as [_ Hk].
      apply (back_inj addr n); [|exact Hx | exact E].
      intros Hr. apply in_range_spec in Hr. rewrite Hr in Hk. discriminate.
    - rewrite am_get_filter_keys. destruct (in_range addr n x) eqn:E; [apply in_range_spec in E; contradiction | reflexivity]. }
  split. { unfold adjust_text, filter_text_or_labels. rewrite am_keys_map_keys, am_keys_filter_keys. reflexivity. }
  split.
  { unfold adjust_pointers, filter_pointers. apply map_ext. intros [k v]. cbn [fst snd]. rewrite adjust_dest_backl. reflexivity. }
  split.
  { intros x Hx. unfold adjust_labels, filter_text_or_labels.
    transitivity (am_get x (am_filter_keys (fun k => negb (in_range addr n k)) (a_labels a))).
    - rewrite <- (adjust_dest_backl x addr n ge).
      apply (am_get_map_keys (fun k => adjust_dest k addr n true ge)).
      intros k Hk E. rewrite am_keys_filter_keys in Hk. apply filter_In in Hk. destruct Hk as [_ Hk].
      rewrite !adjust_dest_backl in E.
      apply (backl_inj addr n ge); [|exact Hx | exact E].
      intros Hr. apply in_range_spec in Hr. rewrite Hr in Hk. discriminate.
    - rewrite am_get_filter_keys. destruct (in_range addr n x) eqn:E; [apply in_range_spec in E; contradiction | reflexivity]. }
  split.
  { unfold adjust_labels, filter_text_or_labels. rewrite am_keys_map_keys, am_keys_filter_keys.
    apply map_ext. intros k. apply adjust_dest_backl. }
  split; reflexivity.
Qed.

(* ------------------------------------------------------------------ truncate *)
Theorem truncate_spec a addr a' :
  truncate a addr = Ok a' ->
  (size a <= addr -> a' = a) /\
  (addr < size a ->
     a_data a' = firstn (N.to_nat addr) (a_data a) /\ size a' = addr
     /\ (forall x, am_get x (a_text a') = if x <? addr then am_get x (a_text a) else None)
     /\ (forall x, am_get x (a_ptrs a') = if x <? addr then am_get x (a_ptrs a) else None)
     /\ (forall x, am_get x (a_labels a') = if x <? addr then am_get x (a_labels a) else None)
     /\ a_cstrs a' = filter_cstrs (fun k => k <? addr) (a_cstrs a)
     /\ a_endian a' = a_endian a).
Proof.
  unfold truncate. destruct (N.leb_spec (size a) addr) as [H|H]; intros E; inversion E; subst a'; clear E.
  - split; [reflexivity | lia].
  - split; [lia|]. intros _. cbn [a_data a_text a_ptrs a_labels a_cstrs a_endian].
    split; [reflexivity|]. split.
    { unfold size, lenN in *. cbn [a_data]. rewrite firstn_length. lia. }
    split; [intros x; apply (am_get_filter_keys (fun k => k <? addr))|].
    split; [intros x; apply (am_get_filter_keys (fun k => k <? addr))|].
    split; [intros x; apply (am_get_filter_keys (fun k => k <? addr))|].
    split; reflexivity.
Qed.
Theorem truncate_total a addr : exists a', truncate a addr = Ok a'.
Proof. unfold truncate. destruct (size a <=? addr); eauto. Qed.

(* every c-string cell at or beyond the cut is gone, the others stay, per string in order *)
Lemma filter_cstrs_cells p c s cells :
  In (s, cells) (filter_cstrs p c) -> cells <> [] /\ exists cells0, In (s, cells0) c /\ cells = filter p cells0.
Proof.
  unfold filter_cstrs. rewrite filter_In, in_map_iff. intros [((s0, c0) & E & Hin) Hne]. cbn [fst snd] in *.
  inversion E; subst. split; [destruct (filter p c0); [discriminate | discriminate] | eauto].
Qed.

(* ------------------------------------------------------------------ appending *)
Theorem allocate_at_end_spec a n :
  a_data (allocate_at_end a n) = a_data a ++ zeros (N.to_nat n) /\ same_annotations a (allocate_at_end a n).
Proof. unfold allocate_at_end. cbn. repeat split. Qed.

Lemma deallocate_accepted a addr n ge a' :
  deallocate a addr n ge = Ok a' -> addr < size a /\ addr + n <= size a /\ addr mod 4 = 0 /\ n mod 4 = 0.
Proof.
  intros E. unfold deallocate, checked_add64 in E. rewrite validate_address_false in E. unfold validate_alignment in E.
  destruct (N.ltb_spec addr (size a)); cbn [bind] in E; [|discriminate].
  destruct (addr + n <? USIZE_MAX1); cbn [of_option bind] in E; [|discriminate].
  rewrite validate_address_true in E. destruct (N.leb_spec (addr + n) (size a)); cbn [bind] in E; [|discriminate].
  destruct (N.eqb_spec (addr mod 4) 0); cbn [bind] in E; [|discriminate].
  destruct (N.eqb_spec (n mod 4) 0); cbn [bind] in E; [|discriminate]. lia.
Qed.
