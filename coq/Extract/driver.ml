(* Hand-written driver for the extracted Coq models (Extract/out/*.ml, one per Coq module).
   Reads one case per line on stdin, prints one canonical result line per case.
   Tokens: decimal integers; L<d,d,..> = list of numbers ("L" = empty); B<hex> = bytes ("B" = empty). *)
module List = Stdlib.List
module String = Stdlib.String
open BinNums
open TextMap

let rec pos_of_int (i : int) : positive =
  if i <= 1 then Coq_xH else if i land 1 = 1 then Coq_xI (pos_of_int (i lsr 1)) else Coq_xO (pos_of_int (i lsr 1))
type n = coq_N
let n_of_int (i : int) : n = if i <= 0 then N0 else Npos (pos_of_int i)
let rec int_of_pos = function Coq_xH -> 1 | Coq_xO p -> 2 * int_of_pos p | Coq_xI p -> 2 * int_of_pos p + 1
let int_of_n = function N0 -> 0 | Npos p -> int_of_pos p

let split_on c s = if s = "" then [] else String.split_on_char c s
let parse_l (tok : string) : n list =
  (* "L1,2,3" *)
  let body = String.sub tok 1 (String.length tok - 1) in
  List.map (fun x -> n_of_int (int_of_string x)) (split_on ',' body)
let parse_b (tok : string) : n list =
  let body = String.sub tok 1 (String.length tok - 1) in
  let len = String.length body / 2 in
  List.init len (fun i -> n_of_int (int_of_string ("0x" ^ String.sub body (2 * i) 2)))
let show_l (l : n list) : string = "L" ^ String.concat "," (List.map (fun x -> string_of_int (int_of_n x)) l)
let show_b (l : n list) : string =
  let b = Buffer.create (2 * List.length l + 1) in
  Buffer.add_char b 'B';
  List.iter (fun x -> Buffer.add_string b (Printf.sprintf "%02x" (int_of_n x))) l;
  Buffer.contents b

(* ---------------- C07: text archive in-memory API ---------------- *)
let c07_state (t : tmap) : string =
  let es = List.map (fun (k, v) -> show_l k ^ "=" ^ show_l v) t.t_entries in
  (if t.t_dirty then "d1" else "d0") ^ " " ^ show_l t.t_title ^ " [" ^ String.concat " " es ^ "]"
let c07 (toks : string list) : string =
  let rec go t toks acc =
    match toks with
    | [] -> List.rev acc
    | "S" :: k :: m :: r -> let (t', _) = tm_step t (TSet (parse_l k, parse_l m)) in go t' r (("- " ^ c07_state t') :: acc)
    | "D" :: k :: r -> let (t', _) = tm_step t (TDel (parse_l k)) in go t' r (("- " ^ c07_state t') :: acc)
    | "T" :: s :: r -> let (t', _) = tm_step t (TTitle (parse_l s)) in go t' r (("- " ^ c07_state t') :: acc)
    | "H" :: k :: r ->
      let (t', o) = tm_step t (THas (parse_l k)) in
      let s = (match o with OBool true -> "true" | OBool false -> "false" | _ -> "?") in
      go t' r ((s ^ " " ^ c07_state t') :: acc)
    | "G" :: k :: r ->
      let (t', o) = tm_step t (TGet (parse_l k)) in
      let s = (match o with OStr (Some v) -> "some:" ^ show_l v | OStr None -> "none" | _ -> "?") in
      go t' r ((s ^ " " ^ c07_state t') :: acc)
    | "R" :: k :: r ->
      let k = parse_l k in
      (match tm_get t k with
       | Some v -> let (t', _) = tm_step t (TSet (k, v)) in go t' r (("some:" ^ show_l v ^ " " ^ c07_state t') :: acc)
       | None -> go t r (("none " ^ c07_state t) :: acc))
    | x :: _ -> failwith ("c07: bad token " ^ x)
  in
  String.concat " ; " (go tm_new toks [])

(* ---------------- C14: localisation ---------------- *)
let game_of_int = Localize.(function 0 -> GNoOp | 1 -> GFE9 | 2 -> GFE10 | 3 -> GFE13 | 4 -> GFE14 | _ -> GFE15)
let lang_of_int = Localize.(function 0 -> EnglishNA | 1 -> EnglishEU | 2 -> Japanese | 3 -> Spanish | 4 -> French
                         | 5 -> Italian | 6 -> German | _ -> Dutch)
let c14 (toks : string list) : string =
  match toks with
  | [g; l; p] ->
    (match Localize.localize (game_of_int (int_of_string g)) (lang_of_int (int_of_string l)) (parse_l p) with
     | Localize.LOk s -> "ok " ^ show_l s
     | Localize.LErr Localize.LMissingParent -> "err missing-parent"
     | Localize.LErr Localize.LMissingFileName -> "err missing-file-name"
     | Localize.LErr Localize.LUnsupportedLanguage -> "err unsupported-language"
     | Localize.LUnmodelled -> "unmodelled")
  | _ -> failwith "c14: bad case"

let handle (line : string) : string =
  match List.filter (fun s -> s <> "") (String.split_on_char ' ' line) with
  | [] -> ""
  | "c07" :: r -> c07 r
  | "c14" :: r -> c14 r
  | k :: _ -> "UNKNOWN-KIND " ^ k

let () =
  try
    while true do
      let line = input_line stdin in
      let out = (try handle line with e -> "MODEL-EXN " ^ Printexc.to_string e) in
      print_string out; print_newline ()
    done
  with End_of_file -> ()
