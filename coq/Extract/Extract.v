(* Extraction of the executable models for the correspondence check.
   ExtrOcamlBasic only (bool, option, list, prod, unit, sumbool -> OCaml's own);
   N, Z, nat, positive stay the extracted inductive types. *)
Require Extraction.
Require ExtrOcamlBasic.
From Mila Require Model.TextMap.
Extraction Language OCaml.
Extraction "Extract/model.ml"
  Mila.Model.TextMap.tm_step Mila.Model.TextMap.tm_new Mila.Model.TextMap.tm_get.
