(* Extraction of the executable models for the correspondence check.
   ExtrOcamlBasic only (bool, option, list, prod, unit, sumbool -> OCaml's own);
   N, Z, nat, positive stay the extracted inductive types.  One .ml per Coq module,
   written to coq/Extract/out (coqc runs from coq/). *)
Require Extraction.
Require ExtrOcamlBasic.
From Mila Require Model.TextMap Model.Localize.
Extraction Language OCaml.
Cd "Extract/out".
Separate Extraction
  Mila.Model.TextMap.tm_step Mila.Model.TextMap.tm_new Mila.Model.TextMap.tm_get
  Mila.Model.Localize.localize.
Cd "../..".
