open BinNums
open BinPos

module N :
 sig
  val eqb : coq_N -> coq_N -> bool
 end
