open BinNat
open BinNums
open Datatypes

type str = coq_N list

val coq_BS : coq_N

val coq_LN : coq_N

val coq_NL : coq_N

val str_eqb : str -> str -> bool

val unescape : str -> str

val escape : str -> str

type tmap = { t_title : str; t_entries : (str * str) list; t_dirty : bool }

val tm_new : tmap

val e_lookup : str -> (str * str) list -> str option

val e_set : str -> str -> (str * str) list -> (str * str) list

val e_del : str -> (str * str) list -> (str * str) list

val tm_set_title : tmap -> str -> tmap

val tm_has : tmap -> str -> bool

val tm_get : tmap -> str -> str option

val tm_set : tmap -> str -> str -> tmap

val tm_del : tmap -> str -> tmap

type top =
| TSet of str * str
| TDel of str
| THas of str
| TGet of str
| TTitle of str

type tout =
| ONone
| OBool of bool
| OStr of str option

val tm_step : tmap -> top -> tmap * tout
