open BinNums

module Pos =
 struct
  (** val eqb : positive -> positive -> bool **)

  let rec eqb p q =
    match p with
    | Coq_xI p0 -> (match q with
                    | Coq_xI q0 -> eqb p0 q0
                    | _ -> false)
    | Coq_xO p0 -> (match q with
                    | Coq_xO q0 -> eqb p0 q0
                    | _ -> false)
    | Coq_xH -> (match q with
                 | Coq_xH -> true
                 | _ -> false)
 end
