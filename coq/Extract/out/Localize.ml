open BinNat
open BinNums
open Datatypes
open List

type str = coq_N list

(** val coq_SLASH : coq_N **)

let coq_SLASH =
  Npos (Coq_xI (Coq_xI (Coq_xI (Coq_xI (Coq_xO Coq_xH)))))

(** val coq_DOT : coq_N **)

let coq_DOT =
  Npos (Coq_xO (Coq_xI (Coq_xI (Coq_xI (Coq_xO Coq_xH)))))

type game =
| GNoOp
| GFE9
| GFE10
| GFE13
| GFE14
| GFE15

type lang =
| EnglishNA
| EnglishEU
| Japanese
| Spanish
| French
| Italian
| German
| Dutch

type lerr =
| LMissingParent
| LMissingFileName
| LUnsupportedLanguage

type lres =
| LOk of str
| LErr of lerr
| LUnmodelled

(** val infix : game -> lang -> str option **)

let infix g l =
  match g with
  | GNoOp -> Some []
  | GFE9 ->
    (match l with
     | Spanish ->
       Some ((Npos (Coq_xI (Coq_xI (Coq_xI (Coq_xI (Coq_xO
         Coq_xH)))))) :: ((Npos (Coq_xI (Coq_xI (Coq_xO (Coq_xO (Coq_xI
         (Coq_xI Coq_xH))))))) :: ((Npos (Coq_xI (Coq_xI (Coq_xI (Coq_xI
         (Coq_xI (Coq_xO Coq_xH))))))) :: [])))
     | French ->
       Some ((Npos (Coq_xI (Coq_xI (Coq_xI (Coq_xI (Coq_xO
         Coq_xH)))))) :: ((Npos (Coq_xO (Coq_xI (Coq_xI (Coq_xO (Coq_xO
         (Coq_xI Coq_xH))))))) :: ((Npos (Coq_xI (Coq_xI (Coq_xI (Coq_xI
         (Coq_xI (Coq_xO Coq_xH))))))) :: [])))
     | Italian ->
       Some ((Npos (Coq_xI (Coq_xI (Coq_xI (Coq_xI (Coq_xO
         Coq_xH)))))) :: ((Npos (Coq_xI (Coq_xO (Coq_xO (Coq_xI (Coq_xO
         (Coq_xI Coq_xH))))))) :: ((Npos (Coq_xI (Coq_xI (Coq_xI (Coq_xI
         (Coq_xI (Coq_xO Coq_xH))))))) :: [])))
     | German ->
       Some ((Npos (Coq_xI (Coq_xI (Coq_xI (Coq_xI (Coq_xO
         Coq_xH)))))) :: ((Npos (Coq_xO (Coq_xO (Coq_xI (Coq_xO (Coq_xO
         (Coq_xI Coq_xH))))))) :: ((Npos (Coq_xI (Coq_xI (Coq_xI (Coq_xI
         (Coq_xI (Coq_xO Coq_xH))))))) :: [])))
     | Dutch -> None
     | _ ->
       Some ((Npos (Coq_xI (Coq_xI (Coq_xI (Coq_xI (Coq_xO Coq_xH)))))) :: []))
  | GFE10 ->
    (match l with
     | Japanese ->
       Some ((Npos (Coq_xI (Coq_xI (Coq_xI (Coq_xI (Coq_xO Coq_xH)))))) :: [])
     | Spanish ->
       Some ((Npos (Coq_xI (Coq_xI (Coq_xI (Coq_xI (Coq_xO
         Coq_xH)))))) :: ((Npos (Coq_xI (Coq_xI (Coq_xO (Coq_xO (Coq_xI
         (Coq_xI Coq_xH))))))) :: ((Npos (Coq_xI (Coq_xI (Coq_xI (Coq_xI
         (Coq_xI (Coq_xO Coq_xH))))))) :: [])))
     | French ->
       Some ((Npos (Coq_xI (Coq_xI (Coq_xI (Coq_xI (Coq_xO
         Coq_xH)))))) :: ((Npos (Coq_xO (Coq_xI (Coq_xI (Coq_xO (Coq_xO
         (Coq_xI Coq_xH))))))) :: ((Npos (Coq_xI (Coq_xI (Coq_xI (Coq_xI
         (Coq_xI (Coq_xO Coq_xH))))))) :: [])))
     | Italian ->
       Some ((Npos (Coq_xI (Coq_xI (Coq_xI (Coq_xI (Coq_xO
         Coq_xH)))))) :: ((Npos (Coq_xI (Coq_xO (Coq_xO (Coq_xI (Coq_xO
         (Coq_xI Coq_xH))))))) :: ((Npos (Coq_xI (Coq_xI (Coq_xI (Coq_xI
         (Coq_xI (Coq_xO Coq_xH))))))) :: [])))
     | German ->
       Some ((Npos (Coq_xI (Coq_xI (Coq_xI (Coq_xI (Coq_xO
         Coq_xH)))))) :: ((Npos (Coq_xO (Coq_xO (Coq_xI (Coq_xO (Coq_xO
         (Coq_xI Coq_xH))))))) :: ((Npos (Coq_xI (Coq_xI (Coq_xI (Coq_xI
         (Coq_xI (Coq_xO Coq_xH))))))) :: [])))
     | Dutch -> None
     | _ ->
       Some ((Npos (Coq_xI (Coq_xI (Coq_xI (Coq_xI (Coq_xO
         Coq_xH)))))) :: ((Npos (Coq_xI (Coq_xO (Coq_xI (Coq_xO (Coq_xO
         (Coq_xI Coq_xH))))))) :: ((Npos (Coq_xI (Coq_xI (Coq_xI (Coq_xI
         (Coq_xI (Coq_xO Coq_xH))))))) :: []))))
  | GFE13 ->
    (match l with
     | EnglishNA ->
       Some ((Npos (Coq_xI (Coq_xI (Coq_xI (Coq_xI (Coq_xO
         Coq_xH)))))) :: ((Npos (Coq_xI (Coq_xO (Coq_xI (Coq_xO (Coq_xO
         (Coq_xO Coq_xH))))))) :: ((Npos (Coq_xI (Coq_xI (Coq_xI (Coq_xI
         (Coq_xO Coq_xH)))))) :: [])))
     | EnglishEU ->
       Some ((Npos (Coq_xI (Coq_xI (Coq_xI (Coq_xI (Coq_xO
         Coq_xH)))))) :: ((Npos (Coq_xI (Coq_xO (Coq_xI (Coq_xO (Coq_xI
         (Coq_xO Coq_xH))))))) :: ((Npos (Coq_xI (Coq_xI (Coq_xI (Coq_xI
         (Coq_xO Coq_xH)))))) :: [])))
     | Japanese ->
       Some ((Npos (Coq_xI (Coq_xI (Coq_xI (Coq_xI (Coq_xO Coq_xH)))))) :: [])
     | Spanish ->
       Some ((Npos (Coq_xI (Coq_xI (Coq_xI (Coq_xI (Coq_xO
         Coq_xH)))))) :: ((Npos (Coq_xI (Coq_xI (Coq_xO (Coq_xO (Coq_xI
         (Coq_xO Coq_xH))))))) :: ((Npos (Coq_xI (Coq_xI (Coq_xI (Coq_xI
         (Coq_xO Coq_xH)))))) :: [])))
     | French ->
       Some ((Npos (Coq_xI (Coq_xI (Coq_xI (Coq_xI (Coq_xO
         Coq_xH)))))) :: ((Npos (Coq_xO (Coq_xI (Coq_xI (Coq_xO (Coq_xO
         (Coq_xO Coq_xH))))))) :: ((Npos (Coq_xI (Coq_xI (Coq_xI (Coq_xI
         (Coq_xO Coq_xH)))))) :: [])))
     | Italian ->
       Some ((Npos (Coq_xI (Coq_xI (Coq_xI (Coq_xI (Coq_xO
         Coq_xH)))))) :: ((Npos (Coq_xI (Coq_xO (Coq_xO (Coq_xI (Coq_xO
         (Coq_xO Coq_xH))))))) :: ((Npos (Coq_xI (Coq_xI (Coq_xI (Coq_xI
         (Coq_xO Coq_xH)))))) :: [])))
     | German ->
       Some ((Npos (Coq_xI (Coq_xI (Coq_xI (Coq_xI (Coq_xO
         Coq_xH)))))) :: ((Npos (Coq_xI (Coq_xI (Coq_xI (Coq_xO (Coq_xO
         (Coq_xO Coq_xH))))))) :: ((Npos (Coq_xI (Coq_xI (Coq_xI (Coq_xI
         (Coq_xO Coq_xH)))))) :: [])))
     | Dutch -> None)
  | GFE14 ->
    (match l with
     | EnglishNA ->
       Some ((Npos (Coq_xI (Coq_xI (Coq_xI (Coq_xI (Coq_xO
         Coq_xH)))))) :: ((Npos (Coq_xO (Coq_xO (Coq_xO (Coq_xO (Coq_xO
         (Coq_xO Coq_xH))))))) :: ((Npos (Coq_xI (Coq_xO (Coq_xI (Coq_xO
         (Coq_xO (Coq_xO Coq_xH))))))) :: ((Npos (Coq_xI (Coq_xI (Coq_xI
         (Coq_xI (Coq_xO Coq_xH)))))) :: []))))
     | EnglishEU ->
       Some ((Npos (Coq_xI (Coq_xI (Coq_xI (Coq_xI (Coq_xO
         Coq_xH)))))) :: ((Npos (Coq_xO (Coq_xO (Coq_xO (Coq_xO (Coq_xO
         (Coq_xO Coq_xH))))))) :: ((Npos (Coq_xI (Coq_xO (Coq_xI (Coq_xO
         (Coq_xI (Coq_xO Coq_xH))))))) :: ((Npos (Coq_xI (Coq_xI (Coq_xI
         (Coq_xI (Coq_xO Coq_xH)))))) :: []))))
     | Japanese ->
       Some ((Npos (Coq_xI (Coq_xI (Coq_xI (Coq_xI (Coq_xO Coq_xH)))))) :: [])
     | Spanish ->
       Some ((Npos (Coq_xI (Coq_xI (Coq_xI (Coq_xI (Coq_xO
         Coq_xH)))))) :: ((Npos (Coq_xO (Coq_xO (Coq_xO (Coq_xO (Coq_xO
         (Coq_xO Coq_xH))))))) :: ((Npos (Coq_xI (Coq_xI (Coq_xO (Coq_xO
         (Coq_xI (Coq_xO Coq_xH))))))) :: ((Npos (Coq_xI (Coq_xI (Coq_xI
         (Coq_xI (Coq_xO Coq_xH)))))) :: []))))
     | French ->
       Some ((Npos (Coq_xI (Coq_xI (Coq_xI (Coq_xI (Coq_xO
         Coq_xH)))))) :: ((Npos (Coq_xO (Coq_xO (Coq_xO (Coq_xO (Coq_xO
         (Coq_xO Coq_xH))))))) :: ((Npos (Coq_xO (Coq_xI (Coq_xI (Coq_xO
         (Coq_xO (Coq_xO Coq_xH))))))) :: ((Npos (Coq_xI (Coq_xI (Coq_xI
         (Coq_xI (Coq_xO Coq_xH)))))) :: []))))
     | Italian ->
       Some ((Npos (Coq_xI (Coq_xI (Coq_xI (Coq_xI (Coq_xO
         Coq_xH)))))) :: ((Npos (Coq_xO (Coq_xO (Coq_xO (Coq_xO (Coq_xO
         (Coq_xO Coq_xH))))))) :: ((Npos (Coq_xI (Coq_xO (Coq_xO (Coq_xI
         (Coq_xO (Coq_xO Coq_xH))))))) :: ((Npos (Coq_xI (Coq_xI (Coq_xI
         (Coq_xI (Coq_xO Coq_xH)))))) :: []))))
     | German ->
       Some ((Npos (Coq_xI (Coq_xI (Coq_xI (Coq_xI (Coq_xO
         Coq_xH)))))) :: ((Npos (Coq_xO (Coq_xO (Coq_xO (Coq_xO (Coq_xO
         (Coq_xO Coq_xH))))))) :: ((Npos (Coq_xI (Coq_xI (Coq_xI (Coq_xO
         (Coq_xO (Coq_xO Coq_xH))))))) :: ((Npos (Coq_xI (Coq_xI (Coq_xI
         (Coq_xI (Coq_xO Coq_xH)))))) :: []))))
     | Dutch -> None)
  | GFE15 ->
    (match l with
     | EnglishNA ->
       Some ((Npos (Coq_xI (Coq_xI (Coq_xI (Coq_xI (Coq_xO
         Coq_xH)))))) :: ((Npos (Coq_xO (Coq_xO (Coq_xO (Coq_xO (Coq_xO
         (Coq_xO Coq_xH))))))) :: ((Npos (Coq_xO (Coq_xI (Coq_xI (Coq_xI
         (Coq_xO (Coq_xO Coq_xH))))))) :: ((Npos (Coq_xI (Coq_xI (Coq_xI
         (Coq_xI (Coq_xO (Coq_xO Coq_xH))))))) :: ((Npos (Coq_xI (Coq_xO
         (Coq_xO (Coq_xO (Coq_xO (Coq_xO Coq_xH))))))) :: ((Npos (Coq_xI
         (Coq_xI (Coq_xI (Coq_xI (Coq_xI (Coq_xO Coq_xH))))))) :: ((Npos
         (Coq_xI (Coq_xO (Coq_xI (Coq_xO (Coq_xO (Coq_xO
         Coq_xH))))))) :: ((Npos (Coq_xO (Coq_xI (Coq_xI (Coq_xI (Coq_xO
         (Coq_xO Coq_xH))))))) :: ((Npos (Coq_xI (Coq_xI (Coq_xI (Coq_xI
         (Coq_xO Coq_xH)))))) :: [])))))))))
     | EnglishEU ->
       Some ((Npos (Coq_xI (Coq_xI (Coq_xI (Coq_xI (Coq_xO
         Coq_xH)))))) :: ((Npos (Coq_xO (Coq_xO (Coq_xO (Coq_xO (Coq_xO
         (Coq_xO Coq_xH))))))) :: ((Npos (Coq_xO (Coq_xI (Coq_xI (Coq_xI
         (Coq_xO (Coq_xO Coq_xH))))))) :: ((Npos (Coq_xI (Coq_xI (Coq_xI
         (Coq_xI (Coq_xO (Coq_xO Coq_xH))))))) :: ((Npos (Coq_xI (Coq_xO
         (Coq_xI (Coq_xO (Coq_xO (Coq_xO Coq_xH))))))) :: ((Npos (Coq_xI
         (Coq_xI (Coq_xI (Coq_xI (Coq_xI (Coq_xO Coq_xH))))))) :: ((Npos
         (Coq_xI (Coq_xO (Coq_xI (Coq_xO (Coq_xO (Coq_xO
         Coq_xH))))))) :: ((Npos (Coq_xO (Coq_xI (Coq_xI (Coq_xI (Coq_xO
         (Coq_xO Coq_xH))))))) :: ((Npos (Coq_xI (Coq_xI (Coq_xI (Coq_xI
         (Coq_xO Coq_xH)))))) :: [])))))))))
     | Japanese ->
       Some ((Npos (Coq_xI (Coq_xI (Coq_xI (Coq_xI (Coq_xO
         Coq_xH)))))) :: ((Npos (Coq_xO (Coq_xO (Coq_xO (Coq_xO (Coq_xO
         (Coq_xO Coq_xH))))))) :: ((Npos (Coq_xO (Coq_xI (Coq_xO (Coq_xI
         (Coq_xO (Coq_xO Coq_xH))))))) :: ((Npos (Coq_xI (Coq_xI (Coq_xI
         (Coq_xI (Coq_xO Coq_xH)))))) :: []))))
     | Spanish ->
       Some ((Npos (Coq_xI (Coq_xI (Coq_xI (Coq_xI (Coq_xO
         Coq_xH)))))) :: ((Npos (Coq_xO (Coq_xO (Coq_xO (Coq_xO (Coq_xO
         (Coq_xO Coq_xH))))))) :: ((Npos (Coq_xO (Coq_xI (Coq_xI (Coq_xI
         (Coq_xO (Coq_xO Coq_xH))))))) :: ((Npos (Coq_xI (Coq_xI (Coq_xI
         (Coq_xI (Coq_xO (Coq_xO Coq_xH))))))) :: ((Npos (Coq_xI (Coq_xO
         (Coq_xI (Coq_xO (Coq_xO (Coq_xO Coq_xH))))))) :: ((Npos (Coq_xI
         (Coq_xI (Coq_xI (Coq_xI (Coq_xI (Coq_xO Coq_xH))))))) :: ((Npos
         (Coq_xI (Coq_xI (Coq_xO (Coq_xO (Coq_xI (Coq_xO
         Coq_xH))))))) :: ((Npos (Coq_xO (Coq_xO (Coq_xO (Coq_xO (Coq_xI
         (Coq_xO Coq_xH))))))) :: ((Npos (Coq_xI (Coq_xI (Coq_xI (Coq_xI
         (Coq_xO Coq_xH)))))) :: [])))))))))
     | French ->
       Some ((Npos (Coq_xI (Coq_xI (Coq_xI (Coq_xI (Coq_xO
         Coq_xH)))))) :: ((Npos (Coq_xO (Coq_xO (Coq_xO (Coq_xO (Coq_xO
         (Coq_xO Coq_xH))))))) :: ((Npos (Coq_xO (Coq_xI (Coq_xI (Coq_xI
         (Coq_xO (Coq_xO Coq_xH))))))) :: ((Npos (Coq_xI (Coq_xI (Coq_xI
         (Coq_xI (Coq_xO (Coq_xO Coq_xH))))))) :: ((Npos (Coq_xI (Coq_xO
         (Coq_xI (Coq_xO (Coq_xO (Coq_xO Coq_xH))))))) :: ((Npos (Coq_xI
         (Coq_xI (Coq_xI (Coq_xI (Coq_xI (Coq_xO Coq_xH))))))) :: ((Npos
         (Coq_xO (Coq_xI (Coq_xI (Coq_xO (Coq_xO (Coq_xO
         Coq_xH))))))) :: ((Npos (Coq_xO (Coq_xI (Coq_xO (Coq_xO (Coq_xI
         (Coq_xO Coq_xH))))))) :: ((Npos (Coq_xI (Coq_xI (Coq_xI (Coq_xI
         (Coq_xO Coq_xH)))))) :: [])))))))))
     | Italian ->
       Some ((Npos (Coq_xI (Coq_xI (Coq_xI (Coq_xI (Coq_xO
         Coq_xH)))))) :: ((Npos (Coq_xO (Coq_xO (Coq_xO (Coq_xO (Coq_xO
         (Coq_xO Coq_xH))))))) :: ((Npos (Coq_xO (Coq_xI (Coq_xI (Coq_xI
         (Coq_xO (Coq_xO Coq_xH))))))) :: ((Npos (Coq_xI (Coq_xI (Coq_xI
         (Coq_xI (Coq_xO (Coq_xO Coq_xH))))))) :: ((Npos (Coq_xI (Coq_xO
         (Coq_xI (Coq_xO (Coq_xO (Coq_xO Coq_xH))))))) :: ((Npos (Coq_xI
         (Coq_xI (Coq_xI (Coq_xI (Coq_xI (Coq_xO Coq_xH))))))) :: ((Npos
         (Coq_xI (Coq_xO (Coq_xO (Coq_xI (Coq_xO (Coq_xO
         Coq_xH))))))) :: ((Npos (Coq_xO (Coq_xO (Coq_xI (Coq_xO (Coq_xI
         (Coq_xO Coq_xH))))))) :: ((Npos (Coq_xI (Coq_xI (Coq_xI (Coq_xI
         (Coq_xO Coq_xH)))))) :: [])))))))))
     | German ->
       Some ((Npos (Coq_xI (Coq_xI (Coq_xI (Coq_xI (Coq_xO
         Coq_xH)))))) :: ((Npos (Coq_xO (Coq_xO (Coq_xO (Coq_xO (Coq_xO
         (Coq_xO Coq_xH))))))) :: ((Npos (Coq_xO (Coq_xI (Coq_xI (Coq_xI
         (Coq_xO (Coq_xO Coq_xH))))))) :: ((Npos (Coq_xI (Coq_xI (Coq_xI
         (Coq_xI (Coq_xO (Coq_xO Coq_xH))))))) :: ((Npos (Coq_xI (Coq_xO
         (Coq_xI (Coq_xO (Coq_xO (Coq_xO Coq_xH))))))) :: ((Npos (Coq_xI
         (Coq_xI (Coq_xI (Coq_xI (Coq_xI (Coq_xO Coq_xH))))))) :: ((Npos
         (Coq_xI (Coq_xI (Coq_xI (Coq_xO (Coq_xO (Coq_xO
         Coq_xH))))))) :: ((Npos (Coq_xI (Coq_xO (Coq_xI (Coq_xO (Coq_xO
         (Coq_xO Coq_xH))))))) :: ((Npos (Coq_xI (Coq_xI (Coq_xI (Coq_xI
         (Coq_xO Coq_xH)))))) :: [])))))))))
     | Dutch ->
       Some ((Npos (Coq_xI (Coq_xI (Coq_xI (Coq_xI (Coq_xO
         Coq_xH)))))) :: ((Npos (Coq_xO (Coq_xO (Coq_xO (Coq_xO (Coq_xO
         (Coq_xO Coq_xH))))))) :: ((Npos (Coq_xO (Coq_xI (Coq_xI (Coq_xI
         (Coq_xO (Coq_xO Coq_xH))))))) :: ((Npos (Coq_xI (Coq_xI (Coq_xI
         (Coq_xI (Coq_xO (Coq_xO Coq_xH))))))) :: ((Npos (Coq_xI (Coq_xO
         (Coq_xI (Coq_xO (Coq_xO (Coq_xO Coq_xH))))))) :: ((Npos (Coq_xI
         (Coq_xI (Coq_xI (Coq_xI (Coq_xI (Coq_xO Coq_xH))))))) :: ((Npos
         (Coq_xO (Coq_xO (Coq_xI (Coq_xO (Coq_xO (Coq_xO
         Coq_xH))))))) :: ((Npos (Coq_xI (Coq_xO (Coq_xI (Coq_xO (Coq_xI
         (Coq_xO Coq_xH))))))) :: ((Npos (Coq_xI (Coq_xI (Coq_xI (Coq_xI
         (Coq_xO Coq_xH)))))) :: []))))))))))

(** val split_slash : str -> str list **)

let rec split_slash = function
| [] -> [] :: []
| c :: r ->
  if N.eqb c coq_SLASH
  then [] :: (split_slash r)
  else (match split_slash r with
        | [] -> (c :: []) :: []
        | h :: t -> (c :: h) :: t)

(** val str_eqb : str -> str -> bool **)

let rec str_eqb a b =
  match a with
  | [] -> (match b with
           | [] -> true
           | _ :: _ -> false)
  | x :: a' ->
    (match b with
     | [] -> false
     | y :: b' -> (&&) (N.eqb x y) (str_eqb a' b'))

(** val plain : str -> bool **)

let plain c =
  negb
    ((||) (str_eqb c [])
      ((||) (str_eqb c (coq_DOT :: []))
        (str_eqb c (coq_DOT :: (coq_DOT :: [])))))

type shape =
| SEmpty
| SRoot
| SDotDot
| SDot
| SPlain of str list * bool
| SOther

(** val classify : str -> shape **)

let classify s =
  if str_eqb s []
  then SEmpty
  else if str_eqb s (coq_SLASH :: [])
       then SRoot
       else if str_eqb s (coq_DOT :: (coq_DOT :: []))
            then SDotDot
            else if str_eqb s (coq_DOT :: [])
                 then SDot
                 else let parts = split_slash s in
                      if forallb plain parts
                      then SPlain (parts, false)
                      else (match rev parts with
                            | [] -> SOther
                            | s0 :: rinit ->
                              (match s0 with
                               | [] ->
                                 (match rinit with
                                  | [] -> SOther
                                  | _ :: _ ->
                                    if forallb plain rinit
                                    then SPlain ((rev rinit), true)
                                    else SOther)
                               | _ :: _ -> SOther))

(** val join : str list -> str **)

let rec join = function
| [] -> []
| c :: r -> (match r with
             | [] -> c
             | _ :: _ -> app c (coq_SLASH :: (join r)))

type pf =
| PFOk of str * str
| PFErr of lerr
| PFUnmodelled

(** val parent_and_file : str -> pf **)

let parent_and_file s =
  match classify s with
  | SEmpty -> PFErr LMissingParent
  | SRoot -> PFErr LMissingParent
  | SPlain (comps, _) ->
    (match rev comps with
     | [] -> PFUnmodelled
     | file :: rinit ->
       let parent = join (rev rinit) in
       if str_eqb parent [] then PFOk (file, []) else PFOk (parent, file))
  | SOther -> PFUnmodelled
  | _ -> PFErr LMissingFileName

(** val localize : game -> lang -> str -> lres **)

let localize g l path =
  match g with
  | GNoOp -> LOk path
  | _ ->
    (match parent_and_file path with
     | PFOk (dir, file) ->
       (match infix g l with
        | Some m -> LOk (app dir (app m file))
        | None -> LErr LUnsupportedLanguage)
     | PFErr e -> LErr e
     | PFUnmodelled -> LUnmodelled)
