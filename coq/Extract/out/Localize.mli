open BinNat
open BinNums
open Datatypes
open List

type str = coq_N list

val coq_SLASH : coq_N

val coq_DOT : coq_N

type game =
| GNoOp
| GFE9
| GFE10
| GFE13
| GFE14
| GFE15

type lang =
| EnglishNA
| EnglishEU
| Japanese
| Spanish
| French
| Italian
| German
| Dutch

type lerr =
| LMissingParent
| LMissingFileName
| LUnsupportedLanguage

type lres =
| LOk of str
| LErr of lerr
| LUnmodelled

val infix : game -> lang -> str option

val split_slash : str -> str list

val str_eqb : str -> str -> bool

val plain : str -> bool

type shape =
| SEmpty
| SRoot
| SDotDot
| SDot
| SPlain of str list * bool
| SOther

val classify : str -> shape

val join : str list -> str

type pf =
| PFOk of str * str
| PFErr of lerr
| PFUnmodelled

val parent_and_file : str -> pf

val localize : game -> lang -> str -> lres
