open BinNums

module Pos :
 sig
  val eqb : positive -> positive -> bool
 end
