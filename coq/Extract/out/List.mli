open Datatypes

val rev : 'a1 list -> 'a1 list

val forallb : ('a1 -> bool) -> 'a1 list -> bool
