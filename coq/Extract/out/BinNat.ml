open BinNums
open BinPos

module N =
 struct
  (** val eqb : coq_N -> coq_N -> bool **)

  let eqb n m =
    match n with
    | N0 -> (match m with
             | N0 -> true
             | Npos _ -> false)
    | Npos p -> (match m with
                 | N0 -> false
                 | Npos q -> Pos.eqb p q)
 end
