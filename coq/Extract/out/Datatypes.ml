
(** val negb : bool -> bool **)

let negb = function
| true -> false
| false -> true

(** val option_map : ('a1 -> 'a2) -> 'a1 option -> 'a2 option **)

let option_map f = function
| Some a -> Some (f a)
| None -> None

(** val app : 'a1 list -> 'a1 list -> 'a1 list **)

let rec app l m =
  match l with
  | [] -> m
  | a :: l1 -> a :: (app l1 m)
