
val negb : bool -> bool

val option_map : ('a1 -> 'a2) -> 'a1 option -> 'a2 option

val app : 'a1 list -> 'a1 list -> 'a1 list
