open Datatypes

(** val rev : 'a1 list -> 'a1 list **)

let rec rev = function
| [] -> []
| x :: l' -> app (rev l') (x :: [])

(** val forallb : ('a1 -> bool) -> 'a1 list -> bool **)

let rec forallb f = function
| [] -> true
| a :: l0 -> (&&) (f a) (forallb f l0)
