open BinNat
open BinNums
open Datatypes

type str = coq_N list

(** val coq_BS : coq_N **)

let coq_BS =
  Npos (Coq_xO (Coq_xO (Coq_xI (Coq_xI (Coq_xI (Coq_xO Coq_xH))))))

(** val coq_LN : coq_N **)

let coq_LN =
  Npos (Coq_xO (Coq_xI (Coq_xI (Coq_xI (Coq_xO (Coq_xI Coq_xH))))))

(** val coq_NL : coq_N **)

let coq_NL =
  Npos (Coq_xO (Coq_xI (Coq_xO Coq_xH)))

(** val str_eqb : str -> str -> bool **)

let rec str_eqb a b =
  match a with
  | [] -> (match b with
           | [] -> true
           | _ :: _ -> false)
  | x :: a' ->
    (match b with
     | [] -> false
     | y :: b' -> (&&) (N.eqb x y) (str_eqb a' b'))

(** val unescape : str -> str **)

let rec unescape = function
| [] -> []
| c1 :: r1 ->
  (match r1 with
   | [] -> c1 :: []
   | c2 :: r2 ->
     if (&&) (N.eqb c1 coq_BS) (N.eqb c2 coq_LN)
     then coq_NL :: (unescape r2)
     else c1 :: (unescape r1))

(** val escape : str -> str **)

let rec escape = function
| [] -> []
| c :: r ->
  if N.eqb c coq_NL then coq_BS :: (coq_LN :: (escape r)) else c :: (escape r)

type tmap = { t_title : str; t_entries : (str * str) list; t_dirty : bool }

(** val tm_new : tmap **)

let tm_new =
  { t_title = []; t_entries = []; t_dirty = false }

(** val e_lookup : str -> (str * str) list -> str option **)

let rec e_lookup k = function
| [] -> None
| p :: r -> let (k', v) = p in if str_eqb k k' then Some v else e_lookup k r

(** val e_set : str -> str -> (str * str) list -> (str * str) list **)

let rec e_set k v = function
| [] -> (k, v) :: []
| p :: r ->
  let (k', v') = p in
  if str_eqb k k' then (k', v) :: r else (k', v') :: (e_set k v r)

(** val e_del : str -> (str * str) list -> (str * str) list **)

let rec e_del k = function
| [] -> []
| p :: r ->
  let (k', v') = p in if str_eqb k k' then r else (k', v') :: (e_del k r)

(** val tm_set_title : tmap -> str -> tmap **)

let tm_set_title t s =
  { t_title = s; t_entries = t.t_entries; t_dirty = t.t_dirty }

(** val tm_has : tmap -> str -> bool **)

let tm_has t k =
  match e_lookup k t.t_entries with
  | Some _ -> true
  | None -> false

(** val tm_get : tmap -> str -> str option **)

let tm_get t k =
  option_map escape (e_lookup k t.t_entries)

(** val tm_set : tmap -> str -> str -> tmap **)

let tm_set t k m =
  { t_title = t.t_title; t_entries = (e_set k (unescape m) t.t_entries);
    t_dirty = true }

(** val tm_del : tmap -> str -> tmap **)

let tm_del t k =
  { t_title = t.t_title; t_entries = (e_del k t.t_entries); t_dirty =
    t.t_dirty }

type top =
| TSet of str * str
| TDel of str
| THas of str
| TGet of str
| TTitle of str

type tout =
| ONone
| OBool of bool
| OStr of str option

(** val tm_step : tmap -> top -> tmap * tout **)

let tm_step t = function
| TSet (k, m) -> ((tm_set t k m), ONone)
| TDel k -> ((tm_del t k), ONone)
| THas k -> (t, (OBool (tm_has t k)))
| TGet k -> (t, (OStr (tm_get t k)))
| TTitle s -> ((tm_set_title t s), ONone)
