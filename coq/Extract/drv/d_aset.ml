(* Model side of kind "aset" (animation-set files, C17 / C05); mirrors harness/src/k_aset.rs.
     aset v <optlist meta> <optlist table> <nsets> <optlist set>*    build the value, serialize, parse back, re-serialize
     aset p B<file bytes>                                            parse arbitrary bytes, re-serialize what was accepted
   optlist = <n> L<indices of the present entries> B.. (one B token per present entry, ascending). *)
open Dcommon
open BinNums
open Machine
module List = Stdlib.List
module String = Stdlib.String

exception Aset_panic

let parse_optlist (toks : string list ref) : coq_N list option list =
  let next () = match !toks with t :: r -> toks := r; t | [] -> failwith "aset: short case" in
  let n = int_of_string (next ()) in
  let idx = List.map int_of_n (parse_l (next ())) in
  let arr = Array.make n None in
  List.iter (fun k -> arr.(k) <- Some (parse_b (next ()))) idx;
  Array.to_list arr

let show_optlist (l : coq_N list option list) : string =
  let idx = ref [] and bs = ref [] in
  List.iteri (fun i o -> match o with Some s -> idx := string_of_int i :: !idx; bs := show_b s :: !bs | None -> ()) l;
  String.concat " " ([string_of_int (List.length l); "L" ^ String.concat "," (List.rev !idx)] @ List.rev !bs)

let show_aset (s : ASet.aset) : string =
  String.concat " " ([show_optlist [s.ASet.as_meta]; show_optlist s.ASet.as_table; string_of_int (List.length s.ASet.as_sets)]
                     @ List.map show_optlist s.ASet.as_sets)

let ser_s (s : ASet.aset) : string =
  match ASet.serialize Checked s with
  | Ok f -> show_b f
  | Err _ -> "err"
  | Panic _ -> raise Aset_panic

(* is the table label ambiguous (on more than one address)?  Then the library's choice depends on the hash state. *)
let ambiguous (f : coq_N list) : bool =
  match BinFormat.from_bytes Bytes.LE f with
  | Ok a ->
    let hits = List.filter (fun (_, bucket) -> List.exists (fun l -> l = ASet.coq_ACNT) bucket) a.BinArchive.a_labels in
    List.length hits > 1
  | _ -> false

let parse_s (f : coq_N list) : string =
  (if ambiguous f then "amb " else "") ^
  (match ASet.parse f with
   | Ok s -> "re=ok:" ^ show_aset s ^ " | ser2=" ^ ser_s s
   | Err _ -> "re=err"
   | Panic _ -> raise Aset_panic)

let aset (toks : string list) : string =
  try
    match toks with
    | "v" :: rest ->
      let r = ref rest in
      let meta = (match parse_optlist r with [m] -> m | _ -> failwith "aset: meta") in
      let table = parse_optlist r in
      let n = (match !r with t :: q -> r := q; int_of_string t | [] -> failwith "aset: short") in
      let rec go k acc = if k = 0 then List.rev acc else (let s = parse_optlist r in go (k - 1) (s :: acc)) in
      let sets = go n [] in
      let s = { ASet.as_meta = meta; as_table = table; as_sets = sets } in
      (match ASet.serialize Checked s with
       | Ok f -> "ser=" ^ show_b f ^ " | " ^ parse_s f
       | Err _ -> "ser=err"
       | Panic _ -> raise Aset_panic)
    | [ "p"; bytes ] -> parse_s (parse_b bytes)
    | [ "q"; bytes ] -> parse_s (parse_b bytes)      (* as p; the harness appends the measured allocation (no field-sized buffer in the model) *)
    | _ -> failwith "aset: bad case"
  with Aset_panic -> "PANIC"

let () = register "aset" aset
