open Dcommon
module List = Stdlib.List
module String = Stdlib.String

(* ---------------- C15 / C05 (pack part): GameCube/Wii pack archive ----------------
   kinds (same line formats as harness/src/k_pack*.rs):
     packser <name> <body> ...         serialize, then parse of the image
     packref B<image> <name> <body>... conforms_packb (verified checker) + parse of the image
     packparse B<bytes>                parse on arbitrary bytes, allocation log, re-serialization;
                                       "<checked> || <wrapping>" when the two modes differ
     packbig ..                        implementation + oracle only
     sjis ..                           canonicaliser service of the harness, not a model case *)
let hexs (l : n list) : string =
  let b = Buffer.create (2 * List.length l + 1) in
  List.iter (fun x -> Buffer.add_string b (Printf.sprintf "%02x" (int_of_n x))) l;
  Buffer.contents b

let rec pairs (toks : string list) : (n list * n list) list =
  match toks with
  | [] -> []
  | a :: b :: r -> (parse_b a, parse_b b) :: pairs r
  | _ -> failwith "pack: odd number of name/body tokens"

let show_entries (es : (n list * n list) list) : string =
  String.concat "" (List.map (fun (k, v) -> " " ^ hexs k ^ "," ^ hexs v) es)

let show_parse (o : (n list * n list) list Machine.outcome) : string =
  match o with
  | Machine.Ok es -> "ok" ^ show_entries es
  | Machine.Err _ -> "err"
  | Machine.Panic _ -> "PANIC"

let packser (toks : string list) : string =
  let files = pairs toks in
  match Pack.serialize files with
  | Machine.Ok img -> "ok " ^ show_b img ^ " rt " ^ show_parse (snd (Pack.parse_run Machine.Checked img))
  | Machine.Err _ -> "err"
  | Machine.Panic _ -> "PANIC"

let packref (toks : string list) : string =
  match toks with
  | img :: rest ->
    let f = parse_b img in
    let files = pairs rest in
    let c = if PackFormat.conforms_packb f files then "1" else "0" in
    "conforms=" ^ c ^ " " ^ show_parse (snd (Pack.parse_run Machine.Checked f))
  | [] -> failwith "packref: bad case"

let max_alloc (l : n list) : int = List.fold_left (fun a x -> max a (int_of_n x)) 0 l

let packparse_mode (m : Machine.mode) (f : n list) : string =
  let (log, o) = Pack.parse_run m f in
  let tail = " maxalloc=" ^ string_of_int (max_alloc log) in
  match o with
  | Machine.Ok es ->
    let reser = (match Pack.serialize es with
        | Machine.Ok img -> "ok:" ^ hexs img
        | Machine.Err _ -> "err"
        | Machine.Panic _ -> "PANIC") in
    "ok" ^ show_entries es ^ " reser=" ^ reser ^ tail
  | Machine.Err _ -> "err" ^ tail
  | Machine.Panic _ -> "PANIC"

let packparse (toks : string list) : string =
  match toks with
  | [b] ->
    let f = parse_b b in
    let c = packparse_mode Machine.Checked f in
    let w = packparse_mode Machine.Wrapping f in
    if c = w then c else c ^ " || " ^ w
  | _ -> failwith "packparse: bad case"

let () = register "packser" packser
let () = register "packref" packref
let () = register "packparse" packparse
let () = register "packbig" (fun _ -> "unmodelled")
let () = register "packparsebig" (fun _ -> "unmodelled")
let () = register "sjis" (fun _ -> "unmodelled")
