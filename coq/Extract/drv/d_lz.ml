open Dcommon
module List = Stdlib.List
module String = Stdlib.String

(* ---------------- C08-C11: LZ10 / LZ13 compression and decompression ----------------
   lz10c <flag> B<input>          flag 0: skipped by the model (implementation + oracle only)
   lz13c <flag> B<input>          flag 0: skipped; 1: wrapper length bytes not computed (printed as 0,
                                  masked by the comparison); 2: everything; 3: as 1 and the model's decoder is
                                  not run on the result (printed rt:skipped; long outputs at displacement 4096
                                  cost output * displacement list steps in the list model) - also for lz10c
   lzd <entry> <flag> B<stream>   entry 10 | 13 | f10 | f13; flag 0 or 2: skipped
   The decoder model is run in both arithmetic modes; the line says so if they differ. *)
let show_dec (r : BinNums.coq_N list Machine.outcome) : string =
  match r with
  | Machine.Ok d -> "ok " ^ show_b d
  | Machine.Err _ -> "err"
  | Machine.Panic _ -> "PANIC"

let both (f : Machine.mode -> BinNums.coq_N list Machine.outcome) : BinNums.coq_N list Machine.outcome * string =
  let a = f Machine.Checked in
  (* the decoder model does not depend on the mode (Proofs: lz_decode_mode_independent); re-checked here on
     outputs that are cheap to recompute *)
  let small = (match a with Machine.Ok d -> List.compare_length_with d 3000 <= 0 | _ -> true) in
  if not small then (a, "") else
    let b = f Machine.Wrapping in
    (a, if a = b then "" else " MODE-DEPENDENT wrapping:" ^ show_dec b)

let compress_line ?(skip_rt = false) (input : BinNums.coq_N list) (c : BinNums.coq_N list Machine.outcome)
    (dec : Machine.mode -> BinNums.coq_N list -> BinNums.coq_N list Machine.outcome) : string =
  match c with
  | Machine.Err _ -> "err"
  | Machine.Panic _ -> "PANIC"
  | Machine.Ok c when skip_rt -> "ok " ^ show_b c ^ " rt:skipped"
  | Machine.Ok c ->
    let (r, note) = both (fun m -> dec m c) in
    let rt = (match r with
        | Machine.Err _ -> "rt:err"
        | Machine.Panic _ -> "rt:PANIC"
        | Machine.Ok d -> if d = input then "rt:same" else "rt:ok:" ^ show_b d) in
    "ok " ^ show_b c ^ " " ^ rt ^ note

let lz10c (toks : string list) : string =
  match toks with
  | [flag; b] ->
    if flag = "0" then "SKIP" else
      let x = parse_b b in
      compress_line ~skip_rt:(flag = "3") x (LZ10.compress10_o x) LZDecode.lz10_decompress
  | _ -> failwith "lz10c: bad case"

let lz13c (toks : string list) : string =
  match toks with
  | [flag; b] ->
    if flag = "0" then "SKIP" else
      let x = parse_b b in
      let c = if flag = "1" || flag = "3" then LZ11.compress13_nohdr_o Machine.Checked x else LZ11.compress13_o Machine.Checked x in
      compress_line ~skip_rt:(flag = "3") x c LZDecode.lz13_decompress
  | _ -> failwith "lz13c: bad case"

(* the same two through CompressionFormat (cf_compress / cf_decompress); flag as for lz10c / lz13c, except
   that the wrapper length is always computed when the enum's compress is used (flag 2 only) *)
let lz10f (toks : string list) : string =
  match toks with
  | [flag; b] ->
    if flag = "0" then "SKIP" else
      let x = parse_b b in
      compress_line ~skip_rt:(flag = "3") x (LZDecode.cf_compress LZDecode.CF10 Machine.Checked x) (LZDecode.cf_decompress LZDecode.CF10)
  | _ -> failwith "lz10f: bad case"

let lz13f (toks : string list) : string =
  match toks with
  | [flag; b] ->
    if flag = "0" then "SKIP" else
      let x = parse_b b in
      let c = if flag = "2" then LZDecode.cf_compress LZDecode.CF13 Machine.Checked x else LZ11.compress13_nohdr_o Machine.Checked x in
      compress_line ~skip_rt:(flag = "3") x c (LZDecode.cf_decompress LZDecode.CF13)
  | _ -> failwith "lz13f: bad case"

let lzd (toks : string list) : string =
  match toks with
  | [entry; flag; b] ->
    if flag = "0" || flag = "2" then "SKIP" else
      let s = parse_b b in
      let f = (match entry with
          | "10" -> (fun m -> LZDecode.lz10_decompress m s)
          | "13" -> (fun m -> LZDecode.lz13_decompress m s)
          | "f10" -> (fun m -> LZDecode.cf_decompress LZDecode.CF10 m s)
          | "f13" -> (fun m -> LZDecode.cf_decompress LZDecode.CF13 m s)
          | x -> failwith ("lzd: bad entry " ^ x)) in
      let (r, note) = both f in
      show_dec r ^ note
  | _ -> failwith "lzd: bad case"

let () = register "lz10c" lz10c
let () = register "lz13c" lz13c
let () = register "lzd" lzd
(* lz10p / lz13p <flag> B<prelude> B<input>: the implementation compresses the prelude first; the model is a function of
   its argument, so it is lz10c / lz13c on <input> *)
let () = register "lz10p" (fun toks -> match toks with [flag; _; b] -> lz10c [flag; b] | _ -> failwith "lz10p: bad case")
let () = register "lz13p" (fun toks -> match toks with [flag; _; b] -> lz13c [flag; b] | _ -> failwith "lz13p: bad case")
let () = register "lz10f" lz10f
let () = register "lz13f" lz13f
