(* Hand-written driver for the extracted Coq models (Extract/out/*.ml, one per Coq module).
   Reads one case per line on stdin, prints one canonical result line per case.
   Tokens: decimal integers; L<d,d,..> = list of numbers ("L" = empty); B<hex> = bytes ("B" = empty). *)
module List = Stdlib.List
module String = Stdlib.String
open BinNums

let rec pos_of_int (i : int) : positive =
  if i <= 1 then Coq_xH else if i land 1 = 1 then Coq_xI (pos_of_int (i lsr 1)) else Coq_xO (pos_of_int (i lsr 1))
type n = coq_N
let n_of_int (i : int) : n = if i <= 0 then N0 else Npos (pos_of_int i)
let rec int_of_pos = function Coq_xH -> 1 | Coq_xO p -> 2 * int_of_pos p | Coq_xI p -> 2 * int_of_pos p + 1
let int_of_n = function N0 -> 0 | Npos p -> int_of_pos p

let split_on c s = if s = "" then [] else String.split_on_char c s
let parse_l (tok : string) : n list =
  (* "L1,2,3" *)
  let body = String.sub tok 1 (String.length tok - 1) in
  List.map (fun x -> n_of_int (int_of_string x)) (split_on ',' body)
let parse_b (tok : string) : n list =
  let body = String.sub tok 1 (String.length tok - 1) in
  let len = String.length body / 2 in
  List.init len (fun i -> n_of_int (int_of_string ("0x" ^ String.sub body (2 * i) 2)))
let show_l (l : n list) : string = "L" ^ String.concat "," (List.map (fun x -> string_of_int (int_of_n x)) l)
let show_b (l : n list) : string =
  let b = Buffer.create (2 * List.length l + 1) in
  Buffer.add_char b 'B';
  List.iter (fun x -> Buffer.add_string b (Printf.sprintf "%02x" (int_of_n x))) l;
  Buffer.contents b


(* registry of case kinds: each d_<kind>.ml registers its handler *)
let handlers : (string, string list -> string) Hashtbl.t = Hashtbl.create 64
let register (kind : string) (f : string list -> string) : unit = Hashtbl.replace handlers kind f
