(* Hand-written driver for the extracted Coq models (Extract/out/*.ml, one per Coq module).
   Reads one case per line on stdin, prints one canonical result line per case.
   Tokens: decimal integers; L<d,d,..> = list of numbers ("L" = empty); B<hex> = bytes ("B" = empty). *)
module List = Stdlib.List
module String = Stdlib.String
open BinNums

let rec pos_of_int (i : int) : positive =
  if i <= 1 then Coq_xH else if i land 1 = 1 then Coq_xI (pos_of_int (i lsr 1)) else Coq_xO (pos_of_int (i lsr 1))
type n = coq_N
let n_of_int (i : int) : n = if i <= 0 then N0 else Npos (pos_of_int i)
let rec int_of_pos = function Coq_xH -> 1 | Coq_xO p -> 2 * int_of_pos p | Coq_xI p -> 2 * int_of_pos p + 1
let int_of_n = function N0 -> 0 | Npos p -> int_of_pos p

(* ---- arbitrary-size decimal <-> N / Z (usize values exceed OCaml's 63-bit int) ---- *)
let n_chunk = n_of_int 1_000_000_000
let n_of_dec (s : string) : n =
  let len = String.length s in
  if len <= 17 then n_of_int (int_of_string s)
  else begin
    let acc = ref N0 in
    let i = ref 0 in
    let first = len mod 9 in
    if first > 0 then (acc := n_of_int (int_of_string (String.sub s 0 first)); i := first);
    while !i < len do
      acc := BinNat.N.add (BinNat.N.mul !acc n_chunk) (n_of_int (int_of_string (String.sub s !i 9)));
      i := !i + 9
    done;
    !acc
  end
let rec pos_bits = function Coq_xH -> 1 | Coq_xO p -> 1 + pos_bits p | Coq_xI p -> 1 + pos_bits p
let n_small = function N0 -> true | Npos p -> pos_bits p <= 60
let rec dec_of_n (v : n) : string =
  if n_small v then string_of_int (int_of_n v)
  else
    let (q, r) = BinNat.N.div_eucl v n_chunk in
    dec_of_n q ^ Printf.sprintf "%09d" (int_of_n r)
let z_of_dec (s : string) : coq_Z =
  if String.length s > 0 && s.[0] = '-' then BinInt.Z.opp (BinInt.Z.of_N (n_of_dec (String.sub s 1 (String.length s - 1))))
  else BinInt.Z.of_N (n_of_dec s)
let dec_of_z (z : coq_Z) : string =
  match z with
  | Z0 -> "0"
  | Zpos p -> dec_of_n (Npos p)
  | Zneg p -> "-" ^ dec_of_n (Npos p)

let split_on c s = if s = "" then [] else String.split_on_char c s
let parse_l (tok : string) : n list =
  (* "L1,2,3" *)
  let body = String.sub tok 1 (String.length tok - 1) in
  List.map (fun x -> n_of_int (int_of_string x)) (split_on ',' body)
(* "B<hex>" = the bytes; "P<len>:<hex>" = the pattern repeated / truncated to <len> bytes (compact form for
   large periodic inputs; an empty pattern stands for a zero byte) *)
let rec parse_b (tok : string) : n list =
  if String.contains tok '+' then
    (* several segments joined by '+': concatenation *)
    List.concat_map parse_b (String.split_on_char '+' tok)
  else
  let hexbytes body =
    let len = String.length body / 2 in
    Array.init len (fun i -> int_of_string ("0x" ^ String.sub body (2 * i) 2)) in
  if String.length tok > 0 && tok.[0] = 'P' then begin
    let colon = String.index tok ':' in
    let len = int_of_string (String.sub tok 1 (colon - 1)) in
    let pat = hexbytes (String.sub tok (colon + 1) (String.length tok - colon - 1)) in
    let pat = if Array.length pat = 0 then [| 0 |] else pat in
    let pn = Array.map n_of_int pat in
    List.init len (fun i -> pn.(i mod Array.length pn))
  end else
    Array.to_list (Array.map n_of_int (hexbytes (String.sub tok 1 (String.length tok - 1))))
let show_l (l : n list) : string = "L" ^ String.concat "," (List.map (fun x -> string_of_int (int_of_n x)) l)
let show_b (l : n list) : string =
  let b = Buffer.create (2 * List.length l + 1) in
  Buffer.add_char b 'B';
  List.iter (fun x -> Buffer.add_string b (Printf.sprintf "%02x" (int_of_n x))) l;
  Buffer.contents b

(* ---- sort keys of label names (Model/BinFormat.v name_key) ----
   The library orders the label table of a big-endian bin archive by the names as Rust Strings, i.e. by the Unicode
   scalar values of the DECODED names.  The model works on encoded names and takes the key function as a parameter; the
   case line carries the keys the library's own decoder assigns, as a trailing token group
       K <n> B<name> L<scalars> ... (n pairs)
   produced by the generator (gen/namekeys.py, harness kind sjdec) and removed before the kind's handler sees the tokens
   (zmain.ml; the harness drops it too).  A name without an entry is its own key (right for ASCII names). *)
let key_table : (string, n list) Hashtbl.t = Hashtbl.create 64
let name_key (b : n list) : n list =
  if Hashtbl.length key_table = 0 then b
  else match Hashtbl.find_opt key_table (show_b b) with Some k -> k | None -> b
let strip_keys (toks : string list) : string list =
  Hashtbl.reset key_table;
  let rec go acc = function
    | [] -> List.rev acc
    | "K" :: cnt :: rest ->
      let n = int_of_string cnt in
      let rec fill k l =
        if k = 0 then () else
          match l with
          | name :: key :: r -> Hashtbl.replace key_table name (parse_l key); fill (k - 1) r
          | _ -> failwith "K group: missing tokens" in
      fill n rest; List.rev acc
    | t :: r -> go (t :: acc) r in
  go [] toks

(* registry of case kinds: each d_<kind>.ml registers its handler *)
let handlers : (string, string list -> string) Hashtbl.t = Hashtbl.create 64
let register (kind : string) (f : string list -> string) : unit = Hashtbl.replace handlers kind f
