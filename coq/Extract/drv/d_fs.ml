open Dcommon
module List = Stdlib.List
module String = Stdlib.String

(* ---------------- C12 / C13 / C14-fs: layered filesystem histories ----------------
   Same case line and the same canonical output as harness/src/k_fs.rs.  The compression codec is
   not modelled here: the case line carries the results of the real compressor / decompressor for
   every byte string that can occur (computed by the generator through the harness kind `fscodec`);
   the section variables [compress] / [decompress] of Model/LayeredFS.v are instantiated with
   look-ups in that table. *)
open LayeredFS

let utf8_of_scalars (l : n list) : string =
  let b = Buffer.create 32 in
  List.iter (fun c -> Buffer.add_utf_8_uchar b (Uchar.of_int (int_of_n c))) l;
  Buffer.contents b

(* identical to h_fs.rs::esc *)
let esc (s : string) : string =
  let b = Buffer.create (String.length s) in
  String.iter (fun c ->
    let safe = (c >= 'A' && c <= 'Z') || (c >= 'a' && c <= 'z') || (c >= '0' && c <= '9')
               || c = '.' || c = '_' || c = '@' || c = '~' || c = '+' || c = '-' || c = '/' in
    if safe then Buffer.add_char b c else Buffer.add_string b (Printf.sprintf "%%%02x" (Char.code c))) s;
  Buffer.contents b

let hex (l : n list) : string =
  let b = Buffer.create (2 * List.length l) in
  List.iter (fun x -> Buffer.add_string b (Printf.sprintf "%02x" (int_of_n x))) l;
  Buffer.contents b

let fs_game = function 0 -> FE9 | 1 -> FE10 | 2 -> FE11 | 3 -> FE12 | 4 -> FE13 | 5 -> FE14 | _ -> FE15
let fs_lang = Localize.(function 0 -> EnglishNA | 1 -> EnglishEU | 2 -> Japanese | 3 -> Spanish | 4 -> French
                         | 5 -> Italian | 6 -> German | _ -> Dutch)

(* "a/b/c" (scalar values) -> [[a];[b];[c]] *)
let split_path (s : n list) : n list list =
  let rec go cur acc = function
    | [] -> List.rev (List.rev cur :: acc)
    | c :: r -> if int_of_n c = 47 then go [] (List.rev cur :: acc) r else go (c :: cur) acc r in
  go [] [] s

let rec prefixes_of (p : 'a list) : 'a list list =
  (* proper non-empty prefixes *)
  let n = List.length p in
  List.init (max 0 (n - 1)) (fun k -> List.filteri (fun i _ -> i <= k) p)

(* build a layer from the entries of the case line the way the harness builds the directory:
   create_dir_all for D entries, create_dir_all(parent) + write for files (last write wins) *)
let add_entry (l : layer) (p : n list list) (e : entry) : layer =
  let has q = List.exists (fun (k, _) -> k = q) l in
  let l = List.fold_left (fun l q -> if List.exists (fun (k, _) -> k = q) l then l else l @ [(q, Dir)]) l (prefixes_of p) in
  ignore has;
  if List.exists (fun (k, _) -> k = p) l then List.map (fun (k, v) -> if k = p then (k, e) else (k, v)) l else l @ [(p, e)]

let render (p : n list list) : string = String.concat "/" (List.map utf8_of_scalars p)

let walk_layer (l : layer) : string =
  let es = List.map (fun (p, e) -> (render p, e)) l in
  let es = List.sort (fun (a, _) (b, _) -> compare a b) es in
  String.concat "," (List.map (fun (p, e) -> match e with Dir -> esc p ^ "/" | File b -> esc p ^ "=" ^ hex b) es)

let walk_all (s : fsys) : string = String.concat " & " (List.map walk_layer s.layers)

let show_lerr = Localize.(function
  | LMissingParent -> "err:loc-missing-parent"
  | LMissingFileName -> "err:loc-missing-file-name"
  | LUnsupportedLanguage -> "err:loc-unsupported-language")

let show_err = function
  | ENoLayers -> "err:nolayers"
  | EUnsupportedGame -> "err:unsupported-game"
  | ENoWriteableLayers -> "err:nowriteable"
  | ENotFound -> "err:notfound"
  | ELocalization e -> show_lerr e
  | ECompression _ -> "err:compression"
  | EWrite -> "err:write"
  | EIo -> "err:io"
  | EParse _ -> "err:parse"
  | EUnmodelled -> "unmodelled"

let show_res (f : 'a -> string) (r : 'a fres) : string =
  match r with FOk a -> f a | FErr e -> show_err e | FPanic _ -> "panic"

let rec int_of_nat = function Datatypes.O -> 0 | Datatypes.S n -> 1 + int_of_nat n

let show_obs (o : obs) : string =
  match o with
  | VBytes r -> show_res (fun b -> "ok:" ^ hex b) r
  | VUnit r -> show_res (fun () -> "ok") r
  | VBool r -> show_res (fun b -> if b then "ok:true" else "ok:false") r
  | VResolve r -> show_res (function None -> "none"
                                   | Some (i, s) -> Printf.sprintf "some:%d:%s" (int_of_nat i) (esc (utf8_of_scalars s))) r
  | VList r -> show_res (fun l -> "ok:[" ^ String.concat "," (List.map (fun s -> esc (utf8_of_scalars s)) l) ^ "]") r

let fs_pattern (tok : string) : pattern =
  let kind = String.sub tok 0 2 in
  let arg () = parse_l (String.sub tok 2 (String.length tok - 2)) in
  match kind with
  | "PA" | "PX" -> PAll
  | "PS" -> PStar
  | "PE" -> PExt (arg ())
  | "PR" -> PRecExt (arg ())
  | "PD" -> PSub (arg ())
  | _ -> failwith "fs: bad pattern token"

type fs_setup = { st : fsys fres; init : layer list; rest : string list;
                  comp : cfmt -> n list -> n list Machine.outcome; decomp : cfmt -> n list -> n list Machine.outcome }

(* header of a case: base game lang nlayers {k {path content}*k}*n ncodec {kind in out}*ncodec *)
let fs_setup (toks : string list) : fs_setup =
  match toks with
  | _base :: g :: l :: nl :: r ->
    let rec layers n r acc =
      if n = 0 then (List.rev acc, r) else
      match r with
      | k :: r ->
        let rec ents k r lay =
          if k = 0 then (lay, r) else
          match r with
          | p :: c :: r ->
            let comps = split_path (parse_l p) in
            let e = if c = "D" then Dir else File (parse_b c) in
            ents (k - 1) r (add_entry lay comps e)
          | _ -> failwith "fs: bad entry" in
        let (lay, r) = ents (int_of_string k) r [] in
        layers (n - 1) r (lay :: acc)
      | [] -> failwith "fs: bad layer" in
    let (ls, r) = layers (int_of_string nl) r [] in
    let tbl : (string, n list Machine.outcome) Hashtbl.t = Hashtbl.create 64 in
    let r = (match r with
      | nc :: r ->
        let rec go n r =
          if n = 0 then r else
          match r with
          | kind :: i :: o :: r ->
            let v = (match o with "E" -> Machine.Err Machine.EInvalidInput | "P" -> Machine.Panic Machine.POther | _ -> Machine.Ok (parse_b o)) in
            (* a compact P<len>:<pattern> input is looked up by its bytes like every other entry *)
            let i = if String.length i > 0 && i.[0] = 'P' then show_b (parse_b i) else i in
            Hashtbl.replace tbl (kind ^ i) v; go (n - 1) r
          | _ -> failwith "fs: bad codec entry" in
        go (int_of_string nc) r
      | [] -> failwith "fs: no codec table") in
    let look (dir : string) (f : cfmt) (b : n list) =
      let key = dir ^ (match f with LZ10 -> "10" | LZ13 -> "13") ^ show_b b in
      match Hashtbl.find_opt tbl key with Some v -> v | None -> failwith ("fs: codec table has no entry " ^ key) in
    List.iter (fun lay -> if not (wf_layerb lay) then failwith "fs: initial layer is not well-formed") ls;
    { st = fs_new ls (fs_lang (int_of_string l)) (fs_game (int_of_string g)); init = ls; rest = r;
      comp = look "c"; decomp = look "d" }
  | _ -> failwith "fs: bad case"

let fs_loc (t : string) : bool = (t = "1")

let fs (toks : string list) : string =
  let su = fs_setup toks in
  match su.st with
  | FErr e -> "new:" ^ show_err e ^ " @ " ^ String.concat " & " (List.map walk_layer su.init)
  | FPanic _ -> "new:panic"
  | FOk s0 ->
    let first = walk_all s0 in
    let rec go s last toks acc =
      let emit s' ret r =
        let w = walk_all s' in
        if w = last then go s' last r ((ret ^ " @ =") :: acc)
        else go s' w r ((ret ^ " @ " ^ w) :: acc) in
      let step o r =
        let (s', v) = fs_step su.comp su.decomp s o in
        emit s' (show_obs v) r in
      match toks with
      | [] -> List.rev acc
      | "R" :: loc :: p :: r -> step (ORead (parse_l p, fs_loc loc)) r
      | "W" :: loc :: p :: b :: r -> step (OWrite (parse_l p, parse_b b, fs_loc loc)) r
      | "C" :: loc :: p :: r -> step (OCreateDir (parse_l p, fs_loc loc)) r
      | "E" :: loc :: p :: r -> step (OExists (parse_l p, fs_loc loc)) r
      | "F" :: loc :: p :: r -> step (OFileExists (parse_l p, fs_loc loc)) r
      | "G" :: loc :: p :: r -> step (ODirExists (parse_l p, fs_loc loc)) r
      | "V" :: loc :: p :: r -> step (OResolve (parse_l p, fs_loc loc)) r
      | "L" :: loc :: p :: pat :: r -> step (OList (parse_l p, fs_pattern pat, fs_loc loc)) r
      | "S" :: loc :: p :: r -> step (OSubdirs (parse_l p, fs_loc loc)) r
      (* test set-up, not an API call: a hard link inside layer li; in the tree model a second file with the same bytes *)
      | "H" :: li :: src :: dst :: r ->
        let li = int_of_string li in
        let layers' = List.mapi (fun k l ->
          if k = li then (match List.assoc_opt (split_path (parse_l src)) l with
                          | Some (File b) -> add_entry l (split_path (parse_l dst)) (File b)
                          | _ -> l)
          else l) s.layers in
        emit { s with layers = layers' } "link:ok" r
      (* typed helpers: the abstract parsers of the model are instantiated with functions that report the
         codec parameters they were called with; the abstract serializers return the bytes given in the case *)
      | "TA" :: loc :: p :: r ->
        let v = fs_read_archive su.decomp (fun e _ -> Machine.Ok e) s (parse_l p) (fs_loc loc) in
        emit s (show_res (fun e -> match e with Bytes.BE -> "ta:be" | Bytes.LE -> "ta:le") v) r
      | "TT" :: loc :: p :: r ->
        let v = fs_read_text_archive su.decomp (fun t e _ -> Machine.Ok (t, e)) s (parse_l p) (fs_loc loc) in
        emit s (show_res (fun (t, e) -> "tt:" ^ (match t with ShiftJIS -> "sjis" | Unicode -> "utf16") ^ "-"
                                        ^ (match e with Bytes.BE -> "be" | Bytes.LE -> "le")) v) r
      | "TR" :: loc :: p :: k :: r ->
        let pb = parse_l p and lc = fs_loc loc in
        let ok = (fun b -> Machine.Ok b) in
        let v = (match int_of_string k with
                 | 0 -> fs_read_arc su.decomp ok s pb lc
                 | 1 -> fs_read_fe9_arc su.decomp ok s pb lc
                 | k -> fs_read_textures su.decomp (fun _ b -> Machine.Ok b) (n_of_int (k - 2)) s pb lc) in
        emit s (show_res (fun _ -> "tr:same") v) r
      | "WA" :: loc :: p :: _e :: _file :: ser :: r ->
        let (s', v) = fs_write_archive su.comp (fun a -> Machine.Ok a) s (parse_l p) (parse_b ser) (fs_loc loc) in
        emit s' (show_res (fun () -> "ok") v) r
      | "WT" :: loc :: p :: _f :: _e :: _file :: ser :: r ->
        let (s', v) = fs_write_text_archive su.comp (fun a -> Machine.Ok a) s (parse_l p) (parse_b ser) (fs_loc loc) in
        emit s' (show_res (fun () -> "ok") v) r
      | x :: _ -> failwith ("fs: bad token " ^ x) in
    String.concat " ; " (go s0 first su.rest [("new:ok @ " ^ first)])

let () = register "fs" fs

(* ---------------- C12: the per-game configuration table ---------------- *)
let fscfg (toks : string list) : string =
  match toks with
  | [_base; g; l; nl] ->
    let ls = List.init (int_of_string nl) (fun _ -> ([] : layer)) in
    (match fs_new ls (fs_lang (int_of_string l)) (fs_game (int_of_string g)) with
     | FErr e -> show_err e
     | FPanic _ -> "panic"
     | FOk s ->
       let c = s.conf in
       let endian = (match c.c_endian with Bytes.BE -> "big" | Bytes.LE -> "little") in
       let text = (match c.c_text with ShiftJIS -> "shiftjis" | Unicode -> "utf16") in
       let loc = Localize.(match c.c_loc with GNoOp -> "NoOp" | GFE9 -> "FE9" | GFE10 -> "FE10" | GFE13 -> "FE13"
                                            | GFE14 -> "FE14" | GFE15 -> "FE15") in
       let lang = Localize.(match s.lng with EnglishNA -> 0 | EnglishEU -> 1 | Japanese -> 2 | Spanish -> 3 | French -> 4
                                           | Italian -> 5 | German -> 6 | Dutch -> 7) in
       let probe name =
         let scal = List.init (String.length name) (fun i -> n_of_int (Char.code name.[i])) in
         name ^ "=" ^ (if is_compressed c.c_comp scal then (match c.c_comp with LZ10 -> "10" | LZ13 -> "13") else "raw") in
       Printf.sprintf "ok endian=%s text=%s loc=%s lang=%d %s" endian text loc lang
         (String.concat " " (List.map probe ["x.lz"; "x.cmp"; "x.cms"; "x.bin"; "x.lz.bak"; "lz"])))
  | _ -> failwith "fscfg: bad case"

let () = register "fscfg" fscfg
