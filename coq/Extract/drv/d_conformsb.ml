(* Model-only kind "conformsb": the verified checker of the bin-archive format relation
   (Model/BinConformsB.v, sound by Proofs/BinConformsBSound.v) applied to a file and a content.

   case line:  conformsb <L|B> B<file hex> <content tokens...>
   content tokens (each at most once, any order; a missing token = empty map):
     P<cell>:<dest>,<cell>:<dest>,...          pointers            ("P" = none)
     T<cell>:B<hex>,<cell>:B<hex>,...          strings (encoded)   ("T" = none)
     A<addr>:B<hex>|B<hex>,<addr>:B<hex>,...   labels, bucket in order, names separated by '|'  ("A" = none)
     D<hex>                                    the data region; when absent c_data := the file's own data region
                                               (bytes 32 .. 32 + data_size of the file), i.e. the raw bytes are taken
                                               from the file and only the annotations are checked against it
   numbers are decimal.  result line: "true" | "false"  ("false" also when the file has no data region) *)
open Dcommon
module List = Stdlib.List
module String = Stdlib.String

let tail (s : string) : string = String.sub s 1 (String.length s - 1)
let split2 (c : char) (s : string) : string * string =
  match String.index_opt s c with
  | Some i -> (String.sub s 0 i, String.sub s (i + 1) (String.length s - i - 1))
  | None -> failwith ("conformsb: missing '" ^ String.make 1 c ^ "' in " ^ s)
let entries (tok : string) : (string * string) list = List.map (split2 ':') (split_on ',' (tail tok))

let conformsb (toks : string list) : string =
  match toks with
  | en :: file :: rest ->
    let e = if en = "L" then Bytes.LE else Bytes.BE in
    let f = parse_b file in
    let ptrs = ref [] and text = ref [] and labs = ref [] and data = ref None in
    List.iter (fun tok ->
        if tok = "" then () else
        match tok.[0] with
        | 'P' -> ptrs := List.map (fun (k, v) -> (n_of_dec k, n_of_dec v)) (entries tok)
        | 'T' -> text := List.map (fun (k, v) -> (n_of_dec k, parse_b v)) (entries tok)
        | 'A' -> labs := List.map (fun (k, v) -> (n_of_dec k, List.map parse_b (split_on '|' v))) (entries tok)
        | 'D' -> data := Some (parse_b tok)
        | _ -> failwith ("conformsb: bad token " ^ tok)) rest;
    let d = (match !data with
        | Some d -> Some d
        | None ->
          (match Bytes.u32_at e f (n_of_int 4) with
           | Some dsz -> Bytes.sliceN (n_of_int 32) dsz f
           | None -> None)) in
    (match d with
     | None -> "false"
     | Some d ->
       let c = { BinFormatSpec.c_data = d; c_ptrs = !ptrs; c_text = !text; c_labels = !labs } in
       if BinConformsB.conformsb e f c then "true" else "false")
  | _ -> failwith "conformsb: bad case"

let () = register "conformsb" conformsb
