(* Model side of kind txth (C06/C07 link): a history of in-memory API calls, then serialize -> from_bytes, strings as
   Unicode scalar values on both ends; mirrors harness/src/k_txth.rs.
     txth <U|S> <L|B> (S L<key> L<msg> | D L<key> | T L<title> | H L<key> | G L<key>)*
   Output: ser=ok:B<image> | parse=ok d<dirty> T=L<title> [L<key>=L<msg> ...] *)
open Dcommon
open Machine
open TextMap
module List = Stdlib.List
module String = Stdlib.String

let herr (e : ekind) : string =
  match e with
  | EOob -> "err:oob"
  | EUnaligned -> "err:unaligned"
  | ETooSmall -> "err:toosmall"
  | EUnterminated -> "err:unterminated"
  | EEncoding -> "err:encoding"
  | EDecoding -> "err:decoding"
  | EIo -> "err:io"
  | EOutOfFuel -> "MODEL-OUT-OF-FUEL"
  | _ -> "err:other"

let txth (toks : string list) : string =
  match toks with
  | f :: e :: rest ->
    let fmt = if f = "U" then TextFormat.Unicode else TextFormat.ShiftJIS in
    let endian = if e = "B" then Bytes.BE else Bytes.LE in
    let rec ops acc = function
      | "S" :: k :: m :: r -> ops (TSet (parse_l k, parse_l m) :: acc) r
      | "D" :: k :: r -> ops (TDel (parse_l k) :: acc) r
      | "T" :: s :: r -> ops (TTitle (parse_l s) :: acc) r
      | "H" :: k :: r -> ops (THas (parse_l k) :: acc) r
      | "G" :: k :: r -> ops (TGet (parse_l k) :: acc) r
      | "R" :: r -> ops acc r      (* save + load in mid-history: the identity on title and entries (C06_history_round_trip) *)
      | "Z" :: r -> ops acc r      (* serialize and discard: serialize is a function of the state, so a no-op *)
      | [] -> List.rev acc
      | x :: _ -> failwith ("txth: bad token " ^ x) in
    (match TextCodec.history_file name_key Checked fmt endian (ops [] rest) with
     | Err e -> "ser=" ^ herr e
     | Panic _ -> "ser=PANIC"
     | Ok f ->
       let parsed =
         (match TextCodec.parse_text fmt endian f with
          | Ok (Some t) ->
            let es = List.map (fun (k, v) -> show_l k ^ "=" ^ show_l v) t.t_entries in
            Printf.sprintf "ok d%d T=%s [%s]" (if t.t_dirty then 1 else 0) (show_l t.t_title) (String.concat " " es)
          | Ok None -> "err:decoding"
          | Err e -> herr e
          | Panic _ -> "PANIC") in
       "ser=ok:" ^ show_b f ^ " | parse=" ^ parsed)
  | _ -> failwith "txth: bad case"

let () = register "txth" txth
