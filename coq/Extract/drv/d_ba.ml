(* Model side of kind "ba" (bin-archive histories); mirrors harness/src/k_ba.rs line by line. *)
open Dcommon
open BinNums
open Machine
open BinArchive
module List = Stdlib.List
module String = Stdlib.String

let err_kind (e : ekind) : string =
  match e with
  | EOob -> "err:oob"
  | EUnaligned -> "err:unaligned"
  | ELabelIndex -> "err:labelidx"
  | ETooSmall -> "err:toosmall"
  | _ -> "err:other"

let out_str ok o : string =
  match o with
  | Ok v -> ok v
  | Err e -> err_kind e
  | Panic _ -> "PANIC"

let unit_s o = out_str (fun _ -> "ok") o
let num_s o = out_str (fun v -> "ok:" ^ dec_of_n v) o
let z_s o = out_str (fun v -> "ok:" ^ dec_of_z v) o
let optstr_s o = out_str (function Some s -> "ok:some:" ^ show_b s | None -> "ok:none") o
let optnum_s o = out_str (function Some v -> "ok:some:" ^ dec_of_n v | None -> "ok:none") o
let optlabels_s o =
  out_str (function Some l -> "ok:some:" ^ String.concat "|" (List.map show_b l) | None -> "ok:none") o

let n_le a b = BinNat.N.leb a b
let n_cmp a b = match BinNat.N.compare a b with Datatypes.Lt -> -1 | Datatypes.Eq -> 0 | Datatypes.Gt -> 1

let n4 = n_of_int 4

let rec state (a : archive) (level : int) : string =
  if level = 0 then "" else begin
    let sz = size a in
    let visible k = n_le (BinNat.N.add k n4) sz in
    let t = List.filter (fun (k, _) -> visible k) a.a_text |> List.sort (fun (x, _) (y, _) -> n_cmp x y) in
    let p = List.filter (fun (k, _) -> visible k) a.a_ptrs |> List.sort (fun (x, _) (y, _) -> n_cmp x y) in
    let ts = String.concat "," (List.map (fun (k, s) -> dec_of_n k ^ ":" ^ show_b s) t) in
    let ps = String.concat "," (List.map (fun (k, v) -> dec_of_n k ^ ":" ^ dec_of_n v) p) in
    (* group all_labels by address *)
    let rec group acc cur = function
      | [] -> List.rev (match cur with None -> acc | Some (k, names) -> (k, List.rev names) :: acc)
      | (k, name) :: r ->
        (match cur with
         | Some (k', names) when n_cmp k k' = 0 -> group acc (Some (k', name :: names)) r
         | Some (k', names) -> group ((k', List.rev names) :: acc) (Some (k, [name])) r
         | None -> group acc (Some (k, [name])) r)
    in
    let ls = group [] None (all_labels a) in
    let lss = String.concat "," (List.map (fun (k, names) -> dec_of_n k ^ ":" ^ String.concat "|" (List.map show_b names)) ls) in
    let dests = List.sort_uniq n_cmp (pointer_destinations a) in
    let s = Printf.sprintf " | sz=%s d=%s t=[%s] p=[%s] l=[%s] pd=[%s]" (dec_of_n sz) (show_b a.a_data) ts ps lss
        (String.concat "," (List.map dec_of_n dests)) in
    if level >= 2 then
      (match BinFormat.serialize_k name_key Checked a with
       | Ok b ->
         let rcs =
           (match BinFormat.from_bytes a.a_endian b with
            | Ok re ->
              let orig k = List.exists (fun (k', _) -> n_cmp k k' = 0) a.a_ptrs && visible k in
              let cells = List.filter (fun (k, v) -> n_le (BinNat.N.add k n4) (size re) && not (orig k)) re.a_ptrs
                          |> List.sort (fun (x, _) (y, _) -> n_cmp x y) in
              " rc=[" ^ String.concat "," (List.map (fun (k, _) ->
                  match read_c_string re k with
                  | Ok (Some x) -> dec_of_n k ^ ":" ^ show_b x
                  | _ -> dec_of_n k ^ ":?") cells) ^ "]"
              ^ (if level >= 3 then
                   " re:" ^ state re 1 ^
                   (match BinFormat.serialize_k name_key Checked re with
                    | Ok b2 -> " reser=" ^ (if b2 = b then "same" else show_b b2)
                    | _ -> " reser=err")
                 else "")
            | _ -> " rc=err") in
         s ^ rcs ^ " ser=" ^ show_b b
       | Err _ -> s ^ " ser=err"
       | Panic _ -> s ^ " ser=PANIC")
    else s
  end

let bool_of tok = tok = "1"

let ba (toks : string list) : string =
  match toks with
  | e :: lvl :: ops ->
    let endian = if e = "B" then Bytes.BE else Bytes.LE in
    let level = ref (int_of_string (String.sub lvl 1 (String.length lvl - 1))) in
    let a = ref (ba_new endian) in
    let rpos = ref N0 in
    let wpos = ref N0 in
    let acc = ref [] in
    (* mutating op: outcome archive *)
    let upd (o : archive outcome) : string =
      (match o with Ok a' -> a := a' | _ -> ()); unit_s o in
    let rdr f show : string =
      let (o, p) = f !a !rpos in rpos := p; show o ^ " pos:" ^ dec_of_n p in
    let wtr (r : (unit outcome * archive) * coq_N) : string =
      let ((o, a'), p) = r in a := a'; wpos := p; unit_s o ^ " pos:" ^ dec_of_n p in
    let rec go = function
      | [] -> ()
      | op :: rest ->
        let arg k = List.nth rest (k - 1) in
        let n k = n_of_dec (arg k) in
        let (res, used) =
          match op with
          | "from" ->
            (match BinFormat.from_bytes endian (parse_b (arg 1)) with
             | Ok x -> a := x; ("ok", 1)
             | Err e -> (err_kind e, 1)
             | Panic _ -> ("PANIC", 1))
          | "lvl" -> level := int_of_string (arg 1); ("ok", 1)
          (* harness: ends a run of stream operations served by one reader / writer object; the model has no object identity *)
          | "fresh" -> ("ok", 0)
          | "aae" -> a := allocate_at_end !a (n 1); ("ok", 1)
          | "al" -> (upd (allocate !a (n 1) (n 2) (bool_of (arg 3))), 3)
          | "de" -> (upd (deallocate !a (n 1) (n 2) (bool_of (arg 3))), 3)
          | "tr" -> (upd (truncate !a (n 1)), 1)
          | "wu8" -> (upd (write_u8 !a (n 1) (n 2)), 2)
          | "wi8" -> (upd (write_i8 !a (n 1) (z_of_dec (arg 2))), 2)
          | "wu16" -> (upd (write_u16 !a (n 1) (n 2)), 2)
          | "wi16" -> (upd (write_i16 !a (n 1) (z_of_dec (arg 2))), 2)
          | "wu32" -> (upd (write_u32 !a (n 1) (n 2)), 2)
          | "wi32" -> (upd (write_i32 !a (n 1) (z_of_dec (arg 2))), 2)
          | "wf32" -> (upd (write_f32 !a (n 1) (n 2)), 2)
          | "wb" -> (upd (write_bytes !a (n 1) (parse_b (arg 2))), 2)
          | "ru8" -> (num_s (read_u8 !a (n 1)), 1)
          | "ri8" -> (z_s (read_i8 !a (n 1)), 1)
          | "ru16" -> (num_s (read_u16 !a (n 1)), 1)
          | "ri16" -> (z_s (read_i16 !a (n 1)), 1)
          | "ru32" -> (num_s (read_u32 !a (n 1)), 1)
          | "ri32" -> (z_s (read_i32 !a (n 1)), 1)
          | "rf32" -> (num_s (read_f32 !a (n 1)), 1)
          | "rb" -> (out_str (fun b -> "ok:" ^ show_b b) (read_bytes !a (n 1) (n 2)), 2)
          | "ws" -> (upd (write_string !a (n 1) (Some (parse_b (arg 2)))), 2)
          | "ws0" -> (upd (write_string !a (n 1) None), 1)
          | "wp" -> (upd (write_pointer !a (n 1) (Some (n 2))), 2)
          | "wp0" -> (upd (write_pointer !a (n 1) None), 1)
          | "wl" -> (upd (write_label !a (n 1) (parse_b (arg 2))), 2)
          | "wls" ->
            let cnt = int_of_string (arg 2) in
            let v = List.init cnt (fun k -> parse_b (arg (3 + k))) in
            (upd (write_labels !a (n 1) v), 2 + cnt)
          | "wc" -> (upd (write_c_string !a (n 1) (parse_b (arg 2))), 2)
          | "rs" -> (optstr_s (read_string !a (n 1)), 1)
          | "rp" -> (optnum_s (read_pointer !a (n 1)), 1)
          | "rl" -> (optlabels_s (read_labels !a (n 1)), 1)
          | "rc" -> (optstr_s (read_c_string !a (n 1)), 1)
          | "ds" -> (upd (delete_string !a (n 1)), 1)
          | "dp" -> (upd (delete_pointer !a (n 1)), 1)
          | "dls" -> (upd (delete_labels !a (n 1)), 1)
          | "dl" -> (upd (delete_label !a (n 1) (n 2)), 2)
          | "fl" ->
            ((match find_label_address !a (parse_b (arg 1)) with
                | Some x -> "some:" ^ dec_of_n x
                | None -> "none"), 1)
          | "ser" ->
            ((match BinFormat.serialize_k name_key Checked !a with
                | Ok b -> "ok:" ^ show_b b
                | Err _ -> "err:other"
                | Panic _ -> "PANIC"), 0)
          | "Rseek" -> rpos := n 1; ("pos:" ^ dec_of_n !rpos, 1)
          | "Rskip" -> rpos := BinNat.N.add !rpos (n 1); ("pos:" ^ dec_of_n !rpos, 1)
          | "Rru8" -> (rdr BinStreams.r_read_u8 num_s, 0)
          | "Rri8" -> (rdr BinStreams.r_read_i8 z_s, 0)
          | "Rru16" -> (rdr BinStreams.r_read_u16 num_s, 0)
          | "Rri16" -> (rdr BinStreams.r_read_i16 z_s, 0)
          | "Rru32" -> (rdr BinStreams.r_read_u32 num_s, 0)
          | "Rri32" -> (rdr BinStreams.r_read_i32 z_s, 0)
          | "Rrf32" -> (rdr BinStreams.r_read_f32 num_s, 0)
          | "Rrb" ->
            let cnt = n 1 in
            (rdr (fun a p -> BinStreams.r_read_bytes a p cnt) (out_str (fun b -> "ok:" ^ show_b b)), 1)
          | "Rrs" -> (rdr BinStreams.r_read_string optstr_s, 0)
          | "Rrp" -> (rdr BinStreams.r_read_pointer optnum_s, 0)
          | "Rrc" -> (rdr BinStreams.r_read_c_string optstr_s, 0)
          | "Rrls" -> (rdr BinStreams.r_read_labels optlabels_s, 0)
          | "Rrl" ->
            let idx = n 1 in
            (rdr (fun a p -> BinStreams.r_read_label a p idx) optstr_s, 1)
          | "Wseek" -> wpos := n 1; ("pos:" ^ dec_of_n !wpos, 1)
          | "Wskip" -> wpos := BinNat.N.add !wpos (n 1); ("pos:" ^ dec_of_n !wpos, 1)
          | "Wal" -> (wtr (BinStreams.w_allocate !a !wpos (n 1) (bool_of (arg 2))), 2)
          | "Waae" -> a := allocate_at_end !a (n 1); ("ok pos:" ^ dec_of_n !wpos, 1)
          | "Wwu8" -> (wtr (BinStreams.w_write_u8 !a !wpos (n 1)), 1)
          | "Wwi8" -> (wtr (BinStreams.w_write_i8 !a !wpos (z_of_dec (arg 1))), 1)
          | "Wwu16" -> (wtr (BinStreams.w_write_u16 !a !wpos (n 1)), 1)
          | "Wwi16" -> (wtr (BinStreams.w_write_i16 !a !wpos (z_of_dec (arg 1))), 1)
          | "Wwu32" -> (wtr (BinStreams.w_write_u32 !a !wpos (n 1)), 1)
          | "Wwi32" -> (wtr (BinStreams.w_write_i32 !a !wpos (z_of_dec (arg 1))), 1)
          | "Wwf32" -> (wtr (BinStreams.w_write_f32 !a !wpos (n 1)), 1)
          | "Wwb" -> (wtr (BinStreams.w_write_bytes !a !wpos (parse_b (arg 1))), 1)
          | "Wws" -> (wtr (BinStreams.w_write_string !a !wpos (Some (parse_b (arg 1)))), 1)
          | "Wws0" -> (wtr (BinStreams.w_write_string !a !wpos None), 0)
          | "Wwp" -> (wtr (BinStreams.w_write_pointer !a !wpos (Some (n 1))), 1)
          | "Wwp0" -> (wtr (BinStreams.w_write_pointer !a !wpos None), 0)
          | "Wwl" -> (wtr (BinStreams.w_write_label !a !wpos (parse_b (arg 1))), 1)
          | "Wwc" -> (wtr (BinStreams.w_write_c_string !a !wpos (parse_b (arg 1))), 1)
          | x -> failwith ("ba: bad op " ^ x)
        in
        acc := (res ^ state !a !level) :: !acc;
        let rec drop k l = if k = 0 then l else drop (k - 1) (List.tl l) in
        go (drop used rest)
    in
    go ops;
    String.concat " ; " (List.rev !acc)
  | _ -> failwith "ba: bad case"

let () = register "ba" ba
