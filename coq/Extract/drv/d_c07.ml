open Dcommon
open TextMap
module List = Stdlib.List
module String = Stdlib.String

(* ---------------- C07: text archive in-memory API ---------------- *)
let c07_state (t : tmap) : string =
  let es = List.map (fun (k, v) -> show_l k ^ "=" ^ show_l v) t.t_entries in
  (if t.t_dirty then "d1" else "d0") ^ " " ^ show_l t.t_title ^ " [" ^ String.concat " " es ^ "]"
let c07 (toks : string list) : string =
  let rec go t toks acc =
    match toks with
    | [] -> List.rev acc
    | "S" :: k :: m :: r -> let (t', _) = tm_step t (TSet (parse_l k, parse_l m)) in go t' r (("- " ^ c07_state t') :: acc)
    | "N" :: c :: k :: m :: r ->
      (* the same set repeated: count given as L<n> *)
      let n = int_of_string (String.sub c 1 (String.length c - 1)) in
      let op = TSet (parse_l k, parse_l m) in
      let t' = ref t in
      for _ = 1 to n do t' := fst (tm_step !t' op) done;
      go !t' r (("- " ^ c07_state !t') :: acc)
    | "D" :: k :: r -> let (t', _) = tm_step t (TDel (parse_l k)) in go t' r (("- " ^ c07_state t') :: acc)
    | "T" :: s :: r -> let (t', _) = tm_step t (TTitle (parse_l s)) in go t' r (("- " ^ c07_state t') :: acc)
    | "H" :: k :: r ->
      let (t', o) = tm_step t (THas (parse_l k)) in
      let s = (match o with OBool true -> "true" | OBool false -> "false" | _ -> "?") in
      go t' r ((s ^ " " ^ c07_state t') :: acc)
    | "G" :: k :: r ->
      let (t', o) = tm_step t (TGet (parse_l k)) in
      let s = (match o with OStr (Some v) -> "some:" ^ show_l v | OStr None -> "none" | _ -> "?") in
      go t' r ((s ^ " " ^ c07_state t') :: acc)
    | "R" :: k :: r ->
      let k = parse_l k in
      (match tm_get t k with
       | Some v -> let (t', _) = tm_step t (TSet (k, v)) in go t' r (("some:" ^ show_l v ^ " " ^ c07_state t') :: acc)
       | None -> go t r (("none " ^ c07_state t) :: acc))
    | x :: _ -> failwith ("c07: bad token " ^ x)
  in
  String.concat " ; " (go tm_new toks [])


let () = register "c07" c07
