(* Model side of kind "typedfs" (C12, typed helpers end to end); mirrors harness/src/k_typedfs.rs.
   Nothing is fed in as data here: the compression codec, the parsers and the serializers are the extracted
   models themselves (Model/FsTyped.v: typed_step), so every printed value and every stored file is what
   the composition "byte-level read / write + configured codec + parser / serializer" of the model produces.
   Both arithmetic profiles are evaluated: "<checked>" when they agree, "<checked> || <wrapping>" otherwise. *)
open Dcommon
open LayeredFS
open FsTyped
module List = Stdlib.List
module String = Stdlib.String

let shex (l : n list) : string = "S" ^ D_fs.hex l

let parse_err (which : string) (e : Machine.ekind) : string =
  let strip s = String.sub s 4 (String.length s - 4) in
  "err:parse:" ^
  (match which with
   | "bin" | "text" -> strip (D_txt.terr e)
   | "arc" -> strip (D_arc.arcerr e)
   | "pack" -> (match e with
       | Machine.EIo -> "io" | Machine.EUnterminated -> "unterminated" | Machine.ETooSmall -> "toosmall"
       | Machine.EDecoding -> "decoding" | _ -> "other")
   | _ -> (match e with Machine.EBadMagic -> "badmagic" | _ -> "texture"))

let show_fres (which : string) (f : 'a -> string) (r : 'a fres) : string =
  match r with
  | FOk a -> f a
  | FErr (EParse e) -> parse_err which e
  | FErr e -> D_fs.show_err e
  | FPanic _ -> "panic"

let show_archive (a : BinArchive.archive) : string =
  let open BinArchive in
  let sz = size a in
  let visible k = D_ba.n_le (BinNat.N.add k D_ba.n4) sz in
  let t = List.filter (fun (k, _) -> visible k) a.a_text |> List.sort (fun (x, _) (y, _) -> D_ba.n_cmp x y) in
  let p = List.filter (fun (k, _) -> visible k) a.a_ptrs |> List.sort (fun (x, _) (y, _) -> D_ba.n_cmp x y) in
  let ts = String.concat "," (List.map (fun (k, s) -> dec_of_n k ^ ":" ^ shex s) t) in
  let ps = String.concat "," (List.map (fun (k, v) -> dec_of_n k ^ ":" ^ dec_of_n v) p) in
  let rec group acc cur = function
    | [] -> List.rev (match cur with None -> acc | Some (k, names) -> (k, List.rev names) :: acc)
    | (k, name) :: r ->
      (match cur with
       | Some (k', names) when D_ba.n_cmp k k' = 0 -> group acc (Some (k', name :: names)) r
       | Some (k', names) -> group ((k', List.rev names) :: acc) (Some (k, [name])) r
       | None -> group acc (Some (k, [name])) r) in
  let ls = group [] None (all_labels a) in
  let lss = String.concat "," (List.map (fun (k, names) -> dec_of_n k ^ ":" ^ String.concat "|" (List.map shex names)) ls) in
  Printf.sprintf "ok sz=%s d=%s t=[%s] p=[%s] l=[%s]" (dec_of_n sz) (show_b a.a_data) ts ps lss

let show_text (ta : text_archive) : string =
  let t = ta.ta_map in
  let msg m = (match ta.ta_fmt with TextFormat.Unicode -> show_l m | TextFormat.ShiftJIS -> shex m) in
  let es = List.map (fun (k, v) -> shex k ^ "=" ^ msg v) t.TextMap.t_entries in
  Printf.sprintf "ok d%d T=%s [%s]" (if t.TextMap.t_dirty then 1 else 0) (shex t.TextMap.t_title) (String.concat " " es)

let show_files (sort : bool) (fl : (n list * n list) list) : string =
  let es = List.map (fun (k, b) -> shex k ^ "=" ^ show_b b) fl in
  let es = if sort then List.sort compare es else es in
  "ok [" ^ String.concat " " es ^ "]"

let show_textures (x : textures) : string =
  let one (t : TexCommon.texture) =
    shex t.TexCommon.x_name ^ "," ^ dec_of_n t.TexCommon.x_w ^ "," ^ dec_of_n t.TexCommon.x_h ^ "," ^ show_b t.TexCommon.x_px in
  let keyed (k, (t : TexCommon.texture)) =
    (* the KEY is printed as the name (it is the texture's own name in the model: tex_map) *)
    (if k = t.TexCommon.x_name then shex k else shex k ^ "!" ^ shex t.TexCommon.x_name)
    ^ "," ^ dec_of_n t.TexCommon.x_w ^ "," ^ dec_of_n t.TexCommon.x_h ^ "," ^ show_b t.TexCommon.x_px in
  let es = (match x with
      | TexVec l -> List.map one l
      | TexMap m -> List.sort compare (List.map keyed m)) in
  "ok " ^ string_of_int (List.length es) ^ " [" ^ String.concat " " es ^ "]"

let show_tobs (which : string) (o : tobs) : string =
  match o with
  | OBytes r -> show_fres which (fun b -> "ok:" ^ D_fs.hex b) r
  | OUnit r -> show_fres which (fun () -> "ok") r
  | OArchive r -> show_fres "bin" show_archive r
  | OText r -> show_fres "text" show_text r
  | OFiles r -> show_fres which (show_files (which = "arc")) r
  | OTextures r -> show_fres "tex" show_textures r

let endian_of t = if t = "be" then Bytes.BE else Bytes.LE
let tfmt_of t = if t = "sjis" then ShiftJIS else Unicode

let run_mode (m : Machine.mode) (toks : string list) : string =
  (* the header is the one of kind fs (the codec table is empty and ignored) *)
  let su = D_fs.fs_setup toks in
  match su.D_fs.st with
  | FErr e -> "new:" ^ D_fs.show_err e ^ " @ " ^ String.concat " & " (List.map D_fs.walk_layer su.D_fs.init)
  | FPanic _ -> "new:panic"
  | FOk s0 ->
    let first = D_fs.walk_all s0 in
    let loc t = (t = "1") in
    let rec go s last toks acc =
      let emit s' ret r =
        let w = D_fs.walk_all s' in
        if w = last then go s' last r ((ret ^ " @ =") :: acc)
        else go s' w r ((ret ^ " @ " ^ w) :: acc) in
      let step which o r =
        let (s', v) = typed_step name_key m m s o in
        emit s' (show_tobs which v) r in
      match toks with
      | [] -> List.rev acc
      | "R" :: l :: p :: r -> step "" (TRead (parse_l p, loc l)) r
      | "W" :: l :: p :: b :: r -> step "" (TWrite (parse_l p, parse_b b, loc l)) r
      | "TA" :: l :: p :: r -> step "bin" (TReadArchive (parse_l p, loc l)) r
      | "TT" :: l :: p :: r -> step "text" (TReadText (parse_l p, loc l)) r
      | "TR" :: l :: p :: k :: r ->
        (match int_of_string k with
         | 0 -> step "arc" (TReadArc (parse_l p, loc l)) r
         | 1 -> step "pack" (TReadFe9Arc (parse_l p, loc l)) r
         | k -> step "tex" (TReadTextures (n_of_int (k - 2), parse_l p, loc l)) r)
      | "WA" :: l :: p :: e :: file :: r ->
        (match parse_bin (endian_of e) (parse_b file) with
         | Machine.Ok a -> step "" (TWriteArchive (parse_l p, a, loc l)) r
         | _ -> emit s "BAD-ARCHIVE" r)
      | "WT" :: l :: p :: f :: e :: file :: r ->
        (match parse_text (tfmt_of f) (endian_of e) (parse_b file) with
         | Machine.Ok a -> step "" (TWriteText (parse_l p, a, loc l)) r
         | _ -> emit s "BAD-ARCHIVE" r)
      | x :: _ -> failwith ("typedfs: bad token " ^ x) in
    String.concat " ; " (go s0 first su.D_fs.rest [("new:ok @ " ^ first)])

let typedfs (toks : string list) : string =
  let c = run_mode Machine.Checked toks in
  let w = run_mode Machine.Wrapping toks in
  if c = w then c else c ^ " || " ^ w

let () = register "typedfs" typedfs
