(* Model side of kind arc (C16, arc part of C05); mirrors harness/src/k_arc.rs.  Prints the raw
   (name, body) trace in record order; gen/txtfile.py decodes the names with the harness' decoder,
   applies HashMap insertion (last record wins) and sorts, before comparing. *)
open Dcommon
open Machine
module List = Stdlib.List
module String = Stdlib.String

let arcerr (e : ekind) : string =
  match e with
  | ENoCount -> "err:nocount"
  | ENoInfo -> "err:noinfo"
  | EMissingName -> "err:missingname"
  | EOob -> "err:oob"
  | EUnaligned -> "err:unaligned"
  | ETooSmall -> "err:toosmall"
  | EUnterminated -> "err:unterminated"
  | EIo -> "err:io"
  | EOutOfFuel -> "MODEL-OUT-OF-FUEL"
  | _ -> "err:other"

(* arc B<file>   (both arithmetic modes are evaluated; they must agree - the repaired code has no
   profile-dependent arithmetic - otherwise both are printed) *)
let arc (toks : string list) : string =
  match toks with
  | file :: _ ->      (* further tokens carry the generator's expectation for the oracle *)
    let f = parse_b file in
    let show m =
      (match Arc.arc_from_bytes_trace m f with
       | Ok tr -> "ok [" ^ String.concat " " (List.map (fun (k, b) -> show_b k ^ "=" ^ show_b b) tr) ^ "]"
       | Err e -> arcerr e
       | Panic _ -> "PANIC") in
    let c = show Checked and w = show Wrapping in
    if c = w then c else "MODES-DIFFER checked:" ^ c ^ " wrapping:" ^ w
  | _ -> failwith "arc: bad case"

let () = register "arc" arc
(* arca: same model output; the harness appends the measured allocation, the model requests no field-sized buffer
   (Proofs/ArcTotal.v arc_body_never_longer_than_data) *)
let () = register "arca" arc
