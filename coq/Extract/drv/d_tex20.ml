open Dcommon
module List = Stdlib.List
module String = Stdlib.String

(* ---------------- C20: texture containers (same line formats as harness/src/h_tex.rs) ----------------
     <kind> ref B<file> <n> {B<name> <w> <h> <fmt> B<data> B<pal>}*   verified checker conforms_<kind>b + read
     <kind> full B<file>                                              read
     <kind> cut B<file> [<lo> <hi>]                                   read of every prefix, run-length encoded classes
   The model is run in both arithmetic modes: "<checked>" when they agree, "<checked> || <wrapping>" otherwise. *)
let hexs (l : n list) : string =
  let b = Buffer.create (2 * List.length l + 1) in
  List.iter (fun x -> Buffer.add_string b (Printf.sprintf "%02x" (int_of_n x))) l;
  Buffer.contents b

let fnv32 (s : string) : int =
  let h = ref 0x811c9dc5 in
  String.iter (fun c -> h := ((!h lxor (Char.code c)) * 16777619) land 0xFFFFFFFF) s;
  !h

let show (o : TexCommon.texture list Machine.outcome) : string =
  match o with
  | Machine.Ok ts ->
    "ok " ^ string_of_int (List.length ts) ^
    String.concat "" (List.map (fun (t : TexCommon.texture) ->
        " " ^ hexs t.TexCommon.x_name ^ "," ^ dec_of_n t.TexCommon.x_w ^ "," ^ dec_of_n t.TexCommon.x_h ^ "," ^ show_b t.TexCommon.x_px) ts)
  | Machine.Err Machine.EBadMagic -> "err badmagic"
  | Machine.Err _ -> "err"
  | Machine.Panic _ -> "PANIC"

let rec texs_of (toks : string list) : TexCommon.tex list =
  match toks with
  | [] -> []
  | nm :: w :: h :: fmt :: d :: p :: r ->
    { TexCommon.t_name = parse_b nm; t_w = n_of_dec w; t_h = n_of_dec h; t_fmt = n_of_dec fmt;
      t_data = parse_b d; t_pal = parse_b p } :: texs_of r
  | _ -> failwith "tex20: bad texture tokens"

let rec take (k : int) (l : 'a list) : 'a list =
  if k <= 0 then [] else match l with [] -> [] | x :: r -> x :: take (k - 1) r

let cls (s : string) : string =
  if s = "err" then "E" else if s = "err badmagic" then "M" else if s = "PANIC" then "P"
  else Printf.sprintf "O%08x" (fnv32 s)

let rle (syms : string list) : string =
  let rec go acc cur cnt = function
    | [] -> List.rev (if cnt > 0 then (cur, cnt) :: acc else acc)
    | s :: r -> if cnt > 0 && s = cur then go acc cur (cnt + 1) r
      else go (if cnt > 0 then (cur, cnt) :: acc else acc) s 1 r in
  String.concat " " (List.map (fun (s, c) -> s ^ "x" ^ string_of_int c) (go [] "" 0 syms))

let run_kind (read : Machine.mode -> n list -> TexCommon.texture list Machine.outcome)
    (chk : n list -> TexCommon.tex list -> bool) (toks : string list) : string =
  let one (m : Machine.mode) : string =
    match toks with
    | "ref" :: file :: _n :: rest ->
      let f = parse_b file in
      let texs = texs_of rest in
      (* the list-based decoders are quadratic: textures above 4096 pixels are left to the implementation + oracle *)
      if List.exists (fun (t : TexCommon.tex) -> int_of_n t.TexCommon.t_w * int_of_n t.TexCommon.t_h > 4096) texs then "skip"
      else
      let c = if chk f texs then "1" else "0" in
      "conforms=" ^ c ^ " " ^ show (read m f)
    | ["full"; file] -> show (read m (parse_b file))
    | "cut" :: file :: rest ->
      let f = parse_b file in
      let len = List.length f in
      let (lo, hi) = (match rest with a :: b :: _ -> (int_of_string a, int_of_string b) | _ -> (0, len)) in
      let hi = min hi (len + 1) in
      let rec ks k = if k >= hi then [] else k :: ks (k + 1) in
      rle (List.map (fun k -> cls (show (read m (take k f)))) (ks lo))
    | _ -> failwith "tex20: bad case" in
  let c = one Machine.Checked in
  let w = one Machine.Wrapping in
  if c = w then c else c ^ " || " ^ w

(* `f32 <fmt> <w> <h>`: the reader asks for payload_size32 bytes; the file holds payload_size + d bytes, d = -2..2
   (formats 10 / 11: the decoder never reads the data, so the outcome is decided by read_exact alone; see h_tex.rs) *)
let f32_probe (toks : string list) : string =
  match toks with
  | [fmt; w; h] when fmt = "10" || fmt = "11" ->
    let (fmt, w, h) = (n_of_dec fmt, n_of_dec w, n_of_dec h) in
    let r = int_of_n (TexCommon.payload_size32 fmt w h) in
    let t = int_of_n (Pixel.payload_size fmt w h) in
    String.concat "" (List.map (fun d -> if r <= max 0 (t + d) then "O" else "E") [-2; -1; 0; 1; 2])
  | _ -> "unmodelled"
let with_f32 (f : string list -> string) (toks : string list) : string =
  match toks with "f32" :: rest -> f32_probe rest | _ -> f toks

(* A-codec table check: bitmap of sjis_encoded over all single bytes and all two-byte strings (see k_ctpk.rs) *)
let codec_bitmap () : string =
  let b = Buffer.create 17000 in
  let cur = ref 0 and cnt = ref 0 in
  let push (x : bool) =
    cur := (!cur lsl 1) lor (if x then 1 else 0); incr cnt;
    if !cnt = 4 then (Buffer.add_string b (Printf.sprintf "%x" !cur); cur := 0; cnt := 0) in
  for x = 0 to 255 do push (TexCommon.sjis_encoded [n_of_int x]) done;
  for l = 0 to 255 do for t = 0 to 255 do push (TexCommon.sjis_encoded [n_of_int l; n_of_int t]) done done;
  Buffer.contents b

let () = register "ctpk" (fun toks -> match toks with ["codec"] -> codec_bitmap () | "f32" :: rest -> f32_probe rest
                                          | _ -> run_kind Ctpk.read_ctpk TexFormat.conforms_ctpkb toks)
let () = register "bch" (with_f32 (run_kind Bch.read_bch TexFormat.conforms_bchb))
let () = register "cgfx" (run_kind Cgfx.read_cgfx TexFormat.conforms_cgfxb)
let () = register "tpl" (run_kind Tpl.read_tpl TexFormat.conforms_tplb)
