(* main loop of the model driver: one case per line on stdin, one result line per case *)
module List = Stdlib.List
module String = Stdlib.String

let handle (line : string) : string =
  match List.filter (fun s -> s <> "") (String.split_on_char ' ' line) with
  | [] -> ""
  | k :: r ->
    (match Hashtbl.find_opt Dcommon.handlers k with
     | Some f -> f (Dcommon.strip_keys r)
     | None -> "UNKNOWN-KIND " ^ k)

let () =
  try
    while true do
      let line = input_line stdin in
      let out = (try handle line with e -> "MODEL-EXN " ^ Printexc.to_string e) in
      print_string out; print_newline ()
    done
  with End_of_file -> ()
