open Dcommon
module List = Stdlib.List
module String = Stdlib.String

(* ---------------- C14: localisation ---------------- *)
let game_of_int = Localize.(function 0 -> GNoOp | 1 -> GFE9 | 2 -> GFE10 | 3 -> GFE13 | 4 -> GFE14 | _ -> GFE15)
let lang_of_int = Localize.(function 0 -> EnglishNA | 1 -> EnglishEU | 2 -> Japanese | 3 -> Spanish | 4 -> French
                         | 5 -> Italian | 6 -> German | _ -> Dutch)
let c14 (toks : string list) : string =
  match toks with
  | [g; l; p] ->
    (match Localize.localize (game_of_int (int_of_string g)) (lang_of_int (int_of_string l)) (parse_l p) with
     | Localize.LOk s -> "ok " ^ show_l s
     | Localize.LErr Localize.LMissingParent -> "err missing-parent"
     | Localize.LErr Localize.LMissingFileName -> "err missing-file-name"
     | Localize.LErr Localize.LUnsupportedLanguage -> "err unsupported-language"
     | Localize.LPanic -> "PANIC"            (* to_str().unwrap(): what harness/src/main.rs prints for a caught panic *)
     | Localize.LUnmodelled -> "unmodelled")
  | _ -> failwith "c14: bad case"


let () = register "c14" c14
