open Dcommon
module List = Stdlib.List
module String = Stdlib.String

(* ---------------- C19: pixel decoding ---------------- *)
let show_out (o : n list Machine.outcome) : string =
  match o with
  | Machine.Ok b -> "ok " ^ show_b b
  | Machine.Err _ -> "err"
  | Machine.Panic _ -> "PANIC"

let modes = [Machine.Checked; Machine.Wrapping]
(* the model is run in both arithmetic modes; they must agree (the implementation is run in both profiles) *)
let both (f : Machine.mode -> n list Machine.outcome) : string =
  let a = show_out (f Machine.Checked) in
  let b = show_out (f Machine.Wrapping) in
  if a = b then a else "MODE-DEPENDENT checked=" ^ a ^ " wrapping=" ^ b

let show_cf (r : ColorFormat.cf_res) : string =
  match r with
  | ColorFormat.CfOk b -> "ok " ^ show_b b
  | ColorFormat.CfErr ColorFormat.UnsupportedFormat -> "err UnsupportedFormat"
  | ColorFormat.CfErr ColorFormat.UnalignedData -> "err UnalignedData"
  | ColorFormat.CfErr ColorFormat.NotIndexed -> "err NotIndexed"
  | ColorFormat.CfErr ColorFormat.NoPalette -> "err NoPalette"
  | ColorFormat.CfErr ColorFormat.OutOfBoundsIndex -> "err OutOfBoundsIndex"

let c19 (toks : string list) : string =
  match toks with
  | ["cfdec"; f; d] -> show_cf (ColorFormat.cf_decode (n_of_int (int_of_string f)) (parse_b d))
  | ["cfidx"; f; d; p] -> show_cf (ColorFormat.cf_decode_indexed (n_of_int (int_of_string f)) (parse_b d) (parse_b p))
  | ["color"; fmt; w; h; p] ->
    both (fun m -> Etc1.decode_pixel_data m (parse_b p) (n_of_int (int_of_string w)) (n_of_int (int_of_string h))
                     (n_of_int (int_of_string fmt)))
  | ["etc"; a; w; h; p] ->
    both (fun m -> Etc1.etc1_decode m (parse_b p) (n_of_int (int_of_string w)) (n_of_int (int_of_string h)) (a = "1"))
  | ["rgb5a3"; d] ->
    (match Pixel.rgb5a3_decode (parse_b d) with
     | Machine.Ok px -> "ok " ^ show_b (Pixel.flatten px)
     | Machine.Err _ -> "err"
     | Machine.Panic _ -> "PANIC")
  | ["idx"; d; p] -> show_out (Pixel.decode_indexed_ci8 (parse_b d) (parse_b p))
  | ["pal"; w; h; img; pal] ->
    show_out (Pixel.tpl_ci8_image (parse_b pal) (parse_b img) (n_of_int (int_of_string w)) (n_of_int (int_of_string h)))
  | ("bigcolor" | "bigetc" | "bigpal") :: _ -> "skip"
  | _ -> failwith "c19: bad case"

let () = register "c19" c19
