open Dcommon
module List = Stdlib.List
module String = Stdlib.String

(* ---------------- C19: pixel decoding ---------------- *)
let show_out (o : n list Machine.outcome) : string =
  match o with
  | Machine.Ok b -> "ok " ^ show_b b
  | Machine.Err _ -> "err"
  | Machine.Panic _ -> "PANIC"

let modes = [Machine.Checked; Machine.Wrapping]
(* the model is run in both arithmetic modes; they must agree (the implementation is run in both profiles) *)
let both (f : Machine.mode -> n list Machine.outcome) : string =
  let a = show_out (f Machine.Checked) in
  let b = show_out (f Machine.Wrapping) in
  if a = b then a else "MODE-DEPENDENT checked=" ^ a ^ " wrapping=" ^ b

let show_cf (r : ColorFormat.cf_res) : string =
  match r with
  | ColorFormat.CfOk b -> "ok " ^ show_b b
  | ColorFormat.CfErr ColorFormat.UnsupportedFormat -> "err UnsupportedFormat"
  | ColorFormat.CfErr ColorFormat.UnalignedData -> "err UnalignedData"
  | ColorFormat.CfErr ColorFormat.NotIndexed -> "err NotIndexed"
  | ColorFormat.CfErr ColorFormat.NoPalette -> "err NoPalette"
  | ColorFormat.CfErr ColorFormat.OutOfBoundsIndex -> "err OutOfBoundsIndex"

let c19 (toks : string list) : string =
  match toks with
  | ["cfdec"; f; d] -> show_cf (ColorFormat.cf_decode (n_of_int (int_of_string f)) (parse_b d))
  | ["cfidx"; f; d; p] -> show_cf (ColorFormat.cf_decode_indexed (n_of_int (int_of_string f)) (parse_b d) (parse_b p))
  | ["color"; fmt; w; h; p] ->
    (* the MODED model (every machine operation in the Machine monad), run in both modes *)
    both (fun m -> Etc1M.decode_pixel_data_m m (parse_b p) (n_of_int (int_of_string w)) (n_of_int (int_of_string h))
                     (n_of_int (int_of_string fmt)))
  | ["etc"; a; w; h; p] ->
    both (fun m -> Etc1M.etc1_decode_m m (parse_b p) (n_of_int (int_of_string w)) (n_of_int (int_of_string h)) (a = "1"))
  | ["rgb5a3"; d] ->
    both (fun m -> match PixelM.rgb5a3_decode_m m (parse_b d) with
                   | Machine.Ok px -> Machine.Ok (Pixel.flatten px)
                   | Machine.Err e -> Machine.Err e
                   | Machine.Panic p -> Machine.Panic p)
  | ["idx"; d; p] -> show_out (Pixel.decode_indexed_ci8 (parse_b d) (parse_b p))
  | ["pal"; w; h; img; pal] ->
    both (fun m -> PixelM.tpl_ci8_image_m m (parse_b pal) (parse_b img) (n_of_int (int_of_string w)) (n_of_int (int_of_string h)))
  | ["ctpkprobe"; fmt; w; h; len] ->
    (* the integer model of the binary32 size product, formats 10 / 11 only *)
    if fmt = "10" || fmt = "11" then
      (match PixelM.ctpk_probe (n_of_int (int_of_string fmt)) (n_of_int (int_of_string w)) (n_of_int (int_of_string h)) (n_of_int (int_of_string len)) with
       | Some n -> "ok " ^ dec_of_n n
       | None -> "err")
    else "skip"
  | ("bigcolor" | "bigetc" | "bigpal") :: _ -> "skip"
  | _ -> failwith "c19: bad case"

let () = register "c19" c19
