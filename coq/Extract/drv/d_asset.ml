(* Model side of kind "asset" (asset binary, C18 / C05); mirrors harness/src/k_asset.rs.
     asset v <flags> <nspecs> { <smask> B.. <umask> L<18 values> }*     build the value, serialize, parse back, re-serialize
     asset p B<file bytes>                                              parse arbitrary bytes, re-serialize what was accepted
   smask: bit 0 = name present, bit i (1..33) = i-th optional string present; one B token per set bit, ascending.
   umask: bit j = use flag of the j-th typed field; L = the 18 values (32-bit patterns), always all of them. *)
open Dcommon
open BinNums
open Machine
module List = Stdlib.List
module String = Stdlib.String

exception Asset_panic

let build_list (n : int) (f : int -> 'a) : 'a list =
  let rec go i acc = if i = n then List.rev acc else go (i + 1) (f i :: acc) in go 0 []

let parse_spec (toks : string list ref) : AssetBin.spec =
  let next () = match !toks with t :: r -> toks := r; t | [] -> failwith "asset: short case" in
  let sm = int_of_string (next ()) in
  let present i = (sm lsr i) land 1 = 1 in
  let name = if present 0 then Some (parse_b (next ())) else None in
  let strs = build_list 33 (fun i -> if present (i + 1) then Some (parse_b (next ())) else None) in
  let um = int_of_string (next ()) in
  let vals = parse_l (next ()) in
  let typed = List.mapi (fun j v -> ((um lsr j) land 1 = 1, v)) vals in
  { AssetBin.sp_name = name; sp_strs = strs; sp_typed = typed }

let show_spec (sp : AssetBin.spec) : string =
  let sm = ref 0 in
  let bs = ref [] in
  (match sp.AssetBin.sp_name with Some s -> sm := 1; bs := [show_b s] | None -> ());
  List.iteri (fun i o -> match o with Some s -> sm := !sm lor (1 lsl (i + 1)); bs := show_b s :: !bs | None -> ()) sp.AssetBin.sp_strs;
  let um = ref 0 in
  List.iteri (fun j (u, _) -> if u then um := !um lor (1 lsl j)) sp.AssetBin.sp_typed;
  String.concat " " ([string_of_int !sm] @ List.rev !bs @ [string_of_int !um; show_l (List.map snd sp.AssetBin.sp_typed)])

let show_ab (b : AssetBin.asset_binary) : string =
  String.concat " " ([dec_of_n b.AssetBin.ab_flags; string_of_int (List.length b.AssetBin.ab_specs)]
                     @ List.map show_spec b.AssetBin.ab_specs)

let ser_s (b : AssetBin.asset_binary) : string =
  match AssetBin.serialize Checked b with
  | Ok f -> show_b f
  | Err _ -> "err"
  | Panic _ -> raise Asset_panic

(* parse, print the value, re-serialize *)
let parse_s (f : coq_N list) : string =
  match AssetBin.parse f with
  | Ok b -> "re=ok:" ^ show_ab b ^ " | ser2=" ^ ser_s b
  | Err _ -> "re=err"
  | Panic _ -> raise Asset_panic

let asset (toks : string list) : string =
  try
    match toks with
    | "v" :: fl :: n :: rest ->
      let r = ref rest in
      let specs = build_list (int_of_string n) (fun _ -> parse_spec r) in
      let b = { AssetBin.ab_flags = n_of_dec fl; ab_specs = specs } in
      (match AssetBin.serialize Checked b with
       | Ok f -> "ser=" ^ show_b f ^ " | " ^ parse_s f
       | Err _ -> "ser=err"
       | Panic _ -> raise Asset_panic)
    | [ "p"; bytes ] -> parse_s (parse_b bytes)
    | [ "q"; bytes ] -> parse_s (parse_b bytes)      (* as p; the harness appends the measured allocation (no field-sized buffer in the model) *)
    | _ -> failwith "asset: bad case"
  with Asset_panic -> "PANIC"

let () = register "asset" asset
