(* Model side of kind "bafrom" (C05, bin-archive part); mirrors harness/src/k_bafrom.rs (no maxalloc token). *)
open Dcommon
open Machine
module List = Stdlib.List
module String = Stdlib.String

let bafrom (toks : string list) : string =
  match toks with
  | [e; b] ->
    let endian = if e = "B" then Bytes.BE else Bytes.LE in
    (match BinFormat.from_bytes endian (parse_b b) with
     | Ok a ->
       let reser = (match BinFormat.serialize_k name_key Checked a with Ok f -> "ok:" ^ show_b f | Err _ -> "err" | Panic _ -> "PANIC") in
       "ok" ^ D_ba.state a 1 ^ " reser=" ^ reser
     | Err _ -> "err"
     | Panic _ -> "PANIC")
  | _ -> failwith "bafrom: bad case"

let () = register "bafrom" bafrom
