(* Model side of the text-archive kinds txt / txtf / txta (C06, text part of C05); mirrors
   harness/src/k_txt.rs, k_txtf.rs, k_txta.rs.  Strings stay ENCODED on this side: the kinds that read
   possibly malformed input (txtf, txta) print the raw (first label, message) trace, which gen/txtfile.py
   canonicalises through the harness' own decoder (kind sjdec) before comparing. *)
open Dcommon
open Machine
open TextMap
module List = Stdlib.List
module String = Stdlib.String

let fmt_of tok = if tok = "U" then TextFormat.Unicode else TextFormat.ShiftJIS
let endian_of tok = if tok = "B" then Bytes.BE else Bytes.LE

let terr (e : ekind) : string =
  match e with
  | EOob -> "err:oob"
  | EUnaligned -> "err:unaligned"
  | ETooSmall -> "err:toosmall"
  | EUnterminated -> "err:unterminated"
  | EEncoding -> "err:encoding"
  | EDecoding -> "err:decoding"
  | EIo -> "err:io"
  | EOutOfFuel -> "MODEL-OUT-OF-FUEL"
  | _ -> "err:other"

let parse_msg (tok : string) : n list = if tok <> "" && tok.[0] = 'L' then parse_l tok else parse_b tok
let show_msg fmt (m : n list) : string = match fmt with TextFormat.Unicode -> show_l m | TextFormat.ShiftJIS -> show_b m

let show_parsed fmt (t : tmap) : string =
  let es = List.map (fun (k, v) -> show_b k ^ "=" ^ show_msg fmt v) t.t_entries in
  Printf.sprintf "ok d%d T=%s [%s]" (if t.t_dirty then 1 else 0) (show_b t.t_title) (String.concat " " es)

(* txt <U|S> <L|B> B<title> n (B<key> <msg>)* *)
let txt (toks : string list) : string =
  match toks with
  | f :: e :: title :: n :: rest ->
    let fmt = fmt_of f and endian = endian_of e in
    let rec entries acc = function
      | k :: m :: r -> entries (e_set (parse_b k) (parse_msg m) acc) r
      | [] -> acc
      | _ -> failwith "txt: odd entry tokens" in
    let t = { t_title = parse_b title; t_entries = entries [] rest; t_dirty = (int_of_string n > 0) } in
    (match TextFormat.serialize name_key Checked fmt endian t with
     | Err e -> "ser=" ^ terr e
     | Panic _ -> "ser=PANIC"
     | Ok b ->
       let parsed =
         (match TextFormat.from_bytes fmt endian b with
          | Ok p -> show_parsed fmt p
          | Err e -> terr e
          | Panic _ -> "PANIC") in
       "ser=ok:" ^ show_b b ^ " | parse=" ^ parsed)
  | _ -> failwith "txt: bad case"

(* raw trace + re-serialization of the inserted map *)
let report fmt endian (trace : (n list * (n list * n list) list) outcome) (full : tmap outcome) : string =
  match trace, full with
  | Ok (title, es), Ok t ->
    let ess = List.map (fun (k, v) -> show_b k ^ "=" ^ show_msg fmt v) es in
    let reser =
      (match TextFormat.serialize name_key Checked fmt endian t with
       | Ok b -> "ok:" ^ show_b b
       | Err e -> terr e
       | Panic _ -> "PANIC") in
    Printf.sprintf "parse=ok d%d T=%s [%s] | reser=%s" (if t.t_dirty then 1 else 0) (show_b title) (String.concat " " ess) reser
  | Err e, _ -> "parse=" ^ terr e
  | Panic _, _ -> "parse=PANIC"
  | Ok _, Err e -> "parse=MODEL-INCONSISTENT " ^ terr e
  | Ok _, Panic _ -> "parse=MODEL-INCONSISTENT PANIC"

(* txtf <U|S> <L|B> B<file> *)
let txtf (toks : string list) : string =
  match toks with
  | [f; e; file] ->
    let fmt = fmt_of f and endian = endian_of e in
    let bytes = parse_b file in
    report fmt endian (TextFormat.from_bytes_trace fmt endian bytes) (TextFormat.from_bytes fmt endian bytes)
  | _ -> failwith "txtf: bad case"

(* txta <U|S> <L|B> B<data> n (address B<label>)* *)
let txta (toks : string list) : string =
  match toks with
  | f :: e :: data :: _n :: rest ->
    let fmt = fmt_of f and endian = endian_of e in
    let d = parse_b data in
    let a0 = BinArchive.allocate_at_end (BinArchive.ba_new endian) (n_of_int (List.length d)) in
    let a1 = if d = [] then Ok a0 else BinArchive.write_bytes a0 N0 d in
    let rec labels (a : BinArchive.archive outcome) = function
      | ad :: l :: r ->
        (match a with
         | Ok a' -> labels (BinArchive.write_label a' (n_of_dec ad) (parse_b l)) r
         | other -> other)
      | [] -> a
      | _ -> failwith "txta: odd label tokens" in
    (match labels a1 rest with
     | Ok a -> report fmt endian (TextFormat.from_archive_trace fmt a) (TextFormat.from_archive fmt a)
     | Err _ -> "build=err"
     | Panic _ -> "build=PANIC")
  | _ -> failwith "txta: bad case"

let () = register "txt" txt; register "txtf" txtf; register "txta" txta
(* txtfa / txtaa: same model output; the harness appends the measured allocation (the text reader requests no field-sized
   buffer: strings grow byte by byte while bytes exist) *)
let () = register "txtfa" txtf; register "txtaa" txta
