(* C19 - Pixel decoding matches the hardware formats.
   Models: Model/Pixel.v (texture_decoder.rs, pixel_encodings.rs, texture_utils.rs, CI8 path of tpl.rs),
   Model/Etc1.v (etc1.rs, repaired: finding F15).  Specifications: Model/PixelSpec.v, written from the
   published format descriptions.  The models are tied to /repo by `./check C19` (both build profiles). *)
From Coq Require Import List NArith ZArith Bool.
From Mila Require Import Lib.Bytes Lib.Machine Model.Pixel Model.PixelSpec Model.Etc1 Proofs.PixelProofs.
Import ListNotations.
Local Open Scope N_scope.

(* the tile table is the Z-order curve: entry i is 8*y + x with x, y the de-interleaved bits of i (64 cases) *)
Theorem C19_tile_order_is_morton : forall i, i < 64 -> tbl TILE_ORDER i = 8 * morton_y i + morton_x i.
Proof. exact tile_order_morton. Qed.

Theorem C19_tile_order_inverse : forall x y, x < 8 -> y < 8 -> tbl TILE_ORDER (morton x y) = 8 * y + x.
Proof. exact tile_order_inverse. Qed.

(* every channel of every listed format lies within one quantisation step of the linear expansion of its
   source bits, exactly for 8-, 4- and 1-bit fields; luminance is copied to r, g, b; formats without alpha
   bits are opaque (all 2^16 / 2^8 values by computation; RGBA8 for all 2^32 values) *)
Theorem C19_channels : forall fmt v, listed_color_format fmt = true -> v < 2 ^ (8 * bytes_per_element fmt) ->
  color_ok fmt v (decode_color v fmt) = true.
Proof. exact channels_all. Qed.

Theorem C19_rgba5551_alpha : forall v, nth 3 (decode_color v 2) 0 = if N.testbit v 0 then 255 else 0.
Proof. exact rgba5551_alpha. Qed.

(* GameCube/Wii RGB5A3, all 65 536 values *)
Theorem C19_rgb5a3 : forall v, v < 65536 -> rgb5a3_ok v (decode_rgb5a3_pixel v) = true.
Proof. exact rgb5a3_all. Qed.
