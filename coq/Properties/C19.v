(* C19 - Pixel decoding matches the hardware formats.
   Models: Model/Pixel.v (texture_decoder.rs, pixel_encodings.rs, texture_utils.rs, CI8 path of tpl.rs),
   Model/Etc1.v (etc1.rs, repaired: finding F15).  Specifications: Model/PixelSpec.v, written from the
   published format descriptions.  The models are tied to /repo by `./check C19` (both build profiles).
   Format numbers: 0 RGBA8, 2 RGBA5551, 3 RGB565, 4 RGBA4, 5 LA8, 7 L8, 8 A8 (listed_color_format), 12 ETC1, 13 ETC1A4.
   Every statement quantifies over the arithmetic mode m (Checked = overflow-checked build, Wrapping = release). *)
From Coq Require Import List NArith ZArith Bool Lia.
From Mila Require Import Lib.Bytes Lib.Machine Model.Pixel Model.PixelSpec Model.Etc1 Model.ColorFormat Model.PixelM Model.Etc1M Proofs.TexFinite Proofs.PixelProofs
  Proofs.Etc1Proofs Proofs.PaletteProofs Proofs.PixelAssembly Proofs.ColorFormatProofs Proofs.PixelMProofs Proofs.ModeProofs Proofs.Etc1MProofs.
Import ListNotations.
Local Open Scope N_scope.

(* ---- tile order ---- *)
(* the tile table is the Z-order curve: entry i is 8*y + x with x, y the de-interleaved bits of i (64 cases) *)
Theorem C19_tile_order_is_morton : forall i, i < 64 -> tbl TILE_ORDER i = 8 * morton_y i + morton_x i.
Proof. exact tile_order_morton. Qed.

Theorem C19_tile_order_inverse : forall x y, x < 8 -> y < 8 -> tbl TILE_ORDER (morton x y) = 8 * y + x.
Proof. exact tile_order_inverse. Qed.

(* ---- pixel source, raw formats ---- *)
(* For every listed raw format, EVERY width and height that are multiples of 8 (the property's powers of two
   8..128 are instances; w*h < 2^32 holds for all u16 dimensions) and a payload of exactly the required size, in
   both modes: decoding succeeds with w*h pixels of four bytes, and pixel (X, Y) is decode_color of the
   little-endian source element at its Z-order position tiled_index w X Y. *)
Theorem C19_pixel_source : forall m fmt w h data X Y,
  listed_color_format fmt = true -> w mod 8 = 0 -> h mod 8 = 0 -> w * h < 2 ^ 32 ->
  lenN data = bytes_per_element fmt * (w * h) -> X < w -> Y < h ->
  exists px, decode_pixel_data m data w h fmt = Ok (flatten px) /\ length px = N.to_nat (w * h) /\ Forall len4 px /\
    nth_error px (N.to_nat (Y * w + X)) =
      Some (decode_color (element (bytes_per_element fmt) data (tiled_index w X Y)) fmt).
Proof. exact color_pixel_source. Qed.

(* whenever decode_pixel_data returns (any format, any payload, any size), it returns exactly 4*w*h bytes *)
Theorem C19_output_size : forall m data w h fmt out, 4 * w < 2 ^ 64 -> 4 * (w * h) < 2 ^ 64 ->
  decode_pixel_data m data w h fmt = Ok out -> lenN out = 4 * (w * h).
Proof. exact decode_pixel_data_size. Qed.

(* mila's bytes-per-pixel table (get_pixel_format_bpp, used by ctpk::read to cut the payload) gives the size the
   format requires, for all nine listed formats *)
Theorem C19_payload_size : forall fmt w h, listed_format fmt = true -> w mod 8 = 0 -> h mod 8 = 0 ->
  payload_size fmt w h = required_size fmt w h.
Proof. exact payload_size_listed. Qed.

(* ... where ctpk::read computes the size as (bpp * w as f32 * h as f32) as usize: payload_size_f32 is the integer model of
   that binary32 product (round to nearest even at 24 significant bits, ModeProofs.v).  It equals the required size under the
   EXPLICIT exactness hypothesis, which holds whenever w * h < 2^24 (in particular on the property's sizes, and for every
   product that is a 24-bit number times a power of two); beyond it the two differ (C19_ex_payload_size_inexact, the
   value executed on the real crate by the external review). *)
Theorem C19_payload_size_f32 : forall fmt w h, listed_format fmt = true -> w mod 8 = 0 -> h mod 8 = 0 ->
  round24 (bpp2 fmt * w * h) = bpp2 fmt * w * h -> payload_size_f32 fmt w h = required_size fmt w h.
Proof. exact payload_size_f32_listed. Qed.
Theorem C19_payload_size_f32_below_2p24 : forall fmt w h, listed_format fmt = true -> w mod 8 = 0 -> h mod 8 = 0 ->
  w * h < 2 ^ 24 -> payload_size_f32 fmt w h = required_size fmt w h.
Proof. exact payload_size_f32_pow2_bpp. Qed.

(* ---- channels ---- *)
(* every channel of every listed format lies within one quantisation step of the linear expansion of its
   source bits, exactly for 8-, 4- and 1-bit fields; luminance is copied to r, g, b; formats without alpha
   bits are opaque (all 2^16 / 2^8 values by computation; RGBA8 for all 2^32 values) *)
Theorem C19_channels : forall fmt v, listed_color_format fmt = true -> v < 2 ^ (8 * bytes_per_element fmt) ->
  color_ok fmt v (decode_color v fmt) = true.
Proof. exact channels_all. Qed.

Theorem C19_rgba5551_alpha : forall v, nth 3 (decode_color v 2) 0 = if N.testbit v 0 then 255 else 0.
Proof. exact rgba5551_alpha. Qed.

(* layout and channels together, as the property words it: for a payload of bytes, pixel (X, Y) is an admissible decoding
   (color_ok: every channel within one quantisation step, exact for 8/4/1-bit fields ...) of the element at its Z-order position *)
Theorem C19_pixel_within_step : forall m fmt w h data X Y,
  listed_color_format fmt = true -> w mod 8 = 0 -> h mod 8 = 0 -> w * h < 2 ^ 32 ->
  lenN data = bytes_per_element fmt * (w * h) -> wfb data -> X < w -> Y < h ->
  exists px c, decode_pixel_data m data w h fmt = Ok (flatten px) /\ length px = N.to_nat (w * h) /\
    nth_error px (N.to_nat (Y * w + X)) = Some c /\
    color_ok fmt (element (bytes_per_element fmt) data (tiled_index w X Y)) c = true.
Proof. exact color_pixel_ok. Qed.

(* ---- ETC1 / ETC1A4 ---- *)
(* block decode = the published rules, for every 64-bit block the rules define (individual mode: all; differential
   mode: every base + delta in 0..31) and every alpha word.  decode_block has no mode parameter: the repaired code
   (F15) adds with wrapping_add, so the build profile cannot matter. *)
Theorem C19_etc1_exact : forall alphas pixels, etc1_in_range pixels = true ->
  decode_block alphas pixels = etc1_spec alphas pixels.
Proof. exact decode_block_exact. Qed.

(* ETC1A4: for every texel of every block (in range or not) alpha = 17 * its nibble of the alpha word whatever the colour
   word says, and r, g, b do not depend on the alpha word: an all-zero (or any other) alpha word never changes the colour *)
Theorem C19_etc1a4_alpha_colour_independent : forall a p x y, x < 4 -> y < 4 ->
  nth 3 (nth (N.to_nat (4 * y + x)) (decode_block a p) ZERO_PX) 0 = 17 * field a (4 * (4 * x + y)) 4 /\
  forall a', firstn 3 (nth (N.to_nat (4 * y + x)) (decode_block a p) ZERO_PX) =
             firstn 3 (nth (N.to_nat (4 * y + x)) (decode_block a' p) ZERO_PX).
Proof. exact etc1a4_alpha_colour_independent. Qed.

(* F15: the expression before the repair (`r + complement(..)` in u8) panics in a checked build on an in-range block
   with a negative delta, and equals the repaired one in a wrapping build *)
Theorem C19_etc1_F15_checked : etc1_in_range F15_BLOCK = true /\ block_colors_prefix Checked F15_BLOCK = Panic POverflow.
Proof. exact F15_witness. Qed.
Theorem C19_etc1_F15_wrapping : forall pixels, block_colors_prefix Wrapping pixels = Ok (block_colors pixels).
Proof. exact block_colors_prefix_wrapping. Qed.

(* image level, both modes, ETC1 (format 12) and ETC1A4 (13), through decode_pixel_data and through mila::decode:
   pixel (X, Y) is texel (X mod 4, Y mod 4), as the published rules colour it, of the block with index
   etc_block_index w X Y (8x8 tiles of 2x2 blocks; ETC1A4: the alpha word precedes the colour word).
   For every multiple of 8 whose tile count the float expression yields exactly ... *)
Theorem C19_etc1_image : forall m alpha w h data X Y,
  w mod 8 = 0 -> h mod 8 = 0 -> etc_tiles w = w / 8 -> etc_tiles h = h / 8 -> w * h < 2 ^ 32 ->
  lenN data = w * h / 16 * etc_block_bytes alpha -> X < w -> Y < h ->
  exists px, decode_pixel_data m data w h (if alpha then 13 else 12) = Ok (flatten px) /\
    etc1_decode m data w h alpha = Ok (flatten px) /\
    length px = N.to_nat (w * h) /\ Forall len4 px /\
    let bd := etc_block_at alpha data (etc_block_index w X Y) in
    (etc1_in_range (snd bd) = true ->
     nth_error px (N.to_nat (Y * w + X)) = Some (etc1_texel (fst bd) (snd bd) (X mod 4) (Y mod 4))).
Proof. exact etc1_image_source. Qed.

(* ... which includes every power of two from 8 up *)
Theorem C19_etc1_image_pow2 : forall m alpha j k data X Y,
  let w := 8 * 2 ^ j in let h := 8 * 2 ^ k in
  w * h < 2 ^ 32 -> lenN data = w * h / 16 * etc_block_bytes alpha -> X < w -> Y < h ->
  exists px, decode_pixel_data m data w h (if alpha then 13 else 12) = Ok (flatten px) /\
    etc1_decode m data w h alpha = Ok (flatten px) /\
    length px = N.to_nat (w * h) /\ Forall len4 px /\
    let bd := etc_block_at alpha data (etc_block_index w X Y) in
    (etc1_in_range (snd bd) = true ->
     nth_error px (N.to_nat (Y * w + X)) = Some (etc1_texel (fst bd) (snd bd) (X mod 4) (Y mod 4))).
Proof. exact etc1_image_source_pow2. Qed.

(* ---- GameCube / Wii ---- *)
(* RGB5A3, all 65 536 values *)
Theorem C19_rgb5a3 : forall v, v < 65536 -> rgb5a3_ok v (decode_rgb5a3_pixel v) = true.
Proof. exact rgb5a3_all. Qed.

(* ColorFormat::RGB5A3.decode: pixel i is the decoding of the i-th big-endian u16 *)
Theorem C19_rgb5a3_decode : forall data, lenN data mod 2 = 0 ->
  exists px, rgb5a3_decode data = Ok px /\ length px = N.to_nat (lenN data / 2) /\
    forall i, i < lenN data / 2 -> nth_error px (N.to_nat i) = Some (decode_rgb5a3_pixel (be16_at data i)).
Proof. exact rgb5a3_decode_spec. Qed.

(* ColorFormat::CI8.decode_indexed: the palette entries of the indices, in order *)
Theorem C19_decode_indexed : forall data pal_bytes, lenN pal_bytes mod 4 = 0 ->
  Forall (fun i => i < lenN pal_bytes / 4) data ->
  decode_indexed_ci8 data pal_bytes = Ok (concat (map (fun i => firstn 4 (skipn (N.to_nat (4 * i)) pal_bytes)) data)).
Proof. exact decode_indexed_spec. Qed.

(* the public ColorFormat::decode / decode_indexed (Model/ColorFormat.v; 0 RGBA8, 1 RGB5A3, 2 CI8, other Unrecognized) are the two
   functions above plus their error branches; GameCube RGBA8 is copied through *)
Theorem C19_colorformat_decode_rgb5a3 : forall data, cf_decode 1 data =
  match rgb5a3_decode data with Ok px => CfOk (flatten px) | _ => CfErr UnalignedData end.
Proof. exact cf_decode_rgb5a3. Qed.
Theorem C19_colorformat_decode_rgba8 : forall data, lenN data mod 4 = 0 -> cf_decode 0 data = CfOk data.
Proof. exact cf_decode_rgba8. Qed.
Theorem C19_colorformat_decode_indexed : forall data pal,
  cf_decode_indexed 2 data pal =
  match decode_indexed_ci8 data pal with Ok b => CfOk b | Err EOob => CfErr OutOfBoundsIndex | _ => CfErr UnalignedData end.
Proof. exact cf_decode_indexed_ci8. Qed.
Theorem C19_colorformat_decode_errors : forall fmt data,
  (2 < fmt -> cf_decode fmt data = CfErr UnsupportedFormat) /\
  (fmt = 2 -> cf_decode fmt data = CfErr NoPalette) /\
  (fmt < 2 -> lenN data mod cf_bytes_per_pixel fmt <> 0 -> cf_decode fmt data = CfErr UnalignedData).
Proof. exact cf_decode_errors. Qed.
Theorem C19_colorformat_indexed_errors : forall fmt data pal,
  (2 < fmt -> cf_decode_indexed fmt data pal = CfErr UnsupportedFormat) /\
  (fmt < 2 -> cf_decode_indexed fmt data pal = CfErr NotIndexed).
Proof. exact cf_decode_indexed_errors. Qed.

(* CI8 images in 8x4 blocks of ANY size (every width and height >= 1, not only 1..64), cropped to the stated
   dimensions (the CI8 path of Tpl::extract_textures: RGB5A3 palette, align, block_to_sequential, crop,
   decode_indexed): pixel (x, y) is the decoded palette entry selected by the block-data byte at
   ci8_index w x y = ((y/4)*(aw/8) + x/8)*32 + (y mod 4)*8 + x mod 8, aw = w aligned up to 8.
   Only the indices of the visible pixels have to lie inside the palette. *)
Theorem C19_palette : forall pal_data img w h,
  1 <= w -> 1 <= h -> lenN img = align8 w * align4 h -> lenN pal_data mod 2 = 0 ->
  (forall x y, x < w -> y < h -> nth (N.to_nat (ci8_index w x y)) img 0 < lenN pal_data / 2) ->
  exists px, tpl_ci8_image pal_data img w h = Ok (flatten px) /\ length px = N.to_nat (w * h) /\
    forall x y, x < w -> y < h ->
      nth_error px (N.to_nat (y * w + x)) =
        Some (decode_rgb5a3_pixel (be16_at pal_data (nth (N.to_nat (ci8_index w x y)) img 0))).
Proof. exact palette_image_source. Qed.

Theorem C19_palette_within_step : forall pal_data img w h,
  1 <= w -> 1 <= h -> lenN img = align8 w * align4 h -> lenN pal_data mod 2 = 0 -> wfb pal_data ->
  (forall x y, x < w -> y < h -> nth (N.to_nat (ci8_index w x y)) img 0 < lenN pal_data / 2) ->
  exists px, tpl_ci8_image pal_data img w h = Ok (flatten px) /\ length px = N.to_nat (w * h) /\
    forall x y, x < w -> y < h -> exists c,
      nth_error px (N.to_nat (y * w + x)) = Some c /\
      rgb5a3_ok (be16_at pal_data (nth (N.to_nat (ci8_index w x y)) img 0)) c = true.
Proof. exact palette_pixel_ok. Qed.

(* ---- the two build profiles ---- *)
(* the mode-free models take the mode only at the two size products; this theorem is about those.  That no OTHER machine
   operation can overflow is not assumed but proved on the moded models below (the C19_moded theorems). *)
Theorem C19_mode_independent : forall data w h, 4 * w < 2 ^ 64 -> 4 * (w * h) < 2 ^ 64 ->
  (forall fmt, decode_pixel_data Checked data w h fmt = decode_pixel_data Wrapping data w h fmt) /\
  (forall alpha, etc1_decode Checked data w h alpha = etc1_decode Wrapping data w h alpha).
Proof. exact mode_independent_all. Qed.

(* The MODED models (Model/PixelM.v) put EVERY machine operation of texture_decoder.rs, pixel_encodings.rs, texture_utils.rs
   and the CI8 path of tpl.rs that can overflow its Rust type through the Machine monad with the mode: u32 / u16 / usize
   additions, subtractions, multiplications (add_w / sub_w / mul_w at the width of the type), shifts (shl_m / shr_m: a shift
   amount >= the width is the overflow), `as u8` truncations, table and slice indexing, divisions.  On byte payloads and
   sizes whose output fits the machine word they return, in BOTH modes, exactly what the mode-free models of Model/Pixel.v
   return - none of the operations overflows - so the theorems above transfer and the two build profiles cannot differ. *)
(* decode_color on every value the tile walk can read: u32 (RGBA8), 24 bits (RGB8), u16, u8, the constant 0 (L4/A4) *)
Theorem C19_moded_decode_color : forall m fmt v, v < elem_bound fmt -> decode_color_m m v fmt = Ok (decode_color v fmt).
Proof. exact decode_color_m_ok. Qed.
(* the whole raw decoder: output-index arithmetic, TILE_ORDER indexing, decode_color, the slice store; every format and payload *)
Theorem C19_moded_raw : forall m data w h fmt, 4 * (w * h) < 2 ^ 64 -> wfb data ->
  decode_rgba_pixels_m m data w h fmt = decode_rgba_pixels m data w h fmt.
Proof. exact decode_rgba_pixels_m_ok. Qed.
Theorem C19_moded_raw_mode_independent : forall data w h fmt, 4 * (w * h) < 2 ^ 64 -> wfb data ->
  decode_rgba_pixels_m Checked data w h fmt = decode_rgba_pixels_m Wrapping data w h fmt.
Proof. exact raw_moded_mode_independent. Qed.
(* RGB5A3: the u16 multiplications and shifts of the decoder itself, every value, both modes (by argument: masked fields) *)
Theorem C19_moded_rgb5a3 : forall m v, decode_rgb5a3_pixel_m m v = Ok (decode_rgb5a3_pixel v).
Proof. exact decode_rgb5a3_pixel_m_all. Qed.
Theorem C19_moded_rgb5a3_decode : forall m data, wfb data -> lenN data < 2 ^ 64 -> rgb5a3_decode_m m data = rgb5a3_decode data.
Proof. exact rgb5a3_decode_m_ok. Qed.
(* decode_indexed: index * 4 and real_index + 4 *)
Theorem C19_moded_decode_indexed : forall m pal data, wfb data -> ci8_lookup_m m data pal = ci8_lookup data pal.
Proof. exact ci8_lookup_m_ok. Qed.
(* the CI8 path of Tpl::extract_textures: align, every index of block_to_sequential, crop's base_index + width, the lookups;
   every image payload of bytes (visible indices valid or not), u16 dimensions *)
Theorem C19_moded_palette : forall m pal_data img w h, w < 65536 -> h < 65536 ->
  wfb pal_data -> lenN pal_data < 2 ^ 64 -> wfb img ->
  tpl_ci8_image_m m pal_data img w h = tpl_ci8_image pal_data img w h.
Proof. exact tpl_ci8_image_m_ok. Qed.
Theorem C19_moded_palette_mode_independent : forall pal_data img w h, w < 65536 -> h < 65536 ->
  wfb pal_data -> lenN pal_data < 2 ^ 64 -> wfb img ->
  tpl_ci8_image_m Checked pal_data img w h = tpl_ci8_image_m Wrapping pal_data img w h.
Proof. exact palette_moded_mode_independent. Qed.

(* etc1.rs in the monad (Model/Etc1M.v): u64 shifts with constant and computed amounts, the u8 shifts of the colour expansion
   and of `complement`, `* 0x11`, the i32 negation / addition of the modifier, texel coordinates, pixel positions, the
   payload cursor, the tile counts; every payload, sides below 2^31 *)
Theorem C19_moded_etc1_block_colors : forall m pixels, block_colors_m m pixels = Ok (block_colors pixels).
Proof. exact block_colors_m_ok. Qed.
Theorem C19_moded_etc1_texel : forall m pixels alphas c1 c2 px py, px < 4 -> py < 4 -> bytes3 c1 -> bytes3 c2 ->
  texel_m m pixels alphas c1 c2 px py = Ok (texel pixels alphas c1 c2 px py).
Proof. exact texel_m_ok. Qed.
Theorem C19_moded_etc1 : forall m data w h alpha, w < 2 ^ 31 -> h < 2 ^ 31 -> lenN data < 2 ^ 63 ->
  etc1_decode_pixels_m m data w h alpha = etc1_decode_pixels m data w h alpha.
Proof. exact etc1_decode_pixels_m_ok. Qed.
(* the moded public entry points (these are what `./check C19` compares with the implementation, in both modes and both
   build profiles) equal the mode-free ones, hence every theorem of this file speaks about them; and the two modes agree *)
Theorem C19_moded_decode_pixel_data : forall m data w h fmt, w < 2 ^ 31 -> h < 2 ^ 31 -> lenN data < 2 ^ 63 -> wfb data ->
  decode_pixel_data_m m data w h fmt = decode_pixel_data m data w h fmt.
Proof. exact decode_pixel_data_m_ok. Qed.
Theorem C19_moded_mode_independent : forall data w h, w < 2 ^ 31 -> h < 2 ^ 31 -> lenN data < 2 ^ 63 -> wfb data ->
  (forall fmt, decode_pixel_data_m Checked data w h fmt = decode_pixel_data_m Wrapping data w h fmt) /\
  (forall alpha, etc1_decode_m Checked data w h alpha = etc1_decode_m Wrapping data w h alpha).
Proof. exact moded_mode_independent. Qed.

(* ---- the hypotheses are satisfiable ---- *)
Example C19_ex_formats : forallb listed_format [0; 2; 3; 4; 5; 7; 8; 12; 13] = true /\ forallb listed_format [1; 6; 9; 10; 11; 14] = false.
Proof. split; reflexivity. Qed.
(* the property's five side lengths satisfy the size hypotheses of C19_pixel_source and C19_etc1_image *)
Example C19_ex_sizes : forallb (fun w => (w mod 8 =? 0) && (etc_tiles w =? w / 8) && (w * w <? 2 ^ 32)) [8; 16; 32; 64; 128] = true.
Proof. vm_compute. reflexivity. Qed.
(* ... and so does 24, which is not a power of two, for the raw formats only *)
Example C19_ex_size_24 : 24 mod 8 = 0 /\ etc_tiles 24 <> 24 / 8.
Proof. split; [reflexivity|vm_compute; discriminate]. Qed.
Definition ex_payload (n : nat) : bytes := map (fun i => N.of_nat (i * 37 + 11) mod 256) (seq 0 n).
Example C19_ex_rgb565 : lenN (ex_payload 256) = bytes_per_element 3 * (16 * 8) /\
  is_ok (decode_pixel_data Checked (ex_payload 256) 16 8 3) = true.
Proof. split; vm_compute; reflexivity. Qed.
Example C19_ex_payload_size_inexact : payload_size_f32 7 65528 16392 = 1074135040 /\ payload_size 7 65528 16392 = 1074134976.
Proof. exact payload_size_f32_inexact. Qed.
Example C19_ex_payload_size_domain :
  forallb (fun fmt => forallb (fun w => forallb (fun h => payload_size_f32 fmt w h =? payload_size fmt w h) [8; 16; 32; 64; 128])
                                     [8; 16; 32; 64; 128]) [0; 2; 3; 4; 5; 7; 8; 12; 13] = true.
Proof. exact payload_size_f32_domain. Qed.
(* the moded model does notice an overflow where there is one: a u32 product outside the tile walk's values *)
Example C19_ex_moded_detects : decode_color_m Checked (2 ^ 31) 10 = Panic POverflow /\ is_ok (decode_color_m Wrapping (2 ^ 31) 10) = true.
Proof. split; vm_compute; reflexivity. Qed.
(* a differential block with a negative delta is in range *)
Example C19_ex_etc_block : etc1_in_range F15_BLOCK = true /\ etc1_diff F15_BLOCK = true /\ signed3 (field F15_BLOCK 56 3) = (-1)%Z.
Proof. vm_compute. repeat split. Qed.
(* an all-zero alpha word: transparent texels keep their colour (255, 255, 255 here: individual mode, base 15, +2) *)
Example C19_ex_etc_zero_alpha : nth 0 (decode_block 0 (15 * 2 ^ 60 + 15 * 2 ^ 52 + 15 * 2 ^ 44)) ZERO_PX = [255; 255; 255; 0].
Proof. vm_compute. reflexivity. Qed.
Example C19_ex_etc_image : lenN (ex_payload 64) = 8 * 8 / 16 * etc_block_bytes true /\
  is_ok (decode_pixel_data Wrapping (ex_payload 64) 8 8 13) = true.
Proof. split; vm_compute; reflexivity. Qed.
(* a 5x3 palette image with four colours *)
Definition ex_img : bytes := map (fun i => N.of_nat i mod 4) (seq 0 32).
Definition ex_pal : bytes := [0x80; 0x1F; 0x7F; 0xFF; 0x12; 0x34; 0xFF; 0xFF].
Example C19_ex_palette : 1 <= 5 /\ 1 <= 3 /\ lenN ex_img = align8 5 * align4 3 /\ lenN ex_pal mod 2 = 0 /\
  (forall x y, x < 5 -> y < 3 -> nth (N.to_nat (ci8_index 5 x y)) ex_img 0 < lenN ex_pal / 2) /\
  is_ok (tpl_ci8_image ex_pal ex_img 5 3) = true.
Proof.
  split; [lia|]. split; [lia|]. split; [reflexivity|]. split; [reflexivity|]. split; [|vm_compute; reflexivity].
  intros x y Hx Hy. apply N.ltb_lt.
  exact (all_below2_spec 5 3 (fun x y => nth (N.to_nat (ci8_index 5 x y)) ex_img 0 <? lenN ex_pal / 2) ltac:(vm_compute; reflexivity) x y Hx Hy).
Qed.
