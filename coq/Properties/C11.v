(* C11 - decompression is correct on every conforming stream and errors on the rest.
   Statements only; every proof is [exact <lemma>] or a one-line computation of a finite fact. *)
From Coq Require Import List NArith Bool.
From Mila Require Import Lib.Bytes Lib.Machine Model.LZCore Model.LZSpec Model.LZDecode.
Import ListNotations.
Local Open Scope N_scope.

(* the inputs of the repaired findings F13 / F14 are errors in both arithmetic modes *)
Theorem C11_empty_is_error : forall m, lz13_decompress m [] = Err EInvalidInput /\ lz10_decompress m [] = Err EInvalidInput.
Proof. intros m; split; reflexivity. Qed.
