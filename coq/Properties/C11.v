(* C11 - decompression is correct on every conforming stream and errors on the rest.
   Statements only; every proof is [exact <lemma>].
   Models (tied to /repo by `./check C11`, debug and release builds):
     Model/LZDecode.v  lz13::decompress_lz (the bounds-checked decoder that replaced nintendo_lz::decompress_arr:
                       repair of F14), LZ10CompressionFormat::decompress, LZ13CompressionFormat::decompress
                       (length check = repair of F13, 0x13 wrapper, bare stream, type-0 stored form),
                       CompressionFormat::decompress; subtractions through Machine.sub_w in a mode,
                       Vec indexing through a checked access
     Model/LZSpec.v    specification side: strict parsers [sparse10]/[sparse11], the writer [senc]/[enc_body],
                       legality of token sequences [valid], headers [sheader]
     Model/LZCore.v    [expand]: what a token sequence means.
   "Conforming" is stated twice: for every byte string the strict parser accepts (C11_decode_wellformed)
   and for every legal token sequence written down by the specification's writer (C11_decode_conforming,
   with C11_every_token_sequence_is_a_stream showing that the parser accepts all of those: literals,
   references of every length form - LZ10 3..18, LZ11 3..65808 - displacement 1..4096, overlapping copies
   included, both LZ11 header forms).
   Outside the theorems: allocation (a hostile header cannot request memory any more: the decoder no
   longer reserves the announced size), the extended 32-bit size on a 32-bit target. *)
From Coq Require Import List NArith Bool.
From Mila Require Import Lib.Bytes Lib.Machine Model.LZCore Model.LZ10 Model.LZ11 Model.LZSpec Model.LZDecode
  Proofs.LZDecodeProofs Proofs.LZConforming Proofs.LZTotal Proofs.LZTruncated Proofs.LZBackref Proofs.LZErrors Proofs.LZFormat.
Import ListNotations.
Local Open Scope N_scope.

(* --- correct on every conforming stream --- *)
Theorem C11_decode_wellformed : forall m v s n ts, sparse v s = Some (n, ts) ->
  exists x, expand ts = Some x /\ decompress_lz m s = Ok x /\ lenN x = n.
Proof. exact decode_sparse. Qed.

Theorem C11_every_token_sequence_is_a_stream : forall v ext ts n,
  valid v ts -> N.of_nat (total_len ts) = n -> size_fits v ext n ->
  sparse v (sheader v ext n ++ enc_body (senc v) ts) = Some (n, ts).
Proof. exact sparse_enc. Qed.

Theorem C11_decode_conforming : forall m v ext ts n,
  valid v ts -> N.of_nat (total_len ts) = n -> size_fits v ext n ->
  exists x, expand ts = Some x /\ lenN x = n /\
    let s := sheader v ext n ++ enc_body (senc v) ts in
    lz10_decompress m s = Ok x /\ lz13_decompress m s = Ok x /\
    (forall a b c, lz13_decompress m (0x13 :: a :: b :: c :: s) = Ok x) /\
    cf_decompress CF10 m s = Ok x /\ cf_decompress CF13 m s = Ok x.
Proof. exact decode_conforming. Qed.

(* every stream the strict parser accepts - writer output or not, any padding bits in the last flag byte - through
   the entry points: LZ10, LZ13 bare, LZ13 behind any 0x13 wrapper, both enum variants *)
Theorem C11_decode_wellformed_entry_points : forall m v s n ts, sparse v s = Some (n, ts) ->
  exists x, expand ts = Some x /\ lenN x = n /\
    lz10_decompress m s = Ok x /\ lz13_decompress m s = Ok x /\
    (forall a b c, lz13_decompress m (0x13 :: a :: b :: c :: s) = Ok x) /\
    cf_decompress CF10 m s = Ok x /\ cf_decompress CF13 m s = Ok x.
Proof. exact decode_sparse_entry_points. Qed.

(* --- the entry points --- *)
Theorem C11_wrapper_stripped : forall m a b c s, lz13_decompress m (0x13 :: a :: b :: c :: s) = decompress_lz m s.
Proof. exact lz13_wrapped. Qed.

Theorem C11_bare_stream_passed_through : forall m t a b c s, t <> 0 -> t <> 0x13 ->
  lz13_decompress m (t :: a :: b :: c :: s) = decompress_lz m (t :: a :: b :: c :: s).
Proof. exact lz13_bare. Qed.

Theorem C11_stored_form : forall m a b c p, lz13_decompress m (0 :: a :: b :: c :: p) = Ok p.
Proof. exact lz13_stored. Qed.

Theorem C11_format_dispatch : forall f m bytes,
  cf_decompress f m bytes = match f with CF10 => lz10_decompress m bytes | CF13 => lz13_decompress m bytes end.
Proof. exact dispatch. Qed.

(* decompress . compress = id through the enum, for both variants: whenever compress returns Ok (no size hypothesis -
   after the repair of F21 compress fails with InputTooLarge exactly when the size field cannot store the length),
   and it does return Ok below 2^24 (LZ10) / 2^32 (LZ13) bytes, the empty payload included *)
Theorem C11_format_round_trip : forall f mc md x c, wfb x -> cf_compress f mc x = Ok c -> cf_decompress f md c = Ok x.
Proof. exact cf_round_trip_ok. Qed.

Theorem C11_format_compress_total : forall f mc x,
  (lenN x < cf_limit f -> exists c, cf_compress f mc x = Ok c) /\
  (cf_limit f <= lenN x -> cf_compress f mc x = Err ETooLarge).
Proof. exact cf_compress_total. Qed.

(* the formats crossed: the LZ13 entry point reads what the LZ10 format wrote (bare stream), the LZ10 entry point
   rejects what the LZ13 format wrote (0x13 wrapper = unknown type) *)
Theorem C11_formats_crossed : forall mc md x c, wfb x ->
  (cf_compress CF10 mc x = Ok c -> cf_decompress CF13 md c = Ok x) /\
  (cf_compress CF13 mc x = Ok c -> cf_decompress CF10 md c = Err EInvalidInput).
Proof.
  intros mc md x c Hw. split; [exact (cf13_reads_cf10 mc md x c Hw) | exact (cf10_rejects_cf13 mc md x c)].
Qed.

(* --- never a panic: arbitrary input (not even required to consist of bytes), either mode --- *)
Theorem C11_total : forall m bytes,
  ((exists a, lz10_decompress m bytes = Ok a) \/ lz10_decompress m bytes = Err EInvalidInput) /\
  ((exists a, lz13_decompress m bytes = Ok a) \/ lz13_decompress m bytes = Err EInvalidInput) /\
  (forall f, (exists a, cf_decompress f m bytes = Ok a) \/ cf_decompress f m bytes = Err EInvalidInput).
Proof. exact entry_points_total. Qed.

Theorem C11_mode_independent : forall m m' bytes,
  lz10_decompress m bytes = lz10_decompress m' bytes /\ lz13_decompress m bytes = lz13_decompress m' bytes.
Proof. exact mode_independent. Qed.

(* --- the named error classes --- *)
Theorem C11_empty : forall m,
  lz10_decompress m [] = Err EInvalidInput /\ lz13_decompress m [] = Err EInvalidInput /\
  cf_decompress CF10 m [] = Err EInvalidInput /\ cf_decompress CF13 m [] = Err EInvalidInput.
Proof. exact empty_is_error. Qed.

Theorem C11_shorter_than_a_header : forall m s, (length s < 4)%nat ->
  lz10_decompress m s = Err EInvalidInput /\ lz13_decompress m s = Err EInvalidInput.
Proof. exact short_is_error. Qed.

Theorem C11_unknown_type : forall m t s,
  (t <> 0x10 -> t <> 0x11 -> lz10_decompress m (t :: s) = Err EInvalidInput) /\
  (t <> 0x10 -> t <> 0x11 -> t <> 0x13 -> t <> 0 -> lz13_decompress m (t :: s) = Err EInvalidInput) /\
  (forall a b c, t <> 0x10 -> t <> 0x11 -> lz13_decompress m (0x13 :: a :: b :: c :: t :: s) = Err EInvalidInput).
Proof. exact unknown_type_is_error. Qed.

Theorem C11_truncated : forall m v s n ts p e, sparse v s = Some (n, ts) -> s = p ++ e -> e <> [] ->
  lz10_decompress m p = Err EInvalidInput /\
  lz13_decompress m p = Err EInvalidInput /\
  (forall a b c, lz13_decompress m (0x13 :: a :: b :: c :: p) = Err EInvalidInput).
Proof. exact truncated_is_error. Qed.

Theorem C11_reference_before_start : forall m v ext n ts len disp junk,
  (3 <= len <= max_len v)%nat -> (1 <= disp <= 4096)%nat ->
  valid v ts -> (total_len ts < disp)%nat -> N.of_nat (total_len ts) < n -> size_fits v ext n -> wfb junk ->
  let s := sheader v ext n ++ enc_body (senc v) (ts ++ [Ref len disp]) ++ junk in
  lz10_decompress m s = Err EInvalidInput /\ lz13_decompress m s = Err EInvalidInput /\
  (forall a b c, lz13_decompress m (0x13 :: a :: b :: c :: s) = Err EInvalidInput).
Proof. exact backref_is_error. Qed.

(* "shorter than a header" for the extended LZ11 form: 0x11 0 0 0 and fewer than four more bytes *)
Theorem C11_shorter_than_an_extended_header : forall m r, (length r < 4)%nat ->
  lz10_decompress m (0x11 :: 0 :: 0 :: 0 :: r) = Err EInvalidInput /\
  lz13_decompress m (0x11 :: 0 :: 0 :: 0 :: r) = Err EInvalidInput /\
  (forall a b c, lz13_decompress m (0x13 :: a :: b :: c :: 0x11 :: 0 :: 0 :: 0 :: r) = Err EInvalidInput).
Proof. exact short_ext_header_is_error. Qed.

(* non-vacuity of the two negative theorems with non-trivial instances: a legal prefix [Lit 1; Lit 2] followed by a
   reference three bytes back (second instance: the same with further flag bits set after the offending token - outside the
   shape of C11_reference_before_start, an error all the same); a well-formed LZ11 stream cut inside its four-byte token *)
Example C11_example_reference_before_start :
  let s := sheader V10 false 10 ++ enc_body (senc V10) ([Lit 1; Lit 2] ++ [Ref 3 3]) ++ [9; 9] in
  s = [0x10; 10; 0; 0; 0x20; 1; 2; 0x00; 0x02; 9; 9] /\ lz10_decompress Checked s = Err EInvalidInput /\
  lz10_decompress Checked [0x10; 10; 0; 0; 0x3F; 1; 2; 0x00; 0x02; 9; 9; 9; 9] = Err EInvalidInput.
Proof. vm_compute. repeat split. Qed.

Example C11_example_truncated :
  let ts := [Lit 7; Ref 300 1] in
  let s := sheader V11 false 301 ++ enc_body (senc V11) ts in
  sparse V11 s = Some (301, ts) /\ s = [0x11; 0x2D; 0x01; 0; 0x40; 7; 0x10; 0x01; 0xB0; 0x00] /\
  lz13_decompress Checked [0x11; 0x2D; 0x01; 0; 0x40; 7; 0x10; 0x01] = Err EInvalidInput /\
  lz13_decompress Wrapping (0x13 :: 1 :: 2 :: 3 :: [0x11; 0x2D; 0x01; 0; 0x40; 7; 0x10; 0x01; 0xB0]) = Err EInvalidInput.
Proof. vm_compute. repeat split. Qed.

(* non-vacuity.  A legal LZ11 token sequence with displacement 1, an overlapping copy and the middle and
   long length forms the library's compressor never emits with these lengths; it is accepted and decoded.
   The inputs of F13 / F14 are errors. *)
Example C11_example_conforming :
  let ts := [Lit 7; Ref 300 1; Lit 8; Ref 20 2; Ref 3 301] in
  valid V11 ts /\ size_fits V11 true 325 /\
  sparse V11 (sheader V11 true 325 ++ enc_body (senc V11) ts) = Some (325, ts) /\
  lz13_decompress Checked (0x13 :: 1 :: 2 :: 3 :: sheader V11 true 325 ++ enc_body (senc V11) ts)
    = Ok (repeat 7 301 ++ [8; 7; 8; 7; 8; 7; 8; 7; 8; 7; 8; 7; 8; 7; 8; 7; 8; 7; 8; 7; 8] ++ [7; 7; 7]).
Proof. exact example_conforming. Qed.

Example C11_example_findings : forall m,
  lz13_decompress m [] = Err EInvalidInput /\ lz13_decompress m [0x13; 0; 0] = Err EInvalidInput /\
  lz10_decompress m [0x10; 4; 0; 0; 0x80; 0x10; 0x05] = Err EInvalidInput.
Proof. intros []; vm_compute; repeat split. Qed.
