(* C08 - LZ10 compression emits a valid stream that expands to the input.
   Statements only; every proof is [exact <lemma>].  Models: Model/LZCore.v, LZ10.v, LZSpec.v, LZDecode.v. *)
From Coq Require Import List NArith Bool.
From Mila Require Import Lib.Bytes Lib.Machine Model.LZCore Model.LZ10 Model.LZSpec Model.LZDecode Proofs.LZCoreProofs.
Import ListNotations.

Theorem C08_tokens_expand : forall x, expand (tokens 18 x) = Some x.
Proof. exact (tokens_expand 18). Qed.
