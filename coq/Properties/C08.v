(* C08 - LZ10 compression emits a valid stream that expands to the input.
   Statements only; every proof is [exact <lemma>].
   Models (tied to /repo by `./check C08`):
     Model/LZCore.v   get_occurrence_length, the greedy loop, the emission loop   (src/lz13.rs:8-39, src/lz10.rs:16-63)
     Model/LZ10.v     header and token bytes of LZ10CompressionFormat::compress
     Model/LZDecode.v the library's decoder (lz13::decompress_lz, after the repair of F14) and LZ10CompressionFormat::decompress
     Model/LZSpec.v   specification side: the strict stream parser [sparse10] written from the format description.
   [wfb x] says that x is a byte string (every element < 256); lenN x < 2^24 is "shorter than 16 MiB".
   "Compression succeeds": Model/LZCompressMachine.v models get_occurrence_length and the loop of lz10.rs at
   machine level (the size guard of F21, checked slice indexing, usize arithmetic in a profile, the 17-byte
   out_buffer array, the shift 1 << (7 - buffered_blocks)); [C08_compress_succeeds] proves that it returns Ok of
   exactly [compress10 x] for every input shorter than 2^24 bytes in either profile - no index out of range, no
   underflow -, [C08_compress_rejects_large] that it is Err(InputTooLarge) from 2^24 bytes on, and
   [C08_machine_model] that it is the exported list model [compress10_o] on EVERY input. *)
From Coq Require Import List NArith Bool.
From Mila Require Import Lib.Bytes Lib.Machine Model.LZCore Model.LZ10 Model.LZSpec Model.LZDecode Model.LZCompressMachine
  Proofs.LZCoreProofs Proofs.LZTokens Proofs.LZ10Proofs Proofs.LZDecodeProofs Proofs.LZRoundTrip Proofs.LZFormat Proofs.LZCompressMachineProofs.
Import ListNotations.
Local Open Scope N_scope.

(* the token sequence of the greedy loop means the input (overlapping copies included) *)
Theorem C08_tokens_expand : forall x, expand (tokens 18 x) = Some x.
Proof. exact (tokens_expand 18). Qed.

(* what the match search may report *)
Theorem C08_token_ranges : forall x, Forall (tok_range 18) (tokens 18 x).
Proof. exact (tokens_ranges 18). Qed.

(* the output is a well-formed LZ10 stream: type byte 0x10, 24-bit LE size = input length, complete
   flag groups, references of length 3-18 and displacement 1-4096 reaching only into data already
   produced, no byte left over ([sparse10] checks all of that) - and its tokens expand to the input *)
Theorem C08_wellformed : forall x, wfb x -> lenN x < 2 ^ 24 ->
  exists ts, sparse10 (compress10 x) = Some (lenN x, ts) /\ Forall ref_in_range10 ts /\ expand ts = Some x.
Proof. exact compress10_wellformed. Qed.

(* the library's own decompressor returns the input, in the checked and in the wrapping build *)
Theorem C08_library_round_trip : forall x, wfb x -> lenN x < 2 ^ 24 ->
  forall m, lz10_decompress m (compress10 x) = Ok x.
Proof. exact compress10_round_trip. Qed.

(* the byte layout that is parsed: header, then the groups of the format description *)
Theorem C08_layout : forall x, compress10 x = header10 (lenN x) ++ enc_body (senc V10) (tokens 18 x).
Proof. exact compress10_enc. Qed.

(* compression succeeds for every input shorter than 16 MiB: the machine-level model (size guard of F21, every
   index, subtraction and the fixed-size buffer checked) never panics and computes compress10 ... *)
Theorem C08_compress_succeeds : forall m x, lenN x < 2 ^ 24 -> compress10_m m x = Ok (compress10 x).
Proof. exact compress10_m_succeeds. Qed.

(* ... and rejects every input of 16 MiB or more, whose length the 24-bit size field cannot store (repair of F21:
   before it, such an input was written with a truncated size and read back as a few bytes) *)
Theorem C08_compress_rejects_large : forall m x, 2 ^ 24 <= lenN x -> compress10_m m x = Err ETooLarge.
Proof. exact compress10_m_rejects. Qed.

(* for EVERY input and either profile the machine-level model is the exported list model [compress10_o]
   (guard, then compress10), which is what the extracted code runs *)
Theorem C08_machine_model : forall m x, compress10_m m x = compress10_o x.
Proof. exact compress10_m_eq. Qed.

(* whatever compress returns Ok for comes back from the library's decompressor: no size hypothesis needed *)
Theorem C08_round_trip_of_every_success : forall x c, wfb x -> compress10_o x = Ok c ->
  forall m, lz10_decompress m c = Ok x.
Proof. exact compress10_o_round_trip. Qed.

(* the same through the enum CompressionFormat::LZ10 (src/compression_format.rs:20-32): compress is the
   variant's compress, and decompress (compress x) = x, compress in profile mc, decompress in profile md *)
Theorem C08_format_entry : forall mc md x, wfb x -> lenN x < 2 ^ 24 ->
  cf_compress CF10 mc x = Ok (compress10 x) /\ cf_decompress CF10 md (compress10 x) = Ok x.
Proof.
  intros mc md x Hw Hn. split; [exact (compress10_o_small x Hn) | exact (compress10_round_trip x Hw Hn md)].
Qed.

(* non-vacuity: a 20-byte input with an overlapping reference (a run) and a window reference *)
Example C08_example :
  let x := [1;2;3;1;2;3;1;2;3;1;2;3;9;9;9;9;9;9;9;9] in
  wfb x /\ lenN x < 2 ^ 24 /\
  tokens 18 x = [Lit 1; Lit 2; Lit 3; Ref 9 3; Lit 9; Lit 9; Ref 6 2] /\
  compress10 x = [0x10; 20; 0; 0; 0x12; 1; 2; 3; 0x60; 2; 9; 9; 0x30; 1] /\
  lz10_decompress Checked (compress10 x) = Ok x.
Proof. vm_compute. repeat split; try reflexivity. repeat constructor. Qed.

Example C08_example_machine :
  let x := [1;2;3;1;2;3;1;2;3;1;2;3;9;9;9;9;9;9;9;9] in
  compress10_m Checked x = Ok [0x10; 20; 0; 0; 0x12; 1; 2; 3; 0x60; 2; 9; 9; 0x30; 1] /\ compress10_m Wrapping [] = Ok [0x10; 0; 0; 0] /\
  compress10_o x = Ok (compress10 x).
Proof. repeat split; vm_compute; reflexivity. Qed.
