(* C06 - text archive round trip (placeholder while the proofs are being written). *)
From Coq Require Import List NArith ZArith Bool.
From Mila Require Import Lib.Bytes Lib.Machine Model.BinArchive Model.TextMap Model.TextFormat.
Import ListNotations.
Local Open Scope N_scope.

Theorem C06_empty_legacy : forall e, exists a, build_archive ShiftJIS e tm_new = Ok a /\ from_archive ShiftJIS a = Ok tm_new.
Proof. intros e. eexists. split; reflexivity. Qed.
