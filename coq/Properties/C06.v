(* C06 - Text archive round trip preserves title, key order and every message; every message
   starts on a 4-byte boundary and carries its key as the label of that address.

   Model: Model/TextFormat.v (TextArchive::serialize / from_archive / from_bytes, the aligned
   Shift-JIS and UTF-16 string readers of src/encoded_strings.rs) on top of the bin-archive
   model; repaired code (F10 d30c8b5: empty legacy archive; F11 b4ac2c0: no BOM sniffing).
   Strings are ENCODED (A-codec): keys / title = Shift-JIS bytes, a legacy message = its
   Shift-JIS bytes, a Unicode message = its UTF-16 code units.  Tied to src/text_archive.rs,
   src/encoded_strings.rs by `./check C06` (image byte-exact, re-parsed entries, independent
   reference reader, A-codec sweep over every scalar value on the real library).

   DOMAIN ("any NUL-free text ... Shift-JIS-representable text for the legacy format").  The theorems quantify over ENCODED
   strings.  Read at the level of Rust Strings, through to_shift_jis / SHIFT_JIS.decode, they are statements about the
   strings s with decode (encode s) = s ("lossless"; A-codec, checked per string by the harness).  That is narrower than
   "encodes without error": encoding_rs' Shift-JIS encoder (WHATWG) also accepts
       U+00A5 YEN SIGN  -> 5C     (decodes to U+005C REVERSE SOLIDUS)
       U+203E OVERLINE  -> 7E     (decodes to U+007E TILDE)
       U+2212 MINUS SIGN -> 81 7C (decodes to U+FF0D FULLWIDTH HYPHEN-MINUS)
   so a key "\u{A5}k", a title "\u{A5}" or a legacy message "m\u{203E}\u{2212}" serializes without error and comes back as
   "\\k", "\\", "m~\u{FF0D}": these three code points are OUTSIDE the property's domain as read here (the same three that the
   quantifier of C01 names), for keys and the title in both formats and for legacy messages; the round trip holds for them
   only "up to decode o encode".  In the other direction, byte strings that decode without error but are not the encoder's
   choice (the NEC row 13 / IBM extension duplicates, 0x80, 0xA0, 0xFD-0xFF) parse to a String whose re-encoding differs
   from the file; they concern re-serialization of foreign files (C05, C06_parse_any_conforming_file), not the round trip
   of an archive built through the API.  UTF-16 messages have no such exclusion (C06_utf16_codec: every scalar value).

   Layers.  (1) archive level, fully proved: from_archive inverts build_archive - the BinArchive
   the writer hands to BinArchive::serialize - for all four encoding x endianness combinations,
   the empty archive and empty messages included.  (2) byte level: the reader only depends on
   the observable content of the archive (C06_reader_sees_observations_only), so the round trip
   on BYTES follows from the bin-archive round trip on archives made of raw bytes and labels
   ([bin_round_trip_premise]); that premise is discharged from the C01 theorems
   (serialize_conforms + parser_correct) in Proofs/TextBinBridge.v: what the text writer builds
   satisfies C01's wf_archive / fits32 (C06_image_in_C01_domain).  C06_round_trip and
   C06_layout_bytes are premise-free; their hypotheses are the property's domain (distinct keys,
   NUL-free title / keys / messages, valid UTF-16) and "the file is smaller than 4 GiB". *)
From Coq Require Import List NArith ZArith Bool.
From Mila Require Import Lib.Bytes Lib.Machine Model.BinArchive Model.BinStreams Model.BinFormat Model.TextMap Model.TextFormat Model.TextCodec
  Proofs.BinFormatSpec Proofs.BinSerializeConforms Proofs.ObsEqual Proofs.TextFormatRead Proofs.TextFormatWrite Proofs.TextFormatRoundTrip Proofs.TextBinBridge
  Proofs.Utf16Proofs Proofs.TextHistory.
From Mila Require Proofs.TextTotal.
Import ListNotations.
Local Open Scope N_scope.

(* ---- (1) archive level: title (Unicode format), ORDERED entries, dirty = false ---- *)
Theorem C06_round_trip_archive : forall fmt e t, wf_text fmt t ->
  exists a t', build_archive fmt e t = Ok a /\ from_archive fmt a = Ok t' /\
    (fmt = Unicode -> t_title t' = t_title t) /\ t_entries t' = t_entries t /\ t_dirty t' = false.
Proof. exact text_round_trip_archive_explicit. Qed.

(* the writer never fails: the archive it builds is the title cell followed by one cell per message,
   with exactly one label bucket [key] per message offset and nothing else *)
Theorem C06_build_archive_total : forall fmt e t, build_archive fmt e t = Ok (text_image fmt e t).
Proof. exact build_archive_spec. Qed.

(* the reader lemma: a terminator-free body followed by its terminator and padding, at a 4-aligned
   position, is read back exactly and the cursor lands on the end of the cell.  For UTF-16 the bytes are
   read in pairs from the aligned start, so only a zero UNIT terminates (units like 0x0001 0x0100, whose
   bytes 01 00 00 01 contain a misaligned zero pair, are covered: the hypothesis is just "no zero unit") *)
Theorem C06_cell_read_back : forall fmt a pre m post fuel,
  a_data a = pre ++ cell fmt m ++ post -> lenN pre mod 4 = 0 -> wf_msg fmt m -> (length (a_data a) < fuel)%nat ->
  r_read_message fmt fuel a (lenN pre) = (Ok m, lenN pre + lenN (cell fmt m)).
Proof. exact read_message_cell. Qed.

(* ---- layout: every message offset is a multiple of 4, carries exactly its key, holds exactly its cell ---- *)
Theorem C06_layout : forall fmt e t a, build_archive fmt e t = Ok a ->
  forall i k msg, nth_error (t_entries t) i = Some (k, msg) ->
    let off := entry_offset fmt t i in
    off mod 4 = 0 /\ read_labels a off = Ok (Some [k]) /\ am_get off (a_labels a) = Some [k] /\
    sliceN off (lenN (cell fmt msg)) (a_data a) = Some (cell fmt msg).
Proof. exact build_archive_layout. Qed.
Theorem C06_layout_nothing_else : forall fmt e t a, build_archive fmt e t = Ok a ->
  am_keys (a_labels a) = map (entry_offset fmt t) (seq 0 (length (t_entries t))) /\ a_text a = [] /\ a_ptrs a = [] /\ a_cstrs a = [].
Proof. exact build_archive_label_keys. Qed.

(* ---- the reader sees observations only ---- *)
Theorem C06_reader_sees_observations_only : forall fmt a a', obs_equal a a' -> from_archive fmt a' = from_archive fmt a.
Proof. exact from_archive_obs_equal. Qed.
(* the archives of this property are plain labelled archives - the domain of the premise below *)
Theorem C06_image_is_plain : forall fmt e t, wf_text_bytes fmt e t -> plain_labelled (text_image fmt e t).
Proof. exact text_image_plain. Qed.

(* ---- (2) byte level ---- *)
Definition C06_round_trip_statement (kf : name_key) (m : mode) : Prop :=
  forall fmt e t, wf_text fmt t -> wf_text_bytes fmt e t ->
    exists f t', TextFormat.serialize kf m fmt e t = Ok f /\ TextFormat.from_bytes fmt e f = Ok t' /\
      (fmt = Unicode -> t_title t' = t_title t) /\ t_entries t' = t_entries t /\ t_dirty t' = false.
(* the archives the writer builds lie in the domain of the bin-archive round trip C01 (wf_archive, fits32 of
   Proofs/BinSerializeConforms.v), and on them that round trip yields an observationally equal archive *)
Theorem C06_image_in_C01_domain : forall fmt e t, wf_text_bytes fmt e t ->
  wf_archive (text_image fmt e t) /\ fits32 (text_image fmt e t).
Proof. exact text_image_in_C01_domain. Qed.
Theorem C06_bin_round_trip_premise : forall kf m, bin_round_trip_premise kf m.
Proof. exact bin_round_trip_plain. Qed.
(* the round trip on BYTES, both arithmetic profiles, all four encoding x endianness combinations, and EVERY sort key
   of the label names [kf] (Model/BinFormat.v name_key): the big-endian label table of the library is ordered by the
   decoded keys (Rust String order), which is the instance kf = "scalars of the decoded key"; no property of kf is
   needed, because the keys sit on distinct addresses (the address tie-break makes the order total) and the parser
   does not look at the order of the label table *)
Theorem C06_round_trip : forall kf m, C06_round_trip_statement kf m.
Proof. exact text_round_trip_bytes_final. Qed.

Definition C06_layout_bytes_statement (kf : name_key) (m : mode) : Prop :=
  forall fmt e t, wf_text_bytes fmt e t ->
    exists f a', TextFormat.serialize kf m fmt e t = Ok f /\ BinFormat.from_bytes e f = Ok a' /\
      forall i k msg, nth_error (t_entries t) i = Some (k, msg) ->
        let off := entry_offset fmt t i in
        off mod 4 = 0 /\ read_labels a' off = Ok (Some [k]) /\ sliceN off (lenN (cell fmt msg)) (a_data a') = Some (cell fmt msg).
Theorem C06_layout_bytes : forall kf m, C06_layout_bytes_statement kf m.
Proof. exact text_layout_bytes_final. Qed.
(* the same on the FILE through the independent format relation [conforms] (Proofs/BinFormatSpec.v: written from the format
   description, it mentions neither serialize nor from_bytes): the image conforms with a content that has no pointers and no
   strings, whose data region is the title cell followed by the message cells, and whose label map puts exactly [key] on
   every message offset, each a multiple of 4 *)
Theorem C06_layout_conforms : forall kf m fmt e t, wf_text_bytes fmt e t ->
  exists f c, TextFormat.serialize kf m fmt e t = Ok f /\ wfb f /\ conforms e f c /\
    c_ptrs c = [] /\ c_text c = [] /\
    c_data c = a_data (text_image fmt e t) /\ c_labels c = a_labels (text_image fmt e t) /\
    forall i k msg, nth_error (t_entries t) i = Some (k, msg) ->
      let off := entry_offset fmt t i in
      off mod 4 = 0 /\ am_get off (c_labels c) = Some [k] /\ sliceN off (lenN (cell fmt msg)) (c_data c) = Some (cell fmt msg).
Proof. exact text_layout_conforms. Qed.
(* whatever the reader accepts is clean (C07's "the dirty flag is clear on a ... parsed archive"), unconditionally *)
Theorem C06_parsed_is_clean : forall fmt a t, TextFormat.from_archive fmt a = Ok t -> t_dirty t = false.
Proof. exact TextTotal.from_archive_is_clean. Qed.
Theorem C06_from_bytes_is_clean : forall fmt e f t, TextFormat.from_bytes fmt e f = Ok t -> t_dirty t = false.
Proof. exact TextTotal.from_bytes_is_clean. Qed.

(* ---- (2b) any conforming FILE, not only this writer's image ---- *)
(* from_bytes on a file that conforms to the bin-archive format relation of C01 (tables in any order, strings anywhere,
   extra strings / pointers the text reader never looks at) reads the file's content; a file whose data region is the title
   cell followed by the message cells of t, with [key] on every message offset, parses to t whatever tool wrote it *)
Theorem C06_file_reads_content : forall fmt e f c, conforms e f c ->
  TextFormat.from_bytes fmt e f = TextFormat.from_archive fmt (content_archive e c).
Proof. exact text_file_reads_content. Qed.
Theorem C06_parse_any_conforming_file : forall fmt e f c t, conforms e f c -> wf_text fmt t ->
  c_data c = a_data (text_image fmt e t) ->
  (forall x, am_get x (c_labels c) = am_get x (a_labels (text_image fmt e t))) ->
  TextFormat.from_bytes fmt e f = Ok (parsed fmt t).
Proof. exact text_parse_any_conforming_file. Qed.

(* ---- (3) the link to C07: the in-memory archive after ANY history of API calls is what the round trip returns ---- *)
(* str::encode_utf16 / the decoder of read_utf_16_impl on Unicode scalar values (Model/TextCodec.v): inverse on every Rust
   string, and the well-formed unit sequences the theorems above quantify over are exactly the encodings of Rust strings *)
Theorem C06_utf16_codec : forall s, Forall scalar s -> utf16_decode (utf16_encode s) = Some s /\ utf16_valid (utf16_encode s) = true.
Proof. exact utf16_codec. Qed.
Theorem C06_utf16_units_are_strings : forall us, Forall (fun u => u < 65536) us -> utf16_valid us = true ->
  exists s, utf16_decode us = Some s /\ Forall scalar s /\ utf16_encode s = us.
Proof. exact utf16_valid_is_encoding. Qed.
Theorem C06_utf16_unpaired_rejected : forall us, utf16_valid us = false -> utf16_decode us = None.
Proof. exact utf16_invalid_rejected. Qed.
(* new -> any sequence of set_message (with its backslash-n unescaping) / delete_message / has_message / get_message /
   set_title -> serialize -> from_bytes returns the title, exactly get_entries (same keys, same order, same messages) and
   dirty = false.  Unicode format, either endianness, either arithmetic profile; keys / title NUL-free ASCII (on which
   Shift-JIS is the identity), messages NUL-free Rust strings; tm_run is the model C07 is about. *)
Theorem C06_history_round_trip : forall kf m e ops, Forall clean_op ops ->
  file_bound (text_image Unicode e (encode_text (tm_run ops))) < 2 ^ 32 ->
  exists f, history_file kf m Unicode e ops = Ok f /\
    parse_text Unicode e f = Ok (Some {| t_title := t_title (tm_run ops); t_entries := t_entries (tm_run ops); t_dirty := false |}).
Proof. exact history_round_trip. Qed.
(* the legacy format: keys, title and messages NUL-free ASCII; the format stores no title, so the parsed title is empty *)
Theorem C06_history_round_trip_legacy : forall kf m e ops, Forall ascii_op ops ->
  file_bound (text_image ShiftJIS e (tm_run ops)) < 2 ^ 32 ->
  exists f, history_file kf m ShiftJIS e ops = Ok f /\
    parse_text ShiftJIS e f = Ok (Some {| t_title := []; t_entries := t_entries (tm_run ops); t_dirty := false |}).
Proof. exact history_round_trip_legacy. Qed.
Theorem C06_history_round_trip_lookup : forall kf m e ops, Forall clean_op ops ->
  file_bound (text_image Unicode e (encode_text (tm_run ops))) < 2 ^ 32 ->
  exists f t', history_file kf m Unicode e ops = Ok f /\ parse_text Unicode e f = Ok (Some t') /\
    tm_keys t' = tm_keys (tm_run ops) /\ forall k, tm_get t' k = tm_get (tm_run ops) k.
Proof. exact history_round_trip_lookup. Qed.
(* the same for any in-memory archive value with distinct keys (not only reachable ones) *)
Theorem C06_round_trip_decoded : forall kf m e t, NoDup (map fst (t_entries t)) -> clean_text t ->
  file_bound (text_image Unicode e (encode_text t)) < 2 ^ 32 ->
  exists f, TextFormat.serialize kf m Unicode e (encode_text t) = Ok f /\
    parse_text Unicode e f = Ok (Some {| t_title := t_title t; t_entries := t_entries t; t_dirty := false |}).
Proof. exact text_round_trip_decoded. Qed.
(* a history with an astral character, an escape sequence, a delete and a re-add, a BOM-like message; big endian *)
Example C06_history_example :
  let ops := [TTitle [84]; TSet [107;49] [0x1F600; 92; 110; 97]; TSet [107;50] []; TDel [107;49]; TSet [107;49] [0xFEFF]] in
  Forall clean_op ops /\ file_bound (text_image Unicode BE (encode_text (tm_run ops))) < 2 ^ 32 /\
  exists f, history_file key_bytes Checked Unicode BE ops = Ok f /\
    parse_text Unicode BE f = Ok (Some {| t_title := [84]; t_entries := [([107;50], []); ([107;49], [0xFEFF])]; t_dirty := false |}).
Proof. exact history_example. Qed.

(* ---- non-vacuity ---- *)
(* a Unicode archive whose first message starts with U+FEFF, contains the units 0x0001 0x0100 (bytes 01 00 00 01)
   and an astral character (surrogate pair), with an empty message and an empty key *)
Definition C06_sample : tmap :=
  {| t_title := [84; 105];
     t_entries := [([107; 49], [0xFEFF; 0x0001; 0x0100; 0xD83D; 0xDE00]); ([107; 50], []); ([], [0xFFFE])];
     t_dirty := true |}.
Example C06_sample_wf : wf_text Unicode C06_sample /\ wf_text_bytes Unicode BE C06_sample.
Proof.
  split.
  - split; [|split].
    + repeat constructor; cbn; intuition discriminate.
    + intros _. cbn. intuition discriminate.
    + repeat constructor; cbn; try reflexivity; try discriminate.
  - split; [|split].
    + repeat constructor.
    + repeat constructor; cbn; intuition discriminate.
    + vm_compute. reflexivity.
Qed.
Example C06_sample_round_trip :
  exists a, build_archive Unicode BE C06_sample = Ok a /\ a_data a = [84;105;0;0; 0xFF;0xFE;1;0;0;1;0x3D;0xD8;0;0xDE;0;0; 0;0;0;0; 0xFE;0xFF;0;0]
    /\ a_labels a = [(4, [[107;49]]); (16, [[107;50]]); (20, [[]])]
    /\ from_archive Unicode a = Ok {| t_title := [84; 105]; t_entries := t_entries C06_sample; t_dirty := false |}.
Proof. eexists. vm_compute. repeat split. Qed.
(* the empty legacy archive (finding F10) and the legacy format's trail byte 0x5C *)
Example C06_empty_legacy : forall e, exists a, build_archive ShiftJIS e tm_new = Ok a /\ a_data a = [] /\ from_archive ShiftJIS a = Ok tm_new.
Proof. intros e. eexists. repeat split. Qed.
Example C06_sample_legacy :
  let t := {| t_title := [1]; t_entries := [([75], [0x83; 0x5C; 110]); ([76], [])]; t_dirty := false |} in
  wf_text ShiftJIS t /\ exists a, build_archive ShiftJIS LE t = Ok a /\ a_data a = [0x83;0x5C;110;0; 0;0;0;0] /\
  from_archive ShiftJIS a = Ok {| t_title := []; t_entries := t_entries t; t_dirty := false |}.
Proof.
  split.
  - split; [|split]; [repeat constructor; cbn; intuition discriminate | discriminate | repeat constructor; cbn; intuition discriminate].
  - eexists. vm_compute. repeat split.
Qed.
(* an unpaired surrogate is not in the domain (a Rust String cannot hold it) and the reader rejects it *)
Example C06_lone_surrogate_rejected :
  exists a, build_archive Unicode LE {| t_title := []; t_entries := [([107], [0xD800; 97])]; t_dirty := false |} = Ok a /\
            from_archive Unicode a = Err EDecoding.
Proof. eexists. vm_compute. split; reflexivity. Qed.
