(* C13 - Layered filesystem listings are the sorted, de-duplicated union of layers.
   Model: Model/LayeredFS.v (tied to src/layered_filesystem.rs by `./check C13`: listing histories on real
   temp directories compared as lists, every listed path put to the real `exists`).
   The model describes the REPAIRED code (findings F16: layer prefix stripped at the start only; F18: glob
   metacharacters of the directory path escaped).

   Pattern family: "**/*" (the default) = PAll, "*" = PStar, "*.<ext>" = PExt, "**/*.<ext>" = PRecExt,
   "<name>/*" = PSub; [matchesP] below is what each selects, written from glob's documentation
   (assumption A-fs: glob 0.3 with default options - '*' also matches names with a leading dot, "**/" matches
   zero or more directories, directories are results like files; observed through the correspondence).

   DOMAIN of the pattern arguments (review r4, C13-1): the code pastes the caller's pattern string after the escaped
   directory and hands it to glob::glob, which INTERPRETS it; the model reads <ext> and <name> LITERALLY.  The two
   agree only for arguments free of glob's metacharacters and of the separator, so the family is modelled for
   [wf_pattern pat = true] only: <ext> / <name> contain none of  * ? [ ] { } \ /  (glob 0.3 gives a meaning to * ? [ and
   splits at '/'; ] { } \ are excluded as well, being special in other glob dialects / on Windows) and <name> is a plain
   component.  Outside, [fs_list] answers [FErr EUnmodelled] and the theorems below say nothing - e.g. the code's
   list("d", "*.[t]") returns d/b.t where the literal reading would return d/c.[t] ([C13_example_literal]).
   Directory and file NAMES in the layers (and the listed directory itself) may contain any of these characters.

   The file-system half of C14 ([C14_fs_consistent]) is a corollary of the same definitions; it is stated in
   Properties/C14.v. *)
From Coq Require Import List NArith Bool Arith Sorted.
From Mila Require Import Lib.Bytes Lib.Machine Model.Localize Proofs.LocalizeProofs Model.LayeredFS
  Proofs.LayeredFSBase Proofs.LayeredFSStack Proofs.LayeredFSList Proofs.LayeredFSWf Proofs.LayeredFSLocal.
Import ListNotations.
Local Open Scope N_scope.

(* the strict byte-wise order of Rust's String (on the rendered path, so '/' = 0x2F takes its real place) *)
Definition bytes_lt (a b : str) : Prop := bytes_cmp a b = Lt.

(* membership: exactly the rendered entries of the union of the per-layer listings ... *)
Theorem C13_list_spec : forall S d pat loc s a l,
  fs_addr S d loc = FOk (s, a) -> fs_list S d pat loc = FOk l ->
  forall x, In x l <-> exists L q, In L (layers S) /\ In q (l_list L a pat) /\ x = render_path q.
Proof. exact list_spec. Qed.

(* ... where one (well-formed) layer contributes exactly the entries - files AND directories - present in it
   strictly under the directory that the pattern selects *)
Theorem C13_layer_list_spec : forall L d tr pat q, wf_layer L -> wf_pattern pat = true ->
  (In q (l_list L (d, tr) pat) <-> present L q /\ exists rel, q = d ++ rel /\ matchesP pat rel).
Proof. intros L d tr pat q W _. exact (l_list_wf L d tr pat q W). Qed.

(* the domain of the pattern arguments, in words: a listing answers Ok only inside it *)
Theorem C13_pattern_domain : forall pat, wf_pattern pat = true <->
  match pat with
  | PAll | PStar => True
  | PExt e | PRecExt e => glob_literal e
  | PSub n => plainP n /\ glob_literal n
  end.
Proof. exact wf_pattern_spec. Qed.
Theorem C13_glob_literal_is : forall s, glob_literal s <-> forall c, In c s -> ~ In c [42; 63; 91; 93; 123; 125; 92; 47].
Proof. intros s. split; exact (fun H => H). Qed.
Theorem C13_list_ok_pattern : forall S d pat loc l, fs_list S d pat loc = FOk l -> wf_pattern pat = true.
Proof. exact fs_list_ok_pattern. Qed.
Theorem C13_list_outside_domain : forall S d pat loc s a,
  fs_addr S d loc = FOk (s, a) -> wf_pattern pat = false -> fs_list S d pat loc = FErr EUnmodelled.
Proof. intros S d pat loc s a A W. rewrite (fs_list_result S d pat loc s a A), W. reflexivity. Qed.

(* both together: on well-formed layers (an invariant of all histories, below) the listing consists exactly of the
   rendered entries that SOME layer holds strictly under the directory and that the pattern selects
   (the hypothesis "fs_list .. = FOk l" confines pat to the modelled family: C13_list_ok_pattern) *)
Theorem C13_list_union : forall S d pat loc s dd tr l,
  wf_fs S -> fs_addr S d loc = FOk (s, (dd, tr)) -> fs_list S d pat loc = FOk l ->
  forall x, In x l <-> exists L q rel, In L (layers S) /\ present L q /\ q = dd ++ rel /\ matchesP pat rel /\ x = render_path q.
Proof. exact list_union. Qed.

(* ascending in the strict order: sorted and duplicate-free *)
Theorem C13_list_sorted : forall S d pat loc l, fs_list S d pat loc = FOk l -> StronglySorted bytes_lt l.
Proof. exact list_sorted. Qed.
Theorem C13_list_nodup : forall S d pat loc l, fs_list S d pat loc = FOk l -> NoDup l.
Proof. intros S d pat loc l H. exact (strictly_sorted_nodup l (list_sorted S d pat loc l H)). Qed.

(* membership + strict order determine the result: any strictly sorted list with those members IS the listing,
   and the order in which the layers are stacked does not matter for listings *)
Theorem C13_list_canonical : forall S d pat loc s a l l',
  fs_addr S d loc = FOk (s, a) -> fs_list S d pat loc = FOk l -> StronglySorted bytes_lt l' ->
  (forall x, In x l' <-> exists L q, In L (layers S) /\ In q (l_list L a pat) /\ x = render_path q) -> l' = l.
Proof. exact list_canonical. Qed.
Theorem C13_list_layer_order : forall S S' d pat loc,
  conf S' = conf S -> lng S' = lng S -> (forall L, In L (layers S') <-> In L (layers S)) ->
  fs_list S' d pat loc = fs_list S d pat loc.
Proof. exact list_layer_order. Qed.

(* sub-directories: exactly the immediate children that are directories in some layer, sorted *)
Theorem C13_subdirs_spec : forall S d loc s a l,
  fs_addr S d loc = FOk (s, a) -> fs_subdirectories S d loc = FOk l ->
  StronglySorted bytes_lt l /\
  forall x, In x l <-> exists L q, In L (layers S) /\ In q (l_subdirs L a) /\ x = render_path q.
Proof. intros S d loc s a l A H. split; [exact (subdirs_sorted S d loc l H) | exact (subdirs_spec S d loc s a l A H)]. Qed.
Theorem C13_layer_subdirs_spec : forall L d tr q, wf_layer L ->
  (In q (l_subdirs L (d, tr)) <-> l_get L q = Some Dir /\ exists n, q = d ++ [n]).
Proof. exact l_subdirs_wf. Qed.
(* both together (review r4, C13-2), and without duplicates *)
Theorem C13_subdirs_union : forall S d loc s dd tr l,
  wf_fs S -> fs_addr S d loc = FOk (s, (dd, tr)) -> fs_subdirectories S d loc = FOk l ->
  forall x, In x l <-> exists L n, In L (layers S) /\ l_get L (dd ++ [n]) = Some Dir /\ x = render_path (dd ++ [n]).
Proof. exact subdirs_union. Qed.
Theorem C13_subdirs_nodup : forall S d loc l, fs_subdirectories S d loc = FOk l -> NoDup l.
Proof. intros S d loc l H. exact (strictly_sorted_nodup l (subdirs_sorted S d loc l H)). Qed.

(* every listed path exists according to the filesystem's own existence queries *)
Theorem C13_listed_exist : forall S d pat loc l x,
  wf_fs S -> fs_list S d pat loc = FOk l -> In x l -> fs_exists S x false = FOk true.
Proof. exact listed_exist. Qed.
Theorem C13_subdirs_listed_exist : forall S d loc l x,
  wf_fs S -> fs_subdirectories S d loc = FOk l -> In x l -> fs_directory_exists S x false = FOk true.
Proof. exact subdirs_listed_exist. Qed.
(* ... of its KIND (review r4, C13-3): a listed file satisfies file_exists, a listed directory directory_exists, as found in the
   layer that contributed the entry *)
Theorem C13_listed_exist_kind : forall S d pat loc l x,
  wf_fs S -> fs_list S d pat loc = FOk l -> In x l ->
  exists L q, In L (layers S) /\ x = render_path q /\
    match l_get L q with
    | Some (File _) => fs_file_exists S x false = FOk true
    | Some Dir => fs_directory_exists S x false = FOk true
    | None => False
    end.
Proof. exact listed_exist_kind. Qed.

(* a directory present in no layer lists as empty *)
Theorem C13_missing_is_empty : forall S d pat loc s a,
  wf_pattern pat = true -> fs_addr S d loc = FOk (s, a) -> (forall L, In L (layers S) -> l_is_dir L a = false) ->
  fs_list S d pat loc = FOk [] /\ fs_subdirectories S d loc = FOk [].
Proof. exact missing_is_empty. Qed.

(* a localized listing is the unlocalized listing of the localized directory *)
Theorem C13_localized : forall S d d' pat,
  localize (c_loc (conf S)) (lng S) d = LOk d' ->
  fs_list S d pat true = fs_list S d' pat false /\ fs_subdirectories S d true = fs_subdirectories S d' false.
Proof. exact list_localized. Qed.

(* "after arbitrary prior writes": well-formedness (the hypothesis of the theorems above) is an invariant of
   every history of operations, for every codec; the executable check used on the initial layers is sound *)
Theorem C13_wf_invariant : forall compress decompress os S,
  wf_fs S -> wf_fs (fs_run compress decompress S os).
Proof. intros c d os S. exact (fs_run_wf c d os S). Qed.
Theorem C13_wf_check_sound : forall L, wf_layerb L = true -> wf_layer L.
Proof. exact wf_layerb_sound. Qed.

(* ---- non-vacuity ---- *)
(* two layers with the same file, a directory only in the lower one, a hidden file; the default listing of "d" *)
Definition ex_l0 : layer := [([[100]], Dir); ([[100]; [97]], File [1]); ([[100]; [115]], Dir); ([[100]; [115]; [46; 104]], File [])].
Definition ex_l1 : layer := [([[100]], Dir); ([[100]; [97]], File [2]); ([[100]; [98; 46; 116]], File [3])].
Definition ex_fs : fsys := mkFs [ex_l0; ex_l1] (mkConfig LZ13 GFE13 LE Unicode) EnglishNA.
Example C13_example_wf : wf_fs ex_fs.
Proof. unfold wf_fs, ex_fs. cbn [layers]. constructor; [|constructor; [|constructor]]; apply wf_layerb_sound; vm_compute; reflexivity. Qed.
Example C13_example_list :
  fs_list ex_fs [100] PAll false = FOk [[100; 47; 97]; [100; 47; 98; 46; 116]; [100; 47; 115]; [100; 47; 115; 47; 46; 104]]
  /\ fs_list ex_fs [100] (PExt [116]) false = FOk [[100; 47; 98; 46; 116]]
  /\ fs_subdirectories ex_fs [100] false = FOk [[100; 47; 115]]
  /\ fs_list ex_fs [110; 111] PAll false = FOk [].
Proof. vm_compute. repeat split. Qed.

(* the LITERAL reading of the pattern arguments, and its limit.  Top layer of ex_lit: d/b.t, d/c.[t], d/e.t!, d/s/x.
   - "*.t!" ('!' is not in the excluded set): the name ending in ".t!";  "s/*": the entry under d/s;
   - "*.[t]" is OUTSIDE the model (the code returns d/b.t there, glob reading [t] as a character class; the per-layer model
     function, asked directly, would select d/c.[t]);  likewise "?/*" and "<a/b>/*" *)
Definition ex_lit : fsys :=
  mkFs [[([[100]], Dir); ([[100]; [98; 46; 116]], File []); ([[100]; [99; 46; 91; 116; 93]], File []);
         ([[100]; [101; 46; 116; 33]], File []); ([[100]; [115]], Dir); ([[100]; [115]; [120]], File [])]]
       (mkConfig LZ13 GFE13 LE Unicode) EnglishNA.
Example C13_example_literal :
  fs_list ex_lit [100] (PExt [116; 33]) false = FOk [[100; 47; 101; 46; 116; 33]]
  /\ fs_list ex_lit [100] (PSub [115]) false = FOk [[100; 47; 115; 47; 120]]
  /\ wf_pattern (PExt [116; 33]) = true /\ wf_pattern (PSub [115]) = true
  /\ fs_list ex_lit [100] (PExt [91; 116; 93]) false = FErr EUnmodelled
  /\ l_list (hd [] (layers ex_lit)) ([[100]], false) (PExt [91; 116; 93]) = [[[100]; [99; 46; 91; 116; 93]]]
  /\ fs_list ex_lit [100] (PSub [63]) false = FErr EUnmodelled
  /\ fs_list ex_lit [100] (PSub [115; 47; 120]) false = FErr EUnmodelled
  /\ fs_list ex_lit [100] (PSub [46; 46]) false = FErr EUnmodelled.
Proof. vm_compute. repeat split. Qed.
